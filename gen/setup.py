#!/usr/bin/env python3
"""setup_cmd: build the Coq development (full .vo build), the extracted model driver and the
Rust harness binaries, offline, from files on disk."""
import os, sys
sys.path.insert(0, os.path.dirname(os.path.abspath(__file__)))
from vlib import *

ALL_BINS = sorted(f[:-3] for f in os.listdir(os.path.join(HARNESS, "src", "bin")) if f.endswith(".rs"))

if __name__ == "__main__":
    build_coq()
    bad = audit_sources()
    if bad:
        print("forbidden declarations:", bad)
        sys.exit(1)
    build_harness(ALL_BINS)
    # translation tie: build the translator, translate /repo, compile every tie / pin file once (results are cached on
    # the content of the generated sources, so the checks only re-compile what a change to /repo invalidates)
    units = tie_units(CRATES, "core") + tie_units(CRATES, "aux")
    r = check_ties(units)
    print("ties:", r["lemmas"], "statements in", len(r["units"]), "files;", len(r["problems"]), "problems")
    for pr in r["problems"]:
        print("  ", pr[:300])
    print("setup ok:", ALL_BINS)
