#!/usr/bin/env python3
"""For every seeded change: apply it to /repo, see which tie / pin files of its property no longer check
(translation tie only, no differential run), revert.  Output: one line per seed."""
import json, os, subprocess, sys, importlib.util
sys.path.insert(0, os.path.dirname(os.path.abspath(__file__)))
import vlib
spec = importlib.util.spec_from_loader("chk", loader=None)
src = open(os.path.join(vlib.VERIF, "check")).read().split("def main():")[0]
ns = {'__file__': os.path.join(vlib.VERIF, 'check')}
exec(src, ns)
out = {}
for name in sorted(os.listdir(os.path.join(vlib.VERIF, "seeded"))):
    d = os.path.join(vlib.VERIF, "seeded", name)
    patch = os.path.join(d, "patch.diff")
    if not os.path.exists(patch):
        continue
    pid = name[:3]
    if subprocess.run(["git", "-C", "/repo", "apply", patch]).returncode != 0:
        print(name, "patch does not apply"); continue
    try:
        r = vlib.check_ties(ns["tie_units_for"](pid))
        bad = [u["unit"] for u in r["units"] if not u["ok"]]
        first = []
        for p in r["problems"]:
            import re
            m = re.search(r"first failing statement `(\w+)`", p)
            first.append(m.group(1) if m else "?")
        out[name] = dict(broken_units=bad, first_failing=first)
        print(name, pid, "BROKEN" if bad else "intact", bad, first, flush=True)
    finally:
        subprocess.run(["git", "-C", "/repo", "checkout", "--", "."])
json.dump(out, open(os.path.join(vlib.WORK, "seedties.json"), "w"), indent=1)
