"""Shared generator pieces: configuration matrix, random data, call schedules."""
from vlib import Case, hx, rbytes

# (bs, w, dmode) compiled into harness/src/bin/hb_block.rs
BLOCK_CFGS = [(1, 1, "inv"), (1, 3, "inv"), (2, 2, "inv"), (2, 7, "inv"), (3, 4, "unrel"), (5, 3, "inv"), (8, 1, "inv"),
              (8, 5, "unrel"), (16, 2, "inv"), (16, 8, "inv"), (16, 7, "unrel"), (17, 3, "inv"), (32, 4, "inv"),
              (255, 2, "inv")]


def rbytes_n(rng, n):
    return bytes(rng.getrandbits(8) for _ in range(n))


def pick_cfg(rng, cfgs, i=None):
    """round-robin over the matrix for the first cases so that every configuration is hit, then random"""
    if i is not None and i < len(cfgs):
        return cfgs[i]
    return rng.choice(cfgs)


def nblocks(rng, w, tier):
    """number of blocks: around multiples of the parallel width, 0 and 1 included"""
    cands = [0, 1, 2, w - 1, w, w + 1, 2 * w - 1, 2 * w, 2 * w + 1, 3 * w + 1, 3 * w + 2]
    cands = [c for c in cands if c >= 0]
    if tier == "thorough":
        cands += [5 * w + 3, 8 * w + 1, rng.randint(0, 40)]
    return rng.choice(cands)


def schedule(rng, n, w):
    """composition of n into call sizes (zeros allowed for multi-block calls); each piece gets a kind
    (single-block call or multi-block call) and a place (in place / buffer to buffer)"""
    pieces = []
    left = n
    while left > 0:
        cands = [1, 1, 1, 2, w - 1, w, w + 1, 2 * w, 2 * w + 1, rng.randint(1, max(1, left))]
        k = rng.choice([c for c in cands if 1 <= c <= left] or [left])
        if rng.random() < 0.08:
            pieces.append(("blks", 0, rng.choice(["ip", "b2b"])))
        kind = "blk" if (k == 1 and rng.random() < 0.75) else "blks"
        place = rng.choice(["ip", "b2b", "b2b"]) if kind == "blks" else rng.choice(["ip", "ip", "b2b", "io"])
        pieces.append((kind, k, place))
        left -= k
    if n == 0 and rng.random() < 0.5:
        pieces.append(("blks", 0, rng.choice(["ip", "b2b"])))
    return pieces


def feed(case, rng, obj, src, total, mbs, sched):
    """emit the calls of `sched` on object `obj`; the data comes from `src` (literal bytes, or a
    ('ref', k) of a previous result holding `total` bytes).  Returns the op indices of the outputs."""
    outs, off = [], 0
    for kind, k, place in sched:
        ln = k * mbs
        if isinstance(src, (bytes, bytearray)):
            d = hx(src[off:off + ln])
        else:
            s = case.op("sub @%d %d %d" % (src[1], off, ln))
            d = "@%d" % s
        off += ln
        if place == "ip":
            outs.append(case.op("%s %s ip %s" % (kind, obj, d)))
        else:
            junk = rbytes_n(rng, ln)
            outs.append(case.op("%s %s %s %s %s" % (kind, obj, place, d, hx(junk))))
    assert off == total, (off, total)
    return outs


def joined(results, idxs):
    return b"".join(rbytes(results[i]) for i in idxs)


# ---- keystream family ------------------------------------------------------------------------------
# (bs, w, dmode, kinds) compiled into harness/src/bin/hb_stream.rs
CTR32 = ["ctr32be", "ctr32le"]
CTR64 = ["ctr64be", "ctr64le"]
CTR128 = ["ctr128be", "ctr128le"]
STREAM_CFGS = [
    (1, 2, "inv", ["ofb"]), (5, 3, "unrel", ["ofb"]),
    (4, 3, "inv", ["ofb"] + CTR32), (12, 2, "unrel", ["ofb"] + CTR32),
    (8, 1, "inv", ["ofb"] + CTR32 + CTR64), (8, 4, "unrel", ["ofb"] + CTR32 + CTR64), (24, 3, "inv", ["ofb"] + CTR32 + CTR64),
    (16, 1, "inv", ["ofb", "belt"] + CTR32 + CTR64 + CTR128), (16, 2, "unrel", ["ofb", "belt"] + CTR32 + CTR64 + CTR128),
    (16, 3, "inv", ["ofb", "belt"] + CTR32 + CTR64 + CTR128), (16, 5, "inv", ["ofb", "belt"] + CTR32 + CTR64 + CTR128),
    (16, 8, "inv", ["ofb", "belt"] + CTR32 + CTR64 + CTR128),
    (32, 4, "inv", ["ofb"] + CTR32 + CTR64 + CTR128), (48, 2, "unrel", ["ofb"] + CTR32 + CTR64 + CTR128),
]
CTS_CFGS = [c for c in BLOCK_CFGS if c != (2, 7, "inv")]    # hb_cts.rs is compiled without the (2,7) configuration
CTS_KINDS = ["cbc_cs1", "cbc_cs2", "cbc_cs3", "ecb_cs1", "ecb_cs2", "ecb_cs3"]


def ctr_params(kind):
    """(counter bits, endianness) of a ctr kind name"""
    bits = int("".join(ch for ch in kind if ch.isdigit()))
    return bits, ("be" if kind.endswith("be") else "le")


def stream_cfgs_for(pred):
    """[(bs, w, dm, kind)] for every compiled configuration and kind satisfying pred(kind)"""
    return [(bs, w, dm, k) for bs, w, dm, ks in STREAM_CFGS for k in ks if pred(k)]


def boundary_iv(rng, bs, kind):
    """IV whose counter field sits at an interesting value (0, 1, 2^k-1, 2^w-2, 2^w-1, random)"""
    iv = bytearray(rbytes_n(rng, bs))
    if kind.startswith("ctr"):
        bits, end = ctr_params(kind)
        k = bits // 8
        choice = rng.choice(["rand", "zero", "one", "max", "max-1", "pow", "pow"])
        if choice == "rand":
            v = rng.getrandbits(bits)
        elif choice == "zero":
            v = 0
        elif choice == "one":
            v = 1
        elif choice == "max":
            v = (1 << bits) - 1
        elif choice == "max-1":
            v = (1 << bits) - 2
        else:
            v = (1 << rng.randint(1, bits)) - 1 - rng.choice([0, 0, 1, 2])
            v %= (1 << bits)
        if end == "be":
            iv[-k:] = v.to_bytes(k, "big")
        else:
            iv[:k] = v.to_bytes(k, "little")
    return bytes(iv)


def byte_pieces(rng, n, bs):
    """composition of n bytes into piece lengths: zeros allowed, pieces ending on block boundaries,
    pieces straddling boundaries"""
    pieces, left = [], n
    while left > 0:
        cands = [0, 1, bs - 1, bs, bs + 1, 2 * bs, 2 * bs + 3, 4 * bs, 4 * bs + 1, 5 * bs + 2, rng.randint(0, left),
                 rng.randint(0, min(left, 3 * bs + 2))]
        k = rng.choice([c for c in cands if 0 <= c <= left])
        pieces.append(k)
        left -= k
    if rng.random() < 0.3:
        pieces.append(0)
    return pieces


def stream_feed(case, rng, op, obj, src, pieces, places=("ip", "b2b")):
    """emit `op obj ip|b2b piece` for every piece; src is bytes or ('ref', k)"""
    outs, off = [], 0
    for ln in pieces:
        if isinstance(src, (bytes, bytearray)):
            d = hx(src[off:off + ln])
        else:
            s = case.op("sub @%d %d %d" % (src[1], off, ln))
            d = "@%d" % s
        off += ln
        place = rng.choice(places)
        if place == "ip":
            outs.append(case.op("%s %s ip %s" % (op, obj, d)))
        else:
            outs.append(case.op("%s %s b2b %s %s" % (op, obj, d, hx(rbytes_n(rng, ln)))))
    return outs


def no_panic(results):
    return all(r[0] != "panic" and not (r[0] == "text" and r[1] == "6572722d6275742d6275666665722d6d6f646966696564") for r in results)


ALL_KINDS = ["ofb", "belt"] + CTR32 + CTR64 + CTR128


def pick_stream(rng, i, pred=lambda k: True):
    """round-robin over the KINDS (so that BelT and every CTR flavour get an equal share), then a
    random compiled configuration supporting the kind, preferring parallel widths > 1"""
    kinds = [k for k in ALL_KINDS if pred(k)]
    kind = kinds[i % len(kinds)]
    cfgs = [(bs, w, dm) for bs, w, dm, ks in STREAM_CFGS if kind in ks]
    wide = [c for c in cfgs if c[1] > 1]
    bs, w, dm = rng.choice(wide if (wide and rng.random() < 0.8) else cfgs)
    return bs, w, dm, kind


def stream_iv(rng, bs, kind, key, dm):
    """IV for a keystream cipher: counter field at a boundary for CTR; for BelT (when D inverts E) an IV
    whose encryption s0 is near 2^128 - 1 or has its low 64-bit word near 2^64 - 1 half of the time"""
    if kind == "belt" and dm == "inv" and rng.random() < 0.6:
        import oracle
        tc = oracle.Toy(key, dm)
        if rng.random() < 0.5:
            s0 = (1 << 128) - 1 - rng.choice([0, 1, 2, 3, 5, 8, 17])
        else:
            s0 = (rng.getrandbits(64) << 64) | ((1 << 64) - 1 - rng.choice([0, 1, 2, 3, 5, 8]))
        return tc.D(s0.to_bytes(16, "little"))
    return boundary_iv(rng, bs, kind)


def async_op(case, rng, obj, msg):
    """one-shot AsyncStreamCipher call, in place or buffer-to-buffer over arbitrary output contents"""
    if rng.random() < 0.5:
        return case.op("async %s ip %s" % (obj, hx(msg)))
    return case.op("async %s b2b %s %s" % (obj, hx(msg), hx(rbytes_n(rng, len(msg)))))
