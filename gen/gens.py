"""Shared generator pieces: configuration matrix, random data, call schedules."""
from vlib import Case, hx, rbytes

# (bs, w, dmode) compiled into harness/src/bin/hb_block.rs
BLOCK_CFGS = [(1, 1, "inv"), (1, 3, "inv"), (2, 2, "inv"), (3, 4, "unrel"), (5, 3, "inv"), (8, 1, "inv"),
              (8, 5, "unrel"), (16, 2, "inv"), (16, 8, "inv"), (16, 7, "unrel"), (17, 3, "inv"), (32, 4, "inv"),
              (255, 2, "inv")]


def rbytes_n(rng, n):
    return bytes(rng.getrandbits(8) for _ in range(n))


def pick_cfg(rng, cfgs, i=None):
    """round-robin over the matrix for the first cases so that every configuration is hit, then random"""
    if i is not None and i < len(cfgs):
        return cfgs[i]
    return rng.choice(cfgs)


def nblocks(rng, w, tier):
    """number of blocks: around multiples of the parallel width, 0 and 1 included"""
    cands = [0, 1, 2, w - 1, w, w + 1, 2 * w - 1, 2 * w, 2 * w + 1, 3 * w + 1, 3 * w + 2]
    cands = [c for c in cands if c >= 0]
    if tier == "thorough":
        cands += [5 * w + 3, 8 * w + 1, rng.randint(0, 40)]
    return rng.choice(cands)


def schedule(rng, n, w):
    """composition of n into call sizes (zeros allowed for multi-block calls); each piece gets a kind
    (single-block call or multi-block call) and a place (in place / buffer to buffer)"""
    pieces = []
    left = n
    while left > 0:
        cands = [1, 1, 2, w - 1, w, w + 1, 2 * w, 2 * w + 1, rng.randint(1, max(1, left))]
        k = rng.choice([c for c in cands if 1 <= c <= left] or [left])
        if rng.random() < 0.08:
            pieces.append(("blks", 0, rng.choice(["ip", "b2b"])))
        kind = "blk" if (k == 1 and rng.random() < 0.6) else "blks"
        place = rng.choice(["ip", "b2b", "b2b"]) if kind == "blks" else rng.choice(["ip", "b2b", "io"])
        pieces.append((kind, k, place))
        left -= k
    if n == 0 and rng.random() < 0.5:
        pieces.append(("blks", 0, rng.choice(["ip", "b2b"])))
    return pieces


def feed(case, rng, obj, src, total, mbs, sched):
    """emit the calls of `sched` on object `obj`; the data comes from `src` (literal bytes, or a
    ('ref', k) of a previous result holding `total` bytes).  Returns the op indices of the outputs."""
    outs, off = [], 0
    for kind, k, place in sched:
        ln = k * mbs
        if isinstance(src, (bytes, bytearray)):
            d = hx(src[off:off + ln])
        else:
            s = case.op("sub @%d %d %d" % (src[1], off, ln))
            d = "@%d" % s
        off += ln
        if place == "ip":
            outs.append(case.op("%s %s ip %s" % (kind, obj, d)))
        else:
            junk = rbytes_n(rng, ln)
            outs.append(case.op("%s %s %s %s %s" % (kind, obj, place, d, hx(junk))))
    assert off == total, (off, total)
    return outs


def joined(results, idxs):
    return b"".join(rbytes(results[i]) for i in idxs)
