"""Independent reference implementations used by the predicates: the toy ciphers (third copy, next
to harness/src/lib.rs and coq/Toy.v) and the textbook recurrences, written directly from the
property statements.  Predicates are evaluated on the implementation's outputs only."""


def rotl3(b):
    return ((b << 3) | (b >> 5)) & 0xFF


def rotr3(b):
    return ((b >> 3) | (b << 5)) & 0xFF


class Toy:
    def __init__(self, key, dm="inv"):
        assert len(key) == 8
        self.k, self.dm = bytes(key), dm

    def E(self, x):
        n = len(x)
        return bytes(rotl3(((x[(i + 1) % n] ^ self.k[i % 8]) + 7 * i + 13) & 0xFF) for i in range(n))

    def D(self, y):
        n = len(y)
        if self.dm == "inv":
            x = bytearray(n)
            for i in range(n):
                x[(i + 1) % n] = ((rotr3(y[i]) - (7 * i + 13)) & 0xFF) ^ self.k[i % 8]
            return bytes(x)
        return bytes(((y[i] ^ self.k[i % 8]) + 3 * i + 1) & 0xFF for i in range(n))


def xor(a, b):
    assert len(a) == len(b), (len(a), len(b))
    return bytes(x ^ y for x, y in zip(a, b))


def blocks(data, bs):
    assert len(data) % bs == 0
    return [data[i:i + bs] for i in range(0, len(data), bs)]


# --- C02 -----------------------------------------------------------------------------------------
def cbc_enc(c, iv, ps):
    out, prev = [], iv
    for p in ps:
        prev = c.E(xor(p, prev))
        out.append(prev)
    return out, prev


def cbc_dec(c, iv, cs):
    out, prev = [], iv
    for ct in cs:
        out.append(xor(c.D(ct), prev))
        prev = ct
    return out, prev


def pcbc_enc(c, iv, ps):
    out, s = [], iv
    for p in ps:
        ct = c.E(xor(p, s))
        out.append(ct)
        s = xor(p, ct)
    return out, s


def pcbc_dec(c, iv, cs):
    out, s = [], iv
    for ct in cs:
        p = xor(c.D(ct), s)
        out.append(p)
        s = xor(p, ct)
    return out, s


def ige_enc(c, iv, ps):
    bs = len(iv) // 2
    c_prev, p_prev = iv[:bs], iv[bs:]
    out = []
    for p in ps:
        ct = xor(c.E(xor(p, c_prev)), p_prev)
        out.append(ct)
        c_prev, p_prev = ct, p
    return out, c_prev + p_prev


def ige_dec(c, iv, cs):
    bs = len(iv) // 2
    c_prev, p_prev = iv[:bs], iv[bs:]
    out = []
    for ct in cs:
        p = xor(c.D(xor(ct, p_prev)), c_prev)
        out.append(p)
        c_prev, p_prev = ct, p
    return out, c_prev + p_prev


# --- C03 -----------------------------------------------------------------------------------------
def cfb_enc(c, iv, msg):
    """full-block CFB with a trailing partial block xored with the leading bytes of the next keystream block"""
    bs = len(iv)
    out, prev = b"", iv
    for i in range(0, len(msg), bs):
        p = msg[i:i + bs]
        ks = c.E(prev)
        ct = xor(p, ks[:len(p)])
        out += ct
        prev = ct
    return out


def cfb_dec(c, iv, msg):
    bs = len(iv)
    out, prev = b"", iv
    for i in range(0, len(msg), bs):
        ct = msg[i:i + bs]
        ks = c.E(prev)
        out += xor(ct, ks[:len(ct)])
        prev = ct
    return out


def cfb8_enc(c, iv, msg):
    s, out = iv, bytearray()
    for p in msg:
        ct = p ^ c.E(s)[0]
        out.append(ct)
        s = s[1:] + bytes([ct])
    return bytes(out), s


def cfb8_dec(c, iv, msg):
    s, out = iv, bytearray()
    for ct in msg:
        out.append(ct ^ c.E(s)[0])
        s = s[1:] + bytes([ct])
    return bytes(out), s


def ofb_ks(c, iv, n):
    out, o = b"", iv
    while len(out) < n:
        o = c.E(o)
        out += o
    return out[:n]


# --- C04 / C06 -----------------------------------------------------------------------------------
def ctr_layout(iv, i, wbits, endian):
    k = wbits // 8
    if endian == "be":
        field = int.from_bytes(iv[-k:], "big")
        v = (field + i) % (1 << wbits)
        return iv[:-k] + v.to_bytes(k, "big")
    field = int.from_bytes(iv[:k], "little")
    v = (field + i) % (1 << wbits)
    return v.to_bytes(k, "little") + iv[k:]


def ctr_ks(c, iv, wbits, endian, start_byte, n):
    bs = len(iv)
    out = b""
    i = start_byte // bs
    while len(out) < (start_byte % bs) + n:
        out += c.E(ctr_layout(iv, i, wbits, endian))
        i += 1
    off = start_byte % bs
    return out[off:off + n]


def belt_ks(c, iv, start_byte, n):
    s0 = int.from_bytes(c.E(iv), "little")
    out = b""
    i = start_byte // 16
    while len(out) < (start_byte % 16) + n:
        out += c.E(((s0 + i + 1) % (1 << 128)).to_bytes(16, "little"))
        i += 1
    off = start_byte % 16
    return out[off:off + n]


# --- C05 -----------------------------------------------------------------------------------------
def cts_cbc(c, iv, msg, variant):
    """SP 800-38A Addendum: CBC of the zero-padded message, penultimate block truncated to d."""
    bs = len(iv)
    L = len(msg)
    assert L >= bs
    n = -(-L // bs)
    d = L - (n - 1) * bs
    padded = msg + bytes(n * bs - L)
    cs, _ = cbc_enc(c, iv, blocks(padded, bs))
    if n == 1:
        return cs[0]
    head = b"".join(cs[:n - 2])
    cpen, clast = cs[n - 2][:d], cs[n - 1]
    if variant == 1:
        return head + cpen + clast
    if variant == 3:
        return head + clast + cpen
    return head + (clast + cpen if d < bs else cpen + clast)


def cts_ecb(c, msg, bs, variant):
    """ECB with stealing: the final block is completed by the tail of the penultimate ciphertext block."""
    L = len(msg)
    assert L >= bs
    n = -(-L // bs)
    d = L - (n - 1) * bs
    if n == 1:
        return c.E(msg)
    bl = [msg[i * bs:(i + 1) * bs] for i in range(n - 1)]
    cs = [c.E(b) for b in bl]
    last = msg[(n - 1) * bs:] + cs[n - 2][d:]
    clast = c.E(last)
    head = b"".join(cs[:n - 2])
    cpen = cs[n - 2][:d]
    if variant == 1:
        return head + cpen + clast
    if variant == 3:
        return head + clast + cpen
    return head + (clast + cpen if d < bs else cpen + clast)


def pkcs7_pad(msg, bs):
    n = bs - len(msg) % bs
    return msg + bytes([n]) * n
