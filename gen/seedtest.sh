#!/bin/bash
# usage: gen/seedtest.sh <patch.diff> <property ids...>   -- applies the patch to /repo, runs the checks, reverts
set -u
patch=$1; shift
git -C /repo apply "$patch" || { echo "patch does not apply"; exit 2; }
for p in "$@"; do
  out=$(VERIF_EVIDENCE_DIR=/verif/.work/seed_evidence ./check $p 2>/dev/null | cut -c1-160 | head -4)
  echo "== $p: $(echo "$out" | head -2 | tr '\n' ' ')"
done
git -C /repo checkout -- .
git -C /repo status --short | head -3
