#!/bin/bash
# usage: gen/seedconfirm.sh <name> <outdir of the sub-agent>
# Confirms a seeded change in a fresh scratch worktree: existing suite passes with the change,
# the demonstration fails with it and passes without it.  Writes /verif/seeded/<name>/.
set -u
name=$1; out=$2
wt=/tmp/conf_$name
export CARGO_TARGET_DIR=/tmp/conf_target CARGO_NET_OFFLINE=true
git -C /repo worktree add -q --detach $wt HEAD || exit 2
crate=$(cat $out/demo_crate.txt | tr -d '[:space:]')
res=/verif/seeded/$name; mkdir -p $res
cp $out/patch.diff $res/patch.diff; cp $out/seeded_demo.rs $res/seeded_demo.rs; cp $out/meta.json $res/agent_meta.json
cd $wt
git apply $res/patch.diff || { echo "$name: patch does not apply"; git -C /repo worktree remove --force $wt; exit 2; }
# 1. existing suite with the change
cargo test --workspace --no-fail-fast --offline > $res/existing_with_change.log 2>&1
ex_fail=$(grep -E "^test result: FAILED|^error" $res/existing_with_change.log | wc -l)
ex_pass=$(grep -E "^test result: ok" $res/existing_with_change.log | awk '{s+=$4} END {print s+0}')
# 2. demo with the change
cp $res/seeded_demo.rs $wt/$crate/tests/seeded_demo.rs
cargo test -p $(grep -m1 '^name' $wt/$crate/Cargo.toml | cut -d'"' -f2) --offline --test seeded_demo > $res/demo_with_change.log 2>&1
dw=$(grep -E "^test result:" $res/demo_with_change.log | head -1)
# 3. demo without the change
git apply -R $res/patch.diff
cargo test -p $(grep -m1 '^name' $wt/$crate/Cargo.toml | cut -d'"' -f2) --offline --test seeded_demo > $res/demo_without_change.log 2>&1
dwo=$(grep -E "^test result:" $res/demo_without_change.log | head -1)
cd /; git -C /repo worktree remove --force $wt
echo "$name: existing: passed=$ex_pass failed_targets=$ex_fail | demo with: $dw | demo without: $dwo" | tee $res/confirm.txt
