"""C06: BelT-CTR follows STB 34.101.31: s = E(IV), keystream block i = E(s + i)."""
import oracle
from vlib import Case, hx, rbytes
from gens import *

BINS = ["hb_stream"]
RULE = ("cases = 16-byte toy ciphers with widths 1,2,3,5,8 x random key x IVs (random, or chosen by inverting the toy cipher so "
        "that E(IV) is within a few blocks of 2^128-1) x start offsets x chunkings / core-level calls; predicate: output = input "
        "xor E(le128((s0 + i) mod 2^128)), i >= 1, per gen/oracle.py; enc = dec; non-trivial = non-empty data")


def near_max_iv(rng, tc):
    s0 = (1 << 128) - 1 - rng.choice([0, 1, 2, 3, 5, 8, 17])
    return tc.D(s0.to_bytes(16, "little"))      # only meaningful when D = E^-1


def generate(rng, tier):
    cases = []
    belts = stream_cfgs_for(lambda k: k == "belt")
    n = 120 if tier == "quick" else 3000
    for i in range(n):
        bs, w, dm, kind = belts[i % len(belts)]
        key = rbytes_n(rng, 8)
        tc = oracle.Toy(key, dm)
        iv = near_max_iv(rng, tc) if (dm == "inv" and rng.random() < 0.5) else rbytes_n(rng, 16)
        c = Case("c06_%d" % i, "stream", bs, w, dm, tags=dict(path=["wrapper", "core"][i % 2],
                 near_max=int(int.from_bytes(tc.E(iv), "little") > (1 << 128) - 64)))
        if i % 2 == 0:
            c.op("new o belt %s %s %s" % (rng.choice(["new", "inner", "slices"]), hx(key), hx(iv)))
            start = rng.choice([0, 0, 1, 15, 16, 17, 3 * 16 + 2, rng.randint(0, 100)])
            if start or rng.random() < 0.3:
                c.op("seek o %s %d" % (rng.choice(["u32", "u64", "usize", "u128", "i32"]), start))
            L = rng.choice([1, 15, 16, 17, w * 16, w * 16 + 1, (2 * w + 1) * 16 + 3, rng.randint(0, 80)])
            msg = rbytes_n(rng, L)
            outs = stream_feed(c, rng, "apply", "o", msg, byte_pieces(rng, L, 16))
            exp = oracle.xor(msg, oracle.belt_ks(tc, iv, start, L))
            c.expect("BelT-CTR byte stream = input xor E(s0 + i)", lambda r, outs=outs, exp=exp: joined(r, outs) == exp)
            # enc = dec: applying the same stream again from the same offset restores the input
            c.op("new p belt new %s %s" % (hx(key), hx(iv)))
            if start:
                c.op("seek p u64 %d" % start)
            ct = c.op("cat " + " ".join("@%d" % k for k in outs))
            back = c.op("apply p ip @%d" % ct)
            c.expect("BelT-CTR decryption is the same operation", lambda r, back=back, msg=msg: rbytes(r[back]) == msg)
        else:
            c.op("new k belt_core %s %s %s" % (rng.choice(["new", "inner", "slices"]), hx(key), hx(iv)))
            pos, exp_all, outs = 0, b"", []
            for _ in range(rng.randint(1, 4)):
                nb = max(0, rng.choice([0, 1, w - 1, w, w + 1, 2 * w + 1]))
                ks = oracle.belt_ks(tc, iv, pos * 16, nb * 16)
                if rng.random() < 0.5:
                    outs.append(c.op("ksblocks k %d" % nb))
                    exp_all += ks
                else:
                    d = rbytes_n(rng, nb * 16)
                    outs.append(c.op("applyblks k ip %s" % hx(d)) if rng.random() < 0.5
                                else c.op("applyblks k b2b %s %s" % (hx(d), hx(rbytes_n(rng, nb * 16)))))
                    exp_all += oracle.xor(d, ks)
                pos += nb
            c.expect("BelT-CTR core: block i = E(le128(s0 + i)) through single, parallel and tail paths",
                     lambda r, outs=outs, exp=exp_all: joined(r, outs) == exp)
        cases.append(c)
    return cases


def matcher(case, desc, known):
    return None
