"""C15: error propagation and data dependence match each mode's definition."""
import oracle
from vlib import Case, hx, rbytes
from gens import *

BINS = ["hb_block", "hb_stream"]
RULE = ("cases = (cbc, cfb, cfb8, pcbc, ige decryptors; ofb, ctr x6, belt keystream ciphers) x cipher config x ciphertext x "
        "position j x non-zero difference delta; the implementation decrypts c and c xor delta@j with two instances; predicate "
        "(implementation only): the difference of the two outputs has exactly the support the definition prescribes (earlier "
        "output untouched; CBC: block j differs, block j+1 differs by delta, later blocks equal; CFB: block j differs by delta, "
        "j+1 differs, later equal; CFB-8: byte j differs by delta, change confined to the next bs bytes; keystream modes: "
        "out xor out' = delta everywhere and the states agree; PCBC/IGE: block j and every later block differ); "
        "D = E^-1 configs where garbling needs injectivity; non-trivial = non-empty data")


def generate(rng, tier):
    cases = []
    n = 200 if tier == "quick" else 5000
    modes = ["cbc", "cfb", "cfb8", "pcbc", "ige"]
    inv_cfgs = [c for c in BLOCK_CFGS if c[2] == "inv"]
    for i in range(n):
        mode = modes[i % 5]
        bs, w, dm = pick_cfg(rng, inv_cfgs, i // 5)
        mbs = 1 if mode == "cfb8" else bs
        key, iv = rbytes_n(rng, 8), rbytes_n(rng, bs * (2 if mode == "ige" else 1))
        nb = rng.choice([2, 3, w + 2, 2 * w + 2, rng.randint(2, 3 * w + 3)]) * (bs + 2 if mode == "cfb8" else 1)
        j = rng.randint(0, nb - 1)
        ct = rbytes_n(rng, nb * mbs)
        delta = bytearray(mbs)
        while not any(delta):
            delta = bytearray(rbytes_n(rng, mbs)) if rng.random() < 0.5 else bytearray(mbs)
            if not any(delta):
                delta[rng.randrange(mbs)] = 1 << rng.randrange(8)
        ct2 = bytearray(ct)
        for k in range(mbs):
            ct2[j * mbs + k] ^= delta[k]
        c = Case("c15_b%d" % i, "block", bs, w, dm, tags=dict(mode=mode, pos=("first" if j == 0 else "last" if j == nb - 1 else "mid")))
        c.op("new a %s_dec new %s %s" % (mode, hx(key), hx(iv)))
        c.op("new b %s_dec new %s %s" % (mode, hx(key), hx(iv)))
        oa = feed(c, rng, "a", ct, len(ct), mbs, schedule(rng, nb, w))
        ob = feed(c, rng, "b", bytes(ct2), len(ct), mbs, schedule(rng, nb, w))
        sa, sb = c.op("ivstate a"), c.op("ivstate b")

        def check(r, oa=oa, ob=ob, j=j, nb=nb, mode=mode, delta=bytes(delta), bs=bs, mbs=mbs, sa=sa, sb=sb):
            A, B = oracle.blocks(joined(r, oa), mbs), oracle.blocks(joined(r, ob), mbs)
            if A[:j] != B[:j]:
                return False                    # causality: earlier output does not depend on later input
            if mode == "cbc":
                ok = A[j] != B[j]
                if j + 1 < nb:
                    ok = ok and oracle.xor(A[j + 1], B[j + 1]) == delta
                return ok and A[j + 2:] == B[j + 2:] and (rbytes(r[sa]) == rbytes(r[sb])) == (j != nb - 1)
            if mode == "cfb":
                ok = oracle.xor(A[j], B[j]) == delta
                if j + 1 < nb:
                    ok = ok and A[j + 1] != B[j + 1]
                return ok and A[j + 2:] == B[j + 2:]
            if mode == "cfb8":
                ok = oracle.xor(A[j], B[j]) == delta
                return ok and A[j + 1 + bs:] == B[j + 1 + bs:]
            # pcbc, ige: block j always changes (D is a permutation); they never re-synchronise, EXCEPT by a
            # coincidence D(x) xor D(x') = delta whose probability is 2^-(8 bs): a certainty claim only for bs >= 4
            if A[j] == B[j]:
                return False
            if mode == "pcbc" and j + 1 < nb:
                # exact shape (Errprop_proofs.v): the difference of block j+1 is dP_j xor delta and is then carried unchanged
                d1 = oracle.xor(oracle.xor(A[j], B[j]), delta)
                if any(oracle.xor(A[k], B[k]) != d1 for k in range(j + 1, nb)):
                    return False
            if bs < 4:
                return True
            return all(A[k] != B[k] for k in range(j, nb)) and rbytes(r[sa]) != rbytes(r[sb])
        c.expect("%s: difference has exactly the prescribed support" % mode, check)
        cases.append(c)
    allk = stream_cfgs_for(lambda k: True)
    for i in range(n // 2):
        bs, w, dm, kind = pick_stream(rng, i)
        key = rbytes_n(rng, 8)
        iv = stream_iv(rng, bs, kind, key, dm)
        L = rng.randint(1, 6 * bs)
        d1, d2 = rbytes_n(rng, L), rbytes_n(rng, L)
        c = Case("c15_s%d" % i, "stream", bs, w, dm, tags=dict(mode=kind))
        c.op("new a %s new %s %s" % (kind, hx(key), hx(iv)))
        c.op("new b %s new %s %s" % (kind, hx(key), hx(iv)))
        oa = stream_feed(c, rng, "apply", "a", d1, byte_pieces(rng, L, bs))
        ob = stream_feed(c, rng, "apply", "b", d2, byte_pieces(rng, L, bs))
        sa, sb = c.op("ivstate a"), c.op("ivstate b")
        z = bytes(rng.randint(1, 2 * bs))
        ka, kb = c.op("apply a ip %s" % hx(z)), c.op("apply b ip %s" % hx(z))
        c.expect("%s: out xor out' = in xor in' position-wise (only the same bit positions flip)" % kind,
                 lambda r, oa=oa, ob=ob, d=oracle.xor(d1, d2): oracle.xor(joined(r, oa), joined(r, ob)) == d)
        c.expect("%s: the keystream does not depend on the data processed" % kind,
                 lambda r, ka=ka, kb=kb: rbytes(r[ka]) == rbytes(r[kb]))
        if not (kind == "belt" and dm != "inv"):
            c.expect("%s: the state does not depend on the data processed" % kind, lambda r, sa=sa, sb=sb: rbytes(r[sa]) == rbytes(r[sb]))
        cases.append(c)
    return cases


def matcher(case, desc, known):
    return None
