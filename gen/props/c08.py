"""C08: byte-stream interfaces give the same bytes however the stream is cut into calls."""
import oracle
from vlib import Case, hx, rbytes
from gens import *

BINS = ["hb_block", "hb_stream"]
RULE = ("cases = (six CTR flavours, OFB, BelT-CTR wrappers; buffered CFB enc/dec) x cipher config x message x random composition "
        "into pieces (zeros, boundary-aligned, straddling) vs one call on a second instance; one-shot CFB / CFB-8: output for m vs "
        "same-length prefix of output for an extension; predicate on the implementation only; non-trivial = non-empty data")


def generate(rng, tier):
    cases = []
    n = 120 if tier == "quick" else 3000
    allk = stream_cfgs_for(lambda k: True)
    for i in range(n):
        bs, w, dm, kind = pick_stream(rng, i)
        key = rbytes_n(rng, 8)
        iv = stream_iv(rng, bs, kind, key, dm)
        L = rng.choice([1, bs, bs + 1, 2 * bs - 1, 3 * bs + 2, w * bs + 1, (w + 1) * bs + 3, (2 * w + 1) * bs, rng.randint(0, 7 * bs)])
        msg = rbytes_n(rng, L)
        c = Case("c08_s%d" % i, "stream", bs, w, dm, tags=dict(kind=kind))
        c.op("new a %s new %s %s" % (kind, hx(key), hx(iv)))
        c.op("new b %s new %s %s" % (kind, hx(key), hx(iv)))
        pieces = byte_pieces(rng, L, bs)
        oa = stream_feed(c, rng, "apply", "a", msg, pieces)
        ob = c.op("apply b ip %s" % hx(msg))
        pa, pb = c.op("pos a u64"), c.op("pos b u64")
        # and keep going: the two instances must stay in step
        more = rbytes_n(rng, rng.randint(1, 2 * bs))
        ma, mb = c.op("apply a ip %s" % hx(more)), c.op("apply b ip %s" % hx(more))
        c.expect("pieces concatenated equal one call", lambda r, oa=oa, ob=ob: joined(r, oa) == rbytes(r[ob]))
        if kind != "ofb":
            c.expect("same position afterwards", lambda r, pa=pa, pb=pb: r[pa] == r[pb])
        c.expect("subsequent output agrees", lambda r, ma=ma, mb=mb: rbytes(r[ma]) == rbytes(r[mb]))
        cases.append(c)
    for i in range(n):
        bs, w, dm = pick_cfg(rng, BLOCK_CFGS, i // 4)
        key, iv = rbytes_n(rng, 8), rbytes_n(rng, bs)
        which = i % 4
        if which < 2:
            direction = ["enc", "dec"][which]
            L = rng.choice([1, bs + 1, 3 * bs + 2, 4 * bs + 1, 5 * bs, 6 * bs + 3, 9 * bs + 1, rng.randint(0, 7 * bs), rng.randint(4 * bs, 12 * bs)])
            msg = rbytes_n(rng, L)
            c = Case("c08_b%d" % i, "block", bs, w, dm, tags=dict(kind="buf_" + direction))
            c.op("new a buf_%s new %s %s" % (direction, hx(key), hx(iv)))
            c.op("new b buf_%s new %s %s" % (direction, hx(key), hx(iv)))
            oa = stream_feed(c, rng, "buf", "a", msg, byte_pieces(rng, L, bs), places=("ip",))
            ob = c.op("buf b ip %s" % hx(msg))
            more = rbytes_n(rng, rng.randint(1, 2 * bs))
            ma, mb = c.op("buf a ip %s" % hx(more)), c.op("buf b ip %s" % hx(more))
            c.expect("buffered CFB: pieces concatenated equal one call", lambda r, oa=oa, ob=ob: joined(r, oa) == rbytes(r[ob]))
            c.expect("buffered CFB: subsequent output agrees", lambda r, ma=ma, mb=mb: rbytes(r[ma]) == rbytes(r[mb]))
        else:
            mode = ["cfb", "cfb8"][which - 2]
            direction = rng.choice(["enc", "dec"])
            L = rng.choice([0, 1, bs - 1, bs, bs + 1, 2 * bs + 1, rng.randint(0, 4 * bs)])
            ext = rng.choice([1, bs - 1 if bs > 1 else 1, bs, 2 * bs + 1])
            if mode == "cfb8":      # one-byte mode blocks: the backend's parallel width counts bytes
                L = rng.choice([L, w - 1, w + 1, 2 * w + 1, rng.randint(0, 3 * w + 2)])
                ext = rng.choice([ext, w, 2 * w + 1])
            msg = rbytes_n(rng, L + ext)
            c = Case("c08_b%d" % i, "block", bs, w, dm, tags=dict(kind=mode + "_oneshot"))
            c.op("new a %s_%s new %s %s" % (mode, direction, hx(key), hx(iv)))
            a = async_op(c, rng, "a", msg[:L])
            b = async_op(c, rng, "a", msg)
            c.expect("one-shot %s is prefix-preserving" % mode, lambda r, a=a, b=b, L=L: rbytes(r[b])[:L] == rbytes(r[a]))
        cases.append(c)
    # CFB-8 over ciphers whose parallel width exceeds the block size by more than one byte: a short message stays on
    # the serial path while its extension fills whole batches, and a batch reaches ciphertext bytes more than a
    # register length back (the `iv || ciphertext` window) -- every length in that window, both directions
    k = 0
    for bs, w, dm in BLOCK_CFGS:
        if w <= bs + 1:
            continue
        for direction in ("enc", "dec"):
            for L in range(bs + 1, w):
                key, iv = rbytes_n(rng, 8), rbytes_n(rng, bs)
                msg = rbytes_n(rng, rng.choice([w, 2 * w + 1, 3 * w + 2]))
                c = Case("c08_w%d" % k, "block", bs, w, dm, tags=dict(kind="cfb8_oneshot_wide"))
                k += 1
                c.op("new a cfb8_%s new %s %s" % (direction, hx(key), hx(iv)))
                a = async_op(c, rng, "a", msg[:L])
                b = async_op(c, rng, "a", msg)
                c.expect("one-shot cfb8 is prefix-preserving (parallel width > block size)",
                         lambda r, a=a, b=b, L=L: rbytes(r[b])[:L] == rbytes(r[a]))
                cases.append(c)
    return cases


def matcher(case, desc, known):
    return None
