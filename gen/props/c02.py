"""C02: CBC, PCBC and IGE compute exactly their defining recurrences, both directions."""
import oracle
from vlib import Case, hx, rbytes
from gens import *

BINS = ["hb_block"]
RULE = ("cases = (mode in cbc/pcbc/ige) x (enc/dec) x cipher config from the compiled matrix x random key/IV x "
        "n blocks around multiples of the parallel width x random call schedule (single/multi, in place/b2b); "
        "decryptors are fed arbitrary bytes, not honest ciphertext; predicate: concatenated output and iv_state "
        "equal the recurrence computed by gen/oracle.py.  Non-trivial = at least one non-empty data result; "
        "distinct = distinct (config, op list).")

MODES = {
    "cbc": (oracle.cbc_enc, oracle.cbc_dec, 1),
    "pcbc": (oracle.pcbc_enc, oracle.pcbc_dec, 1),
    "ige": (oracle.ige_enc, oracle.ige_dec, 2),
}


def generate(rng, tier):
    cases = []
    n = 120 if tier == "quick" else 3000
    for i in range(n):
        bs, w, dm = pick_cfg(rng, BLOCK_CFGS, i // 6)
        mode = ["cbc", "pcbc", "ige"][i % 3]
        direction = ["enc", "dec"][(i // 3) % 2]
        enc_f, dec_f, ivmul = MODES[mode]
        key, iv = rbytes_n(rng, 8), rbytes_n(rng, bs * ivmul)
        nb = nblocks(rng, w, tier)
        data = rbytes_n(rng, nb * bs)
        c = Case("c02_%d" % i, "block", bs, w, dm, tags=dict(mode=mode, dir=direction, nblocks=min(nb, 20)))
        c.op("new o %s_%s %s %s %s" % (mode, direction, rng.choice(["new", "inner", "slices"]), hx(key), hx(iv)))
        sched = schedule(rng, nb, w)
        outs = feed(c, rng, "o", data, len(data), bs, sched)
        st = c.op("ivstate o")
        tc = oracle.Toy(key, dm)
        f = enc_f if direction == "enc" else dec_f
        exp, chain = f(tc, iv, oracle.blocks(data, bs))
        exp = b"".join(exp)
        c.expect("%s %s output equals the recurrence" % (mode, direction),
                 lambda r, outs=outs, exp=exp: joined(r, outs) == exp)
        c.expect("%s %s iv_state equals the recurrence's chaining value" % (mode, direction),
                 lambda r, st=st, chain=chain: rbytes(r[st]) == chain)
        cases.append(c)
    return cases


def matcher(case, desc, known):
    return None
