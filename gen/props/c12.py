"""C12: in-place and buffer-to-buffer operation give identical results."""
import oracle
from vlib import Case, hx, rbytes
from gens import *

BINS = ["hb_block", "hb_stream", "hb_cts"]
RULE = ("cases = every operation offered in both forms (block / multi-block calls of all block modes and directions, padded "
        "encrypt/decrypt, one-shot CFB/CFB-8, byte-stream apply of CTR x6/OFB/BelT, core-level apply, cts encrypt/decrypt) x cipher "
        "config x message; two instances with the same key/IV receive the same call sequence, one in place, one buffer-to-buffer "
        "with a random non-zero output buffer; predicate (implementation only): identical bytes and identical iv_state; "
        "non-trivial = non-empty data")

BLOCK_MODES = ["cbc", "pcbc", "ige", "cfb", "cfb8", "ofb"]


def generate(rng, tier):
    cases = []
    n = 150 if tier == "quick" else 4000
    for i in range(n):
        mode = BLOCK_MODES[i % 6]
        direction = ["enc", "dec"][(i // 6) % 2]
        bs, w, dm = pick_cfg(rng, BLOCK_CFGS, i // 12)
        mbs = 1 if mode == "cfb8" else bs
        key, iv = rbytes_n(rng, 8), rbytes_n(rng, bs * (2 if mode == "ige" else 1))
        c = Case("c12_b%d" % i, "block", bs, w, dm, tags=dict(mode=mode, dir=direction))
        c.op("new a %s_%s new %s %s" % (mode, direction, hx(key), hx(iv)))
        c.op("new b %s_%s new %s %s" % (mode, direction, hx(key), hx(iv)))
        oa, ob = [], []
        for _ in range(rng.randint(1, 4)):
            k = rng.choice([1, 1, 2, w - 1, w, w + 1, 2 * w + 1, 0])
            k = max(0, k)
            d = rbytes_n(rng, k * mbs)
            if k == 1 and rng.random() < 0.5:
                oa.append(c.op("blk a ip %s" % hx(d)))
                ob.append(c.op("blk b %s %s %s" % (rng.choice(["b2b", "io"]), hx(d), hx(rbytes_n(rng, mbs)))))
            else:
                oa.append(c.op("blks a ip %s" % hx(d)))
                ob.append(c.op("blks b b2b %s %s" % (hx(d), hx(rbytes_n(rng, k * mbs)))))
        sa, sb = c.op("ivstate a"), c.op("ivstate b")
        c.expect("block calls: b2b output = in-place output", lambda r, oa=oa, ob=ob: [rbytes(r[x]) for x in oa] == [rbytes(r[x]) for x in ob])
        c.expect("block calls: same chaining state", lambda r, sa=sa, sb=sb: rbytes(r[sa]) == rbytes(r[sb]))
        # padded / one-shot, consuming a clone of the current state
        L = rng.choice([0, 1, bs - 1, bs, bs + 1, 2 * bs + 1, rng.randint(0, 4 * bs)])
        msg = rbytes_n(rng, L)
        if mode != "cfb8":
            if direction == "enc":
                room = (L // bs + 1) * bs
                pa = c.op("pad a pkcs7 ip %s %d" % (hx(msg + rbytes_n(rng, room - L)), L))
                pb = c.op("pad b pkcs7 b2b %s %s" % (hx(msg), hx(rbytes_n(rng, room + rng.choice([0, 5])))))
            else:
                Lb = (L // bs + 1) * bs
                ct = rbytes_n(rng, Lb)
                pa = c.op("unpad a nopad ip %s" % hx(ct))
                pb = c.op("unpad b nopad b2b %s %s" % (hx(ct), hx(rbytes_n(rng, Lb + rng.choice([0, 3])))))
            c.expect("padded: b2b output = in-place output", lambda r, pa=pa, pb=pb: r[pa] == r[pb])
        if mode in ("cfb", "cfb8"):
            aa = c.op("async a ip %s" % hx(msg))
            ab = c.op("async b b2b %s %s" % (hx(msg), hx(rbytes_n(rng, L))))
            c.expect("one-shot: b2b output = in-place output", lambda r, aa=aa, ab=ab: rbytes(r[aa]) == rbytes(r[ab]))
        cases.append(c)
    allk = stream_cfgs_for(lambda k: True)
    for i in range(n // 2):
        bs, w, dm, kind = pick_stream(rng, i)
        key = rbytes_n(rng, 8)
        iv = stream_iv(rng, bs, kind, key, dm)
        c = Case("c12_s%d" % i, "stream", bs, w, dm, tags=dict(mode=kind))
        if i % 3 < 2:
            c.op("new a %s new %s %s" % (kind, hx(key), hx(iv)))
            c.op("new b %s new %s %s" % (kind, hx(key), hx(iv)))
            oa, ob = [], []
            for ln in byte_pieces(rng, rng.randint(1, 6 * bs), bs):
                d = rbytes_n(rng, ln)
                oa.append(c.op("apply a ip %s" % hx(d)))
                ob.append(c.op("apply b b2b %s %s" % (hx(d), hx(rbytes_n(rng, ln)))))
        else:
            c.op("new a %s_core new %s %s" % (kind, hx(key), hx(iv)))
            c.op("new b %s_core new %s %s" % (kind, hx(key), hx(iv)))
            oa, ob = [], []
            for _ in range(rng.randint(1, 3)):
                k = max(0, rng.choice([1, w - 1, w, w + 1, 2 * w + 1]))
                d = rbytes_n(rng, k * bs)
                if k == 1:
                    oa.append(c.op("applyblk a ip %s" % hx(d)))
                    ob.append(c.op("applyblk b b2b %s %s" % (hx(d), hx(rbytes_n(rng, bs)))))
                else:
                    oa.append(c.op("applyblks a ip %s" % hx(d)))
                    ob.append(c.op("applyblks b b2b %s %s" % (hx(d), hx(rbytes_n(rng, k * bs)))))
        sa, sb = c.op("ivstate a"), c.op("ivstate b")
        c.expect("keystream: b2b output = in-place output", lambda r, oa=oa, ob=ob: [rbytes(r[x]) for x in oa] == [rbytes(r[x]) for x in ob])
        if not (kind == "belt" and dm != "inv"):
            c.expect("keystream: same state", lambda r, sa=sa, sb=sb: rbytes(r[sa]) == rbytes(r[sb]))
        cases.append(c)
    for i in range(n // 2):
        bs, w, dm = pick_cfg(rng, CTS_CFGS, i // 12)
        kind = CTS_KINDS[i % 6]
        direction = ["enc", "dec"][(i // 6) % 2]
        key = rbytes_n(rng, 8)
        iv = rbytes_n(rng, bs) if kind.startswith("cbc") else b""
        L = rng.choice([bs, bs + 1, 2 * bs - 1, 2 * bs, 2 * bs + 1, 3 * bs, w * bs + 1, (w + 2) * bs - 1, (2 * w + 1) * bs + 1,
                        (3 * w + 2) * bs, rng.randint(bs, 6 * bs), rng.randint(bs, (3 * w + 3) * bs)])
        msg = rbytes_n(rng, L)
        c = Case("c12_t%d" % i, "cts", bs, w, dm, tags=dict(mode=kind, dir=direction))
        c.op("new o %s new %s %s" % (kind, hx(key), hx(iv)))
        a = c.op("cts_%s o ip %s" % (direction, hx(msg)))
        b = c.op("cts_%s o b2b %s %s" % (direction, hx(msg), hx(rbytes_n(rng, L))))
        c.expect("cts: b2b output = in-place output", lambda r, a=a, b=b: r[a] == r[b] and r[a][0] == "bytes")
        cases.append(c)
    return cases


def matcher(case, desc, known):
    return None
