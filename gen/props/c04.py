"""C04: CTR keystream uses the documented counter-block layout in all six flavours."""
import oracle
from vlib import Case, hx, rbytes
from gens import *

BINS = ["hb_stream"]
RULE = ("cases = six flavours x block sizes 4..48 (multi-chunk nonces) x parallel widths x IVs whose counter field is at "
        "0, 1, 2^k-1, 2^w-2, 2^w-1 or random x start offsets (seek) x byte chunkings / core-level block calls; predicate: output "
        "= input xor E(layout(IV, i)) with the layout of gen/oracle.py (counter field replaced, every other byte unchanged, wrap "
        "without carry); non-trivial = non-empty data; distinct = distinct (config, ops)")


def generate(rng, tier):
    cases = []
    ctrs = stream_cfgs_for(lambda k: k.startswith("ctr"))
    n = 150 if tier == "quick" else 4000
    for i in range(n):
        bs, w, dm, kind = ctrs[i % len(ctrs)] if i < 2 * len(ctrs) else rng.choice(ctrs)
        bits, end = ctr_params(kind)
        key, iv = rbytes_n(rng, 8), boundary_iv(rng, bs, kind)
        tc = oracle.Toy(key, dm)
        c = Case("c04_%d" % i, "stream", bs, w, dm, tags=dict(flavour=kind, path=["wrapper", "core"][i % 2]))
        if i % 2 == 0:
            c.op("new o %s %s %s %s" % (kind, rng.choice(["new", "inner", "slices"]), hx(key), hx(iv)))
            # start somewhere within the first blocks (small offsets: C10 owns far seeks)
            start = rng.choice([0, 0, 1, bs - 1, bs, bs + 1, 3 * bs + 2, rng.randint(0, 6 * bs)])
            if start or rng.random() < 0.3:
                c.op("seek o %s %d" % (rng.choice(["u32", "u64", "usize", "u128", "i32"]), start))
            L = rng.choice([1, bs - 1, bs, bs + 1, w * bs, w * bs + 1, (2 * w + 1) * bs + 3, rng.randint(0, 5 * bs)])
            msg = rbytes_n(rng, L)
            outs = stream_feed(c, rng, "apply", "o", msg, byte_pieces(rng, L, bs))
            exp = oracle.xor(msg, oracle.ctr_ks(tc, iv, bits, end, start, L))
            c.expect("%s byte stream = input xor E(layout(IV, i))" % kind, lambda r, outs=outs, exp=exp: joined(r, outs) == exp)
        else:
            c.op("new k %s_core %s %s %s" % (kind, rng.choice(["new", "inner", "slices"]), hx(key), hx(iv)))
            pos = 0
            exp_all, outs = b"", []
            for _ in range(rng.randint(1, 4)):
                nb = rng.choice([0, 1, w - 1, w, w + 1, 2 * w + 1])
                if nb < 0:
                    nb = 0
                how = rng.choice(["ks", "apply", "applyblk"])
                ks = oracle.ctr_ks(tc, iv, bits, end, pos * bs, nb * bs)
                if how == "ks":
                    outs.append(c.op("ksblocks k %d" % nb))
                    exp_all += ks
                elif how == "apply":
                    d = rbytes_n(rng, nb * bs)
                    if rng.random() < 0.5:
                        outs.append(c.op("applyblks k ip %s" % hx(d)))
                    else:
                        outs.append(c.op("applyblks k b2b %s %s" % (hx(d), hx(rbytes_n(rng, nb * bs)))))
                    exp_all += oracle.xor(d, ks)
                else:
                    nb = 1
                    ks = oracle.ctr_ks(tc, iv, bits, end, pos * bs, bs)
                    d = rbytes_n(rng, bs)
                    outs.append(c.op("applyblk k ip %s" % hx(d)) if rng.random() < 0.5 else c.op("applyblk k b2b %s %s" % (hx(d), hx(rbytes_n(rng, bs)))))
                    exp_all += oracle.xor(d, ks)
                pos += nb
            st = c.op("ivstate k")
            c.expect("%s core: keystream block i = E(layout(IV, i)) through single, parallel and tail paths" % kind,
                     lambda r, outs=outs, exp=exp_all: joined(r, outs) == exp)
            c.expect("%s core iv_state = layout(IV, blocks consumed)" % kind,
                     lambda r, st=st, e=oracle.ctr_layout(iv, pos, bits, end): rbytes(r[st]) == e)
        cases.append(c)
    return cases


def matcher(case, desc, known):
    return None
