"""C13: bad lengths are rejected without side effects; no operation panics."""
import oracle
from vlib import Case, hx, rbytes
from gens import *

BINS = ["hb_block", "hb_stream", "hb_cts"]
RULE = ("cases = malformed stream (cts messages of every length 0..3b; b2b calls with unequal lengths; padded decryption of "
        "non-multiples and into short buffers; padded encryption into short buffers; construction from key/IV slices of wrong length "
        "incl. IGE's double IV) + valid extremes (every exported buffered-CFB position, counters at any position incl. MAX, seeks of "
        "every integer type, empty inputs); predicate (implementation only): Err exactly when the contract is violated, buffers "
        "byte-for-byte unchanged after Err (checked inside the harness), no panic (catch_unwind) on any op; "
        "non-trivial = case contains a data-carrying op; distinct = distinct (config, ops)")


def generate(rng, tier):
    cases = []
    n = 60 if tier == "quick" else 1500
    # --- cts: every length around the gate ---
    for i in range(n * 2):
        bs, w, dm = pick_cfg(rng, CTS_CFGS, i // 6)
        kind = CTS_KINDS[i % 6]
        key = rbytes_n(rng, 8)
        iv = rbytes_n(rng, bs) if kind.startswith("cbc") else b""
        c = Case("c13_t%d" % i, "cts", bs, w, dm, tags=dict(family="cts", kind=kind))
        c.op("new o %s new %s %s" % (kind, hx(key), hx(iv)))
        for L in sorted(set([0, 1, bs - 1, bs, bs + 1, 2 * bs - 1, 2 * bs, 2 * bs + 1, rng.randint(0, 3 * bs), w * bs, w * bs + 1])):
            if L < 0:
                continue
            d = rbytes_n(rng, L)
            for direction in ("enc", "dec"):
                o = c.op("cts_%s o ip %s" % (direction, hx(d))) if rng.random() < 0.5 else \
                    c.op("cts_%s o b2b %s %s" % (direction, hx(d), hx(rbytes_n(rng, L))))
                if L < bs:
                    c.expect("cts %s of %d < %d bytes is rejected, buffers untouched" % (direction, L, bs), lambda r, o=o: r[o] == ("err",))
                else:
                    c.expect("cts %s accepts %d >= %d bytes" % (direction, L, bs), lambda r, o=o, L=L: r[o][0] == "bytes" and len(rbytes(r[o])) == L)
        # unequal b2b
        L = rng.randint(bs, 3 * bs)
        o = c.op("cts_enc o b2b %s %s" % (hx(rbytes_n(rng, L)), hx(rbytes_n(rng, L + rng.choice([-1, 1, bs])))))
        c.expect("cts b2b with unequal lengths is rejected", lambda r, o=o: r[o] == ("err",))
        o = c.op("cts_dec o b2b %s %s" % (hx(rbytes_n(rng, L)), hx(rbytes_n(rng, max(0, L + rng.choice([-1, 1, -bs]))))))
        c.expect("cts b2b with unequal lengths is rejected", lambda r, o=o: r[o] == ("err",))
        c.expect("no panic", no_panic)
        cases.append(c)
    # --- block modes ---
    modes = ["cbc", "pcbc", "ige", "cfb", "cfb8", "ofb"]
    for i in range(n * 2):
        mode = modes[i % 6]
        bs, w, dm = pick_cfg(rng, BLOCK_CFGS, i // 6)
        mbs = 1 if mode == "cfb8" else bs
        ivlen = bs * (2 if mode == "ige" else 1)
        key, iv = rbytes_n(rng, 8), rbytes_n(rng, ivlen)
        c = Case("c13_b%d" % i, "block", bs, w, dm, tags=dict(family="block", kind=mode))
        # construction from slices of wrong length
        for kl, il in [(8, ivlen), (7, ivlen), (9, ivlen), (0, ivlen), (8, ivlen - 1), (8, ivlen + 1), (8, 0), (8, bs if mode == "ige" else 2 * bs)]:
            o = c.op("new t%d_%d %s_%s slices %s %s" % (kl, il, mode, rng.choice(["enc", "dec"]), hx(rbytes_n(rng, kl)), hx(rbytes_n(rng, il))))
            ok = (kl == 8 and il == ivlen)
            c.expect("new_from_slices(key %d, iv %d) is %s" % (kl, il, "accepted" if ok else "rejected"),
                     lambda r, o=o, ok=ok: r[o] == (("ok",) if ok else ("err",)))
        o = c.op("new u %s_enc inner_slice %s %s" % (mode, hx(key), hx(rbytes_n(rng, ivlen + 1))))
        c.expect("inner_iv_slice_init with a wrong IV length is rejected", lambda r, o=o: r[o] == ("err",))
        c.op("new e %s_enc new %s %s" % (mode, hx(key), hx(iv)))
        c.op("new d %s_dec new %s %s" % (mode, hx(key), hx(iv)))
        # unequal multi-block b2b
        k = rng.randint(0, 3)
        o = c.op("blks e b2b %s %s" % (hx(rbytes_n(rng, k * mbs)), hx(rbytes_n(rng, (k + rng.choice([1, 2])) * mbs))))
        c.expect("encrypt_blocks_b2b with unequal lengths is rejected", lambda r, o=o: r[o] == ("err",))
        o = c.op("blks d b2b %s %s" % (hx(rbytes_n(rng, (k + 1) * mbs)), hx(rbytes_n(rng, k * mbs))))
        c.expect("decrypt_blocks_b2b with unequal lengths is rejected", lambda r, o=o: r[o] == ("err",))
        s0 = c.op("ivstate e")
        if mode != "cfb8":
            # padded decryption: length not a multiple, or output too short
            L = rng.choice([1, bs - 1, bs + 1, 2 * bs + 1, 3 * bs - 1])
            if L % bs:
                o = c.op("unpad d pkcs7 ip %s" % hx(rbytes_n(rng, L)))
                c.expect("decrypt_padded of %d bytes (not a multiple of %d) is rejected" % (L, bs), lambda r, o=o: r[o] == ("err",))
                o = c.op("unpad d nopad b2b %s %s" % (hx(rbytes_n(rng, L)), hx(rbytes_n(rng, L + 3))))
                c.expect("decrypt_padded_b2b of a non-multiple is rejected", lambda r, o=o: r[o] == ("err",))
            Lb = bs * rng.randint(1, 3)
            o = c.op("unpad d pkcs7 b2b %s %s" % (hx(rbytes_n(rng, Lb)), hx(rbytes_n(rng, Lb - rng.randint(1, bs)))))
            c.expect("decrypt_padded_b2b into a shorter buffer is rejected", lambda r, o=o: r[o] == ("err",))
            # padded encryption without room
            L = rng.randint(0, 3 * bs)
            need = (L // bs + 1) * bs
            o = c.op("pad e pkcs7 b2b %s %s" % (hx(rbytes_n(rng, L)), hx(rbytes_n(rng, need - rng.randint(1, min(bs, need))))))
            c.expect("encrypt_padded_b2b without room for the padding is rejected", lambda r, o=o: r[o] == ("err",))
            o = c.op("pad e pkcs7 ip %s %d" % (hx(rbytes_n(rng, need - 1)), L))
            c.expect("encrypt_padded without room is rejected", lambda r, o=o: r[o] == ("err",))
            o = c.op("pad e pkcs7 ip %s %d" % (hx(rbytes_n(rng, L)), L + 1))
            c.expect("encrypt_padded with msg_len > buffer is rejected", lambda r, o=o: r[o] == ("err",))
            if L % bs:
                o = c.op("pad e nopad b2b %s %s" % (hx(rbytes_n(rng, L)), hx(rbytes_n(rng, need))))
                c.expect("NoPadding of a non-multiple is rejected", lambda r, o=o: r[o] == ("err",))
            o = c.op("pad e pkcs7 b2b %s %s" % (hx(rbytes_n(rng, L)), hx(rbytes_n(rng, need))))
            c.expect("encrypt_padded_b2b with exactly enough room is accepted", lambda r, o=o, need=need: r[o][0] == "bytes" and len(rbytes(r[o])) == need)
        if mode in ("cfb", "cfb8"):
            L = rng.randint(0, 3 * bs)
            o = c.op("async e b2b %s %s" % (hx(rbytes_n(rng, L)), hx(rbytes_n(rng, L + 1))))
            c.expect("one-shot b2b with unequal lengths is rejected", lambda r, o=o: r[o] == ("err",))
            o = c.op("async d b2b %s %s" % (hx(rbytes_n(rng, L + 2)), hx(rbytes_n(rng, L))))
            c.expect("one-shot b2b with unequal lengths is rejected", lambda r, o=o: r[o] == ("err",))
            for L in (0, 1, bs - 1, bs, bs + 1):
                o = c.op("async e ip %s" % hx(rbytes_n(rng, L)))
                c.expect("one-shot accepts any length", lambda r, o=o, L=L: r[o][0] == "bytes" and len(rbytes(r[o])) == L)
        s1 = c.op("ivstate e")
        c.expect("rejected calls leave the chaining state untouched", lambda r, s0=s0, s1=s1: r[s0] == r[s1])
        if mode == "cfb":
            # every valid exported state of the buffered types
            for pos in sorted(set([0, 1, bs - 1, rng.randint(0, bs - 1)])):
                for kind in ("buf_enc", "buf_dec"):
                    c.op("fromstate f%s%d %s %s %s %d" % (kind, pos, kind, hx(key), hx(rbytes_n(rng, bs)), pos))
                    for L in (0, 1, bs - pos - 1 if bs - pos - 1 >= 0 else 0, bs - pos, bs - pos + 1, 2 * bs + 1):
                        o = c.op("buf f%s%d ip %s" % (kind, pos, hx(rbytes_n(rng, L))))
                        c.expect("buffered CFB from a valid state accepts any length", lambda r, o=o, L=L: r[o][0] == "bytes" and len(rbytes(r[o])) == L)
        c.expect("no panic", no_panic)
        cases.append(c)
    # --- keystream ciphers ---
    allk = stream_cfgs_for(lambda k: True)
    for i in range(n * 2):
        bs, w, dm, kind = allk[i % len(allk)] if i < len(allk) else rng.choice(allk)
        key, iv = rbytes_n(rng, 8), boundary_iv(rng, bs, kind)
        c = Case("c13_s%d" % i, "stream", bs, w, dm, tags=dict(family="stream", kind=kind))
        for kl, il in [(8, bs), (7, bs), (8, bs - 1), (8, bs + 1), (9, bs)]:
            o = c.op("new t%d_%d %s%s slices %s %s" % (kl, il, kind, rng.choice(["", "_core"]), hx(rbytes_n(rng, kl)), hx(rbytes_n(rng, il))))
            ok = (kl == 8 and il == bs)
            c.expect("new_from_slices(key %d, iv %d) is %s" % (kl, il, "accepted" if ok else "rejected"),
                     lambda r, o=o, ok=ok: r[o] == (("ok",) if ok else ("err",)))
        c.op("new o %s new %s %s" % (kind, hx(key), hx(iv)))
        L = rng.randint(0, 3 * bs)
        o = c.op("apply o b2b %s %s" % (hx(rbytes_n(rng, L)), hx(rbytes_n(rng, L + rng.choice([1, bs])))))
        c.expect("apply_keystream_b2b with unequal lengths is rejected", lambda r, o=o: r[o] == ("err",))
        if kind != "ofb":
            cbits = 128 if kind == "belt" else ctr_params(kind)[0]
            p0 = c.op("pos o u128")
            c.expect("a rejected call leaves the position untouched", lambda r, p0=p0: r[p0] == ("num", "0"))
            # any counter position, any seek target of any type: never a panic
            c.op("new k %s_core new %s %s" % (kind, hx(key), hx(iv)))
            c.op("setpos k %d" % rng.choice([0, 1, 2 ** cbits - 1, 2 ** cbits - 2, rng.getrandbits(cbits)]))
            c.op("remaining k")
            c.op("wrap k wk")
            for L in (0, 1, bs, 2 * bs + 1):
                c.op("apply wk ip %s" % hx(rbytes_n(rng, L)))
                c.op("pos wk %s" % rng.choice(["i32", "u32", "u64", "u128", "usize"]))
            for T, mx in (("i32", 2 ** 31 - 1), ("u32", 2 ** 32 - 1), ("u64", 2 ** 64 - 1), ("u128", 2 ** 128 - 1), ("usize", 2 ** 64 - 1)):
                p = rng.choice([0, 1, bs, mx, mx - 1, rng.randint(0, mx)])
                blk, byte = divmod(p, bs)
                if kind.startswith("ctr") and cbits < 128 and blk == 2 ** cbits - 1 and byte:
                    p -= byte           # F2 class: belongs to C11
                c.op("seek o %s %d" % (T, p))
                c.op("apply o ip %s" % hx(rbytes_n(rng, rng.choice([0, 1, bs + 1]))))
                c.op("pos o %s" % T)
        for L in (0, 1, bs - 1, bs, bs + 1):
            c.op("apply o ip %s" % hx(rbytes_n(rng, L)))
        c.expect("no panic", no_panic)
        cases.append(c)
    return cases


def matcher(case, desc, known):
    return None
