"""C07: output is independent of block batching and of the cipher's parallel width."""
import oracle
from vlib import Case, hx, rbytes
from gens import *

BINS = ["hb_block", "hb_stream", "hb_cts"]
RULE = ("cases = every block-oriented mode and direction (cbc, pcbc, ige, cfb, cfb8, ofb block front-ends; ctr/belt/ofb cores) x "
        "cipher config with widths 1,2,3,4,5,7,8 x n blocks not a multiple of the width x a random composition into >= 2 calls of "
        "mixed kinds; predicate (implementation only): outputs and iv_state of the scheduled run equal those of a second instance "
        "fed one block at a time; cts variants: result equals the width-free oracle; non-trivial = non-empty data")

BLOCK_MODES = ["cbc", "pcbc", "ige", "cfb", "cfb8", "ofb"]


def generate(rng, tier):
    cases = []
    n = 180 if tier == "quick" else 4000
    for i in range(n):
        mode = BLOCK_MODES[i % 6]
        direction = ["enc", "dec"][(i // 6) % 2]
        bs, w, dm = pick_cfg(rng, BLOCK_CFGS, i // 12)
        mbs = 1 if mode == "cfb8" else bs
        key, iv = rbytes_n(rng, 8), rbytes_n(rng, bs * (2 if mode == "ige" else 1))
        nb = rng.choice([w + 1, 2 * w + 1, 3 * w - 1, 3 * w + 2, w - 1 if w > 2 else 2 * w + 3, rng.randint(2, 4 * w + 3)])
        msg = rbytes_n(rng, nb * mbs)
        c = Case("c07_%d" % i, "block", bs, w, dm, tags=dict(mode=mode, dir=direction))
        c.op("new a %s_%s new %s %s" % (mode, direction, hx(key), hx(iv)))
        c.op("new b %s_%s new %s %s" % (mode, direction, hx(key), hx(iv)))
        sched = schedule(rng, nb, w)
        while len([p for p in sched if p[1] > 0]) < 2:
            sched = schedule(rng, nb, w)
        oa = feed(c, rng, "a", msg, len(msg), mbs, sched)
        ob = feed(c, rng, "b", msg, len(msg), mbs, [("blk", 1, "ip")] * nb)
        sa, sb = c.op("ivstate a"), c.op("ivstate b")
        c.expect("scheduled output equals one-block-at-a-time output", lambda r, oa=oa, ob=ob: joined(r, oa) == joined(r, ob))
        c.expect("scheduled run leaves the same chaining state", lambda r, sa=sa, sb=sb: rbytes(r[sa]) == rbytes(r[sb]))
        cases.append(c)
    cores = stream_cfgs_for(lambda k: True)
    for i in range(n // 2):
        bs, w, dm, kind = pick_stream(rng, i)
        key = rbytes_n(rng, 8)
        iv = stream_iv(rng, bs, kind, key, dm)
        c = Case("c07_s%d" % i, "stream", bs, w, dm, tags=dict(mode=kind + "_core"))
        c.op("new a %s_core new %s %s" % (kind, hx(key), hx(iv)))
        c.op("new b %s_core new %s %s" % (kind, hx(key), hx(iv)))
        oa, ob, total = [], [], 0
        for _ in range(rng.randint(2, 4)):
            nb = max(0, rng.choice([1, w - 1, w, w + 1, 2 * w + 1, rng.randint(0, 3 * w)]))
            d = rbytes_n(rng, nb * bs)
            how = rng.choice(["ks", "ip", "b2b"])
            if how == "ks":
                oa.append(c.op("ksblocks a %d" % nb))
                for _ in range(nb):
                    ob.append(c.op("ksblocks b 1"))
            else:
                oa.append(c.op("applyblks a ip %s" % hx(d)) if how == "ip" else c.op("applyblks a b2b %s %s" % (hx(d), hx(rbytes_n(rng, nb * bs)))))
                for j in range(nb):
                    ob.append(c.op("applyblk b ip %s" % hx(d[j * bs:(j + 1) * bs])))
        sa, sb = c.op("ivstate a"), c.op("ivstate b")
        c.expect("core: batched keystream equals block-at-a-time keystream", lambda r, oa=oa, ob=ob: joined(r, oa) == joined(r, ob))
        c.expect("core: same state afterwards", lambda r, sa=sa, sb=sb: rbytes(r[sa]) == rbytes(r[sb]))
        cases.append(c)
    # cts: the private helpers batch by the cipher's width; the oracle has no notion of width
    for i in range(n // 3):
        bs, w, dm = pick_cfg(rng, [x for x in CTS_CFGS if x[1] > 1], i // 6)
        kind = CTS_KINDS[i % 6]
        key = rbytes_n(rng, 8)
        iv = rbytes_n(rng, bs) if kind.startswith("cbc") else b""
        L = rng.choice([(w + 1) * bs, (2 * w + 1) * bs + 1, (3 * w - 1) * bs + bs - 1, (w + 2) * bs, rng.randint(w * bs, 5 * w * bs)])
        msg = rbytes_n(rng, L)
        tc = oracle.Toy(key, dm)
        c = Case("c07_t%d" % i, "cts", bs, w, dm, tags=dict(mode=kind))
        c.op("new o %s new %s %s" % (kind, hx(key), hx(iv)))
        variant = int(kind[-1])
        exp = oracle.cts_cbc(tc, iv, msg, variant) if kind.startswith("cbc") else oracle.cts_ecb(tc, msg, bs, variant)
        e = c.op("cts_enc o ip %s" % hx(msg))
        c.expect("cts encryption does not depend on the backend width", lambda r, e=e, exp=exp: rbytes(r[e]) == exp)
        if dm == "inv":
            d = c.op("cts_dec o ip %s" % hx(exp))
            c.expect("cts decryption does not depend on the backend width", lambda r, d=d, msg=msg: rbytes(r[d]) == msg)
        cases.append(c)
    return cases


def matcher(case, desc, known):
    return None
