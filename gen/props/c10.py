"""C10: seeking and position reporting are coherent with the keystream (CTR, BelT-CTR)."""
import oracle
from vlib import Case, hx, rbytes
from gens import *

BINS = ["hb_stream"]
RULE = ("cases = seekable wrappers (six CTR flavours, BelT-CTR) x cipher config x random histories of seek<T>(p) / apply(n) / "
        "current_pos<T> with T in i32,u32,u64,u128,usize; targets forward, backward, inside blocks, beyond 2^32 and 2^64 bytes, "
        "next to the end of the keystream (block index 2^w-1 with a byte offset excluded: that is C11's known finding); predicate "
        "(implementation only): bytes after seek(p) = KS[p..] per gen/oracle.py, a reported position equals the tracked abstract "
        "position, a position that does not fit T is an error, an unrepresentable block index is an error that changes nothing; "
        "non-trivial = non-empty data")

TMAX = {"i32": 2 ** 31 - 1, "u32": 2 ** 32 - 1, "u64": 2 ** 64 - 1, "u128": 2 ** 128 - 1, "usize": 2 ** 64 - 1}


def ks(tc, kind, iv, p, n):
    if kind == "belt":
        return oracle.belt_ks(tc, iv, p, n)
    bits, end = ctr_params(kind)
    return oracle.ctr_ks(tc, iv, bits, end, p, n)


def generate(rng, tier):
    cases = []
    seekable = stream_cfgs_for(lambda k: k != "ofb")
    n = 200 if tier == "quick" else 5000
    for i in range(n):
        bs, w, dm, kind = pick_stream(rng, i, lambda k: k != "ofb")
        cbits = 128 if kind == "belt" else ctr_params(kind)[0]
        end_pos = (2 ** cbits - 1) * bs           # first byte position that does not exist
        key = rbytes_n(rng, 8)
        iv = stream_iv(rng, bs, kind, key, dm)
        tc = oracle.Toy(key, dm)
        c = Case("c10_%d" % i, "stream", bs, w, dm, tags=dict(kind=kind))
        c.op("new o %s new %s %s" % (kind, hx(key), hx(iv)))
        q = 0
        force = None
        for step in range(rng.randint(2, 7)):
            what = force or rng.choice(["seek", "seek", "apply", "apply", "pos", "pos"])
            force = None
            if what == "seek":
                T = rng.choice(list(TMAX))
                span = min(TMAX[T], end_pos - 1)
                p = rng.choice([0, 1, bs - 1, bs, bs + 1, q, max(0, q - 1), max(0, q - bs - 1), q + bs + 3,
                                2 ** 32 - rng.randint(1, 3 * bs), 2 ** 32 + rng.randint(0, 3 * bs), 2 ** 64 - rng.randint(1, 3 * bs),
                                2 ** 64 + rng.randint(0, 3 * bs), span - rng.randint(0, 3 * bs), rng.randint(0, span)])
                if cbits == 128 and rng.random() < 0.35:
                    # block indices that do not fit 64 bits (only reachable with u128 targets), offsets inside the block
                    T = "u128"
                    p = (rng.choice([2 ** 64, 2 ** 64 + rng.randint(1, 5), 2 ** 96 + rng.randint(0, 9), rng.randint(2 ** 64, 2 ** 120)])
                         * bs + rng.choice([0, 1, bs - 1, rng.randint(0, bs - 1)]))
                    force = "apply"           # and look at the bytes produced there
                p = max(0, min(p, TMAX[T]))
                blk, byte = divmod(p, bs)
                if blk == 2 ** cbits - 1 and byte != 0:
                    p = blk * bs - 1              # stay inside the keystream (F2 targets belong to C11)
                    blk, byte = divmod(p, bs)
                s = c.op("seek o %s %d" % (T, p))
                c.tags["seek_" + T] = 1
                if blk > 2 ** cbits - 1:
                    c.expect("seek to an unrepresentable block index is an error", lambda r, s=s: r[s] == ("err",))
                    # ... and changes nothing: the next bytes still come from q
                else:
                    c.expect("seek inside the keystream succeeds", lambda r, s=s: r[s] == ("ok",))
                    q = p
                c.tags["far"] = max(c.tags.get("far", 0), 1 if p >= 2 ** 32 else 0, 2 if p >= 2 ** 64 else 0)
            elif what == "apply":
                nbytes = rng.choice([1, bs - 1, bs, bs + 1, 2 * bs + 1, rng.randint(0, 4 * bs)])
                if q + nbytes > end_pos:
                    nbytes = max(0, min(nbytes, end_pos - q))
                d = rbytes_n(rng, nbytes)
                a = c.op("apply o ip %s" % hx(d)) if rng.random() < 0.5 else c.op("apply o b2b %s %s" % (hx(d), hx(rbytes_n(rng, nbytes))))
                exp = oracle.xor(d, ks(tc, kind, iv, q, nbytes))
                c.expect("bytes at position %d are keystream bytes %d.." % (q, q), lambda r, a=a, exp=exp: rbytes(r[a]) == exp)
                q += nbytes
            else:
                T = rng.choice(list(TMAX))
                pz = c.op("pos o %s" % T)
                if q > TMAX[T]:
                    c.expect("position %d does not fit %s: an error, not a truncated value" % (q, T), lambda r, pz=pz: r[pz] == ("err",))
                else:
                    # a spurious Overflow for positions whose block-rounded value exceeds T::MAX is tolerated
                    # (never a wrong value); the model reproduces it exactly and is compared by the correspondence
                    c.expect("reported position equals the number of keystream bytes consumed (%d)" % q,
                             lambda r, pz=pz, q=q: r[pz] == ("num", str(q)) or r[pz] == ("err",))
                    if -(-q // bs) * bs <= TMAX[T]:
                        c.expect("position %d fits %s and is reported" % (q, T), lambda r, pz=pz, q=q: r[pz] == ("num", str(q)))
        c.expect("no panic", no_panic)
        cases.append(c)
    return cases


def matcher(case, desc, known):
    return None
