"""C05: ciphertext stealing follows NIST SP 800-38A Addendum CS1/CS2/CS3 (CBC and ECB)."""
import oracle
from vlib import Case, hx, rbytes
from gens import *

BINS = ["hb_cts"]
RULE = ("cases = six variants x cipher config (block sizes 1..255, widths 1..8) x message lengths L >= b covering every residue "
        "class that matters (L = b, b+1, 2b-1, 2b, k*b, k*b+-1 around multiples of the width, random) x in place / b2b; "
        "predicate: ciphertext equals the NIST layout computed by gen/oracle.py from plain CBC/ECB of the zero-padded message, "
        "|ciphertext| = L, decryption inverts it (D = E^-1 configs); non-trivial = non-empty data; distinct = distinct (config, ops)")


def lengths(rng, bs, w, tier):
    base = [bs, bs + 1, 2 * bs - 1, 2 * bs, 2 * bs + 1, 3 * bs, 3 * bs - 1, w * bs, w * bs + 1, (w + 1) * bs,
            (w + 1) * bs + bs - 1, (2 * w + 2) * bs, (2 * w + 1) * bs + 1, (3 * w + 1) * bs - 1, rng.randint(bs, 7 * bs),
            rng.randint(bs, (3 * w + 3) * bs)]
    return [l for l in base if l >= bs]


def generate(rng, tier):
    cases = []
    n = 180 if tier == "quick" else 4000
    for i in range(n):
        bs, w, dm = pick_cfg(rng, CTS_CFGS, i // 12)
        kind = CTS_KINDS[i % 6]
        variant = int(kind[-1])
        key = rbytes_n(rng, 8)
        iv = rbytes_n(rng, bs) if kind.startswith("cbc") else b""
        ls = lengths(rng, bs, w, tier)
        L = ls[(i // 6) % len(ls)] if i < 6 * len(ls) * 2 else rng.choice(ls)
        msg = rbytes_n(rng, L)
        tc = oracle.Toy(key, dm)
        c = Case("c05_%d" % i, "cts", bs, w, dm, tags=dict(variant=kind, residue=("0" if L % bs == 0 else "partial"),
                                                            nblocks=min(-(-L // bs), 9)))
        c.op("new o %s %s %s %s" % (kind, rng.choice(["new", "inner", "slices"]), hx(key), hx(iv)))
        e = c.op("cts_enc o ip %s" % hx(msg)) if rng.random() < 0.5 else c.op("cts_enc o b2b %s %s" % (hx(msg), hx(rbytes_n(rng, L))))
        exp = oracle.cts_cbc(tc, iv, msg, variant) if kind.startswith("cbc") else oracle.cts_ecb(tc, msg, bs, variant)
        c.expect("%s ciphertext equals the SP 800-38A Addendum layout" % kind, lambda r, e=e, exp=exp: rbytes(r[e]) == exp)
        if dm == "inv":
            # decrypt the *standard's* ciphertext: an implementation whose encryptor and decryptor are wrong
            # in mirrored ways does not get away with it
            d = c.op("cts_dec o ip %s" % hx(exp)) if rng.random() < 0.5 else c.op("cts_dec o b2b %s %s" % (hx(exp), hx(rbytes_n(rng, L))))
            c.expect("%s decryption of the standard's ciphertext returns the message" % kind, lambda r, d=d, msg=msg: rbytes(r[d]) == msg)
        cases.append(c)
    return cases


def matcher(case, desc, known):
    return None
