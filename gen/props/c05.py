"""C05: ciphertext stealing follows NIST SP 800-38A Addendum CS1/CS2/CS3 (CBC and ECB)."""
import oracle
from vlib import Case, hx, rbytes
from gens import *

BINS = ["hb_cts"]
RULE = ("cases = six variants x cipher config (block sizes 1..255, widths 1..8) x message lengths L >= b covering every residue "
        "class that matters (L = b, b+1, 2b-1, 2b, k*b, k*b+-1 around multiples of the width, random) x in place / b2b; "
        "predicate: ciphertext equals the NIST layout computed by gen/oracle.py from plain CBC/ECB of the zero-padded message, "
        "|ciphertext| = L, decryption inverts it (D = E^-1 configs); non-trivial = non-empty data; distinct = distinct (config, ops)")


def lengths(rng, bs, w, tier):
    base = [bs, bs + 1, 2 * bs - 1, 2 * bs, 2 * bs + 1, 3 * bs, 3 * bs - 1, w * bs, w * bs + 1, (w + 1) * bs,
            (w + 1) * bs + bs - 1, (2 * w + 2) * bs, (2 * w + 1) * bs + 1, (3 * w + 1) * bs - 1, rng.randint(bs, 7 * bs),
            rng.randint(bs, (3 * w + 3) * bs)]
    return [l for l in base if l >= bs]


def one_case(rng, name, kind, cfg, L, enc_ip, dec_ip):
    bs, w, dm = cfg
    variant = int(kind[-1])
    key = rbytes_n(rng, 8)
    iv = rbytes_n(rng, bs) if kind.startswith("cbc") else b""
    msg = rbytes_n(rng, L)
    tc = oracle.Toy(key, dm)
    c = Case(name, "cts", bs, w, dm, tags=dict(variant=kind, residue=("0" if L % bs == 0 else "partial"),
                                                nblocks=min(-(-L // bs), 9), width=("1" if w == 1 else ">1"),
                                                enc=("ip" if enc_ip else "b2b"), dec=("ip" if dec_ip else "b2b")))
    c.op("new o %s %s %s %s" % (kind, rng.choice(["new", "inner", "slices"]), hx(key), hx(iv)))
    e = c.op("cts_enc o ip %s" % hx(msg)) if enc_ip else c.op("cts_enc o b2b %s %s" % (hx(msg), hx(rbytes_n(rng, L))))
    exp = oracle.cts_cbc(tc, iv, msg, variant) if kind.startswith("cbc") else oracle.cts_ecb(tc, msg, bs, variant)
    c.expect("%s ciphertext equals the SP 800-38A Addendum layout" % kind, lambda r, e=e, exp=exp: rbytes(r[e]) == exp)
    if dm == "inv":
        # decrypt the *standard's* ciphertext: an implementation whose encryptor and decryptor are wrong
        # in mirrored ways does not get away with it
        d = c.op("cts_dec o ip %s" % hx(exp)) if dec_ip else c.op("cts_dec o b2b %s %s" % (hx(exp), hx(rbytes_n(rng, L))))
        c.expect("%s decryption of the standard's ciphertext returns the message" % kind, lambda r, d=d, msg=msg: rbytes(r[d]) == msg)
    return c


# the grid that runs first: every variant x (serial, parallel backend) x (partial tail after >= 3 blocks, whole blocks,
# across a parallel group) x in place / buffer-to-buffer for both directions.  In-place runs alias input and output, so a
# body that reads its input after writing the output is only wrong there; serial backends take the other branch of the
# `ParBlocksSize > 1` guards.
GRID_CFGS = [(8, 1, "inv"), (5, 3, "inv"), (16, 2, "inv")]


def generate(rng, tier):
    cases = []
    for kind in CTS_KINDS:
        for cfg in GRID_CFGS:
            bs, w, _ = cfg
            for L in (3 * bs + rng.randint(1, bs - 1), 4 * bs, (2 * w + 1) * bs + rng.randint(1, bs - 1)):
                for enc_ip in (True, False):
                    for dec_ip in (True, False):
                        cases.append(one_case(rng, "c05_g%d" % len(cases), kind, cfg, L, enc_ip, dec_ip))
    n = 180 if tier == "quick" else 4000
    for i in range(n):
        cfg = pick_cfg(rng, CTS_CFGS, i // 12)
        bs, w, dm = cfg
        kind = CTS_KINDS[i % 6]
        ls = lengths(rng, bs, w, tier)
        L = ls[(i // 6) % len(ls)] if i < 6 * len(ls) * 2 else rng.choice(ls)
        cases.append(one_case(rng, "c05_%d" % i, kind, cfg, L, rng.random() < 0.5, rng.random() < 0.5))
    return cases


def matcher(case, desc, known):
    return None
