"""C09: exported IV state resumes the stream and equals the public chaining value."""
import oracle
from vlib import Case, hx, rbytes
from gens import *

BINS = ["hb_block", "hb_stream"]
RULE = ("cases = every mode with IvState (cbc, pcbc, ige, cfb, cfb8, ofb; ctr cores/wrappers x6; belt core) x cipher config x "
        "message x cut point at every block boundary class (0, 1, around the width, end); predicate (implementation only): a fresh "
        "instance built from the exported state continues exactly as the original; the exported value equals the public chaining "
        "value computed by gen/oracle.py; encryptor and decryptor on corresponding data export equal states; buffered CFB: "
        "get_state/from_state at arbitrary byte positions; non-trivial = non-empty data")

BLOCK_MODES = ["cbc", "pcbc", "ige", "cfb", "cfb8", "ofb"]
NEED_INV = {"cbc", "pcbc", "ige", "cfb"}     # cfb: iv_state decrypts the stored E(chain)


def public_chain(mode, tc, iv, pt, ct, bs):
    """the mode's public chaining value after processing plaintext pt / ciphertext ct (whole blocks)"""
    if len(ct) == 0:
        return iv
    if mode in ("cbc", "cfb"):
        return ct[-bs:]
    if mode == "pcbc":
        s = iv
        for p, c in zip(oracle.blocks(pt, bs), oracle.blocks(ct, bs)):
            s = oracle.xor(p, c)
        return s
    if mode == "ige":
        return ct[-bs:] + pt[-bs:]
    if mode == "cfb8":
        return (iv + ct)[-bs:]
    if mode == "ofb":
        return oracle.xor(pt[-bs:], ct[-bs:])
    raise ValueError(mode)


def generate(rng, tier):
    cases = []
    n = 150 if tier == "quick" else 4000
    inv_cfgs = [c for c in BLOCK_CFGS if c[2] == "inv"]
    for i in range(n):
        mode = BLOCK_MODES[i % 6]
        bs, w, dm = pick_cfg(rng, inv_cfgs if mode in NEED_INV else BLOCK_CFGS, i // 6)
        mbs = 1 if mode == "cfb8" else bs
        key, iv = rbytes_n(rng, 8), rbytes_n(rng, bs * (2 if mode == "ige" else 1))
        nb = rng.choice([1, 2, w, w + 1, 2 * w + 1, rng.randint(1, 3 * w + 2)]) * (2 if mode == "cfb8" else 1)
        cut = rng.choice([0, 1, nb - 1, nb, rng.randint(0, nb), w if w <= nb else nb])
        msg = rbytes_n(rng, nb * mbs)
        tc = oracle.Toy(key, dm)
        c = Case("c09_b%d" % i, "block", bs, w, dm, tags=dict(mode=mode, cut=("0" if cut == 0 else "end" if cut == nb else "mid")))
        c.op("new e %s_enc new %s %s" % (mode, hx(key), hx(iv)))
        c.op("new whole %s_enc new %s %s" % (mode, hx(key), hx(iv)))
        pre = feed(c, rng, "e", msg[:cut * mbs], cut * mbs, mbs, schedule(rng, cut, w))
        st = c.op("ivstate e")
        c.op("new e2 %s_enc %s %s @%d" % (mode, rng.choice(["new", "inner", "slices"]), hx(key), st))
        suf = feed(c, rng, "e2", msg[cut * mbs:], (nb - cut) * mbs, mbs, schedule(rng, nb - cut, w))
        allo = feed(c, rng, "whole", msg, nb * mbs, mbs, schedule(rng, nb, w))
        c.expect("%s: resumed encryptor continues exactly" % mode,
                 lambda r, pre=pre, suf=suf, allo=allo: joined(r, pre) + joined(r, suf) == joined(r, allo))
        c.expect("%s: exported state is the public chaining value" % mode,
                 lambda r, st=st, pre=pre, m=msg[:cut * mbs], mode=mode, tc=tc, iv=iv, bs=bs:
                 rbytes(r[st]) == public_chain(mode, tc, iv, m, joined(r, pre), bs))
        # the matching decryptor on the corresponding ciphertext exports the same state, and resumes too
        c.op("new d %s_dec new %s %s" % (mode, hx(key), hx(iv)))
        ctp = c.op("cat " + " ".join("@%d" % k for k in pre)) if pre else c.op("cat")
        feed(c, rng, "d", ("ref", ctp), cut * mbs, mbs, schedule(rng, cut, w))
        sd = c.op("ivstate d")
        c.expect("%s: encryptor and decryptor export equal states" % mode, lambda r, st=st, sd=sd: rbytes(r[st]) == rbytes(r[sd]))
        c.op("new d2 %s_dec new %s @%d" % (mode, hx(key), sd))
        cts = c.op("cat " + " ".join("@%d" % k for k in suf)) if suf else c.op("cat")
        dsuf = feed(c, rng, "d2", ("ref", cts), (nb - cut) * mbs, mbs, schedule(rng, nb - cut, w))
        if dm == "inv" or mode in ("cfb", "cfb8", "ofb"):
            c.expect("%s: resumed decryptor recovers the rest of the message" % mode,
                     lambda r, dsuf=dsuf, m=msg[cut * mbs:]: joined(r, dsuf) == m)
        cases.append(c)
    # buffered CFB: exported (block, pos) at any byte position
    for i in range(n // 2):
        bs, w, dm = pick_cfg(rng, BLOCK_CFGS, i // 2)
        direction = ["enc", "dec"][i % 2]
        key, iv = rbytes_n(rng, 8), rbytes_n(rng, bs)
        L = rng.choice([1, bs, bs + 1, 3 * bs + 2, rng.randint(1, 6 * bs)])
        cut = rng.choice([0, 1, bs - 1, bs, bs + 1, L, rng.randint(0, L)])
        cut = min(cut, L)
        msg = rbytes_n(rng, L)
        c = Case("c09_f%d" % i, "block", bs, w, dm, tags=dict(mode="buf_" + direction, cutpos=min(cut % bs, 2)))
        c.op("new a buf_%s new %s %s" % (direction, hx(key), hx(iv)))
        c.op("new whole buf_%s new %s %s" % (direction, hx(key), hx(iv)))
        pre = stream_feed(c, rng, "buf", "a", msg[:cut], byte_pieces(rng, cut, bs), places=("ip",))
        st = c.op("getstate a", compare=False)      # the representation is fed back, not compared
        c.op("fromstate b buf_%s %s @%d @%d" % (direction, hx(key), st, st))
        suf = stream_feed(c, rng, "buf", "b", msg[cut:], byte_pieces(rng, L - cut, bs), places=("ip",))
        allo = c.op("buf whole ip %s" % hx(msg))
        c.expect("buffered CFB: from_state(get_state) continues exactly at any byte position",
                 lambda r, pre=pre, suf=suf, allo=allo: joined(r, pre) + joined(r, suf) == rbytes(r[allo]))
        c.expect("buffered CFB: exported position is the byte offset within the block",
                 lambda r, st=st, cut=cut, bs=bs: int(r[st][2]) == cut % bs if cut > 0 or True else True)
        cases.append(c)
    # keystream cores
    cores = stream_cfgs_for(lambda k: True)
    for i in range(n // 2):
        bs, w, dm, kind = cores[i % len(cores)]
        if kind == "belt" and dm != "inv":
            continue        # BelT's iv_state inverts E: needs E(D x) = x
        key, iv = rbytes_n(rng, 8), boundary_iv(rng, bs, kind)
        nb = rng.choice([1, 2, w + 1, 2 * w + 1, rng.randint(1, 3 * w)])
        cut = rng.choice([0, 1, nb, rng.randint(0, nb)])
        tc = oracle.Toy(key, dm)
        c = Case("c09_s%d" % i, "stream", bs, w, dm, tags=dict(mode=kind + "_core"))
        c.op("new a %s_core new %s %s" % (kind, hx(key), hx(iv)))
        c.op("new whole %s_core new %s %s" % (kind, hx(key), hx(iv)))
        pre = c.op("ksblocks a %d" % cut)
        st = c.op("ivstate a")
        c.op("new b %s_core new %s @%d" % (kind, hx(key), st))
        g = c.op("getpos b") if kind.startswith("ctr") else None
        suf = c.op("ksblocks b %d" % (nb - cut))
        allo = c.op("ksblocks whole %d" % nb)
        c.expect("%s: fresh core from the exported state continues the keystream" % kind,
                 lambda r, pre=pre, suf=suf, allo=allo: rbytes(r[pre]) + rbytes(r[suf]) == rbytes(r[allo]))
        if kind.startswith("ctr"):
            bits, end = ctr_params(kind)
            c.expect("%s: exported state is the next counter block" % kind,
                     lambda r, st=st, e=oracle.ctr_layout(iv, cut, bits, end): rbytes(r[st]) == e)
            c.expect("%s: the resumed core restarts its block counter at 0" % kind, lambda r, g=g: r[g] == ("num", "0"))
        elif kind == "ofb":
            c.expect("ofb: exported state is the last keystream block",
                     lambda r, st=st, pre=pre, iv=iv, bs=bs: rbytes(r[st]) == (rbytes(r[pre])[-bs:] if len(rbytes(r[pre])) else iv))
        else:
            s0 = int.from_bytes(tc.E(iv), "little")
            c.expect("belt: exported state is D(le128(s))",
                     lambda r, st=st, e=tc.D(((s0 + cut) % (1 << 128)).to_bytes(16, "little")): rbytes(r[st]) == e)
        cases.append(c)
    return cases


def matcher(case, desc, known):
    return None
