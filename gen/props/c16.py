"""C16: clones and separate instances are independent, deterministic values."""
import oracle
from vlib import Case, hx, rbytes
from gens import *

BINS = ["hb_block", "hb_stream", "hb_cts"]
RULE = ("cases = every cloneable type (block modes, buffered CFB, OfbCore, CtrCore x6 and the Ctr/Ofb wrappers, cts variants) x "
        "cipher config; a history h1, a clone (Clone::clone, or Clone::clone_from into a used instance under another key), then histories h2 and h3 applied to original and clone in a random interleaving, "
        "with a bystander instance under another key used in between; plus cross-key cases: an instance (BelT included) built under key K2 from the state exported by an instance under K1 must equal the oracle for (K2, that IV); predicate (implementation only): the outputs equal those of "
        "two fresh instances replaying h1;h2 and h1;h3 in the same case; non-trivial = non-empty data")

BLOCK_KINDS = ["cbc_enc", "cbc_dec", "pcbc_enc", "pcbc_dec", "ige_enc", "ige_dec", "cfb_enc", "cfb_dec", "cfb8_enc", "cfb8_dec",
               "ofb_enc", "ofb_dec", "buf_enc", "buf_dec"]


def rand_ops(rng, kind, bs, w, count):
    """a history: list of op templates with %s for the object id"""
    ops = []
    mbs = 1 if kind.startswith("cfb8") else bs
    for _ in range(count):
        if kind.startswith("buf"):
            ops.append("buf %%s ip %s" % hx(rbytes_n(rng, rng.choice([0, 1, bs - 1, bs, bs + 1, rng.randint(0, 3 * bs)]))))
        elif kind in ("wrap",):
            what = rng.choice(["apply", "apply", "seek", "pos"])
            if what == "apply":
                ops.append("apply %%s ip %s" % hx(rbytes_n(rng, rng.choice([0, 1, bs - 1, bs, bs + 1, rng.randint(0, 3 * bs)]))))
            elif what == "seek":
                ops.append("seek %%s u64 %d" % rng.randint(0, 20 * bs))
            else:
                ops.append("pos %s u64")
        elif kind == "ofbwrap":
            ops.append("apply %%s ip %s" % hx(rbytes_n(rng, rng.choice([0, 1, bs - 1, bs, bs + 1, rng.randint(0, 3 * bs)]))))
        elif kind == "core":
            what = rng.choice(["ks", "apply", "ivstate", "getpos", "setpos"])
            if what == "ks":
                ops.append("ksblocks %%s %d" % rng.randint(0, 2 * w + 1))
            elif what == "apply":
                ops.append("applyblks %%s ip %s" % hx(rbytes_n(rng, bs * rng.randint(0, 2 * w + 1))))
            elif what == "ivstate":
                ops.append("ivstate %s")
            elif what == "getpos":
                ops.append("getpos %s")
            else:
                ops.append("setpos %%s %d" % rng.randint(0, 1000))
        elif kind == "ofbcore":
            ops.append(rng.choice(["ksblocks %%s %d" % rng.randint(0, 2 * w + 1), "ivstate %s"]))
        else:
            k = max(0, rng.choice([1, 1, w, w + 1, 0]))
            if k == 1 and rng.random() < 0.5:
                ops.append("blk %%s ip %s" % hx(rbytes_n(rng, mbs)))
            else:
                ops.append("blks %%s ip %s" % hx(rbytes_n(rng, k * mbs)))
            if rng.random() < 0.3:
                ops.append("ivstate %s")
    return ops


def build(c, rng, newline, kind, bs, w, newline_other):
    h1 = rand_ops(rng, kind, bs, w, rng.randint(0, 3))
    h2 = rand_ops(rng, kind, bs, w, rng.randint(1, 4))
    h3 = rand_ops(rng, kind, bs, w, rng.randint(1, 4))
    c.op(newline % "orig")
    for o in h1:
        c.op(o % "orig")
    if rng.random() < 0.4:
        # Clone::clone_from into an existing, used instance of the same type under another key/IV
        c.op(newline_other % "cl")
        for o in rand_ops(rng, kind, bs, w, rng.randint(0, 2)):
            c.op(o % "cl")
        c.op("clonefrom cl orig")
    else:
        c.op("clone orig cl")
    # interleave h2 on the original and h3 on the clone
    io, ic, seq = [], [], []
    a, b = list(h2), list(h3)
    while a or b:
        if a and (not b or rng.random() < 0.5):
            io.append(c.op(a.pop(0) % "orig"))
        else:
            ic.append(c.op(b.pop(0) % "cl"))
    # fresh replays
    c.op(newline % "f1")
    for o in h1:
        c.op(o % "f1")
    fo = [c.op(o % "f1") for o in h2]
    c.op(newline % "f2")
    for o in h1:
        c.op(o % "f2")
    fc = [c.op(o % "f2") for o in h3]
    c.expect("the original after the clone behaves like a fresh instance replaying h1;h2",
             lambda r, io=io, fo=fo: [r[x] for x in io] == [r[x] for x in fo])
    c.expect("the clone behaves like a fresh instance replaying h1;h3",
             lambda r, ic=ic, fc=fc: [r[x] for x in ic] == [r[x] for x in fc])


def generate(rng, tier):
    cases = []
    n = 140 if tier == "quick" else 4000
    for i in range(n):
        kind = BLOCK_KINDS[i % len(BLOCK_KINDS)]
        bs, w, dm = pick_cfg(rng, BLOCK_CFGS, i // len(BLOCK_KINDS))
        key, iv = rbytes_n(rng, 8), rbytes_n(rng, bs * (2 if kind.startswith("ige") else 1))
        c = Case("c16_b%d" % i, "block", bs, w, dm, tags=dict(kind=kind))
        build(c, rng, "new %%s %s new %s %s" % (kind, hx(key), hx(iv)), kind, bs, w,
              "new %%s %s new %s %s" % (kind, hx(rbytes_n(rng, 8)), hx(rbytes_n(rng, len(iv)))))
        cases.append(c)
    allk = stream_cfgs_for(lambda k: k != "belt")       # BeltCtrCore is not Clone
    for i in range(n):
        bs, w, dm, kind = allk[i % len(allk)] if i < len(allk) else rng.choice(allk)
        key, iv = rbytes_n(rng, 8), boundary_iv(rng, bs, kind)
        core = i % 2 == 0
        c = Case("c16_s%d" % i, "stream", bs, w, dm, tags=dict(kind=kind + ("_core" if core else "")))
        hk = ("ofbcore" if kind == "ofb" else "core") if core else ("ofbwrap" if kind == "ofb" else "wrap")
        build(c, rng, "new %%s %s%s new %s %s" % (kind, "_core" if core else "", hx(key), hx(iv)), hk, bs, w,
              "new %%s %s%s new %s %s" % (kind, "_core" if core else "", hx(rbytes_n(rng, 8)), hx(rbytes_n(rng, len(iv)))))
        cases.append(c)
    cross_key(cases, rng, n // 2)
    cross_key_block(cases, rng, n // 3)
    for i in range(n // 3):
        bs, w, dm = pick_cfg(rng, CTS_CFGS, i // 6)
        kind = CTS_KINDS[i % 6]
        key = rbytes_n(rng, 8)
        iv = rbytes_n(rng, bs) if kind.startswith("cbc") else b""
        c = Case("c16_t%d" % i, "cts", bs, w, dm, tags=dict(kind=kind))
        c.op("new orig %s new %s %s" % (kind, hx(key), hx(iv)))
        if i % 2:
            c.op("new cl %s new %s %s" % (kind, hx(rbytes_n(rng, 8)), hx(rbytes_n(rng, len(iv)))))
            c.op("clonefrom cl orig")
        else:
            c.op("clone orig cl")
        c.op("new other %s new %s %s" % (kind, hx(rbytes_n(rng, 8)), hx(rbytes_n(rng, len(iv)))))
        m1, m2 = rbytes_n(rng, rng.randint(bs, 4 * bs)), rbytes_n(rng, rng.randint(bs, 4 * bs))
        a1 = c.op("cts_enc orig ip %s" % hx(m1))
        c.op("cts_enc other ip %s" % hx(m2))
        b1 = c.op("cts_enc cl ip %s" % hx(m1))
        a2 = c.op("cts_enc orig ip %s" % hx(m1))
        c.expect("clone and original encrypt alike, repeatedly", lambda r, a1=a1, b1=b1, a2=a2: r[a1] == r[b1] == r[a2] and r[a1][0] == "bytes")
        cases.append(c)
    return cases


def cross_key(cases, rng, n):
    """Two instances under DIFFERENT keys where the second one is constructed from bytes the first one
    produced (its exported IV state): the second must behave as a function of its own key and IV only.
    All keystream kinds, BelT-CTR included (not Clone, but instances must still be independent); the
    expected bytes come from the independent oracle."""
    allk = stream_cfgs_for(lambda k: True)
    for i in range(n):
        bs, w, dm, kind = allk[i % len(allk)] if i < len(allk) else rng.choice(allk)
        k1, k2 = rbytes_n(rng, 8), rbytes_n(rng, 8)
        iv = boundary_iv(rng, bs, kind)
        c = Case("c16_x%d" % i, "stream", bs, w, dm, tags=dict(kind=kind + "_crosskey"))
        c.op("new a %s_core new %s %s" % (kind, hx(k1), hx(iv)))
        if rng.random() < 0.7:
            c.op("ksblocks a %d" % rng.randint(0, w + 1))
        u = c.op("ivstate a")
        c.op("new b %s_core new %s @%d" % (kind, hx(k2), u))
        nb = rng.randint(1, 2 * w + 1)
        o = c.op("ksblocks b %d" % nb)
        if rng.random() < 0.5:
            c.op("ivstate a")                      # another export in between
        c.op("new b2 %s new %s @%d" % (kind, hx(k2), u))
        msg = rbytes_n(rng, rng.randint(1, 3 * bs))
        o2 = c.op("apply b2 ip %s" % hx(msg))
        tc2 = oracle.Toy(k2, dm)

        def ks(ivb, n, kind=kind, tc2=tc2):
            if kind == "belt":
                return oracle.belt_ks(tc2, ivb, 0, n)
            if kind == "ofb":
                return oracle.ofb_ks(tc2, ivb, n)
            wbits = int(kind[3:-2])
            return oracle.ctr_ks(tc2, ivb, wbits, kind[-2:], 0, n)
        c.expect("an instance built from another instance's exported state under a different key depends on its own key and IV only (core)",
                 lambda r, u=u, o=o, nb=nb, bs=bs, ks=ks: rbytes(r[o]) == ks(rbytes(r[u]), nb * bs))
        c.expect("... (byte-level wrapper)",
                 lambda r, u=u, o2=o2, msg=msg, ks=ks: rbytes(r[o2]) == oracle.xor(msg, ks(rbytes(r[u]), len(msg))))
        cases.append(c)


def cross_key_block(cases, rng, n):
    """Same idea for the block-mode types (and buffered CFB): B under K2 starts from the IV state A under K1
    exported; the model has no shared state, so the correspondence decides; the predicate compares B with a
    twin built the same way after further exports by A."""
    kinds = [k for k in BLOCK_KINDS if not k.startswith("buf")]
    for i in range(n):
        kind = kinds[i % len(kinds)]
        bs, w, dm = pick_cfg(rng, BLOCK_CFGS, i // len(kinds))
        mbs = 1 if kind.startswith("cfb8") else bs
        k1, k2 = rbytes_n(rng, 8), rbytes_n(rng, 8)
        iv = rbytes_n(rng, bs * (2 if kind.startswith("ige") else 1))
        c = Case("c16_y%d" % i, "block", bs, w, dm, tags=dict(kind=kind + "_crosskey"))
        c.op("new a %s new %s %s" % (kind, hx(k1), hx(iv)))
        c.op("blks a ip %s" % hx(rbytes_n(rng, mbs * rng.randint(0, w + 1))))
        u = c.op("ivstate a")
        c.op("new b %s new %s @%d" % (kind, hx(k2), u))
        data = rbytes_n(rng, mbs * rng.randint(1, 2 * w + 1))
        o1 = c.op("blks b ip %s" % hx(data))
        c.op("blks a ip %s" % hx(rbytes_n(rng, mbs)))
        c.op("ivstate a")
        c.op("new b2 %s new %s @%d" % (kind, hx(k2), u))
        o2 = c.op("blks b2 ip %s" % hx(data))
        c.expect("two instances built alike under K2 from A's exported state agree, whatever A exported in between",
                 lambda r, o1=o1, o2=o2: r[o1] == r[o2] and r[o1][0] == "bytes")
        cases.append(c)


def matcher(case, desc, known):
    return None
