"""C17: mode objects do not leak chaining state via Debug output or dropped memory."""
import oracle
from vlib import Case, hx, rbytes
from gens import *

BINS = ["hb_block", "hb_stream"]
LEVEL = "other"
RULE = ("cases = every mode type with a Debug impl (block modes, buffered CFB, OfbCore, CtrCore x6, BeltCtrCore, and the wrapper "
        "aliases Ctr*/Ofb/BeltCtr) x cipher config x key/IV/history; Debug and algorithm-name text are compared with a fresh "
        "reference instance of the same type under another key and IV (no literal is pinned); drop probe (crates built with their "
        "`zeroize` feature): the object is moved into raw storage, its IV / exported state / internal representations of them "
        "(E(chain) for CFB, native-endian counter chunks for CTR, s and s_init for BelT, buffered keystream for the wrappers) are "
        "searched for as 8-byte windows before and after drop_in_place; predicate: present before (else the probe is trivial and "
        "counted as such), absent after; non-trivial = probe found the secret before the drop or a Debug comparison was made")

BLOCK_KINDS = ["cbc_enc", "cbc_dec", "pcbc_enc", "pcbc_dec", "ige_enc", "ige_dec", "cfb_enc", "cfb_dec", "cfb8_enc", "cfb8_dec",
               "ofb_enc", "ofb_dec", "buf_enc", "buf_dec"]


def generate(rng, tier):
    cases = []
    n = 112 if tier == "quick" else 2800
    cfgs = [c for c in BLOCK_CFGS if c[0] >= 8 and c[2] == "inv"]
    for i in range(n):
        kind = BLOCK_KINDS[i % len(BLOCK_KINDS)]
        bs, w, dm = pick_cfg(rng, cfgs, i // len(BLOCK_KINDS))
        mode = kind.split("_")[0]
        mbs = 1 if mode == "cfb8" else bs
        key, iv = rbytes_n(rng, 8), rbytes_n(rng, bs * (2 if mode == "ige" else 1))
        tc = oracle.Toy(key, dm)
        c = Case("c17_b%d" % i, "block", bs, w, dm, tags=dict(kind=kind))
        c.op("new o %s new %s %s" % (kind, hx(key), hx(iv)))
        c.op("new ref %s new %s %s" % (kind, hx(rbytes_n(rng, 8)), hx(rbytes_n(rng, len(iv)))))
        # some history
        if mode == "buf":
            L = rng.choice([0, 1, bs - 1, bs, bs + 3, 2 * bs + 5])
            data = rbytes_n(rng, L)
            o = c.op("buf o ip %s" % hx(data))
            enc = kind == "buf_enc"
            ct = oracle.cfb_enc(tc, iv, data) if enc else data
            q = L % bs
            chain = ([iv] + oracle.blocks(ct[:L - q], bs))[-1]
            field = ct[L - q:] + tc.E(chain)[q:]
            secrets = [hx(field)]
        else:
            nb = rng.randint(0, 2 * w + 1) * (bs if mode == "cfb8" else 1)
            data = rbytes_n(rng, nb * mbs)
            if nb:
                c.op("blks o ip %s" % hx(data))
            st = c.op("ivstate o")
            secrets = ["@%d" % st]
            if mode == "cfb":
                ct = oracle.cfb_enc(tc, iv, data) if kind == "cfb_enc" else data
                chain = ([iv] + oracle.blocks(ct, bs))[-1]
                secrets.append(hx(tc.E(chain)))             # the stored form
        d1, d2 = c.op("debug o"), c.op("debug ref")
        a1, a2 = c.op("algname o"), c.op("algname ref")
        c.expect("Debug text depends only on the type", lambda r, d1=d1, d2=d2: r[d1] == r[d2] and r[d1][0] == "text")
        c.expect("algorithm name depends only on the type", lambda r, a1=a1, a2=a2: r[a1] == r[a2] and r[a1][0] == "text")
        p = c.op("dropprobe o " + " ".join(secrets))
        c.tags["probe"] = 1
        c.expect("after drop none of the chaining bytes remain in the object's storage",
                 lambda r, p=p: r[p][0] == "probe" and int(r[p][2]) == 0)
        c.expect("the probe is meaningful: the secret was in the object before the drop",
                 lambda r, p=p: int(r[p][1]) > 0)
        cases.append(c)
    allk = [x for x in stream_cfgs_for(lambda k: True) if x[0] >= 8 and x[2] == "inv"]
    for i in range(n):
        bs, w, dm, kind = allk[i % len(allk)] if i < len(allk) else rng.choice(allk)
        key, iv = rbytes_n(rng, 8), rbytes_n(rng, bs)
        tc = oracle.Toy(key, dm)
        wrap = i % 2 == 1
        c = Case("c17_s%d" % i, "stream", bs, w, dm, tags=dict(kind=kind + ("" if wrap else "_core")))
        suffix = "" if wrap else "_core"
        c.op("new o %s%s new %s %s" % (kind, suffix, hx(key), hx(iv)))
        c.op("new ref %s%s new %s %s" % (kind, suffix, hx(rbytes_n(rng, 8)), hx(rbytes_n(rng, bs))))
        secrets = []
        if wrap:
            L = rng.choice([0, bs, 2 * bs, 1, bs - 1, bs + 5, 3 * bs + 2])
            if L:
                c.op("apply o ip %s" % hx(bytes(L)))
            partial = L % bs != 0
            if partial:
                c.tags["f3"] = 1
                # the buffer holds the keystream block being consumed
                if kind == "ofb":
                    ksb = oracle.ofb_ks(tc, iv, (L // bs + 1) * bs)[-bs:]
                elif kind == "belt":
                    ksb = oracle.belt_ks(tc, iv, (L // bs) * bs, bs)
                else:
                    bits, end = ctr_params(kind)
                    ksb = oracle.ctr_ks(tc, iv, bits, end, (L // bs) * bs, bs)
                rest = ksb[max(L % bs, 1):]                    # byte 0 of the buffer holds the position
                if len(rest) >= 4:
                    secrets.append(hx(rest))
        else:
            nb = rng.randint(0, 2 * w + 1)
            if nb:
                c.op("ksblocks o %d" % nb)
        if kind == "ofb":
            st = c.op("ivstate o")
            secrets.append("@%d" % st)
        elif kind == "belt":
            secrets.append(hx(tc.E(iv)))                       # s_init = E(IV)
        else:
            bits, end = ctr_params(kind)                       # nonce chunks are stored as native-endian integers:
            k = bits // 8                                      # the big-endian counter chunk is byte-reversed in memory
            stored = iv[:-k] + iv[-k:][::-1] if end == "be" else iv
            secrets.append(hx(stored))
        d1, d2 = c.op("debug o"), c.op("debug ref")
        c.expect("Debug text depends only on the type", lambda r, d1=d1, d2=d2: r[d1] == r[d2] and r[d1][0] == "text")
        if not wrap:
            a1, a2 = c.op("algname o"), c.op("algname ref")
            c.expect("algorithm name depends only on the type", lambda r, a1=a1, a2=a2: r[a1] == r[a2] and r[a1][0] == "text")
        p = c.op("dropprobe o " + " ".join(secrets))
        ns = len(secrets)
        c.expect("after drop none of the chaining / keystream bytes remain in the object's storage",
                 lambda r, p=p: r[p][0] == "probe" and int(r[p][2]) == 0)
        c.expect("the probe is meaningful: every secret was in the object before the drop",
                 lambda r, p=p, ns=ns: int(r[p][1]) == ns)
        cases.append(c)
    return cases


def matcher(case, desc, known):
    if case.tags.get("f3") and desc.startswith("Debug text"):
        for k in known["findings"]:
            if k["id"] == "F3":
                return k
    return None
