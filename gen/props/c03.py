"""C03: CFB, CFB-8 and OFB compute exactly their defining recurrences; only E is used."""
import oracle
from vlib import Case, hx, rbytes
from gens import *

BINS = ["hb_block", "hb_stream"]
RULE = ("cases = (cfb block-level / cfb one-shot with partial tail / buffered cfb with random chunking / cfb8 block-level / "
        "cfb8 one-shot / ofb as block enc, block dec, core, byte stream) x enc/dec x cipher config (incl. D unrelated to E) x "
        "random key/IV/message; predicate: output equals the recurrence of gen/oracle.py (which uses E only), iv_state of "
        "cfb8/ofb equals the register / last keystream block; non-trivial = non-empty data result; distinct = distinct (config, ops)")


def generate(rng, tier):
    cases = []
    n = 40 if tier == "quick" else 1000
    for i in range(n * 4):
        bs, w, dm = pick_cfg(rng, BLOCK_CFGS, i // 8)
        key, iv = rbytes_n(rng, 8), rbytes_n(rng, bs)
        tc = oracle.Toy(key, dm)
        which = i % 8
        direction = rng.choice(["enc", "dec"])
        if which in (0, 1):     # block-level CFB with schedules
            nb = nblocks(rng, w, tier)
            msg = rbytes_n(rng, nb * bs)
            c = Case("c03_%d" % i, "block", bs, w, dm, tags=dict(path="cfb-blocks", dir=direction))
            c.op("new o cfb_%s new %s %s" % (direction, hx(key), hx(iv)))
            outs = feed(c, rng, "o", msg, len(msg), bs, schedule(rng, nb, w))
            exp = (oracle.cfb_enc if direction == "enc" else oracle.cfb_dec)(tc, iv, msg)
            c.expect("CFB %s (block calls) equals the recurrence" % direction, lambda r, outs=outs, exp=exp: joined(r, outs) == exp)
        elif which in (2, 3):   # one-shot CFB with partial tail
            L = rng.choice([0, 1, bs - 1, bs + 1, 2 * bs - 1, w * bs + 1, w * bs + bs - 1, rng.randint(0, 5 * bs)])
            msg = rbytes_n(rng, L)
            c = Case("c03_%d" % i, "block", bs, w, dm, tags=dict(path="cfb-oneshot", dir=direction, tail=min(L % bs, 3)))
            c.op("new o cfb_%s new %s %s" % (direction, hx(key), hx(iv)))
            o = c.op("async o ip %s" % hx(msg)) if rng.random() < 0.5 else c.op("async o b2b %s %s" % (hx(msg), hx(rbytes_n(rng, L))))
            exp = (oracle.cfb_enc if direction == "enc" else oracle.cfb_dec)(tc, iv, msg)
            c.expect("one-shot CFB %s equals the recurrence incl. the partial tail" % direction, lambda r, o=o, exp=exp: rbytes(r[o]) == exp)
        elif which == 4:        # buffered CFB
            L = rng.choice([0, 1, bs - 1, bs, bs + 1, 3 * bs + 2, rng.randint(0, 6 * bs)])
            msg = rbytes_n(rng, L)
            c = Case("c03_%d" % i, "block", bs, w, dm, tags=dict(path="cfb-buffered", dir=direction))
            c.op("new o buf_%s new %s %s" % (direction, hx(key), hx(iv)))
            outs = stream_feed(c, rng, "buf", "o", msg, byte_pieces(rng, L, bs), places=("ip",))
            exp = (oracle.cfb_enc if direction == "enc" else oracle.cfb_dec)(tc, iv, msg)
            c.expect("buffered CFB %s equals the recurrence for any chunking" % direction, lambda r, outs=outs, exp=exp: joined(r, outs) == exp)
        elif which in (5, 6):   # CFB-8, block-level (1-byte blocks) or one-shot
            # the mode's block is one byte, so the parallel width counts bytes: lengths around multiples of w too
            L = rng.choice([0, 1, bs - 1, bs, bs + 1, 2 * bs + 1, w, w + 1, 2 * w + 1, 3 * w + 2, rng.randint(0, 4 * bs + 3)])
            msg = rbytes_n(rng, L)
            c = Case("c03_%d" % i, "block", bs, w, dm, tags=dict(path="cfb8", dir=direction))
            c.op("new o cfb8_%s new %s %s" % (direction, hx(key), hx(iv)))
            exp, reg = (oracle.cfb8_enc if direction == "enc" else oracle.cfb8_dec)(tc, iv, msg)
            if which == 5:
                outs = feed(c, rng, "o", msg, L, 1, schedule(rng, L, w))
                st = c.op("ivstate o")
                c.expect("CFB-8 %s equals the recurrence" % direction, lambda r, outs=outs, exp=exp: joined(r, outs) == exp)
                c.expect("CFB-8 register = previous register shifted left with the ciphertext bytes appended",
                         lambda r, st=st, reg=reg: rbytes(r[st]) == reg)
            else:
                o = c.op("async o ip %s" % hx(msg)) if rng.random() < 0.5 else c.op("async o b2b %s %s" % (hx(msg), hx(rbytes_n(rng, L))))
                c.expect("one-shot CFB-8 %s equals the recurrence" % direction, lambda r, o=o, exp=exp: rbytes(r[o]) == exp)
        else:                   # OFB block front-ends
            nb = nblocks(rng, w, tier)
            msg = rbytes_n(rng, nb * bs)
            c = Case("c03_%d" % i, "block", bs, w, dm, tags=dict(path="ofb-blocks", dir=direction))
            c.op("new o ofb_%s new %s %s" % (direction, hx(key), hx(iv)))
            outs = feed(c, rng, "o", msg, len(msg), bs, schedule(rng, nb, w))
            st = c.op("ivstate o")
            ks = oracle.ofb_ks(tc, iv, len(msg))
            exp = oracle.xor(msg, ks)
            last = ks[-bs:] if nb else iv
            c.expect("OFB (%s front-end) = input xor O_1 O_2 ..." % direction, lambda r, outs=outs, exp=exp: joined(r, outs) == exp)
            c.expect("OFB iv_state = last keystream block", lambda r, st=st, last=last: rbytes(r[st]) == last)
        cases.append(c)
    # OFB as keystream core and byte stream
    ofbs = stream_cfgs_for(lambda k: k == "ofb")
    for i in range(n):
        bs, w, dm, kind = ofbs[i % len(ofbs)]
        key, iv = rbytes_n(rng, 8), rbytes_n(rng, bs)
        tc = oracle.Toy(key, dm)
        L = rng.choice([0, 1, bs - 1, bs, bs + 1, 3 * bs + 2, rng.randint(0, 6 * bs)])
        msg = rbytes_n(rng, L)
        c = Case("c03_s%d" % i, "stream", bs, w, dm, tags=dict(path="ofb-stream"))
        c.op("new o ofb new %s %s" % (hx(key), hx(iv)))
        outs = stream_feed(c, rng, "apply", "o", msg, byte_pieces(rng, L, bs))
        exp = oracle.xor(msg, oracle.ofb_ks(tc, iv, L))
        c.expect("OFB byte stream = input xor keystream", lambda r, outs=outs, exp=exp: joined(r, outs) == exp)
        nbk = rng.randint(0, 5)
        c.op("new k ofb_core new %s %s" % (hx(key), hx(iv)))
        k = c.op("ksblocks k %d" % nbk)
        c.expect("OFB core keystream blocks = O_1 .. O_n", lambda r, k=k, e=oracle.ofb_ks(tc, iv, nbk * bs): rbytes(r[k]) == e)
        cases.append(c)
    return cases


def matcher(case, desc, known):
    return None
