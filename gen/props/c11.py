"""C11: a keystream never wraps around silently: exhaustion is an error, not reuse."""
import oracle
from vlib import Case, hx, rbytes
from gens import *

BINS = ["hb_stream"]
RULE = ("cases = (six CTR flavours, BelT-CTR) x cipher config x cores positioned by set_block_pos within the last blocks before "
        "the limit then wrapped, or wrappers positioned by seek x partially consumed buffers x requests ending before / exactly at "
        "/ after the limit; predicate (implementation only): success iff the request fits in (2^w-1)*bs bytes; on failure data and "
        "position are unchanged and a smaller request still works; remaining_blocks, when reported, is exact; every successful "
        "byte equals the keystream byte of its position (block index <= 2^w-2, so no counter value serves two positions); "
        "seek targets inside block index 2^w-1 (the F2 class) must not succeed; non-trivial = non-empty data")


def ks(tc, kind, iv, p, n):
    if kind == "belt":
        return oracle.belt_ks(tc, iv, p, n)
    bits, end = ctr_params(kind)
    return oracle.ctr_ks(tc, iv, bits, end, p, n)


def generate(rng, tier):
    cases = []
    seekable = stream_cfgs_for(lambda k: k != "ofb")
    n = 200 if tier == "quick" else 5000
    for i in range(n):
        bs, w, dm, kind = pick_stream(rng, i // 4 * 4 + (i % 4) * 0 + i // 4, lambda k: k != "ofb") if False else pick_stream(rng, i // 4, lambda k: k != "ofb")
        cbits = 128 if kind == "belt" else ctr_params(kind)[0]
        nblocks_total = 2 ** cbits - 1
        end_pos = nblocks_total * bs
        key = rbytes_n(rng, 8)
        iv = stream_iv(rng, bs, kind, key, dm)
        tc = oracle.Toy(key, dm)
        c = Case("c11_%d" % i, "stream", bs, w, dm, tags=dict(kind=kind))
        back = rng.choice([0, 1, 2, w, w + 1, 2 * w + 1])
        shape = i % 4
        if shape == 3 and kind.startswith("ctr") and cbits < 128:
            # F2 class: a byte position inside block index 2^w - 1 does not exist
            c.tags["f2"] = 1
            c.op("new o %s new %s %s" % (kind, hx(key), hx(iv)))
            first = c.op("apply o ip %s" % hx(bytes(2 * bs)))
            T = "u64" if end_pos + bs <= 2 ** 64 - 1 else "u128"
            k = rng.randint(1, bs - 1) if bs > 1 else 0
            if bs == 1:
                continue
            s = c.op("seek o %s %d" % (T, end_pos + k))
            a = c.op("apply o ip %s" % hx(bytes(2 * bs)))
            c.expect("a seek into block index 2^w-1 (beyond the last keystream block) must not be followed by keystream reuse",
                     lambda r, s=s, a=a, first=first, bs=bs, k=k:
                     r[s] == ("err",) or r[a] == ("err",) or rbytes(r[a])[bs - k:bs - k + bs] != rbytes(r[first])[:bs])
            cases.append(c)
            continue
        start_block = nblocks_total - back
        if shape == 0 or cbits == 128:      # byte offsets cannot reach the end of a 128-bit counter's keystream
            # position the core, then wrap it
            c.op("new k %s_core new %s %s" % (kind, hx(key), hx(iv)))
            c.op("setpos k %d" % start_block)
            rm = c.op("remaining k")
            c.op("wrap k o")
            q = start_block * bs
            if back <= 2 ** 64 - 1:
                c.expect("remaining_blocks is exact", lambda r, rm=rm, back=back: r[rm] == ("num", str(back)))
        else:
            c.op("new o %s new %s %s" % (kind, hx(key), hx(iv)))
            off = rng.choice([0, 0, 1, bs - 1]) if back > 0 else 0
            q = start_block * bs + off
            T = "u128" if q > 2 ** 64 - 1 else rng.choice(["u64", "u128", "usize"])
            s = c.op("seek o %s %d" % (T, q))
            c.expect("seek inside the keystream succeeds", lambda r, s=s: r[s] == ("ok",))
        c.tags["back"] = back
        for step in range(rng.randint(1, 4)):
            room = end_pos - q
            nbytes = rng.choice([room, room + 1, room - 1, room + bs, 1, bs, bs + 1, rng.randint(0, room + 2 * bs)])
            nbytes = max(0, nbytes)
            if nbytes > 12 * bs:
                nbytes = rng.randint(0, 8 * bs)
            d = rbytes_n(rng, nbytes)
            T = "u128" if kind in ("belt", "ctr128be", "ctr128le", "ctr64be", "ctr64le") else "u64"
            p0 = c.op("pos o %s" % T)
            a = c.op("apply o ip %s" % hx(d)) if rng.random() < 0.5 else c.op("apply o b2b %s %s" % (hx(d), hx(rbytes_n(rng, nbytes))))
            p1 = c.op("pos o %s" % T)
            if nbytes <= room:
                exp = oracle.xor(d, ks(tc, kind, iv, q, nbytes))
                c.expect("a request of %d bytes with %d left succeeds with the keystream of its position" % (nbytes, room),
                         lambda r, a=a, exp=exp: rbytes(r[a]) == exp)
                q += nbytes
                c.tags["exact_end"] = c.tags.get("exact_end", 0) | (1 if nbytes == room and nbytes > 0 else 0)
            else:
                c.tags["overrun"] = 1
                c.expect("a request of %d bytes with only %d left fails with an error and leaves the data untouched" % (nbytes, room),
                         lambda r, a=a: r[a] == ("err",))
                c.expect("a failed request leaves the position untouched", lambda r, p0=p0, p1=p1: r[p0] == r[p1])
        c.expect("no panic", no_panic)
        cases.append(c)
    return cases


def matcher(case, desc, known):
    if case.tags.get("f2"):
        for k in known["findings"]:
            if k["id"] == "F2":
                return k
    return None
