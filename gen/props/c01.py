"""C01: decryption inverts encryption for every mode, cipher, key, IV and message; lengths preserved."""
import oracle
from vlib import Case, hx, rbytes
from gens import *

BINS = ["hb_block", "hb_stream", "hb_cts"]
RULE = ("cases = every mode family (block modes block/multi-block/padded/one-shot/buffered, six CTR flavours, OFB, BelT-CTR, "
        "six CTS variants) x cipher config x random key/IV/message x independent random schedules or chunkings on the "
        "encrypting and the decrypting side; predicate: dec(enc m) = m and |enc m| = |m| for unpadded paths, evaluated on "
        "the implementation; non-trivial = a non-empty data result; distinct = distinct (config, op list)")

BLOCK_MODES = ["cbc", "pcbc", "ige", "cfb", "cfb8", "ofb"]
NEED_INV = {"cbc", "pcbc", "ige"}


def generate(rng, tier):
    cases = []
    n = 40 if tier == "quick" else 1000
    # --- block modes: block/multi-block schedules ---
    inv_cfgs = [c for c in BLOCK_CFGS if c[2] == "inv"]
    for i in range(n * 2):
        mode = BLOCK_MODES[i % 6]
        bs, w, dm = pick_cfg(rng, inv_cfgs if mode in NEED_INV else BLOCK_CFGS, i // 6)
        mbs = 1 if mode == "cfb8" else bs
        key, iv = rbytes_n(rng, 8), rbytes_n(rng, bs * (2 if mode == "ige" else 1))
        nb = nblocks(rng, w, tier) * (3 if mode == "cfb8" else 1)
        msg = rbytes_n(rng, nb * mbs)
        c = Case("c01_b%d" % i, "block", bs, w, dm, tags=dict(path="blocks", mode=mode))
        c.op("new e %s_enc new %s %s" % (mode, hx(key), hx(iv)))
        c.op("new d %s_dec new %s %s" % (mode, hx(key), hx(iv)))
        eo = feed(c, rng, "e", msg, len(msg), mbs, schedule(rng, nb, w))
        ct = c.op("cat " + " ".join("@%d" % k for k in eo)) if eo else c.op("cat")
        do = feed(c, rng, "d", ("ref", ct), len(msg), mbs, schedule(rng, nb, w))
        c.expect("ciphertext length equals message length", lambda r, ct=ct, msg=msg: len(rbytes(r[ct])) == len(msg))
        c.expect("dec(enc m) = m (block / multi-block calls)", lambda r, do=do, msg=msg: joined(r, do) == msg)
        cases.append(c)
    # --- padded ---
    for i in range(n):
        mode = BLOCK_MODES[i % 6]
        bs, w, dm = pick_cfg(rng, inv_cfgs if mode in NEED_INV else BLOCK_CFGS, i // 6)
        if mode == "cfb8":
            continue
        key, iv = rbytes_n(rng, 8), rbytes_n(rng, bs * (2 if mode == "ige" else 1))
        pk = rng.random() < 0.7
        L = rng.choice([0, 1, bs - 1, bs, bs + 1, 2 * bs, rng.randint(0, 4 * bs)]) if pk else bs * rng.randint(0, 4)
        msg = rbytes_n(rng, L)
        c = Case("c01_p%d" % i, "block", bs, w, dm, tags=dict(path="padded", mode=mode, pad="pkcs7" if pk else "nopad"))
        c.op("new e %s_enc new %s %s" % (mode, hx(key), hx(iv)))
        c.op("new d %s_dec new %s %s" % (mode, hx(key), hx(iv)))
        P = "pkcs7" if pk else "nopad"
        room = (L // bs + 1) * bs + rng.choice([0, 0, 3])
        if rng.random() < 0.5:
            e = c.op("pad e %s ip %s %d" % (P, hx(msg + rbytes_n(rng, room - L)), L))
        else:
            e = c.op("pad e %s b2b %s %s" % (P, hx(msg), hx(rbytes_n(rng, room))))
        if rng.random() < 0.5:
            d = c.op("unpad d %s ip @%d" % (P, e))
        else:
            d = c.op("unpad d %s b2b @%d %s" % (P, e, hx(rbytes_n(rng, room + rng.choice([0, 2])))))
        c.expect("decrypt_padded(encrypt_padded m) = m", lambda r, d=d, msg=msg: rbytes(r[d]) == msg)
        if pk:
            c.expect("padded length is the next multiple of the block size",
                     lambda r, e=e, L=L, bs=bs: len(rbytes(r[e])) == (L // bs + 1) * bs)
        cases.append(c)
    # --- one-shot and buffered CFB / CFB-8 ---
    for i in range(n):
        bs, w, dm = pick_cfg(rng, BLOCK_CFGS, i // 3)
        key, iv = rbytes_n(rng, 8), rbytes_n(rng, bs)
        L = rng.choice([0, 1, bs - 1, bs, bs + 1, 2 * bs + 1, w * bs, w * bs + bs - 1, rng.randint(0, 5 * bs)])
        msg = rbytes_n(rng, L)
        which = i % 3
        c = Case("c01_a%d" % i, "block", bs, w, dm, tags=dict(path=["oneshot-cfb", "oneshot-cfb8", "buffered"][which]))
        if which < 2:
            mode = ["cfb", "cfb8"][which]
            c.op("new e %s_enc new %s %s" % (mode, hx(key), hx(iv)))
            c.op("new d %s_dec new %s %s" % (mode, hx(key), hx(iv)))
            e = c.op("async e ip %s" % hx(msg)) if rng.random() < 0.5 else c.op("async e b2b %s %s" % (hx(msg), hx(rbytes_n(rng, L))))
            d = c.op("async d ip @%d" % e) if rng.random() < 0.5 else c.op("async d b2b @%d %s" % (e, hx(rbytes_n(rng, L))))
            c.expect("one-shot ciphertext length equals message length", lambda r, e=e, L=L: len(rbytes(r[e])) == L)
            c.expect("one-shot dec(enc m) = m", lambda r, d=d, msg=msg: rbytes(r[d]) == msg)
        else:
            c.op("new e buf_enc new %s %s" % (hx(key), hx(iv)))
            c.op("new d buf_dec new %s %s" % (hx(key), hx(iv)))
            eo = stream_feed(c, rng, "buf", "e", msg, byte_pieces(rng, L, bs), places=("ip",))
            ct = c.op("cat " + " ".join("@%d" % k for k in eo))
            do = stream_feed(c, rng, "buf", "d", ("ref", ct), byte_pieces(rng, L, bs), places=("ip",))
            c.expect("buffered CFB dec(enc m) = m under independent chunkings", lambda r, do=do, msg=msg: joined(r, do) == msg)
        cases.append(c)
    # --- keystream ciphers ---
    allk = stream_cfgs_for(lambda k: True)
    for i in range(n * 2):
        bs, w, dm, kind = pick_stream(rng, i)
        key = rbytes_n(rng, 8)
        iv = stream_iv(rng, bs, kind, key, dm)
        L = rng.choice([0, 1, bs - 1, bs, bs + 1, 2 * bs + 1, w * bs, (w + 1) * bs + 3, (2 * w + 1) * bs + 1, rng.randint(0, 6 * bs)])
        msg = rbytes_n(rng, L)
        c = Case("c01_s%d" % i, "stream", bs, w, dm, tags=dict(path="stream", mode=kind))
        c.op("new e %s new %s %s" % (kind, hx(key), hx(iv)))
        c.op("new d %s new %s %s" % (kind, hx(key), hx(iv)))
        eo = stream_feed(c, rng, "apply", "e", msg, byte_pieces(rng, L, bs))
        ct = c.op("cat " + " ".join("@%d" % k for k in eo))
        do = stream_feed(c, rng, "apply", "d", ("ref", ct), byte_pieces(rng, L, bs))
        c.expect("keystream ciphertext length equals message length", lambda r, ct=ct, L=L: len(rbytes(r[ct])) == L)
        c.expect("keystream dec(enc m) = m under independent chunkings", lambda r, do=do, msg=msg: joined(r, do) == msg)
        cases.append(c)
    # --- ciphertext stealing ---
    inv_cts = [c for c in CTS_CFGS if c[2] == "inv"]
    for i in range(n * 2):
        bs, w, dm = pick_cfg(rng, inv_cts, i // 6)
        kind = CTS_KINDS[i % 6]
        key = rbytes_n(rng, 8)
        iv = rbytes_n(rng, bs) if kind.startswith("cbc") else b""
        L = rng.choice([bs, bs + 1, 2 * bs - 1, 2 * bs, 2 * bs + 1, 3 * bs, w * bs, w * bs + 1, (w + 2) * bs - 1,
                        2 * w * bs, (2 * w + 1) * bs + 1, (3 * w + 1) * bs - 1, (3 * w + 2) * bs, rng.randint(bs, 6 * bs),
                        rng.randint(bs, (3 * w + 3) * bs)])
        msg = rbytes_n(rng, L)
        c = Case("c01_t%d" % i, "cts", bs, w, dm, tags=dict(path="cts", mode=kind))
        c.op("new o %s new %s %s" % (kind, hx(key), hx(iv)))
        e = c.op("cts_enc o ip %s" % hx(msg)) if rng.random() < 0.5 else c.op("cts_enc o b2b %s %s" % (hx(msg), hx(rbytes_n(rng, L))))
        d = c.op("cts_dec o ip @%d" % e) if rng.random() < 0.5 else c.op("cts_dec o b2b @%d %s" % (e, hx(rbytes_n(rng, L))))
        c.expect("cts ciphertext length equals message length", lambda r, e=e, L=L: len(rbytes(r[e])) == L)
        c.expect("cts dec(enc m) = m", lambda r, d=d, msg=msg: rbytes(r[d]) == msg)
        cases.append(c)
    return cases


def matcher(case, desc, known):
    return None
