"""C14: alternative front-ends to the same mode are interchangeable."""
import oracle
from vlib import Case, hx, rbytes
from gens import *

BINS = ["hb_block", "hb_stream", "hb_cts"]
RULE = ("cases = pairs of front-ends on the same key/IV/message: buffered vs block-level vs one-shot CFB; OFB as block encryptor, "
        "block decryptor (block family) and as keystream core, byte stream (keystream family; compared across cases); CtrCore "
        "block-wise vs byte-level wrapper (all flavours) and BelT core vs wrapper; CBC-CS1/2/3 on whole blocks vs the cbc crate "
        "(compared across cases; CS3 = last two blocks exchanged for n >= 2); ECB-CS1/2/3 vs raw block encryption by the harness's "
        "own cipher; new(key, iv) vs inner_iv_init(new(key), iv) vs new_from_slices; predicate on the implementation only; "
        "non-trivial = non-empty data")

CROSS = []      # (case a, op indices a, case b, op indices b, transform, description)


def generate(rng, tier):
    del CROSS[:]
    cases = []
    n = 60 if tier == "quick" else 1500
    # --- CFB: three front-ends ---
    for i in range(n):
        bs, w, dm = pick_cfg(rng, BLOCK_CFGS, i // 2)
        direction = ["enc", "dec"][i % 2]
        key, iv = rbytes_n(rng, 8), rbytes_n(rng, bs)
        nb = nblocks(rng, w, tier)
        msg = rbytes_n(rng, nb * bs)
        c = Case("c14_f%d" % i, "block", bs, w, dm, tags=dict(pair="cfb-frontends", dir=direction))
        c.op("new blk cfb_%s %s %s %s" % (direction, rng.choice(["new", "inner", "slices"]), hx(key), hx(iv)))
        c.op("new one cfb_%s %s %s %s" % (direction, rng.choice(["new", "inner", "slices"]), hx(key), hx(iv)))
        c.op("new buf buf_%s %s %s %s" % (direction, rng.choice(["new", "inner", "slices"]), hx(key), hx(iv)))
        o1 = feed(c, rng, "blk", msg, len(msg), bs, schedule(rng, nb, w))
        o2 = async_op(c, rng, "one", msg)
        o3 = stream_feed(c, rng, "buf", "buf", msg, byte_pieces(rng, len(msg), bs), places=("ip",))
        c.expect("block-level CFB = one-shot CFB", lambda r, o1=o1, o2=o2: joined(r, o1) == rbytes(r[o2]))
        c.expect("buffered CFB = one-shot CFB", lambda r, o3=o3, o2=o2: joined(r, o3) == rbytes(r[o2]))
        # and with a partial tail: buffered vs one-shot
        tail = rbytes_n(rng, rng.randint(1, bs - 1)) if bs > 1 else b""
        o4 = async_op(c, rng, "one", msg + tail)
        o5 = c.op("buf buf ip %s" % hx(tail))
        c.expect("buffered CFB continues like one-shot CFB on a partial tail",
                 lambda r, o3=o3, o5=o5, o4=o4: joined(r, o3) + rbytes(r[o5]) == rbytes(r[o4]))
        # a message shorter than one block, from fresh objects
        if bs > 1:
            short = rbytes_n(rng, rng.randint(1, bs - 1))
            c.op("new one2 cfb_%s new %s %s" % (direction, hx(key), hx(iv)))
            c.op("new buf2 buf_%s new %s %s" % (direction, hx(key), hx(iv)))
            o6 = async_op(c, rng, "one2", short)
            o7 = c.op("buf buf2 ip %s" % hx(short))
            c.expect("buffered CFB = one-shot CFB on a message shorter than a block",
                     lambda r, o6=o6, o7=o7: rbytes(r[o6]) == rbytes(r[o7]))
        cases.append(c)
    # --- OFB four ways (two families) ---
    common = [(bs, w, dm) for (bs, w, dm) in BLOCK_CFGS for (b2, w2, d2, ks) in STREAM_CFGS if (bs, w, dm) == (b2, w2, d2)]
    both = sorted(set((bs, dm) for bs, w, dm in BLOCK_CFGS) & set((bs, dm) for bs, w, dm, _ in STREAM_CFGS))
    for i in range(n):
        bs, dm = both[i % len(both)]
        wb = rng.choice([w for b, w, d in BLOCK_CFGS if (b, d) == (bs, dm)])
        ws = rng.choice([w for b, w, d, _ in STREAM_CFGS if (b, d) == (bs, dm)])
        key, iv = rbytes_n(rng, 8), rbytes_n(rng, bs)
        nb = rng.randint(0, 7)
        msg = rbytes_n(rng, nb * bs)
        cb = Case("c14_ob%d" % i, "block", bs, wb, dm, tags=dict(pair="ofb-frontends"))
        cb.op("new e ofb_enc new %s %s" % (hx(key), hx(iv)))
        cb.op("new d ofb_dec inner %s %s" % (hx(key), hx(iv)))
        oe = feed(cb, rng, "e", msg, len(msg), bs, schedule(rng, nb, wb))
        od = feed(cb, rng, "d", msg, len(msg), bs, schedule(rng, nb, wb))
        cb.expect("OFB block encryptor = OFB block decryptor", lambda r, oe=oe, od=od: joined(r, oe) == joined(r, od))
        cs = Case("c14_os%d" % i, "stream", bs, ws, dm, tags=dict(pair="ofb-frontends"))
        cs.op("new k ofb_core new %s %s" % (hx(key), hx(iv)))
        cs.op("new s ofb slices %s %s" % (hx(key), hx(iv)))
        ok = [cs.op("applyblks k ip %s" % hx(msg))]
        os_ = stream_feed(cs, rng, "apply", "s", msg, byte_pieces(rng, len(msg), bs))
        cs.expect("OFB keystream core = OFB byte stream", lambda r, ok=ok, os_=os_: joined(r, ok) == joined(r, os_))
        # the core writing raw keystream blocks (over a destination that is not zero, see hb_stream.rs) is the same function
        cs.op("new k3 ofb_core new %s %s" % (hx(key), hx(iv)))
        ks = cs.op("ksblocks k3 %d" % nb)
        cs.expect("OFB core write_keystream_blocks xor message = OFB byte stream",
                  lambda r, ks=ks, os_=os_, msg=msg: oracle.xor(msg, rbytes(r[ks])) == joined(r, os_))
        CROSS.append((cb.name, oe, cs.name, os_, None, "OFB block encryptor = OFB byte stream"))
        cases += [cb, cs]
    # --- CTR / BelT: core block-wise = wrapper byte-wise ---
    seek = stream_cfgs_for(lambda k: k != "ofb")
    for i in range(n):
        bs, w, dm, kind = pick_stream(rng, i, lambda k: k != "ofb")
        key = rbytes_n(rng, 8)
        iv = stream_iv(rng, bs, kind, key, dm)
        nb = max(0, rng.choice([1, w, w + 1, 2 * w + 1, rng.randint(0, 3 * w)]))
        msg = rbytes_n(rng, nb * bs)
        c = Case("c14_c%d" % i, "stream", bs, w, dm, tags=dict(pair="core-vs-wrapper", kind=kind))
        c.op("new k %s_core %s %s %s" % (kind, rng.choice(["new", "inner", "slices"]), hx(key), hx(iv)))
        c.op("new s %s %s %s %s" % (kind, rng.choice(["new", "inner", "slices"]), hx(key), hx(iv)))
        ok = []
        left, off = nb, 0
        while left > 0:
            k = rng.randint(1, left)
            ok.append(c.op("applyblks k ip %s" % hx(msg[off * bs:(off + k) * bs])))
            off += k
            left -= k
        os_ = stream_feed(c, rng, "apply", "s", msg, byte_pieces(rng, len(msg), bs))
        c.expect("%s core driven block-wise = byte-level cipher" % kind, lambda r, ok=ok, os_=os_: joined(r, ok) == joined(r, os_))
        c.op("wrap k wk")
        more = rbytes_n(rng, rng.randint(1, 2 * bs))
        m1, m2 = c.op("apply wk ip %s" % hx(more)), c.op("apply s ip %s" % hx(more))
        c.expect("from_core(core) continues like the byte-level cipher", lambda r, m1=m1, m2=m2: rbytes(r[m1]) == rbytes(r[m2]))
        if kind != "belt" and rng.random() < 0.6:
            # get_core() of a wrapper sitting on a block boundary: its keystream blocks are what the wrapper writes next
            c.op("new s2 %s new %s %s" % (kind, hx(key), hx(iv)))
            pre = rng.randint(0, 2 * w) * bs
            c.op("apply s2 ip %s" % hx(rbytes_n(rng, pre)))
            c.op("core s2 k2")
            k2 = rng.randint(1, w + 1)
            g1 = c.op("ksblocks k2 %d" % k2)
            g2 = c.op("apply s2 ip %s" % hx(bytes(k2 * bs)))
            c.expect("get_core() of the byte-level cipher at a block boundary continues the same keystream",
                     lambda r, g1=g1, g2=g2: rbytes(r[g1]) == rbytes(r[g2]))
        cases.append(c)
    # --- cts on whole blocks vs plain cbc / raw ecb ---
    for i in range(n * 2):
        bs, w, dm = pick_cfg(rng, CTS_CFGS, i // 6)
        kind = CTS_KINDS[i % 6]
        variant = int(kind[-1])
        key = rbytes_n(rng, 8)
        nb = rng.choice([1, 1, 2, 3, w, w + 1, 2 * w + 1])
        msg = rbytes_n(rng, nb * bs)
        tc = oracle.Toy(key, dm)

        def swap(b, bs=bs, nb=nb, variant=variant):
            if variant == 3 and nb >= 2:
                return b[:(nb - 2) * bs] + b[(nb - 1) * bs:] + b[(nb - 2) * bs:(nb - 1) * bs]
            return b
        ct = Case("c14_t%d" % i, "cts", bs, w, dm, tags=dict(pair=kind + "-vs-plain", nblocks=nb))
        if kind.startswith("cbc"):
            iv = rbytes_n(rng, bs)
            ct.op("new o %s %s %s %s" % (kind, rng.choice(["new", "inner", "slices"]), hx(key), hx(iv)))
            e = ct.op("cts_enc o ip %s" % hx(msg))
            cb = Case("c14_tb%d" % i, "block", bs, w, dm, tags=dict(pair=kind + "-vs-plain"))
            cb.op("new p cbc_enc new %s %s" % (hx(key), hx(iv)))
            pe = [cb.op("blks p ip %s" % hx(msg))]
            CROSS.append((ct.name, [e], cb.name, pe, swap, "%s on whole blocks = plain CBC%s" % (kind, " with the last two blocks exchanged" if variant == 3 else "")))
            if dm == "inv":
                # decrypt what plain CBC produced (reordered for CS3)
                exp_ct = swap(b"".join(oracle.cbc_enc(tc, iv, oracle.blocks(msg, bs))[0]))
                d = ct.op("cts_dec o ip %s" % hx(exp_ct))
                ct.expect("%s decrypts plain CBC ciphertext of whole blocks" % kind, lambda r, d=d, msg=msg: rbytes(r[d]) == msg)
            cases.append(cb)
        else:
            ct.op("new o %s %s %s =-" % (kind, rng.choice(["new", "inner", "slices"]), hx(key)))
            e = ct.op("cts_enc o ip %s" % hx(msg))
            raw = swap(b"".join(tc.E(b) for b in oracle.blocks(msg, bs)))
            ct.expect("%s on whole blocks = raw block encryption%s" % (kind, " (last two exchanged)" if variant == 3 else ""),
                      lambda r, e=e, raw=raw: rbytes(r[e]) == raw)
            d = ct.op("cts_dec o ip %s" % hx(swap(msg)))
            rawd = b"".join(tc.D(b) for b in oracle.blocks(msg, bs))
            ct.expect("%s decryption on whole blocks = raw block decryption" % kind, lambda r, d=d, rawd=rawd: rbytes(r[d]) == rawd)
        cases.append(ct)
    # --- construction routes ---
    kinds_b = ["cbc_enc", "cbc_dec", "pcbc_enc", "pcbc_dec", "ige_enc", "ige_dec", "cfb_enc", "cfb_dec", "cfb8_enc", "cfb8_dec", "ofb_enc"]
    for i in range(n):
        kind = kinds_b[i % len(kinds_b)]
        bs, w, dm = pick_cfg(rng, BLOCK_CFGS, i // len(kinds_b))
        mbs = 1 if kind.startswith("cfb8") else bs
        key, iv = rbytes_n(rng, 8), rbytes_n(rng, bs * (2 if kind.startswith("ige") else 1))
        msg = rbytes_n(rng, rng.randint(1, 5) * mbs)
        c = Case("c14_n%d" % i, "block", bs, w, dm, tags=dict(pair="construction", kind=kind))
        outs = []
        for how in ("new", "inner", "slices", "inner_slice"):
            c.op("new o_%s %s %s %s %s" % (how, kind, how, hx(key), hx(iv)))
            outs.append(c.op("blks o_%s ip %s" % (how, hx(msg))))
        c.expect("key-bytes construction = keyed-cipher construction = slice construction",
                 lambda r, outs=outs: len(set(rbytes(r[o]) for o in outs)) == 1 and r[outs[0]][0] == "bytes")
        cases.append(c)
    return cases


def post(v, cases, impl, model, bins, rng, tier):
    for na, ia, nb, ib, tr, desc in CROSS:
        a = b"".join(rbytes(impl[na][i]) for i in ia)
        b = b"".join(rbytes(impl[nb][i]) for i in ib)
        if tr:
            b = tr(b)
        if a != b:
            ca = [c for c in cases if c.name == na][0]
            v.pred_fail.append((ca, desc + " (compared with case %s)" % nb, impl[na], impl[nb]))


def matcher(case, desc, known):
    return None
