#!/bin/bash
# usage: gen/seedtest2.sh <patch.diff> <property ids...>
# applies the patch to /repo, runs each check twice (differential search only = VERIF_NO_TIE=1, then with the
# translation tie), prints the first lines, reverts.
set -u
patch=$1; shift
git -C /repo apply "$patch" || { echo "patch does not apply"; exit 2; }
for p in "$@"; do
  a=$(VERIF_NO_TIE=1 VERIF_EVIDENCE_DIR=/verif/.work/seed_evidence timeout 1500 ./check $p 2>/dev/null | grep -c "^VIOLATION" )
  ai=$(VERIF_NO_TIE=1 VERIF_EVIDENCE_DIR=/verif/.work/seed_evidence timeout 1500 ./check $p 2>/dev/null | grep "^VIOLATION" | grep -vc "no-failing-input-found")
  b=$(VERIF_EVIDENCE_DIR=/verif/.work/seed_evidence timeout 1500 ./check $p 2>/dev/null | grep "^VIOLATION" | head -1 | cut -c1-120)
  echo "== $p: search-only: $a VIOLATION lines ($ai with a failing input) | with tie: $b"
done
git -C /repo checkout -- .
git -C /repo status --short | head -3
