"""Common machinery of the checks: builds (Coq project, extracted model driver, Rust harness),
running case files through the implementation and the model, proof-obligation audit, verdicts,
evidence.  Python 3 stdlib only."""
import fcntl, hashlib, json, os, random, re, shutil, subprocess, sys, time

VERIF = os.path.dirname(os.path.dirname(os.path.abspath(__file__)))
REPO = os.environ.get("VERIF_REPO", "/repo")
WORK = os.path.join(VERIF, ".work")
COQ = os.path.join(VERIF, "coq")
HARNESS = os.path.join(VERIF, "harness")
EVID = os.environ.get("VERIF_EVIDENCE_DIR", os.path.join(VERIF, "evidence"))
REPLAYS = os.path.join(EVID, "replays")
TARGET = os.path.join(WORK, "target")
MODEL_DIR = os.path.join(WORK, "model")
MODEL_BIN = os.path.join(MODEL_DIR, "model_driver")

ENV = dict(os.environ, CARGO_NET_OFFLINE="true", CARGO_TERM_COLOR="never")

FORBIDDEN = re.compile(r"\b(Admitted|admit|Axiom|Axioms|Parameter|Parameters|Conjecture|Hypothesis|Hypotheses"
                       r"|Unset\s+Guard|bypass_check|type-in-type|impredicative-set|Admit\s+Obligations)\b")


def log(*a):
    print(*a, file=sys.stderr, flush=True)


class Lock:
    def __init__(self, name):
        os.makedirs(WORK, exist_ok=True)
        self.path = os.path.join(WORK, name + ".lock")

    def __enter__(self):
        self.f = open(self.path, "w")
        fcntl.flock(self.f, fcntl.LOCK_EX)
        return self

    def __exit__(self, *a):
        fcntl.flock(self.f, fcntl.LOCK_UN)
        self.f.close()


def run(cmd, cwd=None, timeout=3600, env=None, check=True):
    p = subprocess.run(cmd, cwd=cwd, env=env or ENV, stdout=subprocess.PIPE, stderr=subprocess.STDOUT,
                       text=True, timeout=timeout)
    if check and p.returncode != 0:
        raise BuildError("command failed: %s\n%s" % (" ".join(cmd), p.stdout[-4000:]))
    return p


class BuildError(Exception):
    pass


# ------------------------------------------------------------------------------------------------
# Coq side
# ------------------------------------------------------------------------------------------------

def coq_sources():
    out = []
    for root, _, files in os.walk(COQ):
        for f in files:
            if f.endswith(".v"):
                out.append(os.path.join(root, f))
    return sorted(out)


def build_coq():
    """Full .vo build through coq_makefile (never -vos); rebuilds only what is stale."""
    with Lock("coq"):
        mk, prj = os.path.join(COQ, "Makefile"), os.path.join(COQ, "_CoqProject")
        if not os.path.exists(mk) or os.path.getmtime(mk) < os.path.getmtime(prj):
            run(["coq_makefile", "-f", "_CoqProject", "-o", "Makefile"], cwd=COQ)
        run(["timeout", "1800", "make", "-j16"], cwd=COQ, timeout=2000)
        # extracted model -> native driver
        os.makedirs(MODEL_DIR, exist_ok=True)
        srcs = [os.path.join(COQ, "driver", f) for f in ("model.mli", "model.ml", "driver.ml")]
        h = hashlib.sha256()
        for s in srcs:
            h.update(open(s, "rb").read())
        stamp = os.path.join(MODEL_DIR, "stamp")
        if not (os.path.exists(MODEL_BIN) and os.path.exists(stamp) and open(stamp).read() == h.hexdigest()):
            for s in srcs:
                shutil.copy(s, MODEL_DIR)
            run(["ocamlfind", "ocamlopt", "-O2", "-w", "-a", "model.mli", "model.ml", "driver.ml", "-o", "model_driver"],
                cwd=MODEL_DIR)
            open(stamp, "w").write(h.hexdigest())


def audit_sources():
    """No Admitted / Axiom / Parameter / ... anywhere in the development (comments stripped)."""
    bad = []
    for p in coq_sources():
        txt = open(p).read()
        txt = strip_comments(txt)
        for i, line in enumerate(txt.split("\n"), 1):
            m = FORBIDDEN.search(line)
            if m:
                # `Hypothesis` / `Variable` are fine inside a Section; we only allow them there
                if m.group(1) in ("Hypothesis", "Hypotheses") and in_section(txt, i):
                    continue
                bad.append("%s:%d: %s" % (os.path.relpath(p, VERIF), i, line.strip()))
    return bad


def strip_comments(txt):
    out, depth, i = [], 0, 0
    while i < len(txt):
        if txt.startswith("(*", i):
            depth += 1
            i += 2
        elif txt.startswith("*)", i) and depth > 0:
            depth -= 1
            i += 2
        else:
            if depth == 0 or txt[i] == "\n":
                out.append(txt[i])
            i += 1
    return "".join(out)


def in_section(txt, lineno):
    depth = 0
    for i, line in enumerate(txt.split("\n"), 1):
        if i >= lineno:
            break
        if re.match(r"\s*Section\s+\w+", line):
            depth += 1
        elif re.match(r"\s*End\s+\w+", line) and depth > 0:
            depth -= 1
    return depth > 0


def check_obligations(pid):
    """Re-compile Props/<pid>.v; every theorem in it must be followed by a Print Assumptions that
    reports `Closed under the global context`.  Returns dict(obligations, discharged, theorems, problems)."""
    src = os.path.join(COQ, "Props", pid + ".v")
    res = dict(obligations=0, discharged=0, theorems=[], problems=[], axioms=[])
    if not os.path.exists(src):
        res["problems"].append("Props/%s.v missing" % pid)
        return res
    txt = strip_comments(open(src).read())
    thms = re.findall(r"^\s*(?:Theorem|Lemma|Corollary|Example)\s+(\w+)", txt, re.M)
    prints = re.findall(r"^\s*Print Assumptions\s+(\w+)\s*\.", txt, re.M)
    res["theorems"] = thms
    res["obligations"] = len(thms)
    if not thms:
        res["problems"].append("Props/%s.v states no theorem" % pid)
    for t in thms:
        if t not in prints:
            res["problems"].append("theorem %s has no Print Assumptions" % t)
    with Lock("coq"):
        p = run(["timeout", "600", "coqc", "-Q", ".", "BM", os.path.join("Props", pid + ".v")], cwd=COQ, check=False)
    if p.returncode != 0:
        res["problems"].append("coqc Props/%s.v failed: %s" % (pid, p.stdout[-1500:]))
        return res
    closed = p.stdout.count("Closed under the global context")
    ax = re.findall(r"^Axioms:\s*\n((?:.+\n)+)", p.stdout, re.M)
    if ax:
        res["axioms"] = [a.strip() for a in ax]
        res["problems"].append("axioms reported: %s" % ax)
    res["discharged"] = min(closed, len(thms))
    if closed < len(prints):
        res["problems"].append("only %d of %d Print Assumptions are closed" % (closed, len(prints)))
    # pinned statements
    pins = os.path.join(COQ, "Pins.v")
    if os.path.exists(pins):
        if not os.path.exists(os.path.join(COQ, "Pins.vo")):
            res["problems"].append("Pins.vo missing")
    bad = audit_sources()
    if bad:
        res["problems"].append("forbidden declarations: %s" % bad[:5])
    return res


# ------------------------------------------------------------------------------------------------
# Translation tie: /repo sources -> Gallina syntax trees (translator/rs2v) -> tie theorems and pins
# ------------------------------------------------------------------------------------------------
GEN = os.path.join(WORK, "gen")
TIEOUT = os.path.join(WORK, "tie")
TRANSLATOR = os.path.join(VERIF, "translator")
CRATES = ["cbc", "pcbc", "ige", "cfb_mode", "cfb8", "ofb", "ctr", "belt_ctr", "cts"]


def sha(*parts):
    h = hashlib.sha256()
    for p in parts:
        h.update(p if isinstance(p, bytes) else p.encode())
    return h.hexdigest()


def translate():
    """Build rs2v (cached by cargo) and translate /repo's current working tree into WORK/gen/Src_<crate>.v."""
    with Lock("cargo"):
        env = dict(ENV, CARGO_TARGET_DIR=os.path.join(WORK, "target_tr"))
        p = run(["cargo", "build", "--offline", "--quiet"], cwd=TRANSLATOR, timeout=1200, env=env, check=False)
        if p.returncode != 0:
            raise BuildError("translator build failed:\n" + p.stdout[-3000:])
    exe = os.path.join(WORK, "target_tr", "debug", "rs2v")
    with Lock("gen"):
        tmp = GEN + ".new"
        shutil.rmtree(tmp, ignore_errors=True)
        p = run([exe, REPO, tmp], check=False, timeout=300)
        if p.returncode != 0:
            raise BuildError("rs2v failed on %s:\n%s" % (REPO, p.stdout[-3000:]))
        os.makedirs(GEN, exist_ok=True)
        for f in os.listdir(tmp):
            a, b = os.path.join(tmp, f), os.path.join(GEN, f)
            if not (os.path.exists(b) and open(a, "rb").read() == open(b, "rb").read()):
                shutil.copy(a, b)           # keep mtimes (and compiled .vo) of unchanged files
        shutil.rmtree(tmp, ignore_errors=True)
    return GEN


def tie_units(crates, kind):
    """unit = (crate, file stem under coq/Tie)"""
    out = []
    for c in crates:
        if kind == "core":
            for f in sorted(os.listdir(os.path.join(COQ, "Tie"))):
                if re.fullmatch(r"Tie_%s(_\w+)?\.v" % c, f):
                    out.append((c, f[:-2]))
            out.append((c, "Pins_%s_core" % c))
        else:
            if os.path.exists(os.path.join(COQ, "Tie", "TieAux_%s.v" % c)):
                out.append((c, "TieAux_%s" % c))
            out.append((c, "Pins_%s_aux" % c))
    return out


def _coq_dep_stamp():
    """hash of every compiled file of the main development (the tie files may depend on any of them)"""
    h = hashlib.sha256()
    for d in (COQ, os.path.join(COQ, "Tie")):
        for f in sorted(os.listdir(d)):
            if f.endswith(".vo") and not f.startswith(("Tie_", "TieAux_", "Pins_")):
                h.update(f.encode())
                h.update(open(os.path.join(d, f), "rb").read())
    return h.hexdigest()


def changed_functions(crate):
    """names of the functions of a crate whose source text differs from the golden translation"""
    try:
        old = json.load(open(os.path.join(COQ, "Tie", "golden", "manifest.json")))
        new = json.load(open(os.path.join(GEN, "manifest.json")))
    except Exception:
        return []
    pre = crate + "__"
    names = sorted(k for k in set(old) | set(new) if k.startswith(pre) and old.get(k) != new.get(k))
    return names


def translation_diff(crate, names, limit=6000):
    """unified diff (golden translation vs translation of /repo now) of the named functions' syntax trees,
    for the replay file of a broken tie"""
    import difflib
    def defs(path):
        try:
            txt = open(path).read()
        except Exception:
            return {}
        return {m.group(1): m.group(0) for m in
                re.finditer(r"^Definition (\w+) : [^\n]*? := .*?(?=^Definition |\Z)", txt, re.S | re.M)}
    old = defs(os.path.join(COQ, "Tie", "golden", "Src_%s.v" % crate))
    new = defs(os.path.join(GEN, "Src_%s.v" % crate))
    keys = list(names) + [k for k in sorted(set(old) | set(new))
                          if k.startswith(("impls_", "structs_", "items_", "all_fns_")) and old.get(k) != new.get(k)]
    out = []
    for k in keys:
        a, b = old.get(k, "").splitlines(), new.get(k, "").splitlines()
        out += list(difflib.unified_diff(a, b, "golden/" + k, "now/" + k, lineterm="", n=1))
    txt = "\n".join(out)
    return txt[:limit] + ("\n... (truncated)" if len(txt) > limit else "")


def check_ties(units):
    """Compile the generated Src_<crate>.v and the tie / pin files against it.  Results are cached on the
    content of everything they depend on.  Returns dict(units=[...], lemmas=int, problems=[...])."""
    res = dict(units=[], lemmas=0, problems=[], changed={}, diffs={})
    if not units:
        return res
    translate()
    os.makedirs(TIEOUT, exist_ok=True)
    stamp = _coq_dep_stamp()
    import concurrent.futures

    def one(unit):
        crate, stem = unit
        src = os.path.join(GEN, "Src_%s.v" % crate)
        tie = os.path.join(COQ, "Tie", stem + ".v")
        if not os.path.exists(tie):
            return unit, False, "%s.v missing" % stem, 0
        key = sha(open(src, "rb").read(), open(tie, "rb").read(), stamp)
        cache = os.path.join(TIEOUT, "%s.%s" % (stem, key[:24]))
        nlem = len(re.findall(r"^\s*(?:Lemma|Theorem|Example)\s+\w+", strip_comments(open(tie).read()), re.M))
        if os.path.exists(cache):
            txt = open(cache).read()
            return unit, txt.startswith("ok"), txt[3:], nlem
        with Lock("tie_" + crate):
            vo = src[:-2] + ".vo"
            if not (os.path.exists(vo) and os.path.getmtime(vo) >= os.path.getmtime(src)):
                p = run(["timeout", "300", "coqc", "-Q", COQ, "BM", "-Q", GEN, "BMGen", src], check=False)
                if p.returncode != 0:
                    return unit, False, "generated %s does not compile: %s" % (os.path.basename(src), p.stdout[-800:]), nlem
        # compile a copy with `Print Assumptions` appended for every statement: the tie theorems must be axiom-free too
        srcdir = os.path.join(TIEOUT, "src")
        os.makedirs(srcdir, exist_ok=True)
        txt = open(tie).read()
        names = re.findall(r"^\s*(?:Lemma|Theorem|Example)\s+(\w+)", strip_comments(txt), re.M)
        secs = set(re.findall(r"^\s*Section\s+(\w+)", txt, re.M))
        copy = os.path.join(srcdir, stem + ".v")
        open(copy, "w").write(txt + "\n" + "".join("Print Assumptions %s.\n" % n for n in names))
        # the largest tie files (cts decryptor closures) take 5-7 min on an idle core; leave room for a loaded machine
        p = run(["timeout", "2400", "coqc", "-Q", COQ, "BM", "-Q", GEN, "BMGen", "-Q", srcdir, "BMTieCheck", copy],
                check=False, timeout=2500)
        ok = p.returncode == 0
        msg = "" if ok else p.stdout[-1200:].replace(srcdir, os.path.join(COQ, "Tie"))
        if ok:
            closed = p.stdout.count("Closed under the global context")
            if closed != len(names) or re.search(r"^Axioms:", p.stdout, re.M):
                ok = False
                msg = "axioms reported for statements of %s: %s" % (stem, " ".join(p.stdout.split())[-600:])
        open(cache, "w").write(("ok " if ok else "no ") + msg)
        return unit, ok, msg, nlem

    with Lock("ties"):
        with concurrent.futures.ThreadPoolExecutor(max_workers=12) as ex:
            results = list(ex.map(one, units))
    for (crate, stem), ok, msg, nlem in results:
        res["units"].append(dict(unit=stem, crate=crate, ok=ok, lemmas=nlem))
        if ok:
            res["lemmas"] += nlem
        else:
            ch = changed_functions(crate)
            res["changed"][crate] = ch
            res.setdefault("diffs", {})[crate] = translation_diff(crate, ch)
            m = re.search(r'File "[^"]*", line (\d+)', msg)
            where = ""
            if m:
                lines = open(os.path.join(COQ, "Tie", stem + ".v")).read().split("\n")
                ln = int(m.group(1))
                for k in range(min(ln, len(lines)) - 1, -1, -1):
                    mm = re.match(r"\s*(?:Lemma|Theorem|Example)\s+(\w+)", lines[k])
                    if mm:
                        where = mm.group(1)
                        break
            res["problems"].append("tie %s (coq/Tie/%s.v%s) no longer checks against the translation of /repo; "
                                   "functions whose source changed since the model was validated: %s; coqc: %s"
                                   % (stem, stem, (", first failing statement `%s`" % where) if where else "",
                                      ", ".join(ch) or "none (structure tables only)", " ".join(msg.split())[:400]))
    return res


def coqchk_ties(units, limit=6):
    """Thorough tier: independent re-check (coqchk) of the compiled tie files of a property (the `limit` largest ones,
    in parallel); they were compiled by check_ties into WORK/tie/src with logical prefix BMTieCheck."""
    import concurrent.futures
    srcdir = os.path.join(TIEOUT, "src")
    stems = [st for _, st in units if st.startswith("Tie") and os.path.exists(os.path.join(srcdir, st + ".vo"))]
    stems = sorted(stems, key=lambda st: -os.path.getsize(os.path.join(srcdir, st + ".vo")))[:limit]
    t0 = time.time()

    def one(st):
        def chk():
            return subprocess.run(["timeout", "3000", "coqchk", "-o", "-silent", "-Q", COQ, "BM", "-Q", GEN, "BMGen",
                                   "-Q", srcdir, "BMTieCheck", "BMTieCheck." + st],
                                  stdout=subprocess.PIPE, stderr=subprocess.STDOUT, text=True, cwd=COQ)
        r = chk()
        if r.returncode != 0 and "nconsistent assumptions" in r.stdout:
            # the compiled copy is from an earlier compilation of the same text against another build of Src_<crate>.vo
            # (check_ties found its verdict in the cache and did not recompile): recompile the copy, then re-check
            subprocess.run(["timeout", "2400", "coqc", "-Q", COQ, "BM", "-Q", GEN, "BMGen", "-Q", srcdir, "BMTieCheck",
                            os.path.join(srcdir, st + ".v")], stdout=subprocess.PIPE, stderr=subprocess.STDOUT, text=True)
            r = chk()
        ax = re.search(r"\* Axioms:\s*(.*)", r.stdout)
        return st, r.returncode, (ax.group(1).strip() if ax else "?"), r.stdout[-600:]

    with concurrent.futures.ThreadPoolExecutor(max_workers=6) as ex:
        res = list(ex.map(one, stems))
    for st, rc, ax, out in res:
        if rc != 0 or ax != "<none>":
            raise BuildError("coqchk on tie file %s: rc=%d axioms=%s %s" % (st, rc, ax, out))
    return dict(cmd="coqchk -o -silent -Q coq BM -Q .work/gen BMGen -Q .work/tie/src BMTieCheck BMTieCheck.<tie file>",
                files=[st for st, _, _, _ in res], axioms=["<none>"], wall_s=round(time.time() - t0, 1))


# ------------------------------------------------------------------------------------------------
# Rust side
# ------------------------------------------------------------------------------------------------

def build_harness(bins, release=False):
    """cargo build of the named harness binaries against /repo's current working tree."""
    with Lock("cargo"):
        lock = os.path.join(HARNESS, "Cargo.lock")
        if not os.path.exists(lock):
            shutil.copy(os.path.join(REPO, "Cargo.lock"), lock)
        cmd = ["cargo", "build", "--offline", "--quiet"]
        if release:
            cmd.append("--release")
        for b in bins:
            cmd += ["--bin", b]
        env = dict(ENV, CARGO_TARGET_DIR=TARGET)
        p = run(cmd, cwd=HARNESS, timeout=3000, env=env, check=False)
        if p.returncode != 0:
            raise BuildError("cargo build failed:\n" + p.stdout[-6000:])
    d = os.path.join(TARGET, "release" if release else "debug")
    return {b: os.path.join(d, b) for b in bins}


# ------------------------------------------------------------------------------------------------
# Cases
# ------------------------------------------------------------------------------------------------

def hx(b):
    return "=" + (bytes(b).hex() if len(b) else "-")


class Case:
    """One correspondence case: a header and a list of op lines; `checks` are predicates over the
    implementation's results (list of parsed results, index = op number)."""

    def __init__(self, name, family, bs, w, dm="inv", tags=None):
        self.name, self.family, self.bs, self.w, self.dm = name, family, bs, w, dm
        self.ops = []
        self.checks = []      # (description, fn(results)->bool)
        self.nocompare = set()
        self.tags = tags or {}

    def op(self, line, compare=True):
        self.ops.append(line)
        if not compare:
            self.nocompare.add(len(self.ops) - 1)
        return len(self.ops) - 1

    def expect(self, desc, fn):
        self.checks.append((desc, fn))

    def text(self):
        return "case %s %d %d %s\n%s\nend\n" % (self.name, self.bs, self.w, self.dm, "\n".join(self.ops))

    def to_json(self):
        return dict(name=self.name, family=self.family, bs=self.bs, w=self.w, dm=self.dm, ops=self.ops,
                    checks=[d for d, _ in self.checks], tags=self.tags, nocompare=sorted(self.nocompare))


CORPUS = os.path.join(VERIF, "corpus")


def load_corpus(pid):
    """Regression cases kept from earlier failures (seeded changes, findings): run first, compared
    model <-> implementation op by op (they carry no property-specific predicate)."""
    d = os.path.join(CORPUS, pid)
    out = []
    if os.path.isdir(d):
        for f in sorted(os.listdir(d)):
            if f.endswith(".json"):
                doc = json.load(open(os.path.join(d, f)))
                c = Case("corpus_" + f[:-5].replace("-", "_"), doc["family"], doc["bs"], doc["w"], doc["dm"],
                         tags=dict(doc.get("tags", {}), corpus=f[:-5]))
                c.ops = list(doc["ops"])
                c.nocompare = set(doc.get("nocompare", []))
                out.append(c)
    return out


def corpus_add(replay_path, origin):
    """Add the case of a replay file to the corpus of its property (deduplicated by content)."""
    doc = json.load(open(replay_path))
    cj = doc.get("case")
    if not cj:
        return None
    pid = doc["property"]
    body = dict(family=cj["family"], bs=cj["bs"], w=cj["w"], dm=cj["dm"], ops=cj["ops"],
                tags={k: v for k, v in cj.get("tags", {}).items() if k != "corpus"}, nocompare=cj.get("nocompare", []),
                origin=origin, kind=doc.get("kind"), detail=(doc.get("detail") or "")[:300])
    h = hashlib.sha256(json.dumps([body["family"], body["bs"], body["w"], body["dm"], body["ops"]]).encode()).hexdigest()[:12]
    d = os.path.join(CORPUS, pid)
    os.makedirs(d, exist_ok=True)
    path = os.path.join(d, "%s-%s.json" % (origin, h))
    json.dump(body, open(path, "w"), indent=1)
    return path


def parse_results(text):
    """-> {case name: {op index: result tuple}}"""
    out = {}
    for line in text.split("\n"):
        t = line.split()
        if len(t) < 3:
            continue
        name, idx = t[0], t[1]
        if idx == "-":
            out.setdefault(name, {})["nocfg"] = True
            continue
        out.setdefault(name, {})[int(idx)] = tuple(t[2:])
    return out


def rbytes(r):
    """bytes of a result tuple, or None"""
    if r is None:
        return None
    if r[0] == "bytes":
        return b"" if r[1] == "-" else bytes.fromhex(r[1])
    if r[0] == "state":
        return b"" if r[1] == "-" else bytes.fromhex(r[1])
    return None


FAMILY_BIN = {"block": "hb_block", "stream": "hb_stream", "cts": "hb_cts", "c17": "hb_c17"}


def run_cases(cases, bins, workdir, tag, want_model=True):
    """Run all cases through the implementation (per family binary) and through the model."""
    os.makedirs(workdir, exist_ok=True)
    impl, model = {}, {}
    byfam = {}
    for c in cases:
        byfam.setdefault(c.family, []).append(c)
    for fam, cs in byfam.items():
        # shard for parallelism
        nshard = min(16, max(1, len(cs) // 50))
        shards = [cs[i::nshard] for i in range(nshard)]
        procs = []
        for i, sh in enumerate(shards):
            path = os.path.join(workdir, "%s_%s_%d.cases" % (tag, fam, i))
            with open(path, "w") as f:
                for c in sh:
                    f.write(c.text())
            pi = subprocess.Popen([bins[FAMILY_BIN[fam]], path], stdout=subprocess.PIPE, stderr=subprocess.PIPE, text=True)
            pm = subprocess.Popen([MODEL_BIN, path], stdout=subprocess.PIPE, stderr=subprocess.PIPE, text=True) if want_model else None
            procs.append((pi, pm, path))
        for pi, pm, path in procs:
            o, e = pi.communicate(timeout=3000)
            if pi.returncode != 0:
                raise BuildError("harness run failed on %s: rc=%s %s" % (path, pi.returncode, e[-2000:]))
            impl.update(parse_results(o))
            if pm is not None:
                o, e = pm.communicate(timeout=3000)
                if pm.returncode != 0:
                    raise BuildError("model run failed on %s: rc=%s %s" % (path, pm.returncode, e[-2000:]))
                model.update(parse_results(o))
    return impl, model


def selfcheck(cases, workdir, n):
    """Extraction self-check: the extracted driver prints n of the cases together with the results it
    computed as Gallina terms; coqc re-evaluates Interp.run_case on them with vm_compute and must agree."""
    if not cases or n <= 0:
        return dict(cases=0)
    t0 = time.time()
    step = max(1, len(cases) // n)
    sample = cases[::step][:n]
    d = os.path.join(workdir, "selfcheck")
    shutil.rmtree(d, ignore_errors=True)
    os.makedirs(d)
    cf = os.path.join(d, "sample.cases")
    with open(cf, "w") as f:
        for c in sample:
            f.write(c.text())
    vf = os.path.join(d, "SelfCheck.v")
    r = subprocess.run([MODEL_BIN, "--selfcheck", vf, str(len(sample)), cf], stdout=subprocess.PIPE, stderr=subprocess.PIPE, text=True)
    if r.returncode != 0:
        raise BuildError("extraction self-check: driver failed: " + r.stderr[-1000:])
    r = subprocess.run(["timeout", "900", "coqc", "-noglob", "-Q", COQ, "BM", vf], stdout=subprocess.PIPE, stderr=subprocess.PIPE, text=True, cwd=d)
    if r.returncode != 0:
        raise BuildError("extraction self-check: Coq (vm_compute of Interp.run_case) and the extracted OCaml program "
                         "disagree, or the generated file does not check: " + (r.stdout + r.stderr)[-1500:])
    return dict(cases=len(sample), wall_s=round(time.time() - t0, 1),
                how="driver --selfcheck prints ops and its own results as Gallina; `Goal run_case .. = ..; vm_compute; reflexivity` per case")


COQCHK_ALLOWED = set()


def coqchk(pid):
    """Independent re-check of the compiled property file and everything it depends on; axioms listed."""
    t0 = time.time()
    r = subprocess.run(["timeout", "1500", "coqchk", "-o", "-silent", "-Q", COQ, "BM", "BM.Props." + pid],
                       stdout=subprocess.PIPE, stderr=subprocess.STDOUT, text=True, cwd=COQ)
    out = r.stdout
    if r.returncode != 0:
        raise BuildError("coqchk failed on BM.Props.%s: %s" % (pid, out[-1500:]))
    axioms = []
    grab = False
    for line in out.splitlines():
        if line.strip().startswith("* Axioms:"):
            grab = True
            rest = line.split("Axioms:", 1)[1].strip()
            if rest and rest != "<none>":
                axioms.append(rest)
            continue
        if grab:
            if line.strip().startswith("*"):
                grab = False
            elif line.strip():
                axioms.append(line.strip())
    bad = [a for a in axioms if a not in COQCHK_ALLOWED]
    if bad:
        raise BuildError("coqchk reports axioms under BM.Props.%s: %s" % (pid, bad))
    return dict(cmd="coqchk -o -silent -Q coq BM BM.Props." + pid, axioms=axioms or ["<none>"], wall_s=round(time.time() - t0, 1))


# ------------------------------------------------------------------------------------------------
# Verdicts
# ------------------------------------------------------------------------------------------------

def load_known():
    p = os.path.join(VERIF, "known_findings.json")
    if os.path.exists(p):
        return json.load(open(p))
    return {"findings": [], "fixed": []}


class Verdict:
    def __init__(self, pid, tier, seed):
        self.pid, self.tier, self.seed = pid, tier, seed
        self.t0 = time.time()
        self.pred_fail = []      # (case, desc, impl results, model results)
        self.corr_fail = []      # (case, op index, impl, model)
        self.evaluations = 0
        self.nontrivial = set()
        self.samples = []
        self.dist = {}
        self.known_hits = {}
        self.traces = 0
        self.selfcheck = None
        self.coqchk = None

    def count(self, key, n=1):
        self.dist[key] = self.dist.get(key, 0) + n


def evaluate(cases, impl, model, v, compare_model=True):
    for c in cases:
        ri = impl.get(c.name, {})
        rm = model.get(c.name, {})
        if ri.get("nocfg"):
            raise BuildError("harness has no configuration for case %s (%d,%d,%s)" % (c.name, c.bs, c.w, c.dm))
        v.evaluations += 1
        results = [ri.get(i) for i in range(len(c.ops))]
        if any(r is None for r in results):
            v.pred_fail.append((c, "harness produced no result for some op", ri, rm))
            continue
        sig = hashlib.sha256(("\n".join(c.ops) + "|%d|%d|%s" % (c.bs, c.w, c.dm)).encode()).hexdigest()
        if any(r[0] == "bytes" and r[1] != "-" for r in results):
            v.nontrivial.add(sig)
        for desc, fn in c.checks:
            try:
                ok = fn(results)
            except Exception as e:      # a predicate that cannot be evaluated is a failure of the check
                ok = False
                desc = desc + " (predicate raised %r)" % (e,)
            if not ok:
                v.pred_fail.append((c, desc, ri, rm))
                break
        if compare_model:
            v.traces += 1
            for i in range(len(c.ops)):
                if i in c.nocompare:
                    continue
                m = rm.get(i)
                if m is None or m[0] == "unsupported":
                    continue
                if results[i] != m:
                    v.corr_fail.append((c, i, results[i], m))
                    break
        v.count("bs=%d" % c.bs)
        v.count("w=%d" % c.w)
        v.count("dm=%s" % c.dm)
        for k, val in c.tags.items():
            v.count("%s=%s" % (k, val))
        for r in results:
            v.count("res:" + r[0])
        for o in c.ops:
            v.count("op:" + o.split(" ", 1)[0])


SHRINK_BINS = {}      # set by ./check once the harness is built: family binary paths


def _first_diff(case, ops, workdir):
    """Run ops as one case through implementation and model; index of the first compared op whose results
    differ (None if they agree everywhere)."""
    c = Case("shrink", case.family, case.bs, case.w, case.dm)
    c.ops = ops
    os.makedirs(workdir, exist_ok=True)
    path = os.path.join(workdir, "shrink.cases")
    open(path, "w").write(c.text())
    try:
        ri = subprocess.run([SHRINK_BINS[FAMILY_BIN[case.family]], path], stdout=subprocess.PIPE, stderr=subprocess.PIPE, text=True, timeout=60)
        rm = subprocess.run([MODEL_BIN, path], stdout=subprocess.PIPE, stderr=subprocess.PIPE, text=True, timeout=60)
    except Exception:
        return None, None, None
    if ri.returncode != 0 or rm.returncode != 0:
        return None, None, None
    a, b = parse_results(ri.stdout).get("shrink", {}), parse_results(rm.stdout).get("shrink", {})
    for i in range(len(ops)):
        if ops[i].startswith("getstate"):
            continue
        x, y = a.get(i), b.get(i)
        if x is None or y is None or y[0] == "unsupported":
            continue
        if x != y:
            return i, x, y
    return None, None, None


def _drop_op(ops, j):
    """ops without op j, references @k renumbered; None if a later op refers to @j"""
    out = []
    for i, o in enumerate(ops):
        if i == j:
            continue
        toks = []
        for t in o.split(" "):
            m = re.fullmatch(r"@(\d+)", t)
            if m:
                k = int(m.group(1))
                if k == j:
                    return None
                if k > j:
                    t = "@%d" % (k - 1)
            toks.append(t)
        out.append(" ".join(toks))
    return out


def shrink(case):
    """Greedy minimisation of a case on which implementation and model disagree: cut everything after the
    first differing op, then drop earlier ops one at a time while a difference remains."""
    if not SHRINK_BINS or case is None or FAMILY_BIN.get(case.family) not in SHRINK_BINS:
        return None
    wd = os.path.join(WORK, "shrink")
    ops = list(case.ops)
    i, x, y = _first_diff(case, ops, wd)
    if i is None:
        return None
    ops = ops[:i + 1]
    budget = 150
    j = len(ops) - 2
    while j >= 0 and budget > 0:
        cand = _drop_op(ops, j)
        if cand is not None:
            budget -= 1
            k, _, _ = _first_diff(case, cand, wd)
            if k is not None:
                ops = cand[:k + 1]
                j = min(j, len(ops) - 1)
        j -= 1
    i, x, y = _first_diff(case, ops, wd)
    c = Case(case.name + "_min", case.family, case.bs, case.w, case.dm)
    c.ops = ops
    return dict(ops=ops, case_text=c.text(), first_differing_op=i, implementation=list(x or []), model=list(y or []),
                original_ops=len(case.ops))


def write_replay(pid, n, kind, case, detail, impl, model):
    os.makedirs(REPLAYS, exist_ok=True)
    path = os.path.join(REPLAYS, "%s-%d.json" % (pid, n))
    doc = dict(property=pid, kind=kind, detail=detail, case=case.to_json() if case else None,
               case_text=case.text() if case else None,
               impl={str(k): v for k, v in (impl or {}).items()}, model={str(k): v for k, v in (model or {}).items()},
               replay_cmd="./check %s --replay %s" % (pid, path))
    if n == 0 and case is not None:
        try:
            doc["shrunk"] = shrink(case)
        except Exception as e:       # shrinking is a convenience; never let it mask the verdict
            doc["shrunk"] = dict(error=repr(e))
    json.dump(doc, open(path, "w"), indent=1)
    return path


def finish(v, pid, obl, matcher, level, trusted, assumptions, rule, extra=None):
    """Print verdict lines, write evidence, return exit code."""
    known = load_known()
    violations = []
    n = 0
    # predicate failures: genuine violations with a failing input (unless listed as known)
    seen_known = set()
    for c, desc, ri, rm in v.pred_fail:
        kf = matcher(c, desc, known) if matcher else None
        if kf:
            if kf["id"] not in seen_known:
                seen_known.add(kf["id"])
                print("KNOWN-FINDING: property=%s %s" % (pid, kf["what"]))
            v.known_hits[kf["id"]] = v.known_hits.get(kf["id"], 0) + 1
            continue
        if n < 5:
            path = write_replay(pid, n, "predicate", c, desc, ri, rm)
            print("VIOLATION property=%s replay=%s" % (pid, path))
        n += 1
        violations.append(desc)
    if not violations:
        # correspondence failures: model and code disagree but no failing input for the property found
        m = 0
        for c, i, a, b in v.corr_fail:
            kf = matcher(c, "corr", known) if matcher else None
            if kf:
                continue
            if m < 3:
                path = write_replay(pid, n, "correspondence", c,
                                    "corr:%s: op %d `%s`: implementation %s, model %s; theorems of Props/%s.v rest on this correspondence"
                                    % (pid, i, c.ops[i], a, b, pid), None, None)
                print("VIOLATION property=%s replay=%s no-failing-input-found" % (pid, path))
            m += 1
            n += 1
            violations.append("corr")
    if obl["problems"]:
        path = write_replay(pid, n, "proof-obligation", None, "; ".join(obl["problems"]), None, None)
        if obl.get("translation_diffs"):
            doc = json.load(open(path))
            doc["translation_diffs"] = obl["translation_diffs"]
            json.dump(doc, open(path, "w"), indent=1)
        if violations and all(x != "corr" for x in violations):
            # a failing input was found and reported above; the broken obligation is recorded with it
            log("proof obligations that no longer check are recorded in %s" % path)
        else:
            print("VIOLATION property=%s replay=%s no-failing-input-found" % (pid, path))
        violations.append("obligation")
    cov = dict(
        obligations=obl["obligations"], discharged=obl["discharged"],
        checker_cmd="cd coq && make -j16 && coqc -Q . BM Props/%s.v  (Print Assumptions under every theorem); translator/rs2v /repo .work/gen && "
                    "coqc -Q coq BM -Q .work/gen BMGen coq/Tie/{Tie,Pins}_<crate>*.v for the crates of this property" % pid,
        trusted_base=trusted, theorems=obl["theorems"],
        evaluations=v.evaluations, distinct_nontrivial=len(v.nontrivial), rule=rule,
        samples=v.samples[:6], traces_validated_against_impl=v.traces,
        input_distribution=dict(sorted(v.dist.items())), known_finding_hits=v.known_hits,
        predicate_failures=len(v.pred_fail), correspondence_failures=len(v.corr_fail),
    )
    if v.selfcheck:
        cov["extraction_selfcheck"] = v.selfcheck
    if v.coqchk:
        cov["coqchk"] = v.coqchk
    if extra:
        cov.update(extra)
    ev = dict(property_id=pid, tier=v.tier, seed=v.seed, level=level, coverage=cov,
              assumptions=assumptions, wall_s=round(time.time() - v.t0, 2), violations=len(violations))
    os.makedirs(EVID, exist_ok=True)
    json.dump(ev, open(os.path.join(EVID, pid + ".json"), "w"), indent=1)
    return 1 if violations else 0
