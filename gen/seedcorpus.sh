#!/bin/bash
# usage: gen/seedcorpus.sh <seed name> <property id>  -- applies seeded/<name>/patch.diff, runs the check,
# stores the first two failing cases in corpus/<property>/, reverts.  Corpus cases are re-run first by every check.
set -u
name=$1; pid=$2
git -C /repo apply /verif/seeded/$name/patch.diff || { echo "patch does not apply"; exit 2; }
VERIF_EVIDENCE_DIR=/verif/.work/seed_evidence ./check $pid > /verif/.work/seedcorpus.log 2>&1
git -C /repo checkout -- .
for n in 0 1; do
  f=/verif/.work/seed_evidence/replays/$pid-$n.json
  [ -f $f ] && python3 -c "
import sys; sys.path.insert(0,'/verif/gen'); import vlib; print(vlib.corpus_add('$f', 'seed_$name'))"
done
git -C /repo status --short | head -3
