#!/usr/bin/env python3
"""Regenerates MANIFEST.json: a property is claimed iff its Props/<id>.v states theorems."""
import json, os, re, sys
sys.path.insert(0, os.path.dirname(os.path.abspath(__file__)))
from vlib import VERIF, COQ, strip_comments

NOT_YET = {}
LEVELS = {
    "C17": ("other", "Debug text and dropped memory are runtime facts about the real objects: the check measures them on the "
            "implementation (Debug compared with a reference instance of the same type; drop probe with the crates' zeroize feature, "
            "searching the object's storage for every representation of the chaining state before and after drop_in_place). The Coq "
            "statements (Props/C17.v) about the model's Debug payload and zeroized fields are true by construction of the model and "
            "are labelled thin; memory after drop is not expressible in the model."),
}
props = [json.loads(l) for l in open(os.path.join(VERIF, "properties.jsonl"))]
claimed = []
for p in props:
    src = os.path.join(COQ, "Props", p["id"] + ".v")
    if os.path.exists(src) and re.search(r"^\s*(Theorem|Lemma|Example)\s", strip_comments(open(src).read()), re.M):
        claimed.append(p["id"])
m = {
    "version": 1,
    "setup_cmd": "python3 gen/setup.py",
    "hooks": {"guard": "rustcrypto_block_modes_verif",
              "enable": "no source hook is needed: every observation goes through public API (RUSTFLAGS=\"--cfg rustcrypto_block_modes_verif\" is reserved)",
              "baseline_off_cmd": "cd /repo && cargo test --workspace --no-fail-fast --offline",
              "source_commits": [], "add_only": True},
    "engines": [
        {"name": "translation-tie", "path": "translator/ coq/Mir.v coq/MirSem.v coq/Tie/", "serves_properties": claimed,
         "kind_free_text": "Rust-to-Gallina syntactic translator (syn) + interpreter; tie theorems and pins re-compiled against /repo's current sources"},
        {"name": "coq-model", "path": "coq/", "serves_properties": claimed,
         "kind_free_text": "hand-written Gallina model + theorems (Coq 8.16.1), extracted to OCaml for execution"},
        {"name": "correspondence", "path": "harness/ gen/ check", "serves_properties": claimed,
         "kind_free_text": "Rust harness driving /repo's public API with toy ciphers; Python generators/differ/oracles"}],
    "checks": [], "not_applicable": [],
    "notes": "see DESIGN.md; known findings in known_findings.json; one fix: commit in /repo (cts CS3 one-block message)",
}
for p in props:
    pid = p["id"]
    if pid in claimed:
        cat, text = LEVELS.get(pid, ("proof",
            "Unbounded theorems about a hand-written Gallina model of the code (Props/%s.v, kernel-checked, no axioms, Print Assumptions "
            "under every theorem), tied to /repo's current working tree on every run in two ways: (1) a translator regenerates Gallina "
            "syntax trees of the crates' functions and the tie theorems (interpreter of the translated body = model function, for all "
            "inputs) and syntactic pins of coq/Tie are re-checked against them; (2) a correspondence check (differential execution of "
            "the extracted model and the real crates on generated cases) plus the property's own predicate evaluated on the "
            "implementation's outputs. A broken tie, correspondence or proof obligation is reported as a violation, with a failing "
            "input when the (then enlarged) search finds one." % pid))
        m["checks"].append({
            "property_id": pid,
            "quick_cmd": "./check %s --tier quick" % pid,
            "thorough_cmd": "./check %s --tier thorough" % pid,
            "evidence_file": "evidence/%s.json" % pid,
            "replay_cmd_template": "./check %s --replay {path}" % pid,
            "engine": "coq-model",
            "level_claimed": {"category": cat, "text": text, "design_ref": "DESIGN.md section 5, %s" % pid},
            "level_note": "Trusted: Coq kernel, extraction (ExtrOcamlBasic only) + OCaml driver, Rust harness and toy ciphers, Python "
                          "generators/oracles, the syntactic translator rs2v (syn) and the interpreter MirSem.v that gives the translated "
                          "Rust subset its meaning; Rust semantics and the dependency crates are modelled, not verified; functions without a "
                          "semantic tie theorem (the generic *_with_backend plumbing, derived Debug/Drop impls) are tied by syntactic pins and by sampling.",
            "technique": "machine-checked proof in Coq (Rocq): model theorems + translation tie (rs2v, tie theorems, pins) re-checked per run + "
                         "model/code correspondence check"})
    else:
        m["not_applicable"].append({"property_id": pid, "reason": "not claimed yet: theorems for this property are still being written "
                                    "(generator, oracle and correspondence exist; see DESIGN.md)"})
json.dump(m, open(os.path.join(VERIF, "MANIFEST.json"), "w"), indent=1)
print("claimed:", claimed)
