//! rs2v -- syntactic translator from the Rust sources of RustCrypto/block-modes to a deep embedding
//! in Gallina (the `expr`/`stmt`/`pat`/`fndef` types of coq/Mir.v).
//!
//! It is deliberately dumb: it prints syn's AST constructor by constructor.  No name resolution, no
//! typing, no simplification -- every semantic decision is taken by the interpreter `MirSem.v` inside
//! Coq, where it can be read and is used by the tie theorems.  Syntax outside the supported subset
//! is emitted as `EUnsupported "<tokens>"` (so the tie theorem about that function fails, and any
//! change inside the unsupported text still changes the emitted term).
//!
//! usage: rs2v <repo root> <out dir>
//!   writes <out dir>/Src_<crate>.v for the nine crates and <out dir>/manifest.json
use quote::ToTokens;
use std::collections::BTreeMap;
use std::fmt::Write as _;
use std::path::{Path, PathBuf};

const CRATES: &[&str] = &["cbc", "pcbc", "ige", "cfb-mode", "cfb8", "ofb", "ctr", "belt-ctr", "cts"];

/// assertion macros become calls `name!(args)` with their arguments as expressions (so that the interpreter can give
/// them their meaning: panic unless the condition holds); every other macro stays an opaque token string
fn mac_expr(mac: &syn::Macro, n: usize) -> String {
    let name = toks(&mac.path);
    const ASSERTS: [&str; 6] = ["assert", "assert_eq", "assert_ne", "debug_assert", "debug_assert_eq", "debug_assert_ne"];
    if ASSERTS.contains(&name.as_str()) {
        if let Ok(args) = mac.parse_body_with(syn::punctuated::Punctuated::<syn::Expr, syn::Token![,]>::parse_terminated) {
            let xs: Vec<String> = args.iter().map(|a| expr(a, n)).collect();
            return format!("(ECall {} [{}])", coq_str(&format!("{}!", name)), xs.join("; "));
        }
    }
    format!("(EMacro {} {})", coq_str(&name), coq_str(&compact(&mac.tokens.to_string())))
}

fn main() {
    let args: Vec<String> = std::env::args().collect();
    if args.len() != 3 {
        eprintln!("usage: rs2v <repo root> <out dir>");
        std::process::exit(2);
    }
    let repo = PathBuf::from(&args[1]);
    let out = PathBuf::from(&args[2]);
    std::fs::create_dir_all(&out).unwrap();
    let mut manifest = String::from("{\n");
    let mut first = true;
    for krate in CRATES {
        let mut files = Vec::new();
        collect_rs(&repo.join(krate).join("src"), &mut files);
        files.sort();
        let mut tr = Translator::new(krate);
        for f in &files {
            let rel = f.strip_prefix(repo.join(krate).join("src")).unwrap().to_path_buf();
            let text = match std::fs::read_to_string(f) {
                Ok(t) => t,
                Err(e) => {
                    eprintln!("cannot read {}: {}", f.display(), e);
                    std::process::exit(1);
                }
            };
            match syn::parse_file(&text) {
                Ok(ast) => tr.file(&rel, &ast),
                Err(e) => {
                    eprintln!("cannot parse {}: {}", f.display(), e);
                    std::process::exit(1);
                }
            }
        }
        let name = format!("Src_{}", ident(krate));
        let hashes = tr.hashes.clone();
        std::fs::write(out.join(format!("{}.v", name)), tr.finish()).unwrap();
        for (k, h) in &hashes {
            if !first {
                manifest.push_str(",\n");
            }
            first = false;
            write!(manifest, " \"{}\": \"{}\"", k, h).unwrap();
        }
    }
    manifest.push_str("\n}\n");
    std::fs::write(out.join("manifest.json"), manifest).unwrap();
}

fn collect_rs(dir: &Path, out: &mut Vec<PathBuf>) {
    if let Ok(rd) = std::fs::read_dir(dir) {
        for e in rd.flatten() {
            let p = e.path();
            if p.is_dir() {
                collect_rs(&p, out);
            } else if p.extension().map(|x| x == "rs").unwrap_or(false) {
                out.push(p);
            }
        }
    }
}

/// identifier-safe rendering
fn ident(s: &str) -> String {
    let mut o = String::new();
    for c in s.chars() {
        if c.is_ascii_alphanumeric() || c == '_' {
            o.push(c)
        } else {
            o.push('_')
        }
    }
    o
}

/// token string without whitespace noise ("a :: < B >" -> "a::<B>")
fn toks<T: ToTokens>(t: &T) -> String {
    let s = t.to_token_stream().to_string();
    compact(&s)
}

fn compact(s: &str) -> String {
    // remove spaces except between two identifier-like characters
    let cs: Vec<char> = s.chars().collect();
    let mut o = String::new();
    let isw = |c: char| c.is_alphanumeric() || c == '_' || c == '\'' || c == '"';
    for i in 0..cs.len() {
        let c = cs[i];
        if c.is_whitespace() {
            let prev = o.chars().last();
            let mut j = i + 1;
            while j < cs.len() && cs[j].is_whitespace() {
                j += 1;
            }
            let next = cs.get(j).copied();
            if let (Some(p), Some(n)) = (prev, next) {
                if isw(p) && isw(n) {
                    o.push(' ');
                }
            }
        } else {
            o.push(c);
        }
    }
    o
}

fn coq_str(s: &str) -> String {
    let mut o = String::from("\"");
    for c in s.chars() {
        if c == '"' {
            o.push_str("\"\"");
        } else if c.is_ascii() && !c.is_ascii_control() {
            o.push(c);
        } else if c == '\n' || c == '\t' {
            o.push(' ');
        } else {
            o.push('?');
        }
    }
    o.push('"');
    o
}

fn fnv(s: &str) -> String {
    let mut h: u64 = 0xcbf29ce484222325;
    for b in s.bytes() {
        h ^= b as u64;
        h = h.wrapping_mul(0x100000001b3);
    }
    format!("{:016x}", h)
}

struct Translator {
    krate: String,
    body: String,
    items: BTreeMap<String, Vec<String>>, // per file: structural item descriptions
    defs: Vec<String>,                    // names of emitted fndefs
    impls: BTreeMap<String, Vec<String>>, // per file: rows (cfg, trait, type, members)
    structs: BTreeMap<String, Vec<String>>, // per file: rows (name, fields, derives)
    hashes: BTreeMap<String, String>,     // fn key -> hash of its token text
}

impl Translator {
    fn new(krate: &str) -> Self {
        Translator { krate: ident(krate), body: String::new(), items: BTreeMap::new(), defs: Vec::new(), impls: BTreeMap::new(), structs: BTreeMap::new(), hashes: BTreeMap::new() }
    }

    fn finish(mut self) -> String {
        let mut o = String::new();
        o.push_str("(* GENERATED by /verif/translator (rs2v) from /repo -- do not edit. *)\n");
        o.push_str("From BM Require Import Mir.\nImport MirNotations.\nLocal Open Scope string_scope.\n\n");
        o.push_str(&self.body);
        for (file, items) in std::mem::take(&mut self.items) {
            writeln!(o, "Definition items_{}__{} : list string := [", self.krate, file).unwrap();
            for (i, it) in items.iter().enumerate() {
                writeln!(o, "  {}{}", coq_str(it), if i + 1 < items.len() { ";" } else { "" }).unwrap();
            }
            o.push_str("].\n\n");
        }
        for (file, rows) in std::mem::take(&mut self.impls) {
            writeln!(o, "Definition impls_{}__{} : list (string * string * string * list string) := [", self.krate, file).unwrap();
            writeln!(o, "{}", rows.iter().map(|r| format!("  {}", r)).collect::<Vec<_>>().join(";\n")).unwrap();
            o.push_str("].\n\n");
        }
        for (file, rows) in std::mem::take(&mut self.structs) {
            writeln!(o, "Definition structs_{}__{} : list (string * list string * string) := [", self.krate, file).unwrap();
            writeln!(o, "{}", rows.iter().map(|r| format!("  {}", r)).collect::<Vec<_>>().join(";\n")).unwrap();
            o.push_str("].\n\n");
        }
        writeln!(o, "Definition all_fns_{} : list string := [", self.krate).unwrap();
        for (i, d) in self.defs.iter().enumerate() {
            writeln!(o, "  {}{}", coq_str(d), if i + 1 < self.defs.len() { ";" } else { "" }).unwrap();
        }
        o.push_str("].\n");
        o
    }

    fn file(&mut self, rel: &Path, ast: &syn::File) {
        let stem = ident(&rel.with_extension("").to_string_lossy());
        let mut items = Vec::new();
        for it in &ast.items {
            self.item(&stem, "", it, &mut items);
        }
        self.items.insert(stem, items);
    }

    fn cfgs(attrs: &[syn::Attribute]) -> Vec<String> {
        attrs.iter().filter(|a| a.path().is_ident("cfg") || a.path().is_ident("cfg_attr")).map(|a| toks(&a.meta)).collect()
    }

    fn derives(attrs: &[syn::Attribute]) -> Vec<String> {
        attrs.iter().filter(|a| a.path().is_ident("derive")).map(|a| toks(&a.meta)).collect()
    }

    fn item(&mut self, file: &str, prefix: &str, it: &syn::Item, items: &mut Vec<String>) {
        match it {
            syn::Item::Fn(f) => {
                let key = format!("{}{}", prefix, f.sig.ident);
                let cf = Self::cfgs(&f.attrs);
                items.push(format!("fn {}{}", key, if cf.is_empty() { String::new() } else { format!(" #[{}]", cf.join(",")) }));
                self.fndef(file, &key, &f.sig, &f.block, items);
            }
            syn::Item::Impl(im) => {
                let tr = match &im.trait_ {
                    Some((bang, p, _)) => format!("{}{}", if bang.is_some() { "!" } else { "" }, last_seg(p)),
                    None => "_".to_string(),
                };
                let ty = type_head(&im.self_ty);
                let cf = Self::cfgs(&im.attrs);
                let mut fns = Vec::new();
                for ii in &im.items {
                    match ii {
                        syn::ImplItem::Fn(f) => {
                            let c2 = Self::cfgs(&f.attrs);
                            fns.push(format!("fn {}{}", f.sig.ident, if c2.is_empty() { String::new() } else { format!(" #[{}]", c2.join(",")) }));
                            let key = format!("{}{}__{}__{}", prefix, tr, ty, f.sig.ident);
                            self.fndef(file, &key, &f.sig, &f.block, items);
                        }
                        syn::ImplItem::Type(t) => fns.push(format!("type {}={}", t.ident, toks(&t.ty))),
                        syn::ImplItem::Const(c) => fns.push(format!("const {}:{}={}", c.ident, toks(&c.ty), toks(&c.expr))),
                        other => fns.push(format!("other {}", toks(other))),
                    }
                }
                let row = format!(
                    "({}, {}, {}, [{}])",
                    coq_str(&cf.join(",")),
                    coq_str(&format!("{}{}", prefix, tr)),
                    coq_str(&ty),
                    fns.iter().map(|f| coq_str(f)).collect::<Vec<_>>().join("; ")
                );
                self.impls.entry(file.to_string()).or_default().push(row);
                items.push(format!(
                    "impl {}{} for {} [{}]",
                    prefix,
                    tr,
                    ty,
                    compact(&format!("{} {}", toks(&im.generics.params), im.generics.where_clause.as_ref().map(|w| toks(w)).unwrap_or_default()))
                ));
            }
            syn::Item::Struct(s) => {
                let fields: Vec<String> = s.fields.iter().map(|f| format!("{}:{}", f.ident.as_ref().map(|i| i.to_string()).unwrap_or_default(), toks(&f.ty))).collect();
                let row = format!(
                    "({}, [{}], {})",
                    coq_str(&format!("{}{}", prefix, s.ident)),
                    fields.iter().map(|f| coq_str(f)).collect::<Vec<_>>().join("; "),
                    coq_str(&Self::derives(&s.attrs).join(","))
                );
                self.structs.entry(file.to_string()).or_default().push(row);
                items.push(format!("struct {}{}", prefix, s.ident));
            }
            syn::Item::Enum(e) => {
                items.push(format!("enum {}{} derive[{}] {}", prefix, e.ident, Self::derives(&e.attrs).join(","), toks(&e.variants)));
            }
            syn::Item::Type(t) => items.push(format!("type {}{}{}={}", prefix, t.ident, toks(&t.generics), toks(&t.ty))),
            syn::Item::Const(c) => items.push(format!("const {}{}:{}={}", prefix, c.ident, toks(&c.ty), toks(&c.expr))),
            syn::Item::Static(c) => items.push(format!("static {}{}", prefix, toks(c))),
            syn::Item::Trait(t) => {
                let mut fns = Vec::new();
                for ti in &t.items {
                    match ti {
                        syn::TraitItem::Fn(f) => {
                            fns.push(format!("fn {}{}", f.sig.ident, if f.default.is_some() { " (default)" } else { "" }));
                            if let Some(b) = &f.default {
                                let key = format!("{}trait__{}__{}", prefix, t.ident, f.sig.ident);
                                self.fndef(file, &key, &f.sig, b, items);
                            }
                        }
                        other => fns.push(compact(&toks(other))),
                    }
                }
                items.push(format!("trait {}{} {{{}}}", prefix, t.ident, fns.join("; ")));
            }
            syn::Item::Use(_) | syn::Item::ExternCrate(_) => {}
            syn::Item::Mod(m) => {
                items.push(format!("mod {}{}", prefix, m.ident));
                if let Some((_, its)) = &m.content {
                    let p2 = format!("{}{}__", prefix, m.ident);
                    for i in its {
                        self.item(file, &p2, i, items);
                    }
                }
            }
            syn::Item::Macro(m) => items.push(format!("macro {}", toks(m))),
            other => items.push(format!("other {}", toks(other))),
        }
    }

    fn fndef(&mut self, file: &str, key: &str, sig: &syn::Signature, block: &syn::Block, items: &mut Vec<String>) {
        let name = format!("{}__{}__{}", self.krate, file, ident(key));
        // nested items inside the body are items of their own (prefix = this function)
        for st in &block.stmts {
            if let syn::Stmt::Item(it) = st {
                let p2 = format!("{}__", ident(key));
                self.item(file, &p2, it, items);
            }
        }
        let mut params = Vec::new();
        for a in &sig.inputs {
            match a {
                syn::FnArg::Receiver(_) => params.push("PId \"self\"".to_string()),
                syn::FnArg::Typed(t) => params.push(pat(&t.pat)),
            }
        }
        let sigs = compact(&toks(sig));
        let mut o = String::new();
        writeln!(o, "Definition {} : fndef := {{|", name).unwrap();
        writeln!(o, "  fn_sig := {};", coq_str(&sigs)).unwrap();
        writeln!(o, "  fn_params := [{}];", params.join("; ")).unwrap();
        writeln!(o, "  fn_body := {} |}}.\n", stmts(&block.stmts, 4)).unwrap();
        self.body.push_str(&o);
        self.hashes.insert(name.clone(), fnv(&format!("{}{}", sigs, toks(block))));
        self.defs.push(name);
    }
}

fn last_seg(p: &syn::Path) -> String {
    p.segments.last().map(|s| s.ident.to_string()).unwrap_or_default()
}

fn type_head(t: &syn::Type) -> String {
    match t {
        syn::Type::Path(p) => last_seg(&p.path),
        syn::Type::Reference(r) => type_head(&r.elem),
        other => ident(&toks(other)),
    }
}

fn ind(n: usize) -> String {
    " ".repeat(n)
}

fn stmts(ss: &[syn::Stmt], n: usize) -> String {
    if ss.is_empty() {
        return "[]".to_string();
    }
    let mut parts = Vec::new();
    for s in ss {
        parts.push(format!("{}{}", ind(n), stmt(s, n)));
    }
    format!("[\n{}\n{}]", parts.join(";\n"), ind(n.saturating_sub(2)))
}

fn with_cfg(attrs: &[syn::Attribute], inner: String) -> String {
    let c = Translator::cfgs(attrs);
    if c.is_empty() {
        inner
    } else {
        format!("(ECfg {} {})", coq_str(&c.join(",")), inner)
    }
}

fn stmt(s: &syn::Stmt, n: usize) -> String {
    match s {
        syn::Stmt::Local(l) => {
            let (p, ty) = match &l.pat {
                syn::Pat::Type(t) => (pat(&t.pat), toks(&t.ty)),
                other => (pat(other), String::new()),
            };
            let init = match &l.init {
                Some(i) => {
                    if i.diverge.is_some() {
                        format!("(Some (EUnsupported {}))", coq_str(&toks(l)))
                    } else {
                        format!("(Some {})", expr(&i.expr, n + 2))
                    }
                }
                None => "None".to_string(),
            };
            let c = Translator::cfgs(&l.attrs);
            if c.is_empty() {
                format!("SLet {} {} {}", p, coq_str(&ty), init)
            } else {
                format!("SExpr (ECfg {} (EUnsupported {})) true", coq_str(&c.join(",")), coq_str(&toks(l)))
            }
        }
        syn::Stmt::Item(it) => format!("SItem {}", coq_str(&item_head(it))),
        syn::Stmt::Expr(e, semi) => format!("SExpr {} {}", expr(e, n + 2), if semi.is_some() { "true" } else { "false" }),
        syn::Stmt::Macro(m) => {
            format!("SExpr {} true", with_cfg(&m.attrs, mac_expr(&m.mac, n)))
        }
    }
}

fn item_head(it: &syn::Item) -> String {
    match it {
        syn::Item::Struct(s) => format!("struct {}", s.ident),
        syn::Item::Impl(im) => format!(
            "impl {} for {}",
            im.trait_.as_ref().map(|(_, p, _)| last_seg(p)).unwrap_or_else(|| "_".into()),
            type_head(&im.self_ty)
        ),
        syn::Item::Fn(f) => format!("fn {}", f.sig.ident),
        syn::Item::Use(u) => format!("use {}", toks(u)),
        other => toks(other),
    }
}

fn pat(p: &syn::Pat) -> String {
    match p {
        syn::Pat::Ident(i) => {
            if i.subpat.is_some() {
                format!("(PUnsupported {})", coq_str(&toks(p)))
            } else {
                format!("(PId {})", coq_str(&i.ident.to_string()))
            }
        }
        syn::Pat::Wild(_) => "PWild".to_string(),
        syn::Pat::Tuple(t) => format!("(PTuple [{}])", t.elems.iter().map(pat).collect::<Vec<_>>().join("; ")),
        syn::Pat::Type(t) => pat(&t.pat),
        syn::Pat::Reference(r) => format!("(PRef {})", pat(&r.pat)),
        syn::Pat::Paren(x) => pat(&x.pat),
        syn::Pat::Struct(s) => {
            let fields: Vec<String> = s
                .fields
                .iter()
                .map(|f| format!("({}, {})", coq_str(&toks(&f.member)), pat(&f.pat)))
                .collect();
            format!("(PStruct {} [{}] {})", coq_str(&toks(&s.path)), fields.join("; "), if s.rest.is_some() { "true" } else { "false" })
        }
        syn::Pat::Path(x) => format!("(PPath {})", coq_str(&toks(x))),
        other => format!("(PUnsupported {})", coq_str(&toks(other))),
    }
}

fn opt_expr(e: &Option<Box<syn::Expr>>, n: usize) -> String {
    match e {
        Some(x) => format!("(Some {})", expr(x, n)),
        None => "None".to_string(),
    }
}

fn block_expr(b: &syn::Block, n: usize) -> String {
    stmts(&b.stmts, n + 2)
}

fn binop(op: &syn::BinOp) -> (String, bool) {
    use syn::BinOp::*;
    let (s, asg) = match op {
        Add(_) => ("+", false),
        Sub(_) => ("-", false),
        Mul(_) => ("*", false),
        Div(_) => ("/", false),
        Rem(_) => ("%", false),
        And(_) => ("&&", false),
        Or(_) => ("||", false),
        BitXor(_) => ("^", false),
        BitAnd(_) => ("&", false),
        BitOr(_) => ("|", false),
        Shl(_) => ("<<", false),
        Shr(_) => (">>", false),
        Eq(_) => ("==", false),
        Lt(_) => ("<", false),
        Le(_) => ("<=", false),
        Ne(_) => ("!=", false),
        Ge(_) => (">=", false),
        Gt(_) => (">", false),
        AddAssign(_) => ("+", true),
        SubAssign(_) => ("-", true),
        MulAssign(_) => ("*", true),
        DivAssign(_) => ("/", true),
        RemAssign(_) => ("%", true),
        BitXorAssign(_) => ("^", true),
        BitAndAssign(_) => ("&", true),
        BitOrAssign(_) => ("|", true),
        ShlAssign(_) => ("<<", true),
        ShrAssign(_) => (">>", true),
        _ => ("?", false),
    };
    (s.to_string(), asg)
}

fn exprs<'a, I: Iterator<Item = &'a syn::Expr>>(it: I, n: usize) -> String {
    format!("[{}]", it.map(|e| expr(e, n)).collect::<Vec<_>>().join("; "))
}

fn attrs_of(e: &syn::Expr) -> &[syn::Attribute] {
    use syn::Expr::*;
    match e {
        Block(x) => &x.attrs,
        MethodCall(x) => &x.attrs,
        Call(x) => &x.attrs,
        Assign(x) => &x.attrs,
        Binary(x) => &x.attrs,
        If(x) => &x.attrs,
        ForLoop(x) => &x.attrs,
        Macro(x) => &x.attrs,
        _ => &[],
    }
}

fn expr(e: &syn::Expr, n: usize) -> String {
    let inner = expr0(e, n);
    with_cfg(attrs_of(e), inner)
}

fn expr0(e: &syn::Expr, n: usize) -> String {
    use syn::Expr::*;
    match e {
        Path(p) => format!("(EPath {})", coq_str(&toks(p))),
        Lit(l) => match &l.lit {
            syn::Lit::Int(i) => match i.base10_parse::<u128>() {
                Ok(v) => format!("(ELit {}%N {})", v, coq_str(i.suffix())),
                Err(_) => format!("(EUnsupported {})", coq_str(&toks(e))),
            },
            syn::Lit::Str(s) => format!("(EStr {})", coq_str(&s.value())),
            syn::Lit::Bool(b) => format!("(EBool {})", if b.value { "true" } else { "false" }),
            _ => format!("(EUnsupported {})", coq_str(&toks(e))),
        },
        Field(f) => format!("(EField {} {})", expr(&f.base, n), coq_str(&toks(&f.member))),
        Index(i) => format!("(EIndex {} {})", expr(&i.expr, n), expr(&i.index, n)),
        Range(r) => format!(
            "(ERange {} {} {})",
            opt_expr(&r.start, n),
            opt_expr(&r.end, n),
            if matches!(r.limits, syn::RangeLimits::Closed(_)) { "true" } else { "false" }
        ),
        Reference(r) => format!("(ERef {} {})", if r.mutability.is_some() { "true" } else { "false" }, expr(&r.expr, n)),
        Unary(u) => match u.op {
            syn::UnOp::Deref(_) => format!("(EDeref {})", expr(&u.expr, n)),
            syn::UnOp::Not(_) => format!("(EUn \"!\" {})", expr(&u.expr, n)),
            syn::UnOp::Neg(_) => format!("(EUn \"-\" {})", expr(&u.expr, n)),
            _ => format!("(EUnsupported {})", coq_str(&toks(e))),
        },
        Binary(b) => {
            let (op, asg) = binop(&b.op);
            if asg {
                format!("(EAssignOp {} {} {})", coq_str(&op), expr(&b.left, n), expr(&b.right, n))
            } else {
                format!("(EBin {} {} {})", coq_str(&op), expr(&b.left, n), expr(&b.right, n))
            }
        }
        Assign(a) => format!("(EAssign {} {})", expr(&a.left, n), expr(&a.right, n)),
        Call(c) => match &*c.func {
            Path(p) => format!("(ECall {} {})", coq_str(&toks(p)), exprs(c.args.iter(), n)),
            _ => format!("(EUnsupported {})", coq_str(&toks(e))),
        },
        MethodCall(m) => {
            let mut name = m.method.to_string();
            if let Some(t) = &m.turbofish {
                name.push_str(&toks(t));
            }
            format!("(EMethod {} {} {})", expr(&m.receiver, n), coq_str(&name), exprs(m.args.iter(), n))
        }
        Tuple(t) => format!("(ETuple {})", exprs(t.elems.iter(), n)),
        Paren(p) => expr(&p.expr, n),
        Group(g) => expr(&g.expr, n),
        Struct(s) => {
            if s.rest.is_some() || s.qself.is_some() {
                return format!("(EUnsupported {})", coq_str(&toks(e)));
            }
            let fs: Vec<String> = s.fields.iter().map(|f| format!("({}, {})", coq_str(&toks(&f.member)), expr(&f.expr, n))).collect();
            format!("(EStruct {} [{}])", coq_str(&toks(&s.path)), fs.join("; "))
        }
        If(i) => {
            if matches!(&*i.cond, Let(_)) {
                return format!("(EUnsupported {})", coq_str(&toks(e)));
            }
            let els = match &i.else_branch {
                None => "[]".to_string(),
                Some((_, eb)) => match &**eb {
                    Block(b) => block_expr(&b.block, n),
                    other => format!("[SExpr {} false]", expr(other, n + 2)),
                },
            };
            format!("(EIf {} {} {})", expr(&i.cond, n), block_expr(&i.then_branch, n), els)
        }
        Block(b) => {
            if b.label.is_some() {
                return format!("(EUnsupported {})", coq_str(&toks(e)));
            }
            format!("(EBlock {})", block_expr(&b.block, n))
        }
        ForLoop(f) => {
            if f.label.is_some() {
                return format!("(EUnsupported {})", coq_str(&toks(e)));
            }
            format!("(EFor {} {} {})", pat(&f.pat), expr(&f.expr, n), block_expr(&f.body, n))
        }
        Try(t) => format!("(ETry {})", expr(&t.expr, n)),
        Return(r) => format!("(EReturn {})", opt_expr(&r.expr, n)),
        Cast(c) => format!("(ECast {} {})", expr(&c.expr, n), coq_str(&toks(&c.ty))),
        Macro(m) => mac_expr(&m.mac, n),
        Closure(c) => {
            let ps: Vec<String> = c.inputs.iter().map(pat).collect();
            format!("(EClosure [{}] {})", ps.join("; "), expr(&c.body, n))
        }
        _ => format!("(EUnsupported {})", coq_str(&toks(e))),
    }
}
