//! Block-mode family: cbc, pcbc, ige, cfb-mode (block, one-shot and buffered), cfb8, ofb (block
//! front-ends).  Reads a case file, prints one result line per op.
use bmverif::*;
use cipher::{
    AlgorithmName, AsyncStreamCipher, Block, BlockCipherDecrypt, BlockCipherEncrypt,
    BlockModeDecrypt, BlockModeEncrypt, InnerIvInit, Iv, IvSizeUser, IvState, KeyInit,
    KeyIvInit,
    array::{Array, ArraySize},
    block_padding::{NoPadding, Pkcs7},
    typenum::Sum,
};
use core::ops::Add;
use std::collections::HashMap;

enum Obj<C>
where
    C: BlockCipherEncrypt + BlockCipherDecrypt + Clone,
    C::BlockSize: Add,
    Sum<C::BlockSize, C::BlockSize>: ArraySize,
{
    CbcEnc(cbc::Encryptor<C>),
    CbcDec(cbc::Decryptor<C>),
    PcbcEnc(pcbc::Encryptor<C>),
    PcbcDec(pcbc::Decryptor<C>),
    IgeEnc(ige::Encryptor<C>),
    IgeDec(ige::Decryptor<C>),
    CfbEnc(cfb_mode::Encryptor<C>),
    CfbDec(cfb_mode::Decryptor<C>),
    Cfb8Enc(cfb8::Encryptor<C>),
    Cfb8Dec(cfb8::Decryptor<C>),
    OfbEnc(ofb::OfbCore<C>),
    OfbDec(ofb::OfbCore<C>),
    BufEnc(cfb_mode::BufEncryptor<C>),
    BufDec(cfb_mode::BufDecryptor<C>),
}

// apply $body with $m bound to the inner object, for every encrypting / decrypting block mode
macro_rules! with_enc {
    ($obj:expr, $m:ident => $body:expr, $else:expr) => {
        match $obj {
            Obj::CbcEnc($m) => $body,
            Obj::PcbcEnc($m) => $body,
            Obj::IgeEnc($m) => $body,
            Obj::CfbEnc($m) => $body,
            Obj::Cfb8Enc($m) => $body,
            Obj::OfbEnc($m) => $body,
            _ => $else,
        }
    };
}
macro_rules! with_dec {
    ($obj:expr, $m:ident => $body:expr, $else:expr) => {
        match $obj {
            Obj::CbcDec($m) => $body,
            Obj::PcbcDec($m) => $body,
            Obj::IgeDec($m) => $body,
            Obj::CfbDec($m) => $body,
            Obj::Cfb8Dec($m) => $body,
            Obj::OfbDec($m) => $body,
            _ => $else,
        }
    };
}
macro_rules! with_any {
    ($obj:expr, $m:ident => $body:expr) => {
        match $obj {
            Obj::CbcEnc($m) => $body,
            Obj::PcbcEnc($m) => $body,
            Obj::IgeEnc($m) => $body,
            Obj::CfbEnc($m) => $body,
            Obj::Cfb8Enc($m) => $body,
            Obj::OfbEnc($m) => $body,
            Obj::CbcDec($m) => $body,
            Obj::PcbcDec($m) => $body,
            Obj::IgeDec($m) => $body,
            Obj::CfbDec($m) => $body,
            Obj::Cfb8Dec($m) => $body,
            Obj::OfbDec($m) => $body,
            Obj::BufEnc($m) => $body,
            Obj::BufDec($m) => $body,
        }
    };
}

fn to_blocks<N: ArraySize>(d: &[u8]) -> Option<Vec<Array<u8, N>>> {
    if d.len() % N::USIZE != 0 {
        return None;
    }
    Some(d.chunks(N::USIZE).map(|c| Array::<u8, N>::try_from(c).unwrap()).collect())
}
fn from_blocks<N: ArraySize>(b: &[Array<u8, N>]) -> Vec<u8> {
    b.iter().flat_map(|x| x.iter().copied()).collect()
}

fn err_or_modified(before: &[u8], after: &[u8]) -> Res {
    if before == after { Res::Err } else { Res::Text("err-but-buffer-modified".into()) }
}

// ---- single-block and multi-block calls ------------------------------------------------------
fn enc_blk<M: BlockModeEncrypt>(m: &mut M, a: &[String], rs: &[Res]) -> Res {
    let d = data(&a[1], rs);
    let Ok(mut blk) = Block::<M>::try_from(&d[..]) else { return Res::Unsupported };
    match a[0].as_str() {
        "ip" => {
            m.encrypt_block(&mut blk);
            Res::Bytes(blk.to_vec())
        }
        "b2b" => {
            let j = data(&a[2], rs);
            let Ok(mut out) = Block::<M>::try_from(&j[..]) else { return Res::Unsupported };
            m.encrypt_block_b2b(&blk, &mut out);
            Res::Bytes(out.to_vec())
        }
        "io" => {
            let j = data(&a[2], rs);
            let Ok(mut out) = Block::<M>::try_from(&j[..]) else { return Res::Unsupported };
            m.encrypt_block_inout((&blk, &mut out).into());
            Res::Bytes(out.to_vec())
        }
        _ => Res::Unsupported,
    }
}
fn dec_blk<M: BlockModeDecrypt>(m: &mut M, a: &[String], rs: &[Res]) -> Res {
    let d = data(&a[1], rs);
    let Ok(mut blk) = Block::<M>::try_from(&d[..]) else { return Res::Unsupported };
    match a[0].as_str() {
        "ip" => {
            m.decrypt_block(&mut blk);
            Res::Bytes(blk.to_vec())
        }
        "b2b" => {
            let j = data(&a[2], rs);
            let Ok(mut out) = Block::<M>::try_from(&j[..]) else { return Res::Unsupported };
            m.decrypt_block_b2b(&blk, &mut out);
            Res::Bytes(out.to_vec())
        }
        "io" => {
            let j = data(&a[2], rs);
            let Ok(mut out) = Block::<M>::try_from(&j[..]) else { return Res::Unsupported };
            m.decrypt_block_inout((&blk, &mut out).into());
            Res::Bytes(out.to_vec())
        }
        _ => Res::Unsupported,
    }
}
fn enc_blks<M: BlockModeEncrypt>(m: &mut M, a: &[String], rs: &[Res]) -> Res {
    let d = data(&a[1], rs);
    let Some(mut blks) = to_blocks::<M::BlockSize>(&d) else { return Res::Unsupported };
    match a[0].as_str() {
        "ip" => {
            m.encrypt_blocks(&mut blks);
            Res::Bytes(from_blocks(&blks))
        }
        "b2b" => {
            let j = data(&a[2], rs);
            let Some(mut out) = to_blocks::<M::BlockSize>(&j) else { return Res::Unsupported };
            match m.encrypt_blocks_b2b(&blks, &mut out) {
                Ok(()) => Res::Bytes(from_blocks(&out)),
                Err(_) => err_or_modified(&j, &from_blocks(&out)),
            }
        }
        _ => Res::Unsupported,
    }
}
fn dec_blks<M: BlockModeDecrypt>(m: &mut M, a: &[String], rs: &[Res]) -> Res {
    let d = data(&a[1], rs);
    let Some(mut blks) = to_blocks::<M::BlockSize>(&d) else { return Res::Unsupported };
    match a[0].as_str() {
        "ip" => {
            m.decrypt_blocks(&mut blks);
            Res::Bytes(from_blocks(&blks))
        }
        "b2b" => {
            let j = data(&a[2], rs);
            let Some(mut out) = to_blocks::<M::BlockSize>(&j) else { return Res::Unsupported };
            match m.decrypt_blocks_b2b(&blks, &mut out) {
                Ok(()) => Res::Bytes(from_blocks(&out)),
                Err(_) => err_or_modified(&j, &from_blocks(&out)),
            }
        }
        _ => Res::Unsupported,
    }
}

// ---- padded (consume a clone) -------------------------------------------------------------------
fn enc_pad<M: BlockModeEncrypt>(m: M, a: &[String], rs: &[Res]) -> Res {
    // a = [P, ip, buf, msglen] | [P, b2b, msg, outbuf]
    let pk = a[0] == "pkcs7";
    match a[1].as_str() {
        "ip" => {
            let mut buf = data(&a[2], rs);
            let before = buf.clone();
            let n: usize = a[3].parse().unwrap();
            let r = if pk {
                m.encrypt_padded::<Pkcs7>(&mut buf, n).map(|s| s.to_vec())
            } else {
                m.encrypt_padded::<NoPadding>(&mut buf, n).map(|s| s.to_vec())
            };
            match r {
                Ok(v) => Res::Bytes(v),
                Err(_) => err_or_modified(&before, &buf),
            }
        }
        "b2b" => {
            let msg = data(&a[2], rs);
            let mut out = data(&a[3], rs);
            let before = out.clone();
            let r = if pk {
                m.encrypt_padded_b2b::<Pkcs7>(&msg, &mut out).map(|s| s.to_vec())
            } else {
                m.encrypt_padded_b2b::<NoPadding>(&msg, &mut out).map(|s| s.to_vec())
            };
            match r {
                Ok(v) => Res::Bytes(v),
                Err(_) => err_or_modified(&before, &out),
            }
        }
        _ => Res::Unsupported,
    }
}
fn dec_pad<M: BlockModeDecrypt>(m: M, a: &[String], rs: &[Res]) -> Res {
    let pk = a[0] == "pkcs7";
    let gate = |bs: usize, inl: usize, outl: usize| inl % bs != 0 || outl < inl;
    match a[1].as_str() {
        "ip" => {
            let mut buf = data(&a[2], rs);
            let before = buf.clone();
            let r = if pk {
                m.decrypt_padded::<Pkcs7>(&mut buf).map(|s| s.to_vec())
            } else {
                m.decrypt_padded::<NoPadding>(&mut buf).map(|s| s.to_vec())
            };
            match r {
                Ok(v) => Res::Bytes(v),
                // a bad-padding error legitimately leaves decrypted data behind; a length error must not
                Err(_) if gate(M::block_size(), before.len(), before.len()) => err_or_modified(&before, &buf),
                Err(_) => Res::Err,
            }
        }
        "b2b" => {
            let inp = data(&a[2], rs);
            let mut out = data(&a[3], rs);
            let before = out.clone();
            let r = if pk {
                m.decrypt_padded_b2b::<Pkcs7>(&inp, &mut out).map(|s| s.to_vec())
            } else {
                m.decrypt_padded_b2b::<NoPadding>(&inp, &mut out).map(|s| s.to_vec())
            };
            match r {
                Ok(v) => Res::Bytes(v),
                Err(_) if gate(M::block_size(), inp.len(), before.len()) => err_or_modified(&before, &out),
                Err(_) => Res::Err,
            }
        }
        _ => Res::Unsupported,
    }
}

// ---- one-shot AsyncStreamCipher (consume a clone) -------------------------------------------------
fn async_enc<M: AsyncStreamCipher + BlockModeEncrypt>(m: M, a: &[String], rs: &[Res]) -> Res {
    let mut d = data(&a[1], rs);
    match a[0].as_str() {
        "ip" => {
            m.encrypt(&mut d);
            Res::Bytes(d)
        }
        "b2b" => {
            let mut out = data(&a[2], rs);
            let before = out.clone();
            match m.encrypt_b2b(&d, &mut out) {
                Ok(()) => Res::Bytes(out),
                Err(_) => err_or_modified(&before, &out),
            }
        }
        _ => Res::Unsupported,
    }
}
fn async_dec<M: AsyncStreamCipher + BlockModeDecrypt>(m: M, a: &[String], rs: &[Res]) -> Res {
    let mut d = data(&a[1], rs);
    match a[0].as_str() {
        "ip" => {
            m.decrypt(&mut d);
            Res::Bytes(d)
        }
        "b2b" => {
            let mut out = data(&a[2], rs);
            let before = out.clone();
            match m.decrypt_b2b(&d, &mut out) {
                Ok(()) => Res::Bytes(out),
                Err(_) => err_or_modified(&before, &out),
            }
        }
        _ => Res::Unsupported,
    }
}

fn construct<M>(how: &str, key: &[u8], iv: &[u8]) -> Result<M, Res>
where
    M: KeyIvInit + InnerIvInit,
    M::Inner: KeyInit,
{
    match how {
        "slices" => M::new_from_slices(key, iv).map_err(|_| Res::Err),
        "new" => {
            let k = <&cipher::Key<M>>::try_from(key).map_err(|_| Res::Unsupported)?;
            let iv = <&Iv<M>>::try_from(iv).map_err(|_| Res::Unsupported)?;
            Ok(<M as KeyIvInit>::new(k, iv))
        }
        "inner" => {
            let c = <M::Inner as KeyInit>::new_from_slice(key).map_err(|_| Res::Unsupported)?;
            let iv = <&Array<u8, <M as IvSizeUser>::IvSize>>::try_from(iv).map_err(|_| Res::Unsupported)?;
            Ok(M::inner_iv_init(c, iv))
        }
        "inner_slice" => {
            let c = <M::Inner as KeyInit>::new_from_slice(key).map_err(|_| Res::Unsupported)?;
            M::inner_iv_slice_init(c, iv).map_err(|_| Res::Err)
        }
        _ => Err(Res::Unsupported),
    }
}

fn run_case<C>(case: &Case) -> Vec<Res>
where
    C: BlockCipherEncrypt + BlockCipherDecrypt + Clone + KeyInit + AlgorithmName,
    C::BlockSize: Add,
    Sum<C::BlockSize, C::BlockSize>: ArraySize,
{
    let mut objs: HashMap<String, Obj<C>> = HashMap::new();
    let mut rs: Vec<Res> = Vec::new();
    for op in &case.ops {
        let r = guard(|| step::<C>(&mut objs, op, &rs));
        rs.push(r);
    }
    rs
}

fn step<C>(objs: &mut HashMap<String, Obj<C>>, op: &[String], rs: &[Res]) -> Res
where
    C: BlockCipherEncrypt + BlockCipherDecrypt + Clone + KeyInit + AlgorithmName,
    C::BlockSize: Add,
    Sum<C::BlockSize, C::BlockSize>: ArraySize,
{
    macro_rules! mk {
        ($variant:ident, $how:expr, $key:expr, $iv:expr) => {
            match construct($how, $key, $iv) {
                Ok(m) => Some(Obj::$variant(m)),
                Err(r) => return r,
            }
        };
    }
    if let Some(r) = pure_op(op, rs) {
        return r;
    }
    match op[0].as_str() {
        "new" => {
            // new <id> <kind> <how> <key> <iv>
            let key = data(&op[4], rs);
            let iv = data(&op[5], rs);
            let how = op[3].as_str();
            let o = match op[2].as_str() {
                "cbc_enc" => mk!(CbcEnc, how, &key, &iv),
                "cbc_dec" => mk!(CbcDec, how, &key, &iv),
                "pcbc_enc" => mk!(PcbcEnc, how, &key, &iv),
                "pcbc_dec" => mk!(PcbcDec, how, &key, &iv),
                "ige_enc" => mk!(IgeEnc, how, &key, &iv),
                "ige_dec" => mk!(IgeDec, how, &key, &iv),
                "cfb_enc" => mk!(CfbEnc, how, &key, &iv),
                "cfb_dec" => mk!(CfbDec, how, &key, &iv),
                "cfb8_enc" => mk!(Cfb8Enc, how, &key, &iv),
                "cfb8_dec" => mk!(Cfb8Dec, how, &key, &iv),
                "ofb_enc" => mk!(OfbEnc, how, &key, &iv),
                "ofb_dec" => mk!(OfbDec, how, &key, &iv),
                "buf_enc" => mk!(BufEnc, how, &key, &iv),
                "buf_dec" => mk!(BufDec, how, &key, &iv),
                _ => None,
            };
            match o {
                Some(o) => {
                    objs.insert(op[1].clone(), o);
                    Res::Ok
                }
                None => Res::Unsupported,
            }
        }
        "fromstate" => {
            // fromstate <newid> <kind> <key> <iv> <pos>   (pos: decimal, or @k = position of a state result)
            let key = data(&op[3], rs);
            let iv = data(&op[4], rs);
            let pos: usize = if let Some(k) = op[5].strip_prefix('@') {
                match &rs[k.parse::<usize>().unwrap()] {
                    Res::State(_, p) => *p,
                    _ => return Res::Unsupported,
                }
            } else {
                op[5].parse().unwrap()
            };
            let Ok(c) = C::new_from_slice(&key) else { return Res::Unsupported };
            let Ok(ivb) = <&Block<C>>::try_from(&iv[..]) else { return Res::Unsupported };
            let o = match op[2].as_str() {
                "buf_enc" => Obj::BufEnc(cfb_mode::BufEncryptor::from_state(c, ivb, pos)),
                "buf_dec" => Obj::BufDec(cfb_mode::BufDecryptor::from_state(c, ivb, pos)),
                _ => return Res::Unsupported,
            };
            objs.insert(op[1].clone(), o);
            Res::Ok
        }
        "clone" => {
            let Some(o) = objs.get(&op[1]) else { return Res::Unsupported };
            let c = match o {
                Obj::CbcEnc(m) => Obj::CbcEnc(m.clone()),
                Obj::CbcDec(m) => Obj::CbcDec(m.clone()),
                Obj::PcbcEnc(m) => Obj::PcbcEnc(m.clone()),
                Obj::PcbcDec(m) => Obj::PcbcDec(m.clone()),
                Obj::IgeEnc(m) => Obj::IgeEnc(m.clone()),
                Obj::IgeDec(m) => Obj::IgeDec(m.clone()),
                Obj::CfbEnc(m) => Obj::CfbEnc(m.clone()),
                Obj::CfbDec(m) => Obj::CfbDec(m.clone()),
                Obj::Cfb8Enc(m) => Obj::Cfb8Enc(m.clone()),
                Obj::Cfb8Dec(m) => Obj::Cfb8Dec(m.clone()),
                Obj::OfbEnc(m) => Obj::OfbEnc(m.clone()),
                Obj::OfbDec(m) => Obj::OfbDec(m.clone()),
                Obj::BufEnc(m) => Obj::BufEnc(m.clone()),
                Obj::BufDec(m) => Obj::BufDec(m.clone()),
            };
            objs.insert(op[2].clone(), c);
            Res::Ok
        }
        "drop" => {
            objs.remove(&op[1]);
            Res::Ok
        }
        "clonefrom" => {
            // clonefrom <dst> <src>: dst.clone_from(&src) on two existing objects of the same type
            let Some(src) = objs.remove(&op[2]) else { return Res::Unsupported };
            let r = match (objs.get_mut(&op[1]), &src) {
                (Some(Obj::CbcEnc(d)), Obj::CbcEnc(s)) => { d.clone_from(s); Res::Ok }
                (Some(Obj::CbcDec(d)), Obj::CbcDec(s)) => { d.clone_from(s); Res::Ok }
                (Some(Obj::PcbcEnc(d)), Obj::PcbcEnc(s)) => { d.clone_from(s); Res::Ok }
                (Some(Obj::PcbcDec(d)), Obj::PcbcDec(s)) => { d.clone_from(s); Res::Ok }
                (Some(Obj::IgeEnc(d)), Obj::IgeEnc(s)) => { d.clone_from(s); Res::Ok }
                (Some(Obj::IgeDec(d)), Obj::IgeDec(s)) => { d.clone_from(s); Res::Ok }
                (Some(Obj::CfbEnc(d)), Obj::CfbEnc(s)) => { d.clone_from(s); Res::Ok }
                (Some(Obj::CfbDec(d)), Obj::CfbDec(s)) => { d.clone_from(s); Res::Ok }
                (Some(Obj::Cfb8Enc(d)), Obj::Cfb8Enc(s)) => { d.clone_from(s); Res::Ok }
                (Some(Obj::Cfb8Dec(d)), Obj::Cfb8Dec(s)) => { d.clone_from(s); Res::Ok }
                (Some(Obj::OfbEnc(d)), Obj::OfbEnc(s)) => { d.clone_from(s); Res::Ok }
                (Some(Obj::OfbDec(d)), Obj::OfbDec(s)) => { d.clone_from(s); Res::Ok }
                (Some(Obj::BufEnc(d)), Obj::BufEnc(s)) => { d.clone_from(s); Res::Ok }
                (Some(Obj::BufDec(d)), Obj::BufDec(s)) => { d.clone_from(s); Res::Ok }
                _ => Res::Unsupported,
            };
            objs.insert(op[2].clone(), src);
            r
        }
        "blk" => {
            let Some(o) = objs.get_mut(&op[1]) else { return Res::Unsupported };
            let a = &op[2..];
            with_enc!(o, m => enc_blk(m, a, rs), with_dec!(o, m => dec_blk(m, a, rs), Res::Unsupported))
        }
        "blks" => {
            let Some(o) = objs.get_mut(&op[1]) else { return Res::Unsupported };
            let a = &op[2..];
            with_enc!(o, m => enc_blks(m, a, rs), with_dec!(o, m => dec_blks(m, a, rs), Res::Unsupported))
        }
        "pad" => {
            let Some(o) = objs.get(&op[1]) else { return Res::Unsupported };
            let a = &op[2..];
            with_enc!(o, m => enc_pad(m.clone(), a, rs), Res::Unsupported)
        }
        "unpad" => {
            let Some(o) = objs.get(&op[1]) else { return Res::Unsupported };
            let a = &op[2..];
            with_dec!(o, m => dec_pad(m.clone(), a, rs), Res::Unsupported)
        }
        "async" => {
            let Some(o) = objs.get(&op[1]) else { return Res::Unsupported };
            let a = &op[2..];
            match o {
                Obj::CfbEnc(m) => async_enc(m.clone(), a, rs),
                Obj::Cfb8Enc(m) => async_enc(m.clone(), a, rs),
                Obj::CfbDec(m) => async_dec(m.clone(), a, rs),
                Obj::Cfb8Dec(m) => async_dec(m.clone(), a, rs),
                _ => Res::Unsupported,
            }
        }
        "ivstate" => {
            let Some(o) = objs.get(&op[1]) else { return Res::Unsupported };
            match o {
                Obj::CbcEnc(m) => Res::Bytes(m.iv_state().to_vec()),
                Obj::CbcDec(m) => Res::Bytes(m.iv_state().to_vec()),
                Obj::PcbcEnc(m) => Res::Bytes(m.iv_state().to_vec()),
                Obj::PcbcDec(m) => Res::Bytes(m.iv_state().to_vec()),
                Obj::IgeEnc(m) => Res::Bytes(m.iv_state().to_vec()),
                Obj::IgeDec(m) => Res::Bytes(m.iv_state().to_vec()),
                Obj::CfbEnc(m) => Res::Bytes(m.iv_state().to_vec()),
                Obj::CfbDec(m) => Res::Bytes(m.iv_state().to_vec()),
                Obj::Cfb8Enc(m) => Res::Bytes(m.iv_state().to_vec()),
                Obj::Cfb8Dec(m) => Res::Bytes(m.iv_state().to_vec()),
                Obj::OfbEnc(m) => Res::Bytes(m.iv_state().to_vec()),
                Obj::OfbDec(m) => Res::Bytes(m.iv_state().to_vec()),
                _ => Res::Unsupported,
            }
        }
        "buf" => {
            let Some(o) = objs.get_mut(&op[1]) else { return Res::Unsupported };
            let mut d = data(&op[3], rs); // buf <id> ip <data>
            match o {
                Obj::BufEnc(m) => m.encrypt(&mut d),
                Obj::BufDec(m) => m.decrypt(&mut d),
                _ => return Res::Unsupported,
            }
            Res::Bytes(d)
        }
        "getstate" => {
            let Some(o) = objs.get(&op[1]) else { return Res::Unsupported };
            match o {
                Obj::BufEnc(m) => {
                    let (b, p) = m.get_state();
                    Res::State(b.to_vec(), p)
                }
                Obj::BufDec(m) => {
                    let (b, p) = m.get_state();
                    Res::State(b.to_vec(), p)
                }
                _ => Res::Unsupported,
            }
        }
        "dropprobe" => {
            // dropprobe <id> <secret>...   (consumes the object)
            let secrets: Vec<Vec<u8>> = op[2..].iter().map(|t| data(t, rs)).collect();
            let Some(o) = objs.remove(&op[1]) else { return Res::Unsupported };
            with_any!(o, m => drop_probe(m, &secrets))
        }
        "debug" => {
            let Some(o) = objs.get(&op[1]) else { return Res::Unsupported };
            Res::Text(with_any!(o, m => format!("{:?}", m)))
        }
        "algname" => {
            let Some(o) = objs.get(&op[1]) else { return Res::Unsupported };
            struct N<T>(core::marker::PhantomData<T>);
            impl<T: AlgorithmName> core::fmt::Display for N<T> {
                fn fmt(&self, f: &mut core::fmt::Formatter<'_>) -> core::fmt::Result {
                    T::write_alg_name(f)
                }
            }
            fn name_of<T: AlgorithmName>(_: &T) -> String {
                format!("{}", N::<T>(core::marker::PhantomData))
            }
            Res::Text(with_any!(o, m => name_of(m)))
        }
        _ => Res::Unsupported,
    }
}

macro_rules! dispatch {
    ($case:expr; $( ($bs:literal, $w:literal, $dm:ident, $BS:ident, $PW:ident) ),* $(,)?) => {
        match ($case.bs, $case.w, $case.dm.as_str()) {
            $( ($bs, $w, s) if s == <$dm as DMode>::NAME =>
                 Some(run_case::<Toy<cipher::consts::$BS, cipher::consts::$PW, $dm>>($case)), )*
            _ => None,
        }
    };
}

fn main() {
    silence_panics();
    let path = std::env::args().nth(1).expect("case file");
    let cases = read_cases(&path);
    let stdout = std::io::stdout();
    let mut out = std::io::BufWriter::new(stdout.lock());
    for case in &cases {
        let rs = dispatch!(case;
            (1, 1, Inv, U1, U1), (1, 3, Inv, U1, U3),
            (2, 2, Inv, U2, U2), (2, 7, Inv, U2, U7),
            (3, 4, Unrel, U3, U4),
            (5, 3, Inv, U5, U3),
            (8, 1, Inv, U8, U1), (8, 5, Unrel, U8, U5),
            (16, 2, Inv, U16, U2), (16, 8, Inv, U16, U8), (16, 7, Unrel, U16, U7),
            (17, 3, Inv, U17, U3),
            (32, 4, Inv, U32, U4),
            (255, 2, Inv, U255, U2),
        );
        match rs {
            Some(rs) => emit(&mut out, case, &rs),
            None => {
                use std::io::Write;
                writeln!(out, "{} - nocfg", case.name).unwrap()
            }
        }
    }
}
