//! Ciphertext-stealing family: cts::{CbcCs1,CbcCs2,CbcCs3,EcbCs1,EcbCs2,EcbCs3}.
use bmverif::*;
use cipher::{BlockCipherDecrypt, BlockCipherEncrypt, InnerIvInit, KeyInit, KeyIvInit, crypto_common::InnerInit};
use cts::{Decrypt, Encrypt};
use std::collections::HashMap;

enum Obj<C: BlockCipherEncrypt + BlockCipherDecrypt + Clone> {
    C1(cts::CbcCs1<C>),
    C2(cts::CbcCs2<C>),
    C3(cts::CbcCs3<C>),
    E1(cts::EcbCs1<C>),
    E2(cts::EcbCs2<C>),
    E3(cts::EcbCs3<C>),
}

fn cbc_new<M>(how: &str, key: &[u8], iv: &[u8]) -> Result<M, Res>
where
    M: KeyIvInit + InnerIvInit,
    M::Inner: KeyInit,
{
    match how {
        "slices" => M::new_from_slices(key, iv).map_err(|_| Res::Err),
        "new" => {
            let k = <&cipher::Key<M>>::try_from(key).map_err(|_| Res::Unsupported)?;
            let iv = <&cipher::Iv<M>>::try_from(iv).map_err(|_| Res::Unsupported)?;
            Ok(<M as KeyIvInit>::new(k, iv))
        }
        "inner" => {
            let c = <M::Inner as KeyInit>::new_from_slice(key).map_err(|_| Res::Unsupported)?;
            let iv = <&cipher::Iv<M>>::try_from(iv).map_err(|_| Res::Unsupported)?;
            Ok(M::inner_iv_init(c, iv))
        }
        _ => Err(Res::Unsupported),
    }
}
fn ecb_new<M>(how: &str, key: &[u8], iv: &[u8]) -> Result<M, Res>
where
    M: KeyInit + InnerInit,
    M::Inner: KeyInit,
{
    if !iv.is_empty() {
        return Err(if how == "slices" { Res::Err } else { Res::Unsupported });
    }
    match how {
        "slices" => <M as KeyInit>::new_from_slice(key).map_err(|_| Res::Err),
        "new" => {
            let k = <&cipher::Key<M>>::try_from(key).map_err(|_| Res::Unsupported)?;
            Ok(<M as KeyInit>::new(k))
        }
        "inner" => {
            let c = <M::Inner as KeyInit>::new_from_slice(key).map_err(|_| Res::Unsupported)?;
            Ok(M::inner_init(c))
        }
        _ => Err(Res::Unsupported),
    }
}

fn do_enc<M: Encrypt>(m: M, a: &[String], rs: &[Res]) -> Res {
    let mut d = data(&a[1], rs);
    match a[0].as_str() {
        "ip" => {
            let before = d.clone();
            match m.encrypt(&mut d) {
                Ok(()) => Res::Bytes(d),
                Err(_) => if d == before { Res::Err } else { Res::Text("err-but-buffer-modified".into()) },
            }
        }
        "b2b" => {
            let mut out = data(&a[2], rs);
            let before = out.clone();
            match m.encrypt_b2b(&d, &mut out) {
                Ok(()) => Res::Bytes(out),
                Err(_) => if out == before { Res::Err } else { Res::Text("err-but-buffer-modified".into()) },
            }
        }
        _ => Res::Unsupported,
    }
}
fn do_dec<M: Decrypt>(m: M, a: &[String], rs: &[Res]) -> Res {
    let mut d = data(&a[1], rs);
    match a[0].as_str() {
        "ip" => {
            let before = d.clone();
            match m.decrypt(&mut d) {
                Ok(()) => Res::Bytes(d),
                Err(_) => if d == before { Res::Err } else { Res::Text("err-but-buffer-modified".into()) },
            }
        }
        "b2b" => {
            let mut out = data(&a[2], rs);
            let before = out.clone();
            match m.decrypt_b2b(&d, &mut out) {
                Ok(()) => Res::Bytes(out),
                Err(_) => if out == before { Res::Err } else { Res::Text("err-but-buffer-modified".into()) },
            }
        }
        _ => Res::Unsupported,
    }
}

fn run_case<C>(case: &Case) -> Vec<Res>
where
    C: BlockCipherEncrypt + BlockCipherDecrypt + Clone + KeyInit,
{
    let mut objs: HashMap<String, Obj<C>> = HashMap::new();
    let mut rs: Vec<Res> = Vec::new();
    for op in &case.ops {
        let r = guard(|| step::<C>(&mut objs, op, &rs));
        rs.push(r);
    }
    rs
}

fn step<C>(objs: &mut HashMap<String, Obj<C>>, op: &[String], rs: &[Res]) -> Res
where
    C: BlockCipherEncrypt + BlockCipherDecrypt + Clone + KeyInit,
{
    if let Some(r) = pure_op(op, rs) {
        return r;
    }
    match op[0].as_str() {
        "new" => {
            let key = data(&op[4], rs);
            let iv = data(&op[5], rs);
            let how = op[3].as_str();
            let o = match op[2].as_str() {
                "cbc_cs1" => cbc_new(how, &key, &iv).map(Obj::C1),
                "cbc_cs2" => cbc_new(how, &key, &iv).map(Obj::C2),
                "cbc_cs3" => cbc_new(how, &key, &iv).map(Obj::C3),
                "ecb_cs1" => ecb_new(how, &key, &iv).map(Obj::E1),
                "ecb_cs2" => ecb_new(how, &key, &iv).map(Obj::E2),
                "ecb_cs3" => ecb_new(how, &key, &iv).map(Obj::E3),
                _ => Err(Res::Unsupported),
            };
            match o {
                Ok(o) => {
                    objs.insert(op[1].clone(), o);
                    Res::Ok
                }
                Err(r) => r,
            }
        }
        "clone" => {
            let c = match objs.get(&op[1]) {
                Some(Obj::C1(m)) => Obj::C1(m.clone()),
                Some(Obj::C2(m)) => Obj::C2(m.clone()),
                Some(Obj::C3(m)) => Obj::C3(m.clone()),
                Some(Obj::E1(m)) => Obj::E1(m.clone()),
                Some(Obj::E2(m)) => Obj::E2(m.clone()),
                Some(Obj::E3(m)) => Obj::E3(m.clone()),
                None => return Res::Unsupported,
            };
            objs.insert(op[2].clone(), c);
            Res::Ok
        }
        "drop" => {
            objs.remove(&op[1]);
            Res::Ok
        }
        "clonefrom" => {
            let Some(src) = objs.remove(&op[2]) else { return Res::Unsupported };
            let r = match (objs.get_mut(&op[1]), &src) {
                (Some(Obj::C1(d)), Obj::C1(s)) => { d.clone_from(s); Res::Ok }
                (Some(Obj::C2(d)), Obj::C2(s)) => { d.clone_from(s); Res::Ok }
                (Some(Obj::C3(d)), Obj::C3(s)) => { d.clone_from(s); Res::Ok }
                (Some(Obj::E1(d)), Obj::E1(s)) => { d.clone_from(s); Res::Ok }
                (Some(Obj::E2(d)), Obj::E2(s)) => { d.clone_from(s); Res::Ok }
                (Some(Obj::E3(d)), Obj::E3(s)) => { d.clone_from(s); Res::Ok }
                _ => Res::Unsupported,
            };
            objs.insert(op[2].clone(), src);
            r
        }
        "cts_enc" => match objs.get(&op[1]) {
            Some(Obj::C1(m)) => do_enc(m.clone(), &op[2..], rs),
            Some(Obj::C2(m)) => do_enc(m.clone(), &op[2..], rs),
            Some(Obj::C3(m)) => do_enc(m.clone(), &op[2..], rs),
            Some(Obj::E1(m)) => do_enc(m.clone(), &op[2..], rs),
            Some(Obj::E2(m)) => do_enc(m.clone(), &op[2..], rs),
            Some(Obj::E3(m)) => do_enc(m.clone(), &op[2..], rs),
            None => Res::Unsupported,
        },
        "cts_dec" => match objs.get(&op[1]) {
            Some(Obj::C1(m)) => do_dec(m.clone(), &op[2..], rs),
            Some(Obj::C2(m)) => do_dec(m.clone(), &op[2..], rs),
            Some(Obj::C3(m)) => do_dec(m.clone(), &op[2..], rs),
            Some(Obj::E1(m)) => do_dec(m.clone(), &op[2..], rs),
            Some(Obj::E2(m)) => do_dec(m.clone(), &op[2..], rs),
            Some(Obj::E3(m)) => do_dec(m.clone(), &op[2..], rs),
            None => Res::Unsupported,
        },
        _ => Res::Unsupported,
    }
}

macro_rules! dispatch {
    ($case:expr; $( ($bs:literal, $w:literal, $dm:ident, $BS:ident, $PW:ident) ),* $(,)?) => {
        match ($case.bs, $case.w, $case.dm.as_str()) {
            $( ($bs, $w, s) if s == <$dm as DMode>::NAME =>
                 Some(run_case::<Toy<cipher::consts::$BS, cipher::consts::$PW, $dm>>($case)), )*
            _ => None,
        }
    };
}

fn main() {
    silence_panics();
    let path = std::env::args().nth(1).expect("case file");
    let cases = read_cases(&path);
    let stdout = std::io::stdout();
    let mut out = std::io::BufWriter::new(stdout.lock());
    for case in &cases {
        let rs = dispatch!(case;
            (1, 1, Inv, U1, U1), (1, 3, Inv, U1, U3),
            (2, 2, Inv, U2, U2),
            (3, 4, Unrel, U3, U4),
            (5, 3, Inv, U5, U3),
            (8, 1, Inv, U8, U1), (8, 5, Unrel, U8, U5),
            (16, 2, Inv, U16, U2), (16, 8, Inv, U16, U8), (16, 7, Unrel, U16, U7),
            (17, 3, Inv, U17, U3),
            (32, 4, Inv, U32, U4),
            (255, 2, Inv, U255, U2),
        );
        match rs {
            Some(rs) => emit(&mut out, case, &rs),
            None => {
                use std::io::Write;
                writeln!(out, "{} - nocfg", case.name).unwrap()
            }
        }
    }
}
