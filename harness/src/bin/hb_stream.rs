//! Keystream family: the six ctr flavours (cores and byte-level wrappers), ofb (core and wrapper),
//! belt-ctr (core and wrapper).
use bmverif::*;
use cipher::{
    AlgorithmName, Block, BlockCipherDecrypt, BlockCipherEncrypt, BlockSizeUser, InnerIvInit, IvSizeUser,
    IvState, KeyInit, KeyIvInit, StreamCipher, StreamCipherCore, StreamCipherCoreWrapper,
    StreamCipherSeek, StreamCipherSeekCore,
    array::Array,
    consts::U16,
};
use core::fmt::Debug;
use std::collections::HashMap;

/// BeltCtrCore is not Clone; everything else is
trait MaybeClone: Sized {
    fn try_clone(&self) -> Option<Self>;
    fn try_clone_from(&mut self, _src: &Self) -> bool {
        false
    }
}
impl<C: BlockCipherEncrypt + Clone, F: ctr::CtrFlavor<C::BlockSize>> MaybeClone for ctr::CtrCore<C, F> {
    fn try_clone(&self) -> Option<Self> {
        Some(self.clone())
    }
    fn try_clone_from(&mut self, src: &Self) -> bool {
        self.clone_from(src);
        true
    }
}
impl<C: BlockCipherEncrypt + Clone> MaybeClone for ofb::OfbCore<C> {
    fn try_clone(&self) -> Option<Self> {
        Some(self.clone())
    }
    fn try_clone_from(&mut self, src: &Self) -> bool {
        self.clone_from(src);
        true
    }
}
impl<C: BlockCipherEncrypt + BlockSizeUser<BlockSize = U16>> MaybeClone for belt_ctr::BeltCtrCore<C> {
    fn try_clone(&self) -> Option<Self> {
        None
    }
}
fn wrap_try_clone<T: StreamCipherCore + MaybeClone>(_w: &StreamCipherCoreWrapper<T>) -> Option<StreamCipherCoreWrapper<T>>
where
    StreamCipherCoreWrapper<T>: MaybeCloneW,
{
    _w.try_clone_w()
}
trait MaybeCloneW: Sized {
    fn try_clone_w(&self) -> Option<Self>;
    fn try_clone_from_w(&mut self, _src: &Self) -> bool {
        false
    }
}
impl<C: BlockCipherEncrypt + Clone, F: ctr::CtrFlavor<C::BlockSize>> MaybeCloneW for StreamCipherCoreWrapper<ctr::CtrCore<C, F>> {
    fn try_clone_w(&self) -> Option<Self> {
        Some(self.clone())
    }
    fn try_clone_from_w(&mut self, src: &Self) -> bool {
        self.clone_from(src);
        true
    }
}
impl<C: BlockCipherEncrypt + Clone> MaybeCloneW for StreamCipherCoreWrapper<ofb::OfbCore<C>> {
    fn try_clone_w(&self) -> Option<Self> {
        Some(self.clone())
    }
    fn try_clone_from_w(&mut self, src: &Self) -> bool {
        self.clone_from(src);
        true
    }
}
impl<C: BlockCipherEncrypt + BlockSizeUser<BlockSize = U16>> MaybeCloneW for StreamCipherCoreWrapper<belt_ctr::BeltCtrCore<C>> {
    fn try_clone_w(&self) -> Option<Self> {
        None
    }
}

trait CoreObj {
    fn ksblocks(&mut self, n: usize) -> Res;
    fn applyblks(&mut self, a: &[String], rs: &[Res]) -> Res;
    fn applyblk(&mut self, a: &[String], rs: &[Res]) -> Res;
    fn remaining(&self) -> Res;
    fn getpos(&self) -> Res;
    fn setpos(&mut self, p: u128) -> Res;
    fn ivstate(&self) -> Res;
    fn wrap(self: Box<Self>) -> Box<dyn WrapObj>;
    fn clone_box(&self) -> Option<Box<dyn CoreObj>>;
    fn as_any(&self) -> &dyn std::any::Any;
    fn clone_from_dyn(&mut self, src: &dyn std::any::Any) -> Res;
    fn debug(&self) -> String;
    fn algname(&self) -> String;
    fn dropprobe(self: Box<Self>, secrets: &[Vec<u8>]) -> Res;
}
trait WrapObj {
    fn apply(&mut self, a: &[String], rs: &[Res]) -> Res;
    fn seek(&mut self, t: &str, p: &str) -> Res;
    fn pos(&self, t: &str) -> Res;
    fn ivstate(&self) -> Res;
    fn core(&self) -> Option<Box<dyn CoreObj>>;
    fn clone_box(&self) -> Option<Box<dyn WrapObj>>;
    fn as_any(&self) -> &dyn std::any::Any;
    fn clone_from_dyn(&mut self, src: &dyn std::any::Any) -> Res;
    fn debug(&self) -> String;
    fn dropprobe(self: Box<Self>, secrets: &[Vec<u8>]) -> Res;
}

fn to_blocks<T: BlockSizeUser>(d: &[u8]) -> Option<Vec<Block<T>>> {
    let bs = T::block_size();
    if d.len() % bs != 0 {
        return None;
    }
    Some(d.chunks(bs).map(|c| Block::<T>::try_from(c).unwrap()).collect())
}
fn from_blocks<T: BlockSizeUser>(b: &[Block<T>]) -> Vec<u8> {
    b.iter().flat_map(|x| x.iter().copied()).collect()
}

struct NameOf<T>(core::marker::PhantomData<T>);
impl<T: AlgorithmName> core::fmt::Display for NameOf<T> {
    fn fmt(&self, f: &mut core::fmt::Formatter<'_>) -> core::fmt::Result {
        T::write_alg_name(f)
    }
}

// ---- generic core ops ------------------------------------------------------------------------------
fn core_ksblocks<T: StreamCipherCore>(c: &mut T, n: usize) -> Res {
    // the destination is overwritten whatever it held: start from a non-zero pattern
    let mut v = vec![Block::<T>::default(); n];
    for (j, b) in v.iter_mut().enumerate() {
        for (i, x) in b.iter_mut().enumerate() {
            *x = 0xA5u8.wrapping_add((7 * i + 13 * j) as u8);
        }
    }
    c.write_keystream_blocks(&mut v);
    Res::Bytes(from_blocks::<T>(&v))
}
fn core_applyblks<T: StreamCipherCore>(c: &mut T, a: &[String], rs: &[Res]) -> Res {
    let d = data(&a[1], rs);
    let Some(mut blks) = to_blocks::<T>(&d) else { return Res::Unsupported };
    match a[0].as_str() {
        "ip" => {
            c.apply_keystream_blocks(&mut blks);
            Res::Bytes(from_blocks::<T>(&blks))
        }
        "b2b" => {
            let j = data(&a[2], rs);
            let Some(mut out) = to_blocks::<T>(&j) else { return Res::Unsupported };
            let Ok(buf) = cipher::inout::InOutBuf::new(&blks[..], &mut out[..]) else { return Res::Unsupported };
            c.apply_keystream_blocks_inout(buf);
            Res::Bytes(from_blocks::<T>(&out))
        }
        _ => Res::Unsupported,
    }
}
fn core_applyblk<T: StreamCipherCore>(c: &mut T, a: &[String], rs: &[Res]) -> Res {
    let d = data(&a[1], rs);
    let Ok(mut blk) = Block::<T>::try_from(&d[..]) else { return Res::Unsupported };
    match a[0].as_str() {
        "ip" => {
            c.apply_keystream_block_inout((&mut blk).into());
            Res::Bytes(blk.to_vec())
        }
        "b2b" => {
            let j = data(&a[2], rs);
            let Ok(mut out) = Block::<T>::try_from(&j[..]) else { return Res::Unsupported };
            c.apply_keystream_block_inout((&blk, &mut out).into());
            Res::Bytes(out.to_vec())
        }
        _ => Res::Unsupported,
    }
}
fn core_remaining<T: StreamCipherCore>(c: &T) -> Res {
    match c.remaining_blocks() {
        Some(n) => Res::Num(n as u128),
        None => Res::None,
    }
}
fn wrap_apply<W: StreamCipher>(w: &mut W, a: &[String], rs: &[Res]) -> Res {
    let mut d = data(&a[1], rs);
    match a[0].as_str() {
        "ip" => {
            let before = d.clone();
            match w.try_apply_keystream(&mut d) {
                Ok(()) => Res::Bytes(d),
                Err(_) => {
                    if d == before { Res::Err } else { Res::Text("err-but-buffer-modified".into()) }
                }
            }
        }
        "b2b" => {
            let mut out = data(&a[2], rs);
            let before = out.clone();
            match w.apply_keystream_b2b(&d, &mut out) {
                Ok(()) => Res::Bytes(out),
                Err(_) => {
                    if out == before { Res::Err } else { Res::Text("err-but-buffer-modified".into()) }
                }
            }
        }
        _ => Res::Unsupported,
    }
}
fn wrap_seek<W: StreamCipherSeek>(w: &mut W, t: &str, p: &str) -> Res {
    macro_rules! go {
        ($ty:ty) => {
            match p.parse::<$ty>() {
                Ok(v) => match w.try_seek(v) {
                    Ok(()) => Res::Ok,
                    Err(_) => Res::Err,
                },
                Err(_) => Res::Unsupported,
            }
        };
    }
    match t {
        "i32" => go!(i32),
        "u32" => go!(u32),
        "u64" => go!(u64),
        "u128" => go!(u128),
        "usize" => go!(usize),
        _ => Res::Unsupported,
    }
}
fn wrap_pos<W: StreamCipherSeek>(w: &W, t: &str) -> Res {
    macro_rules! go {
        ($ty:ty) => {
            match w.try_current_pos::<$ty>() {
                Ok(v) => Res::Int(v as i128),
                Err(_) => Res::Err,
            }
        };
    }
    match t {
        "i32" => go!(i32),
        "u32" => go!(u32),
        "u64" => go!(u64),
        "u128" => match w.try_current_pos::<u128>() {
            Ok(v) => Res::Num(v),
            Err(_) => Res::Err,
        },
        "usize" => go!(usize),
        _ => Res::Unsupported,
    }
}

// ---- seekable cores (CtrCore, BeltCtrCore) ------------------------------------------------------------
struct SeekCore<T>(T);
struct SeekWrap<T: StreamCipherCore>(StreamCipherCoreWrapper<T>);

impl<T> CoreObj for SeekCore<T>
where
    T: StreamCipherSeekCore + IvState + MaybeClone + Debug + AlgorithmName + 'static,
    T::Counter: TryFrom<u128> + TryInto<u128>,
    StreamCipherCoreWrapper<T>: MaybeCloneW,
{
    fn ksblocks(&mut self, n: usize) -> Res {
        core_ksblocks(&mut self.0, n)
    }
    fn applyblks(&mut self, a: &[String], rs: &[Res]) -> Res {
        core_applyblks(&mut self.0, a, rs)
    }
    fn applyblk(&mut self, a: &[String], rs: &[Res]) -> Res {
        core_applyblk(&mut self.0, a, rs)
    }
    fn remaining(&self) -> Res {
        core_remaining(&self.0)
    }
    fn getpos(&self) -> Res {
        match self.0.get_block_pos().try_into() {
            Ok(v) => Res::Num(v),
            Err(_) => Res::Unsupported,
        }
    }
    fn setpos(&mut self, p: u128) -> Res {
        match <T::Counter as TryFrom<u128>>::try_from(p) {
            Ok(v) => {
                self.0.set_block_pos(v);
                Res::Ok
            }
            Err(_) => Res::Unsupported,
        }
    }
    fn ivstate(&self) -> Res {
        Res::Bytes(self.0.iv_state().to_vec())
    }
    fn wrap(self: Box<Self>) -> Box<dyn WrapObj> {
        Box::new(SeekWrap(StreamCipherCoreWrapper::from_core(self.0)))
    }
    fn clone_box(&self) -> Option<Box<dyn CoreObj>> {
        self.0.try_clone().map(|c| Box::new(SeekCore(c)) as Box<dyn CoreObj>)
    }
    fn as_any(&self) -> &dyn std::any::Any {
        &self.0
    }
    fn clone_from_dyn(&mut self, src: &dyn std::any::Any) -> Res {
        match src.downcast_ref::<T>() {
            Some(s) => if self.0.try_clone_from(s) { Res::Ok } else { Res::Unsupported },
            None => Res::Unsupported,
        }
    }
    fn debug(&self) -> String {
        format!("{:?}", self.0)
    }
    fn dropprobe(self: Box<Self>, secrets: &[Vec<u8>]) -> Res {
        drop_probe(self.0, secrets)
    }
    fn algname(&self) -> String {
        format!("{}", NameOf::<T>(core::marker::PhantomData))
    }
}
impl<T> WrapObj for SeekWrap<T>
where
    T: StreamCipherSeekCore + IvState + MaybeClone + Debug + AlgorithmName + 'static,
    T::Counter: TryFrom<u128> + TryInto<u128>,
    StreamCipherCoreWrapper<T>: MaybeCloneW,
{
    fn apply(&mut self, a: &[String], rs: &[Res]) -> Res {
        wrap_apply(&mut self.0, a, rs)
    }
    fn seek(&mut self, t: &str, p: &str) -> Res {
        wrap_seek(&mut self.0, t, p)
    }
    fn pos(&self, t: &str) -> Res {
        wrap_pos(&self.0, t)
    }
    fn ivstate(&self) -> Res {
        Res::Bytes(self.0.get_core().iv_state().to_vec())
    }
    fn core(&self) -> Option<Box<dyn CoreObj>> {
        self.0.get_core().try_clone().map(|c| Box::new(SeekCore(c)) as Box<dyn CoreObj>)
    }
    fn clone_box(&self) -> Option<Box<dyn WrapObj>> {
        wrap_try_clone(&self.0).map(|w| Box::new(SeekWrap(w)) as Box<dyn WrapObj>)
    }
    fn as_any(&self) -> &dyn std::any::Any {
        &self.0
    }
    fn clone_from_dyn(&mut self, src: &dyn std::any::Any) -> Res {
        match src.downcast_ref::<StreamCipherCoreWrapper<T>>() {
            Some(s) => if self.0.try_clone_from_w(s) { Res::Ok } else { Res::Unsupported },
            None => Res::Unsupported,
        }
    }
    fn debug(&self) -> String {
        format!("{:?}", self.0)
    }
    fn dropprobe(self: Box<Self>, secrets: &[Vec<u8>]) -> Res {
        drop_probe(self.0, secrets)
    }
}

// ---- non-seekable core (OfbCore) -------------------------------------------------------------------------
struct PlainCore<T>(T);
struct PlainWrap<T: StreamCipherCore>(StreamCipherCoreWrapper<T>);

impl<T> CoreObj for PlainCore<T>
where
    T: StreamCipherCore + IvState + MaybeClone + Debug + AlgorithmName + 'static,
    StreamCipherCoreWrapper<T>: MaybeCloneW,
{
    fn ksblocks(&mut self, n: usize) -> Res {
        core_ksblocks(&mut self.0, n)
    }
    fn applyblks(&mut self, a: &[String], rs: &[Res]) -> Res {
        core_applyblks(&mut self.0, a, rs)
    }
    fn applyblk(&mut self, a: &[String], rs: &[Res]) -> Res {
        core_applyblk(&mut self.0, a, rs)
    }
    fn remaining(&self) -> Res {
        core_remaining(&self.0)
    }
    fn getpos(&self) -> Res {
        Res::Unsupported
    }
    fn setpos(&mut self, _p: u128) -> Res {
        Res::Unsupported
    }
    fn ivstate(&self) -> Res {
        Res::Bytes(self.0.iv_state().to_vec())
    }
    fn wrap(self: Box<Self>) -> Box<dyn WrapObj> {
        Box::new(PlainWrap(StreamCipherCoreWrapper::from_core(self.0)))
    }
    fn clone_box(&self) -> Option<Box<dyn CoreObj>> {
        self.0.try_clone().map(|c| Box::new(PlainCore(c)) as Box<dyn CoreObj>)
    }
    fn as_any(&self) -> &dyn std::any::Any {
        &self.0
    }
    fn clone_from_dyn(&mut self, src: &dyn std::any::Any) -> Res {
        match src.downcast_ref::<T>() {
            Some(s) => if self.0.try_clone_from(s) { Res::Ok } else { Res::Unsupported },
            None => Res::Unsupported,
        }
    }
    fn debug(&self) -> String {
        format!("{:?}", self.0)
    }
    fn dropprobe(self: Box<Self>, secrets: &[Vec<u8>]) -> Res {
        drop_probe(self.0, secrets)
    }
    fn algname(&self) -> String {
        format!("{}", NameOf::<T>(core::marker::PhantomData))
    }
}
impl<T> WrapObj for PlainWrap<T>
where
    T: StreamCipherCore + IvState + MaybeClone + Debug + AlgorithmName + 'static,
    StreamCipherCoreWrapper<T>: MaybeCloneW,
{
    fn apply(&mut self, a: &[String], rs: &[Res]) -> Res {
        wrap_apply(&mut self.0, a, rs)
    }
    fn seek(&mut self, _t: &str, _p: &str) -> Res {
        Res::Unsupported
    }
    fn pos(&self, _t: &str) -> Res {
        Res::Unsupported
    }
    fn ivstate(&self) -> Res {
        Res::Bytes(self.0.get_core().iv_state().to_vec())
    }
    fn core(&self) -> Option<Box<dyn CoreObj>> {
        self.0.get_core().try_clone().map(|c| Box::new(PlainCore(c)) as Box<dyn CoreObj>)
    }
    fn clone_box(&self) -> Option<Box<dyn WrapObj>> {
        wrap_try_clone(&self.0).map(|w| Box::new(PlainWrap(w)) as Box<dyn WrapObj>)
    }
    fn as_any(&self) -> &dyn std::any::Any {
        &self.0
    }
    fn clone_from_dyn(&mut self, src: &dyn std::any::Any) -> Res {
        match src.downcast_ref::<StreamCipherCoreWrapper<T>>() {
            Some(s) => if self.0.try_clone_from_w(s) { Res::Ok } else { Res::Unsupported },
            None => Res::Unsupported,
        }
    }
    fn debug(&self) -> String {
        format!("{:?}", self.0)
    }
    fn dropprobe(self: Box<Self>, secrets: &[Vec<u8>]) -> Res {
        drop_probe(self.0, secrets)
    }
}

enum Obj {
    Core(Box<dyn CoreObj>),
    Wrap(Box<dyn WrapObj>),
}

/// build a core of type T the requested way
fn construct<T>(how: &str, key: &[u8], iv: &[u8]) -> Result<T, Res>
where
    T: KeyIvInit + InnerIvInit,
    T::Inner: KeyInit,
{
    match how {
        "slices" => T::new_from_slices(key, iv).map_err(|_| Res::Err),
        "new" => {
            let k = <&cipher::Key<T>>::try_from(key).map_err(|_| Res::Unsupported)?;
            let iv = <&cipher::Iv<T>>::try_from(iv).map_err(|_| Res::Unsupported)?;
            Ok(<T as KeyIvInit>::new(k, iv))
        }
        "inner" => {
            let c = <T::Inner as KeyInit>::new_from_slice(key).map_err(|_| Res::Unsupported)?;
            let iv = <&Array<u8, <T as IvSizeUser>::IvSize>>::try_from(iv).map_err(|_| Res::Unsupported)?;
            Ok(T::inner_iv_init(c, iv))
        }
        _ => Err(Res::Unsupported),
    }
}

fn make_seek<T>(wrap: bool, how: &str, key: &[u8], iv: &[u8]) -> Result<Obj, Res>
where
    T: StreamCipherSeekCore + IvState + MaybeClone + Debug + AlgorithmName + KeyIvInit + InnerIvInit + 'static,
    T::Inner: KeyInit,
    T::Counter: TryFrom<u128> + TryInto<u128>,
    StreamCipherCoreWrapper<T>: KeyIvInit + MaybeCloneW,
{
    if wrap {
        // the byte-level alias is constructed through its own KeyIvInit, not through from_core
        let w: StreamCipherCoreWrapper<T> = match how {
            "slices" => StreamCipherCoreWrapper::<T>::new_from_slices(key, iv).map_err(|_| Res::Err)?,
            "new" => {
                let k = <&cipher::Key<StreamCipherCoreWrapper<T>>>::try_from(key).map_err(|_| Res::Unsupported)?;
                let iv = <&cipher::Iv<StreamCipherCoreWrapper<T>>>::try_from(iv).map_err(|_| Res::Unsupported)?;
                <StreamCipherCoreWrapper<T> as KeyIvInit>::new(k, iv)
            }
            _ => StreamCipherCoreWrapper::from_core(construct::<T>(how, key, iv)?),
        };
        Ok(Obj::Wrap(Box::new(SeekWrap(w))))
    } else {
        Ok(Obj::Core(Box::new(SeekCore(construct::<T>(how, key, iv)?))))
    }
}
fn make_plain<T>(wrap: bool, how: &str, key: &[u8], iv: &[u8]) -> Result<Obj, Res>
where
    T: StreamCipherCore + IvState + MaybeClone + Debug + AlgorithmName + KeyIvInit + InnerIvInit + 'static,
    T::Inner: KeyInit,
    StreamCipherCoreWrapper<T>: KeyIvInit + MaybeCloneW,
{
    if wrap {
        let w: StreamCipherCoreWrapper<T> = match how {
            "slices" => StreamCipherCoreWrapper::<T>::new_from_slices(key, iv).map_err(|_| Res::Err)?,
            "new" => {
                let k = <&cipher::Key<StreamCipherCoreWrapper<T>>>::try_from(key).map_err(|_| Res::Unsupported)?;
                let iv = <&cipher::Iv<StreamCipherCoreWrapper<T>>>::try_from(iv).map_err(|_| Res::Unsupported)?;
                <StreamCipherCoreWrapper<T> as KeyIvInit>::new(k, iv)
            }
            _ => StreamCipherCoreWrapper::from_core(construct::<T>(how, key, iv)?),
        };
        Ok(Obj::Wrap(Box::new(PlainWrap(w))))
    } else {
        Ok(Obj::Core(Box::new(PlainCore(construct::<T>(how, key, iv)?))))
    }
}

type Factory = fn(&str, &str, &[u8], &[u8]) -> Result<Obj, Res>;

fn split_kind(kind: &str) -> (&str, bool) {
    match kind.strip_suffix("_core") {
        Some(k) => (k, false),
        None => (kind, true),
    }
}

// factories per block-size class (which counter widths divide the block size)
fn fac_ofb_only<C>(kind: &str, how: &str, key: &[u8], iv: &[u8]) -> Result<Obj, Res>
where
    C: BlockCipherEncrypt + BlockCipherDecrypt + Clone + KeyInit + AlgorithmName + 'static,
{
    let (k, wrap) = split_kind(kind);
    match k {
        "ofb" => make_plain::<ofb::OfbCore<C>>(wrap, how, key, iv),
        _ => Err(Res::Unsupported),
    }
}
macro_rules! fac_ctr {
    ($name:ident; $( $k:literal => $F:ident ),* ; $($belt:literal)?) => {
        fn $name<C>(kind: &str, how: &str, key: &[u8], iv: &[u8]) -> Result<Obj, Res>
        where
            C: BlockCipherEncrypt + BlockCipherDecrypt + Clone + KeyInit + AlgorithmName + 'static,
            $( ctr::flavors::$F: ctr::CtrFlavor<C::BlockSize>, )*
            $( <ctr::flavors::$F as ctr::CtrFlavor<C::BlockSize>>::Backend: TryFrom<u128> + TryInto<u128>, )*
        {
            let (k, wrap) = split_kind(kind);
            match k {
                "ofb" => make_plain::<ofb::OfbCore<C>>(wrap, how, key, iv),
                $( $k => make_seek::<ctr::CtrCore<C, ctr::flavors::$F>>(wrap, how, key, iv), )*
                _ => Err(Res::Unsupported),
            }
        }
    };
}
fac_ctr!(fac_4; "ctr32be" => Ctr32BE, "ctr32le" => Ctr32LE;);
fac_ctr!(fac_8; "ctr32be" => Ctr32BE, "ctr32le" => Ctr32LE, "ctr64be" => Ctr64BE, "ctr64le" => Ctr64LE;);
fac_ctr!(fac_16; "ctr32be" => Ctr32BE, "ctr32le" => Ctr32LE, "ctr64be" => Ctr64BE, "ctr64le" => Ctr64LE,
         "ctr128be" => Ctr128BE, "ctr128le" => Ctr128LE;);

fn fac_16_belt<C>(kind: &str, how: &str, key: &[u8], iv: &[u8]) -> Result<Obj, Res>
where
    C: BlockCipherEncrypt + BlockCipherDecrypt + BlockSizeUser<BlockSize = U16> + Clone + KeyInit + AlgorithmName + 'static,
{
    let (k, wrap) = split_kind(kind);
    match k {
        "belt" => make_seek::<belt_ctr::BeltCtrCore<C>>(wrap, how, key, iv),
        _ => fac_16::<C>(kind, how, key, iv),
    }
}

fn run_case(case: &Case, fac: Factory) -> Vec<Res> {
    let mut objs: HashMap<String, Obj> = HashMap::new();
    let mut rs: Vec<Res> = Vec::new();
    for op in &case.ops {
        let r = guard(|| step(&mut objs, op, &rs, fac));
        rs.push(r);
    }
    rs
}

fn step(objs: &mut HashMap<String, Obj>, op: &[String], rs: &[Res], fac: Factory) -> Res {
    if let Some(r) = pure_op(op, rs) {
        return r;
    }
    match op[0].as_str() {
        "new" => {
            let key = data(&op[4], rs);
            let iv = data(&op[5], rs);
            match fac(&op[2], &op[3], &key, &iv) {
                Ok(o) => {
                    objs.insert(op[1].clone(), o);
                    Res::Ok
                }
                Err(r) => r,
            }
        }
        "clone" => {
            let c = match objs.get(&op[1]) {
                Some(Obj::Core(c)) => match c.clone_box() {
                    Some(c) => Obj::Core(c),
                    None => return Res::Unsupported,
                },
                Some(Obj::Wrap(w)) => match w.clone_box() {
                    Some(w) => Obj::Wrap(w),
                    None => return Res::Unsupported,
                },
                None => return Res::Unsupported,
            };
            objs.insert(op[2].clone(), c);
            Res::Ok
        }
        "drop" => {
            objs.remove(&op[1]);
            Res::Ok
        }
        "clonefrom" => {
            let Some(src) = objs.remove(&op[2]) else { return Res::Unsupported };
            let r = match (objs.get_mut(&op[1]), &src) {
                (Some(Obj::Core(d)), Obj::Core(s)) => d.clone_from_dyn(s.as_any()),
                (Some(Obj::Wrap(d)), Obj::Wrap(s)) => d.clone_from_dyn(s.as_any()),
                _ => Res::Unsupported,
            };
            objs.insert(op[2].clone(), src);
            r
        }
        "wrap" => {
            // from_core consumes the core object
            match objs.remove(&op[1]) {
                Some(Obj::Core(c)) => {
                    objs.insert(op[2].clone(), Obj::Wrap(c.wrap()));
                    Res::Ok
                }
                Some(o) => {
                    objs.insert(op[1].clone(), o);
                    Res::Unsupported
                }
                None => Res::Unsupported,
            }
        }
        "core" => {
            let Some(Obj::Wrap(w)) = objs.get(&op[1]) else { return Res::Unsupported };
            let Some(c) = w.core() else { return Res::Unsupported };
            objs.insert(op[2].clone(), Obj::Core(c));
            Res::Ok
        }
        "apply" => match objs.get_mut(&op[1]) {
            Some(Obj::Wrap(w)) => w.apply(&op[2..], rs),
            _ => Res::Unsupported,
        },
        "seek" => match objs.get_mut(&op[1]) {
            Some(Obj::Wrap(w)) => w.seek(&op[2], &op[3]),
            _ => Res::Unsupported,
        },
        "pos" => match objs.get(&op[1]) {
            Some(Obj::Wrap(w)) => w.pos(&op[2]),
            _ => Res::Unsupported,
        },
        "ivstate" => match objs.get(&op[1]) {
            Some(Obj::Wrap(w)) => w.ivstate(),
            Some(Obj::Core(c)) => c.ivstate(),
            None => Res::Unsupported,
        },
        "ksblocks" => match objs.get_mut(&op[1]) {
            Some(Obj::Core(c)) => c.ksblocks(op[2].parse().unwrap()),
            _ => Res::Unsupported,
        },
        "applyblks" => match objs.get_mut(&op[1]) {
            Some(Obj::Core(c)) => c.applyblks(&op[2..], rs),
            _ => Res::Unsupported,
        },
        "applyblk" => match objs.get_mut(&op[1]) {
            Some(Obj::Core(c)) => c.applyblk(&op[2..], rs),
            _ => Res::Unsupported,
        },
        "remaining" => match objs.get(&op[1]) {
            Some(Obj::Core(c)) => c.remaining(),
            _ => Res::Unsupported,
        },
        "getpos" => match objs.get(&op[1]) {
            Some(Obj::Core(c)) => c.getpos(),
            _ => Res::Unsupported,
        },
        "setpos" => match objs.get_mut(&op[1]) {
            Some(Obj::Core(c)) => c.setpos(op[2].parse().unwrap()),
            _ => Res::Unsupported,
        },
        "dropprobe" => {
            let secrets: Vec<Vec<u8>> = op[2..].iter().map(|t| data(t, rs)).collect();
            match objs.remove(&op[1]) {
                Some(Obj::Core(c)) => c.dropprobe(&secrets),
                Some(Obj::Wrap(w)) => w.dropprobe(&secrets),
                None => Res::Unsupported,
            }
        }
        "debug" => match objs.get(&op[1]) {
            Some(Obj::Core(c)) => Res::Text(c.debug()),
            Some(Obj::Wrap(w)) => Res::Text(w.debug()),
            None => Res::Unsupported,
        },
        "algname" => match objs.get(&op[1]) {
            Some(Obj::Core(c)) => Res::Text(c.algname()),
            _ => Res::Unsupported,
        },
        _ => Res::Unsupported,
    }
}

macro_rules! dispatch {
    ($case:expr; $( ($bs:literal, $w:literal, $dm:ident, $BS:ident, $PW:ident, $fac:ident) ),* $(,)?) => {
        match ($case.bs, $case.w, $case.dm.as_str()) {
            $( ($bs, $w, s) if s == <$dm as DMode>::NAME =>
                 Some(run_case($case, $fac::<Toy<cipher::consts::$BS, cipher::consts::$PW, $dm>>)), )*
            _ => None,
        }
    };
}

fn main() {
    silence_panics();
    let path = std::env::args().nth(1).expect("case file");
    let cases = read_cases(&path);
    let stdout = std::io::stdout();
    let mut out = std::io::BufWriter::new(stdout.lock());
    for case in &cases {
        let rs = dispatch!(case;
            (1, 2, Inv, U1, U2, fac_ofb_only), (5, 3, Unrel, U5, U3, fac_ofb_only),
            (4, 3, Inv, U4, U3, fac_4), (12, 2, Unrel, U12, U2, fac_4),
            (8, 1, Inv, U8, U1, fac_8), (8, 4, Unrel, U8, U4, fac_8), (24, 3, Inv, U24, U3, fac_8),
            (16, 1, Inv, U16, U1, fac_16_belt), (16, 2, Unrel, U16, U2, fac_16_belt), (16, 3, Inv, U16, U3, fac_16_belt),
            (16, 5, Inv, U16, U5, fac_16_belt), (16, 8, Inv, U16, U8, fac_16_belt),
            (32, 4, Inv, U32, U4, fac_16), (48, 2, Unrel, U48, U2, fac_16),
        );
        match rs {
            Some(rs) => emit(&mut out, case, &rs),
            None => {
                use std::io::Write;
                writeln!(out, "{} - nocfg", case.name).unwrap()
            }
        }
    }
}
