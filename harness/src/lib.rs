//! Harness library: toy block ciphers (the same definitions as `coq/Toy.v`), the case-file
//! protocol, result printing.  Everything in /repo is driven through its public API only.
#![allow(clippy::needless_range_loop)]

use cipher::{
    AlgorithmName, Block, BlockCipherDecBackend, BlockCipherDecClosure, BlockCipherDecrypt,
    BlockCipherEncBackend, BlockCipherEncClosure, BlockCipherEncrypt, BlockSizeUser, InOut, Key,
    KeyInit, KeySizeUser, ParBlocks, ParBlocksSizeUser,
    array::ArraySize,
    consts::U8,
    crypto_common::BlockSizes,
};
use core::fmt;
use core::marker::PhantomData;
use std::io::{BufRead, Write};

// ------------------------------------------------------------------------------------------------
// Toy cipher family.  E_k(x)[i] = rotl3(((x[(i+1) mod n] ^ k[i mod 8]) + 7i + 13) mod 256).
// DM = Inv:   D = E^-1.        DM = Unrel: D(y)[i] = ((y[i] ^ k[i mod 8]) + 3i + 1) mod 256.
// ------------------------------------------------------------------------------------------------

pub trait DMode: 'static {
    const INVERSE: bool;
    const NAME: &'static str;
}
#[derive(Clone, Copy)]
pub struct Inv;
#[derive(Clone, Copy)]
pub struct Unrel;
impl DMode for Inv {
    const INVERSE: bool = true;
    const NAME: &'static str = "inv";
}
impl DMode for Unrel {
    const INVERSE: bool = false;
    const NAME: &'static str = "unrel";
}

pub struct Toy<BS, PW, DM> {
    k: [u8; 8],
    _p: PhantomData<(BS, PW, DM)>,
}

impl<BS, PW, DM> Clone for Toy<BS, PW, DM> {
    fn clone(&self) -> Self {
        Self { k: self.k, _p: PhantomData }
    }
}

pub fn toy_e(k: &[u8; 8], x: &[u8], y: &mut [u8]) {
    let n = x.len();
    for i in 0..n {
        let v = (x[(i + 1) % n] ^ k[i % 8]).wrapping_add((7 * i + 13) as u8);
        y[i] = v.rotate_left(3);
    }
}

pub fn toy_d_inv(k: &[u8; 8], y: &[u8], x: &mut [u8]) {
    let n = y.len();
    for i in 0..n {
        let v = y[i].rotate_right(3).wrapping_sub((7 * i + 13) as u8) ^ k[i % 8];
        x[(i + 1) % n] = v;
    }
}

pub fn toy_d_unrel(k: &[u8; 8], y: &[u8], x: &mut [u8]) {
    let n = y.len();
    for i in 0..n {
        x[i] = (y[i] ^ k[i % 8]).wrapping_add((3 * i + 1) as u8);
    }
}

impl<BS: BlockSizes, PW: ArraySize, DM: DMode> Toy<BS, PW, DM> {
    pub fn e(&self, x: &Block<Self>) -> Block<Self> {
        let mut y = Block::<Self>::default();
        toy_e(&self.k, x, &mut y);
        y
    }
    pub fn d(&self, y: &Block<Self>) -> Block<Self> {
        let mut x = Block::<Self>::default();
        if DM::INVERSE {
            toy_d_inv(&self.k, y, &mut x);
        } else {
            toy_d_unrel(&self.k, y, &mut x);
        }
        x
    }
}

impl<BS: BlockSizes, PW: ArraySize, DM: DMode> BlockSizeUser for Toy<BS, PW, DM> {
    type BlockSize = BS;
}
impl<BS: BlockSizes, PW: ArraySize, DM: DMode> KeySizeUser for Toy<BS, PW, DM> {
    type KeySize = U8;
}
impl<BS: BlockSizes, PW: ArraySize, DM: DMode> KeyInit for Toy<BS, PW, DM> {
    fn new(key: &Key<Self>) -> Self {
        let mut k = [0u8; 8];
        k.copy_from_slice(key);
        Self { k, _p: PhantomData }
    }
}
impl<BS: BlockSizes, PW: ArraySize, DM: DMode> AlgorithmName for Toy<BS, PW, DM> {
    fn write_alg_name(f: &mut fmt::Formatter<'_>) -> fmt::Result {
        f.write_str("Toy")
    }
}
impl<BS: BlockSizes, PW: ArraySize, DM: DMode> fmt::Debug for Toy<BS, PW, DM> {
    fn fmt(&self, f: &mut fmt::Formatter<'_>) -> fmt::Result {
        f.write_str("Toy { ... }")
    }
}
impl<BS, PW, DM> Drop for Toy<BS, PW, DM> {
    fn drop(&mut self) {
        // volatile so that the C17 probe does not find key-derived bytes it did not ask about
        for b in self.k.iter_mut() {
            unsafe { core::ptr::write_volatile(b, 0) };
        }
    }
}
impl<BS, PW, DM> cipher::zeroize::ZeroizeOnDrop for Toy<BS, PW, DM> {}

pub struct ToyBackend<'a, BS, PW, DM>(&'a Toy<BS, PW, DM>);

impl<BS: BlockSizes, PW: ArraySize, DM: DMode> BlockSizeUser for ToyBackend<'_, BS, PW, DM> {
    type BlockSize = BS;
}
impl<BS: BlockSizes, PW: ArraySize, DM: DMode> ParBlocksSizeUser for ToyBackend<'_, BS, PW, DM> {
    type ParBlocksSize = PW;
}

impl<BS: BlockSizes, PW: ArraySize, DM: DMode> BlockCipherEncBackend for ToyBackend<'_, BS, PW, DM> {
    #[inline]
    fn encrypt_block(&self, mut block: InOut<'_, '_, Block<Self>>) {
        let x = block.clone_in();
        *block.get_out() = self.0.e(&x);
    }
    // genuinely parallel: all inputs are read before any output is written
    #[inline]
    fn encrypt_par_blocks(&self, mut blocks: InOut<'_, '_, ParBlocks<Self>>) {
        let inp = blocks.clone_in();
        let mut out = ParBlocks::<Self>::default();
        for i in 0..PW::USIZE {
            out[i] = self.0.e(&inp[i]);
        }
        *blocks.get_out() = out;
    }
}

impl<BS: BlockSizes, PW: ArraySize, DM: DMode> BlockCipherDecBackend for ToyBackend<'_, BS, PW, DM> {
    #[inline]
    fn decrypt_block(&self, mut block: InOut<'_, '_, Block<Self>>) {
        let x = block.clone_in();
        *block.get_out() = self.0.d(&x);
    }
    #[inline]
    fn decrypt_par_blocks(&self, mut blocks: InOut<'_, '_, ParBlocks<Self>>) {
        let inp = blocks.clone_in();
        let mut out = ParBlocks::<Self>::default();
        for i in 0..PW::USIZE {
            out[i] = self.0.d(&inp[i]);
        }
        *blocks.get_out() = out;
    }
}

impl<BS: BlockSizes, PW: ArraySize, DM: DMode> BlockCipherEncrypt for Toy<BS, PW, DM> {
    fn encrypt_with_backend(&self, f: impl BlockCipherEncClosure<BlockSize = BS>) {
        f.call(&ToyBackend(self))
    }
}
impl<BS: BlockSizes, PW: ArraySize, DM: DMode> BlockCipherDecrypt for Toy<BS, PW, DM> {
    fn decrypt_with_backend(&self, f: impl BlockCipherDecClosure<BlockSize = BS>) {
        f.call(&ToyBackend(self))
    }
}

// ------------------------------------------------------------------------------------------------
// Protocol
// ------------------------------------------------------------------------------------------------

#[derive(Clone, Debug, PartialEq)]
pub enum Res {
    Bytes(Vec<u8>),
    Err,
    Panic,
    Ok,
    Num(u128),
    Int(i128),
    None,
    State(Vec<u8>, usize),
    Text(String),
    Probe(usize, usize, usize),
    Unsupported,
}

impl Res {
    pub fn bytes(&self) -> Vec<u8> {
        match self {
            Res::Bytes(b) => b.clone(),
            Res::State(b, _) => b.clone(),
            _ => Vec::new(),
        }
    }
}

impl fmt::Display for Res {
    fn fmt(&self, f: &mut fmt::Formatter<'_>) -> fmt::Result {
        match self {
            Res::Bytes(b) => write!(f, "bytes {}", hex(b)),
            Res::Err => f.write_str("err"),
            Res::Panic => f.write_str("panic"),
            Res::Ok => f.write_str("ok"),
            Res::Num(n) => write!(f, "num {}", n),
            Res::Int(n) => write!(f, "num {}", n),
            Res::None => f.write_str("none"),
            Res::State(b, p) => write!(f, "state {} {}", hex(b), p),
            Res::Text(s) => write!(f, "text {}", hex(s.as_bytes())),
            Res::Probe(b, a, n) => write!(f, "probe {} {} {}", b, a, n),
            Res::Unsupported => f.write_str("unsupported"),
        }
    }
}

pub fn hex(b: &[u8]) -> String {
    if b.is_empty() {
        return "-".to_string();
    }
    let mut s = String::with_capacity(b.len() * 2);
    for x in b {
        s.push_str(&format!("{:02x}", x));
    }
    s
}

pub fn unhex(s: &str) -> Vec<u8> {
    if s == "-" || s.is_empty() {
        return Vec::new();
    }
    let b = s.as_bytes();
    assert!(b.len() % 2 == 0, "odd hex {}", s);
    (0..b.len() / 2)
        .map(|i| u8::from_str_radix(&s[2 * i..2 * i + 2], 16).expect("hex"))
        .collect()
}

pub struct Case {
    pub name: String,
    pub bs: usize,
    pub w: usize,
    pub dm: String,
    pub ops: Vec<Vec<String>>,
}

/// `=<hex>` literal, `@<k>` bytes of result k
pub fn data(tok: &str, results: &[Res]) -> Vec<u8> {
    if let Some(h) = tok.strip_prefix('=') {
        unhex(h)
    } else if let Some(k) = tok.strip_prefix('@') {
        let k: usize = k.parse().expect("ref");
        results[k].bytes()
    } else {
        panic!("bad data token {}", tok)
    }
}

/// ops that only move bytes between results (same on both sides of the correspondence)
pub fn pure_op(op: &[String], rs: &[Res]) -> Option<Res> {
    match op[0].as_str() {
        "cat" => {
            let mut v = Vec::new();
            for t in &op[1..] {
                v.extend_from_slice(&data(t, rs));
            }
            Some(Res::Bytes(v))
        }
        "sub" => {
            let d = data(&op[1], rs);
            let off: usize = op[2].parse().unwrap();
            let len: usize = op[3].parse().unwrap();
            if off + len > d.len() {
                return Some(Res::Unsupported);
            }
            Some(Res::Bytes(d[off..off + len].to_vec()))
        }
        _ => None,
    }
}

/// C17 drop probe: move `obj` into raw storage, look for each secret (any 8-byte window of it, or the
/// whole secret when shorter) in the object's bytes, run its destructor in place, look again.
/// Result: `probe <secrets present before> <secrets present after> <object size>`.
pub fn drop_probe<T>(obj: T, secrets: &[Vec<u8>]) -> Res {
    use core::mem::{MaybeUninit, size_of};
    let mut slot = MaybeUninit::<T>::new(obj);
    let n = size_of::<T>();
    let p = slot.as_mut_ptr() as *const u8;
    let snap = |p: *const u8| -> Vec<u8> { (0..n).map(|i| unsafe { core::ptr::read_volatile(p.add(i)) }).collect() };
    let present = |mem: &[u8]| -> usize {
        secrets
            .iter()
            .filter(|s| {
                let win = s.len().min(8);
                win >= 4 && s.windows(win).any(|w| mem.windows(win).any(|m| m == w))
            })
            .count()
    };
    let before = snap(p);
    unsafe { core::ptr::drop_in_place(slot.as_mut_ptr()) };
    let after = snap(p);
    Res::Probe(present(&before), present(&after), n)
}

pub fn read_cases(path: &str) -> Vec<Case> {
    let f = std::fs::File::open(path).expect("open case file");
    let mut cases = Vec::new();
    let mut cur: Option<Case> = None;
    for line in std::io::BufReader::new(f).lines() {
        let line = line.expect("read");
        let toks: Vec<String> = line.split_whitespace().map(|s| s.to_string()).collect();
        if toks.is_empty() || toks[0].starts_with('#') {
            continue;
        }
        match toks[0].as_str() {
            "case" => {
                cur = Some(Case {
                    name: toks[1].clone(),
                    bs: toks[2].parse().unwrap(),
                    w: toks[3].parse().unwrap(),
                    dm: toks[4].clone(),
                    ops: Vec::new(),
                });
            }
            "end" => cases.push(cur.take().expect("end without case")),
            _ => cur.as_mut().expect("op outside case").ops.push(toks),
        }
    }
    cases
}

pub fn silence_panics() {
    std::panic::set_hook(Box::new(|_| {}));
}

pub fn guard<F: FnOnce() -> Res>(f: F) -> Res {
    match std::panic::catch_unwind(std::panic::AssertUnwindSafe(f)) {
        Ok(r) => r,
        Err(_) => Res::Panic,
    }
}

pub fn emit(out: &mut impl Write, case: &Case, results: &[Res]) {
    for (i, r) in results.iter().enumerate() {
        writeln!(out, "{} {} {}", case.name, i, r).unwrap();
    }
}

pub fn key8(k: &[u8]) -> Option<[u8; 8]> {
    if k.len() == 8 {
        let mut a = [0u8; 8];
        a.copy_from_slice(k);
        Some(a)
    } else {
        None
    }
}
