(* RoundTrip_proofs.v -- C01 at the level of the model: decrypting, under any schedule, what the
   model encrypted under any other schedule gives back the input cells' logical content. *)
From BM Require Import BlockModes Spec BlockModes_proofs Spec_proofs.

Lemma spec_len_cout cs vs : length vs = length cs -> map cout (map2 wr_out cs vs) = vs.
Proof. intros H. apply map_cout_map2_wr_out. auto. Qed.

Lemma cfb_enc_st_length E s ps : length (cfb_enc_st E s ps) = length ps.
Proof. revert s; induction ps as [|p ps IH]; intros s; simpl; auto. Qed.
Lemma cfb_dec_st_length E s cs : length (cfb_dec_st E s cs) = length cs.
Proof. revert s; induction cs as [|c cs IH]; intros s; simpl; auto. Qed.
Lemma pcbc_enc_spec_length E s ps : length (pcbc_enc_spec E s ps) = length ps.
Proof. revert s; induction ps as [|p ps IH]; intros s; simpl; auto. Qed.
Lemma pcbc_dec_spec_length D s cs : length (pcbc_dec_spec D s cs) = length cs.
Proof. revert s; induction cs as [|c cs IH]; intros s; simpl; auto. Qed.
Lemma ige_enc_spec_length E a b ps : length (ige_enc_spec E a b ps) = length ps.
Proof. revert a b; induction ps as [|p ps IH]; intros a b; simpl; auto. Qed.
Lemma ige_dec_spec_length D a b cs : length (ige_dec_spec D a b cs) = length cs.
Proof. revert a b; induction cs as [|c cs IH]; intros a b; simpl; auto. Qed.
Lemma ofb_spec_length E s ps : length (ofb_spec E s ps) = length ps.
Proof. revert s; induction ps as [|p ps IH]; intros s; simpl; auto. Qed.
Lemma cfb8_enc_bspec_length E s ps : length (cfb8_enc_bspec E s ps) = length ps.
Proof. revert s; induction ps as [|p ps IH]; intros s; simpl; auto. Qed.
Lemma cfb8_dec_bspec_length E s ps : length (cfb8_dec_bspec E s ps) = length ps.
Proof. revert s; induction ps as [|p ps IH]; intros s; simpl; auto. Qed.

Section RT.
  Variable C : cipher.
  Let bs := c_bs C.
  Let E := c_E C.
  Let D := c_D C.
  Hypothesis Cwf : cipher_wf C.

  Let E_len : forall x, length x = bs -> length (E x) = bs.
  Proof. destruct Cwf as (_ & _ & H & _). exact H. Qed.
  Let D_len : forall x, length x = bs -> length (D x) = bs.
  Proof. destruct Cwf as (_ & _ & _ & H). exact H. Qed.

  Theorem cbc_model_roundtrip : DE_id C -> forall sched1 sched2 iv cs cs2,
    length iv = bs -> all_len bs (map rd_in cs) ->
    sched_total sched1 = length cs -> sched_total sched2 = length cs2 ->
    map rd_in cs2 = map cout (snd (run_sched (cbc_enc_block C) cbc_enc_w (cbc_enc_par C) iv sched1 cs)) ->
    map cout (snd (run_sched (cbc_dec_block C) (cbc_dec_w C) (cbc_dec_par C) iv sched2 cs2)) = map rd_in cs.
  Proof.
    intros DE sched1 sched2 iv cs cs2 Hiv Hall H1 H2 Hct.
    rewrite cbc_enc_sched in Hct by auto. cbn [snd] in Hct.
    rewrite spec_len_cout in Hct by (rewrite cbc_enc_spec_length, map_length; auto).
    rewrite cbc_dec_sched by auto. cbn [snd].
    rewrite spec_len_cout by (rewrite cbc_dec_spec_length, map_length; auto).
    rewrite Hct. apply cbc_roundtrip with (bs := bs); auto.
  Qed.

  Theorem pcbc_model_roundtrip : DE_id C -> forall sched1 sched2 iv cs cs2,
    length iv = bs -> all_len bs (map rd_in cs) ->
    sched_total sched1 = length cs -> sched_total sched2 = length cs2 ->
    map rd_in cs2 = map cout (snd (run_sched (pcbc_enc_block C) pcbc_enc_w (pcbc_enc_par C) iv sched1 cs)) ->
    map cout (snd (run_sched (pcbc_dec_block C) pcbc_dec_w (pcbc_dec_par C) iv sched2 cs2)) = map rd_in cs.
  Proof.
    intros DE sched1 sched2 iv cs cs2 Hiv Hall H1 H2 Hct.
    rewrite pcbc_enc_sched in Hct by auto. cbn [snd] in Hct.
    rewrite spec_len_cout in Hct by (rewrite pcbc_enc_spec_length, map_length; auto).
    rewrite pcbc_dec_sched by auto. cbn [snd].
    rewrite spec_len_cout by (rewrite pcbc_dec_spec_length, map_length; auto).
    rewrite Hct. apply pcbc_roundtrip with (bs := bs); auto.
  Qed.

  Theorem ige_model_roundtrip : DE_id C -> forall sched1 sched2 x y cs cs2,
    length x = bs -> length y = bs -> all_len bs (map rd_in cs) ->
    sched_total sched1 = length cs -> sched_total sched2 = length cs2 ->
    map rd_in cs2 = map cout (snd (run_sched (ige_enc_block C) ige_enc_w (ige_enc_par C) (x, y) sched1 cs)) ->
    map cout (snd (run_sched (ige_dec_block C) ige_dec_w (ige_dec_par C) (x, y) sched2 cs2)) = map rd_in cs.
  Proof.
    intros DE sched1 sched2 x y cs cs2 Hx Hy Hall H1 H2 Hct.
    rewrite ige_enc_sched in Hct by auto. cbn [snd] in Hct.
    rewrite spec_len_cout in Hct by (rewrite ige_enc_spec_length, map_length; auto).
    rewrite ige_dec_sched by auto. cbn [snd].
    rewrite spec_len_cout by (rewrite ige_dec_spec_length, map_length; auto).
    rewrite Hct. apply ige_roundtrip with (bs := bs); auto.
  Qed.

  (* CFB: same initial stored state s = E(IV) on both sides; no relation between D and E needed *)
  Theorem cfb_model_roundtrip : forall sched1 sched2 iv cs cs2,
    length iv = bs -> all_len bs (map rd_in cs) ->
    sched_total sched1 = length cs -> sched_total sched2 = length cs2 ->
    map rd_in cs2 = map cout (snd (run_sched (cfb_enc_block C) cfb_enc_w (cfb_enc_par C) (cfb_init C iv) sched1 cs)) ->
    map cout (snd (run_sched (cfb_dec_block C) (cfb_dec_w C) (cfb_dec_par C) (cfb_init C iv) sched2 cs2)) = map rd_in cs.
  Proof.
    intros sched1 sched2 iv cs cs2 Hiv Hall H1 H2 Hct. unfold cfb_init in *.
    rewrite cfb_enc_sched in Hct by auto. cbn [snd] in Hct.
    rewrite spec_len_cout in Hct by (rewrite cfb_enc_st_length, map_length; auto).
    rewrite cfb_dec_sched by auto. cbn [snd].
    rewrite spec_len_cout by (rewrite cfb_dec_st_length, map_length; auto).
    rewrite Hct. fold E. rewrite <- cfb_enc_spec_st, <- cfb_dec_spec_st. apply cfb_roundtrip with (bs := bs); auto.
  Qed.

  Theorem ofb_model_roundtrip : forall sched1 sched2 iv cs cs2,
    length iv = bs -> all_len bs (map rd_in cs) ->
    sched_total sched1 = length cs -> sched_total sched2 = length cs2 ->
    map rd_in cs2 = map cout (snd (run_sched (ofb_enc_block C) ofb_w (ofb_enc_par C) iv sched1 cs)) ->
    map cout (snd (run_sched (ofb_dec_block C) ofb_w (ofb_dec_par C) iv sched2 cs2)) = map rd_in cs.
  Proof.
    intros sched1 sched2 iv cs cs2 Hiv Hall H1 H2 Hct.
    rewrite ofb_enc_sched in Hct by auto. cbn [snd] in Hct.
    rewrite spec_len_cout in Hct by (rewrite ofb_spec_length, map_length; auto).
    rewrite ofb_dec_sched by auto. cbn [snd].
    rewrite spec_len_cout by (rewrite ofb_spec_length, map_length; auto).
    rewrite Hct. apply ofb_involutive with (bs := bs); auto.
  Qed.

  (* CFB-8 over one-byte cells *)
  Theorem cfb8_model_roundtrip : 0 < bs -> forall sched1 sched2 s bytes cs cs2,
    length s = bs -> map rd_in cs = singles bytes ->
    sched_total sched1 = length cs -> sched_total sched2 = length cs2 ->
    map rd_in cs2 = map cout (snd (run_sched (cfb8_enc_block C) cfb8_enc_w (cfb8_enc_par C) s sched1 cs)) ->
    map cout (snd (run_sched (cfb8_dec_block C) cfb8_dec_w (cfb8_dec_par C) s sched2 cs2)) = map rd_in cs.
  Proof.
    intros Hbs sched1 sched2 s bytes cs cs2 Hs Hin H1 H2 Hct.
    rewrite cfb8_enc_sched in Hct by auto. cbn [snd] in Hct.
    rewrite spec_len_cout in Hct by (rewrite cfb8_enc_bspec_length, map_length; auto).
    rewrite cfb8_dec_sched by auto. cbn [snd].
    rewrite spec_len_cout by (rewrite cfb8_dec_bspec_length, map_length; auto).
    rewrite Hct, Hin. unfold E in *.
    rewrite cfb8_enc_bytes, cfb8_dec_bytes by auto. now rewrite cfb8_roundtrip.
  Qed.

  (* every unpadded block operation produces exactly as many blocks as it was given *)
  Theorem model_lengths (S : Type) (single : S -> cell -> S * cell) w par st sched cs :
    (forall st ch, length ch = w -> par st ch = fold_cells single st ch) -> sched_total sched = length cs ->
    length (snd (run_sched single w par st sched cs)) = length cs.
  Proof. intros Hp H. rewrite run_sched_fold by auto. apply fold_cells_length. Qed.
End RT.
