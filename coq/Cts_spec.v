(* Cts_spec.v -- NIST SP 800-38A Addendum: CBC-CS1/CS2/CS3, and the analogous ECB layouts, on a
   message given as its whole blocks followed by the bytes of a partial final block (possibly none). *)
From BM Require Import Cipher Spec.

Section CtsSpec.
  Variables (bs : nat) (E : block -> block).

  Definition pad0 (t : list N) : block := t ++ zeros (bs - length t).

  (* the CBC ciphertext blocks C_1 .. C_n of the zero-padded message *)
  Definition cbc_padded (iv : block) (blocks : list block) (tail : list N) : list block :=
    cbc_enc_spec E iv (blocks ++ (if length tail =? 0 then [] else [pad0 tail])).

  (* d = byte length of the final plaintext block (bs when the message is whole blocks) *)
  Definition final_len (tail : list N) : nat := if length tail =? 0 then bs else length tail.

  (* CS1: C_1 .. C_{n-2} || C*_{n-1} || C_n, C* = first d bytes;  CS3: the last two exchanged;
     CS2: exchanged only when the final block is partial; a one-block message is plain CBC in all *)
  Definition cs1_layout (Cs : list block) (d : nat) : list N :=
    let n := length Cs in
    if n <=? 1 then concat Cs
    else concat (firstn (n - 2) Cs) ++ firstn d (nth (n - 2) Cs []) ++ nth (n - 1) Cs [].
  Definition cs3_layout (Cs : list block) (d : nat) : list N :=
    let n := length Cs in
    if n <=? 1 then concat Cs
    else concat (firstn (n - 2) Cs) ++ nth (n - 1) Cs [] ++ firstn d (nth (n - 2) Cs []).
  Definition cs2_layout (Cs : list block) (d : nat) : list N :=
    if d <? bs then cs3_layout Cs d else cs1_layout Cs d.

  Definition cbc_cs1_spec iv blocks tail := cs1_layout (cbc_padded iv blocks tail) (final_len tail).
  Definition cbc_cs2_spec iv blocks tail := cs2_layout (cbc_padded iv blocks tail) (final_len tail).
  Definition cbc_cs3_spec iv blocks tail := cs3_layout (cbc_padded iv blocks tail) (final_len tail).

  (* ECB with stealing: E on the whole blocks; the final partial block is completed with the tail
     (bytes d..) of the penultimate ciphertext block before being encrypted *)
  Definition ecb_padded (blocks : list block) (tail : list N) : list block :=
    let Cs := map E blocks in
    if length tail =? 0 then Cs
    else Cs ++ [E (tail ++ skipn (length tail) (last Cs []))].
  Definition ecb_cs1_spec blocks tail := cs1_layout (ecb_padded blocks tail) (final_len tail).
  Definition ecb_cs2_spec blocks tail := cs2_layout (ecb_padded blocks tail) (final_len tail).
  Definition ecb_cs3_spec blocks tail := cs3_layout (ecb_padded blocks tail) (final_len tail).
End CtsSpec.
