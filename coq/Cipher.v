(* Cipher.v -- the block cipher a mode is instantiated with, as the backends see it.

   [E]/[D] are the two directions on one block.  Nothing relates them unless a theorem says so
   (hypotheses [DE_id] / [ED_id]); the decrypt recurrences and the keystream modes are proved for
   arbitrary functions.  [w] is the backend's ParBlocksSize; the backend contract assumed (trusted
   base) is that `*_par_blocks` on w blocks is the block-wise map of [E]/[D] and `*_tail_blocks` the
   same on fewer than w. *)
From BM Require Export Cell.

Record cipher := mkcipher {
  c_bs : nat;                (* block size in bytes, 1..255 *)
  c_w  : nat;                (* ParBlocksSize, >= 1 *)
  c_E  : block -> block;
  c_D  : block -> block;
}.

Definition cipher_wf (C : cipher) : Prop :=
  0 < c_bs C /\ 0 < c_w C /\
  (forall x, length x = c_bs C -> length (c_E C x) = c_bs C) /\
  (forall x, length x = c_bs C -> length (c_D C x) = c_bs C).

Definition cipher_bytes_ok (C : cipher) : Prop :=
  (forall x, length x = c_bs C -> bytes_ok x -> bytes_ok (c_E C x)) /\
  (forall x, length x = c_bs C -> bytes_ok x -> bytes_ok (c_D C x)).

Definition DE_id (C : cipher) : Prop := forall x, length x = c_bs C -> c_D C (c_E C x) = x.
Definition ED_id (C : cipher) : Prop := forall x, length x = c_bs C -> c_E C (c_D C x) = x.

Fixpoint map2 {A B R} (f : A -> B -> R) (la : list A) (lb : list B) : list R :=
  match la, lb with
  | a :: la', b :: lb' => f a b :: map2 f la' lb'
  | _, _ => []
  end.

Lemma map2_length {A B R} (f : A -> B -> R) la lb : length (map2 f la lb) = Nat.min (length la) (length lb).
Proof. revert lb; induction la as [|a la IH]; intros [|b lb]; simpl; auto. Qed.
