(* Belt.v -- belt-ctr/src/lib.rs (BeltCtrCore): s and s_init are u128. *)
From BM Require Export Cipher Ints.

Record beltst := mkbelt { b_s : N; b_s_init : N }.

Section Belt.
  Variable C : cipher.
  Definition M128 : N := pow2 128.

  Definition belt_init (iv : block) : beltst :=
    let s := le_decode (c_E C iv) in mkbelt s s.                 (* u128::from_le_bytes(E(iv)) *)
  Definition belt_iv_state (st : beltst) : block := c_D C (le_encode 16 (b_s st)).

  Definition belt_used (st : beltst) : N := wrap 128 (b_s st + M128 - b_s_init st).    (* wrapping_sub *)
  Definition belt_remaining (st : beltst) : option N := to_usize (M128 - 1 - belt_used st).
  Definition belt_get_pos (st : beltst) : N := belt_used st.
  Definition belt_set_pos (st : beltst) (p : N) : beltst := mkbelt (wrap 128 (b_s_init st + p)) (b_s_init st).

  Definition belt_gen (st : beltst) : beltst * block :=
    let s := wrap 128 (b_s st + 1) in
    (mkbelt s (b_s_init st), c_E C (le_encode 16 s)).

  Fixpoint belt_tmp (n : nat) (s : N) : N * list block :=
    match n with
    | O => (s, [])
    | S n' => let s1 := wrap 128 (s + 1) in let '(s2, bl) := belt_tmp n' s1 in (s2, le_encode 16 s1 :: bl)
    end.

  Definition belt_gen_par (st : beltst) : beltst * list block :=
    let '(s, tmp) := belt_tmp (c_w C) (b_s st) in
    (mkbelt s (b_s_init st), map (c_E C) tmp).
End Belt.
