(* driver.ml -- reads a case file (same format as the Rust harness), runs Model.run_case, prints
   one result line per op in the harness format.  Hand-written glue: parser, printer, int<->nat/N. *)
open Model

let rec nat_of_int n = if n <= 0 then O else S (nat_of_int (n - 1))
let rec int_of_nat = function O -> 0 | S n -> 1 + int_of_nat n

let rec pos_of_int n =
  if n = 1 then XH else if n land 1 = 0 then XO (pos_of_int (n lsr 1)) else XI (pos_of_int (n lsr 1))
let n_of_int n = if n = 0 then N0 else Npos (pos_of_int n)
let rec int_of_pos = function XH -> 1 | XO p -> 2 * int_of_pos p | XI p -> 2 * int_of_pos p + 1
let int_of_n = function N0 -> 0 | Npos p -> int_of_pos p

(* arbitrary-size N <-> decimal string, via lists of bits (little endian) *)
let rec bits_of_pos = function XH -> [1] | XO p -> 0 :: bits_of_pos p | XI p -> 1 :: bits_of_pos p
let dec_of_n n =
  match n with
  | N0 -> "0"
  | Npos p ->
    (* digits little-endian base 10; double-and-add from the most significant bit *)
    let bits = List.rev (bits_of_pos p) in
    let digits = ref [0] in
    let double_add b =
      let carry = ref b in
      digits := List.map (fun d -> let v = 2 * d + !carry in carry := v / 10; v mod 10) !digits;
      if !carry > 0 then digits := !digits @ [!carry] in
    List.iter double_add bits;
    String.concat "" (List.rev_map string_of_int !digits)
let n_of_dec (s : string) : n =
  (* repeated division by 2 of the decimal string *)
  let digits = ref (List.init (String.length s) (fun i -> Char.code s.[i] - 48)) in
  let is_zero () = List.for_all (fun d -> d = 0) !digits in
  let bits = ref [] in
  while not (is_zero ()) do
    let rem = ref 0 in
    digits := List.map (fun d -> let v = !rem * 10 + d in rem := v mod 2; v / 2) !digits;
    bits := !rem :: !bits
  done;
  (* bits: most significant first *)
  match !bits with
  | [] -> N0
  | _ :: rest -> Npos (List.fold_left (fun p b -> if b = 1 then XI p else XO p) XH rest)

let unhex (s : string) : n list =
  if s = "-" || s = "" then [] else
  List.init (String.length s / 2) (fun i -> n_of_int (int_of_string ("0x" ^ String.sub s (2 * i) 2)))
let hex (l : n list) : string =
  if l = [] then "-" else String.concat "" (List.map (fun b -> Printf.sprintf "%02x" (int_of_n b)) l)

let darg (t : string) : darg =
  if t.[0] = '=' then DLit (unhex (String.sub t 1 (String.length t - 1)))
  else if t.[0] = '@' then DRef (nat_of_int (int_of_string (String.sub t 1 (String.length t - 1))))
  else failwith ("bad data token " ^ t)

(* object ids are arbitrary tokens in the file; number them per case *)
let ids : (string, int) Hashtbl.t = Hashtbl.create 16
let id (t : string) : nat =
  match Hashtbl.find_opt ids t with
  | Some i -> nat_of_int i
  | None -> let i = Hashtbl.length ids in Hashtbl.add ids t i; nat_of_int i

let place (a : string list) : place option =
  match a with
  | ["ip"; d] -> Some (PIp (darg d))
  | ["b2b"; d; j] | ["io"; d; j] -> Some (PB2b (darg d, darg j))
  | _ -> None

let okind = function
  | "cbc_enc" -> Some (KBlock KCbcE) | "cbc_dec" -> Some (KBlock KCbcD)
  | "pcbc_enc" -> Some (KBlock KPcbcE) | "pcbc_dec" -> Some (KBlock KPcbcD)
  | "ige_enc" -> Some (KBlock KIgeE) | "ige_dec" -> Some (KBlock KIgeD)
  | "cfb_enc" -> Some (KBlock KCfbE) | "cfb_dec" -> Some (KBlock KCfbD)
  | "cfb8_enc" -> Some (KBlock KCfb8E) | "cfb8_dec" -> Some (KBlock KCfb8D)
  | "ofb_enc" -> Some (KBlock KOfbE) | "ofb_dec" -> Some (KBlock KOfbD)
  | "buf_enc" -> Some (KBuf true) | "buf_dec" -> Some (KBuf false)
  | "ctr32be" -> Some (KWrap (SCtr (nat_of_int 4, true))) | "ctr32le" -> Some (KWrap (SCtr (nat_of_int 4, false)))
  | "ctr64be" -> Some (KWrap (SCtr (nat_of_int 8, true))) | "ctr64le" -> Some (KWrap (SCtr (nat_of_int 8, false)))
  | "ctr128be" -> Some (KWrap (SCtr (nat_of_int 16, true))) | "ctr128le" -> Some (KWrap (SCtr (nat_of_int 16, false)))
  | "ctr32be_core" -> Some (KCore (SCtr (nat_of_int 4, true))) | "ctr32le_core" -> Some (KCore (SCtr (nat_of_int 4, false)))
  | "ctr64be_core" -> Some (KCore (SCtr (nat_of_int 8, true))) | "ctr64le_core" -> Some (KCore (SCtr (nat_of_int 8, false)))
  | "ctr128be_core" -> Some (KCore (SCtr (nat_of_int 16, true))) | "ctr128le_core" -> Some (KCore (SCtr (nat_of_int 16, false)))
  | "ofb" -> Some (KWrap SOfb) | "ofb_core" -> Some (KCore SOfb)
  | "belt" -> Some (KWrap SBelt) | "belt_core" -> Some (KCore SBelt)
  | "cbc_cs1" -> Some (KCts CbcCs1) | "cbc_cs2" -> Some (KCts CbcCs2) | "cbc_cs3" -> Some (KCts CbcCs3)
  | "ecb_cs1" -> Some (KCts EcbCs1) | "ecb_cs2" -> Some (KCts EcbCs2) | "ecb_cs3" -> Some (KCts EcbCs3)
  | _ -> None

let seeknum = function
  | "i32" -> Some SN_i32 | "u32" -> Some SN_u32 | "u64" -> Some SN_u64 | "u128" -> Some SN_u128
  | "usize" -> Some SN_usize | _ -> None

let z_of_dec (s : string) : z =
  if s.[0] = '-' then (match n_of_dec (String.sub s 1 (String.length s - 1)) with N0 -> Z0 | Npos p -> Zneg p)
  else (match n_of_dec s with N0 -> Z0 | Npos p -> Zpos p)
let dec_of_z = function Z0 -> "0" | Zpos p -> dec_of_n (Npos p) | Zneg p -> "-" ^ dec_of_n (Npos p)

let how = function
  | "new" -> Some HNew | "inner" -> Some HInner | "slices" -> Some HSlices
  | "inner_slice" -> Some HInnerSlice | _ -> None

let padding = function "pkcs7" -> Some Pkcs7 | "nopad" -> Some NoPadding | _ -> None

let parse_op (toks : string list) : op =
  let ( >>= ) o f = match o with Some x -> f x | None -> OpOther in
  match toks with
  | ["new"; i; k; h; key; iv] -> okind k >>= fun k -> how h >>= fun h -> OpNew (id i, k, h, darg key, darg iv)
  | ["fromstate"; i; k; key; iv; pos] ->
    let enc = (k = "buf_enc") in
    if k <> "buf_enc" && k <> "buf_dec" then OpOther else
    let p = if pos.[0] = '@' then Inr (nat_of_int (int_of_string (String.sub pos 1 (String.length pos - 1))))
            else Inl (nat_of_int (int_of_string pos)) in
    OpFromState (id i, enc, darg key, darg iv, p)
  | ["clone"; i; j] -> let a = id i in let b = id j in OpClone (a, b)
  | ["clonefrom"; i; j] -> let a = id i in let b = id j in OpCloneFrom (a, b)
  | ["drop"; i] -> OpDrop (id i)
  | "blk" :: i :: a -> place a >>= fun p -> OpBlk (id i, p)
  | "blks" :: i :: a -> place a >>= fun p -> OpBlks (id i, p)
  | ["pad"; i; p; "ip"; buf; n] -> padding p >>= fun p -> OpPad (id i, p, true, darg buf, nat_of_int (int_of_string n), DLit [])
  | ["pad"; i; p; "b2b"; msg; out] -> padding p >>= fun p -> OpPad (id i, p, false, darg msg, O, darg out)
  | "unpad" :: i :: p :: a -> padding p >>= fun p -> place a >>= fun pl -> OpUnpad (id i, p, pl)
  | "async" :: i :: a -> place a >>= fun p -> OpAsync (id i, p)
  | ["ivstate"; i] -> OpIvState (id i)
  | ["buf"; i; "ip"; d] -> OpBuf (id i, darg d)
  | ["getstate"; i] -> OpGetState (id i)
  | "apply" :: i :: a -> place a >>= fun p -> OpApply (id i, p)
  | ["seek"; i; t; p] -> seeknum t >>= fun t -> OpSeek (id i, t, z_of_dec p)
  | ["pos"; i; t] -> seeknum t >>= fun t -> OpPos (id i, t)
  | ["ksblocks"; i; n] -> OpKsBlocks (id i, nat_of_int (int_of_string n))
  | "applyblks" :: i :: a -> place a >>= fun p -> OpApplyBlks (id i, p)
  | "applyblk" :: i :: a -> place a >>= fun p -> OpApplyBlk (id i, p)
  | ["remaining"; i] -> OpRemaining (id i)
  | ["getpos"; i] -> OpGetPos (id i)
  | ["setpos"; i; p] -> OpSetPos (id i, n_of_dec p)
  | ["wrap"; i; j] -> let a = id i in let b = id j in OpWrap (a, b)
  | ["core"; i; j] -> let a = id i in let b = id j in OpCore (a, b)
  | "cts_enc" :: i :: a -> place a >>= fun p -> OpCts (id i, true, p)
  | "cts_dec" :: i :: a -> place a >>= fun p -> OpCts (id i, false, p)
  | "cat" :: ds -> OpCat (List.map darg ds)
  | ["sub"; d; off; len] -> OpSub (darg d, nat_of_int (int_of_string off), nat_of_int (int_of_string len))
  | _ -> OpOther

let show = function
  | RBytes l -> "bytes " ^ hex l
  | RErr -> "err"
  | RPanic -> "panic"
  | ROk -> "ok"
  | RNum n -> "num " ^ dec_of_z n
  | RNone -> "none"
  | RState (l, p) -> Printf.sprintf "state %s %d" (hex l) (int_of_nat p)
  | RUnsupported -> "unsupported"

(* ---- self-check of the extraction: print a case and the results THIS program computed for it as
   Gallina terms; coqc then evaluates Interp.run_case on the same term inside Coq (vm_compute) and
   must get the same list (gen/vlib.py, selfcheck) ---- *)
let g_nat n = Printf.sprintf "%d%%nat" (int_of_nat n)
let g_n n = Printf.sprintf "%s%%N" (dec_of_n n)
let g_z z = Printf.sprintf "(%s)%%Z" (dec_of_z z)
let g_bool b = if b then "true" else "false"
let g_bytes l = "[" ^ String.concat "; " (List.map g_n l) ^ "]"
let g_darg = function DLit l -> "(DLit " ^ g_bytes l ^ ")" | DRef k -> "(DRef " ^ g_nat k ^ ")"
let g_place = function PIp d -> "(PIp " ^ g_darg d ^ ")" | PB2b (d, j) -> "(PB2b " ^ g_darg d ^ " " ^ g_darg j ^ ")"
let g_bkind = function
  | KCbcE -> "KCbcE" | KCbcD -> "KCbcD" | KPcbcE -> "KPcbcE" | KPcbcD -> "KPcbcD" | KIgeE -> "KIgeE" | KIgeD -> "KIgeD"
  | KCfbE -> "KCfbE" | KCfbD -> "KCfbD" | KCfb8E -> "KCfb8E" | KCfb8D -> "KCfb8D" | KOfbE -> "KOfbE" | KOfbD -> "KOfbD"
let g_skind = function
  | SCtr (c, be) -> "(SCtr " ^ g_nat c ^ " " ^ g_bool be ^ ")" | SOfb -> "SOfb" | SBelt -> "SBelt"
let g_cts = function
  | CbcCs1 -> "CbcCs1" | CbcCs2 -> "CbcCs2" | CbcCs3 -> "CbcCs3" | EcbCs1 -> "EcbCs1" | EcbCs2 -> "EcbCs2" | EcbCs3 -> "EcbCs3"
let g_okind = function
  | KBlock k -> "(KBlock " ^ g_bkind k ^ ")" | KBuf e -> "(KBuf " ^ g_bool e ^ ")" | KCore k -> "(KCore " ^ g_skind k ^ ")"
  | KWrap k -> "(KWrap " ^ g_skind k ^ ")" | KCts v -> "(KCts " ^ g_cts v ^ ")"
let g_how = function HNew -> "HNew" | HInner -> "HInner" | HSlices -> "HSlices" | HInnerSlice -> "HInnerSlice"
let g_pad = function Pkcs7 -> "Pkcs7" | NoPadding -> "NoPadding"
let g_sn = function SN_i32 -> "SN_i32" | SN_u32 -> "SN_u32" | SN_u64 -> "SN_u64" | SN_u128 -> "SN_u128" | SN_usize -> "SN_usize"
let g_op = function
  | OpNew (i, k, h, key, iv) -> Printf.sprintf "OpNew %s %s %s %s %s" (g_nat i) (g_okind k) (g_how h) (g_darg key) (g_darg iv)
  | OpFromState (i, e, key, iv, p) ->
    Printf.sprintf "OpFromState %s %s %s %s %s" (g_nat i) (g_bool e) (g_darg key) (g_darg iv)
      (match p with Inl n -> "(inl " ^ g_nat n ^ ")" | Inr n -> "(inr " ^ g_nat n ^ ")")
  | OpClone (a, b) -> Printf.sprintf "OpClone %s %s" (g_nat a) (g_nat b)
  | OpCloneFrom (a, b) -> Printf.sprintf "OpCloneFrom %s %s" (g_nat a) (g_nat b)
  | OpDrop i -> "OpDrop " ^ g_nat i
  | OpBlk (i, p) -> Printf.sprintf "OpBlk %s %s" (g_nat i) (g_place p)
  | OpBlks (i, p) -> Printf.sprintf "OpBlks %s %s" (g_nat i) (g_place p)
  | OpPad (i, pd, ip, a, n, o) -> Printf.sprintf "OpPad %s %s %s %s %s %s" (g_nat i) (g_pad pd) (g_bool ip) (g_darg a) (g_nat n) (g_darg o)
  | OpUnpad (i, pd, p) -> Printf.sprintf "OpUnpad %s %s %s" (g_nat i) (g_pad pd) (g_place p)
  | OpAsync (i, p) -> Printf.sprintf "OpAsync %s %s" (g_nat i) (g_place p)
  | OpIvState i -> "OpIvState " ^ g_nat i
  | OpBuf (i, d) -> Printf.sprintf "OpBuf %s %s" (g_nat i) (g_darg d)
  | OpGetState i -> "OpGetState " ^ g_nat i
  | OpApply (i, p) -> Printf.sprintf "OpApply %s %s" (g_nat i) (g_place p)
  | OpSeek (i, t, z) -> Printf.sprintf "OpSeek %s %s %s" (g_nat i) (g_sn t) (g_z z)
  | OpPos (i, t) -> Printf.sprintf "OpPos %s %s" (g_nat i) (g_sn t)
  | OpKsBlocks (i, n) -> Printf.sprintf "OpKsBlocks %s %s" (g_nat i) (g_nat n)
  | OpApplyBlks (i, p) -> Printf.sprintf "OpApplyBlks %s %s" (g_nat i) (g_place p)
  | OpApplyBlk (i, p) -> Printf.sprintf "OpApplyBlk %s %s" (g_nat i) (g_place p)
  | OpRemaining i -> "OpRemaining " ^ g_nat i
  | OpGetPos i -> "OpGetPos " ^ g_nat i
  | OpSetPos (i, p) -> Printf.sprintf "OpSetPos %s %s" (g_nat i) (g_n p)
  | OpWrap (a, b) -> Printf.sprintf "OpWrap %s %s" (g_nat a) (g_nat b)
  | OpCore (a, b) -> Printf.sprintf "OpCore %s %s" (g_nat a) (g_nat b)
  | OpCts (i, e, p) -> Printf.sprintf "OpCts %s %s %s" (g_nat i) (g_bool e) (g_place p)
  | OpCat ds -> "OpCat [" ^ String.concat "; " (List.map g_darg ds) ^ "]"
  | OpSub (d, o, l) -> Printf.sprintf "OpSub %s %s %s" (g_darg d) (g_nat o) (g_nat l)
  | OpOther -> "OpOther"
let g_res = function
  | RBytes l -> "RBytes " ^ g_bytes l | RErr -> "RErr" | RPanic -> "RPanic" | ROk -> "ROk"
  | RNum z -> "RNum " ^ g_z z | RNone -> "RNone"
  | RState (l, p) -> Printf.sprintf "RState %s %s" (g_bytes l) (g_nat p) | RUnsupported -> "RUnsupported"

let selfcheck_out : out_channel option ref = ref None
let selfcheck_left = ref 0
let selfcheck_emit name bs w dmv ops rs =
  match !selfcheck_out with
  | Some oc when !selfcheck_left > 0 ->
    decr selfcheck_left;
    Printf.fprintf oc "(* %s *)\nGoal run_case %d%%nat %d%%nat %s\n  [%s]\n  = [%s].\nProof. vm_compute. reflexivity. Qed.\n\n"
      name bs w (match dmv with DInv -> "DInv" | DUnrel -> "DUnrel")
      (String.concat ";\n   " (List.map g_op ops)) (String.concat ";\n     " (List.map g_res rs))
  | _ -> ()

let () =
  let argi = ref 1 in
  if Array.length Sys.argv > 3 && Sys.argv.(1) = "--selfcheck" then begin
    let oc = open_out Sys.argv.(2) in
    output_string oc "(* generated by coq/driver/driver.ml --selfcheck: the extracted program's results, re-derived inside Coq *)\n";
    output_string oc "From BM Require Import BlockModes Plumbing Toy Ints Ctr Belt Stream Cts Interp.\nFrom Coq Require Import List ZArith NArith.\nImport ListNotations.\n\n";
    selfcheck_out := Some oc; selfcheck_left := int_of_string Sys.argv.(3); argi := 4
  end;
  let ic = open_in Sys.argv.(!argi) in
  let cur = ref None in
  let ops = ref [] in
  (try
     while true do
       let line = input_line ic in
       let toks = List.filter (fun s -> s <> "") (String.split_on_char ' ' (String.trim line)) in
       match toks with
       | [] -> ()
       | t :: _ when t.[0] = '#' -> ()
       | ["case"; name; bs; w; dm] ->
         Hashtbl.reset ids;
         cur := Some (name, int_of_string bs, int_of_string w, dm); ops := []
       | ["end"] ->
         (match !cur with
          | Some (name, bs, w, dm) ->
            let dmv = if dm = "inv" then DInv else DUnrel in
            let rs = run_case (nat_of_int bs) (nat_of_int w) dmv (List.rev !ops) in
            selfcheck_emit name bs w dmv (List.rev !ops) rs;
            List.iteri (fun i r -> Printf.printf "%s %d %s\n" name i (show r)) rs
          | None -> failwith "end without case");
         cur := None
       | _ -> ops := parse_op toks :: !ops
     done
   with End_of_file -> ());
  close_in ic;
  (match !selfcheck_out with Some oc -> close_out oc | None -> ())
