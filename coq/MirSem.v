(* MirSem.v -- executable meaning of the Rust subset of Mir.v, as far as the function bodies of
   /repo that are tied to the model need it.  An interpreter with fuel (the fuel bounds the nesting
   depth of expressions and calls only; statement sequences and `for` loops do not consume it).

   [None] means "no meaning given": unsupported syntax, a dynamic type error, or a Rust panic (index
   out of range, `usize` underflow, `copy_from_slice` length mismatch).  A tie theorem therefore
   establishes, for all inputs it quantifies over, that the translated body is inside the subset, does
   not panic, and computes what the hand-written model computes.

   Design points (each is a modelling decision, stated here because it is part of the trusted base):
   * values are dynamically typed; references are explicit ([VRef place]); a function receives a
     by-reference argument by copy-in / copy-out into a private cell "$a<k>" (sound because Rust's
     `&mut` is unique);
   * `InOut<Block>` is a [cell] of Cell.v, `InOut<ParBlocks>` a list of cells: `clone_in`/`get_in`
     read [rd_in] (which depends on aliasing), `get_out` is the output side, `xor_in2out` as in Cell.v;
   * the block cipher backend is the opaque value [VCipher enc dec]; `encrypt_block` needs [enc],
     `decrypt_block` needs [dec]; their effect is [cE]/[cD] of the context, `*_par_blocks` the map;
   * `into`, `try_into`, `unwrap`, `as_mut_slice`, `as_slice`, `reborrow` are the identity (in /repo they
     only convert between views of the same bytes); `clone` yields a copy of the data;
   * integer literals without suffix are [VLit] and take the type of the other operand. *)
From BM Require Export Cipher Ints Mir Plumbing.
Local Open Scope string_scope.
Local Open Scope nat_scope.
Infix "=s" := String.eqb (at level 70).

Inductive place :=
| PVar (x : string)
| PFld (p : place) (f : string)
| PIdx (p : place) (i : nat)
| PSlice (p : place) (lo len : nat)
| POut (p : place)
| PGet (p : place) (i : nat)
| PCells (p : place) (lo len : nat)         (* a run of blocks of an InOutBuf<Block> *)
| PBlocks (p : place) (off nb bs : nat)    (* the nb whole blocks of an InOutBuf<u8> from byte off, as InOutBuf<Block> *)
| PBytes (p : place) (off len : nat).      (* a sub-InOutBuf<u8> *)

Inductive val :=
| VUnit
| VBoolV (b : bool)
| VNat (n : nat)                 (* usize *)
| VLit (n : N)                   (* integer literal, type not yet fixed *)
| VInt (bits : nat) (n : N)      (* u8 / u32 / u64 / u128 *)
| VStr (s : string)
| VBlk (b : list N)              (* Array<u8, _>, [u8] *)
| VBlks (l : list (list N))      (* ParBlocks *)
| VWords (bits : nat) (l : list N) (* Array<u32|u64|u128, _> *)
| VCell (c : cell)               (* InOut<Block> *)
| VCells (cs : list cell)        (* InOut<ParBlocks> *)
| VCellB (c : cell) (i : nat)    (* InOut<u8> obtained by `get(i)` on an InOut<Array<u8, _>> *)
| VStruct (name : string) (fs : list (string * val))
| VTuple (l : list val)
| VRef (p : place)
| VCipher (enc dec : bool)
| VOpt (o : option val)
| VRange (lo hi : option nat)
| VIter (ps : list place) (lo n : nat)
| VGroups (q : place) (w n : nat)          (* `blocks.into_chunks()`: n groups of w blocks of the InOutBuf at q *)
| VChunks (q : place) (cs n total : nat)   (* `q.chunks_exact_mut(cs)`: n whole chunks of a slice of length total *)
| VFmt (out : list string)
| VResult (ok : bool) (v : val)           (* Result<_, _> *)
| VBuf (al : bool) (inb outb : list N).    (* InOutBuf<u8>: aliasing flag, input side, output side *)

Definition env := list (string * val).

Fixpoint lookup {A} (x : string) (e : list (string * A)) : option A :=
  match e with
  | [] => None
  | (y, v) :: e' => if String.eqb x y then Some v else lookup x e'
  end.

Fixpoint update {A} (x : string) (v : A) (e : list (string * A)) : option (list (string * A)) :=
  match e with
  | [] => None
  | (y, w) :: e' => if String.eqb x y then Some ((y, v) :: e')
                    else match update x v e' with Some e'' => Some ((y, w) :: e'') | None => None end
  end.

Fixpoint upd_nth {A} (i : nat) (x : A) (l : list A) : list A :=
  match l, i with
  | [], _ => []
  | _ :: l', O => x :: l'
  | y :: l', S i' => y :: upd_nth i' x l'
  end.

(* private copies of list / nat functions used on *syntax* (environments, place lists), so that the tie
   proofs can evaluate them while keeping the stdlib functions on symbolic *data* folded *)
Fixpoint elen {A} (l : list A) : nat := match l with [] => 0 | _ :: l' => S (elen l') end.
Fixpoint edrop {A} (n : nat) (l : list A) : list A :=
  match n, l with 0, _ => l | S n', [] => [] | S n', _ :: l' => edrop n' l' end.
Fixpoint psub (a b : nat) : nat := match a, b with S a', S b' => psub a' b' | _, _ => a end.
Fixpoint papp {A} (a b : list A) : list A := match a with [] => b | x :: a' => x :: papp a' b end.
Fixpoint pmap {A B} (f : A -> B) (l : list A) : list B := match l with [] => [] | x :: l' => f x :: pmap f l' end.
Fixpoint pzip {A B} (a : list A) (b : list B) : list (A * B) :=
  match a, b with x :: a', y :: b' => (x, y) :: pzip a' b' | _, _ => [] end.

(* tests on symbolic indices and lengths, kept folded by the tie proofs *)
Definition in_range (i n : nat) : bool := i <? n.
Definition fits (lo len n : nat) : bool := lo + len <=? n.
Definition len_eq (a b : nat) : bool := a =? b.
Definition le_ok (a b : nat) : bool := a <=? b.
Definition ndiv (a b : nat) : nat := a / b.      (* kept folded on symbolic lengths *)

Definition splice (lo len : nat) (s b : list N) : list N := firstn lo b ++ s ++ skipn (lo + len) b.

Definition dummy_cell : cell := mkcell false [] [].
Definition csplice (lo len : nat) (s b : list cell) : list cell := firstn lo b ++ s ++ skipn (lo + len) b.

(* ---- places ---------------------------------------------------------------------------------- *)
Fixpoint rd (e : env) (p : place) : option val :=
  match p with
  | PVar x => lookup x e
  | PFld p f => match rd e p with Some (VStruct _ fs) => lookup f fs | _ => None end
  | PIdx p i =>
      match rd e p with
      | Some (VBlk b) => if in_range i (length b) then Some (VInt 8 (nth i b 0%N)) else None
      | Some (VBlks l) => if in_range i (length l) then Some (VBlk (nth i l [])) else None
      | Some (VWords w l) => if in_range i (length l) then Some (VInt w (nth i l 0%N)) else None
      | _ => None
      end
  | PSlice p lo len =>
      match rd e p with
      | Some (VBlk b) => if fits lo len (length b) then Some (VBlk (firstn len (skipn lo b))) else None
      | Some (VBlks l) => if fits lo len (length l) then Some (VBlks (firstn len (skipn lo l))) else None
      | _ => None
      end
  | POut p =>
      match rd e p with
      | Some (VCell c) => Some (VBlk (rd_out c))
      | Some (VCells cs) => Some (VBlks (map rd_out cs))
      | Some (VBuf _ _ o) => Some (VBlk o)
      | _ => None
      end
  | PGet p i =>
      match rd e p with
      | Some (VCells cs) => if in_range i (length cs) then Some (VCell (nth i cs dummy_cell)) else None
      | Some (VCell c) => Some (VCellB c i)
      | _ => None
      end
  | PCells p lo len =>
      match rd e p with
      | Some (VCells cs) => if fits lo len (length cs) then Some (VCells (firstn len (skipn lo cs))) else None
      | _ => None
      end
  | PBlocks p off nb bs =>
      match rd e p with
      | Some (VBuf al i o) =>
          if fits off (nb * bs) (length o) && fits off (nb * bs) (length i)
          then Some (VCells (cells_of bs al (firstn (nb * bs) (skipn off i)) (firstn (nb * bs) (skipn off o))))
          else None
      | _ => None
      end
  | PBytes p off len =>
      match rd e p with
      | Some (VBuf al i o) =>
          if fits off len (length o) && fits off len (length i)
          then Some (VBuf al (firstn len (skipn off i)) (firstn len (skipn off o)))
          else None
      | _ => None
      end
  end.

Fixpoint wr (e : env) (p : place) (v : val) : option env :=
  match p with
  | PVar x => update x v e
  | PFld p f =>
      match rd e p with
      | Some (VStruct n fs) => match update f v fs with Some fs' => wr e p (VStruct n fs') | None => None end
      | _ => None
      end
  | PIdx p i =>
      match rd e p, v with
      | Some (VBlk b), VInt 8 x => if in_range i (length b) then wr e p (VBlk (upd_nth i x b)) else None
      | Some (VBlks l), VBlk x => if in_range i (length l) then wr e p (VBlks (upd_nth i x l)) else None
      | Some (VWords w l), VInt w' x => if in_range i (length l) && (w =? w') then wr e p (VWords w (upd_nth i x l)) else None
      | _, _ => None
      end
  | PSlice p lo len =>
      match rd e p, v with
      | Some (VBlk b), VBlk s =>
          if fits lo len (length b) && len_eq (length s) len then wr e p (VBlk (splice lo len s b)) else None
      | Some (VBlks l), VBlks s =>
          if fits lo len (length l) && len_eq (length s) len then wr e p (VBlks (firstn lo l ++ s ++ skipn (lo + len) l)) else None
      | _, _ => None
      end
  | POut p =>
      match rd e p, v with
      | Some (VCell c), VBlk b => wr e p (VCell (wr_out c b))
      | Some (VCells cs), VBlks bs => if len_eq (length cs) (length bs) then wr e p (VCells (map2 wr_out cs bs)) else None
      | Some (VBuf al i o), VBlk b => if len_eq (length b) (length o) then wr e p (VBuf al i b) else None
      | _, _ => None
      end
  | PGet p i =>
      match rd e p, v with
      | Some (VCells cs), VCell c => if in_range i (length cs) then wr e p (VCells (upd_nth i c cs)) else None
      | _, _ => None
      end
  | PCells p lo len =>
      match rd e p, v with
      | Some (VCells cs), VCells s =>
          if fits lo len (length cs) && len_eq (length s) len then wr e p (VCells (csplice lo len s cs)) else None
      | _, _ => None
      end
  | PBlocks p off nb bs =>                       (* only the output sides of the cells can have changed *)
      match rd e p, v with
      | Some (VBuf al i o), VCells cs =>
          if fits off (nb * bs) (length o) && len_eq (length (outs_of cs)) (nb * bs)
          then wr e p (VBuf al i (splice off (nb * bs) (outs_of cs) o)) else None
      | _, _ => None
      end
  | PBytes p off len =>
      match rd e p, v with
      | Some (VBuf al i o), VBuf _ _ o' =>
          if fits off len (length o) && len_eq (length o') len then wr e p (VBuf al i (splice off len o' o)) else None
      | _, _ => None
      end
  end.

(* one level of auto-dereference: a place holding a reference stands for the place referred to *)
Definition resolve (e : env) (p : place) : place :=
  match rd e p with Some (VRef q) => q | _ => p end.

Inductive res := RV (v : val) | RP (p : place).

Definition as_val (e : env) (r : res) : option val :=
  match r with RV v => Some v | RP p => rd e p end.

Definition as_data (e : env) (r : res) : option val :=
  match as_val e r with
  | Some (VRef q) => rd e q
  | o => o
  end.

Definition as_place (e : env) (r : res) : option place :=
  match r with
  | RP p => Some (resolve e p)
  | RV (VRef q) => Some q
  | _ => None
  end.

(* values returned from a call must not refer to the callee's frame *)
Fixpoint deref_deep (fuel : nat) (e : env) (v : val) : option val :=
  match fuel with
  | O => None
  | S f =>
      match v with
      | VRef q => match rd e q with Some v' => deref_deep f e v' | None => None end
      | VTuple l =>
          option_map VTuple
            ((fix go (l : list val) : option (list val) :=
                match l with
                | [] => Some []
                | x :: l' => match deref_deep f e x, go l' with Some x', Some l'' => Some (x' :: l'') | _, _ => None end
                end) l)
      | VStruct n fs =>
          option_map (fun vs => VStruct n (pzip (pmap fst fs) vs))
            ((fix go (l : list (string * val)) : option (list val) :=
                match l with
                | [] => Some []
                | (_, x) :: l' => match deref_deep f e x, go l' with Some x', Some l'' => Some (x' :: l'') | _, _ => None end
                end) fs)
      | _ => Some v
      end
  end.

(* ---- contexts -------------------------------------------------------------------------------- *)
Inductive fnimpl :=
| FSrc (fd : fndef)                                         (* interpret the translated body       *)
| FSem (sem : list val -> option (val * list val)).         (* contract: result, new argument data *)

Record ctx := mkctx {
  cE : block -> block;
  cD : block -> block;
  consts : list (string * val);      (* associated constants, `X::default()`-style nullary calls *)
  fns : list (string * fnimpl);
  cfg_zeroize : bool;
}.

(* ---- numbers --------------------------------------------------------------------------------- *)
Definition vlen (v : val) : option nat :=
  match v with
  | VBlk b => Some (length b)
  | VBlks l => Some (length l)
  | VWords _ l => Some (length l)
  | VCells cs => Some (length cs)
  | VBuf _ _ o => Some (length o)
  | _ => None
  end.

Definition to_nat (v : val) : option nat :=
  match v with VNat n => Some n | VLit n => Some (N.to_nat n) | _ => None end.

Definition int_max (bits : nat) : N := (pow2 bits - 1)%N.

Definition arith (op : string) (a b : val) : option val :=
  match a, b with
  | VInt w x, VInt w' y =>
      if negb (w =? w') then None else
      if op =s "^" then Some (VInt w (N.lxor x y))
      else if op =s "+" then (if (x + y <=? int_max w)%N then Some (VInt w (x + y)%N) else None)
      else if op =s "-" then (if (y <=? x)%N then Some (VInt w (x - y)%N) else None)
      else if op =s "==" then Some (VBoolV (x =? y)%N)
      else if op =s "<" then Some (VBoolV (x <? y)%N)
      else None
  | VInt w x, VLit y | VLit y, VInt w x =>
      if op =s "^" then Some (VInt w (N.lxor x y)) else None
  | _, _ =>
      match to_nat a, to_nat b with
      | Some x, Some y =>
          if op =s "+" then Some (VNat (x + y))
          else if op =s "-" then (if le_ok y x then Some (VNat (x - y)) else None)
          else if op =s "*" then Some (VNat (x * y))
          else if op =s "==" then Some (VBoolV (len_eq x y))
          else if op =s "!=" then Some (VBoolV (negb (len_eq x y)))
          else if op =s "<" then Some (VBoolV (in_range x y))
          else if op =s "<=" then Some (VBoolV (le_ok x y))
          else if op =s ">" then Some (VBoolV (in_range y x))
          else if op =s ">=" then Some (VBoolV (le_ok y x))
          else None
      | _, _ => None
      end
  end.

Definition int_arg (w : nat) (v : val) : option N :=
  match v with
  | VInt w' y => if w =? w' then Some y else None
  | VLit y => Some y
  | _ => None
  end.

Definition zero_of (v : val) : option val :=
  match v with
  | VBlk b => Some (VBlk (zeros (length b)))
  | VInt w _ => Some (VInt w 0%N)
  | VLit _ => Some (VLit 0%N)
  | VNat _ => Some (VNat 0)
  | VWords w l => Some (VWords w (repeat 0%N (length l)))
  | _ => None
  end.

(* ---- builtin methods on data (no place needed) ------------------------------------------------- *)
Definition data_method (C : ctx) (recv : val) (m : string) (args : list val) : option val :=
  match recv, args with
  | VCell c, [] =>
      if (m =s "clone_in") || (m =s "get_in") then Some (VBlk (rd_in c)) else None
  | VCells cs, [] =>
      if (m =s "clone_in") || (m =s "get_in") then Some (VBlks (map rd_in cs))
      else if m =s "len" then Some (VNat (length cs)) else None
  | VBuf al i o, [] =>
      if m =s "len" then Some (VNat (length o))
      else if m =s "is_empty" then Some (VBoolV (len_eq (length o) 0))
      else if m =s "get_in" then Some (VBlk (if al then o else i))
      else None
  | VCellB c i, [] =>
      if m =s "clone_in" then (if in_range i (length (rd_in c)) then Some (VInt 8 (nth i (rd_in c) 0%N)) else None) else None
  | VBlk b, [] =>
      if m =s "len" then Some (VNat (length b)) else None
  | VBlk a, [VBlk b] =>
      if m =s "concat" then Some (VBlk (a ++ b)) else None
  | VBlks l, [] =>
      if m =s "len" then Some (VNat (length l)) else None
  | VWords _ l, [] =>
      if m =s "len" then Some (VNat (length l)) else None
  | VInt w x, [] =>
      if m =s "to_be_bytes" then Some (VBlk (be_encode (w / 8) x))
      else if (m =s "to_le_bytes") || (m =s "to_ne_bytes") then Some (VBlk (le_encode (w / 8) x))   (* little-endian host *)
      else if m =s "ok" then Some (VOpt (match to_usize x with Some y => Some (VInt 64 y) | None => None end))
      else None
  | VNat x, [y] =>
      match to_nat y with
      | Some y =>
          if m =s "div_ceil" then (if in_range 0 y then Some (VNat (ndiv (x + y - 1) y)) else None)
          else if m =s "saturating_sub" then Some (VNat (x - y))
          else None
      | None => None
      end
  | VInt w x, [y] =>
      match int_arg w y with
      | Some y =>
          if m =s "wrapping_add" then Some (VInt w (wrap w (x + y)))
          else if m =s "wrapping_sub" then Some (VInt w (wrap w (x + pow2 w - wrap w y)))
          else None
      | None => None
      end
  | _, _ => None
  end.

Definition is_identity_method (m : string) : bool :=
  (m =s "into") || (m =s "try_into") || (m =s "unwrap") || (m =s "as_mut_slice")
  || (m =s "as_slice") || (m =s "reborrow").

(* from_*_bytes and friends *)
Definition builtin_call (f : string) (args : list val) : option val :=
  let dec (w : nat) (be : bool) :=
    match args with
    | [VBlk b] => if len_eq (length b) (w / 8) then Some (VInt w (if be then be_decode b else le_decode b)) else None
    | _ => None
    end in
  if f =s "Ok" then (match args with [v] => Some (VResult true v) | _ => None end)
  else if f =s "Err" then (match args with [v] => Some (VResult false v) | _ => None end)
  else if f =s "InOut::from" then (match args with [v] => Some v | _ => None end)   (* a view of (input, output), like `.into()` *)
  else if f =s "u32::from_be_bytes" then dec 32 true
  else if (f =s "u32::from_le_bytes") || (f =s "u32::from_ne_bytes") then dec 32 false
  else if f =s "u64::from_be_bytes" then dec 64 true
  else if (f =s "u64::from_le_bytes") || (f =s "u64::from_ne_bytes") then dec 64 false
  else if f =s "u128::from_be_bytes" then dec 128 true
  else if (f =s "u128::from_le_bytes") || (f =s "u128::from_ne_bytes") then dec 128 false
  else None.

(* ---- control ----------------------------------------------------------------------------------- *)
Inductive flow :=
| Norm (e : env) (r : res)
| Ret (e : env) (v : val).

Definition bindF (x : option flow) (k : env -> res -> option flow) : option flow :=
  match x with
  | Some (Norm e r) => k e r
  | Some (Ret e v) => Some (Ret e v)
  | None => None
  end.

Fixpoint bind_pat (p : pat) (v : val) (e : env) : option env :=
  match p, v with
  | PId x, _ => Some ((x, v) :: e)
  | PWild, _ => Some e
  | PRef p', _ => bind_pat p' v e
  | PStruct _ fps _, VStruct _ fs =>            (* `let Self { a, b } = self;` binds the named fields *)
      (fix go (fps : list (string * pat)) (e : env) : option env :=
         match fps with
         | [] => Some e
         | (fname, p) :: fps' =>
             match lookup fname fs with
             | Some v => match bind_pat p v e with Some e' => go fps' e' | None => None end
             | None => None
             end
         end) fps e
  | PTuple ps, VTuple vs =>
      (fix go (ps : list pat) (vs : list val) (e : env) : option env :=
         match ps, vs with
         | [], [] => Some e
         | p :: ps', v :: vs' => match bind_pat p v e with Some e' => go ps' vs' e' | None => None end
         | _, _ => None
         end) ps vs e
  | _, _ => None
  end.

(* iterate a body over a list of indices; the body may return early *)
Fixpoint for_each (l : list nat) (body : nat -> env -> option flow) (e : env) : option flow :=
  match l with
  | [] => Some (Norm e (RV VUnit))
  | i :: l' =>
      match body i e with
      | Some (Norm e' _) => for_each l' body e'
      | other => other
      end
  end.

Definition iter_item (ps : list place) (i : nat) : val :=
  match ps with
  | [q] => VRef (PIdx q i)
  | _ => VTuple (pmap (fun q => VRef (PIdx q i)) ps)
  end.

Definition cell_item (q : place) (i : nat) : val := VRef (PGet q i).
Definition group_item (q : place) (w : nat) (i : nat) : val := VRef (PCells q (i * w) w).
Definition chunk_item (q : place) (cs : nat) (i : nat) : val := VRef (PSlice q (i * cs) cs).

Definition arg_name (k : nat) : string :=
  match k with 0 => "$a0" | 1 => "$a1" | 2 => "$a2" | 3 => "$a3" | 4 => "$a4" | 5 => "$a5" | _ => "$a?" end.

Definition pop_to (n : nat) (e : env) : env := edrop (psub (elen e) n) e.

(* the value a `let` binds: the data (a copy), except that `let x = y.get_out();` binds the reference get_out returns *)
Definition let_val (e : env) (p : pat) (i : expr) (r : res) : option val :=
  let dflt := match p with PStruct _ _ _ => as_data e r | _ => as_val e r end in
  match i, r with
  | EMethod _ mn [], RP q => if mn =s "get_out" then Some (VRef (resolve e q)) else dflt
  | _, _ => dflt
  end.

Section Interp.
  Variable C : ctx.

  Section WithEv.
  Variable ev : env -> expr -> option flow.

  (* statements of a block, given the one-expression evaluator *)
  Fixpoint run_stmts (e : env) (ss : list stmt) : option flow :=
    match ss with
    | [] => Some (Norm e (RV VUnit))
    | s :: ss' =>
        let continue (e : env) (r : res) (semi : bool) :=
          match ss' with
          | [] => if semi then Some (Norm e (RV VUnit))
                  else match as_val e r with Some v => Some (Norm e (RV v)) | None => None end
          | _ => run_stmts e ss'
          end in
        match s with
        | SItem _ => continue e (RV VUnit) true
        | SLet p _ (Some i) =>
            bindF (ev e i) (fun e r =>
              match let_val e p i r with
              | Some v => match bind_pat p v e with Some e' => continue e' (RV VUnit) true | None => None end
              | None => None
              end)
        | SLet _ _ None => None
        | SExpr x semi => bindF (ev e x) (fun e r => continue e r semi)
        end
    end.

  Definition run_block (e : env) (ss : list stmt) : option flow :=
    let n := elen e in
    match run_stmts e ss with
    | Some (Norm e' r) => Some (Norm (pop_to n e') r)
    | Some (Ret e' v) => Some (Ret (pop_to n e') v)
    | None => None
    end.

  (* arguments, left to right *)
  Fixpoint eval_list (e : env) (es : list expr) : option (env * list res) + flow :=
    match es with
    | [] => inl (Some (e, []))
    | x :: es' =>
        match ev e x with
        | Some (Norm e1 r) =>
            match eval_list e1 es' with
            | inl (Some (e2, rs)) => inl (Some (e2, r :: rs))
            | other => other
            end
        | Some (Ret e1 v) => inr (Ret e1 v)
        | None => inl None
        end
    end.

  (* one iteration of a `for` loop: bind the pattern, run the body, drop the bindings *)
  Definition loop_step (p : pat) (body : list stmt) (item : nat -> val) (i : nat) (e : env) : option flow :=
    let n := elen e in
    match bind_pat p (item i) e with
    | Some e1 => match run_block e1 body with
                 | Some (Norm e2 r) => Some (Norm (pop_to n e2) r)
                 | Some (Ret e2 v) => Some (Ret (pop_to n e2) v)
                 | None => None
                 end
    | None => None
    end.

  Fixpoint eval_fields (e : env) (fs : list (string * expr)) : option (env * list res) + flow :=
    match fs with
    | [] => inl (Some (e, []))
    | (_, x) :: fs' =>
        match ev e x with
        | Some (Norm e1 r) =>
            match eval_fields e1 fs' with
            | inl (Some (e2, rs)) => inl (Some (e2, r :: rs))
            | other => other
            end
        | Some (Ret e1 v) => inr (Ret e1 v)
        | None => inl None
        end
    end.
  End WithEv.

  (* the block cipher: `recv.<m>(arg)` *)
  Definition cipher_call (e : env) (recv : val) (m : string) (arg : val) : option env :=
    match recv with
    | VCipher enc dec =>
        let go (ok : bool) (f : block -> block) (par : bool) :=
          if negb ok then None else
          let app (v : val) : option val :=
            match v, par with
            | VBlk b, false => Some (VBlk (f b))
            | VBlks l, true => Some (VBlks (map f l))
            | VCell c, false => Some (VCell (wr_out c (f (rd_in c))))                       (* an InOut block  *)
            | VCells cs, true => Some (VCells (map2 wr_out cs (map f (map rd_in cs))))      (* InOut ParBlocks *)
            | _, _ => None
            end in
          match arg with
          | VRef q =>                                   (* in place: (&mut t).into(), &mut t, self.iv.into() *)
              match rd e q with Some v => match app v with Some v' => wr e q v' | None => None end | None => None end
          | VTuple [src; VRef q] =>                     (* (src, &mut dst).into() *)
              match (match src with VRef s => rd e s | _ => Some src end) with
              | Some v => match app v with Some v' => wr e q v' | None => None end
              | None => None
              end
          | _ => None
          end in
        if (m =s "encrypt_block") || (m =s "encrypt_block_inplace") then go enc (cE C) false
        else if (m =s "decrypt_block") || (m =s "decrypt_block_inplace") then go dec (cD C) false
        else if (m =s "encrypt_par_blocks") || (m =s "encrypt_par_blocks_inplace") then go enc (cE C) true
        else if (m =s "decrypt_par_blocks") || (m =s "decrypt_par_blocks_inplace") then go dec (cD C) true
        else None
    | _ => None
    end.

  Fixpoint vals_of (e : env) (rs : list res) : option (list val) :=
    match rs with
    | [] => Some []
    | r :: rs' => match as_val e r, vals_of e rs' with Some v, Some vs => Some (v :: vs) | _, _ => None end
    end.

  Fixpoint data_of (e : env) (rs : list res) : option (list val) :=
    match rs with
    | [] => Some []
    | r :: rs' => match as_data e r, data_of e rs' with Some v, Some vs => Some (v :: vs) | _, _ => None end
    end.

  (* where an argument lives, if it is passed by reference *)
  Definition arg_place (e : env) (r : res) : option place :=
    match r with
    | RP p => Some (resolve e p)
    | RV (VRef q) => Some q
    | RV _ => None
    end.

  (* copy-out of by-reference arguments after a call *)
  Fixpoint copy_out (e : env) (rs : list res) (news : list val) : option env :=
    match rs, news with
    | [], [] => Some e
    | r :: rs', v :: news' =>
        match arg_place e r with
        | Some q => match wr e q v with Some e' => copy_out e' rs' news' | None => None end
        | None => copy_out e rs' news'
        end
    | _, _ => None
    end.

  (* callee frame: every argument lives in a private cell $a<k>, the parameter is a reference to it *)
  Fixpoint make_frame (k : nat) (ps : list pat) (ds : list val) (frame : env) : option env :=
    match ps, ds with
    | [], [] => Some frame
    | p :: ps', d :: ds' =>
        match bind_pat p (VRef (PVar (arg_name k))) ((arg_name k, d) :: frame) with
        | Some fr => make_frame (S k) ps' ds' fr
        | None => None
        end
    | _, _ => None
    end.

  Fixpoint frame_results (fr : env) (k : nat) (ds : list val) : option (list val) :=
    match ds with
    | [] => Some []
    | _ :: ds' =>
        match lookup (arg_name k) fr, frame_results fr (S k) ds' with
        | Some v, Some vs => Some (v :: vs)
        | _, _ => None
        end
    end.

  (* a translated function as a contract: argument data in, (result, argument data afterwards) out *)
  Definition call_src (ev : env -> expr -> option flow) (fd : fndef) (ds : list val) : option (val * list val) :=
    match make_frame 0 (fn_params fd) ds [] with
    | Some fr =>
        let finish (fr' : env) (v : val) :=
          match deref_deep 3 fr' v, frame_results fr' 0 ds with
          | Some v', Some news => Some (v', news)
          | _, _ => None
          end in
        match run_stmts ev fr (fn_body fd) with
        | Some (Norm fr' r) => match as_val fr' r with Some v => finish fr' v | None => None end
        | Some (Ret fr' v) => finish fr' v
        | None => None
        end
    | None => None
    end.

  (* [LF p body item i e]: one iteration of a `for` loop whose pattern is p and body is [body], at index i.
     It is a parameter here and instantiated below ([loopN]) by [loop_step] of the interpreter itself;
     keeping it abstract in [eval] lets proofs stop at a loop without dragging the interpreter along. *)
  Section WithLoops.
  Variable LF : pat -> list stmt -> (nat -> val) -> nat -> env -> option flow.

  Fixpoint eval (e : env) (x : expr) {struct x} : option flow :=
        let ev := eval in
        match x with
        | EPath p =>
            match lookup p e with
            | Some _ => Some (Norm e (RP (PVar p)))
            | None => match lookup p (consts C) with Some v => Some (Norm e (RV v)) | None => None end
            end
        | ELit n sfx =>
            if sfx =s "" then Some (Norm e (RV (VLit n)))
            else if sfx =s "usize" then Some (Norm e (RV (VNat (N.to_nat n))))
            else if sfx =s "u8" then Some (Norm e (RV (VInt 8 n)))
            else if sfx =s "u32" then Some (Norm e (RV (VInt 32 n)))
            else if sfx =s "u64" then Some (Norm e (RV (VInt 64 n)))
            else if sfx =s "u128" then Some (Norm e (RV (VInt 128 n)))
            else None
        | EStr s => Some (Norm e (RV (VStr s)))
        | EBool b => Some (Norm e (RV (VBoolV b)))
        | EField x f =>
            bindF (ev e x) (fun e r =>
              match r with
              | RV (VStruct _ fs) => match lookup f fs with Some v => Some (Norm e (RV v)) | None => None end
              | RV (VTuple vs) =>                                  (* `.0` / `.1` of a tuple value *)
                  match (if f =s "0" then nth_error vs 0 else if f =s "1" then nth_error vs 1 else None) with
                  | Some v => Some (Norm e (RV v)) | None => None end
              | _ => match as_place e r with Some p => Some (Norm e (RP (PFld p f))) | None => None end
              end)
        | EIndex x i =>
            bindF (ev e x) (fun e r =>
            bindF (ev e i) (fun e ri =>
              match as_place e r, as_data e ri with
              | Some p, Some (VRange lo hi) =>
                  match rd e p with
                  | Some v =>
                      match vlen v with
                      | Some n =>
                          let lo := match lo with Some a => a | None => 0 end in
                          let hi := match hi with Some b => b | None => n end in
                          if le_ok lo hi && le_ok hi n then Some (Norm e (RP (PSlice p lo (hi - lo)))) else None
                      | None => None
                      end
                  | None => None
                  end
              | Some p, Some vi => match to_nat vi with Some k => Some (Norm e (RP (PIdx p k))) | None => None end
              | None, Some (VRange lo hi) =>                       (* a sub-slice of a slice value, e.g. `x.get_in()[..n]` *)
                  match r with
                  | RV (VBlk b) =>
                      let lo := match lo with Some a => a | None => 0 end in
                      let hi := match hi with Some c => c | None => length b end in
                      if le_ok lo hi && le_ok hi (length b) then Some (Norm e (RV (VBlk (firstn (hi - lo) (skipn lo b))))) else None
                  | _ => None
                  end
              | _, _ => None
              end))
        | ERange lo hi incl =>
            let bound (e : env) (o : option expr) (k : env -> option nat -> option flow) : option flow :=
              match o with
              | None => k e None
              | Some b => bindF (ev e b) (fun e r =>
                            match as_data e r with
                            | Some v => match to_nat v with Some n => k e (Some n) | None => None end
                            | None => None
                            end)
              end in
            bound e lo (fun e lo => bound e hi (fun e hi =>
              Some (Norm e (RV (VRange lo (if incl then option_map S hi else hi))))))
        | ERef _ x =>
            bindF (ev e x) (fun e r =>
              match r with
              | RP p => Some (Norm e (RV (VRef (resolve e p))))
              | RV v => Some (Norm e (RV v))
              end)
        | EDeref x =>
            bindF (ev e x) (fun e r =>
              match as_val e r with
              | Some (VRef q) => Some (Norm e (RP q))
              | Some _ => Some (Norm e r)
              | None => None
              end)
        | EBin op a b =>
            bindF (ev e a) (fun e ra =>
              match as_data e ra with
              | Some va =>
                  bindF (ev e b) (fun e rb =>
                    match as_data e rb with
                    | Some vb => match arith op va vb with Some v => Some (Norm e (RV v)) | None => None end
                    | None => None
                    end)
              | None => None
              end)
        | EAssign l r =>
            bindF (ev e r) (fun e rr =>
              match as_val e rr with
              | Some raw =>
                  bindF (ev e l) (fun e rl =>
                    match rl with
                    | RP p =>
                        match raw, rd e p with
                        | VRef _, Some (VRef _) =>                      (* re-binding a reference variable *)
                            match wr e p raw with Some e' => Some (Norm e' (RV VUnit)) | None => None end
                        | _, _ =>
                            match as_data e (RV raw) with
                            | Some d => match wr e (resolve e p) d with Some e' => Some (Norm e' (RV VUnit)) | None => None end
                            | None => None
                            end
                        end
                    | _ => None
                    end)
              | None => None
              end)
        | EAssignOp op l r =>
            bindF (ev e r) (fun e rr =>
              match as_data e rr with
              | Some vr =>
                  bindF (ev e l) (fun e rl =>
                    match as_place e rl with
                    | Some p =>
                        match rd e p with
                        | Some vl =>
                            match arith op vl vr with
                            | Some v => match wr e p v with Some e' => Some (Norm e' (RV VUnit)) | None => None end
                            | None => None
                            end
                        | None => None
                        end
                    | None => None
                    end)
              | None => None
              end)
        | ETuple es =>
            match eval_list ev e es with
            | inl (Some (e, rs)) => match vals_of e rs with Some vs => Some (Norm e (RV (VTuple vs))) | None => None end
            | inl None => None
            | inr fl => Some fl
            end
        | EStruct name fs =>
            match eval_fields ev e fs with
            | inl (Some (e, rs)) =>
                match vals_of e rs with
                | Some vs => Some (Norm e (RV (VStruct name (pzip (pmap fst fs) vs))))
                | None => None
                end
            | inl None => None
            | inr fl => Some fl
            end
        | EIf c t el =>
            bindF (ev e c) (fun e r =>
              match as_data e r with
              | Some (VBoolV true) => run_block ev e t
              | Some (VBoolV false) => run_block ev e el
              | _ => None
              end)
        | EBlock b => run_block ev e b
        | EFor p it body =>
            bindF (ev e it) (fun e r =>
              match as_val e r with
              | Some (VRange (Some a) (Some b)) =>
                  for_each (seq a (b - a)) (LF p body VNat) e
              | Some (VIter ps lo n) =>
                  for_each (seq lo n) (LF p body (iter_item ps)) e
              | Some (VGroups q w n) => for_each (seq 0 n) (LF p body (group_item q w)) e
              | Some (VCells cs) =>                             (* `for block in blocks` over an InOutBuf<Block> *)
                  match as_place e r with
                  | Some q => for_each (seq 0 (length cs)) (LF p body (cell_item q)) e
                  | None => None
                  end
              | Some (VRef pc) =>                               (* `for chunk in &mut chunks` *)
                  match rd e pc with
                  | Some (VChunks q cs n _) => for_each (seq 0 n) (LF p body (chunk_item q cs)) e
                  | Some (VCells cs) => for_each (seq 0 (length cs)) (LF p body (cell_item pc)) e
                  | _ => None
                  end
              | _ => None
              end)
        | ETry x => ev e x
        | EReturn None => Some (Ret e VUnit)
        | EReturn (Some x) =>
            bindF (ev e x) (fun e r => match as_val e r with Some v => Some (Ret e v) | None => None end)
        | ECfg c x =>
            if c =s "cfg(feature=""zeroize"")" then
              (if cfg_zeroize C then ev e x else Some (Norm e (RV VUnit)))
            else None
        | ECall fname args =>
            match eval_list ev e args with
            | inl (Some (e, rs)) =>
                match lookup fname (fns C) with
                | Some impl =>
                    match data_of e rs with
                    | Some ds =>
                        match (match impl with FSem sem => sem ds | FSrc _ => None end) with
                        | Some (v, news) => match copy_out e rs news with Some e' => Some (Norm e' (RV v)) | None => None end
                        | None => None
                        end
                    | None => None
                    end
                | None =>
                    match args with
                    | [] => match lookup (fname ++ "()") (consts C) with Some v => Some (Norm e (RV v)) | None => None end
                    | _ => match data_of e rs with
                           | Some ds => match builtin_call fname ds with Some v => Some (Norm e (RV v)) | None => None end
                           | None => None
                           end
                    end
                end
            | inl None => None
            | inr fl => Some fl
            end
        | EMethod recv m args =>
            bindF (ev e recv) (fun e r =>
              match eval_list ev e args with
              | inl (Some (e, rs)) =>
                  if (m =s "try_into") && (match lookup "try_into::LEN" (consts C) with Some _ => true | None => false end) then
                    (* `slice.try_into()` to an array whose length the context fixes: the unwrap that follows panics on any other length *)
                    match as_data e r, lookup "try_into::LEN" (consts C), rs with
                    | Some (VBlk b), Some (VNat k), [] => if len_eq (length b) k then Some (Norm e (RV (VBlk b))) else None
                    | _, _, _ => None
                    end
                  else if is_identity_method m then
                    match rs with [] => Some (Norm e r) | _ => None end
                  else if m =s "clone" then                      (* a copy of the data, never an alias *)
                    match rs, as_data e r with [], Some v => Some (Norm e (RV v)) | _, _ => None end
                  else if m =s "get_out" then
                    match as_place e r, rs with Some p, [] => Some (Norm e (RP (POut p))) | _, _ => None end
                  else if m =s "last_mut" then                   (* `slice_of_blocks.last_mut()`, always followed by unwrap: None = panic *)
                    match as_place e r, rs with
                    | Some p, [] =>
                        match rd e p with
                        | Some (VBlks l) => if in_range 0 (length l) then Some (Norm e (RV (VRef (PIdx p (length l - 1))))) else None
                        | _ => None
                        end
                    | _, _ => None
                    end
                  else if m =s "split_last_mut" then             (* (last, rest) of a slice of blocks, always followed by unwrap *)
                    match as_place e r, rs with
                    | Some p, [] =>
                        match rd e p with
                        | Some (VBlks l) =>
                            if in_range 0 (length l)
                            then Some (Norm e (RV (VTuple [VRef (PIdx p (length l - 1)); VRef (PSlice p 0 (length l - 1))]))) else None
                        | _ => None
                        end
                    | _, _ => None
                    end
                  else if m =s "split_at" then                   (* InOutBuf::split_at on blocks or on bytes *)
                    match as_place e r, data_of e rs with
                    | Some p, Some [vk] =>
                        match to_nat vk, rd e p with
                        | Some k, Some (VCells cs) =>
                            if le_ok k (length cs)
                            then Some (Norm e (RV (VTuple [VRef (PCells p 0 k); VRef (PCells p k (length cs - k))]))) else None
                        | Some k, Some (VBuf _ _ o) =>
                            if le_ok k (length o)
                            then Some (Norm e (RV (VTuple [VRef (PBytes p 0 k); VRef (PBytes p k (length o - k))]))) else None
                        | _, _ => None
                        end
                    | _, _ => None
                    end
                  else if m =s "get" then
                    match as_place e r, data_of e rs with
                    | Some p, Some [vi] => match to_nat vi with Some k => Some (Norm e (RP (PGet p k))) | None => None end
                    | _, _ => None
                    end
                  else if m =s "xor_in2out" then
                    match as_place e r, data_of e rs with
                    | Some p, Some [VBlk k] =>
                        match rd e p with
                        | Some (VCell c) =>
                            match wr e p (VCell (xor_in2out c k)) with Some e' => Some (Norm e' (RV VUnit)) | None => None end
                        | _ => None
                        end
                    | _, _ => None
                    end
                  else if m =s "split_at_mut" then
                    match as_place e r, data_of e rs with
                    | Some q, Some [vk] =>
                        match to_nat vk, rd e q with
                        | Some k, Some v =>
                            match vlen v with
                            | Some total =>
                                if le_ok k total
                                then Some (Norm e (RV (VTuple [VRef (PSlice q 0 k); VRef (PSlice q k (total - k))])))
                                else None
                            | None => None
                            end
                        | _, _ => None
                        end
                    | _, _ => None
                    end
                  else if m =s "chunks_exact_mut" then
                    match as_place e r, data_of e rs with
                    | Some q, Some [vk] =>
                        match to_nat vk, rd e q with
                        | Some cs, Some v =>
                            match vlen v with
                            | Some total =>
                                if in_range 0 cs then Some (Norm e (RV (VChunks q cs (ndiv total cs) total))) else None
                            | None => None
                            end
                        | _, _ => None
                        end
                    | _, _ => None
                    end
                  else if m =s "into_chunks" then
                    (* InOutBuf<Block>::into_chunks::<N>(): the chunk size N is fixed by type inference (the backend's
                       ParBlocksSize in cts/src/lib.rs); the context supplies it as the constant "into_chunks::N" *)
                    match (match as_place e r with Some q => rd e q | None => None end), lookup "into_chunks::BS" (consts C) with
                    | Some (VBuf _ _ o), Some (VNat bsz) =>     (* InOutBuf<u8> -> (whole blocks, tail); block size from the context *)
                        match as_place e r, rs with
                        | Some q, [] =>
                            if in_range 0 bsz then
                              let n := ndiv (length o) bsz in
                              Some (Norm e (RV (VTuple [VRef (PBlocks q 0 n bsz); VRef (PBytes q (n * bsz) (length o - n * bsz))])))
                            else None
                        | _, _ => None
                        end
                    | _, _ =>
                    match as_place e r, rs, lookup "into_chunks::N" (consts C) with
                    | Some q, [], Some (VNat w) =>
                        match rd e q with
                        | Some (VCells cs) =>
                            if in_range 0 w then
                              let n := ndiv (length cs) w in
                              Some (Norm e (RV (VTuple [VGroups q w n; VRef (PCells q (n * w) (length cs - n * w))])))
                            else None
                        | _ => None
                        end
                    | _, _, _ => None
                    end
                    end
                  else if m =s "into_remainder" then
                    match as_data e r, rs with
                    | Some (VChunks q cs n total), [] =>
                        Some (Norm e (RV (VRef (PSlice q (n * cs) (total - n * cs)))))
                    | _, _ => None
                    end
                  else if m =s "iter_mut" then
                    match as_place e r, rs with
                    | Some p, [] =>
                        match rd e p with
                        | Some v => match vlen v with Some n => Some (Norm e (RV (VIter [p] 0 n))) | None => None end
                        | None => None
                        end
                    | _, _ => None
                    end
                  else if m =s "zip" then
                    match as_val e r, rs with
                    | Some (VIter ps lo n), [r2] =>
                        match as_place e r2 with
                        | Some q =>
                            match rd e q with
                            | Some v => match vlen v with
                                        | Some n2 => Some (Norm e (RV (VIter (papp ps [q]) lo (Nat.min n n2))))
                                        | None => None
                                        end
                            | None => None
                            end
                        | None => None
                        end
                    | _, _ => None
                    end
                  else if m =s "copy_from_slice" then
                    match as_place e r, data_of e rs with
                    | Some p, Some [VBlk s] => match wr e p (VBlk s) with Some e' => Some (Norm e' (RV VUnit)) | None => None end
                    | _, _ => None
                    end
                  else if m =s "zeroize" then
                    match as_place e r, rs with
                    | Some p, [] =>
                        match rd e p with
                        | Some v => match zero_of v with
                                    | Some z => match wr e p z with Some e' => Some (Norm e' (RV VUnit)) | None => None end
                                    | None => None
                                    end
                        | None => None
                        end
                    | _, _ => None
                    end
                  else if m =s "write_str" then
                    match as_place e r, data_of e rs with
                    | Some p, Some [VStr s] =>
                        match rd e p with
                        | Some (VFmt out) => match wr e p (VFmt (out ++ [s])) with Some e' => Some (Norm e' (RV VUnit)) | None => None end
                        | _ => None
                        end
                    | _, _ => None
                    end
                  else
                    match as_data e r with
                    | Some (VCipher enc dec) =>
                        match vals_of e rs with
                        | Some [a; b] =>                         (* `cipher.encrypt_block_b2b(src, &mut dst)` *)
                            let m' := if m =s "encrypt_block_b2b" then Some "encrypt_block"
                                      else if m =s "decrypt_block_b2b" then Some "decrypt_block" else None in
                            match m' with
                            | Some m' =>
                                match cipher_call e (VCipher enc dec) m' (VTuple [a; b]) with
                                | Some e' => Some (Norm e' (RV VUnit))
                                | None => None
                                end
                            | None => None
                            end
                        | Some [a] =>
                            (* an argument given as a place (e.g. `self.iv.into()`) is passed by reference *)
                            let a' := match a, rs with
                                      | VRef _, _ | VTuple _, _ => a
                                      | _, [RP p] => VRef (resolve e p)
                                      | _, _ => a
                                      end in
                            match cipher_call e (VCipher enc dec) m a' with
                            | Some e' => Some (Norm e' (RV VUnit))
                            | None => None
                            end
                        | _ => None
                        end
                    | Some d =>
                        match lookup ("method:" ++ m) (fns C), data_of e rs with
                        | Some (FSem sem), Some ds =>          (* a method given by a contract: receiver first *)
                            match sem (d :: ds) with
                            | Some (v, d' :: news) =>
                                let e1 := match as_place e r with
                                          | Some q => wr e q d'
                                          | None => Some e
                                          end in
                                match e1 with
                                | Some e1 => match copy_out e1 rs news with Some e2 => Some (Norm e2 (RV v)) | None => None end
                                | None => None
                                end
                            | _ => None
                            end
                        | _, Some ds => match data_method C d m ds with Some v => Some (Norm e (RV v)) | None => None end
                        | _, None => None
                        end
                    | None => None
                    end
              | inl None => None
              | inr fl => Some fl
              end)
        | EUn op x =>
            bindF (ev e x) (fun e r =>
              match as_data e r with
              | Some (VBoolV b) => if op =s "!" then Some (Norm e (RV (VBoolV (negb b)))) else None
              | _ => None
              end)
        | ECast _ _ | EMacro _ _ | EClosure _ _ | EUnsupported _ => None
        end.

  End WithLoops.

  (* loops nested at most k deep *)
  Fixpoint loopN (k : nat) : pat -> list stmt -> (nat -> val) -> nat -> env -> option flow :=
    match k with
    | O => fun _ _ _ _ _ => None
    | S k' => loop_step (eval (loopN k'))
    end.

  Definition LOOP_DEPTH : nat := 3.
  Definition evalC : env -> expr -> option flow := eval (loopN LOOP_DEPTH).

  Definition call_fn (fd : fndef) (ds : list val) : option (val * list val) :=
    call_src evalC fd ds.

  (* run a function body in a prepared environment *)
  Definition run_body (e : env) (fd : fndef) : option (env * val) :=
    match run_stmts evalC e (fn_body fd) with
    | Some (Norm e' r) => match as_val e' r with Some v => Some (e', v) | None => None end
    | Some (Ret e' v) => Some (e', v)
    | None => None
    end.
End Interp.

