(* Cell.v -- block-granular model of `inout::InOut` / `InOutBuf<Block>` and of the drivers in
   `cipher::block::ctx` (BlockCtx / BlocksCtx) that every block mode in /repo is run through.

   A cell is one block-sized slot with an input side and an output side.  [alias = true] models the
   in-place case (in_ptr == out_ptr): whatever has been written to the output is what a later read
   of the input sees.  Bodies of the backends are written with the primitives below only, so a body
   that reads its input after writing its output, or reads the output before writing it, behaves
   differently in place and buffer-to-buffer -- which is what property C12 is about. *)
From BM Require Export Base.

Record cell := mkcell { alias : bool; cin : block; cout : block }.

Definition rd_in (c : cell) : block := if alias c then cout c else cin c.      (* get_in / clone_in *)
Definition rd_out (c : cell) : block := cout c.                                 (* *get_out() read  *)
Definition wr_out (c : cell) (v : block) : cell := mkcell (alias c) (cin c) v.  (* *get_out() = v   *)
Definition xor_in2out (c : cell) (k : block) : cell := wr_out c (xorb (rd_in c) k).

Definition cell_ip (d : block) : cell := mkcell true d d.             (* From<&mut T>       *)
Definition cell_b2b (d junk : block) : cell := mkcell false d junk.   (* From<(&T, &mut T)> *)

Lemma rd_in_ip d : rd_in (cell_ip d) = d.            Proof. reflexivity. Qed.
Lemma rd_in_b2b d j : rd_in (cell_b2b d j) = d.      Proof. reflexivity. Qed.
Lemma cout_wr_out c v : cout (wr_out c v) = v.       Proof. reflexivity. Qed.

(* cells of an `InOutBuf<Block>`: in place, or from an input and a (junk-filled) output list *)
Definition cells_ip (ds : list block) : list cell := map cell_ip ds.
Fixpoint cells_b2b (ds junk : list block) : list cell :=
  match ds, junk with
  | d :: ds', j :: junk' => cell_b2b d j :: cells_b2b ds' junk'
  | _, _ => []
  end.

Lemma map_rd_in_ip ds : map rd_in (cells_ip ds) = ds.
Proof. induction ds as [|d ds IH]; simpl; auto. now rewrite IH. Qed.

Lemma map_rd_in_b2b ds junk : length ds = length junk -> map rd_in (cells_b2b ds junk) = ds.
Proof. revert junk; induction ds as [|d ds IH]; intros [|j junk] H; simpl in *; try discriminate; auto.
  rewrite IH; auto. Qed.

Lemma cells_b2b_length ds junk : length junk = length ds -> length (cells_b2b ds junk) = length ds.
Proof. revert junk; induction ds as [|d ds IH]; intros [|j junk] H; simpl in *; try discriminate; auto. Qed.

(* ---------------------------------------------------------------------------------------------- *)
(* running a single-block body over a list of cells, left to right                                  *)

Section Fold.
  Context {S : Type}.
  Variable single : S -> cell -> S * cell.

  Fixpoint fold_cells (st : S) (cs : list cell) : S * list cell :=
    match cs with
    | [] => (st, [])
    | c :: cs' =>
        let '(st1, c1) := single st c in
        let '(st2, cs2) := fold_cells st1 cs' in
        (st2, c1 :: cs2)
    end.

  Lemma fold_cells_app st a b :
    fold_cells st (a ++ b) =
    let '(st1, a1) := fold_cells st a in
    let '(st2, b1) := fold_cells st1 b in (st2, a1 ++ b1).
  Proof.
    revert st; induction a as [|c a IH]; intros st; simpl.
    - destruct (fold_cells st b); auto.
    - destruct (single st c) as [st1 c1]. rewrite IH.
      destruct (fold_cells st1 a) as [st2 a1]. destruct (fold_cells st2 b) as [st3 b1]. reflexivity.
  Qed.

  Lemma fold_cells_length st cs : length (snd (fold_cells st cs)) = length cs.
  Proof. revert st; induction cs as [|c cs IH]; intros st; simpl; auto.
    destruct (single st c) as [st1 c1]. specialize (IH st1).
    destruct (fold_cells st1 cs); simpl in *; auto. Qed.

  (* --- the drivers of cipher::block::ctx ---------------------------------------------------- *)
  Variable w : nat.                                        (* the backend's ParBlocksSize      *)
  Variable par : S -> list cell -> S * list cell.           (* *_par_blocks on exactly w cells   *)

  Fixpoint fold_par (st : S) (chs : list (list cell)) : S * list cell :=
    match chs with
    | [] => (st, [])
    | ch :: chs' =>
        let '(st1, o1) := par st ch in
        let '(st2, o2) := fold_par st1 chs' in
        (st2, o1 ++ o2)
    end.

  (* BlocksCtx::call *)
  Definition blocks_ctx (st : S) (cs : list cell) : S * list cell :=
    if 1 <? w then
      let '(chs, tail) := chunks w cs in
      let '(st1, o1) := fold_par st chs in
      let '(st2, o2) := fold_cells st1 tail in      (* *_tail_blocks: assert!(len < w); loop  *)
      (st2, o1 ++ o2)
    else fold_cells st cs.

  (* C07, generic half: if the parallel body agrees with the single-block loop on w cells, the
     driver is the single-block loop, whatever the number of blocks *)
  Hypothesis par_ok : forall st ch, length ch = w -> par st ch = fold_cells st ch.

  Lemma fold_par_ok st chs : all_len w chs -> fold_par st chs = fold_cells st (concat chs).
  Proof.
    intros H; revert st; induction H as [|ch chs Hc _ IH]; intros st; simpl; auto.
    rewrite par_ok by auto. rewrite fold_cells_app.
    destruct (fold_cells st ch) as [st1 o1]. rewrite IH. destruct (fold_cells st1 (concat chs)). reflexivity.
  Qed.

  Theorem blocks_ctx_fold st cs : blocks_ctx st cs = fold_cells st cs.
  Proof.
    unfold blocks_ctx. destruct (Nat.ltb_spec 1 w) as [Hw|Hw]; auto.
    destruct (chunks_decompose w cs) as (chs & t & E & Hall & Ht & Hc); [lia|].
    subst cs. rewrite Hc, fold_par_ok by auto. rewrite fold_cells_app.
    destruct (fold_cells st (concat chs)) as [st1 o1]. destruct (fold_cells st1 t). reflexivity.
  Qed.
End Fold.

(* the default `*_par_blocks` of the backend traits: `for i in 0..W { single(blocks.get(i)) }` *)
Definition default_par {S} (single : S -> cell -> S * cell) : S -> list cell -> S * list cell :=
  fold_cells single.

(* ---------------------------------------------------------------------------------------------- *)
(* call schedules: how a caller cuts a block sequence into API calls                                *)

Inductive call := CSingle | CMulti (k : nat).

Definition call_size (c : call) : nat := match c with CSingle => 1 | CMulti k => k end.

Section Sched.
  Context {S : Type}.
  Variable single : S -> cell -> S * cell.
  Variable w : nat.
  Variable par : S -> list cell -> S * list cell.

  (* one API call on the next [call_size] cells: `*_block*` goes through BlockCtx (the single-block
     body), `*_blocks*` through BlocksCtx *)
  Definition run_call (st : S) (c : call) (cs : list cell) : S * list cell :=
    match c with
    | CSingle => fold_cells single st cs       (* cs has one element *)
    | CMulti _ => blocks_ctx single w par st cs
    end.

  Fixpoint run_sched (st : S) (sched : list call) (cs : list cell) : S * list cell :=
    match sched with
    | [] => (st, [])
    | c :: sched' =>
        let '(st1, o1) := run_call st c (firstn (call_size c) cs) in
        let '(st2, o2) := run_sched st1 sched' (skipn (call_size c) cs) in
        (st2, o1 ++ o2)
    end.

  Definition sched_total (sched : list call) : nat := fold_right (fun c n => call_size c + n) 0 sched.

  Hypothesis par_ok : forall st ch, length ch = w -> par st ch = fold_cells single st ch.

  (* C07: any schedule = one block at a time, same output cells and same final state *)
  Theorem run_sched_fold sched : forall st cs, sched_total sched = length cs ->
    run_sched st sched cs = fold_cells single st cs.
  Proof.
    induction sched as [|c sched IH]; intros st cs Hlen; simpl in *.
    - destruct cs; simpl in *; auto; lia.
    - assert (Hc : run_call st c (firstn (call_size c) cs) = fold_cells single st (firstn (call_size c) cs)).
      { destruct c; simpl; auto. apply blocks_ctx_fold; auto. }
      rewrite Hc. transitivity (fold_cells single st (firstn (call_size c) cs ++ skipn (call_size c) cs));
        [|now rewrite firstn_skipn]. rewrite fold_cells_app.
      destruct (fold_cells single st (firstn (call_size c) cs)) as [st1 o1].
      rewrite IH; [destruct (fold_cells single st1 (skipn (call_size c) cs)); reflexivity|].
      rewrite skipn_length. lia.
  Qed.
End Sched.
