(* Cts.v -- cts/src/lib.rs (helpers ecb_enc, ecb_dec, cbc_enc, cbc_dec) and the twelve closure
   bodies of cts/src/{cbc,ecb}_cs{1,2,3}.rs, byte-granular.

   Memory: one InOutBuf<u8> = (al, in, out) with |in| = |out|; views into it are (offset, length)
   pairs computed exactly as the Rust code computes them.  Every `usize` subtraction, slice and
   `unwrap` that can panic in Rust is a partial primitive (Outcome.v), so `<> Panic` is a real
   statement about these bodies. *)
From BM Require Export Outcome Cipher Plumbing.

Record mem := mkmem { m_al : bool; m_in : list N; m_out : list N }.

Definition msrc (m : mem) : list N := if m_al m then m_out m else m_in m.
Definition mlen (m : mem) : nat := length (m_out m).
Definition mget_in (m : mem) (off len : nat) : outcome (list N) := slice (msrc m) off (off + len).
Definition mget_out (m : mem) (off len : nat) : outcome (list N) := slice (m_out m) off (off + len).
Definition mput_out (m : mem) (off : nat) (v : list N) : outcome mem :=
  if off + length v <=? length (m_out m)
  then Ok (mkmem (m_al m) (m_in m) (splice (m_out m) off v)) else Panic.

Section Cts.
  Variable C : cipher.
  Let bs := c_bs C.
  Let w := c_w C.
  Let E := c_E C.
  Let D := c_D C.

  (* the nb whole blocks starting at byte off, as cells *)
  Definition mcells (m : mem) (off nb : nat) : list cell :=
    cells_of bs (m_al m) (firstn (nb * bs) (skipn off (m_in m))) (firstn (nb * bs) (skipn off (m_out m))).

  (* run a block-level body over that region and write the outputs back *)
  Definition mrun {S} (f : S -> list cell -> S * list cell) (st : S) (m : mem) (off nb : nat) : outcome (S * mem) :=
    let '(st', cs') := f st (mcells m off nb) in
    do m' <- mput_out m off (outs_of cs');
    Ok (st', m').

  (* ---- cts/src/lib.rs ---- *)
  Definition ecb_e_block (st : unit) (c : cell) : unit * cell := (st, wr_out c (E (rd_in c))).
  Definition ecb_e_par (st : unit) (cs : list cell) : unit * list cell := (st, map2 wr_out cs (map E (map rd_in cs))).
  Definition ecb_d_block (st : unit) (c : cell) : unit * cell := (st, wr_out c (D (rd_in c))).
  Definition ecb_d_par (st : unit) (cs : list cell) : unit * list cell := (st, map2 wr_out cs (map D (map rd_in cs))).
  Definition cts_ecb_enc := blocks_ctx ecb_e_block w ecb_e_par.
  Definition cts_ecb_dec := blocks_ctx ecb_d_block w ecb_d_par.

  Definition cts_cbc_enc_block (iv : block) (c : cell) : block * cell :=
    let t := rd_in c in
    let t := xorb t iv in
    let t := E t in
    (t, wr_out c t).
  Definition cts_cbc_enc := fold_cells cts_cbc_enc_block.          (* no parallel path *)

  Definition cts_cbc_dec_block (iv : block) (c : cell) : block * cell :=
    let in_block := rd_in c in
    let t := rd_in c in
    let t := D t in
    let t := xorb t iv in
    (in_block, wr_out c t).
  Definition cts_cbc_dec_par (iv : block) (cs : list cell) : block * list cell :=
    let in_blocks := map rd_in cs in
    let t := map D (map rd_in cs) in
    let t := map2 xorb t (iv :: in_blocks) in
    (last in_blocks iv, map2 wr_out cs t).
  Definition cts_cbc_dec := blocks_ctx cts_cbc_dec_block w cts_cbc_dec_par.

  (* block[..n] = a; block[n..] = b[n..]   (|a| = n) *)
  Definition mix (a b : block) : block := a ++ skipn (length a) b.

  (* ---- CBC-CS1 ---- *)
  Definition cbc_cs1_enc (iv : block) (m : mem) : outcome mem :=
    let L := mlen m in
    if L <? bs then Err else
    let nb := L / bs in let tl := L mod bs in
    do r <- mrun cts_cbc_enc iv m 0 nb;
    let '(iv1, m1) := r in
    if tl =? 0 then Ok m1 else
    do tin <- mget_in m1 (nb * bs) tl;
    let blk := tin ++ zeros (bs - tl) in
    let blk := E (xorb blk iv1) in
    do pos <- usub L bs;
    mput_out m1 pos blk.

  (* common prelude of the CS1/CS2 decryptors: all whole blocks but the last one when a tail exists *)
  Definition cs12_dec_main (iv : block) (m : mem) (nb tl : nat) : outcome (block * mem) :=
    if tl =? 0 then mrun cts_cbc_dec iv m 0 nb
    else do mid <- usub nb 1; mrun cts_cbc_dec iv m 0 mid.

  Definition cbc_cs1_dec (iv : block) (m : mem) : outcome mem :=
    let L := mlen m in
    if L <? bs then Err else
    let nb := L / bs in let tl := L mod bs in
    do r <- cs12_dec_main iv m nb tl;
    let '(iv1, m1) := r in
    if tl =? 0 then Ok m1 else
    do mid <- usub L (bs + tl);
    let n := tl in                                       (* rem.len() - bs *)
    do block1 <- mget_in m1 mid bs;                      (* rem.get_in()[..bs] *)
    do block2 <- mget_in m1 (mid + n) bs;                (* rem.get_in()[n..]  *)
    let block2 := D block2 in
    let block1 := firstn n block1 ++ skipn n block2 in   (* block1[n..] = block2[n..] *)
    let block2 := xorb block2 block1 in
    let block1 := xorb (D block1) iv1 in
    do m2 <- mput_out m1 mid block1;
    mput_out m2 (mid + bs) (firstn n block2).

  (* ---- CBC-CS2 ---- *)
  (* the stealing step shared by CS2 and CS3 (tail non-empty) *)
  Definition cbc_steal_enc (iv1 : block) (m1 : mem) (nb tl : nat) : outcome mem :=
    do tin <- mget_in m1 (nb * bs) tl;
    let blk := tin ++ zeros (bs - tl) in
    let blk := E (xorb blk iv1) in
    do lastoff <- usub nb 1;                             (* blocks.get_out().last_mut().unwrap() *)
    do penult <- mget_out m1 (lastoff * bs) bs;
    do m2 <- mput_out m1 (lastoff * bs) blk;             (* mem::replace(last, block) *)
    mput_out m2 (nb * bs) (firstn tl penult).            (* tail.get_out() = penult[..tl] *)

  Definition cbc_cs2_enc (iv : block) (m : mem) : outcome mem :=
    let L := mlen m in
    if L <? bs then Err else
    let nb := L / bs in let tl := L mod bs in
    do r <- mrun cts_cbc_enc iv m 0 nb;
    let '(iv1, m1) := r in
    if tl =? 0 then Ok m1 else cbc_steal_enc iv1 m1 nb tl.

  (* un-stealing shared by the CS2 and CS3 decryptors, on the last bs + n bytes starting at mid *)
  Definition cbc_unsteal_dec (iv1 : block) (m1 : mem) (mid n : nat) : outcome mem :=
    do block1 <- mget_in m1 mid bs;
    let block1 := D block1 in
    do t <- mget_in m1 (mid + bs) n;
    let block2 := t ++ skipn n block1 in                 (* block2[..n] = in[bs..]; block2[n..] = block1[n..] *)
    let block1 := xorb block1 block2 in
    let block2 := xorb (D block2) iv1 in
    do m2 <- mput_out m1 mid block2;
    mput_out m2 (mid + bs) (firstn n block1).

  Definition cbc_cs2_dec (iv : block) (m : mem) : outcome mem :=
    let L := mlen m in
    if L <? bs then Err else
    let nb := L / bs in let tl := L mod bs in
    do r <- cs12_dec_main iv m nb tl;
    let '(iv1, m1) := r in
    if tl =? 0 then Ok m1 else
    do mid <- usub L (bs + tl);
    cbc_unsteal_dec iv1 m1 mid tl.

  (* ---- CBC-CS3 ---- *)
  Definition swap_last_two (m : mem) (nb : nat) : outcome mem :=
    do a <- mget_out m ((nb - 2) * bs) bs;
    do b <- mget_out m ((nb - 1) * bs) bs;
    do m1 <- mput_out m ((nb - 2) * bs) b;
    mput_out m1 ((nb - 1) * bs) a.

  Definition cbc_cs3_enc (iv : block) (m : mem) : outcome mem :=
    let L := mlen m in
    if L <? bs then Err else
    let nb := L / bs in let tl := L mod bs in
    do r <- mrun cts_cbc_enc iv m 0 nb;
    let '(iv1, m1) := r in
    if tl =? 0 then (if 1 <? nb then swap_last_two m1 nb else Ok m1)     (* one block: plain CBC *)
    else cbc_steal_enc iv1 m1 nb tl.

  Definition cbc_cs3_dec (iv : block) (m : mem) : outcome mem :=
    let L := mlen m in
    if L <? bs then Err else
    if L =? bs then                                      (* one block: plain CBC *)
      do r <- mrun cts_cbc_dec iv m 0 (L / bs); Ok (snd r)
    else
    let blocks_len := (L + bs - 1) / bs in               (* div_ceil *)
    let main := blocks_len - 2 in                        (* saturating_sub *)
    do r <- mrun cts_cbc_dec iv m 0 main;
    let '(iv1, m1) := r in
    do n <- usub (L - bs * main) bs;                     (* tail.len() - bs *)
    cbc_unsteal_dec iv1 m1 (bs * main) n.

  (* ---- ECB-CS1 ---- *)
  Definition ecb_cs1_enc (m : mem) : outcome mem :=
    let L := mlen m in
    if L <? bs then Err else
    let nb := L / bs in let tl := L mod bs in
    do r <- mrun cts_ecb_enc tt m 0 nb;
    let '(_, m1) := r in
    if tl =? 0 then Ok m1 else
    do lastoff <- usub nb 1;
    do last_block <- mget_out m1 (lastoff * bs) bs;
    do tin <- mget_in m1 (nb * bs) tl;
    let blk := E (mix tin last_block) in
    do pos <- usub L bs;
    mput_out m1 pos blk.

  Definition ecb_cs1_dec (m : mem) : outcome mem :=
    let L := mlen m in
    if L <? bs then Err else
    let nb := L / bs in let tl := L mod bs in
    do r <- (if tl =? 0 then mrun cts_ecb_dec tt m 0 nb
             else do mid <- usub nb 1; mrun cts_ecb_dec tt m 0 mid);
    let '(_, m1) := r in
    if tl =? 0 then Ok m1 else
    do mid <- usub L (bs + tl);
    let n := tl in
    do block1 <- mget_in m1 mid bs;
    do block2 <- mget_in m1 (mid + n) bs;
    let block2 := D block2 in
    let block1 := firstn n block1 ++ skipn n block2 in
    let block1 := D block1 in
    do m2 <- mput_out m1 mid block1;
    mput_out m2 (mid + bs) (firstn n block2).

  (* ---- ECB-CS2 / CS3 ---- *)
  Definition ecb_steal (F : block -> block) (m1 : mem) (nb tl : nat) : outcome mem :=
    do lastoff <- usub nb 1;
    do last_block <- mget_out m1 (lastoff * bs) bs;
    do tin <- mget_in m1 (nb * bs) tl;
    let blk := F (mix tin last_block) in
    do m2 <- mput_out m1 (nb * bs) (firstn tl last_block);     (* tail.get_out() = last_block[..n] *)
    mput_out m2 (lastoff * bs) blk.                             (* *last_block = block *)

  Definition ecb_cs2_enc (m : mem) : outcome mem :=
    let L := mlen m in
    if L <? bs then Err else
    let nb := L / bs in let tl := L mod bs in
    do r <- mrun cts_ecb_enc tt m 0 nb;
    let '(_, m1) := r in
    if tl =? 0 then Ok m1 else ecb_steal E m1 nb tl.

  Definition ecb_cs2_dec (m : mem) : outcome mem :=
    let L := mlen m in
    if L <? bs then Err else
    let nb := L / bs in let tl := L mod bs in
    do r <- mrun cts_ecb_dec tt m 0 nb;
    let '(_, m1) := r in
    if tl =? 0 then Ok m1 else ecb_steal D m1 nb tl.

  Definition ecb_cs3_enc (m : mem) : outcome mem :=
    let L := mlen m in
    if L <? bs then Err else
    let nb := L / bs in let tl := L mod bs in
    do r <- mrun cts_ecb_enc tt m 0 nb;
    let '(_, m1) := r in
    if tl =? 0 then (if 1 <? nb then swap_last_two m1 nb else Ok m1) else ecb_steal E m1 nb tl.

  Definition ecb_cs3_dec (m : mem) : outcome mem :=
    let L := mlen m in
    if L <? bs then Err else
    let nb := L / bs in let tl := L mod bs in
    do r <- mrun cts_ecb_dec tt m 0 nb;
    let '(_, m1) := r in
    if tl =? 0 then (if 1 <? nb then swap_last_two m1 nb else Ok m1) else ecb_steal D m1 nb tl.
End Cts.

Inductive cts_variant := CbcCs1 | CbcCs2 | CbcCs3 | EcbCs1 | EcbCs2 | EcbCs3.

Definition cts_run (C : cipher) (v : cts_variant) (enc : bool) (iv : block) (m : mem) : outcome mem :=
  match v, enc with
  | CbcCs1, true => cbc_cs1_enc C iv m | CbcCs1, false => cbc_cs1_dec C iv m
  | CbcCs2, true => cbc_cs2_enc C iv m | CbcCs2, false => cbc_cs2_dec C iv m
  | CbcCs3, true => cbc_cs3_enc C iv m | CbcCs3, false => cbc_cs3_dec C iv m
  | EcbCs1, true => ecb_cs1_enc C m | EcbCs1, false => ecb_cs1_dec C m
  | EcbCs2, true => ecb_cs2_enc C m | EcbCs2, false => ecb_cs2_dec C m
  | EcbCs3, true => ecb_cs3_enc C m | EcbCs3, false => ecb_cs3_dec C m
  end.
