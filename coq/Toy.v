(* Toy.v -- the toy block ciphers of the correspondence harness (same definitions as
   harness/src/lib.rs), for every block size.  E is a byte-wise bijection composed with a rotation
   of the byte positions; it is neither xor-linear nor an involution.
     E_k(x)[i] = rotl3(((x[(i+1) mod n] xor k[i mod 8]) + 7i + 13) mod 256)
     inv:    D = E^-1          unrel:  D(y)[i] = ((y[i] xor k[i mod 8]) + 3i + 1) mod 256 *)
From BM Require Export Cipher.

Definition rotl3 (b : N) : N := ((b * 8) mod 256 + b / 32)%N.
Definition rotr3 (b : N) : N := (b / 8 + (b mod 8) * 32)%N.
Definition keyb (k : list N) (i : N) : N := nth (N.to_nat (i mod 8)) k 0%N.

(* map with the (binary) index of each element *)
Fixpoint mapi_aux {A B} (f : N -> A -> B) (i : N) (l : list A) : list B :=
  match l with [] => [] | a :: l' => f i a :: mapi_aux f (i + 1)%N l' end.
Definition mapi {A B} (f : N -> A -> B) (l : list A) : list B := mapi_aux f 0%N l.

Definition rot_left1 {A} (x : list A) : list A := skipn 1 x ++ firstn 1 x.
Definition rot_right1 {A} (x : list A) : list A := skipn (length x - 1) x ++ firstn (length x - 1) x.

Definition toyE (k : list N) (x : block) : block :=
  mapi (fun i b => rotl3 ((N.lxor b (keyb k i) + (7 * i + 13)) mod 256)%N) (rot_left1 x).

Definition toyD_inv (k : list N) (y : block) : block :=
  rot_right1 (mapi (fun i b => N.lxor ((rotr3 b + 256 - ((7 * i + 13)) mod 256) mod 256)%N (keyb k i)) y).

Definition toyD_unrel (k : list N) (y : block) : block :=
  mapi (fun i b => ((N.lxor b (keyb k i) + (3 * i + 1)) mod 256)%N) y.

Inductive dmode := DInv | DUnrel.

Definition toy (bs w : nat) (dm : dmode) (key : list N) : cipher :=
  mkcipher bs w (toyE key) (match dm with DInv => toyD_inv key | DUnrel => toyD_unrel key end).
