(* Async_proofs.v -- the one-shot front-end AsyncStreamCipher::{encrypt,decrypt}_inout
   (Plumbing.async_inout) as the interpreter dispatches it for CFB and CFB-8:
   whole blocks through BlocksCtx, then the partial tail through one more block call on a
   zero-padded copy.  The output is the byte-level recurrence -- the same right-hand side as the
   buffered types (Buf_proofs.buf_enc_spec / buf_dec_spec) -- and is prefix-preserving (C08). *)
From BM Require Import BlockModes Spec BlockModes_proofs Spec_proofs RoundTrip_proofs Plumbing Cts Cts_mem Interp Interp_proofs Buf_proofs.
From Coq Require Import Lia.

Section Generic.
  Context {S : Type}.
  Variables (mbs : nat) (single : S -> cell -> S * cell) (blocks : S -> list cell -> S * list cell).
  Variables (g : S -> list block -> S) (h : S -> list block -> list block).
  Hypothesis mbs_pos : 0 < mbs.
  Hypothesis blocks_spec : forall st cs, blocks st cs = (g st (map rd_in cs), map2 wr_out cs (h st (map rd_in cs))).
  Hypothesis h_len : forall st bl, length (h st bl) = length bl.

  (* the cells of a byte buffer presented as whole blocks followed by a short tail *)
  Lemma cells_of_data (al : bool) (inb outb : list N) (bl : list block) (tail : list N) :
    inb = concat bl ++ tail -> all_len mbs bl -> length tail < mbs -> length outb = length inb -> (al = true -> inb = outb) ->
    map rd_in (cells_of mbs al inb outb) = bl /\ length (cells_of mbs al inb outb) = length bl /\
    snd (chunks mbs (if al then outb else inb)) = tail.
  Proof.
    intros Hin Hbl Ht Hlen Hal. unfold cells_of.
    assert (Hci : chunks mbs inb = (bl, tail)) by (rewrite Hin; now apply chunks_concat).
    destruct (chunks_decompose mbs outb mbs_pos) as (obl & ot & Eo & Hobl & Hot & Hco).
    assert (Hn : length obl = length bl /\ length ot = length tail).
    { rewrite Hin, Eo, !app_length, (all_len_concat_length mbs bl Hbl), (all_len_concat_length mbs obl Hobl) in Hlen.
      rewrite (Nat.mul_comm (length obl)), (Nat.mul_comm (length bl)) in Hlen.
      apply Nat.div_mod_unique in Hlen; auto. }
    rewrite Hci, Hco. cbn [fst snd]. repeat split.
    - apply map_rd_in_mkcell'; [unfold block in *; lia|]. intros Ha. specialize (Hal Ha).
      rewrite <- Hal, Hci in Hco. now injection Hco as <- _.
    - rewrite map2_length. unfold block in *. lia.
    - destruct al; [|now rewrite Hci]. rewrite Hco. cbn [snd]. rewrite <- (Hal eq_refl), Hci in Hco. now injection Hco as _ <-.
  Qed.

  Theorem async_inout_spec st (al : bool) (inb outb : list N) (bl : list block) (tail : list N) :
    inb = concat bl ++ tail -> all_len mbs bl -> length tail < mbs -> length outb = length inb -> (al = true -> inb = outb) ->
    async_inout mbs single blocks st al inb outb =
      if length tail =? 0 then (g st bl, concat (h st bl))
      else let '(st2, c') := single (g st bl) (cell_ip (tail ++ zeros (mbs - length tail))) in
           (st2, concat (h st bl) ++ firstn (length tail) (cout c')).
  Proof.
    intros Hin Hbl Ht Hlen Hal.
    destruct (cells_of_data al inb outb bl tail Hin Hbl Ht Hlen Hal) as (Hrd & Hcl & Htl).
    unfold async_inout. rewrite blocks_spec, Hrd, Htl.
    assert (Hout : outs_of (map2 wr_out (cells_of mbs al inb outb) (h st bl)) = concat (h st bl)).
    { unfold outs_of. f_equal. apply map_cout_wr. now rewrite Hcl, h_len. }
    rewrite Hout. reflexivity.
  Qed.
End Generic.

Section Cfb.
  Variable C : cipher.
  Let bs := c_bs C.
  Let E := c_E C.
  Hypothesis Cwf : cipher_wf C.
  Let bs_pos : 0 < bs.
  Proof. destruct Cwf as (H & _). exact H. Qed.
  Let E_len : forall x, length x = bs -> length (E x) = bs.
  Proof. destruct Cwf as (_ & _ & H & _). exact H. Qed.

  Lemma firstn_xorb_pad (tail s : list N) n : length tail <= length s ->
    firstn (length tail) (xorb (tail ++ zeros n) s) = xorb tail s.
  Proof.
    intros H. rewrite firstn_xorb, firstn_app_exact by auto. apply xorb_firstn_len.
  Qed.

  Lemma cfb_enc_last_len s (bl : list block) : length s = bs -> all_len bs bl ->
    length (last (map E (cfb_enc_st E s bl)) s) = bs.
  Proof.
    intros Hs Hb. revert s Hs. induction Hb as [|b bl Hb _ IH]; intros s Hs; [exact Hs|].
    cbn [cfb_enc_st map]. rewrite last_cons_default. apply IH. apply E_len. rewrite xorb_length, Hb, Hs. apply Nat.min_id.
  Qed.

  Lemma cfb_dec_last_len s (bl : list block) : length s = bs -> all_len bs bl -> length (last (map E bl) s) = bs.
  Proof.
    intros Hs Hb. revert s Hs. induction Hb as [|b bl Hb _ IH]; intros s Hs; [exact Hs|].
    cbn [map]. rewrite last_cons_default. apply IH. now apply E_len.
  Qed.

  (* one-shot CFB encryption as the interpreter runs it: state (s, x) with s = E(chain) *)
  Theorem async_cfb_enc s x (al : bool) (inb outb : list N) (bl : list block) (tail : list N) :
    length s = bs -> inb = concat bl ++ tail -> all_len bs bl -> length tail < bs ->
    length outb = length inb -> (al = true -> inb = outb) ->
    snd (async_inout (bm_mbs C KCfbE) (bm_single C KCfbE) (bm_blocks C KCfbE) (s, x) al inb outb) =
      concat (cfb_enc_st E s bl) ++ xorb tail (last (map E (cfb_enc_st E s bl)) s).
  Proof.
    intros Hs Hin Hb Ht Hlen Hal. cbn [bm_mbs]. fold bs.
    rewrite (async_inout_spec bs (bm_single C KCfbE) (bm_blocks C KCfbE)
               (fun st bl => (last (map E (cfb_enc_st E (fst st) bl)) (fst st), snd st))
               (fun st bl => cfb_enc_st E (fst st) bl) bs_pos) with (bl := bl) (tail := tail); auto.
    - cbn [fst snd]. destruct (Nat.eqb_spec (length tail) 0) as [H0|H0].
      + destruct tail; [|discriminate]. cbn [snd]. now rewrite app_nil_r.
      + cbn [bm_single]. unfold lift1. cbn [fst snd cfb_enc_block xor_in2out rd_out wr_out cout rd_in cell_ip alias].
        rewrite firstn_xorb_pad; [reflexivity|]. rewrite cfb_enc_last_len; auto. lia.
    - intros [s0 x0] cs. rewrite bm_blocks_fold. cbn [bm_single]. rewrite fold_lift1, cfb_enc_fold. reflexivity.
    - intros st l. apply cfb_enc_st_length.
  Qed.

  Theorem async_cfb_dec s x (al : bool) (inb outb : list N) (bl : list block) (tail : list N) :
    length s = bs -> inb = concat bl ++ tail -> all_len bs bl -> length tail < bs ->
    length outb = length inb -> (al = true -> inb = outb) ->
    snd (async_inout (bm_mbs C KCfbD) (bm_single C KCfbD) (bm_blocks C KCfbD) (s, x) al inb outb) =
      concat (cfb_dec_st E s bl) ++ xorb tail (last (map E bl) s).
  Proof.
    intros Hs Hin Hb Ht Hlen Hal. cbn [bm_mbs]. fold bs.
    rewrite (async_inout_spec bs (bm_single C KCfbD) (bm_blocks C KCfbD)
               (fun st bl => (last (map E bl) (fst st), snd st))
               (fun st bl => cfb_dec_st E (fst st) bl) bs_pos) with (bl := bl) (tail := tail); auto.
    - cbn [fst snd]. destruct (Nat.eqb_spec (length tail) 0) as [H0|H0].
      + destruct tail; [|discriminate]. cbn [snd]. now rewrite app_nil_r.
      + cbn [bm_single]. unfold lift1. cbn [fst snd cfb_dec_block xor_in2out rd_out wr_out cout rd_in cell_ip alias].
        rewrite firstn_xorb_pad; [reflexivity|]. rewrite cfb_dec_last_len; auto. lia.
    - intros [s0 x0] cs. rewrite bm_blocks_fold. cbn [bm_single]. rewrite fold_lift1, cfb_dec_fold. reflexivity.
    - intros st l. apply cfb_dec_st_length.
  Qed.

  (* from a fresh object: the textbook recurrence with a truncated final block -- literally the
     right-hand sides of Buf_proofs.buf_enc_spec / buf_dec_spec (C03, C14) *)
  Lemma last_map_E (l : list block) iv : last (map E l) (E iv) = E (last l iv).
  Proof. revert iv; induction l as [|a l IH]; intros iv; [reflexivity|]. cbn [map]. rewrite !last_cons_default. apply IH. Qed.

  Theorem async_cfb_enc_spec iv (al : bool) (inb outb : list N) (bl : list block) (tail : list N) :
    length iv = bs -> inb = concat bl ++ tail -> all_len bs bl -> length tail < bs ->
    length outb = length inb -> (al = true -> inb = outb) ->
    snd (async_inout (bm_mbs C KCfbE) (bm_single C KCfbE) (bm_blocks C KCfbE) (bm_init C KCfbE iv) al inb outb) =
      concat (cfb_enc_spec E iv bl) ++ xorb tail (E (last (cfb_enc_spec E iv bl) iv)).
  Proof.
    intros Hiv Hin Hb Ht Hlen Hal. cbn [bm_init]. unfold cfb_init.
    etransitivity; [exact (async_cfb_enc (E iv) [] al inb outb bl tail (E_len iv Hiv) Hin Hb Ht Hlen Hal)|].
    now rewrite <- cfb_enc_spec_st, last_map_E.
  Qed.

  Theorem async_cfb_dec_spec iv (al : bool) (inb outb : list N) (bl : list block) (tail : list N) :
    length iv = bs -> inb = concat bl ++ tail -> all_len bs bl -> length tail < bs ->
    length outb = length inb -> (al = true -> inb = outb) ->
    snd (async_inout (bm_mbs C KCfbD) (bm_single C KCfbD) (bm_blocks C KCfbD) (bm_init C KCfbD iv) al inb outb) =
      concat (cfb_dec_spec E iv bl) ++ xorb tail (E (last bl iv)).
  Proof.
    intros Hiv Hin Hb Ht Hlen Hal. cbn [bm_init]. unfold cfb_init.
    etransitivity; [exact (async_cfb_dec (E iv) [] al inb outb bl tail (E_len iv Hiv) Hin Hb Ht Hlen Hal)|].
    now rewrite <- cfb_dec_spec_st, last_map_E.
  Qed.

  (* C14: the one-shot call from a fresh object produces the very bytes of the buffered type *)
  Theorem async_cfb_eq_buffered (enc : bool) iv (al : bool) (inb outb : list N) :
    length iv = bs -> length outb = length inb -> (al = true -> inb = outb) ->
    let k := if enc then KCfbE else KCfbD in
    snd (buf_bytes C enc (buf_init C iv) inb) =
    snd (async_inout (bm_mbs C k) (bm_single C k) (bm_blocks C k) (bm_init C k iv) al inb outb).
  Proof.
    intros Hiv Hlen Hal k.
    destruct (chunks_decompose bs inb bs_pos) as (bl & tail & Hin & Hbl & Ht & _).
    assert (Hb : buf_apply C enc (buf_init C iv) inb = Ok (buf_bytes C enc (buf_init C iv) inb)).
    { unfold buf_init. apply buf_apply_bytes; auto. }
    destruct enc; subst k.
    - rewrite (async_cfb_enc_spec iv al inb outb bl tail); auto.
      destruct (buf_enc_spec C E_len bs_pos iv bl tail Hiv Hbl Ht) as (st' & Hspec). rewrite <- Hin, Hb in Hspec.
      injection Hspec as Hspec. now rewrite Hspec.
    - rewrite (async_cfb_dec_spec iv al inb outb bl tail); auto.
      destruct (buf_dec_spec C E_len bs_pos iv bl tail Hiv Hbl Ht) as (st' & Hspec). rewrite <- Hin, Hb in Hspec.
      injection Hspec as Hspec. now rewrite Hspec.
  Qed.

  Theorem async_cfb_eq_buf_apply (enc : bool) iv (al : bool) (inb outb : list N) :
    length iv = bs -> length outb = length inb -> (al = true -> inb = outb) ->
    let k := if enc then KCfbE else KCfbD in
    exists st', buf_apply C enc (buf_init C iv) inb =
      Ok (st', snd (async_inout (bm_mbs C k) (bm_single C k) (bm_blocks C k) (bm_init C k iv) al inb outb)).
  Proof.
    intros Hiv Hlen Hal k. subst k. pose proof (async_cfb_eq_buffered enc iv al inb outb Hiv Hlen Hal) as H. cbv zeta in H.
    rewrite <- H. unfold buf_init. rewrite buf_apply_bytes by auto.
    destruct (buf_bytes C enc (c_E C iv, 0) inb) as [st' o]. now exists st'.
  Qed.

  (* C08: one-shot CFB is prefix-preserving -- whatever the extension, whichever form each call takes *)
  Theorem async_cfb_prefix (enc : bool) iv (al1 al2 : bool) (msg ext out1 out2 : list N) :
    length iv = bs -> length out1 = length msg -> (al1 = true -> msg = out1) ->
    length out2 = length (msg ++ ext) -> (al2 = true -> msg ++ ext = out2) ->
    let k := if enc then KCfbE else KCfbD in
    snd (async_inout (bm_mbs C k) (bm_single C k) (bm_blocks C k) (bm_init C k iv) al1 msg out1) =
    firstn (length msg)
      (snd (async_inout (bm_mbs C k) (bm_single C k) (bm_blocks C k) (bm_init C k iv) al2 (msg ++ ext) out2)).
  Proof.
    intros Hiv Hl1 Ha1 Hl2 Ha2 k. subst k.
    pose proof (async_cfb_eq_buffered enc iv al1 msg out1 Hiv Hl1 Ha1) as H1. cbv zeta in H1.
    pose proof (async_cfb_eq_buffered enc iv al2 (msg ++ ext) out2 Hiv Hl2 Ha2) as H2. cbv zeta in H2.
    rewrite <- H1, <- H2. clear H1 H2.
    unfold buf_init. rewrite buf_bytes_app.
    pose proof (buf_bytes_inv C E_len bs_pos enc msg (c_E C iv) 0 (E_len iv Hiv) bs_pos) as Hi.
    destruct (buf_bytes C enc (c_E C iv, 0) msg) as [[iv1 pos1] o1]. cbn [fst snd] in Hi. destruct Hi as (_ & _ & Ho1).
    destruct (buf_bytes C enc (iv1, pos1) ext) as [st2 o2]. cbn [snd].
    now rewrite firstn_app_exact.
  Qed.
End Cfb.

(* ---- CFB-8: mode block size 1, so the one-shot call is the block loop over one-byte blocks ---- *)
Section Cfb8.
  Variable C : cipher.
  Let bs := c_bs C.
  Let E := c_E C.
  Hypothesis Cwf : cipher_wf C.
  Let bs_pos : 0 < bs.
  Proof. destruct Cwf as (H & _). exact H. Qed.
  Let E_len : forall x, length x = bs -> length (E x) = bs.
  Proof. destruct Cwf as (_ & _ & H & _). exact H. Qed.

  Lemma concat_singles (l : list N) : concat (singles l) = l.
  Proof. induction l as [|a l IH]; [reflexivity|]. cbn [singles map concat app]. fold (singles l). now rewrite IH. Qed.
  Lemma all_len_singles (l : list N) : all_len 1 (singles l).
  Proof. induction l; constructor; auto. Qed.

  Theorem async_cfb8_spec (enc : bool) s x (al : bool) (inb outb : list N) :
    length s = bs -> length outb = length inb -> (al = true -> inb = outb) ->
    let k := if enc then KCfb8E else KCfb8D in
    snd (async_inout (bm_mbs C k) (bm_single C k) (bm_blocks C k) (s, x) al inb outb) =
      if enc then cfb8_enc_spec E s inb else cfb8_dec_spec E s inb.
  Proof.
    intros Hs Hlen Hal k.
    assert (Hin : inb = concat (singles inb) ++ []) by (now rewrite app_nil_r, concat_singles).
    destruct enc; subst k; cbn [bm_mbs].
    - rewrite (async_inout_spec 1 (bm_single C KCfb8E) (bm_blocks C KCfb8E)
                 (fun st bl => (cfb8_breg (fst st) (cfb8_enc_bspec E (fst st) bl), snd st))
                 (fun st bl => cfb8_enc_bspec E (fst st) bl) Nat.lt_0_1) with (bl := singles inb) (tail := []); auto.
      + cbn [length Nat.eqb fst snd]. rewrite (cfb8_enc_bytes C E_len bs_pos) by exact Hs. apply concat_singles.
      + intros [s0 x0] cs. rewrite bm_blocks_fold. cbn [bm_single]. rewrite fold_lift1, cfb8_enc_fold. reflexivity.
      + intros st l. apply cfb8_enc_bspec_length.
      + apply all_len_singles.
    - rewrite (async_inout_spec 1 (bm_single C KCfb8D) (bm_blocks C KCfb8D)
                 (fun st bl => (cfb8_breg (fst st) bl, snd st))
                 (fun st bl => cfb8_dec_bspec E (fst st) bl) Nat.lt_0_1) with (bl := singles inb) (tail := []); auto.
      + cbn [length Nat.eqb fst snd]. rewrite (cfb8_dec_bytes C E_len bs_pos) by exact Hs. apply concat_singles.
      + intros [s0 x0] cs. rewrite bm_blocks_fold. cbn [bm_single]. rewrite fold_lift1, cfb8_dec_fold. reflexivity.
      + intros st l. apply cfb8_dec_bspec_length.
      + apply all_len_singles.
  Qed.

  Lemma cfb8_enc_prefix s a b : cfb8_enc_spec E s a = firstn (length a) (cfb8_enc_spec E s (a ++ b)).
  Proof. revert s; induction a as [|x a IH]; intros s; [reflexivity|]. cbn [app cfb8_enc_spec length firstn]. f_equal. apply IH. Qed.
  Lemma cfb8_dec_prefix s a b : cfb8_dec_spec E s a = firstn (length a) (cfb8_dec_spec E s (a ++ b)).
  Proof. revert s; induction a as [|x a IH]; intros s; [reflexivity|]. cbn [app cfb8_dec_spec length firstn]. f_equal. apply IH. Qed.

  Theorem async_cfb8_prefix (enc : bool) s x (al1 al2 : bool) (msg ext out1 out2 : list N) :
    length s = bs -> length out1 = length msg -> (al1 = true -> msg = out1) ->
    length out2 = length (msg ++ ext) -> (al2 = true -> msg ++ ext = out2) ->
    let k := if enc then KCfb8E else KCfb8D in
    snd (async_inout (bm_mbs C k) (bm_single C k) (bm_blocks C k) (s, x) al1 msg out1) =
    firstn (length msg) (snd (async_inout (bm_mbs C k) (bm_single C k) (bm_blocks C k) (s, x) al2 (msg ++ ext) out2)).
  Proof.
    intros Hs Hl1 Ha1 Hl2 Ha2 k. subst k.
    rewrite (async_cfb8_spec enc s x al1 msg out1 Hs Hl1 Ha1), (async_cfb8_spec enc s x al2 (msg ++ ext) out2 Hs Hl2 Ha2).
    destruct enc; [apply cfb8_enc_prefix | apply cfb8_dec_prefix].
  Qed.
End Cfb8.
