(* Machine_proofs.v -- C16 on the multi-instance machine of Interp.v: instances live in a store;
   an operation reads and writes only the instance it names (and the one it creates); a clone is a
   copy of the value.  Hence the outputs of an instance are a function of its own lineage. *)
From BM Require Import BlockModes Plumbing Toy Ctr Belt Stream Cts Interp.
From Coq Require Import Lia.

Lemma lookup_update_eq s i o : lookup (update s i o) i = Some o.
Proof. unfold update. cbn [lookup]. now rewrite Nat.eqb_refl. Qed.

Lemma lookup_update_ne s i j o : i <> j -> lookup (update s i o) j = lookup s j.
Proof. intros H. unfold update. cbn [lookup]. destruct (Nat.eqb_spec i j); [contradiction|reflexivity]. Qed.

Lemma lookup_remove_ne s i j : i <> j -> lookup (remove_id s i) j = lookup s j.
Proof. intros H. induction s as [|[k o] s IH]; [reflexivity|]. cbn [remove_id lookup].
  destruct (Nat.eqb_spec k i) as [->|Hki].
  - destruct (Nat.eqb_spec i j); [contradiction|]. exact IH.
  - cbn [lookup]. destruct (Nat.eqb_spec k j); auto. Qed.

Lemma lookup_remove_eq s i : lookup (remove_id s i) i = None.
Proof. induction s as [|[k o] s IH]; [reflexivity|]. cbn [remove_id].
  destruct (Nat.eqb_spec k i) as [->|Hki]; [exact IH|]. cbn [lookup].
  destruct (Nat.eqb_spec k i); [contradiction|exact IH]. Qed.

(* the instances an op acts on, and the instance it (re)defines *)
Definition op_reads (o : op) : list nat :=
  match o with
  | OpNew _ _ _ _ _ | OpFromState _ _ _ _ _ | OpCat _ | OpSub _ _ _ | OpOther => []
  | OpCloneFrom dst src => [dst; src]
  | OpClone id _ | OpDrop id | OpBlk id _ | OpBlks id _ | OpPad id _ _ _ _ _ | OpUnpad id _ _ | OpAsync id _
  | OpIvState id | OpBuf id _ | OpGetState id | OpApply id _ | OpSeek id _ _ | OpPos id _ | OpKsBlocks id _
  | OpApplyBlks id _ | OpApplyBlk id _ | OpRemaining id | OpGetPos id | OpSetPos id _ | OpWrap id _
  | OpCore id _ | OpCts id _ _ => [id]
  end.
Definition op_defines (o : op) : option nat :=
  match o with
  | OpNew id _ _ _ _ | OpFromState id _ _ _ _ => Some id
  | OpClone _ newid | OpCloneFrom newid _ | OpWrap _ newid | OpCore _ newid => Some newid
  | _ => None
  end.

Section Frame.
  Variables (bs w : nat) (dm : dmode).

  Ltac crush j :=
    repeat match goal with
           | |- context [match ?x with _ => _ end] => destruct x
           | |- context [if ?x then _ else _] => destruct x
           end;
    cbn [fst]; rewrite ?lookup_update_ne, ?lookup_remove_ne by (cbn [In] in *; intuition congruence); try reflexivity.

  (* frame: an op leaves every instance it neither names nor defines untouched *)
  Theorem step_frame s rs o j : ~ In j (op_reads o) -> op_defines o <> Some j ->
    lookup (fst (step bs w dm s rs o)) j = lookup s j.
  Proof.
    intros Hr Hd. destruct o; cbn [op_reads op_defines In] in Hr, Hd; cbn [step]; crush j.
  Qed.

  (* locality / determinism: two stores that agree on the instances an op names or defines (its
     footprint) give the same result and still agree on the footprint afterwards; together with
     [step_frame], the outputs of an instance are a function of its own lineage only *)
  Theorem step_local s1 s2 rs o :
    (forall id, In id (op_reads o) \/ op_defines o = Some id -> lookup s1 id = lookup s2 id) ->
    snd (step bs w dm s1 rs o) = snd (step bs w dm s2 rs o) /\
    (forall j, In j (op_reads o) \/ op_defines o = Some j ->
               lookup (fst (step bs w dm s1 rs o)) j = lookup (fst (step bs w dm s2 rs o)) j).
  Proof.
    intros H. destruct o as [| | |dst src | | | | | | | | | | | | | | | | | | | | | | | |].
    4: { (* clone_from: reads dst and src, redefines dst *)
      cbn [op_reads op_defines In] in *; cbn [step].
      rewrite (H dst) by auto. rewrite (H src) by auto.
      split; [| intros j Hj];
      repeat match goal with
             | |- context [match ?x with _ => _ end] => destruct x
             end; cbn [fst snd]; try reflexivity; try (apply H; exact Hj);
      (destruct (Nat.eq_dec dst j) as [->|Hne];
       [rewrite !lookup_update_eq; reflexivity
       | rewrite !lookup_update_ne by congruence; apply H; exact Hj]). }
    all: cbn [op_reads op_defines In] in *; cbn [step];
      try (rewrite (H _ (or_introl (or_introl eq_refl))));
      (split; [| intros j Hj; pose proof (H j Hj) as Hjj; destruct Hj as [Hj|Hj]; [try contradiction; try (destruct Hj as [Hj|Hj]; [subst j | contradiction]) | try discriminate; try (injection Hj as <-)]]);
      repeat match goal with
             | |- context [match ?x with _ => _ end] => destruct x
             | |- context [if ?x then _ else _] => destruct x
             end;
      cbn [fst snd]; rewrite ?lookup_update_eq, ?lookup_remove_eq; try reflexivity; try assumption;
      try (destruct (Nat.eq_dec id newid) as [->|Hne];
           [rewrite ?lookup_update_eq, ?lookup_remove_eq; reflexivity
           | rewrite ?lookup_update_ne, ?lookup_remove_ne by congruence; rewrite ?lookup_update_eq, ?lookup_remove_eq; auto]).
  all: try (apply H; auto; fail).
  all: try (symmetry; apply H; auto; fail).
  Qed.

  (* a clone is a copy of the value *)
  Theorem step_clone s rs id newid ob : lookup s id = Some ob ->
    (match ob with OCore SBelt _ _ | OWrap SBelt _ _ => False | _ => True end) ->
    lookup (fst (step bs w dm s rs (OpClone id newid))) newid = Some ob.
  Proof. intros H Hk. cbn [step]. rewrite H. destruct ob as [| |[]| []|]; try contradiction; cbn [fst]; apply lookup_update_eq. Qed.

  (* clone_from, when it succeeds, leaves in dst exactly the value src holds *)
  Theorem step_clone_from s rs dst src ob :
    lookup (fst (step bs w dm s rs (OpCloneFrom dst src))) dst = Some ob ->
    snd (step bs w dm s rs (OpCloneFrom dst src)) = ROk -> lookup s src = Some ob.
  Proof.
    cbn [step]. destruct (lookup s dst) as [[]|]; destruct (lookup s src) as [[]|]; cbn [fst snd]; try discriminate;
    repeat match goal with
           | |- context [if ?x then _ else _] => destruct x eqn:?
           end; cbn [fst snd]; try discriminate; rewrite lookup_update_eq; intros H _; exact H.
  Qed.
End Frame.
