(* MirLemmas.v -- facts about the interpreter of MirSem.v used by the tie proofs. *)
From BM Require Export MirSem.
Local Open Scope list_scope.
(* ---- splitting a statement sequence (used by the tie proofs to evaluate around a loop) --------- *)
Lemma run_stmts_app ev e a b : b <> [] ->
  run_stmts ev e (a ++ b) =
  match run_stmts ev e (a ++ [SItem ""]) with
  | Some (Norm e' _) => run_stmts ev e' b
  | o => o
  end.
Proof.
  intros Hb. revert e. induction a as [|s a IH]; intros e.
  - reflexivity.
  - assert (Hne : a ++ b <> []) by (destruct a; [exact Hb | discriminate]).
    assert (Hne' : a ++ [SItem ""%string] <> []) by (destruct a; discriminate).
    change ((s :: a) ++ b) with (s :: (a ++ b)). change ((s :: a) ++ [SItem ""%string]) with (s :: (a ++ [SItem ""%string])).
    cbn [run_stmts].
    destruct (a ++ b) as [|s1 r1] eqn:E1; [congruence|].
    destruct (a ++ [SItem ""%string]) as [|s2 r2] eqn:E2; [congruence|].
    rewrite <- E1, <- E2 in *.
    destruct s as [p ty [i|]| |x semi]; try reflexivity.
    + destruct (ev e i) as [[e1 r|e1 v]|]; cbn [bindF]; try reflexivity.
      destruct (match p with PStruct _ _ _ => as_data e1 r | _ => as_val e1 r end); try reflexivity.
      destruct (bind_pat p v e1); try reflexivity. apply IH.
    + rewrite E1, E2. rewrite <- E1, <- E2. apply IH.
    + destruct (ev e x) as [[e1 r|e1 v]|]; cbn [bindF]; try reflexivity. rewrite E1, E2, <- E1, <- E2. apply IH.
Qed.

Lemma loopN_S C k : loopN C (S k) = loop_step (eval C (loopN C k)).
Proof. reflexivity. Qed.
