(* MirLemmas.v -- facts about the interpreter of MirSem.v used by the tie proofs. *)
From BM Require Export MirSem.
Local Open Scope list_scope.
(* ---- splitting a statement sequence (used by the tie proofs to evaluate around a loop) --------- *)
Lemma run_stmts_app ev e a b : b <> [] ->
  run_stmts ev e (a ++ b) =
  match run_stmts ev e (a ++ [SItem ""]) with
  | Some (Norm e' _) => run_stmts ev e' b
  | o => o
  end.
Proof.
  intros Hb. revert e. induction a as [|s a IH]; intros e.
  - reflexivity.
  - assert (Hne : a ++ b <> []) by (destruct a; [exact Hb | discriminate]).
    assert (Hne' : a ++ [SItem ""%string] <> []) by (destruct a; discriminate).
    change ((s :: a) ++ b) with (s :: (a ++ b)). change ((s :: a) ++ [SItem ""%string]) with (s :: (a ++ [SItem ""%string])).
    cbn [run_stmts].
    destruct (a ++ b) as [|s1 r1] eqn:E1; [congruence|].
    destruct (a ++ [SItem ""%string]) as [|s2 r2] eqn:E2; [congruence|].
    rewrite <- E1, <- E2 in *.
    destruct s as [p ty [i|]| |x semi]; try reflexivity.
    + destruct (ev e i) as [[e1 r|e1 v]|]; cbn [bindF]; try reflexivity.
      destruct (let_val e1 p i r); try reflexivity.
      destruct (bind_pat p v e1); try reflexivity. apply IH.
    + rewrite E1, E2. rewrite <- E1, <- E2. apply IH.
    + destruct (ev e x) as [[e1 r|e1 v]|]; cbn [bindF]; try reflexivity. rewrite E1, E2, <- E1, <- E2. apply IH.
Qed.

Lemma loopN_S C k : loopN C (S k) = loop_step (eval C (loopN C k)).
Proof. reflexivity. Qed.

(* ---- a body that ends in an `if`: evaluate the condition, then step through the chosen branch ---- *)
Lemma eval_if C c t el e :
  evalC C e (EIf c t el) =
  bindF (evalC C e c) (fun e r =>
    match as_data e r with
    | Some (VBoolV true) => run_block (evalC C) e t
    | Some (VBoolV false) => run_block (evalC C) e el
    | _ => None
    end).
Proof. reflexivity. Qed.

Definition finish_block (o : option flow) : option flow :=
  match o with
  | Some (Norm e' r') => match as_val e' r' with Some v => Some (Norm e' (RV v)) | None => None end
  | Some (Ret e' v) => Some (Ret e' v)
  | None => None
  end.

Lemma run_last_if C e c t el :
  run_stmts (evalC C) e [SExpr (EIf c t el) false] =
  match evalC C e c with
  | Some (Norm e1 r) =>
      match as_data e1 r with
      | Some (VBoolV b) => finish_block (run_block (evalC C) e1 (if b then t else el))
      | _ => None
      end
  | Some (Ret e1 v) => Some (Ret e1 v)
  | None => None
  end.
Proof.
  cbn [run_stmts]. rewrite eval_if. destruct (evalC C e c) as [[e1 r|e1 v]|]; cbn [bindF]; try reflexivity.
  destruct (as_data e1 r) as [v|]; try reflexivity. destruct v; try reflexivity.
  destruct b; unfold finish_block; destruct (run_block (evalC C) e1 _) as [[e2 r2|e2 v2]|]; reflexivity.
Qed.
