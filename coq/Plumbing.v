(* Plumbing.v -- the byte-level front-ends of the `cipher` crate that block modes are reached
   through: AsyncStreamCipher::{encrypt,decrypt}_inout, BlockMode{En,De}crypt::*_padded*, and the
   buffered CFB types of cfb-mode (cfb-mode/src/encrypt/buf.rs, decrypt.rs).

   A byte buffer pair is (al, inb, outb): [al = true] is the in-place form, in which case the caller
   passes inb = outb (reads go to outb). *)
From BM Require Export Outcome Cipher.

Definition cells_of (n : nat) (al : bool) (inb outb : list N) : list cell :=
  map2 (mkcell al) (fst (chunks n inb)) (fst (chunks n outb)).

Definition outs_of (cs : list cell) : list N := concat (map cout cs).

Section Front.
  Context {S : Type}.
  Variable mbs : nat.                                   (* the mode's block size (1 for CFB-8)    *)
  Variable single : S -> cell -> S * cell.              (* BlockCtx                               *)
  Variable blocks : S -> list cell -> S * list cell.    (* BlocksCtx                              *)

  (* AsyncStreamCipher::encrypt_inout / decrypt_inout (they differ only in `single`/`blocks`) *)
  Definition async_inout (st : S) (al : bool) (inb outb : list N) : S * list N :=
    let cs := cells_of mbs al inb outb in
    let tin := snd (chunks mbs (if al then outb else inb)) in       (* tail.get_in() *)
    let '(st1, cs') := blocks st cs in
    let n := length tin in
    if n =? 0 then (st1, outs_of cs')
    else
      let blk := tin ++ zeros (mbs - n) in                          (* block[..n] = tail_in   *)
      let '(st2, c') := single st1 (cell_ip blk) in                 (* self.*_block(&mut block) *)
      (st2, outs_of cs' ++ firstn n (cout c')).                     (* tail_out = block[..n]  *)

  (* padding schemes *)
  Inductive padding := Pkcs7 | NoPadding.

  (* encrypt_padded_inout on an InOutBufReserved (in_len <= out_len checked by the caller) *)
  Definition enc_padded_inout (P : padding) (st : S) (al : bool) (inb outb : list N) : outcome (list N) :=
    let in_len := length inb in
    let blocks_len := in_len / mbs in
    let blen := mbs * blocks_len in
    let tail_len := in_len - blen in
    let cs := cells_of mbs al (firstn blen inb) (firstn blen outb) in
    match P with
    | NoPadding =>
        if tail_len =? 0 then let '(_, cs') := blocks st cs in Ok (outs_of cs')
        else Err
    | Pkcs7 =>
        if length outb <? blen + mbs then Err
        else
          let tail_in := skipn blen (if al then firstn in_len outb else inb) ++
                         repeat (N.of_nat (mbs - tail_len)) (mbs - tail_len) in
          let tail_cell := cell_b2b tail_in (firstn mbs (skipn blen outb)) in
          let '(st1, cs') := blocks st cs in
          let '(_, c') := single st1 tail_cell in
          Ok (outs_of cs' ++ cout c')
    end.

  Definition enc_padded_ip (P : padding) (st : S) (buf : list N) (msg_len : nat) : outcome (list N) :=
    if length buf <? msg_len then Err else enc_padded_inout P st true (firstn msg_len buf) buf.
  Definition enc_padded_b2b (P : padding) (st : S) (msg out : list N) : outcome (list N) :=
    if length out <? length msg then Err else enc_padded_inout P st false msg out.

  (* Pkcs7::unpad (strict) on the last block; result = number of message bytes in it *)
  Definition pkcs7_unpad_len (b : block) : outcome nat :=
    let n := N.to_nat (last b 0%N) in
    if (n =? 0) || (mbs <? n) then Err
    else
      let s := mbs - n in
      if forallb (fun v => N.eqb v (last b 0%N)) (firstn (n - 1) (skipn s b)) then Ok s else Err.

  Definition unpad_blocks (P : padding) (bl : list block) : outcome (list N) :=
    match P with
    | NoPadding => Ok (concat bl)
    | Pkcs7 =>
        match bl with
        | [] => Err
        | _ => do s <- pkcs7_unpad_len (last bl []);
               Ok (firstn (s + mbs * (length bl - 1)) (concat bl))
        end
    end.

  (* decrypt_padded_inout on an InOutBuf (equal lengths) *)
  Definition dec_padded_inout (P : padding) (st : S) (al : bool) (inb outb : list N) : outcome (list N) :=
    let tin := snd (chunks mbs inb) in
    if negb (length tin =? 0) then Err
    else
      let cs := cells_of mbs al inb outb in
      let '(_, cs') := blocks st cs in
      unpad_blocks P (map cout cs').

  Definition dec_padded_ip (P : padding) (st : S) (buf : list N) : outcome (list N) :=
    dec_padded_inout P st true buf buf.
  Definition dec_padded_b2b (P : padding) (st : S) (inb out : list N) : outcome (list N) :=
    if length out <? length inb then Err
    else dec_padded_inout P st false inb (firstn (length inb) out).
End Front.

(* ---------------------------------------------------------------------------------------------- *)
(* cfb-mode BufEncryptor::encrypt / BufDecryptor::decrypt.  State = (iv, pos); `iv` holds          *)
(* E(chain) with its first pos bytes already replaced by ciphertext.                               *)
(* [set1 = true]: xor_set1 (encryptor: the ciphertext is data^ks); false: xor_set2 (decryptor:     *)
(* the ciphertext is the incoming data).                                                            *)

Section BufCfb.
  Variable C : cipher.
  Let bs := c_bs C.
  Let E := c_E C.

  Definition buf_init (iv : block) : block * nat := (E iv, 0).

  Fixpoint buf_chunks (set1 : bool) (iv : block) (chs : list block) : block * list N :=
    match chs with
    | [] => (iv, [])
    | ch :: chs' =>
        let t := xorb ch iv in                                  (* xor_set{1,2}(chunk, iv) *)
        let iv1 := E (if set1 then t else ch) in                (* encrypt_block(&mut iv)   *)
        let '(iv2, o) := buf_chunks set1 iv1 chs' in
        (iv2, t ++ o)
    end.

  Definition buf_apply (set1 : bool) (st : block * nat) (data : list N) : outcome ((block * nat) * list N) :=
    let '(iv, pos) := st in
    let n := length data in
    do room <- usub bs pos;                                     (* bs - self.pos *)
    if n <? room then
      do ks <- slice iv pos (pos + n);                          (* &mut self.iv[pos..pos+n] *)
      let t := xorb data ks in
      Ok ((splice iv pos (if set1 then t else data), pos + n), t)
    else
      let left := firstn room data in                           (* split_at_mut(bs - pos) *)
      let right := skipn room data in
      do ks <- slice_from iv pos;                               (* &mut iv[pos..] *)
      let tl := xorb left ks in
      let iv1 := E (splice iv pos (if set1 then tl else left)) in
      let '(chs, rem) := chunks bs right in
      let '(iv2, o) := buf_chunks set1 iv1 chs in
      let r := length rem in
      let tr := xorb rem iv2 in                                 (* zip stops at rem.len() *)
      let iv3 := (if set1 then tr else rem) ++ skipn r iv2 in
      Ok ((iv3, r), tl ++ o ++ tr).
End BufCfb.
