(* Ints_proofs.v -- little/big-endian encodings: round trips and bounds. *)
From BM Require Import Ints.
From Coq Require Import ZArith Lia ZifyN ZifyNat ZifyBool.
Ltac Zify.zify_post_hook ::= Z.div_mod_to_equations.

Lemma le_encode_length k x : length (le_encode k x) = k.
Proof. revert x; induction k as [|k IH]; intros x; simpl; auto. Qed.

Lemma be_encode_length k x : length (be_encode k x) = k.
Proof. unfold be_encode. now rewrite rev_length, le_encode_length. Qed.

Lemma le_encode_ok k x : bytes_ok (le_encode k x).
Proof. revert x; induction k as [|k IH]; intros x; simpl; constructor.
  - apply N.mod_lt. discriminate.
  - apply IH. Qed.

Lemma be_encode_ok k x : bytes_ok (be_encode k x).
Proof. unfold be_encode, bytes_ok. apply Forall_rev. apply le_encode_ok. Qed.

Lemma le_decode_lt l : bytes_ok l -> (le_decode l < 256 ^ N.of_nat (length l))%N.
Proof.
  induction 1 as [|b l Hb _ IH]; [simpl; lia|].
  cbn [le_decode length]. rewrite Nat2N.inj_succ, N.pow_succ_r by lia. lia.
Qed.

Lemma le_encode_decode l : bytes_ok l -> le_encode (length l) (le_decode l) = l.
Proof.
  induction 1 as [|b l Hb _ IH]; [reflexivity|].
  cbn [le_decode length le_encode].
  replace ((b + 256 * le_decode l) mod 256)%N with b by lia.
  replace ((b + 256 * le_decode l) / 256)%N with (le_decode l) by lia.
  now rewrite IH.
Qed.

Lemma le_decode_encode k x : le_decode (le_encode k x) = (x mod 256 ^ N.of_nat k)%N.
Proof.
  revert x; induction k as [|k IH]; intros x.
  - simpl. now rewrite N.mod_1_r.
  - cbn [le_encode le_decode]. rewrite IH. rewrite Nat2N.inj_succ, N.pow_succ_r by lia.
    rewrite N.mod_mul_r by (try discriminate; apply N.pow_nonzero; discriminate). reflexivity.
Qed.

Lemma be_encode_decode l : bytes_ok l -> be_encode (length l) (be_decode l) = l.
Proof.
  intros H. unfold be_encode, be_decode. rewrite <- (rev_length l).
  rewrite le_encode_decode by (apply Forall_rev; exact H). apply rev_involutive.
Qed.

Lemma be_decode_encode k x : be_decode (be_encode k x) = (x mod 256 ^ N.of_nat k)%N.
Proof. unfold be_encode, be_decode. rewrite rev_involutive. apply le_decode_encode. Qed.

Lemma be_decode_lt l : bytes_ok l -> (be_decode l < 256 ^ N.of_nat (length l))%N.
Proof. intros H. unfold be_decode. rewrite <- (rev_length l). apply le_decode_lt. apply Forall_rev. exact H. Qed.

Lemma pow2_bytes k : pow2 (8 * k) = (256 ^ N.of_nat k)%N.
Proof. unfold pow2. rewrite Nat2N.inj_mul. change (N.of_nat 8) with 8%N.
  rewrite N.pow_mul_r. reflexivity. Qed.

Lemma pow2_pos b : (0 < pow2 b)%N.
Proof. unfold pow2. apply N.neq_0_lt_0. apply N.pow_nonzero. discriminate. Qed.

Lemma le_encode_inj k x y : (x < 256 ^ N.of_nat k)%N -> (y < 256 ^ N.of_nat k)%N -> le_encode k x = le_encode k y -> x = y.
Proof. intros Hx Hy H. apply (f_equal le_decode) in H. rewrite !le_decode_encode in H.
  now rewrite !N.mod_small in H by auto. Qed.

Lemma be_encode_inj k x y : (x < 256 ^ N.of_nat k)%N -> (y < 256 ^ N.of_nat k)%N -> be_encode k x = be_encode k y -> x = y.
Proof. intros Hx Hy H. unfold be_encode in H. apply (f_equal (@rev N)) in H. rewrite !rev_involutive in H.
  eapply le_encode_inj; eauto. Qed.

Lemma mod_add_cancel (M i j d : N) : (0 < M -> i < M -> j < M -> (i + d) mod M = (j + d) mod M -> i = j)%N.
Proof.
  intros HM Hi Hj H.
  assert (E1 := N.div_mod (i + d) M ltac:(lia)). assert (E2 := N.div_mod (j + d) M ltac:(lia)).
  rewrite H in E1.
  assert (Hq : ((i + d) / M = (j + d) / M)%N).
  { destruct (N.lt_trichotomy ((i + d) / M) ((j + d) / M)) as [L|[L|L]]; auto; exfalso; nia. }
  rewrite Hq in E1. lia.
Qed.
