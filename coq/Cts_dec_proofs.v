(* Cts_dec_proofs.v -- the six ciphertext-stealing DECRYPTION bodies of cts/src/{cbc,ecb}_cs{1,2,3}.rs.
   Part 1: on a memory whose source side is presented as  concat pre ++ R  (whole blocks, then the
   final bs + n bytes that the stealing step works on) every body returns Ok and its output is the
   list-level function below -- for ARBITRARY ciphertext bytes, in place or buffer-to-buffer.
   Part 2: those list-level functions invert the layouts of Cts_spec.v when D (E x) = x.
   Part 3: totality -- every input of at least one block decrypts without panic, length preserved. *)
From BM Require Import Outcome Cipher Plumbing Spec Spec_proofs Cts Cts_mem Cts_spec Cts_proofs Cts_cs_proofs.
From Coq Require Import Lia.

Section CtsDecSpec.
  Variables (bs : nat) (D : block -> block).

  (* CS1: R = C*_{n-1} (n bytes) || C_n (bs bytes) *)
  Definition cs1_unsteal (iv1 : block) (R : list N) (n : nat) : list N :=
    let b2 := D (skipn n R) in
    let b1 := firstn n R ++ skipn n b2 in
    xorb (D b1) iv1 ++ firstn n (xorb b2 b1).
  (* CS2 (partial tail) / CS3: R = C_n (bs bytes) || C*_{n-1} (n bytes) *)
  Definition cs3_unsteal (iv1 : block) (R : list N) (n : nat) : list N :=
    let b1 := D (firstn bs R) in
    let b2 := skipn bs R ++ skipn n b1 in
    xorb (D b2) iv1 ++ firstn n (xorb b1 b2).
  Definition ecb1_unsteal (R : list N) (n : nat) : list N :=
    let b2 := D (skipn n R) in
    let b1 := firstn n R ++ skipn n b2 in
    D b1 ++ firstn n b2.
End CtsDecSpec.

Section Dec.
  Variable C : cipher.
  Let bs := c_bs C.
  Let E := c_E C.
  Let D := c_D C.
  Hypothesis Cwf : cipher_wf C.

  Let bs_pos : 0 < bs.
  Proof. destruct Cwf as (H & _). exact H. Qed.
  Let E_len : forall x, length x = bs -> length (E x) = bs.
  Proof. destruct Cwf as (_ & _ & H & _). exact H. Qed.
  Let D_len : forall x, length x = bs -> length (D x) = bs.
  Proof. destruct Cwf as (_ & _ & _ & H). exact H. Qed.

  (* a well-formed memory whose source is  concat pre ++ R *)
  Record seg_mem (m : mem) (pre : list (list N)) (R : list N) : Prop := {
    sm_wf : mwf m;
    sm_src : msrc m = concat pre ++ R;
    sm_pre : all_len bs pre;
  }.

  Lemma sm_len m pre R : seg_mem m pre R -> mlen m = length pre * bs + length R.
  Proof.
    intros [[Hl Hw] Hs Hb]. unfold mlen. unfold msrc in Hs. destruct (m_al m) eqn:Ea.
    - rewrite Hs, app_length, (all_len_concat_length bs); auto.
    - rewrite <- Hl, Hs, app_length, (all_len_concat_length bs); auto.
  Qed.

  Lemma seg_out_decomp m pre R : seg_mem m pre R ->
    exists opre oR, m_out m = concat opre ++ oR /\ all_len bs opre /\ length opre = length pre /\ length oR = length R /\
                    (m_al m = true -> opre = pre /\ oR = R).
  Proof.
    intros Hm. pose proof (sm_len m pre R Hm) as HL. destruct Hm as [[Hl Hw] Hs Hb].
    destruct (m_al m) eqn:Ea.
    - exists pre, R. unfold msrc in Hs. rewrite Ea in Hs. repeat split; auto.
    - set (k := length pre * bs) in *.
      destruct (chunks_decompose bs (firstn k (m_out m)) bs_pos) as (ob & ot & E1 & Hob & Hot & _).
      assert (Hk : length (firstn k (m_out m)) = k) by (rewrite firstn_length; unfold mlen in HL; lia).
      rewrite E1, app_length, (all_len_concat_length bs ob Hob) in Hk.
      assert (length ob = length pre /\ length ot = 0).
      { subst k. rewrite (Nat.mul_comm (length ob)), (Nat.mul_comm (length pre)) in Hk.
        replace (bs * length pre) with (bs * length pre + 0) in Hk by lia.
        apply Nat.div_mod_unique in Hk; auto. }
      assert (ot = []) by (destruct ot; [reflexivity|simpl in *; lia]). subst ot. rewrite app_nil_r in E1.
      exists ob, (skipn k (m_out m)). repeat split; try tauto; try discriminate.
      + rewrite <- E1. symmetry. apply firstn_skipn.
      + rewrite skipn_length. unfold mlen in HL. lia.
  Qed.

  (* run a helper over the whole blocks [pre]; the region R is left as it was on both sides *)
  Lemma run_prefix {S} (f : S -> list cell -> S * list cell) (g : list (list N) -> S) (h : list (list N) -> list (list N))
        st m pre R :
    (forall cs, f st cs = (g (map rd_in cs), map2 wr_out cs (h (map rd_in cs)))) ->
    (forall bl, all_len bs bl -> length (h bl) = length bl /\ all_len bs (h bl)) ->
    seg_mem m pre R ->
    exists m1 oR X, mrun C f st m 0 (length pre) = Ok (g pre, m1) /\ m_out m1 = concat (h pre) ++ oR /\
                    length oR = length R /\ msrc m1 = X ++ R /\ length X = length pre * bs.
  Proof.
    intros Hf Hh Hm.
    destruct (seg_out_decomp m pre R Hm) as (ob & oR & Ho & Hob & Hobn & HoR & Hal).
    destruct Hm as [Hwf Hs Hb]. destruct (Hh pre Hb) as [Hhl Hha].
    destruct (mrun_seg C bs_pos f g h st m pre R ob oR (length pre)) as (m1 & E1 & Ho1 & Ha1 & Hi1); auto.
    { intros Ha. destruct (Hal Ha) as [-> _]. reflexivity. }
    exists m1, oR, (if m_al m then concat (h pre) else concat pre). repeat split; auto.
    - rewrite (msrc_after_put m m1 Ha1 Hi1). destruct (m_al m) eqn:Ea.
      + destruct (Hal eq_refl) as [_ ->]. exact Ho1.
      + exact Hs.
    - destruct (m_al m); rewrite (all_len_concat_length bs); auto; unfold block in *; lia.
  Qed.

  Lemma cbc_dec_h_ok iv : length iv = bs ->
    forall bl, all_len bs bl -> length (cbc_dec_spec D iv bl) = length bl /\ all_len bs (cbc_dec_spec D iv bl).
  Proof.
    intros Hiv bl Hb. split; [apply (cbc_dec_spec_length D)|].
    revert iv Hiv. induction Hb as [|c cs Hc Hcs IH]; intros iv Hiv; cbn [cbc_dec_spec]; constructor.
    - rewrite xorb_length, D_len by auto. lia.
    - apply IH. exact Hc.
  Qed.

  Lemma cbc_chain_len iv (pre : list (list N)) : length iv = bs -> all_len bs pre -> length (cbc_chain iv pre) = bs.
  Proof.
    intros Hiv Hp. unfold cbc_chain. destruct pre as [|a l]; [exact Hiv|].
    apply all_len_last; [exact Hp|discriminate].
  Qed.

  (* ---------------------------------------------------------------------------------------------- *)
  (* the un-stealing step of CBC-CS2/CS3 on a region R of bs + n bytes, 0 < n <= bs                    *)
  Lemma cbc_unsteal_ok iv1 m1 X oX R oR n : msrc m1 = X ++ R -> m_out m1 = oX ++ oR ->
    length oX = length X -> length oR = length R -> length R = bs + n -> n <= bs -> length iv1 = bs ->
    exists m2, cbc_unsteal_dec C iv1 m1 (length X) n = Ok m2 /\ m_out m2 = oX ++ cs3_unsteal bs D iv1 R n.
  Proof.
    intros Hs Ho HX HoR HR Hn Hiv. unfold cbc_unsteal_dec. fold bs D.
    set (R1 := firstn bs R). set (R2 := skipn bs R).
    assert (HR1 : length R1 = bs) by (subst R1; rewrite firstn_length; lia).
    assert (HR2 : length R2 = n) by (subst R2; rewrite skipn_length; lia).
    assert (HRs : R = R1 ++ R2) by (subst R1 R2; symmetry; apply firstn_skipn).
    assert (Hs1 : msrc m1 = X ++ R1 ++ R2) by (now rewrite Hs, HRs).
    rewrite (mget_in_seg m1 X R1 R2 (length X) bs Hs1) by auto. cbn [obind].
    assert (Hs2 : msrc m1 = (X ++ R1) ++ R2 ++ []) by (now rewrite Hs1, app_nil_r, <- app_assoc).
    rewrite (mget_in_seg m1 (X ++ R1) R2 [] (length X + bs) n Hs2) by (try rewrite app_length; lia). cbn [obind].
    cbv zeta. fold D. set (b1 := D R1). assert (Hb1 : length b1 = bs) by (subst b1; now apply D_len).
    set (b2 := R2 ++ skipn n b1). assert (Hb2 : length b2 = bs) by (subst b2; rewrite app_length, skipn_length; lia).
    set (o1 := firstn bs oR). set (o2 := skipn bs oR).
    assert (Ho1l : length o1 = bs) by (subst o1; rewrite firstn_length; lia).
    assert (Ho2l : length o2 = n) by (subst o2; rewrite skipn_length; lia).
    assert (Ho' : m_out m1 = oX ++ o1 ++ o2) by (subst o1 o2; now rewrite firstn_skipn).
    set (blk2 := xorb (D b2) iv1).
    assert (Hblk2 : length blk2 = bs) by (subst blk2; rewrite xorb_length, D_len by auto; lia).
    destruct (mput_out_seg m1 oX o1 o2 (length X) blk2 Ho') as (m2 & E2 & Ho2 & _ & _); try lia.
    rewrite E2. cbn [obind].
    assert (Ho2' : m_out m2 = (oX ++ blk2) ++ o2 ++ []) by (now rewrite Ho2, app_nil_r, <- app_assoc).
    destruct (mput_out_seg m2 (oX ++ blk2) o2 [] (length X + bs) (firstn n (xorb b1 b2)) Ho2') as (m3 & E3 & Ho3 & _ & _).
    { rewrite app_length. lia. }
    { rewrite firstn_length, xorb_length. lia. }
    exists m3. split; [exact E3|]. rewrite Ho3, app_nil_r, <- app_assoc. reflexivity.
  Qed.

  (* the un-stealing step of CBC-CS1 (inlined in cbc_cs1.rs), as a function on the memory *)
  Definition cs1_unsteal_m (iv1 : block) (m1 : mem) (mid n : nat) : outcome mem :=
    do block1 <- mget_in m1 mid bs;
    do block2 <- mget_in m1 (mid + n) bs;
    let block2 := D block2 in
    let block1 := firstn n block1 ++ skipn n block2 in
    let block2 := xorb block2 block1 in
    let block1 := xorb (D block1) iv1 in
    do m2 <- mput_out m1 mid block1;
    mput_out m2 (mid + bs) (firstn n block2).

  Lemma cs1_unsteal_ok iv1 m1 X oX R oR n : msrc m1 = X ++ R -> m_out m1 = oX ++ oR ->
    length oX = length X -> length oR = length R -> length R = bs + n -> n <= bs -> length iv1 = bs ->
    exists m2, cs1_unsteal_m iv1 m1 (length X) n = Ok m2 /\ m_out m2 = oX ++ cs1_unsteal D iv1 R n.
  Proof.
    intros Hs Ho HX HoR HR Hn Hiv. unfold cs1_unsteal_m.
    set (R1 := firstn bs R). set (R2 := skipn bs R).
    assert (HR1 : length R1 = bs) by (subst R1; rewrite firstn_length; lia).
    assert (HR2 : length R2 = n) by (subst R2; rewrite skipn_length; lia).
    assert (Hs1 : msrc m1 = X ++ R1 ++ R2) by (subst R1 R2; now rewrite firstn_skipn).
    rewrite (mget_in_seg m1 X R1 R2 (length X) bs Hs1) by auto. cbn [obind].
    set (Q1 := firstn n R). set (Q2 := skipn n R).
    assert (HQ1 : length Q1 = n) by (subst Q1; rewrite firstn_length; lia).
    assert (HQ2 : length Q2 = bs) by (subst Q2; rewrite skipn_length; lia).
    assert (Hs2 : msrc m1 = (X ++ Q1) ++ Q2 ++ []) by (subst Q1 Q2; now rewrite app_nil_r, <- app_assoc, firstn_skipn).
    rewrite (mget_in_seg m1 (X ++ Q1) Q2 [] (length X + n) bs Hs2) by (try rewrite app_length; lia). cbn [obind].
    assert (HfR : firstn n R1 = Q1) by (subst R1 Q1; rewrite firstn_firstn; f_equal; lia).
    cbv zeta. fold D. rewrite HfR. set (b2 := D Q2). assert (Hb2 : length b2 = bs) by (subst b2; now apply D_len).
    set (b1 := Q1 ++ skipn n b2). assert (Hb1 : length b1 = bs) by (subst b1; rewrite app_length, skipn_length; lia).
    set (o1 := firstn bs oR). set (o2 := skipn bs oR).
    assert (Ho1l : length o1 = bs) by (subst o1; rewrite firstn_length; lia).
    assert (Ho2l : length o2 = n) by (subst o2; rewrite skipn_length; lia).
    assert (Ho' : m_out m1 = oX ++ o1 ++ o2) by (subst o1 o2; now rewrite firstn_skipn).
    set (blk1 := xorb (D b1) iv1).
    assert (Hblk1 : length blk1 = bs) by (subst blk1; rewrite xorb_length, D_len by auto; lia).
    destruct (mput_out_seg m1 oX o1 o2 (length X) blk1 Ho') as (m2 & E2 & Ho2 & _ & _); try lia.
    rewrite E2. cbn [obind].
    assert (Ho2' : m_out m2 = (oX ++ blk1) ++ o2 ++ []) by (now rewrite Ho2, app_nil_r, <- app_assoc).
    destruct (mput_out_seg m2 (oX ++ blk1) o2 [] (length X + bs) (firstn n (xorb b2 b1)) Ho2') as (m3 & E3 & Ho3 & _ & _).
    { rewrite app_length. lia. }
    { rewrite firstn_length, xorb_length. lia. }
    exists m3. split; [exact E3|]. rewrite Ho3, app_nil_r, <- app_assoc. reflexivity.
  Qed.

  (* the un-stealing step of ECB-CS1 (inlined in ecb_cs1.rs) *)
  Definition ecb1_unsteal_m (m1 : mem) (mid n : nat) : outcome mem :=
    do block1 <- mget_in m1 mid bs;
    do block2 <- mget_in m1 (mid + n) bs;
    let block2 := D block2 in
    let block1 := firstn n block1 ++ skipn n block2 in
    let block1 := D block1 in
    do m2 <- mput_out m1 mid block1;
    mput_out m2 (mid + bs) (firstn n block2).

  Lemma ecb1_unsteal_ok m1 X oX R oR n : msrc m1 = X ++ R -> m_out m1 = oX ++ oR ->
    length oX = length X -> length oR = length R -> length R = bs + n -> n <= bs ->
    exists m2, ecb1_unsteal_m m1 (length X) n = Ok m2 /\ m_out m2 = oX ++ ecb1_unsteal D R n.
  Proof.
    intros Hs Ho HX HoR HR Hn. unfold ecb1_unsteal_m.
    set (R1 := firstn bs R). set (R2 := skipn bs R).
    assert (HR1 : length R1 = bs) by (subst R1; rewrite firstn_length; lia).
    assert (HR2 : length R2 = n) by (subst R2; rewrite skipn_length; lia).
    assert (Hs1 : msrc m1 = X ++ R1 ++ R2) by (subst R1 R2; now rewrite firstn_skipn).
    rewrite (mget_in_seg m1 X R1 R2 (length X) bs Hs1) by auto. cbn [obind].
    set (Q1 := firstn n R). set (Q2 := skipn n R).
    assert (HQ1 : length Q1 = n) by (subst Q1; rewrite firstn_length; lia).
    assert (HQ2 : length Q2 = bs) by (subst Q2; rewrite skipn_length; lia).
    assert (Hs2 : msrc m1 = (X ++ Q1) ++ Q2 ++ []) by (subst Q1 Q2; now rewrite app_nil_r, <- app_assoc, firstn_skipn).
    rewrite (mget_in_seg m1 (X ++ Q1) Q2 [] (length X + n) bs Hs2) by (try rewrite app_length; lia). cbn [obind].
    assert (HfR : firstn n R1 = Q1) by (subst R1 Q1; rewrite firstn_firstn; f_equal; lia).
    cbv zeta. fold D. rewrite HfR. set (b2 := D Q2). assert (Hb2 : length b2 = bs) by (subst b2; now apply D_len).
    set (b1 := Q1 ++ skipn n b2). assert (Hb1 : length b1 = bs) by (subst b1; rewrite app_length, skipn_length; lia).
    set (o1 := firstn bs oR). set (o2 := skipn bs oR).
    assert (Ho1l : length o1 = bs) by (subst o1; rewrite firstn_length; lia).
    assert (Ho2l : length o2 = n) by (subst o2; rewrite skipn_length; lia).
    assert (Ho' : m_out m1 = oX ++ o1 ++ o2) by (subst o1 o2; now rewrite firstn_skipn).
    destruct (mput_out_seg m1 oX o1 o2 (length X) (D b1) Ho') as (m2 & E2 & Ho2 & _ & _); try lia.
    { rewrite D_len; auto. }
    rewrite E2. cbn [obind].
    assert (Ho2' : m_out m2 = (oX ++ D b1) ++ o2 ++ []) by (now rewrite Ho2, app_nil_r, <- app_assoc).
    destruct (mput_out_seg m2 (oX ++ D b1) o2 [] (length X + bs) (firstn n b2) Ho2') as (m3 & E3 & Ho3 & _ & _).
    { rewrite app_length, D_len; auto. }
    { rewrite firstn_length. lia. }
    exists m3. split; [exact E3|]. rewrite Ho3, app_nil_r, <- app_assoc. reflexivity.
  Qed.

  Lemma steal_arith (k n : nat) : n < bs -> (k * bs + (bs + n)) / bs = k + 1 /\ (k * bs + (bs + n)) mod bs = n.
  Proof. intros. replace (k * bs + (bs + n)) with ((k + 1) * bs + n) by lia. apply div_mod_blocks; auto. Qed.

  Lemma concat_len_pre (h : list (list N) -> list (list N)) (pre : list (list N)) (X : list N) :
    length (h pre) = length pre -> all_len bs (h pre) -> length X = length pre * bs -> length (concat (h pre)) = length X.
  Proof. intros H1 H2 H3. rewrite (all_len_concat_length bs); auto. unfold block in *. lia. Qed.

  (* ======================= CBC-CS1 / CS2, decryption ======================= *)
  Theorem cbc_cs1_dec_whole iv m cb : length iv = bs -> seg_mem m cb [] -> cb <> [] ->
    exists m', cbc_cs1_dec C iv m = Ok m' /\ m_out m' = concat (cbc_dec_spec D iv cb).
  Proof.
    intros Hiv Hm Hne. pose proof (sm_len m cb [] Hm) as HL. cbn [length] in HL.
    assert (Hk : 1 <= length cb) by (destruct cb; [congruence|simpl; lia]).
    destruct (div_mod_blocks (length cb) bs 0 bs_pos bs_pos) as [Hdiv Hmod].
    destruct (run_prefix (cts_cbc_dec C) (cbc_chain iv) (cbc_dec_spec D iv) iv m cb []) as (m1 & oR & X & E1 & Ho1 & HoR & _); auto.
    { intros cs. apply cts_cbc_dec_eq. } { now apply cbc_dec_h_ok. }
    unfold cbc_cs1_dec, cs12_dec_main. fold bs. rewrite HL, Hdiv, Hmod.
    destruct (Nat.ltb_spec (length cb * bs + 0) bs) as [|_]; [nia|]. cbn [Nat.eqb]. rewrite E1. cbn [obind].
    exists m1. split; [reflexivity|]. destruct oR; [|discriminate]. now rewrite Ho1, app_nil_r.
  Qed.

  Theorem cbc_cs1_dec_steal iv m pre R n : length iv = bs -> seg_mem m pre R -> length R = bs + n -> 0 < n < bs ->
    exists m', cbc_cs1_dec C iv m = Ok m' /\
               m_out m' = concat (cbc_dec_spec D iv pre) ++ cs1_unsteal D (cbc_chain iv pre) R n.
  Proof.
    intros Hiv Hm HR Hn. pose proof (sm_len m pre R Hm) as HL.
    destruct (steal_arith (length pre) n) as [Hdiv Hmod]; try lia.
    destruct (run_prefix (cts_cbc_dec C) (cbc_chain iv) (cbc_dec_spec D iv) iv m pre R) as (m1 & oR & X & E1 & Ho1 & HoR & Hs1 & HX); auto.
    { intros cs. apply cts_cbc_dec_eq. } { now apply cbc_dec_h_ok. }
    destruct Hm as [_ _ Hpre].
    destruct (cbc_dec_h_ok iv Hiv pre Hpre) as [Hh1 Hh2].
    unfold cbc_cs1_dec, cs12_dec_main. fold bs. rewrite HL, HR, Hdiv, Hmod.
    destruct (Nat.ltb_spec (length pre * bs + (bs + n)) bs) as [|_]; [nia|].
    destruct (Nat.eqb_spec n 0) as [|_]; [lia|].
    unfold usub. destruct (Nat.leb_spec 1 (length pre + 1)) as [_|]; [|lia]. cbn [obind].
    replace (length pre + 1 - 1) with (length pre) by lia. rewrite E1. cbn [obind].
    destruct (Nat.leb_spec (bs + n) (length pre * bs + (bs + n))) as [_|]; [|lia]. cbn [obind].
    replace (length pre * bs + (bs + n) - (bs + n)) with (length X) by lia.
    apply (cs1_unsteal_ok (cbc_chain iv pre) m1 X (concat (cbc_dec_spec D iv pre)) R oR n); auto; try lia.
    - now apply concat_len_pre.
    - now apply cbc_chain_len.
  Qed.

  Theorem cbc_cs2_dec_whole iv m cb : length iv = bs -> seg_mem m cb [] -> cb <> [] ->
    exists m', cbc_cs2_dec C iv m = Ok m' /\ m_out m' = concat (cbc_dec_spec D iv cb).
  Proof.
    intros Hiv Hm Hne. pose proof (sm_len m cb [] Hm) as HL. cbn [length] in HL.
    assert (Hk : 1 <= length cb) by (destruct cb; [congruence|simpl; lia]).
    destruct (div_mod_blocks (length cb) bs 0 bs_pos bs_pos) as [Hdiv Hmod].
    destruct (run_prefix (cts_cbc_dec C) (cbc_chain iv) (cbc_dec_spec D iv) iv m cb []) as (m1 & oR & X & E1 & Ho1 & HoR & _); auto.
    { intros cs. apply cts_cbc_dec_eq. } { now apply cbc_dec_h_ok. }
    unfold cbc_cs2_dec, cs12_dec_main. fold bs. rewrite HL, Hdiv, Hmod.
    destruct (Nat.ltb_spec (length cb * bs + 0) bs) as [|_]; [nia|]. cbn [Nat.eqb]. rewrite E1. cbn [obind].
    exists m1. split; [reflexivity|]. destruct oR; [|discriminate]. now rewrite Ho1, app_nil_r.
  Qed.

  Theorem cbc_cs2_dec_steal iv m pre R n : length iv = bs -> seg_mem m pre R -> length R = bs + n -> 0 < n < bs ->
    exists m', cbc_cs2_dec C iv m = Ok m' /\
               m_out m' = concat (cbc_dec_spec D iv pre) ++ cs3_unsteal bs D (cbc_chain iv pre) R n.
  Proof.
    intros Hiv Hm HR Hn. pose proof (sm_len m pre R Hm) as HL.
    destruct (steal_arith (length pre) n) as [Hdiv Hmod]; try lia.
    destruct (run_prefix (cts_cbc_dec C) (cbc_chain iv) (cbc_dec_spec D iv) iv m pre R) as (m1 & oR & X & E1 & Ho1 & HoR & Hs1 & HX); auto.
    { intros cs. apply cts_cbc_dec_eq. } { now apply cbc_dec_h_ok. }
    destruct Hm as [_ _ Hpre].
    destruct (cbc_dec_h_ok iv Hiv pre Hpre) as [Hh1 Hh2].
    unfold cbc_cs2_dec, cs12_dec_main. fold bs. rewrite HL, HR, Hdiv, Hmod.
    destruct (Nat.ltb_spec (length pre * bs + (bs + n)) bs) as [|_]; [nia|].
    destruct (Nat.eqb_spec n 0) as [|_]; [lia|].
    unfold usub. destruct (Nat.leb_spec 1 (length pre + 1)) as [_|]; [|lia]. cbn [obind].
    replace (length pre + 1 - 1) with (length pre) by lia. rewrite E1. cbn [obind].
    destruct (Nat.leb_spec (bs + n) (length pre * bs + (bs + n))) as [_|]; [|lia]. cbn [obind].
    replace (length pre * bs + (bs + n) - (bs + n)) with (length X) by lia.
    apply (cbc_unsteal_ok (cbc_chain iv pre) m1 X (concat (cbc_dec_spec D iv pre)) R oR n); auto; try lia.
    - now apply concat_len_pre.
    - now apply cbc_chain_len.
  Qed.

  (* ======================= CBC-CS3, decryption ======================= *)
  Theorem cbc_cs3_dec_one iv m c : length iv = bs -> seg_mem m [c] [] ->
    exists m', cbc_cs3_dec C iv m = Ok m' /\ m_out m' = xorb (D c) iv.
  Proof.
    intros Hiv Hm. pose proof (sm_len m [c] [] Hm) as HL. cbn [length] in HL.
    destruct (run_prefix (cts_cbc_dec C) (cbc_chain iv) (cbc_dec_spec D iv) iv m [c] []) as (m1 & oR & X & E1 & Ho1 & HoR & _); auto.
    { intros cs. apply cts_cbc_dec_eq. } { now apply cbc_dec_h_ok. }
    unfold cbc_cs3_dec. fold bs. rewrite HL. replace (1 * bs + 0) with bs by lia.
    rewrite Nat.ltb_irrefl, Nat.eqb_refl, Nat.div_same by lia. cbn [length] in E1. rewrite E1. cbn [obind snd].
    exists m1. split; [reflexivity|]. destruct oR; [|discriminate]. rewrite Ho1. cbn [cbc_dec_spec concat]. now rewrite !app_nil_r.
  Qed.

  Theorem cbc_cs3_dec_steal iv m pre R n : length iv = bs -> seg_mem m pre R -> length R = bs + n -> 0 < n <= bs ->
    exists m', cbc_cs3_dec C iv m = Ok m' /\
               m_out m' = concat (cbc_dec_spec D iv pre) ++ cs3_unsteal bs D (cbc_chain iv pre) R n.
  Proof.
    intros Hiv Hm HR Hn. pose proof (sm_len m pre R Hm) as HL.
    destruct (run_prefix (cts_cbc_dec C) (cbc_chain iv) (cbc_dec_spec D iv) iv m pre R) as (m1 & oR & X & E1 & Ho1 & HoR & Hs1 & HX); auto.
    { intros cs. apply cts_cbc_dec_eq. } { now apply cbc_dec_h_ok. }
    destruct Hm as [_ _ Hpre].
    destruct (cbc_dec_h_ok iv Hiv pre Hpre) as [Hh1 Hh2].
    unfold cbc_cs3_dec. fold bs. rewrite HL, HR.
    destruct (Nat.ltb_spec (length pre * bs + (bs + n)) bs) as [|_]; [nia|].
    destruct (Nat.eqb_spec (length pre * bs + (bs + n)) bs) as [|_]; [nia|].
    assert (Hbl : (length pre * bs + (bs + n) + bs - 1) / bs = length pre + 2).
    { replace (length pre * bs + (bs + n) + bs - 1) with ((length pre + 2) * bs + (n - 1)) by lia.
      apply div_mod_blocks; lia. }
    rewrite Hbl. replace (length pre + 2 - 2) with (length pre) by lia. rewrite E1. cbn [obind].
    unfold usub. replace (length pre * bs + (bs + n) - bs * length pre) with (bs + n) by lia.
    destruct (Nat.leb_spec bs (bs + n)) as [_|]; [|lia]. cbn [obind].
    replace (bs + n - bs) with n by lia. replace (bs * length pre) with (length X) by lia.
    apply (cbc_unsteal_ok (cbc_chain iv pre) m1 X (concat (cbc_dec_spec D iv pre)) R oR n); auto; try lia.
    - now apply concat_len_pre.
    - now apply cbc_chain_len.
  Qed.

  (* ======================= ECB-CS1, decryption ======================= *)
  Theorem ecb_cs1_dec_whole m cb : seg_mem m cb [] -> cb <> [] ->
    exists m', ecb_cs1_dec C m = Ok m' /\ m_out m' = concat (map D cb).
  Proof.
    intros Hm Hne. pose proof (sm_len m cb [] Hm) as HL. cbn [length] in HL.
    assert (Hk : 1 <= length cb) by (destruct cb; [congruence|simpl; lia]).
    destruct (div_mod_blocks (length cb) bs 0 bs_pos bs_pos) as [Hdiv Hmod].
    destruct (run_prefix (cts_ecb_dec C) (fun _ => tt) (map D) tt m cb []) as (m1 & oR & X & E1 & Ho1 & HoR & _); auto.
    { intros cs. apply cts_ecb_dec_eq. } { now apply ecb_h_ok. }
    unfold ecb_cs1_dec. fold bs. rewrite HL, Hdiv, Hmod.
    destruct (Nat.ltb_spec (length cb * bs + 0) bs) as [|_]; [nia|]. cbn [Nat.eqb]. rewrite E1. cbn [obind].
    exists m1. split; [reflexivity|]. destruct oR; [|discriminate]. now rewrite Ho1, app_nil_r.
  Qed.

  Theorem ecb_cs1_dec_steal m pre R n : seg_mem m pre R -> length R = bs + n -> 0 < n < bs ->
    exists m', ecb_cs1_dec C m = Ok m' /\ m_out m' = concat (map D pre) ++ ecb1_unsteal D R n.
  Proof.
    intros Hm HR Hn. pose proof (sm_len m pre R Hm) as HL.
    destruct (steal_arith (length pre) n) as [Hdiv Hmod]; try lia.
    destruct (run_prefix (cts_ecb_dec C) (fun _ => tt) (map D) tt m pre R) as (m1 & oR & X & E1 & Ho1 & HoR & Hs1 & HX); auto.
    { intros cs. apply cts_ecb_dec_eq. } { now apply ecb_h_ok. }
    destruct Hm as [_ _ Hpre].
    destruct (ecb_h_ok C D D_len pre Hpre) as [Hh1 Hh2].
    unfold ecb_cs1_dec. fold bs. rewrite HL, HR, Hdiv, Hmod.
    destruct (Nat.ltb_spec (length pre * bs + (bs + n)) bs) as [|_]; [nia|].
    destruct (Nat.eqb_spec n 0) as [|_]; [lia|].
    unfold usub. destruct (Nat.leb_spec 1 (length pre + 1)) as [_|]; [|lia]. cbn [obind].
    replace (length pre + 1 - 1) with (length pre) by lia. rewrite E1. cbn [obind].
    destruct (Nat.leb_spec (bs + n) (length pre * bs + (bs + n))) as [_|]; [|lia]. cbn [obind].
    replace (length pre * bs + (bs + n) - (bs + n)) with (length X) by lia.
    apply (ecb1_unsteal_ok m1 X (concat (map D pre)) R oR n); auto; try lia.
    now apply (concat_len_pre (map D)).
  Qed.
End Dec.

(* ================================================================================================ *)
(* ECB-CS2 / ECB-CS3 decryption are the encryption bodies of the cipher with E and D exchanged       *)
Definition swapc (C : cipher) : cipher := mkcipher (c_bs C) (c_w C) (c_D C) (c_E C).

Lemma swapc_wf C : cipher_wf C -> cipher_wf (swapc C).
Proof. intros (H1 & H2 & H3 & H4). repeat split; assumption. Qed.

Lemma ecb_cs2_dec_swap C m : ecb_cs2_dec C m = ecb_cs2_enc (swapc C) m.   Proof. reflexivity. Qed.
Lemma ecb_cs3_dec_swap C m : ecb_cs3_dec C m = ecb_cs3_enc (swapc C) m.   Proof. reflexivity. Qed.

Lemma msg_mem_swap C m b t : msg_mem C m b t -> msg_mem (swapc C) m b t.
Proof. intros [H1 H2 H3 H4 H5]. constructor; assumption. Qed.

Theorem ecb_cs2_dec_ok C : cipher_wf C -> forall m cblocks ctail, msg_mem C m cblocks ctail ->
  exists m', ecb_cs2_dec C m = Ok m' /\ m_out m' = ecb_cs2_spec (c_bs C) (c_D C) cblocks ctail.
Proof. intros Hwf m cb ct Hm. rewrite ecb_cs2_dec_swap.
  exact (ecb_cs2_enc_ok (swapc C) (swapc_wf C Hwf) m cb ct (msg_mem_swap C m cb ct Hm)). Qed.

Theorem ecb_cs3_dec_ok C : cipher_wf C -> forall m cblocks ctail, msg_mem C m cblocks ctail ->
  exists m', ecb_cs3_dec C m = Ok m' /\ m_out m' = ecb_cs3_spec (c_bs C) (c_D C) cblocks ctail.
Proof. intros Hwf m cb ct Hm. rewrite ecb_cs3_dec_swap.
  exact (ecb_cs3_enc_ok (swapc C) (swapc_wf C Hwf) m cb ct (msg_mem_swap C m cb ct Hm)). Qed.

(* ================================================================================================ *)
(* Part 2: decryption inverts the layouts of Cts_spec.v                                              *)
Section Inv.
  Variable C : cipher.
  Let bs := c_bs C.
  Let E := c_E C.
  Let D := c_D C.
  Hypothesis Cwf : cipher_wf C.
  Hypothesis DE : DE_id C.

  Let bs_pos : 0 < bs.
  Proof. destruct Cwf as (H & _). exact H. Qed.
  Let E_len : forall x, length x = bs -> length (E x) = bs.
  Proof. destruct Cwf as (_ & _ & H & _). exact H. Qed.
  Let D_len : forall x, length x = bs -> length (D x) = bs.
  Proof. destruct Cwf as (_ & _ & _ & H). exact H. Qed.
  Let DE' : forall x, length x = bs -> D (E x) = x.
  Proof. exact DE. Qed.

  Lemma pad0_len (tail : list N) : length tail <= bs -> length (pad0 bs tail) = bs.
  Proof. intros H. unfold pad0. rewrite app_length, zeros_length. lia. Qed.

  (* completing the stolen bytes: the first tl bytes of Cl followed by the last bs - tl bytes of
     (tail || 0..0) xor Cl   is Cl again *)
  Lemma steal_complete (tail Cl : list N) : length Cl = bs -> length tail <= bs ->
    firstn (length tail) Cl ++ skipn (length tail) (xorb (pad0 bs tail) Cl) = Cl.
  Proof.
    intros HCl Ht. unfold pad0. rewrite skipn_xorb, skipn_app_exact by auto.
    rewrite xorb_zeros_l by (rewrite skipn_length; lia). apply firstn_skipn.
  Qed.

  Lemma cs1_unsteal_inv iv1 (tail Cl : list N) : length Cl = bs -> 0 < length tail < bs ->
    cs1_unsteal D iv1 (firstn (length tail) Cl ++ E (xorb (pad0 bs tail) Cl)) (length tail) = xorb (D Cl) iv1 ++ tail.
  Proof.
    intros HCl Ht. unfold cs1_unsteal.
    assert (Hf : length (firstn (length tail) Cl) = length tail) by (rewrite firstn_length; lia).
    assert (HX : length (xorb (pad0 bs tail) Cl) = bs) by (rewrite xorb_length, pad0_len by lia; lia).
    rewrite skipn_app_exact, firstn_app_exact by auto. rewrite DE' by exact HX.
    rewrite steal_complete by (auto; lia). f_equal.
    rewrite xorb_cancel_r by (rewrite pad0_len; lia). unfold pad0. now apply firstn_app_exact.
  Qed.

  Lemma cs3_unsteal_inv iv1 (tail Cl : list N) : length Cl = bs -> 0 < length tail < bs ->
    cs3_unsteal bs D iv1 (E (xorb (pad0 bs tail) Cl) ++ firstn (length tail) Cl) (length tail) = xorb (D Cl) iv1 ++ tail.
  Proof.
    intros HCl Ht. unfold cs3_unsteal.
    assert (HX : length (xorb (pad0 bs tail) Cl) = bs) by (rewrite xorb_length, pad0_len by lia; lia).
    assert (Hblk : length (E (xorb (pad0 bs tail) Cl)) = bs) by (now apply E_len).
    rewrite skipn_app_exact, firstn_app_exact by auto. rewrite DE' by exact HX.
    rewrite steal_complete by (auto; lia). f_equal.
    rewrite xorb_cancel_r by (rewrite pad0_len; lia). unfold pad0. now apply firstn_app_exact.
  Qed.

  Lemma cs3_unsteal_whole iv1 (a b : list N) : length a = bs -> length b = bs ->
    cs3_unsteal bs D iv1 (b ++ a) bs = xorb (D a) iv1 ++ xorb (D b) a.
  Proof.
    intros Ha Hb. unfold cs3_unsteal. rewrite skipn_app_exact, firstn_app_exact by auto.
    rewrite (skipn_all2 (D b)) by (rewrite D_len; auto). rewrite app_nil_r. f_equal.
    apply firstn_all2. rewrite xorb_length, D_len by auto. lia.
  Qed.

  Lemma ecb1_unsteal_inv (tail Cl : list N) : length Cl = bs -> 0 < length tail < bs ->
    ecb1_unsteal D (firstn (length tail) Cl ++ E (tail ++ skipn (length tail) Cl)) (length tail) = D Cl ++ tail.
  Proof.
    intros HCl Ht. unfold ecb1_unsteal.
    assert (Hf : length (firstn (length tail) Cl) = length tail) by (rewrite firstn_length; lia).
    assert (HX : length (tail ++ skipn (length tail) Cl) = bs) by (rewrite app_length, skipn_length; lia).
    rewrite skipn_app_exact, firstn_app_exact by auto. rewrite DE' by exact HX.
    rewrite skipn_app_exact by auto. rewrite firstn_skipn. f_equal. now apply firstn_app_exact.
  Qed.

  Lemma cbc_dec_last iv (Cs : list block) : Cs <> [] ->
    concat (cbc_dec_spec D iv Cs) =
    concat (cbc_dec_spec D iv (removelast Cs)) ++ xorb (D (last Cs [])) (cbc_chain iv (removelast Cs)).
  Proof.
    intros Hne. rewrite (last_removelast Cs [] Hne) at 1. rewrite (cbc_dec_app D), concat_app.
    cbn [cbc_dec_spec concat]. now rewrite app_nil_r.
  Qed.

  (* facts shared by the three CBC variants when the final block is partial *)
  Lemma cbc_tail_facts iv (blocks : list block) (tail : list N) :
    length iv = bs -> all_len bs blocks -> 1 <= length blocks -> 0 < length tail < bs ->
    let Cs := cbc_enc_spec E iv blocks in
    let blk := E (xorb (pad0 bs tail) (last Cs [])) in
    cbc_padded bs E iv blocks tail = Cs ++ [blk] /\ Cs <> [] /\ all_len bs (removelast Cs) /\ length (last Cs []) = bs /\
    length blk = bs /\
    concat (cbc_dec_spec D iv (removelast Cs)) ++ xorb (D (last Cs [])) (cbc_chain iv (removelast Cs)) = concat blocks.
  Proof.
    intros Hiv Hb Hn Ht Cs blk.
    assert (HCl : length Cs = length blocks) by (subst Cs; apply (cbc_enc_spec_length E)).
    assert (HCa : all_len bs Cs) by (subst Cs; apply (cbc_enc_spec_all_len bs E); auto).
    assert (Hne : Cs <> []) by (intros HH; rewrite HH in HCl; simpl in HCl; lia).
    assert (HCll : length (last Cs []) = bs) by (apply all_len_last; auto).
    repeat split; auto.
    - unfold cbc_padded. destruct (Nat.eqb_spec (length tail) 0) as [|_]; [lia|].
      rewrite (cbc_enc_app E). fold Cs. cbn [cbc_enc_spec]. unfold cbc_chain.
      rewrite (last_indep Cs iv []) by auto. reflexivity.
    - now apply all_len_removelast.
    - subst blk. apply E_len. rewrite xorb_length, pad0_len by lia. lia.
    - rewrite <- cbc_dec_last by auto. subst Cs. rewrite (cbc_roundtrip bs E D); auto.
  Qed.

  Lemma len_firstn_le (Cl : list N) n : n <= length Cl -> length (firstn n Cl) = n.
  Proof. intros. rewrite firstn_length. lia. Qed.

  (* ---------------- CBC-CS1 ---------------- *)
  Theorem cbc_cs1_roundtrip iv m (blocks : list block) (tail : list N) :
    length iv = bs -> all_len bs blocks -> 1 <= length blocks -> length tail < bs ->
    mwf m -> msrc m = cbc_cs1_spec bs E iv blocks tail ->
    exists m', cbc_cs1_dec C iv m = Ok m' /\ m_out m' = concat blocks ++ tail.
  Proof.
    intros Hiv Hb Hn Ht Hwf Hs. unfold cbc_cs1_spec, final_len in Hs.
    destruct (Nat.eqb_spec (length tail) 0) as [Ht0|Ht0].
    - destruct tail; [|discriminate]. unfold cbc_padded in Hs. cbn [length Nat.eqb] in Hs. rewrite app_nil_r in Hs.
      set (Cs := cbc_enc_spec E iv blocks) in *.
      assert (HCl : length Cs = length blocks) by (subst Cs; apply (cbc_enc_spec_length E)).
      assert (HCa : all_len bs Cs) by (subst Cs; apply (cbc_enc_spec_all_len bs E); auto).
      rewrite (cs1_layout_whole bs Cs HCa) in Hs.
      destruct (cbc_cs1_dec_whole C Cwf iv m Cs) as (m' & E1 & Ho); auto.
      { constructor; auto. now rewrite app_nil_r. }
      { intros HH; rewrite HH in HCl; simpl in HCl; lia. }
      exists m'. split; [exact E1|]. rewrite Ho, app_nil_r. subst Cs. fold D. now rewrite (cbc_roundtrip bs E D).
    - destruct (cbc_tail_facts iv blocks tail) as (Hp & Hne & HCp & HCl & Hblk & Hinv); auto; try lia.
      set (Cs := cbc_enc_spec E iv blocks) in *. set (Cl := last Cs []) in *.
      rewrite Hp in Hs. destruct (cs_layouts_snoc Cs (E (xorb (pad0 bs tail) Cl)) (length tail) Hne) as [HH _].
      fold Cl in HH. rewrite HH in Hs.
      destruct (cbc_cs1_dec_steal C Cwf iv m (removelast Cs) (firstn (length tail) Cl ++ E (xorb (pad0 bs tail) Cl)) (length tail))
        as (m' & E1 & Ho); auto; try lia.
      { constructor; auto. }
      { rewrite app_length, len_firstn_le by lia. fold bs E in Hblk |- *. lia. }
      exists m'. split; [exact E1|]. rewrite Ho. fold D.
      rewrite cs1_unsteal_inv by (auto; lia). now rewrite app_assoc, Hinv.
  Qed.

  (* ---------------- CBC-CS2 ---------------- *)
  Theorem cbc_cs2_roundtrip iv m (blocks : list block) (tail : list N) :
    length iv = bs -> all_len bs blocks -> 1 <= length blocks -> length tail < bs ->
    mwf m -> msrc m = cbc_cs2_spec bs E iv blocks tail ->
    exists m', cbc_cs2_dec C iv m = Ok m' /\ m_out m' = concat blocks ++ tail.
  Proof.
    intros Hiv Hb Hn Ht Hwf Hs. unfold cbc_cs2_spec, final_len, cs2_layout in Hs.
    destruct (Nat.eqb_spec (length tail) 0) as [Ht0|Ht0].
    - destruct tail; [|discriminate]. unfold cbc_padded in Hs. cbn [length Nat.eqb] in Hs. rewrite app_nil_r in Hs.
      rewrite Nat.ltb_irrefl in Hs.
      set (Cs := cbc_enc_spec E iv blocks) in *.
      assert (HCl : length Cs = length blocks) by (subst Cs; apply (cbc_enc_spec_length E)).
      assert (HCa : all_len bs Cs) by (subst Cs; apply (cbc_enc_spec_all_len bs E); auto).
      rewrite (cs1_layout_whole bs Cs HCa) in Hs.
      destruct (cbc_cs2_dec_whole C Cwf iv m Cs) as (m' & E1 & Ho); auto.
      { constructor; auto. now rewrite app_nil_r. }
      { intros HH; rewrite HH in HCl; simpl in HCl; lia. }
      exists m'. split; [exact E1|]. rewrite Ho, app_nil_r. subst Cs. fold D. now rewrite (cbc_roundtrip bs E D).
    - destruct (cbc_tail_facts iv blocks tail) as (Hp & Hne & HCp & HCl & Hblk & Hinv); auto; try lia.
      set (Cs := cbc_enc_spec E iv blocks) in *. set (Cl := last Cs []) in *.
      destruct (Nat.ltb_spec (length tail) bs) as [_|]; [|lia].
      rewrite Hp in Hs. destruct (cs_layouts_snoc Cs (E (xorb (pad0 bs tail) Cl)) (length tail) Hne) as [_ HH].
      fold Cl in HH. rewrite HH in Hs.
      destruct (cbc_cs2_dec_steal C Cwf iv m (removelast Cs) (E (xorb (pad0 bs tail) Cl) ++ firstn (length tail) Cl) (length tail))
        as (m' & E1 & Ho); auto; try lia.
      { constructor; auto. }
      { rewrite app_length, len_firstn_le by lia. fold bs E in Hblk |- *. lia. }
      exists m'. split; [exact E1|]. rewrite Ho. fold D.
      rewrite cs3_unsteal_inv by (auto; lia). now rewrite app_assoc, Hinv.
  Qed.

  (* ---------------- CBC-CS3 ---------------- *)
  Theorem cbc_cs3_roundtrip iv m (blocks : list block) (tail : list N) :
    length iv = bs -> all_len bs blocks -> 1 <= length blocks -> length tail < bs ->
    mwf m -> msrc m = cbc_cs3_spec bs E iv blocks tail ->
    exists m', cbc_cs3_dec C iv m = Ok m' /\ m_out m' = concat blocks ++ tail.
  Proof.
    intros Hiv Hb Hn Ht Hwf Hs. unfold cbc_cs3_spec, final_len in Hs.
    destruct (Nat.eqb_spec (length tail) 0) as [Ht0|Ht0].
    - destruct tail; [|discriminate]. unfold cbc_padded in Hs. cbn [length Nat.eqb] in Hs. rewrite app_nil_r in Hs.
      set (Cs := cbc_enc_spec E iv blocks) in *.
      assert (HCl : length Cs = length blocks) by (subst Cs; apply (cbc_enc_spec_length E)).
      assert (HCa : all_len bs Cs) by (subst Cs; apply (cbc_enc_spec_all_len bs E); auto).
      assert (Hrt : cbc_dec_spec D iv Cs = blocks) by (subst Cs; apply (cbc_roundtrip bs E D); auto).
      clearbody Cs. rewrite app_nil_r.
      destruct (Nat.leb_spec (length Cs) 1) as [H1|H2].
      + (* one block *)
        destruct Cs as [|c [|c' Cs']] eqn:ECs; [simpl in HCl; lia| |simpl in H1; lia].
        unfold cs3_layout in Hs. cbn [length Nat.leb concat] in Hs.
        destruct (cbc_cs3_dec_one C Cwf iv m c) as (m' & E1 & Ho); auto.
        { constructor; auto. cbn [concat]. now rewrite !app_nil_r in *. }
        exists m'. split; [exact E1|]. rewrite Ho. rewrite <- Hrt. cbn [cbc_dec_spec concat]. now rewrite app_nil_r.
      + destruct (split_last_two Cs) as (pre & a & b & HCs); [lia|].
        rewrite HCs in HCa. apply Forall_app in HCa. destruct HCa as [Hpa Hab].
        pose proof (Forall_inv Hab) as Hla. pose proof (Forall_inv (Forall_inv_tail Hab)) as Hlb. cbv beta in Hla, Hlb.
        rewrite HCs in Hs. pose proof (cs3_layout_whole C Cwf pre a b Hla) as HW. assert (Hs' : msrc m = concat pre ++ b ++ a) by (etransitivity; [exact Hs | exact HW]). clear Hs HW. rename Hs' into Hs.
        destruct (cbc_cs3_dec_steal C Cwf iv m pre (b ++ a) bs) as (m' & E1 & Ho); auto; try lia.
        { constructor; auto. }
        { rewrite app_length. fold bs in Hla, Hlb. lia. }
        exists m'. split; [exact E1|]. rewrite Ho. fold D. rewrite cs3_unsteal_whole by auto.
        rewrite <- Hrt, HCs, (cbc_dec_app D), concat_app. cbn [cbc_dec_spec concat].
        unfold cbc_chain at 2. cbn [last]. now rewrite app_nil_r.
    - destruct (cbc_tail_facts iv blocks tail) as (Hp & Hne & HCp & HCl & Hblk & Hinv); auto; try lia.
      set (Cs := cbc_enc_spec E iv blocks) in *. set (Cl := last Cs []) in *.
      rewrite Hp in Hs. destruct (cs_layouts_snoc Cs (E (xorb (pad0 bs tail) Cl)) (length tail) Hne) as [_ HH].
      fold Cl in HH. rewrite HH in Hs.
      destruct (cbc_cs3_dec_steal C Cwf iv m (removelast Cs) (E (xorb (pad0 bs tail) Cl) ++ firstn (length tail) Cl) (length tail))
        as (m' & E1 & Ho); auto; try lia.
      { constructor; auto. }
      { rewrite app_length, len_firstn_le by lia. fold bs E in Hblk |- *. lia. }
      exists m'. split; [exact E1|]. rewrite Ho. fold D.
      rewrite cs3_unsteal_inv by (auto; lia). now rewrite app_assoc, Hinv.
  Qed.

  (* ---------------- ECB ---------------- *)
  Lemma map_DE (bl : list block) : all_len bs bl -> map D (map E bl) = bl.
  Proof. intros H. induction H as [|x l Hx _ IH]; [reflexivity|]. cbn [map]. now rewrite DE', IH. Qed.

  Lemma ecb_last_facts (blocks : list block) : all_len bs blocks -> 1 <= length blocks ->
    let Cs := map E blocks in
    Cs <> [] /\ all_len bs Cs /\ all_len bs (removelast Cs) /\ length (last Cs []) = bs /\
    concat (map D (removelast Cs)) ++ D (last Cs []) = concat blocks.
  Proof.
    intros Hb Hn Cs.
    assert (HCl : length Cs = length blocks) by (subst Cs; apply map_length).
    assert (HCa : all_len bs Cs) by (subst Cs; apply (ecb_h_ok C E E_len); auto).
    assert (Hne : Cs <> []) by (intros HH; rewrite HH in HCl; simpl in HCl; lia).
    repeat split; auto.
    - now apply all_len_removelast.
    - now apply all_len_last.
    - rewrite <- (map_DE blocks Hb) at 1. fold Cs. rewrite (last_removelast Cs [] Hne) at 3.
      rewrite map_app, concat_app. cbn [map concat]. now rewrite app_nil_r.
  Qed.

  Theorem ecb_cs1_roundtrip m (blocks : list block) (tail : list N) :
    all_len bs blocks -> 1 <= length blocks -> length tail < bs ->
    mwf m -> msrc m = ecb_cs1_spec bs E blocks tail ->
    exists m', ecb_cs1_dec C m = Ok m' /\ m_out m' = concat blocks ++ tail.
  Proof.
    intros Hb Hn Ht Hwf Hs. unfold ecb_cs1_spec, final_len, ecb_padded in Hs.
    destruct (ecb_last_facts blocks Hb Hn) as (Hne & HCa & HCp & HCl & Hinv).
    set (Cs := map E blocks) in *. set (Cl := last Cs []) in *.
    destruct (Nat.eqb_spec (length tail) 0) as [Ht0|Ht0].
    - destruct tail; [|discriminate]. rewrite (cs1_layout_whole bs Cs HCa) in Hs.
      destruct (ecb_cs1_dec_whole C Cwf m Cs) as (m' & E1 & Ho); auto.
      { constructor; auto. now rewrite app_nil_r. }
      exists m'. split; [exact E1|]. rewrite Ho, app_nil_r. subst Cs. fold D. now rewrite map_DE.
    - destruct (cs_layouts_snoc Cs (E (tail ++ skipn (length tail) Cl)) (length tail) Hne) as [HH _].
      fold Cl in HH. rewrite HH in Hs.
      assert (Hblk : length (E (tail ++ skipn (length tail) Cl)) = bs).
      { apply E_len. rewrite app_length, skipn_length. lia. }
      destruct (ecb_cs1_dec_steal C Cwf m (removelast Cs) (firstn (length tail) Cl ++ E (tail ++ skipn (length tail) Cl)) (length tail))
        as (m' & E1 & Ho); auto; try lia.
      { constructor; auto. }
      { rewrite app_length, len_firstn_le by lia. fold bs in Hblk |- *. lia. }
      exists m'. split; [exact E1|]. rewrite Ho. fold D.
      rewrite ecb1_unsteal_inv by (auto; lia). now rewrite app_assoc, Hinv.
  Qed.

  (* CS2 / CS3: decryption is the stealing procedure with D; its layout applied to the encryptor's
     layout gives the message back *)
  Lemma ecb_steal_inv (blocks : list block) (tail : list N) :
    all_len bs blocks -> 1 <= length blocks -> 0 < length tail < bs ->
    let Cs := map E blocks in let Cl := last Cs [] in let blk := E (tail ++ skipn (length tail) Cl) in
    let cblocks := removelast Cs ++ [blk] in let ctail := firstn (length tail) Cl in
    concat cblocks ++ ctail = cs3_layout (Cs ++ [blk]) (length tail) /\
    all_len bs cblocks /\ 1 <= length cblocks /\ length ctail = length tail /\
    cs3_layout (ecb_padded D cblocks ctail) (final_len bs ctail) = concat blocks ++ tail.
  Proof.
    intros Hb Hn Ht Cs Cl blk cblocks ctail.
    destruct (ecb_last_facts blocks Hb Hn) as (Hne & HCa & HCp & HCl & Hinv). fold Cs Cl in Hne, HCa, HCp, HCl, Hinv.
    assert (Hblk : length blk = bs) by (subst blk; apply E_len; rewrite app_length, skipn_length; lia).
    assert (Hct : length ctail = length tail) by (subst ctail; apply len_firstn_le; lia).
    repeat split; auto.
    - destruct (cs_layouts_snoc Cs blk (length tail) Hne) as [_ HH]. rewrite HH. subst cblocks.
      rewrite concat_app. cbn [concat]. now rewrite app_nil_r, <- app_assoc.
    - subst cblocks. apply all_len_app. split; [exact HCp|]. constructor; [exact Hblk|constructor].
    - subst cblocks. rewrite app_length. simpl. lia.
    - unfold final_len, ecb_padded. rewrite Hct. destruct (Nat.eqb_spec (length tail) 0) as [|_]; [lia|].
      subst cblocks. rewrite map_app. cbn [map]. rewrite last_app_single.
      assert (HDb : D blk = tail ++ skipn (length tail) Cl).
      { subst blk. apply DE'. rewrite app_length, skipn_length. lia. }
      rewrite HDb. rewrite skipn_app_exact by auto.
      replace (ctail ++ skipn (length tail) Cl) with Cl by (subst ctail; symmetry; apply firstn_skipn).
      assert (Hne' : map D (removelast Cs) ++ [tail ++ skipn (length tail) Cl] <> []) by (intros HH; apply app_eq_nil in HH; destruct HH; discriminate).
      destruct (cs_layouts_snoc (map D (removelast Cs) ++ [tail ++ skipn (length tail) Cl]) (D Cl) (length tail) Hne') as [_ HH].
      etransitivity; [exact HH|]. unfold block in *. rewrite removelast_last, last_app_single, firstn_app_exact by auto.
      now rewrite app_assoc, Hinv.
  Qed.

  Theorem ecb_cs2_roundtrip m (blocks : list block) (tail : list N) :
    all_len bs blocks -> 1 <= length blocks -> length tail < bs ->
    mwf m -> msrc m = ecb_cs2_spec bs E blocks tail ->
    exists m', ecb_cs2_dec C m = Ok m' /\ m_out m' = concat blocks ++ tail.
  Proof.
    intros Hb Hn Ht Hwf Hs. unfold ecb_cs2_spec, cs2_layout in Hs.
    destruct (Nat.eqb_spec (length tail) 0) as [Ht0|Ht0].
    - destruct tail; [|discriminate]. unfold final_len, ecb_padded in Hs. cbn [length Nat.eqb] in Hs.
      rewrite Nat.ltb_irrefl in Hs.
      destruct (ecb_last_facts blocks Hb Hn) as (Hne & HCa & _).
      rewrite (cs1_layout_whole bs _ HCa) in Hs.
      destruct (ecb_cs2_dec_ok C Cwf m (map E blocks) []) as (m' & E1 & Ho).
      { constructor; auto; [now rewrite app_nil_r | rewrite map_length; exact Hn]. }
      exists m'. split; [exact E1|]. rewrite Ho. unfold ecb_cs2_spec, cs2_layout, final_len, ecb_padded.
      cbn [length Nat.eqb]. fold bs D. rewrite Nat.ltb_irrefl, map_DE by auto.
      rewrite app_nil_r. now apply cs1_layout_whole.
    - destruct (ecb_steal_inv blocks tail Hb Hn) as (Hc & Hca & Hcn & Hct & Hinv); [lia|].
      unfold final_len in Hs. destruct (Nat.eqb_spec (length tail) 0) as [|_]; [lia|].
      destruct (Nat.ltb_spec (length tail) bs) as [_|]; [|lia].
      unfold ecb_padded in Hs. destruct (Nat.eqb_spec (length tail) 0) as [|_]; [lia|].
      rewrite <- Hc in Hs.
      destruct (ecb_cs2_dec_ok C Cwf m _ _ (Build_msg_mem C m _ _ Hwf Hs Hca Hcn ltac:(fold bs; lia))) as (m' & E1 & Ho).
      exists m'. split; [exact E1|]. rewrite Ho. unfold ecb_cs2_spec, cs2_layout. fold bs D.
      replace (final_len bs (firstn (length tail) (last (map E blocks) [])) <? bs) with true.
      + exact Hinv.
      + symmetry. apply Nat.ltb_lt. unfold final_len. rewrite Hct. destruct (Nat.eqb_spec (length tail) 0); lia.
  Qed.

  Theorem ecb_cs3_roundtrip m (blocks : list block) (tail : list N) :
    all_len bs blocks -> 1 <= length blocks -> length tail < bs ->
    mwf m -> msrc m = ecb_cs3_spec bs E blocks tail ->
    exists m', ecb_cs3_dec C m = Ok m' /\ m_out m' = concat blocks ++ tail.
  Proof.
    intros Hb Hn Ht Hwf Hs. unfold ecb_cs3_spec in Hs.
    destruct (Nat.eqb_spec (length tail) 0) as [Ht0|Ht0].
    - destruct tail; [|discriminate]. unfold final_len, ecb_padded in Hs. cbn [length Nat.eqb] in Hs.
      destruct (ecb_last_facts blocks Hb Hn) as (Hne & HCa & _).
      set (Cs := map E blocks) in *.
      assert (HCl : length Cs = length blocks) by (subst Cs; apply map_length).
      assert (HDC : map D Cs = blocks) by (subst Cs; now apply map_DE).
      clearbody Cs. rewrite app_nil_r.
      destruct (Nat.leb_spec (length Cs) 1) as [H1|H2].
      + unfold cs3_layout in Hs. replace (length Cs <=? 1) with true in Hs by (symmetry; now apply Nat.leb_le).
        destruct (ecb_cs3_dec_ok C Cwf m Cs []) as (m' & E1 & Ho).
        { constructor; auto; [now rewrite app_nil_r | unfold block in *; lia]. }
        exists m'. split; [exact E1|]. rewrite Ho. unfold ecb_cs3_spec, final_len, ecb_padded. cbn [length Nat.eqb].
        fold bs D. rewrite HDC. unfold cs3_layout.
        replace (length blocks <=? 1) with true by (symmetry; apply Nat.leb_le; lia). reflexivity.
      + destruct (split_last_two Cs) as (pre & a & b & HCs); [lia|].
        pose proof HCa as HCa'. rewrite HCs in HCa'. apply Forall_app in HCa'. destruct HCa' as [Hpa Hab].
        pose proof (Forall_inv Hab) as Hla. pose proof (Forall_inv (Forall_inv_tail Hab)) as Hlb. cbv beta in Hla, Hlb.
        rewrite HCs in Hs. pose proof (cs3_layout_whole C Cwf pre a b Hla) as HW. assert (Hs' : msrc m = concat pre ++ b ++ a) by (etransitivity; [exact Hs | exact HW]). clear Hs HW. rename Hs' into Hs.
        destruct (ecb_cs3_dec_ok C Cwf m (pre ++ [b; a]) []) as (m' & E1 & Ho).
        { constructor; auto.
          - rewrite Hs, concat_app. cbn [concat]. now rewrite !app_nil_r.
          - apply all_len_app. split; [exact Hpa|]. constructor; [exact Hlb|]. constructor; [exact Hla|constructor].
          - rewrite app_length. simpl. lia. }
        exists m'. split; [exact E1|]. rewrite Ho. unfold ecb_cs3_spec, final_len, ecb_padded. cbn [length Nat.eqb].
        fold bs D. rewrite map_app. cbn [map].
        pose proof (cs3_layout_whole C Cwf (map D pre) (D b) (D a) (D_len b Hlb)) as HW2. etransitivity; [exact HW2|]. clear HW2.
        rewrite <- HDC, HCs, map_app, concat_app. cbn [map concat]. now rewrite app_nil_r.
    - destruct (ecb_steal_inv blocks tail Hb Hn) as (Hc & Hca & Hcn & Hct & Hinv); [lia|].
      unfold final_len in Hs. destruct (Nat.eqb_spec (length tail) 0) as [|_]; [lia|].
      unfold ecb_padded in Hs. destruct (Nat.eqb_spec (length tail) 0) as [|_]; [lia|].
      rewrite <- Hc in Hs.
      destruct (ecb_cs3_dec_ok C Cwf m _ _ (Build_msg_mem C m _ _ Hwf Hs Hca Hcn ltac:(fold bs; lia))) as (m' & E1 & Ho).
      exists m'. split; [exact E1|]. rewrite Ho. exact Hinv.
  Qed.
End Inv.

(* ================================================================================================ *)
(* Part 3: length preservation of all twelve bodies, and totality on every input of >= one block    *)
Lemma mput_out_len m off v m' : mput_out m off v = Ok m' -> mlen m' = mlen m.
Proof.
  unfold mput_out, mlen. destruct (Nat.leb_spec (off + length v) (length (m_out m))) as [H|]; [|discriminate].
  intros HH. injection HH as <-. cbn [m_out]. now apply splice_length.
Qed.

Lemma mrun_len C {S} (f : S -> list cell -> S * list cell) st m off nb st' m' :
  mrun C f st m off nb = Ok (st', m') -> mlen m' = mlen m.
Proof.
  unfold mrun. destruct (f st (mcells C m off nb)) as [s1 cs']. intros H.
  destruct (mput_out m off (outs_of cs')) as [m1| |] eqn:E1; cbn [obind] in H; try discriminate.
  injection H as _ <-. now apply mput_out_len in E1.
Qed.

Ltac len_step :=
  match goal with
  | H : Ok _ = Ok _ |- _ => injection H as <-
  | H : Err = Ok _ |- _ => discriminate H
  | H : Panic = Ok _ |- _ => discriminate H
  | H : mput_out _ _ _ = Ok _ |- _ => apply mput_out_len in H
  | H : mrun _ _ _ _ _ _ = Ok (_, _) |- _ => apply mrun_len in H
  | H : obind ?x _ = Ok _ |- _ => let E := fresh "E" in destruct x eqn:E; cbn [obind] in H
  | H : (let '(_, _) := ?r in _) = Ok _ |- _ => destruct r
  | H : (if ?c then _ else _) = Ok _ |- _ => destruct c
  end.

Theorem cts_length_preserved C v enc iv m m' : cts_run C v enc iv m = Ok m' -> mlen m' = mlen m.
Proof.
  destruct v, enc; cbn [cts_run];
    unfold cbc_cs1_enc, cbc_cs1_dec, cbc_cs2_enc, cbc_cs2_dec, cbc_cs3_enc, cbc_cs3_dec,
           ecb_cs1_enc, ecb_cs1_dec, ecb_cs2_enc, ecb_cs2_dec, ecb_cs3_enc, ecb_cs3_dec,
           cs12_dec_main, cbc_steal_enc, cbc_unsteal_dec, swap_last_two, ecb_steal;
    intros H; repeat len_step; cbn [snd] in *; try congruence.
  destruct a as [s1 m1]. now apply mrun_len in E.
Qed.

Section Total.
  Variable C : cipher.
  Let bs := c_bs C.
  Hypothesis Cwf : cipher_wf C.
  Let bs_pos : 0 < bs.
  Proof. destruct Cwf as (H & _). exact H. Qed.

  (* every well-formed memory of at least one block is a message: whole blocks, then a short tail *)
  Lemma mem_decomp m : mwf m -> bs <= mlen m -> exists blocks tail, msg_mem C m blocks tail.
  Proof.
    intros Hwf HL. destruct (chunks_decompose bs (msrc m) bs_pos) as (bl & t & E1 & Hbl & Ht & _).
    exists bl, t. constructor; auto.
    assert (Hlen : length (msrc m) = mlen m).
    { unfold msrc, mlen. destruct Hwf as [Hl _]. destruct (m_al m); auto. }
    rewrite E1, app_length, (all_len_concat_length bs bl Hbl) in Hlen.
    destruct bl; [simpl in Hlen; fold bs in Ht; lia | simpl; lia].
  Qed.

  Lemma msg_to_seg_whole m blocks : msg_mem C m blocks [] -> seg_mem C m blocks [] /\ blocks <> [].
  Proof. intros [H1 H2 H3 H4 H5]. split; [constructor; auto|]. intros ->. simpl in H4. lia. Qed.

  Lemma msg_to_seg_tail m blocks tail : msg_mem C m blocks tail ->
    seg_mem C m (removelast blocks) (last blocks [] ++ tail) /\ length (last blocks [] ++ tail) = bs + length tail.
  Proof.
    intros [H1 H2 H3 H4 H5].
    assert (Hne : blocks <> []) by (intros ->; simpl in H4; lia).
    split.
    - constructor; auto.
      + rewrite H2. rewrite (last_removelast blocks [] Hne) at 1. rewrite concat_app. cbn [concat].
        now rewrite app_nil_r, <- app_assoc.
      + now apply all_len_removelast.
    - rewrite app_length, (all_len_last bs blocks []); auto.
  Qed.

  Lemma msg_to_seg_two m blocks : msg_mem C m blocks [] -> 2 <= length blocks ->
    exists pre R, seg_mem C m pre R /\ length R = bs + bs.
  Proof.
    intros [H1 H2 H3 H4 H5] Hn. destruct (split_last_two blocks Hn) as (pre & a & b & ->).
    apply all_len_app in H3. destruct H3 as [Hp Hab].
    pose proof (Forall_inv Hab) as Hla. pose proof (Forall_inv (Forall_inv_tail Hab)) as Hlb. cbv beta in Hla, Hlb.
    exists pre, (a ++ b). split.
    - constructor; auto. rewrite H2, concat_app. cbn [concat]. now rewrite !app_nil_r.
    - rewrite app_length. lia.
  Qed.

  (* no input of at least one block makes any of the twelve bodies panic or fail *)
  Theorem cts_total v enc iv m : mwf m -> bs <= mlen m -> length iv = bs ->
    exists m', cts_run C v enc iv m = Ok m' /\ mlen m' = mlen m.
  Proof.
    intros Hwf HL Hiv.
    cut (exists m', cts_run C v enc iv m = Ok m').
    { intros (m' & Hr). exists m'. split; [exact Hr|]. now apply cts_length_preserved in Hr. }
    destruct (mem_decomp m Hwf HL) as (blocks & tail & Hm).
    destruct enc.
    - (* encryption: Cts_cs_proofs *)
      destruct v; cbn [cts_run].
      + destruct (cbc_cs1_enc_ok C Cwf iv m blocks tail Hiv Hm) as (m' & E1 & _). eauto.
      + destruct (cbc_cs2_enc_ok C Cwf iv m blocks tail Hiv Hm) as (m' & E1 & _). eauto.
      + destruct (cbc_cs3_enc_ok C Cwf iv m blocks tail Hiv Hm) as (m' & E1 & _). eauto.
      + destruct (ecb_cs1_enc_ok C Cwf m blocks tail Hm) as (m' & E1 & _). eauto.
      + destruct (ecb_cs2_enc_ok C Cwf m blocks tail Hm) as (m' & E1 & _). eauto.
      + destruct (ecb_cs3_enc_ok C Cwf m blocks tail Hm) as (m' & E1 & _). eauto.
    - (* decryption *)
      pose proof (mm_tail C m blocks tail Hm) as Ht. fold bs in Ht.
      destruct v; cbn [cts_run].
      + destruct tail as [|t0 tail'].
        * destruct (msg_to_seg_whole m blocks Hm) as [Hs Hne].
          destruct (cbc_cs1_dec_whole C Cwf iv m blocks Hiv Hs Hne) as (m' & E1 & _). eauto.
        * destruct (msg_to_seg_tail m blocks _ Hm) as [Hs HR].
          destruct (cbc_cs1_dec_steal C Cwf iv m _ _ _ Hiv Hs HR) as (m' & E1 & _); [simpl in *; lia|]. eauto.
      + destruct tail as [|t0 tail'].
        * destruct (msg_to_seg_whole m blocks Hm) as [Hs Hne].
          destruct (cbc_cs2_dec_whole C Cwf iv m blocks Hiv Hs Hne) as (m' & E1 & _). eauto.
        * destruct (msg_to_seg_tail m blocks _ Hm) as [Hs HR].
          destruct (cbc_cs2_dec_steal C Cwf iv m _ _ _ Hiv Hs HR) as (m' & E1 & _); [simpl in *; lia|]. eauto.
      + destruct tail as [|t0 tail'].
        * destruct (Nat.leb_spec (length blocks) 1) as [H1|H2].
          -- pose proof (mm_nb C m blocks [] Hm) as Hn.
             destruct blocks as [|c [|c' bl']]; [simpl in Hn; lia| |simpl in H1; lia].
             destruct (msg_to_seg_whole m [c] Hm) as [Hs _].
             destruct (cbc_cs3_dec_one C Cwf iv m c Hiv Hs) as (m' & E1 & _). eauto.
          -- destruct (msg_to_seg_two m blocks Hm H2) as (pre & R & Hs & HR).
             destruct (cbc_cs3_dec_steal C Cwf iv m pre R bs Hiv Hs HR) as (m' & E1 & _); [lia|]. eauto.
        * destruct (msg_to_seg_tail m blocks _ Hm) as [Hs HR].
          destruct (cbc_cs3_dec_steal C Cwf iv m _ _ _ Hiv Hs HR) as (m' & E1 & _); [simpl in *; lia|]. eauto.
      + destruct tail as [|t0 tail'].
        * destruct (msg_to_seg_whole m blocks Hm) as [Hs Hne].
          destruct (ecb_cs1_dec_whole C Cwf m blocks Hs Hne) as (m' & E1 & _). eauto.
        * destruct (msg_to_seg_tail m blocks _ Hm) as [Hs HR].
          destruct (ecb_cs1_dec_steal C Cwf m _ _ _ Hs HR) as (m' & E1 & _); [simpl in *; lia|]. eauto.
      + destruct (ecb_cs2_dec_ok C Cwf m blocks tail Hm) as (m' & E1 & _). eauto.
      + destruct (ecb_cs3_dec_ok C Cwf m blocks tail Hm) as (m' & E1 & _). eauto.
  Qed.
End Total.

(* ================================================================================================ *)
(* On a whole number of blocks the stealing variants are the plain modes (C14)                       *)
Section Whole.
  Variable C : cipher.
  Let bs := c_bs C.
  Let E := c_E C.
  Let D := c_D C.
  Hypothesis Cwf : cipher_wf C.

  Theorem cts_whole_enc iv m (blocks : list block) : length iv = bs -> msg_mem C m blocks [] ->
    (exists m', cbc_cs1_enc C iv m = Ok m' /\ m_out m' = concat (cbc_enc_spec E iv blocks)) /\
    (exists m', cbc_cs2_enc C iv m = Ok m' /\ m_out m' = concat (cbc_enc_spec E iv blocks)) /\
    (exists m', cbc_cs3_enc C iv m = Ok m' /\ m_out m' = cs3_layout (cbc_enc_spec E iv blocks) bs) /\
    (exists m', ecb_cs1_enc C m = Ok m' /\ m_out m' = concat (map E blocks)) /\
    (exists m', ecb_cs2_enc C m = Ok m' /\ m_out m' = concat (map E blocks)) /\
    (exists m', ecb_cs3_enc C m = Ok m' /\ m_out m' = cs3_layout (map E blocks) bs).
  Proof.
    intros Hiv Hm. pose proof (mm_blocks C m blocks [] Hm) as Hb.
    assert (HCa : all_len bs (cbc_enc_spec E iv blocks)) by (apply (cbc_enc_spec_all_len bs E); auto; apply Cwf).
    assert (HEa : all_len bs (map E blocks)) by (apply (ecb_h_ok C E); auto; apply Cwf).
    repeat split.
    - destruct (cbc_cs1_enc_ok C Cwf iv m blocks [] Hiv Hm) as (m' & E1 & Ho). exists m'. split; [exact E1|]. rewrite Ho.
      unfold cbc_cs1_spec, cbc_padded, final_len. cbn [length Nat.eqb]. rewrite app_nil_r. now apply cs1_layout_whole.
    - destruct (cbc_cs2_enc_ok C Cwf iv m blocks [] Hiv Hm) as (m' & E1 & Ho). exists m'. split; [exact E1|]. rewrite Ho.
      unfold cbc_cs2_spec, cs2_layout, cbc_padded, final_len. cbn [length Nat.eqb]. fold bs.
      rewrite Nat.ltb_irrefl, app_nil_r. now apply cs1_layout_whole.
    - destruct (cbc_cs3_enc_ok C Cwf iv m blocks [] Hiv Hm) as (m' & E1 & Ho). exists m'. split; [exact E1|]. rewrite Ho.
      unfold cbc_cs3_spec, cbc_padded, final_len. cbn [length Nat.eqb]. now rewrite app_nil_r.
    - destruct (ecb_cs1_enc_ok C Cwf m blocks [] Hm) as (m' & E1 & Ho). exists m'. split; [exact E1|]. rewrite Ho.
      unfold ecb_cs1_spec, ecb_padded, final_len. cbn [length Nat.eqb]. now apply cs1_layout_whole.
    - destruct (ecb_cs2_enc_ok C Cwf m blocks [] Hm) as (m' & E1 & Ho). exists m'. split; [exact E1|]. rewrite Ho.
      unfold ecb_cs2_spec, cs2_layout, ecb_padded, final_len. cbn [length Nat.eqb]. fold bs.
      rewrite Nat.ltb_irrefl. now apply cs1_layout_whole.
    - destruct (ecb_cs3_enc_ok C Cwf m blocks [] Hm) as (m' & E1 & Ho). exists m'. split; [exact E1|]. rewrite Ho.
      unfold ecb_cs3_spec, ecb_padded, final_len. cbn [length Nat.eqb]. reflexivity.
  Qed.

  (* decryption of ANY whole-block ciphertext: plain CBC / raw decryption; CS3 undoes the exchange *)
  Theorem cts_whole_dec iv m (cb : list block) : length iv = bs -> msg_mem C m cb [] ->
    (exists m', cbc_cs1_dec C iv m = Ok m' /\ m_out m' = concat (cbc_dec_spec D iv cb)) /\
    (exists m', cbc_cs2_dec C iv m = Ok m' /\ m_out m' = concat (cbc_dec_spec D iv cb)) /\
    (exists m', ecb_cs1_dec C m = Ok m' /\ m_out m' = concat (map D cb)) /\
    (exists m', ecb_cs2_dec C m = Ok m' /\ m_out m' = concat (map D cb)) /\
    (exists m', ecb_cs3_dec C m = Ok m' /\ m_out m' = cs3_layout (map D cb) bs).
  Proof.
    intros Hiv Hm. destruct (msg_to_seg_whole C Cwf m cb Hm) as [Hs Hne].
    pose proof (mm_blocks C m cb [] Hm) as Hb.
    assert (HDa : all_len bs (map D cb)) by (apply (ecb_h_ok C D); auto; apply Cwf).
    repeat split.
    - exact (cbc_cs1_dec_whole C Cwf iv m cb Hiv Hs Hne).
    - exact (cbc_cs2_dec_whole C Cwf iv m cb Hiv Hs Hne).
    - exact (ecb_cs1_dec_whole C Cwf m cb Hs Hne).
    - destruct (ecb_cs2_dec_ok C Cwf m cb [] Hm) as (m' & E1 & Ho). exists m'. split; [exact E1|]. rewrite Ho.
      unfold ecb_cs2_spec, cs2_layout, ecb_padded, final_len. cbn [length Nat.eqb]. fold bs D.
      rewrite Nat.ltb_irrefl. now apply cs1_layout_whole.
    - destruct (ecb_cs3_dec_ok C Cwf m cb [] Hm) as (m' & E1 & Ho). exists m'. split; [exact E1|]. rewrite Ho.
      unfold ecb_cs3_spec, ecb_padded, final_len. cbn [length Nat.eqb]. reflexivity.
  Qed.

  (* CBC-CS3 on >= 2 whole blocks: decrypting  pre || b || a  is plain CBC decryption of  pre || a || b *)
  Theorem cbc_cs3_whole_dec iv m (pre : list block) (a b : block) : length iv = bs ->
    all_len bs pre -> length a = bs -> length b = bs -> mwf m -> msrc m = concat pre ++ b ++ a ->
    exists m', cbc_cs3_dec C iv m = Ok m' /\ m_out m' = concat (cbc_dec_spec D iv (pre ++ [a; b])).
  Proof.
    intros Hiv Hp Ha Hb Hwf Hs.
    destruct (cbc_cs3_dec_steal C Cwf iv m pre (b ++ a) bs) as (m' & E1 & Ho); auto.
    { constructor; auto. } { rewrite app_length. fold bs. lia. } { destruct Cwf as (H & _). fold bs in H. lia. }
    exists m'. split; [exact E1|]. rewrite Ho. fold D. rewrite (cs3_unsteal_whole C Cwf) by auto.
    rewrite (cbc_dec_app D), concat_app. cbn [cbc_dec_spec concat]. unfold cbc_chain at 2. cbn [last]. now rewrite app_nil_r.
  Qed.
End Whole.

(* encrypt, then decrypt what came out: all six variants *)
Theorem cts_roundtrip_composed (C : cipher) : cipher_wf C -> DE_id C ->
  forall v iv m (blocks : list block) (tail : list N) m2,
  length iv = c_bs C -> msg_mem C m blocks tail -> mwf m2 ->
  exists c, cts_run C v true iv m = Ok c /\ mlen c = mlen m /\
            (msrc m2 = m_out c -> exists p, cts_run C v false iv m2 = Ok p /\ m_out p = concat blocks ++ tail).
Proof.
  intros Cwf DE v iv m blocks tail m2 Hiv Hm Hwf2.
  pose proof (mm_blocks C m blocks tail Hm) as Hb. pose proof (mm_nb C m blocks tail Hm) as Hn.
  pose proof (mm_tail C m blocks tail Hm) as Ht.
  destruct v; cbn [cts_run].
  - destruct (cbc_cs1_enc_ok C Cwf iv m blocks tail Hiv Hm) as (c & E1 & Ho). exists c. split; [exact E1|]. split.
    + exact (cts_length_preserved C CbcCs1 true iv m c E1).
    + intros Hs. apply (cbc_cs1_roundtrip C Cwf DE iv m2 blocks tail); auto. now rewrite Hs.
  - destruct (cbc_cs2_enc_ok C Cwf iv m blocks tail Hiv Hm) as (c & E1 & Ho). exists c. split; [exact E1|]. split.
    + exact (cts_length_preserved C CbcCs2 true iv m c E1).
    + intros Hs. apply (cbc_cs2_roundtrip C Cwf DE iv m2 blocks tail); auto. now rewrite Hs.
  - destruct (cbc_cs3_enc_ok C Cwf iv m blocks tail Hiv Hm) as (c & E1 & Ho). exists c. split; [exact E1|]. split.
    + exact (cts_length_preserved C CbcCs3 true iv m c E1).
    + intros Hs. apply (cbc_cs3_roundtrip C Cwf DE iv m2 blocks tail); auto. now rewrite Hs.
  - destruct (ecb_cs1_enc_ok C Cwf m blocks tail Hm) as (c & E1 & Ho). exists c. split; [exact E1|]. split.
    + exact (cts_length_preserved C EcbCs1 true iv m c E1).
    + intros Hs. apply (ecb_cs1_roundtrip C Cwf DE m2 blocks tail); auto. now rewrite Hs.
  - destruct (ecb_cs2_enc_ok C Cwf m blocks tail Hm) as (c & E1 & Ho). exists c. split; [exact E1|]. split.
    + exact (cts_length_preserved C EcbCs2 true iv m c E1).
    + intros Hs. apply (ecb_cs2_roundtrip C Cwf DE m2 blocks tail); auto. now rewrite Hs.
  - destruct (ecb_cs3_enc_ok C Cwf m blocks tail Hm) as (c & E1 & Ho). exists c. split; [exact E1|]. split.
    + exact (cts_length_preserved C EcbCs3 true iv m c E1).
    + intros Hs. apply (ecb_cs3_roundtrip C Cwf DE m2 blocks tail); auto. now rewrite Hs.
Qed.
