(* Wrapper_inst.v -- the cores the interpreter dispatches to satisfy the laws of Wrapper_proofs.v:
   CTR (every flavour), BelT-CTR, OFB. *)
From BM Require Import BlockModes Spec BlockModes_proofs Plumbing Toy Ints Ints_proofs Ctr Belt Stream Cts
  Stream_proofs Ctr_proofs Belt_proofs Interp Interp_proofs Wrapper_proofs.
From Coq Require Import ZArith Lia.

Lemma concat_mapi_length {A} (f : nat -> A -> list N) c : forall l k,
  (forall i x, length (f i x) = c) -> length (concat (mapi_from f k l)) = c * length l.
Proof. induction l as [|a l IH]; intros k H; simpl; [lia|]. rewrite app_length, H, IH by auto. lia. Qed.

Lemma current_block_length F cn : length (current_block F cn) = f_cs F * length (cn_nonce cn).
Proof.
  unfold current_block. apply concat_mapi_length. intros i x.
  destruct (i =? _); [|apply le_encode_length]. unfold enc_ctr. destruct (f_be F); [apply be_encode_length | apply le_encode_length].
Qed.

(* ---- CTR ---- *)
Section CtrInst.
  Variables (cs : nat) (be : bool) (C : cipher) (nonce : list N).
  Let F := mkflavor cs be.
  Let K := kscore C (SCtr cs be).
  Hypothesis Cwf : cipher_wf C.
  Hypothesis bs_eq : c_bs C = cs * length nonce.

  Definition ctr_at (p : N) : cstate := CCtr (mkcn p nonce).
  Definition ctr_KB (p : N) : block := c_E C (current_block F (mkcn p nonce)).
  Definition ctr_limit : option N := Some (pow2 (8 * cs) - 1)%N.

  Lemma ctr_gen_at p : below ctr_limit p -> sc_gen K (ctr_at p) = (ctr_at (p + 1), ctr_KB p).
  Proof.
    unfold below, ctr_limit. intros H. cbn [K kscore sc_gen ctr_at]. unfold ctr_gen, next_block. cbn [cn_ctr cn_nonce].
    unfold wrap, f_bits. cbn [f_cs F]. rewrite N.mod_small by lia. reflexivity.
  Qed.
  Lemma ctr_gen_closed p : exists p', fst (sc_gen K (ctr_at p)) = ctr_at p'.
  Proof. cbn [K kscore sc_gen ctr_at]. unfold ctr_gen, next_block. cbn [fst cn_ctr cn_nonce]. eexists. reflexivity. Qed.
  Lemma ctr_par_at : 1 < sc_w K -> forall p, sc_gen_par K (ctr_at p) = gen_n K (sc_w K) (ctr_at p).
  Proof. intros _ p. apply kscore_par_ctr. Qed.
  Lemma ctr_rem_at p : upto ctr_limit p -> sc_remaining K (ctr_at p) = to_usize (pow2 (8 * cs) - 1 - p).
  Proof. reflexivity. Qed.
  Lemma ctr_kb_len p : length (ctr_KB p) = sc_bs K.
  Proof. unfold ctr_KB. destruct Cwf as (_ & _ & HE & _). cbn [K kscore sc_bs]. apply HE.
    rewrite current_block_length. cbn [cn_nonce f_cs F]. auto. Qed.
  Lemma ctr_set_at nb blk : sc_set_pos K (ctr_at nb) blk = ctr_at blk.
  Proof. reflexivity. Qed.
  Lemma ctr_pos_at nb : upto ctr_limit nb -> sc_get_pos K (ctr_at nb) = nb.
  Proof. reflexivity. Qed.
  Lemma ctr_bs_pos : 0 < sc_bs K.
  Proof. destruct Cwf as (H & _). exact H. Qed.
End CtrInst.

(* ---- BelT-CTR ---- *)
Section BeltInst.
  Variables (C : cipher) (si : N).
  Let K := kscore C SBelt.
  Hypothesis Cwf : cipher_wf C.
  Hypothesis bs16 : c_bs C = 16.
  Hypothesis si_lt : (si < pow2 128)%N.

  Definition belt_at (p : N) : cstate := CBelt (mkbelt (wrap 128 (si + p)) si).
  Definition belt_KB (p : N) : block := c_E C (le_encode 16 (wrap 128 (si + p + 1))).
  Definition belt_limit : option N := Some (pow2 128 - 1)%N.

  Lemma belt_gen_any p : sc_gen K (belt_at p) = (belt_at (p + 1), belt_KB p).
  Proof.
    cbn [K kscore sc_gen belt_at]. unfold belt_gen. cbn [b_s b_s_init]. unfold belt_at, belt_KB, wrap.
    rewrite N.add_mod_idemp_l by (apply N.neq_0_lt_0, pow2_pos). rewrite N.add_assoc. reflexivity.
  Qed.
  Lemma belt_gen_at p : below belt_limit p -> sc_gen K (belt_at p) = (belt_at (p + 1), belt_KB p).
  Proof. intros _. apply belt_gen_any. Qed.
  Lemma belt_gen_closed p : exists p', fst (sc_gen K (belt_at p)) = belt_at p'.
  Proof. exists (p + 1)%N. now rewrite belt_gen_any. Qed.
  Lemma belt_par_at : 1 < sc_w K -> forall p, sc_gen_par K (belt_at p) = gen_n K (sc_w K) (belt_at p).
  Proof. intros _ p. apply kscore_par_belt. Qed.

  Lemma belt_used_at p : (p < pow2 128)%N -> belt_used (mkbelt (wrap 128 (si + p)) si) = p.
  Proof.
    intros Hp. unfold belt_used, M128, wrap. cbn [b_s b_s_init].
    assert (P := pow2_pos 128). set (M := pow2 128) in *.
    rewrite <- N.add_sub_assoc by lia. rewrite N.add_mod_idemp_l by lia.
    replace (si + p + (M - si))%N with (p + 1 * M)%N by lia.
    rewrite N.mod_add by lia. apply N.mod_small. lia.
  Qed.
  Lemma belt_rem_at p : upto belt_limit p -> sc_remaining K (belt_at p) = to_usize (pow2 128 - 1 - p).
  Proof. unfold upto, belt_limit. intros H. cbn [K kscore sc_remaining belt_at]. unfold belt_remaining.
    assert (P := pow2_pos 128). rewrite belt_used_at by lia. reflexivity. Qed.
  Lemma belt_kb_len p : length (belt_KB p) = sc_bs K.
  Proof. unfold belt_KB. destruct Cwf as (_ & _ & HE & _). cbn [K kscore sc_bs]. apply HE.
    rewrite le_encode_length. auto. Qed.
  Lemma belt_set_at nb blk : sc_set_pos K (belt_at nb) blk = belt_at blk.
  Proof. reflexivity. Qed.
  Lemma belt_pos_at nb : upto belt_limit nb -> sc_get_pos K (belt_at nb) = nb.
  Proof. unfold upto, belt_limit. intros H. cbn [K kscore sc_get_pos belt_at]. unfold belt_get_pos.
    assert (P := pow2_pos 128). apply belt_used_at. lia. Qed.
End BeltInst.

(* ---- OFB (no limit, not seekable) ---- *)
Section OfbInst.
  Variables (C : cipher) (iv : block).
  Let K := kscore C SOfb.
  Hypothesis Cwf : cipher_wf C.
  Hypothesis iv_len : length iv = c_bs C.

  Definition ofb_at (p : N) : cstate := COfb (iter_E (c_E C) (N.to_nat p) iv).
  Definition ofb_KB (p : N) : block := iter_E (c_E C) (S (N.to_nat p)) iv.

  Lemma ofb_gen_at p : below None p -> sc_gen K (ofb_at p) = (ofb_at (p + 1), ofb_KB p).
  Proof. intros _. cbn [K kscore sc_gen ofb_at]. unfold ofb_gen, ofb_at, ofb_KB.
    replace (N.to_nat (p + 1)) with (S (N.to_nat p)) by lia. reflexivity. Qed.
  Lemma ofb_gen_closed p : exists p', fst (sc_gen K (ofb_at p)) = ofb_at p'.
  Proof. exists (p + 1)%N. rewrite ofb_gen_at; [reflexivity|exact I]. Qed.
  Lemma ofb_par_at : 1 < sc_w K -> forall p, sc_gen_par K (ofb_at p) = gen_n K (sc_w K) (ofb_at p).
  Proof. cbn [K kscore sc_w]. lia. Qed.
  Lemma ofb_rem_at p : upto None p -> sc_remaining K (ofb_at p) = None.
  Proof. reflexivity. Qed.
  Lemma iter_E_len n : length (iter_E (c_E C) n iv) = c_bs C.
  Proof. destruct Cwf as (_ & _ & HE & _). induction n; simpl; auto. Qed.
  Lemma ofb_kb_len p : length (ofb_KB p) = sc_bs K.
  Proof. apply iter_E_len. Qed.
End OfbInst.

(* ================================================================================================ *)
(* The refinement theorems, instantiated.                                                           *)
(* ================================================================================================ *)

(* ---- CTR, any flavour ---- *)
Section CtrThms.
  Variables (cs : nat) (be : bool) (C : cipher) (nonce : list N).
  Let K := kscore C (SCtr cs be).
  Hypothesis Cwf : cipher_wf C.
  Hypothesis bs_eq : c_bs C = cs * length nonce.

  Definition CtrInv := WInv K (ctr_at nonce) (ctr_KB cs be C nonce) (ctr_limit cs).

  Lemma ctr_fresh : CtrInv 0%N (from_core K (ctr_at nonce 0)).
  Proof.
    unfold CtrInv, WInv, from_core. cbn [wr_core wr_buf wr_pos]. pose proof (ctr_bs_pos cs be C Cwf) as Hb.
    repeat split; auto; try lia.
    - unfold upto, ctr_limit. pose proof (pow2_pos (8 * cs)). lia.
    - apply zeros_length.
  Qed.

  Theorem ctr_apply_spec nb wst (al : bool) (inb outb : list N) :
    CtrInv nb wst -> length inb = length outb -> (al = true -> inb = outb) ->
    (N.of_nat (length outb) <= usize_max)%N ->
    let n := length outb in
    let src := if al then outb else inb in
    (fits K (ctr_limit cs) nb (wr_pos wst) n ->
       exists wst', try_apply K wst al inb outb =
                      Ok (wst', xorb src (take K (ctr_KB cs be C nonce) n nb (wr_pos wst))) /\
                    CtrInv (fst (adv K n nb (wr_pos wst))) wst' /\ wr_pos wst' = snd (adv K n nb (wr_pos wst))) /\
    (~ fits K (ctr_limit cs) nb (wr_pos wst) n -> try_apply K wst al inb outb = Err).
  Proof.
    unfold CtrInv. apply try_apply_spec with (limit := ctr_limit cs); auto;
      first [ apply (ctr_bs_pos cs be C Cwf) | apply ctr_gen_at | apply ctr_gen_closed | apply ctr_par_at
          | apply ctr_rem_at | (apply ctr_kb_len; assumption) | apply ctr_set_at | apply ctr_pos_at | exact bs_eq ];
      try assumption.
  Qed.

  Theorem ctr_chunking ps nb wst : CtrInv nb wst -> Forall piece_ok ps ->
    let whole := concat (map piece_src ps) in
    (N.of_nat (length whole) <= usize_max)%N -> fits K (ctr_limit cs) nb (wr_pos wst) (length whole) ->
    exists w1 w2 out, apply_all K wst ps = Ok (w1, out) /\ try_apply K wst true whole whole = Ok (w2, out) /\
                      wr_pos w1 = wr_pos w2 /\ wr_core w1 = wr_core w2.
  Proof.
    unfold CtrInv. apply chunking_independent with (limit := ctr_limit cs); auto;
      first [ apply (ctr_bs_pos cs be C Cwf) | apply ctr_gen_at | apply ctr_gen_closed | apply ctr_par_at
          | apply ctr_rem_at | (apply ctr_kb_len; assumption) | apply ctr_set_at | apply ctr_pos_at | exact bs_eq ];
      try assumption.
  Qed.

  Theorem ctr_seek_spec t nb wst p blk byte : CtrInv nb wst ->
    into_block_byte t (sc_ctr_bits K) p (sc_bs K) = Ok (blk, byte) ->
    (byte = 0 -> upto (ctr_limit cs) blk) -> (byte <> 0 -> below (ctr_limit cs) blk) ->
    exists wst', try_seek K t wst p = Ok wst' /\
                 CtrInv (if Nat.eqb byte 0 then blk else (blk + 1)%N) wst' /\
                 wr_pos wst' = (if byte =? 0 then sc_bs K else byte).
  Proof.
    unfold CtrInv. apply try_seek_spec; auto;
      first [ apply (ctr_bs_pos cs be C Cwf) | apply ctr_gen_at | apply ctr_gen_closed | apply ctr_par_at
          | apply ctr_rem_at | (apply ctr_kb_len; assumption) | apply ctr_set_at | apply ctr_pos_at | exact bs_eq ];
      try assumption.
  Qed.

  Theorem ctr_current_pos_spec t nb wst : CtrInv nb wst ->
    match try_current_pos K t wst with
    | Ok r => r = byte_pos K nb (wr_pos wst)
    | Err => True
    | Panic => False
    end /\
    ((sn_max t < byte_pos K nb (wr_pos wst))%Z -> try_current_pos K t wst = Err).
  Proof. unfold CtrInv. apply try_current_pos_spec;
      first [ apply (ctr_bs_pos cs be C Cwf) | apply ctr_par_at | (intros nb0 H; apply ctr_pos_at; exact H) ]; try assumption. Qed.

  Theorem ctr_fits_bytes nb pos n : (nb <= pow2 (8 * cs) - 1)%N -> 1 <= pos <= sc_bs K ->
    (fits K (ctr_limit cs) nb pos n <->
     (nb * N.of_nat (sc_bs K) + N.of_nat n <= (pow2 (8 * cs) - 1) * N.of_nat (sc_bs K) + N.of_nat (sc_bs K - pos))%N).
  Proof. intros. apply fits_bytes; auto. apply (ctr_bs_pos cs be C Cwf). Qed.
End CtrThms.

(* ---- BelT-CTR ---- *)
Section BeltThms.
  Variables (C : cipher) (si : N).
  Let K := kscore C SBelt.
  Hypothesis Cwf : cipher_wf C.
  Hypothesis bs16 : c_bs C = 16.
  Hypothesis si_lt : (si < pow2 128)%N.

  Definition BeltInv := WInv K (belt_at si) (belt_KB C si) belt_limit.
  Let bpos : 0 < sc_bs K.
  Proof. cbn [K kscore sc_bs]. lia. Qed.

  Lemma belt_fresh : BeltInv 0%N (from_core K (belt_at si 0)).
  Proof.
    unfold BeltInv, WInv, from_core. cbn [wr_core wr_buf wr_pos].
    repeat split; auto; try lia.
    - unfold upto, belt_limit. pose proof (pow2_pos 128). lia.
    - apply zeros_length.
  Qed.

  Theorem belt_apply_spec nb wst (al : bool) (inb outb : list N) :
    BeltInv nb wst -> length inb = length outb -> (al = true -> inb = outb) ->
    (N.of_nat (length outb) <= usize_max)%N ->
    let n := length outb in
    let src := if al then outb else inb in
    (fits K belt_limit nb (wr_pos wst) n ->
       exists wst', try_apply K wst al inb outb = Ok (wst', xorb src (take K (belt_KB C si) n nb (wr_pos wst))) /\
                    BeltInv (fst (adv K n nb (wr_pos wst))) wst' /\ wr_pos wst' = snd (adv K n nb (wr_pos wst))) /\
    (~ fits K belt_limit nb (wr_pos wst) n -> try_apply K wst al inb outb = Err).
  Proof.
    unfold BeltInv. apply try_apply_spec with (limit := belt_limit); auto;
      first [ exact bpos | apply belt_gen_at | apply belt_gen_closed | apply belt_par_at
          | (intros pp Hpp; apply belt_rem_at; assumption) | (apply belt_kb_len; assumption) | apply belt_set_at
          | (intros nb0 Hnb0; apply belt_pos_at; assumption) ].
  Qed.

  Theorem belt_chunking ps nb wst : BeltInv nb wst -> Forall piece_ok ps ->
    let whole := concat (map piece_src ps) in
    (N.of_nat (length whole) <= usize_max)%N -> fits K belt_limit nb (wr_pos wst) (length whole) ->
    exists w1 w2 out, apply_all K wst ps = Ok (w1, out) /\ try_apply K wst true whole whole = Ok (w2, out) /\
                      wr_pos w1 = wr_pos w2 /\ wr_core w1 = wr_core w2.
  Proof.
    unfold BeltInv. apply chunking_independent with (limit := belt_limit); auto;
      first [ exact bpos | apply belt_gen_at | apply belt_gen_closed | apply belt_par_at
          | (intros pp Hpp; apply belt_rem_at; assumption) | (apply belt_kb_len; assumption) | apply belt_set_at
          | (intros nb0 Hnb0; apply belt_pos_at; assumption) ].
  Qed.

  Theorem belt_seek_spec t nb wst p blk byte : BeltInv nb wst ->
    into_block_byte t (sc_ctr_bits K) p (sc_bs K) = Ok (blk, byte) ->
    (byte = 0 -> upto belt_limit blk) -> (byte <> 0 -> below belt_limit blk) ->
    exists wst', try_seek K t wst p = Ok wst' /\
                 BeltInv (if Nat.eqb byte 0 then blk else (blk + 1)%N) wst' /\
                 wr_pos wst' = (if byte =? 0 then sc_bs K else byte).
  Proof. unfold BeltInv. apply try_seek_spec; auto;
      first [ exact bpos | apply belt_gen_at | apply belt_gen_closed | apply belt_par_at
          | (intros pp Hpp; apply belt_rem_at; assumption) | (apply belt_kb_len; assumption) | apply belt_set_at
          | (intros nb0 Hnb0; apply belt_pos_at; assumption) ]. Qed.

  Theorem belt_current_pos_spec t nb wst : BeltInv nb wst ->
    match try_current_pos K t wst with
    | Ok r => r = byte_pos K nb (wr_pos wst)
    | Err => True
    | Panic => False
    end /\
    ((sn_max t < byte_pos K nb (wr_pos wst))%Z -> try_current_pos K t wst = Err).
  Proof. unfold BeltInv. apply try_current_pos_spec;
      first [ exact bpos | apply belt_par_at | (intros nb0 H; apply belt_pos_at; assumption) ]. Qed.
End BeltThms.

(* ---- OFB ---- *)
Section OfbThms.
  Variables (C : cipher) (iv : block).
  Let K := kscore C SOfb.
  Hypothesis Cwf : cipher_wf C.
  Hypothesis iv_len : length iv = c_bs C.

  Definition OfbInv := WInv K (ofb_at C iv) (ofb_KB C iv) None.
  Let bpos : 0 < sc_bs K.
  Proof. destruct Cwf as (H & _). exact H. Qed.

  Lemma ofb_fresh : OfbInv 0%N (from_core K (ofb_at C iv 0)).
  Proof.
    unfold OfbInv, WInv, from_core. cbn [wr_core wr_buf wr_pos].
    repeat split; auto; try lia. apply zeros_length.
  Qed.

  Theorem ofb_chunking ps nb wst : OfbInv nb wst -> Forall piece_ok ps ->
    let whole := concat (map piece_src ps) in
    (N.of_nat (length whole) <= usize_max)%N ->
    exists w1 w2 out, apply_all K wst ps = Ok (w1, out) /\ try_apply K wst true whole whole = Ok (w2, out) /\
                      wr_pos w1 = wr_pos w2 /\ wr_core w1 = wr_core w2.
  Proof.
    intros HI Hok whole Hus.
    unfold OfbInv in *. apply chunking_independent with (limit := @None N) (nb := nb) (at_block := ofb_at C iv) (KB := ofb_KB C iv); auto;
      first [ exact bpos | apply ofb_gen_at | apply ofb_gen_closed | apply ofb_par_at | (intros pp Hpp; reflexivity)
            | (apply ofb_kb_len; assumption) | exact I ].
    all: try exact iv_len.
  Qed.
End OfbThms.
