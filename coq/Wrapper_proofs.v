(* Wrapper_proofs.v -- refinement of cipher::StreamCipherCoreWrapper (model: Stream.v) to an abstract
   keystream position, over any core that satisfies the laws below (instantiated for the six CTR
   flavours, BelT-CTR and OFB in Wrapper_inst.v).  Basis of C08, C10, C11.

   A position is the pair (nb, pos) the wrapper itself keeps: nb = number of keystream blocks the
   core has produced, 1 <= pos <= bs = offset of the next byte inside block nb-1 (pos = bs: the next
   byte is byte 0 of block nb).  [take n nb pos] is the keystream read byte by byte from there. *)
From BM Require Import Stream Stream_proofs Plumbing.
From Coq Require Import ZArith Lia.

Section Refine.
  Context {St : Type}.
  Variable K : score St.
  Let bs := sc_bs K.
  Hypothesis bs_pos : 0 < bs.

  Variable at_block : N -> St.         (* the core positioned at block index p *)
  Variable KB : N -> block.            (* keystream block p *)
  Variable limit : option N.           (* number of blocks one key/IV provides; None: no limit *)

  Definition below (p : N) : Prop := match limit with Some L => (p < L)%N | None => True end.
  Definition upto (p : N) : Prop := match limit with Some L => (p <= L)%N | None => True end.

  Hypothesis kb_len : forall p, length (KB p) = bs.

  (* ---- the keystream read byte by byte from a position ---- *)
  Fixpoint take (n : nat) (nb : N) (pos : nat) : list N :=
    match n with
    | O => []
    | S n' => if pos <? bs then nth pos (KB (nb - 1)) 0%N :: take n' nb (S pos)
              else nth 0 (KB nb) 0%N :: take n' (nb + 1) 1
    end.

  Fixpoint adv (n : nat) (nb : N) (pos : nat) : N * nat :=
    match n with
    | O => (nb, pos)
    | S n' => if pos <? bs then adv n' nb (S pos) else adv n' (nb + 1) 1
    end.

  Lemma take_length n nb pos : length (take n nb pos) = n.
  Proof. revert nb pos; induction n as [|n IH]; intros nb pos; simpl; auto. destruct (pos <? bs); simpl; auto. Qed.

  Lemma take_app a b nb pos :
    take (a + b) nb pos = take a nb pos ++ (let '(nb', pos') := adv a nb pos in take b nb' pos').
  Proof. revert nb pos; induction a as [|a IH]; intros nb pos; [reflexivity|].
    cbn [Nat.add take adv]. destruct (pos <? bs); cbn [app]; now rewrite IH. Qed.

  Lemma adv_app a b nb pos :
    adv (a + b) nb pos = (let '(nb', pos') := adv a nb pos in adv b nb' pos').
  Proof. revert nb pos; induction a as [|a IH]; intros nb pos; [reflexivity|].
    cbn [Nat.add adv]. destruct (pos <? bs); now rewrite IH. Qed.

  (* inside the current block *)
  Lemma nth_skipn_cons {A} (l : list A) off d : off < length l -> skipn off l = nth off l d :: skipn (S off) l.
  Proof. revert off; induction l as [|a l IH]; intros off H; [simpl in H; lia|].
    destruct off; [reflexivity|]. cbn [skipn nth]. apply IH. simpl in H. lia. Qed.

  Lemma take_in_block n : forall nb pos, pos + n <= bs ->
    take n nb pos = firstn n (skipn pos (KB (nb - 1))) /\ adv n nb pos = (nb, pos + n).
  Proof.
    induction n as [|n IH]; intros nb pos H.
    - cbn. now rewrite Nat.add_0_r.
    - cbn [take adv]. destruct (Nat.ltb_spec pos bs) as [Hp|Hp]; [|lia].
      destruct (IH nb (S pos)) as [E1 E2]; [lia|]. rewrite E1, E2. split; [|f_equal; lia].
      rewrite (nth_skipn_cons (KB (nb - 1)) pos 0%N) by (rewrite kb_len; auto). reflexivity.
  Qed.

  (* whole blocks from a block boundary *)
  Lemma take_blocks m : forall nb,
    take (m * bs) nb bs = concat (map (fun j => KB (nb + N.of_nat j)) (seq 0 m)) /\
    adv (m * bs) nb bs = (if m =? 0 then (nb, bs) else ((nb + N.of_nat m)%N, bs)).
  Proof.
    induction m as [|m IH]; intros nb; [split; reflexivity|].
    assert (Hbs : exists b, bs = S b) by (destruct bs; [lia|eauto]). destruct Hbs as [b Hb].
    replace (S m * bs) with (bs + m * bs) by lia.
    rewrite take_app, adv_app.
    assert (H1 : take bs nb bs = KB nb /\ adv bs nb bs = ((nb + 1)%N, bs)).
    { rewrite Hb at 1 3. cbn [take adv]. rewrite Nat.ltb_irrefl.
      destruct (take_in_block b (nb + 1) 1) as [E1 E2]; [lia|]. rewrite E1, E2.
      replace (nb + 1 - 1)%N with nb by lia. split; [|f_equal; lia].
      pose proof (kb_len nb) as Hk. destruct (KB nb) as [|x r]; [simpl in Hk; lia|].
      cbn [nth skipn]. f_equal. apply firstn_all2. simpl in Hk. lia. }
    destruct H1 as [T1 A1]. rewrite T1, A1. destruct (IH (nb + 1)%N) as [T2 A2]. rewrite T2, A2.
    cbn [seq map concat]. rewrite N.add_0_r. split.
    - f_equal. rewrite <- seq_shift, map_map. f_equal. apply map_ext. intros j. f_equal. lia.
    - cbn [Nat.eqb]. destruct m as [|m']; cbn [Nat.eqb]; f_equal; lia.
  Qed.

  (* ---- blocks consumed by a request (the wrapper's own check), recursively ---- *)
  Fixpoint cbr (n : nat) (pos : nat) : nat :=
    match n with
    | O => 0
    | S n' => if pos <? bs then cbr n' (S pos) else S (cbr n' 1)
    end.

  Lemma adv_cbr n : forall nb pos, fst (adv n nb pos) = (nb + N.of_nat (cbr n pos))%N.
  Proof. induction n as [|n IH]; intros nb pos; cbn [adv cbr]; [cbn; lia|].
    destruct (pos <? bs); rewrite IH; lia. Qed.

  Lemma adv_pos_range n : forall nb pos, 1 <= pos <= bs -> 1 <= snd (adv n nb pos) <= bs.
  Proof. induction n as [|n IH]; intros nb pos H; cbn [adv]; auto.
    destruct (Nat.ltb_spec pos bs); apply IH; lia. Qed.

  (* the closed form the code computes: div_ceil(n - (bs - pos), bs) *)
  Lemma cbr_formula n : forall pos, 1 <= pos <= bs ->
    cbr n pos = if n <=? bs - pos then 0 else (n - (bs - pos) + bs - 1) / bs.
  Proof.
    induction n as [|n IH]; intros pos Hp; [reflexivity|].
    cbn [cbr]. destruct (Nat.ltb_spec pos bs) as [Hlt|Hge].
    - rewrite IH by lia. destruct (Nat.leb_spec n (bs - S pos)), (Nat.leb_spec (S n) (bs - pos)); try lia.
      f_equal. lia.
    - assert (pos = bs) by lia. subst pos. rewrite IH by lia.
      replace (bs - bs) with 0 by lia. destruct (Nat.leb_spec (S n) 0); [lia|].
      replace (S n - 0 + bs - 1) with (n + 1 * bs) by lia. rewrite Nat.div_add by lia.
      destruct (Nat.leb_spec n (bs - 1)).
      + rewrite Nat.div_small by lia. reflexivity.
      + replace (n - (bs - 1) + bs - 1) with n by lia. lia.
  Qed.

  Lemma cbr_app a b pos : cbr (a + b) pos = cbr a pos + cbr b (snd (adv a 0%N pos)).
  Proof.
    revert pos; induction a as [|a IH]; intros pos; [reflexivity|].
    cbn [Nat.add cbr adv]. destruct (pos <? bs); rewrite IH; [reflexivity|].
    assert (forall n nb nb' p, snd (adv n nb p) = snd (adv n nb' p)) as Hs.
    { clear. induction n; intros; cbn [adv]; auto. destruct (p <? bs); auto. }
    rewrite (Hs a (0 + 1)%N 0%N). lia.
  Qed.

  Lemma adv_snd_indep n : forall nb nb' p, snd (adv n nb p) = snd (adv n nb' p).
  Proof. induction n; intros; cbn [adv]; auto. destruct (p <? bs); auto. Qed.

  Hypothesis gen_at : forall p, below p -> sc_gen K (at_block p) = (at_block (p + 1), KB p).
  Hypothesis gen_closed : forall p, exists p', fst (sc_gen K (at_block p)) = at_block p'.
  Hypothesis par_at : 1 < sc_w K -> forall p, sc_gen_par K (at_block p) = gen_n K (sc_w K) (at_block p).
  Hypothesis rem_at : forall p, upto p ->
    sc_remaining K (at_block p) = match limit with Some L => to_usize (L - p) | None => None end.

  (* ---- the core ---- *)
  Lemma gen_n_at n : forall p, upto (p + N.of_nat n) ->
    gen_n K n (at_block p) = (at_block (p + N.of_nat n), map (fun j => KB (p + N.of_nat j)) (seq 0 n)).
  Proof.
    induction n as [|n IH]; intros p Hu.
    - cbn [gen_n seq map]. now rewrite N.add_0_r.
    - cbn [gen_n]. rewrite gen_at.
      2:{ unfold below, upto in *. destruct limit; auto. lia. }
      rewrite IH.
      2:{ unfold upto in *. destruct limit; auto. lia. }
      cbn [seq map]. rewrite N.add_0_r. f_equal.
      + f_equal. lia.
      + f_equal. rewrite <- seq_shift, map_map. apply map_ext. intros j. f_equal. lia.
  Qed.

  Lemma ks_blocks_at n p : upto (p + N.of_nat n) ->
    ks_blocks K n (at_block p) = (at_block (p + N.of_nat n), map (fun j => KB (p + N.of_nat j)) (seq 0 n)).
  Proof.
    intros Hu. rewrite ks_blocks_gen_n with (P := fun st => exists p, st = at_block p).
    - now apply gen_n_at.
    - intros st [q ->]. apply gen_closed.
    - intros Hw st [q ->]. now apply par_at.
    - eauto.
  Qed.


  (* ---- the wrapper ---- *)
  Definition WInv (nb : N) (wst : wrapper St) : Prop :=
    wr_core wst = at_block nb /\ upto nb /\
    1 <= wr_pos wst <= bs /\ length (wr_buf wst) = bs /\
    (wr_pos wst < bs -> (1 <= nb)%N /\ skipn (wr_pos wst) (wr_buf wst) = skipn (wr_pos wst) (KB (nb - 1))).

  (* the request fits: the blocks it consumes are available *)
  Definition fits (nb : N) (pos n : nat) : Prop :=
    match limit with Some L => (nb + N.of_nat (cbr n pos) <= L)%N | None => True end.

  Lemma fits_dec nb pos n : fits nb pos n \/ ~ fits nb pos n.
  Proof. clear. unfold fits. destruct limit as [L|]; [|auto]. destruct (N.le_gt_cases (nb + N.of_nat (cbr n pos)) L); [auto|right; lia]. Qed.

  Lemma check_remaining_spec nb wst n : WInv nb wst -> (N.of_nat n <= usize_max)%N ->
    check_remaining K wst n = true <-> fits nb (wr_pos wst) n.
  Proof.
    intros (Hc & Hu & Hp & Hl & Hb) Hn. unfold check_remaining, fits. fold bs.
    rewrite Hc, rem_at by auto. unfold upto in Hu. destruct limit as [L|]; [|tauto].
    rewrite (cbr_formula n (wr_pos wst)) by lia.
    unfold to_usize. destruct (N.leb_spec (L - nb) usize_max) as [Hfit|Hbig].
    - destruct (Nat.leb_spec n (bs - wr_pos wst)); [split; intros; [lia|reflexivity]|].
      replace (n - (bs - wr_pos wst) + bs - 1) with (n - (bs - wr_pos wst) + bs - 1) by lia.
      destruct (N.ltb_spec (L - nb) (N.of_nat ((n - (bs - wr_pos wst) + bs - 1) / bs))); cbn [negb];
        split; intros; try discriminate; try reflexivity; lia.
    - (* more blocks left than a usize can count: no request of usize length can exhaust them *)
      split; [intros _|reflexivity].
      destruct (Nat.leb_spec n (bs - wr_pos wst)); [lia|].
      assert ((n - (bs - wr_pos wst) + bs - 1) / bs <= n).
      { apply Nat.div_le_upper_bound; [lia|]. nia. }
      lia.
  Qed.

  (* ---- helpers for the long path of try_apply ---- *)
  Lemma chunks_same_shape {A B} (l1 : list A) (l2 : list B) :
    length l1 = length l2 ->
    length (fst (chunks bs l1)) = length (fst (chunks bs l2)) /\
    length (snd (chunks bs l1)) = length (snd (chunks bs l2)).
  Proof.
    intros H.
    pose proof (chunks_inv bs l1 bs_pos) as H1. pose proof (chunks_inv bs l2 bs_pos) as H2.
    destruct (chunks bs l1) as [b1 t1]. destruct (chunks bs l2) as [b2 t2].
    destruct H1 as (E1 & A1 & T1). destruct H2 as (E2 & A2 & T2). cbn [fst snd].
    assert (L1 : length l1 = length b1 * bs + length t1).
    { rewrite E1 at 1. rewrite app_length, (all_len_concat_length bs b1 A1). reflexivity. }
    assert (L2 : length l2 = length b2 * bs + length t2).
    { rewrite E2 at 1. rewrite app_length, (all_len_concat_length bs b2 A2). reflexivity. }
    rewrite H in L1. rewrite L1 in L2.
    assert (length b1 = length b2 /\ length t1 = length t2).
    { rewrite (Nat.mul_comm (length b1)), (Nat.mul_comm (length b2)) in L2.
      apply Nat.div_mod_unique in L2; auto. }
    tauto.
  Qed.

  Lemma map_rd_in_mkcell al a b : length a = length b -> (al = true -> a = b) ->
    map rd_in (map2 (mkcell al) a b) = a.
  Proof.
    intros Hl Hal. destruct al.
    - rewrite (Hal eq_refl). clear. induction b as [|x b IH]; simpl; auto. unfold rd_in at 1. cbn. now rewrite IH.
    - clear Hal. revert b Hl; induction a as [|x a IH]; intros [|y b] Hl; simpl in *; try discriminate; auto.
      unfold rd_in at 1. cbn. rewrite IH; auto.
  Qed.

  Lemma concat_xor_cells : forall (cs : list cell) ks,
    length ks = length cs -> all_len bs (map rd_in cs) -> all_len bs ks ->
    concat (map cout (map2 xor_in2out cs ks)) = xorb (concat (map rd_in cs)) (concat ks).
  Proof.
    induction cs as [|c cs IH]; intros [|k ks] Hl Hc Hk; simpl in *; try discriminate; auto.
    inversion Hc; inversion Hk; subst. rewrite IH by auto. rewrite xorb_app by congruence. reflexivity.
  Qed.

  Lemma tail_step t p : 0 < t -> t < bs ->
    take t p bs = firstn t (KB p) /\ adv t p bs = ((p + 1)%N, t).
  Proof.
    intros H0 Hlt. destruct t as [|t']; [lia|]. cbn [take adv]. rewrite Nat.ltb_irrefl.
    destruct (take_in_block t' (p + 1) 1) as [E1 E2]; [lia|]. rewrite E1, E2.
    replace (p + 1 - 1)%N with p by lia. split; [|f_equal; lia].
    pose proof (kb_len p) as Hk. destruct (KB p) as [|x r]; [simpl in Hk; lia|]. reflexivity.
  Qed.

  Lemma KBs_all_len p m : all_len bs (map (fun j => KB (p + N.of_nat j)) (seq 0 m)).
  Proof. apply Forall_forall. intros x Hx. apply in_map_iff in Hx. destruct Hx as (j & <- & _). apply kb_len. Qed.

  (* refinement of try_apply_keystream_inout: on success the output is the input xored with the
     keystream of the current position and the position advances by the request; otherwise Err and
     nothing changes (the model returns no new state at all in that case) *)
  Theorem try_apply_spec nb wst (al : bool) (inb outb : list N) :
    WInv nb wst -> length inb = length outb -> (al = true -> inb = outb) ->
    (N.of_nat (length outb) <= usize_max)%N ->
    let n := length outb in
    let src := if al then outb else inb in
    (fits nb (wr_pos wst) n ->
       exists wst', try_apply K wst al inb outb = Ok (wst', xorb src (take n nb (wr_pos wst))) /\
                    WInv (fst (adv n nb (wr_pos wst))) wst' /\ wr_pos wst' = snd (adv n nb (wr_pos wst))) /\
    (~ fits nb (wr_pos wst) n -> try_apply K wst al inb outb = Err).
  Proof.
    intros HI Hlen Hal Hus n src.
    pose proof (check_remaining_spec nb wst n HI Hus) as Hchk.
    destruct HI as (Hc & Hu & Hp & Hl & Hb).
    assert (Hsrc : length src = n) by (subst src n; destruct al; auto).
    split.
    2:{ intros Hnf. unfold try_apply. fold bs. fold n.
        destruct (check_remaining K wst n) eqn:Ec; [exfalso; apply Hnf, Hchk; reflexivity|reflexivity]. }
    intros Hfit. unfold try_apply. fold bs. fold n. fold src.
    replace (check_remaining K wst n) with true by (symmetry; apply Hchk; exact Hfit). cbn [negb].
    set (pos := wr_pos wst) in *. set (rem := bs - pos).
    (* the buffered rest of the current block, as keystream *)
    assert (Hbuf : skipn pos (wr_buf wst) = take rem nb pos /\ adv rem nb pos = (nb, bs)).
    { destruct (take_in_block rem nb pos) as [E1 E2]; [subst rem; lia|]. rewrite E1, E2. split; [|f_equal; subst rem; lia].
      destruct (Nat.ltb_spec pos bs) as [Hlt|Hge].
      - destruct (Hb Hlt) as [_ ->]. symmetry. apply firstn_all2. rewrite skipn_length, kb_len. subst rem; lia.
      - replace rem with 0 by (subst rem; lia). rewrite skipn_all2 by lia. reflexivity. }
    destruct Hbuf as [Hbuf Hadv].
    destruct ((negb (rem =? 0)) && (n <=? rem)) eqn:Eshort.
    - (* served from the buffer *)
      apply andb_true_iff in Eshort. destruct Eshort as [Hrz Hle]. apply Nat.leb_le in Hle.
      apply negb_true_iff, Nat.eqb_neq in Hrz.
      destruct (take_in_block n nb pos) as [E1 E2]; [subst rem; lia|].
      eexists. split; [|split].
      + rewrite E1. f_equal. f_equal. f_equal. destruct (Nat.ltb_spec pos bs) as [Hlt|Hge]; [|subst rem; lia].
        destruct (Hb Hlt) as [_ ->]. reflexivity.
      + rewrite E2. cbn [fst]. unfold WInv. cbn [wr_core wr_buf wr_pos]. repeat split; auto; try (subst rem; lia).
        all: assert (Hlt' : pos < bs) by lia; destruct (Hb Hlt') as [Hn1 Hs];
          first [exact Hn1 | rewrite <- (skipn_skipn n pos), <- (skipn_skipn n pos); now rewrite Hs].
      + rewrite E2. reflexivity.
    - (* the long path: rest of the buffer, whole blocks, partial tail *)
      assert (Hrn : rem <= n).
      { apply andb_false_iff in Eshort. destruct Eshort as [H|H].
        - apply negb_false_iff, Nat.eqb_eq in H. lia.
        - apply Nat.leb_gt in H. lia. }
      assert (Hshape := chunks_same_shape (skipn rem src) (skipn rem outb)).
      rewrite !skipn_length, Hsrc in Hshape. specialize (Hshape eq_refl).
      destruct (chunks_decompose bs (skipn rem src) bs_pos) as (blocks & tail & Esrc & Hall & Htl & Hch).
      destruct (chunks_decompose bs (skipn rem outb) bs_pos) as (oblocks & otail & Eout & Hoall & Hotl & Hoch).
      rewrite Hch, Hoch in *. cbn [fst snd] in Hshape. destruct Hshape as [Hm Ht].
      set (m := length blocks) in *. set (t := length tail) in *.
      assert (Hn : n = rem + (m * bs + t)).
      { rewrite <- Hsrc. rewrite <- (firstn_skipn rem src) at 1. rewrite app_length, firstn_length, Esrc, app_length.
        rewrite (all_len_concat_length bs blocks Hall). fold m t. rewrite Hsrc. lia. }
      (* blocks consumed *)
      assert (Hcbr : cbr n pos = m + (if t =? 0 then 0 else 1)).
      { rewrite Hn, cbr_app.
        pose proof (adv_cbr rem nb pos) as A0. rewrite Hadv in A0. cbn [fst] in A0.
        replace (snd (adv rem 0%N pos)) with bs by (rewrite (adv_snd_indep rem 0%N nb), Hadv; reflexivity).
        rewrite cbr_app.
        destruct (take_blocks m nb) as [_ A1]. pose proof (adv_cbr (m * bs) nb bs) as A2. rewrite A1 in A2.
        replace (snd (adv (m * bs) 0%N bs)) with bs
          by (rewrite (adv_snd_indep (m * bs) 0%N nb), A1; destruct (m =? 0); reflexivity).
        assert (cbr rem pos = 0) by lia.
        assert (cbr (m * bs) bs = m) by (destruct (Nat.eqb_spec m 0); cbn [fst] in A2; lia).
        assert (cbr t bs = if t =? 0 then 0 else 1).
        { destruct (Nat.eqb_spec t 0) as [->|Hne]; [reflexivity|].
          pose proof (adv_cbr t nb bs) as A3. destruct (tail_step t nb) as [_ A4]; [lia|lia|].
          rewrite A4 in A3. cbn [fst] in A3. lia. }
        lia. }
      assert (Hupm : upto (nb + N.of_nat m)).
      { unfold fits, upto in *. destruct limit; auto. rewrite Hcbr in Hfit. lia. }
      (* the cells *)
      set (cs := map2 (mkcell al) blocks oblocks).
      assert (Hrd : map rd_in cs = blocks).
      { apply map_rd_in_mkcell; [exact Hm|]. intros ->. subst src.
        assert (E : concat blocks ++ tail = concat oblocks ++ otail) by congruence.
        assert (Hcc : concat blocks = concat oblocks).
        { apply (f_equal (firstn (m * bs))) in E.
          rewrite !firstn_app_exact in E; auto; rewrite (all_len_concat_length bs); auto. }
        clear - Hcc Hall Hoall Hm bs_pos. revert oblocks Hcc Hoall Hm.
        induction Hall as [|b bl Hb _ IH]; intros [|o ol] Hcc Hoall Hm; simpl in *; try discriminate; auto.
        inversion Hoall; subst.
        assert (b = o) by (apply (f_equal (firstn (length b))) in Hcc; rewrite !firstn_app_exact in Hcc; auto; congruence).
        subst o. apply app_inv_head in Hcc. f_equal. apply IH; auto. }
      assert (Hcsl : length cs = m).
      { rewrite <- (map_length rd_in), Hrd. reflexivity. }
      unfold apply_ks_blocks. rewrite Hcsl, Hc, ks_blocks_at by auto.
      set (ksb := map (fun j => KB (nb + N.of_nat j)) (seq 0 m)).
      assert (Hmid : concat (map cout (map2 xor_in2out cs ksb)) = xorb (concat blocks) (take (m * bs) nb bs)).
      { rewrite concat_xor_cells.
        - rewrite Hrd. destruct (take_blocks m nb) as [-> _]. reflexivity.
        - subst ksb. rewrite map_length, seq_length. auto.
        - rewrite Hrd. auto.
        - apply KBs_all_len. }
      rewrite Hmid.
      assert (Hleft : xorb (firstn rem src) (skipn pos (wr_buf wst)) = xorb (firstn rem src) (take rem nb pos)).
      { now rewrite Hbuf. }
      rewrite Hleft.
      assert (Hadv2 : adv (rem + m * bs) nb pos = ((nb + N.of_nat m)%N, bs)).
      { rewrite adv_app, Hadv. destruct (take_blocks m nb) as [_ ->].
        destruct (Nat.eqb_spec m 0) as [->|_]; f_equal; lia. }
      assert (Hsplit : src = firstn rem src ++ concat blocks ++ tail).
      { rewrite <- Esrc. symmetry. apply firstn_skipn. }
      fold t.
      destruct (Nat.eqb_spec t 0) as [Ht0|Ht0].
      + (* no partial tail *)
        assert (tail = []) by (destruct tail; [reflexivity|simpl in Ht0; subst t; discriminate]). subst tail.
        eexists. split; [|split].
        * assert (Hout : xorb src (take n nb pos) =
                         xorb (firstn rem src) (take rem nb pos) ++ xorb (concat blocks) (take (m * bs) nb bs)).
          { rewrite Hsplit at 1. rewrite app_nil_r.
            replace n with (rem + m * bs) by lia. rewrite take_app, Hadv.
            rewrite xorb_app by (rewrite firstn_length, take_length; lia). reflexivity. }
          rewrite Hout. reflexivity.
        * replace n with (rem + m * bs) by lia. rewrite Hadv2. cbn [fst]. unfold WInv. cbn [wr_core wr_buf wr_pos].
          repeat split; auto; lia.
        * replace n with (rem + m * bs) by lia. rewrite Hadv2. reflexivity.
      + (* partial tail: one more block is generated into the buffer *)
        assert (Hbel : below (nb + N.of_nat m)).
        { unfold fits, below in *. destruct limit; auto. rewrite Hcbr in Hfit.
          destruct (Nat.eqb_spec t 0); [contradiction|]. lia. }
        unfold write_ks_block. rewrite gen_at by auto.
        destruct (tail_step t (nb + N.of_nat m)%N) as [T3 A3]; [lia|lia|].
        eexists. split; [|split].
        * assert (Hout : xorb src (take n nb pos) =
                         xorb (firstn rem src) (take rem nb pos) ++ xorb (concat blocks) (take (m * bs) nb bs) ++
                         xorb tail (firstn t (KB (nb + N.of_nat m)))).
          { rewrite Hsplit at 1.
            replace n with (rem + (m * bs + t)) by lia. rewrite take_app, Hadv, take_app.
            destruct (take_blocks m nb) as [_ A1]. rewrite A1.
            replace (let '(nb', pos') := if m =? 0 then (nb, bs) else ((nb + N.of_nat m)%N, bs) in take t nb' pos')
              with (take t (nb + N.of_nat m)%N bs)
              by (destruct (Nat.eqb_spec m 0) as [->|_]; [replace (nb + N.of_nat 0)%N with nb by lia|]; reflexivity).
            rewrite T3.
            rewrite xorb_app by (rewrite firstn_length, take_length; lia).
            rewrite xorb_app by (rewrite take_length, (all_len_concat_length bs blocks Hall); reflexivity).
            reflexivity. }
          rewrite Hout. reflexivity.
        * replace n with (rem + m * bs + t) by lia. rewrite adv_app, Hadv2, A3. cbn [fst].
          unfold WInv. cbn [wr_core wr_buf wr_pos]. repeat split; auto; try lia.
          -- unfold below, upto in *. destruct limit; auto. lia.
          -- replace (nb + N.of_nat m + 1 - 1)%N with (nb + N.of_nat m)%N by lia. reflexivity.
        * replace n with (rem + m * bs + t) by lia. rewrite adv_app, Hadv2, A3. reflexivity.
  Qed.

  (* ================= C08: any way of cutting the stream into calls ================= *)
  (* a piece = (in place?, input, output buffer) *)
  Definition piece := (bool * list N * list N)%type.
  Definition piece_src (p : piece) : list N := let '(al, i, o) := p in if al then o else i.
  Definition piece_ok (p : piece) : Prop := let '(al, i, o) := p in length i = length o /\ (al = true -> i = o).

  Fixpoint apply_all (wst : wrapper St) (ps : list piece) : outcome (wrapper St * list N) :=
    match ps with
    | [] => Ok (wst, [])
    | (al, i, o) :: ps' =>
        do r <- try_apply K wst al i o;
        let '(w1, o1) := r in
        do r2 <- apply_all w1 ps';
        let '(w2, o2) := r2 in Ok (w2, o1 ++ o2)
    end.

  Lemma fits_split nb pos a b : fits nb pos (a + b) ->
    fits nb pos a /\ fits (fst (adv a nb pos)) (snd (adv a nb pos)) b.
  Proof. clear par_at.
    unfold fits. destruct limit as [L|]; [|tauto]. intros H.
    rewrite cbr_app in H. rewrite adv_cbr, (adv_snd_indep a nb 0%N). lia.
  Qed.

  Theorem apply_all_spec : forall ps nb wst, WInv nb wst -> Forall piece_ok ps ->
    let srcs := concat (map piece_src ps) in
    (N.of_nat (length srcs) <= usize_max)%N -> fits nb (wr_pos wst) (length srcs) ->
    exists wst', apply_all wst ps = Ok (wst', xorb srcs (take (length srcs) nb (wr_pos wst))) /\
                 WInv (fst (adv (length srcs) nb (wr_pos wst))) wst' /\
                 wr_pos wst' = snd (adv (length srcs) nb (wr_pos wst)).
  Proof.
    induction ps as [|[[al i] o] ps IH]; intros nb wst HI Hok srcs Hus Hfit.
    - exists wst. split; [reflexivity|]. split; [exact HI | reflexivity].
    - inversion Hok as [|? ? Hpk Hok']; subst. cbn [piece_ok] in Hpk. destruct Hpk as [Hlen Hal]. subst srcs. cbn [map concat piece_src] in *.
      set (src := if al then o else i) in *. set (rest := concat (map piece_src ps)) in *.
      assert (Hsl : length src = length o) by (subst src; destruct al; auto).
      rewrite app_length in *. rewrite Hsl in *.
      destruct (fits_split nb (wr_pos wst) (length o) (length rest) Hfit) as [Hf1 Hf2].
      destruct (try_apply_spec nb wst al i o HI Hlen Hal ltac:(lia)) as [Hsucc _].
      destruct (Hsucc Hf1) as (w1 & E1 & HI1 & Hp1).
      cbn [apply_all]. rewrite E1. cbn [obind].
      rewrite <- Hp1 in Hf2.
      destruct (IH _ w1 HI1 Hok' ltac:(fold rest; lia) Hf2) as (w2 & E2 & HI2 & Hp2). fold rest in E2, HI2, Hp2.
      rewrite E2. cbn [obind]. exists w2. split; [|split].
      + f_equal. f_equal. rewrite take_app. fold src.
        rewrite xorb_app by (rewrite take_length; auto).
        rewrite Hp1. destruct (adv (length o) nb (wr_pos wst)); reflexivity.
      + rewrite adv_app. rewrite Hp1 in HI2. destruct (adv (length o) nb (wr_pos wst)); exact HI2.
      + rewrite adv_app. rewrite Hp1 in Hp2. destruct (adv (length o) nb (wr_pos wst)); exact Hp2.
  Qed.

  (* the C08 statement: pieces fed in order = one call on the whole string (in place) *)
  Corollary chunking_independent ps nb wst : WInv nb wst -> Forall piece_ok ps ->
    let whole := concat (map piece_src ps) in
    (N.of_nat (length whole) <= usize_max)%N -> fits nb (wr_pos wst) (length whole) ->
    exists w1 w2 out, apply_all wst ps = Ok (w1, out) /\ try_apply K wst true whole whole = Ok (w2, out) /\
                      wr_pos w1 = wr_pos w2 /\ wr_core w1 = wr_core w2.
  Proof.
    intros HI Hok whole Hus Hfit.
    destruct (apply_all_spec ps nb wst HI Hok Hus Hfit) as (w1 & E1 & (Hc1 & _) & Hp1).
    destruct (try_apply_spec nb wst true whole whole HI eq_refl (fun _ => eq_refl) Hus) as [Hs _].
    destruct (Hs Hfit) as (w2 & E2 & (Hc2 & _) & Hp2).
    exists w1, w2, (xorb whole (take (length whole) nb (wr_pos wst))).
    split; [exact E1|]. split; [exact E2|]. split; [rewrite Hp1, Hp2; reflexivity | rewrite Hc1, Hc2; reflexivity].
  Qed.

  (* ================= C11: the limit in bytes ================= *)
  (* abstract byte position of (nb, pos): nb*bs - (bs - pos) *)
  Lemma fits_bytes nb pos n L : limit = Some L -> (nb <= L)%N -> 1 <= pos <= bs ->
    (fits nb pos n <-> (nb * N.of_nat bs + N.of_nat n <= L * N.of_nat bs + N.of_nat (bs - pos))%N).
  Proof. clear par_at.
    intros HL Hnb Hp. unfold fits. rewrite HL. rewrite (cbr_formula n pos Hp).
    destruct (Nat.leb_spec n (bs - pos)) as [Hle|Hgt].
    - split; intros _; [|lia]. assert (nb * N.of_nat bs <= L * N.of_nat bs)%N by (apply N.mul_le_mono_r; auto). lia.
    - set (d := n - (bs - pos)). set (c := (d + bs - 1) / bs).
      assert (Hc : c * bs >= d /\ (c - 1) * bs < d /\ 1 <= c).
      { pose proof (Nat.div_mod (d + bs - 1) bs ltac:(lia)) as E. fold c in E.
        pose proof (Nat.mod_upper_bound (d + bs - 1) bs ltac:(lia)) as R. subst d. nia. }
      replace (N.of_nat n) with (N.of_nat d + N.of_nat (bs - pos))%N by (subst d; lia).
      split; intros H.
      + assert ((nb + N.of_nat c) * N.of_nat bs <= L * N.of_nat bs)%N by (apply N.mul_le_mono_r; auto). nia.
      + destruct (N.le_gt_cases (nb + N.of_nat c) L) as [|Hgt2]; auto. exfalso.
        assert (L * N.of_nat bs <= (nb + N.of_nat (c - 1)) * N.of_nat bs)%N by (apply N.mul_le_mono_r; lia). nia.
  Qed.

  (* ================= C10: seek and position ================= *)
  Hypothesis set_at : forall nb blk, sc_set_pos K (at_block nb) blk = at_block blk.
  Hypothesis pos_at : forall nb, upto nb -> sc_get_pos K (at_block nb) = nb.

  Theorem try_seek_spec t nb wst p blk byte : WInv nb wst ->
    into_block_byte t (sc_ctr_bits K) p bs = Ok (blk, byte) ->
    (byte = 0 -> upto blk) -> (byte <> 0 -> below blk) ->
    exists wst', try_seek K t wst p = Ok wst' /\
                 WInv (if Nat.eqb byte 0 then blk else (blk + 1)%N) wst' /\
                 wr_pos wst' = (if byte =? 0 then bs else byte).
  Proof.
    intros (Hc & Hu & Hp & Hl & Hb) Hbb H0 H1. unfold try_seek. fold bs. rewrite Hbb. cbn [obind].
    assert (Hbyte : byte < bs).
    { unfold into_block_byte in Hbb. destruct (_ || _); [discriminate|].
      destruct (Nat.leb_spec bs (Z.to_nat ((Z.rem p (Z.of_nat bs)) mod 256))); [discriminate|].
      injection Hbb as _ <-. auto. }
    rewrite Hc, set_at. destruct (Nat.eqb_spec byte 0) as [->|Hne]; cbn [negb].
    - eexists. split; [reflexivity|]. split; [|reflexivity]. unfold WInv. cbn [wr_core wr_buf wr_pos].
      repeat split; auto; lia.
    - unfold write_ks_block. rewrite gen_at by auto. eexists. split; [reflexivity|]. split; [|reflexivity].
      unfold WInv. cbn [wr_core wr_buf wr_pos]. repeat split; auto; try lia.
      + unfold below, upto in *. destruct limit; auto. specialize (H1 Hne). lia.
      + replace (blk + 1 - 1)%N with blk by lia. reflexivity.
  Qed.

  (* a target whose block index the counter type cannot hold is refused, and nothing changes *)
  Theorem try_seek_err t wst p : into_block_byte t (sc_ctr_bits K) p bs = Err -> try_seek K t wst p = Err.
  Proof. clear par_at. intros H. unfold try_seek. fold bs. now rewrite H. Qed.

  (* the byte offset a position stands for *)
  Definition byte_pos (nb : N) (pos : nat) : Z := (Z.of_N nb * Z.of_nat bs - Z.of_nat (bs - pos))%Z.

  Lemma seek_byte_pos t p blk byte : bs < 256 -> (0 <= p)%Z ->
    into_block_byte t (sc_ctr_bits K) p bs = Ok (blk, byte) ->
    byte_pos (if Nat.eqb byte 0 then blk else (blk + 1)%N) (if byte =? 0 then bs else byte) = p.
  Proof. clear par_at.
    intros Hbs Hp0 Hbb. unfold into_block_byte in Hbb.
    destruct (_ || _) eqn:Eb; [discriminate|]. apply orb_false_iff in Eb. destruct Eb as [Eb1 _].
    destruct (Nat.leb_spec bs (Z.to_nat ((Z.rem p (Z.of_nat bs)) mod 256))) as [|Hlt]; [discriminate|].
    injection Hbb as <- <-.
    rewrite Z.rem_mod_nonneg, Z.quot_div_nonneg in * by lia.
    assert (Hm : (0 <= p mod Z.of_nat bs < Z.of_nat bs)%Z) by (apply Z.mod_pos_bound; lia).
    rewrite (Z.mod_small (p mod Z.of_nat bs) 256) in * by lia.
    pose proof (Z.div_mod p (Z.of_nat bs) ltac:(lia)) as E.
    assert (Hq : (0 <= p / Z.of_nat bs)%Z) by (apply Z.div_pos; lia).
    unfold byte_pos. destruct (Nat.eqb_spec (Z.to_nat (p mod Z.of_nat bs)) 0) as [E0|E0].
    - rewrite Z2N.id by lia. replace (bs - bs) with 0 by lia. assert (p mod Z.of_nat bs = 0)%Z by lia. lia.
    - rewrite N2Z.inj_add, Z2N.id by lia.
      replace (Z.of_nat (bs - Z.to_nat (p mod Z.of_nat bs))) with (Z.of_nat bs - p mod Z.of_nat bs)%Z by lia. lia.
  Qed.

  (* the reported position: the byte offset, or an error when the type cannot hold it *)
  Theorem try_current_pos_spec t nb wst : WInv nb wst ->
    match try_current_pos K t wst with
    | Ok r => r = byte_pos nb (wr_pos wst)
    | Err => True
    | Panic => False
    end /\
    ((sn_max t < byte_pos nb (wr_pos wst))%Z -> try_current_pos K t wst = Err).
  Proof.
    intros (Hc & Hu & Hp & Hl & Hb). unfold try_current_pos, from_block_byte, byte_pos. fold bs. rewrite Hc, pos_at by auto.
    destruct (Nat.ltb_spec bs (wr_pos wst)); [lia|].
    destruct (Z.ltb_spec (sn_max t) (Z.of_N nb)).
    { split; auto. }
    destruct (Z.ltb_spec (sn_max t) (Z.of_N nb * Z.of_nat bs)).
    { split; auto. }
    destruct (Z.ltb_spec (Z.of_N nb * Z.of_nat bs - Z.of_nat (bs - wr_pos wst)) (sn_min t)); split; auto; intros; lia.
  Qed.


  (* ================= no reuse: which keystream byte each output byte is xored with ================= *)
  Fixpoint cells_at (n : nat) (nb : N) (pos : nat) : list (N * nat) :=
    match n with
    | O => []
    | S n' => if pos <? bs then ((nb - 1)%N, pos) :: cells_at n' nb (S pos)
              else (nb, 0) :: cells_at n' (nb + 1)%N 1
    end.

  Lemma take_cells n : forall nb pos, take n nb pos = map (fun c => nth (snd c) (KB (fst c)) 0%N) (cells_at n nb pos).
  Proof. clear par_at. induction n as [|n IH]; intros nb pos; [reflexivity|]. cbn [take cells_at].
    destruct (pos <? bs); cbn [map fst snd]; now rewrite IH. Qed.

  (* every keystream byte used by a request that fits lies in a block below the limit, at an offset
     inside the block; and the k-th byte of the request uses the cell of byte position q + k *)
  Lemma cells_below n : forall nb pos L, limit = Some L -> 1 <= pos <= bs -> (pos < bs -> (1 <= nb)%N) ->
    (nb + N.of_nat (cbr n pos) <= L)%N ->
    Forall (fun c => (fst c < L)%N /\ snd c < bs) (cells_at n nb pos).
  Proof. clear par_at.
    induction n as [|n IH]; intros nb pos L HL Hp Hnb Hfit; [constructor|].
    cbn [cells_at cbr] in *. destruct (Nat.ltb_spec pos bs) as [Hlt|Hge].
    - constructor; [cbn [fst snd]; split; [specialize (Hnb Hlt); lia | lia]|].
      apply IH; auto; try lia.
    - constructor; [cbn [fst snd]; split; lia|].
      apply IH; auto; try lia.
  Qed.

  Lemma cells_byte_pos n : forall nb pos k c, 1 <= pos <= bs -> (pos < bs -> (1 <= nb)%N) ->
    nth_error (cells_at n nb pos) k = Some c ->
    (Z.of_N (fst c) * Z.of_nat bs + Z.of_nat (snd c) = byte_pos nb pos + Z.of_nat k)%Z.
  Proof. clear par_at.
    unfold byte_pos. induction n as [|n IH]; intros nb pos k c Hp Hnb Hk; [destruct k; discriminate|].
    cbn [cells_at] in Hk. destruct (Nat.ltb_spec pos bs) as [Hlt|Hge].
    - destruct k as [|k]; cbn [nth_error] in Hk.
      + injection Hk as <-. cbn [fst snd]. specialize (Hnb Hlt). rewrite N2Z.inj_sub by lia. nia.
      + apply IH in Hk; auto; lia.
    - destruct k as [|k]; cbn [nth_error] in Hk.
      + injection Hk as <-. cbn [fst snd]. replace (bs - pos) with 0 by lia. lia.
      + apply IH in Hk; auto; try lia.
        all: try (rewrite N2Z.inj_add in Hk; replace (bs - pos) with 0 by lia; nia).
  Qed.


  (* ================= C14: the core driven block-wise = the byte-level cipher on whole blocks ========= *)
  Theorem core_equals_wrapper nb wst blocks : WInv nb wst -> wr_pos wst = bs -> all_len bs blocks ->
    (N.of_nat (length (concat blocks)) <= usize_max)%N -> fits nb bs (length (concat blocks)) ->
    exists wst', try_apply K wst true (concat blocks) (concat blocks) =
                 Ok (wst', outs_of (snd (apply_ks_blocks K (at_block nb) (cells_ip blocks)))).
  Proof.
    clear set_at pos_at. intros HI Hpos Hall Hus Hfit.
    destruct (try_apply_spec nb wst true (concat blocks) (concat blocks) HI eq_refl (fun _ => eq_refl) Hus) as [Hs _].
    rewrite Hpos in Hs. destruct (Hs Hfit) as (wst' & E & _). exists wst'. rewrite E. f_equal. f_equal.
    set (m := length blocks).
    assert (Hlen : length (concat blocks) = m * bs) by (apply all_len_concat_length; auto).
    assert (Hupm : upto (nb + N.of_nat m)).
    { unfold fits, upto in *. destruct limit; auto. rewrite Hlen in Hfit.
      destruct (take_blocks m nb) as [_ A1]. pose proof (adv_cbr (m * bs) nb bs) as A2. rewrite A1 in A2.
      destruct (Nat.eqb_spec m 0); cbn [fst] in A2; lia. }
    unfold apply_ks_blocks. unfold cells_ip. rewrite map_length. fold m.
    rewrite ks_blocks_at by auto. cbn [snd]. unfold outs_of.
    rewrite concat_xor_cells.
    - fold (cells_ip blocks). rewrite map_rd_in_ip, Hlen. destruct (take_blocks m nb) as [-> _]. reflexivity.
    - rewrite !map_length, seq_length. reflexivity.
    - fold (cells_ip blocks). now rewrite map_rd_in_ip.
    - apply KBs_all_len.
  Qed.

End Refine.
