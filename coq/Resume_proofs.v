(* Resume_proofs.v -- C09: the exported IV state is the public chaining value, and a fresh instance
   built from it is in the same state as the original (so it continues identically: fold_cells_app). *)
From BM Require Import BlockModes Spec BlockModes_proofs Spec_proofs RoundTrip_proofs Ints Ints_proofs Ctr Belt
  Stream Stream_proofs Ctr_proofs Belt_proofs.
From Coq Require Import ZArith Lia.

Lemma last_map {A B} (f : A -> B) l d : last (map f l) (f d) = f (last l d).
Proof. revert d; induction l as [|a l IH]; intros d; [reflexivity|].
  cbn [map]. rewrite !last_cons_default. apply IH. Qed.

Lemma last_in_or_default {A} (P : A -> Prop) l d : P d -> Forall P l -> P (last l d).
Proof. intros Hd H; revert d Hd; induction H as [|a l Ha _ IH]; intros d Hd; auto.
  rewrite last_cons_default. apply IH; auto. Qed.

Section Resume.
  Variable C : cipher.
  Let bs := c_bs C.
  Let E := c_E C.
  Let D := c_D C.

  (* processing a ++ b = processing a, then b from the state reached: holds for every body *)
  Theorem resume_generic (S : Type) (single : S -> cell -> S * cell) st a b :
    fold_cells single st (a ++ b) =
    let '(st1, a1) := fold_cells single st a in let '(st2, b1) := fold_cells single st1 b in (st2, a1 ++ b1).
  Proof. apply fold_cells_app. Qed.

  (* CBC, PCBC, CFB-8, OFB: the stored state is the exported state *)
  Lemma cbc_export_import st : cbc_init (cbc_iv_state st) = st.   Proof. reflexivity. Qed.
  Lemma pcbc_export_import st : pcbc_init (pcbc_iv_state st) = st. Proof. reflexivity. Qed.
  Lemma cfb8_export_import st : cfb8_init (cfb8_iv_state st) = st. Proof. reflexivity. Qed.
  Lemma ofb_export_import st : ofb_init (ofb_iv_state st) = st.   Proof. reflexivity. Qed.

  (* IGE: iv_state = y || x = C_k || P_k; splitting it back gives (x, y) *)
  Lemma ige_export_import x y : length y = bs -> ige_init C (ige_iv_state (x, y)) = (x, y).
  Proof. intros H. unfold ige_iv_state. cbn [fst snd]. now apply ige_init_split. Qed.

  (* CFB: the object stores E(chain) and exports D(E(chain)) = chain; re-importing re-encrypts *)
  Lemma cfb_export chain : DE_id C -> length chain = bs -> cfb_iv_state C (E chain) = chain.
  Proof. intros DE H. unfold cfb_iv_state. now apply DE. Qed.
  Lemma cfb_export_import chain : DE_id C -> length chain = bs -> cfb_init C (cfb_iv_state C (E chain)) = E chain.
  Proof. intros DE H. unfold cfb_init. fold E. now rewrite cfb_export. Qed.

  (* the state reached by the CFB encryptor / decryptor is E(last ciphertext block) *)
  Lemma cfb_enc_state iv ps :
    last (map E (cfb_enc_spec E iv ps)) (E iv) = E (last (cfb_enc_spec E iv ps) iv).
  Proof. apply last_map. Qed.
  Lemma cfb_dec_state iv cs : last (map E cs) (E iv) = E (last cs iv).
  Proof. apply last_map. Qed.

  Lemma cfb_enc_spec_all_len iv ps : (forall x, length x = bs -> length (E x) = bs) ->
    length iv = bs -> all_len bs ps -> all_len bs (cfb_enc_spec E iv ps).
  Proof. intros HE Hiv Hps; revert iv Hiv; induction Hps as [|p ps Hp _ IH]; intros iv Hiv; simpl; constructor.
    - rewrite xorb_length, Hp, HE by auto. apply Nat.min_id.
    - apply IH. rewrite xorb_length, Hp, HE by auto. apply Nat.min_id. Qed.
End Resume.

(* ---- CTR: the exported state is the next counter block; importing it restarts the counter at 0
        over a nonce whose counter field already contains the offset ---- *)
Section CtrResume.
  Variable F : flavor.
  Hypothesis cs_pos : 0 < (f_cs F).

  Lemma wrap_lt x : (wrap (f_bits F) x < 256 ^ N.of_nat (f_cs F))%N.
  Proof. unfold wrap, f_bits. rewrite <- pow2_bytes. apply N.mod_lt. apply N.neq_0_lt_0, pow2_pos. Qed.

  (* the layout of a chunked IV is again a chunked, well-formed block *)
  Lemma layout_chunks chs i : chs <> [] -> all_len (f_cs F) chs -> bytes_ok (concat chs) ->
    exists chs', layout F (concat chs) i = concat chs' /\ chs' <> [] /\ all_len (f_cs F) chs' /\ bytes_ok (concat chs').
  Proof.
    intros Hne Hall Hok. unfold layout. destruct (f_be F).
    - destruct (exists_last Hne) as (pre & lst & ->).
      apply all_len_app in Hall. destruct Hall as [Hpre Hlst]. inversion Hlst as [|? ? Hl _]; subst.
      rewrite concat_app in *. cbn [concat] in *. rewrite app_nil_r in *.
      rewrite app_length, Hl. replace (length (concat pre) + (f_cs F) - (f_cs F)) with (length (concat pre)) by lia.
      rewrite firstn_app_exact, skipn_app_exact by auto.
      exists (pre ++ [be_encode (f_cs F) (wrap (f_bits F) (i + be_decode lst))]). repeat split.
      + rewrite concat_app. cbn [concat]. now rewrite app_nil_r.
      + intros H. apply app_eq_nil in H. destruct H; discriminate.
      + apply all_len_app. split; auto. constructor; [apply be_encode_length | constructor].
      + rewrite concat_app. cbn [concat]. rewrite app_nil_r. apply bytes_ok_app in Hok. apply bytes_ok_app.
        split; [tauto | apply be_encode_ok].
    - destruct chs as [|fst rest]; [congruence|].
      inversion Hall as [|? ? Hl Hrest]; subst. cbn [concat] in *.
      rewrite firstn_app_exact, skipn_app_exact by auto.
      exists (le_encode (f_cs F) (wrap (f_bits F) (i + le_decode fst)) :: rest). repeat split.
      + discriminate.
      + constructor; [apply le_encode_length | auto].
      + cbn [concat]. apply bytes_ok_app in Hok. apply bytes_ok_app. split; [apply le_encode_ok | tauto].
  Qed.

  Lemma layout_compose chs i j : chs <> [] -> all_len (f_cs F) chs -> bytes_ok (concat chs) ->
    layout F (layout F (concat chs) i) j = layout F (concat chs) (i + j).
  Proof.
    intros Hne Hall Hok.
    assert (Hlen : (f_cs F) <= length (concat chs)).
    { destruct chs as [|c0 r]; [congruence|]. inversion Hall; subst. cbn [concat]. rewrite app_length. lia. }
    pose proof (layout_length F cs_pos (concat chs) i Hlen) as HL.
    pose proof (layout_nonce_untouched F cs_pos (concat chs) i Hlen) as HN.
    unfold layout in *. pose proof wrap_lt as WL. destruct (f_be F).
    - rewrite HL, HN. f_equal. rewrite skipn_app_exact by (rewrite firstn_length; lia).
      rewrite be_decode_encode, N.mod_small by apply WL.
      unfold wrap. rewrite N.add_mod_idemp_r by (apply N.neq_0_lt_0, pow2_pos). do 2 f_equal. lia.
    - rewrite HN. f_equal. rewrite firstn_app_exact by now rewrite le_encode_length.
      rewrite le_decode_encode, N.mod_small by apply WL.
      unfold wrap. rewrite N.add_mod_idemp_r by (apply N.neq_0_lt_0, pow2_pos). do 2 f_equal. lia.
  Qed.

  Variable C : cipher.

  (* C09 for CTR: after i blocks the exported state is layout(IV, i) -- the next counter block -- and
     a fresh core built from it produces the same future blocks *)
  Theorem ctr_resume chs i n : chs <> [] -> all_len (f_cs F) chs -> bytes_ok (concat chs) ->
    let exported := ctr_iv_state F (mkcn i (cn_nonce (from_nonce F (concat chs)))) in
    exported = layout F (concat chs) i /\
    snd (ctr_gen_n F C n (ctr_init F exported)) =
    snd (ctr_gen_n F C n (mkcn i (cn_nonce (from_nonce F (concat chs))))).
  Proof.
    intros Hne Hall Hok exported.
    assert (Hex : exported = layout F (concat chs) i) by (apply current_block_layout; auto).
    split; auto. rewrite Hex.
    destruct (layout_chunks chs i Hne Hall Hok) as (chs' & E' & Hne' & Hall' & Hok').
    unfold ctr_init. change (from_nonce F (layout F (concat chs) i))
      with (mkcn 0 (cn_nonce (from_nonce F (layout F (concat chs) i)))).
    rewrite E'. rewrite !ctr_keystream by auto. cbn [snd]. apply map_ext. intros j.
    rewrite <- E', layout_compose by auto. reflexivity.
  Qed.
End CtrResume.

(* ---- BelT: exported D(le128(s)); importing gives s' = le128^-1(E(D(le128 s))) = s ---- *)
Section BeltResume.
  Variable C : cipher.
  Theorem belt_resume s si n : ED_id C -> c_bs C = 16 -> (s < pow2 128)%N ->
    belt_init C (belt_iv_state C (mkbelt s si)) = mkbelt s s /\
    snd (belt_gen_n C n (mkbelt s s)) = snd (belt_gen_n C n (mkbelt s si)).
  Proof.
    intros ED Hbs Hs. split.
    - unfold belt_init, belt_iv_state. cbn [b_s]. rewrite ED by (rewrite le_encode_length; auto).
      rewrite le_decode_encode. rewrite N.mod_small; [reflexivity|].
      rewrite <- (pow2_bytes 16). exact Hs.
    - now rewrite !belt_keystream.
  Qed.
End BeltResume.
