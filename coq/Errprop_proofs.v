(* Errprop_proofs.v -- C15: causality and error propagation, stated on the recurrences of Spec.v
   (the models equal them: Props/C02.v, C03.v). *)
From BM Require Import Spec Spec_proofs.
From Coq Require Import Lia.

Section Err.
  Variables (bs : nat) (E D : block -> block).
  Hypothesis E_len : forall x, length x = bs -> length (E x) = bs.
  Hypothesis D_len : forall x, length x = bs -> length (D x) = bs.

  (* ---- CBC decryption: ciphertext a ++ c :: c1 :: rest, block c replaced by c' ---- *)
  Theorem cbc_dec_error iv a c c' c1 rest :
    cbc_dec_spec D iv (a ++ c :: c1 :: rest) =
      cbc_dec_spec D iv a ++ xorb (D c) (cbc_chain iv a) :: xorb (D c1) c :: cbc_dec_spec D c1 rest /\
    cbc_dec_spec D iv (a ++ c' :: c1 :: rest) =
      cbc_dec_spec D iv a ++ xorb (D c') (cbc_chain iv a) :: xorb (D c1) c' :: cbc_dec_spec D c1 rest.
  Proof. split; rewrite cbc_dec_app; reflexivity. Qed.

  (* block j+1 has exactly the bits of c xor c' flipped *)
  Lemma cbc_next_block_delta c c' x : length c = bs -> length c' = bs -> length x = bs ->
    xorb (xorb x c) (xorb x c') = xorb c c'.
  Proof. intros Hc Hc' Hx. rewrite (xorb_comm x c), xorb_assoc, <- (xorb_assoc x x c'), xorb_nilpotent.
    rewrite xorb_zeros_l by lia. reflexivity. Qed.

  (* block j is garbled iff D separates c and c' *)
  Lemma block_garbled x y ch : length x = bs -> length y = bs -> length ch = bs ->
    (xorb x ch = xorb y ch <-> x = y).
  Proof. intros Hx Hy Hc. split; [|now intros ->]. apply xorb_inj_l; congruence. Qed.

  (* ---- CFB decryption ---- *)
  Theorem cfb_dec_error iv a c c' c1 rest :
    cfb_dec_spec E iv (a ++ c :: c1 :: rest) =
      cfb_dec_spec E iv a ++ xorb c (E (last a iv)) :: xorb c1 (E c) :: cfb_dec_spec E c1 rest /\
    cfb_dec_spec E iv (a ++ c' :: c1 :: rest) =
      cfb_dec_spec E iv a ++ xorb c' (E (last a iv)) :: xorb c1 (E c') :: cfb_dec_spec E c1 rest.
  Proof. split; rewrite cfb_dec_app; reflexivity. Qed.

  Lemma cfb_same_block_delta c c' k : length c = bs -> length c' = bs -> length k = bs ->
    xorb (xorb c k) (xorb c' k) = xorb c c'.
  Proof. intros Hc Hc' Hk. rewrite (xorb_comm c' k), <- xorb_assoc, (xorb_assoc c k k), xorb_nilpotent.
    rewrite xorb_zeros_r by lia. reflexivity. Qed.

  (* ---- CFB-8: after bs further ciphertext bytes the register no longer contains the bad byte ---- *)
  Lemma cfb8_reg_app s a b : cfb8_reg s (a ++ b) = cfb8_reg (cfb8_reg s a) b.
  Proof. revert s; induction a as [|x a IH]; intros s; [reflexivity|]. cbn [app cfb8_reg]. apply IH. Qed.

  Lemma cfb8_reg_length s cs : length s = bs -> 0 < bs -> length (cfb8_reg s cs) = bs.
  Proof. revert s; induction cs as [|c cs IH]; intros s Hs Hb; [exact Hs|]. cbn [cfb8_reg]. apply IH; auto.
    rewrite app_length, skipn_length. simpl. lia. Qed.

  Lemma cfb8_reg_shift : forall mid s, length mid <= length s ->
    cfb8_reg s mid = skipn (length mid) s ++ mid.
  Proof.
    induction mid as [|c mid IH]; intros s H; [simpl; now rewrite app_nil_r|].
    cbn [cfb8_reg length]. rewrite IH.
    - rewrite skipn_app. rewrite skipn_skipn.
      replace (length mid - length (skipn 1 s)) with 0 by (rewrite skipn_length; simpl in H; lia).
      cbn [skipn]. rewrite <- app_assoc. reflexivity.
    - rewrite app_length, skipn_length. simpl in *. lia.
  Qed.

  (* the register after any prefix followed by bs bytes mid is mid itself: resynchronisation *)
  Theorem cfb8_resync s pre mid : length s = bs -> 0 < bs -> length mid = bs ->
    cfb8_reg s (pre ++ mid) = mid.
  Proof. intros Hs Hb Hm. rewrite cfb8_reg_app, cfb8_reg_shift by (rewrite cfb8_reg_length; auto; lia).
    rewrite Hm, <- (cfb8_reg_length s pre Hs Hb), skipn_all. reflexivity. Qed.

  (* ciphertext a ++ c :: mid ++ rest with byte c replaced: byte j flips the same bits, the bytes
     after mid (|mid| = bs) decrypt identically *)
  Theorem cfb8_dec_error s a c c' mid rest : length s = bs -> 0 < bs -> length mid = bs ->
    exists g g' k,
      cfb8_dec_spec E s (a ++ c :: mid ++ rest) = cfb8_dec_spec E s a ++ N.lxor c k :: g ++ cfb8_dec_spec E mid rest /\
      cfb8_dec_spec E s (a ++ c' :: mid ++ rest) = cfb8_dec_spec E s a ++ N.lxor c' k :: g' ++ cfb8_dec_spec E mid rest /\
      length g = bs /\ length g' = bs.
  Proof.
    intros Hs Hb Hm.
    exists (cfb8_dec_spec E (skipn 1 (cfb8_reg s a) ++ [c]) mid),
           (cfb8_dec_spec E (skipn 1 (cfb8_reg s a) ++ [c']) mid), (hd 0%N (E (cfb8_reg s a))).
    assert (L : forall st l, length (cfb8_dec_spec E st l) = length l).
    { intros st l; revert st; induction l; intros; simpl; auto. }
    repeat split; try (rewrite L; auto).
    - rewrite cfb8_dec_app. cbn [cfb8_dec_spec]. rewrite cfb8_dec_app. do 3 f_equal.
      change (skipn 1 (cfb8_reg s a) ++ [c]) with (cfb8_reg (cfb8_reg s a) [c]).
      rewrite <- !cfb8_reg_app. rewrite app_assoc. f_equal. apply cfb8_resync; auto.
    - rewrite cfb8_dec_app. cbn [cfb8_dec_spec]. rewrite cfb8_dec_app. do 3 f_equal.
      change (skipn 1 (cfb8_reg s a) ++ [c']) with (cfb8_reg (cfb8_reg s a) [c']).
      rewrite <- !cfb8_reg_app. rewrite app_assoc. f_equal. apply cfb8_resync; auto.
  Qed.

  (* ---- PCBC decryption: a difference delta in the chaining value flips delta in EVERY later block ---- *)
  Theorem pcbc_dec_delta s delta cs : length s = bs -> length delta = bs -> all_len bs cs ->
    pcbc_dec_spec D (xorb s delta) cs = map (fun p => xorb p delta) (pcbc_dec_spec D s cs).
  Proof.
    intros Hs Hd Hcs; revert s Hs; induction Hcs as [|c cs Hc _ IH]; intros s Hs; [reflexivity|].
    cbn [pcbc_dec_spec map]. rewrite <- xorb_assoc. f_equal.
    rewrite <- IH by (rewrite !xorb_length, D_len, Hs, Hc by auto; rewrite !Nat.min_id; auto).
    f_equal. rewrite !xorb_assoc. f_equal. rewrite (xorb_comm delta c). reflexivity.
  Qed.

  (* ---- IGE decryption: with D injective a difference in P_{k-1} garbles every later block ---- *)
  Theorem ige_dec_diverges c0 p0 p0' cs :
    (forall x y, length x = bs -> length y = bs -> D x = D y -> x = y) ->
    length c0 = bs -> length p0 = bs -> length p0' = bs -> all_len bs cs -> p0 <> p0' ->
    Forall2 (fun p p' => p <> p') (ige_dec_spec D c0 p0 cs) (ige_dec_spec D c0 p0' cs).
  Proof.
    intros Dinj Hc0 Hp Hp' Hcs; revert c0 p0 p0' Hc0 Hp Hp'; induction Hcs as [|c cs Hc _ IH];
      intros c0 p0 p0' Hc0 Hp Hp' Hne; [constructor|].
    cbn [ige_dec_spec].
    assert (L1 : length (xorb c p0) = bs) by (rewrite xorb_length, Hc, Hp; apply Nat.min_id).
    assert (L2 : length (xorb c p0') = bs) by (rewrite xorb_length, Hc, Hp'; apply Nat.min_id).
    assert (Hd : xorb (D (xorb c p0)) c0 <> xorb (D (xorb c p0')) c0).
    { intros H.
      assert (H1 : D (xorb c p0) = D (xorb c p0')) by (eapply xorb_inj_l; [| |exact H]; rewrite D_len; auto).
      apply Dinj in H1; auto.
      rewrite (xorb_comm c p0), (xorb_comm c p0') in H1.
      apply Hne. eapply xorb_inj_l; [| |exact H1]; congruence. }
    constructor; auto. apply IH; auto; rewrite xorb_length, D_len, Hc0 by auto; apply Nat.min_id.
  Qed.

  (* ---- keystream modes: only the same bit positions flip ---- *)
  Theorem keystream_delta a b k : length a = length k -> length b = length k ->
    xorb (xorb a k) (xorb b k) = xorb a b.
  Proof. intros Ha Hb. rewrite (xorb_comm b k), <- xorb_assoc, (xorb_assoc a k k), xorb_nilpotent.
    rewrite xorb_zeros_r by lia. reflexivity. Qed.
End Err.

(* ---- causality: the output for a prefix does not depend on what comes after it ---- *)
Section Causality.
  Variables E D : block -> block.
  Theorem causality iv c0 p0 a b :
    (exists t, cbc_enc_spec E iv (a ++ b) = cbc_enc_spec E iv a ++ t) /\
    (exists t, cbc_dec_spec D iv (a ++ b) = cbc_dec_spec D iv a ++ t) /\
    (exists t, pcbc_enc_spec E iv (a ++ b) = pcbc_enc_spec E iv a ++ t) /\
    (exists t, pcbc_dec_spec D iv (a ++ b) = pcbc_dec_spec D iv a ++ t) /\
    (exists t, ige_enc_spec E c0 p0 (a ++ b) = ige_enc_spec E c0 p0 a ++ t) /\
    (exists t, ige_dec_spec D c0 p0 (a ++ b) = ige_dec_spec D c0 p0 a ++ t) /\
    (exists t, cfb_enc_spec E iv (a ++ b) = cfb_enc_spec E iv a ++ t) /\
    (exists t, cfb_dec_spec E iv (a ++ b) = cfb_dec_spec E iv a ++ t) /\
    (exists t, ofb_spec E iv (a ++ b) = ofb_spec E iv a ++ t).
  Proof.
    repeat split; eexists;
      first [apply cbc_enc_app | apply cbc_dec_app | apply pcbc_enc_app | apply pcbc_dec_app | apply ige_enc_app
            | apply ige_dec_app | apply cfb_enc_app | apply cfb_dec_app | apply ofb_app].
  Qed.

  Theorem causality_cfb8 s (a b : list N) :
    (exists t, cfb8_enc_spec E s (a ++ b) = cfb8_enc_spec E s a ++ t) /\
    (exists t, cfb8_dec_spec E s (a ++ b) = cfb8_dec_spec E s a ++ t).
  Proof. split; eexists; [apply cfb8_enc_app | apply cfb8_dec_app]. Qed.
End Causality.
