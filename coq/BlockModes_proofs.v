(* BlockModes_proofs.v -- the block-level models equal their textbook recurrences, for every
   schedule of calls, every parallel width, in place or buffer to buffer, with no hypothesis on the
   cipher (in particular none relating D to E). *)
From BM Require Import BlockModes Spec.

Lemma map2_wr_out_cons c cs v vs : map2 wr_out (c :: cs) (v :: vs) = wr_out c v :: map2 wr_out cs vs.
Proof. reflexivity. Qed.

Lemma map_cout_map2_wr_out cs vs : length cs = length vs -> map cout (map2 wr_out cs vs) = vs.
Proof. revert vs; induction cs as [|c cs IH]; intros [|v vs] H; simpl in *; try discriminate; auto.
  rewrite IH; auto. Qed.

Lemma map_cin_map2_wr_out cs vs : length cs = length vs -> map cin (map2 wr_out cs vs) = map cin cs.
Proof. revert vs; induction cs as [|c cs IH]; intros [|v vs] H; simpl in *; try discriminate; auto.
  rewrite IH; auto. Qed.

Lemma map_alias_map2_wr_out cs vs : length cs = length vs -> map alias (map2 wr_out cs vs) = map alias cs.
Proof. revert vs; induction cs as [|c cs IH]; intros [|v vs] H; simpl in *; try discriminate; auto.
  rewrite IH; auto. Qed.

Section Proofs.
  Variable C : cipher.
  Let E := c_E C.
  Let D := c_D C.
  Let w := c_w C.

  (* ================================ CBC ================================ *)
  Lemma cbc_enc_fold iv cs :
    fold_cells (cbc_enc_block C) iv cs =
    (cbc_chain iv (cbc_enc_spec E iv (map rd_in cs)), map2 wr_out cs (cbc_enc_spec E iv (map rd_in cs))).
  Proof.
    revert iv; induction cs as [|c cs IH]; intros iv; [reflexivity|].
    cbn [fold_cells map cbc_enc_spec]. unfold cbc_enc_block at 1. rewrite IH.
    unfold cbc_chain. rewrite last_cons_default. reflexivity.
  Qed.

  Lemma cbc_dec_fold iv cs :
    fold_cells (cbc_dec_block C) iv cs =
    (cbc_chain iv (map rd_in cs), map2 wr_out cs (cbc_dec_spec D iv (map rd_in cs))).
  Proof.
    revert iv; induction cs as [|c cs IH]; intros iv; [reflexivity|].
    cbn [fold_cells map cbc_dec_spec]. unfold cbc_dec_block at 1. rewrite IH.
    unfold cbc_chain. rewrite last_cons_default. reflexivity.
  Qed.

  Lemma cbc_dec_spec_zip iv ins : map2 xorb (map D ins) (iv :: ins) = cbc_dec_spec D iv ins.
  Proof. revert iv; induction ins as [|x ins IH]; intros iv; simpl; auto. now rewrite IH. Qed.

  (* the hand-written parallel body of cbc::Decryptor is the single-block loop *)
  Lemma cbc_dec_par_ok iv cs : cbc_dec_par C iv cs = fold_cells (cbc_dec_block C) iv cs.
  Proof. rewrite cbc_dec_fold. unfold cbc_dec_par, cbc_chain. now rewrite cbc_dec_spec_zip. Qed.

  Theorem cbc_enc_sched sched iv cs : sched_total sched = length cs ->
    run_sched (cbc_enc_block C) cbc_enc_w (cbc_enc_par C) iv sched cs =
    (cbc_chain iv (cbc_enc_spec E iv (map rd_in cs)), map2 wr_out cs (cbc_enc_spec E iv (map rd_in cs))).
  Proof. intros H. rewrite run_sched_fold; auto using cbc_enc_fold. Qed.

  Theorem cbc_dec_sched sched iv cs : sched_total sched = length cs ->
    run_sched (cbc_dec_block C) (cbc_dec_w C) (cbc_dec_par C) iv sched cs =
    (cbc_chain iv (map rd_in cs), map2 wr_out cs (cbc_dec_spec D iv (map rd_in cs))).
  Proof. intros H. rewrite run_sched_fold; auto using cbc_dec_fold. intros; apply cbc_dec_par_ok. Qed.

  (* ================================ PCBC ================================ *)
  Lemma pcbc_enc_fold s cs :
    fold_cells (pcbc_enc_block C) s cs =
    (pcbc_chain s (map rd_in cs) (pcbc_enc_spec E s (map rd_in cs)),
     map2 wr_out cs (pcbc_enc_spec E s (map rd_in cs))).
  Proof.
    revert s; induction cs as [|c cs IH]; intros s; [reflexivity|].
    cbn [fold_cells map pcbc_enc_spec pcbc_chain]. unfold pcbc_enc_block at 1. rewrite IH. reflexivity.
  Qed.

  Lemma pcbc_dec_fold s cs :
    fold_cells (pcbc_dec_block C) s cs =
    (pcbc_chain s (pcbc_dec_spec D s (map rd_in cs)) (map rd_in cs),
     map2 wr_out cs (pcbc_dec_spec D s (map rd_in cs))).
  Proof.
    revert s; induction cs as [|c cs IH]; intros s; [reflexivity|].
    cbn [fold_cells map pcbc_dec_spec pcbc_chain]. unfold pcbc_dec_block at 1.
    rewrite (xorb_comm (rd_in c)). rewrite IH. reflexivity.
  Qed.

  Theorem pcbc_enc_sched sched s cs : sched_total sched = length cs ->
    run_sched (pcbc_enc_block C) pcbc_enc_w (pcbc_enc_par C) s sched cs =
    (pcbc_chain s (map rd_in cs) (pcbc_enc_spec E s (map rd_in cs)),
     map2 wr_out cs (pcbc_enc_spec E s (map rd_in cs))).
  Proof. intros H. rewrite run_sched_fold; auto using pcbc_enc_fold. Qed.

  Theorem pcbc_dec_sched sched s cs : sched_total sched = length cs ->
    run_sched (pcbc_dec_block C) pcbc_dec_w (pcbc_dec_par C) s sched cs =
    (pcbc_chain s (pcbc_dec_spec D s (map rd_in cs)) (map rd_in cs),
     map2 wr_out cs (pcbc_dec_spec D s (map rd_in cs))).
  Proof. intros H. rewrite run_sched_fold; auto using pcbc_dec_fold. Qed.

  (* ================================ IGE ================================ *)
  (* state after: x = last plaintext (P_n), y = last ciphertext (C_n) *)
  Lemma ige_enc_fold x y cs :
    fold_cells (ige_enc_block C) (x, y) cs =
    ((last (map rd_in cs) x, last (ige_enc_spec E y x (map rd_in cs)) y),
     map2 wr_out cs (ige_enc_spec E y x (map rd_in cs))).
  Proof.
    revert x y; induction cs as [|c cs IH]; intros x y; [reflexivity|].
    cbn [fold_cells map ige_enc_spec]. unfold ige_enc_block at 1. rewrite IH.
    rewrite !last_cons_default. reflexivity.
  Qed.

  Lemma ige_dec_fold x y cs :
    fold_cells (ige_dec_block C) (x, y) cs =
    ((last (ige_dec_spec D y x (map rd_in cs)) x, last (map rd_in cs) y),
     map2 wr_out cs (ige_dec_spec D y x (map rd_in cs))).
  Proof.
    revert x y; induction cs as [|c cs IH]; intros x y; [reflexivity|].
    cbn [fold_cells map ige_dec_spec]. unfold ige_dec_block at 1. rewrite IH.
    rewrite !last_cons_default. reflexivity.
  Qed.

  Theorem ige_enc_sched sched x y cs : sched_total sched = length cs ->
    run_sched (ige_enc_block C) ige_enc_w (ige_enc_par C) (x, y) sched cs =
    ((last (map rd_in cs) x, last (ige_enc_spec E y x (map rd_in cs)) y),
     map2 wr_out cs (ige_enc_spec E y x (map rd_in cs))).
  Proof. intros H. rewrite run_sched_fold; auto using ige_enc_fold. Qed.

  Theorem ige_dec_sched sched x y cs : sched_total sched = length cs ->
    run_sched (ige_dec_block C) ige_dec_w (ige_dec_par C) (x, y) sched cs =
    ((last (ige_dec_spec D y x (map rd_in cs)) x, last (map rd_in cs) y),
     map2 wr_out cs (ige_dec_spec D y x (map rd_in cs))).
  Proof. intros H. rewrite run_sched_fold; auto using ige_dec_fold. Qed.

  (* the double-length IV is C_0 || P_0 *)
  Lemma ige_init_split c0 p0 : length c0 = c_bs C -> ige_init C (c0 ++ p0) = (p0, c0).
  Proof. intros H. unfold ige_init. now rewrite skipn_app_exact, firstn_app_exact by auto. Qed.

  Lemma ige_iv_state_eq x y : ige_iv_state (x, y) = y ++ x.
  Proof. reflexivity. Qed.
End Proofs.
