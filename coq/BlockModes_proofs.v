(* BlockModes_proofs.v -- the block-level models equal their textbook recurrences, for every
   schedule of calls, every parallel width, in place or buffer to buffer, with no hypothesis on the
   cipher (in particular none relating D to E). *)
From BM Require Import BlockModes Spec.

Lemma map2_wr_out_cons c cs v vs : map2 wr_out (c :: cs) (v :: vs) = wr_out c v :: map2 wr_out cs vs.
Proof. reflexivity. Qed.

Lemma map_cout_map2_wr_out cs vs : length cs = length vs -> map cout (map2 wr_out cs vs) = vs.
Proof. revert vs; induction cs as [|c cs IH]; intros [|v vs] H; simpl in *; try discriminate; auto.
  rewrite IH; auto. Qed.

Lemma map_cin_map2_wr_out cs vs : length cs = length vs -> map cin (map2 wr_out cs vs) = map cin cs.
Proof. revert vs; induction cs as [|c cs IH]; intros [|v vs] H; simpl in *; try discriminate; auto.
  rewrite IH; auto. Qed.

Lemma map_alias_map2_wr_out cs vs : length cs = length vs -> map alias (map2 wr_out cs vs) = map alias cs.
Proof. revert vs; induction cs as [|c cs IH]; intros [|v vs] H; simpl in *; try discriminate; auto.
  rewrite IH; auto. Qed.

Section Proofs.
  Variable C : cipher.
  Let E := c_E C.
  Let D := c_D C.
  Let w := c_w C.

  (* ================================ CBC ================================ *)
  Lemma cbc_enc_fold iv cs :
    fold_cells (cbc_enc_block C) iv cs =
    (cbc_chain iv (cbc_enc_spec E iv (map rd_in cs)), map2 wr_out cs (cbc_enc_spec E iv (map rd_in cs))).
  Proof.
    revert iv; induction cs as [|c cs IH]; intros iv; [reflexivity|].
    cbn [fold_cells map cbc_enc_spec]. unfold cbc_enc_block at 1. rewrite IH.
    unfold cbc_chain. rewrite last_cons_default. reflexivity.
  Qed.

  Lemma cbc_dec_fold iv cs :
    fold_cells (cbc_dec_block C) iv cs =
    (cbc_chain iv (map rd_in cs), map2 wr_out cs (cbc_dec_spec D iv (map rd_in cs))).
  Proof.
    revert iv; induction cs as [|c cs IH]; intros iv; [reflexivity|].
    cbn [fold_cells map cbc_dec_spec]. unfold cbc_dec_block at 1. rewrite IH.
    unfold cbc_chain. rewrite last_cons_default. reflexivity.
  Qed.

  Lemma cbc_dec_spec_zip iv ins : map2 xorb (map D ins) (iv :: ins) = cbc_dec_spec D iv ins.
  Proof. revert iv; induction ins as [|x ins IH]; intros iv; simpl; auto. now rewrite IH. Qed.

  (* the hand-written parallel body of cbc::Decryptor is the single-block loop *)
  Lemma cbc_dec_par_ok iv cs : cbc_dec_par C iv cs = fold_cells (cbc_dec_block C) iv cs.
  Proof. rewrite cbc_dec_fold. unfold cbc_dec_par, cbc_chain. now rewrite cbc_dec_spec_zip. Qed.

  Theorem cbc_enc_sched sched iv cs : sched_total sched = length cs ->
    run_sched (cbc_enc_block C) cbc_enc_w (cbc_enc_par C) iv sched cs =
    (cbc_chain iv (cbc_enc_spec E iv (map rd_in cs)), map2 wr_out cs (cbc_enc_spec E iv (map rd_in cs))).
  Proof. intros H. rewrite run_sched_fold; auto using cbc_enc_fold. Qed.

  Theorem cbc_dec_sched sched iv cs : sched_total sched = length cs ->
    run_sched (cbc_dec_block C) (cbc_dec_w C) (cbc_dec_par C) iv sched cs =
    (cbc_chain iv (map rd_in cs), map2 wr_out cs (cbc_dec_spec D iv (map rd_in cs))).
  Proof. intros H. rewrite run_sched_fold; auto using cbc_dec_fold. intros; apply cbc_dec_par_ok. Qed.

  (* ================================ PCBC ================================ *)
  Lemma pcbc_enc_fold s cs :
    fold_cells (pcbc_enc_block C) s cs =
    (pcbc_chain s (map rd_in cs) (pcbc_enc_spec E s (map rd_in cs)),
     map2 wr_out cs (pcbc_enc_spec E s (map rd_in cs))).
  Proof.
    revert s; induction cs as [|c cs IH]; intros s; [reflexivity|].
    cbn [fold_cells map pcbc_enc_spec pcbc_chain]. unfold pcbc_enc_block at 1. rewrite IH. reflexivity.
  Qed.

  Lemma pcbc_dec_fold s cs :
    fold_cells (pcbc_dec_block C) s cs =
    (pcbc_chain s (pcbc_dec_spec D s (map rd_in cs)) (map rd_in cs),
     map2 wr_out cs (pcbc_dec_spec D s (map rd_in cs))).
  Proof.
    revert s; induction cs as [|c cs IH]; intros s; [reflexivity|].
    cbn [fold_cells map pcbc_dec_spec pcbc_chain]. unfold pcbc_dec_block at 1.
    rewrite (xorb_comm (rd_in c)). rewrite IH. reflexivity.
  Qed.

  Theorem pcbc_enc_sched sched s cs : sched_total sched = length cs ->
    run_sched (pcbc_enc_block C) pcbc_enc_w (pcbc_enc_par C) s sched cs =
    (pcbc_chain s (map rd_in cs) (pcbc_enc_spec E s (map rd_in cs)),
     map2 wr_out cs (pcbc_enc_spec E s (map rd_in cs))).
  Proof. intros H. rewrite run_sched_fold; auto using pcbc_enc_fold. Qed.

  Theorem pcbc_dec_sched sched s cs : sched_total sched = length cs ->
    run_sched (pcbc_dec_block C) pcbc_dec_w (pcbc_dec_par C) s sched cs =
    (pcbc_chain s (pcbc_dec_spec D s (map rd_in cs)) (map rd_in cs),
     map2 wr_out cs (pcbc_dec_spec D s (map rd_in cs))).
  Proof. intros H. rewrite run_sched_fold; auto using pcbc_dec_fold. Qed.

  (* ================================ IGE ================================ *)
  (* state after: x = last plaintext (P_n), y = last ciphertext (C_n) *)
  Lemma ige_enc_fold x y cs :
    fold_cells (ige_enc_block C) (x, y) cs =
    ((last (map rd_in cs) x, last (ige_enc_spec E y x (map rd_in cs)) y),
     map2 wr_out cs (ige_enc_spec E y x (map rd_in cs))).
  Proof.
    revert x y; induction cs as [|c cs IH]; intros x y; [reflexivity|].
    cbn [fold_cells map ige_enc_spec]. unfold ige_enc_block at 1. rewrite IH.
    rewrite !last_cons_default. reflexivity.
  Qed.

  Lemma ige_dec_fold x y cs :
    fold_cells (ige_dec_block C) (x, y) cs =
    ((last (ige_dec_spec D y x (map rd_in cs)) x, last (map rd_in cs) y),
     map2 wr_out cs (ige_dec_spec D y x (map rd_in cs))).
  Proof.
    revert x y; induction cs as [|c cs IH]; intros x y; [reflexivity|].
    cbn [fold_cells map ige_dec_spec]. unfold ige_dec_block at 1. rewrite IH.
    rewrite !last_cons_default. reflexivity.
  Qed.

  Theorem ige_enc_sched sched x y cs : sched_total sched = length cs ->
    run_sched (ige_enc_block C) ige_enc_w (ige_enc_par C) (x, y) sched cs =
    ((last (map rd_in cs) x, last (ige_enc_spec E y x (map rd_in cs)) y),
     map2 wr_out cs (ige_enc_spec E y x (map rd_in cs))).
  Proof. intros H. rewrite run_sched_fold; auto using ige_enc_fold. Qed.

  Theorem ige_dec_sched sched x y cs : sched_total sched = length cs ->
    run_sched (ige_dec_block C) ige_dec_w (ige_dec_par C) (x, y) sched cs =
    ((last (ige_dec_spec D y x (map rd_in cs)) x, last (map rd_in cs) y),
     map2 wr_out cs (ige_dec_spec D y x (map rd_in cs))).
  Proof. intros H. rewrite run_sched_fold; auto using ige_dec_fold. Qed.

  (* the double-length IV is C_0 || P_0 *)
  Lemma ige_init_split c0 p0 : length c0 = c_bs C -> ige_init C (c0 ++ p0) = (p0, c0).
  Proof. intros H. unfold ige_init. now rewrite skipn_app_exact, firstn_app_exact by auto. Qed.

  Lemma ige_iv_state_eq x y : ige_iv_state (x, y) = y ++ x.
  Proof. reflexivity. Qed.
End Proofs.

(* ================================ CFB, CFB-8, OFB ================================ *)
Lemma map2_xor_in2out cs ks :
  map2 xor_in2out cs ks = map2 wr_out cs (map2 xorb (map rd_in cs) ks).
Proof. revert ks; induction cs as [|c cs IH]; intros [|k ks]; simpl; auto. now rewrite IH. Qed.

Section Proofs2.
  Variable C : cipher.
  Let E := c_E C.

  Lemma cfb_enc_fold s cs :
    fold_cells (cfb_enc_block C) s cs =
    (last (map E (cfb_enc_st E s (map rd_in cs))) s, map2 wr_out cs (cfb_enc_st E s (map rd_in cs))).
  Proof.
    revert s; induction cs as [|c cs IH]; intros s; [reflexivity|].
    cbn [fold_cells map cfb_enc_st]. unfold cfb_enc_block at 1. cbn [xor_in2out rd_out wr_out cout].
    rewrite IH. rewrite last_cons_default. reflexivity.
  Qed.

  Lemma cfb_dec_fold s cs :
    fold_cells (cfb_dec_block C) s cs =
    (last (map E (map rd_in cs)) s, map2 wr_out cs (cfb_dec_st E s (map rd_in cs))).
  Proof.
    revert s; induction cs as [|c cs IH]; intros s; [reflexivity|].
    cbn [fold_cells map cfb_dec_st]. unfold cfb_dec_block at 1. cbn [xor_in2out].
    rewrite IH. rewrite last_cons_default. reflexivity.
  Qed.

  Lemma cfb_dec_st_zip s ins : map2 xorb ins (s :: map E ins) = cfb_dec_st E s ins.
  Proof. revert s; induction ins as [|x ins IH]; intros s; simpl; auto. now rewrite IH. Qed.

  (* the hand-written parallel body of cfb_mode::Decryptor is the single-block loop *)
  Lemma cfb_dec_par_ok s cs : cfb_dec_par C s cs = fold_cells (cfb_dec_block C) s cs.
  Proof. rewrite cfb_dec_fold. unfold cfb_dec_par. rewrite map2_xor_in2out, cfb_dec_st_zip. reflexivity. Qed.

  Theorem cfb_enc_sched sched s cs : sched_total sched = length cs ->
    run_sched (cfb_enc_block C) cfb_enc_w (cfb_enc_par C) s sched cs =
    (last (map E (cfb_enc_st E s (map rd_in cs))) s, map2 wr_out cs (cfb_enc_st E s (map rd_in cs))).
  Proof. intros H. rewrite run_sched_fold; auto using cfb_enc_fold. Qed.

  Theorem cfb_dec_sched sched s cs : sched_total sched = length cs ->
    run_sched (cfb_dec_block C) (cfb_dec_w C) (cfb_dec_par C) s sched cs =
    (last (map E (map rd_in cs)) s, map2 wr_out cs (cfb_dec_st E s (map rd_in cs))).
  Proof. intros H. rewrite run_sched_fold; auto using cfb_dec_fold. intros; apply cfb_dec_par_ok. Qed.

  (* ---- CFB-8 ---- *)
  Lemma cfb8_enc_fold s cs :
    fold_cells (cfb8_enc_block C) s cs =
    (cfb8_breg s (cfb8_enc_bspec E s (map rd_in cs)), map2 wr_out cs (cfb8_enc_bspec E s (map rd_in cs))).
  Proof.
    revert s; induction cs as [|c cs IH]; intros s; [reflexivity|].
    cbn [fold_cells map cfb8_enc_bspec cfb8_breg]. unfold cfb8_enc_block at 1. cbn [xor_in2out rd_out wr_out cout].
    rewrite IH. reflexivity.
  Qed.

  Lemma cfb8_dec_fold s cs :
    fold_cells (cfb8_dec_block C) s cs =
    (cfb8_breg s (map rd_in cs), map2 wr_out cs (cfb8_dec_bspec E s (map rd_in cs))).
  Proof.
    revert s; induction cs as [|c cs IH]; intros s; [reflexivity|].
    cbn [fold_cells map cfb8_dec_bspec cfb8_breg]. unfold cfb8_dec_block at 1. cbn [xor_in2out].
    rewrite IH. reflexivity.
  Qed.

  Theorem cfb8_enc_sched sched s cs : sched_total sched = length cs ->
    run_sched (cfb8_enc_block C) cfb8_enc_w (cfb8_enc_par C) s sched cs =
    (cfb8_breg s (cfb8_enc_bspec E s (map rd_in cs)), map2 wr_out cs (cfb8_enc_bspec E s (map rd_in cs))).
  Proof. intros H. rewrite run_sched_fold; auto using cfb8_enc_fold. Qed.

  Theorem cfb8_dec_sched sched s cs : sched_total sched = length cs ->
    run_sched (cfb8_dec_block C) cfb8_dec_w (cfb8_dec_par C) s sched cs =
    (cfb8_breg s (map rd_in cs), map2 wr_out cs (cfb8_dec_bspec E s (map rd_in cs))).
  Proof. intros H. rewrite run_sched_fold; auto using cfb8_dec_fold. Qed.

  (* one-byte blocks: the block-level recurrence is the byte-level one of the property statement *)
  Definition singles (l : list N) : list block := map (fun b => [b]) l.

  Hypothesis E_len : forall x, length x = c_bs C -> length (E x) = c_bs C.
  Hypothesis bs_pos : 0 < c_bs C.

  Lemma firstn1_hd (x : block) : 0 < length x -> firstn 1 x = [hd 0%N x].
  Proof. destruct x; simpl; intros; [lia|reflexivity]. Qed.

  Lemma shift_length s (c : N) : length s = c_bs C -> length (skipn 1 s ++ [c]) = c_bs C.
  Proof. intros H. rewrite app_length, skipn_length. simpl. lia. Qed.

  Lemma cfb8_enc_bytes s ps : length s = c_bs C ->
    cfb8_enc_bspec E s (singles ps) = singles (cfb8_enc_spec E s ps).
  Proof.
    revert s; induction ps as [|p ps IH]; intros s Hs; [reflexivity|].
    cbn [singles map cfb8_enc_bspec cfb8_enc_spec]. rewrite firstn1_hd by (rewrite E_len; auto).
    cbn [xorb firstn]. f_equal. fold (singles ps). rewrite IH; auto using shift_length.
  Qed.

  Lemma cfb8_dec_bytes s cs : length s = c_bs C ->
    cfb8_dec_bspec E s (singles cs) = singles (cfb8_dec_spec E s cs).
  Proof.
    revert s; induction cs as [|c cs IH]; intros s Hs; [reflexivity|].
    cbn [singles map cfb8_dec_bspec cfb8_dec_spec]. rewrite firstn1_hd by (rewrite E_len; auto).
    cbn [xorb firstn]. f_equal. fold (singles cs). rewrite IH; auto using shift_length.
  Qed.

  Lemma cfb8_breg_bytes s cs : cfb8_breg s (singles cs) = cfb8_reg s cs.
  Proof. revert s; induction cs as [|c cs IH]; intros s; [reflexivity|]. cbn [singles map cfb8_breg cfb8_reg firstn]. apply IH. Qed.
End Proofs2.

Section Proofs3.
  Variable C : cipher.
  Let E := c_E C.

  (* ---- OFB ---- *)
  Lemma iter_E_shift n s : iter_E E n (E s) = E (iter_E E n s).
  Proof. induction n as [|n IH]; simpl; auto. now rewrite IH. Qed.

  Lemma ofb_enc_fold s cs :
    fold_cells (ofb_enc_block C) s cs =
    (iter_E E (length cs) s, map2 wr_out cs (ofb_spec E s (map rd_in cs))).
  Proof.
    revert s; induction cs as [|c cs IH]; intros s; [reflexivity|].
    cbn [fold_cells map ofb_spec length]. unfold ofb_enc_block at 1. cbn [xor_in2out]. rewrite IH.
    now rewrite iter_E_shift.
  Qed.

  Lemma ofb_dec_fold s cs :
    fold_cells (ofb_dec_block C) s cs =
    (iter_E E (length cs) s, map2 wr_out cs (ofb_spec E s (map rd_in cs))).
  Proof. apply ofb_enc_fold. Qed.

  Theorem ofb_enc_sched sched s cs : sched_total sched = length cs ->
    run_sched (ofb_enc_block C) ofb_w (ofb_enc_par C) s sched cs =
    (iter_E E (length cs) s, map2 wr_out cs (ofb_spec E s (map rd_in cs))).
  Proof. intros H. rewrite run_sched_fold; auto using ofb_enc_fold. Qed.

  Theorem ofb_dec_sched sched s cs : sched_total sched = length cs ->
    run_sched (ofb_dec_block C) ofb_w (ofb_dec_par C) s sched cs =
    (iter_E E (length cs) s, map2 wr_out cs (ofb_spec E s (map rd_in cs))).
  Proof. intros H. rewrite run_sched_fold; auto using ofb_dec_fold. Qed.

  (* keystream view: O_i = E^i(IV), output = input xor keystream *)
  Lemma ofb_spec_ks s ps : ofb_spec E s ps = map2 xorb ps (ofb_ks E s (length ps)).
  Proof. revert s; induction ps as [|p ps IH]; intros s; simpl; auto. now rewrite IH. Qed.

  Lemma ofb_ks_nth s n i : i < n -> nth i (ofb_ks E s n) [] = iter_E E (S i) s.
  Proof.
    revert s i; induction n as [|n IH]; intros s i H; [lia|].
    destruct i as [|i]; [reflexivity|]. cbn [ofb_ks nth]. rewrite IH by lia.
    cbn [iter_E]. now rewrite iter_E_shift.
  Qed.
End Proofs3.
