(* Inplace_proofs.v -- C12 above the block level: the byte-level front-ends (one-shot, padded, the
   twelve ciphertext-stealing bodies) write the same bytes and leave the same state whether they are
   called in place or from an input buffer into a separate output buffer with arbitrary contents. *)
From BM Require Import BlockModes Spec BlockModes_proofs Plumbing Cts Cts_mem Cts_spec Cts_cs_proofs Cts_dec_proofs
  Interp Interp_proofs Async_proofs.
From Coq Require Import Lia.

Lemma cells_of_rd (mbs : nat) (al : bool) (X Y : list N) : 0 < mbs -> length Y = length X -> (al = true -> X = Y) ->
  map rd_in (cells_of mbs al X Y) = fst (chunks mbs X) /\ snd (chunks mbs (if al then Y else X)) = snd (chunks mbs X).
Proof.
  intros Hm Hl Ha. destruct (chunks_decompose mbs X Hm) as (bl & t & E & Hbl & Ht & Hc).
  destruct (@cells_of_data unit mbs (fun _ bl => bl) Hm (fun _ _ => eq_refl) al X Y bl t E Hbl Ht Hl Ha) as (H1 & _ & H3).
  rewrite Hc. cbn [fst snd]. split; assumption.
Qed.

Section BM.
  Variable C : cipher.

  Lemma bm_blocks_input k st cs1 cs2 : map rd_in cs1 = map rd_in cs2 ->
    fst (bm_blocks C k st cs1) = fst (bm_blocks C k st cs2) /\
    map cout (snd (bm_blocks C k st cs1)) = map cout (snd (bm_blocks C k st cs2)).
  Proof. intros H. rewrite !bm_blocks_fold. now apply bm_fold_input. Qed.

  (* ---- one-shot (AsyncStreamCipher) calls, every mode the interpreter dispatches ---- *)
  Theorem async_inplace_b2b k st (inb junk : list N) : 0 < bm_mbs C k -> length junk = length inb ->
    async_inout (bm_mbs C k) (bm_single C k) (bm_blocks C k) st false inb junk =
    async_inout (bm_mbs C k) (bm_single C k) (bm_blocks C k) st true inb inb.
  Proof.
    intros Hm Hl. unfold async_inout.
    destruct (cells_of_rd (bm_mbs C k) false inb junk Hm Hl ltac:(discriminate)) as [R1 _].
    destruct (cells_of_rd (bm_mbs C k) true inb inb Hm eq_refl ltac:(reflexivity)) as [R2 _].
    change (if false then junk else inb) with inb. change (if true then inb else inb) with inb.
    destruct (bm_blocks_input k st (cells_of (bm_mbs C k) false inb junk) (cells_of (bm_mbs C k) true inb inb)) as [Hs Ho];
      [now rewrite R1, R2|].
    destruct (bm_blocks C k st (cells_of (bm_mbs C k) false inb junk)) as [s1 o1].
    destruct (bm_blocks C k st (cells_of (bm_mbs C k) true inb inb)) as [s2 o2]. cbn [fst snd] in Hs, Ho. subst s2.
    unfold outs_of. rewrite Ho. reflexivity.
  Qed.

  (* ---- padded decryption ---- *)
  Theorem dec_padded_inplace_b2b k P st (inb out : list N) : 0 < bm_mbs C k -> length inb <= length out ->
    dec_padded_b2b (bm_mbs C k) (bm_blocks C k) P st inb out = dec_padded_ip (bm_mbs C k) (bm_blocks C k) P st inb.
  Proof.
    intros Hm Hl. unfold dec_padded_b2b, dec_padded_ip.
    destruct (Nat.ltb_spec (length out) (length inb)) as [|_]; [lia|].
    unfold dec_padded_inout.
    destruct (negb (length (snd (chunks (bm_mbs C k) inb)) =? 0)); [reflexivity|].
    assert (Hfl : length (firstn (length inb) out) = length inb) by (rewrite firstn_length; lia).
    destruct (cells_of_rd (bm_mbs C k) false inb (firstn (length inb) out) Hm Hfl ltac:(discriminate)) as [R1 _].
    destruct (cells_of_rd (bm_mbs C k) true inb inb Hm eq_refl ltac:(reflexivity)) as [R2 _].
    destruct (bm_blocks_input k st (cells_of (bm_mbs C k) false inb (firstn (length inb) out)) (cells_of (bm_mbs C k) true inb inb)) as [_ Ho];
      [now rewrite R1, R2|].
    destruct (bm_blocks C k st (cells_of (bm_mbs C k) false inb (firstn (length inb) out))) as [s1 o1].
    destruct (bm_blocks C k st (cells_of (bm_mbs C k) true inb inb)) as [s2 o2]. cbn [snd] in Ho. now rewrite Ho.
  Qed.

  (* ---- padded encryption: message msg into a separate buffer out, or in place in a buffer that
     starts with msg and has the same length as out ---- *)
  Theorem enc_padded_inplace_b2b k P st (msg rest out : list N) : 0 < bm_mbs C k -> length out = length (msg ++ rest) ->
    enc_padded_b2b (bm_mbs C k) (bm_single C k) (bm_blocks C k) P st msg out =
    enc_padded_ip (bm_mbs C k) (bm_single C k) (bm_blocks C k) P st (msg ++ rest) (length msg).
  Proof.
    intros Hm Hl. unfold enc_padded_b2b, enc_padded_ip. rewrite Hl, app_length.
    destruct (Nat.ltb_spec (length msg + length rest) (length msg)) as [|_]; [lia|].
    rewrite firstn_app_exact by reflexivity. unfold enc_padded_inout.
    set (mbs := bm_mbs C k) in *. set (blen := mbs * (length msg / mbs)).
    assert (Hbl : blen <= length msg) by (subst blen; apply Nat.mul_div_le; lia).
    assert (Hf1 : firstn blen (msg ++ rest) = firstn blen msg).
    { rewrite firstn_app. replace (blen - length msg) with 0 by lia. cbn [firstn]. now rewrite app_nil_r. }
    rewrite Hf1.
    assert (Hfl : length (firstn blen out) = length (firstn blen msg)).
    { rewrite !firstn_length, Hl, app_length. lia. }
    destruct (cells_of_rd mbs false (firstn blen msg) (firstn blen out) Hm Hfl ltac:(discriminate)) as [R1 _].
    destruct (cells_of_rd mbs true (firstn blen msg) (firstn blen msg) Hm eq_refl ltac:(reflexivity)) as [R2 _].
    destruct (bm_blocks_input k st (cells_of mbs false (firstn blen msg) (firstn blen out))
                (cells_of mbs true (firstn blen msg) (firstn blen msg))) as [Hs Ho]; [now rewrite R1, R2|].
    destruct (bm_blocks C k st (cells_of mbs false (firstn blen msg) (firstn blen out))) as [s1 o1].
    destruct (bm_blocks C k st (cells_of mbs true (firstn blen msg) (firstn blen msg))) as [s2 o2].
    cbn [fst snd] in Hs, Ho. subst s2. unfold outs_of. rewrite Ho.
    destruct P.
    - rewrite Hl, !app_length.
      destruct (length msg + length rest <? blen + mbs); [reflexivity|].
      rewrite firstn_app_exact by reflexivity.
      match goal with
      | |- (let '(_, x1) := bm_single C k s1 ?c1 in _) = (let '(_, x2) := bm_single C k s1 ?c2 in _) =>
          destruct (bm_single_input C k s1 c1 c2 eq_refl) as [_ Hc];
          destruct (bm_single C k s1 c1) as [t1 c1']; destruct (bm_single C k s1 c2) as [t2 c2']
      end.
      cbn [snd] in Hc. now rewrite Hc.
    - reflexivity.
  Qed.
End BM.

(* ---- ciphertext stealing: the output is a function of the logical input alone ---- *)
Section CtsDet.
  Variable C : cipher.
  Hypothesis Cwf : cipher_wf C.
  Let bs := c_bs C.

  Ltac two H1 H2 := destruct H1 as (m1' & E1 & O1); destruct H2 as (m2' & E2 & O2);
                    exists m1', m2'; split; [exact E1|]; split; [exact E2|]; now rewrite O1, O2.

  Theorem cts_output_determined v enc iv m1 m2 (blocks : list block) (tail : list N) :
    length iv = bs -> msg_mem C m1 blocks tail -> msg_mem C m2 blocks tail ->
    exists m1' m2', cts_run C v enc iv m1 = Ok m1' /\ cts_run C v enc iv m2 = Ok m2' /\ m_out m1' = m_out m2'.
  Proof.
    intros Hiv H1 H2.
    pose proof (mm_tail C m1 blocks tail H1) as Ht. fold bs in Ht.
    destruct enc.
    - destruct v; cbn [cts_run].
      + two (cbc_cs1_enc_ok C Cwf iv m1 blocks tail Hiv H1) (cbc_cs1_enc_ok C Cwf iv m2 blocks tail Hiv H2).
      + two (cbc_cs2_enc_ok C Cwf iv m1 blocks tail Hiv H1) (cbc_cs2_enc_ok C Cwf iv m2 blocks tail Hiv H2).
      + two (cbc_cs3_enc_ok C Cwf iv m1 blocks tail Hiv H1) (cbc_cs3_enc_ok C Cwf iv m2 blocks tail Hiv H2).
      + two (ecb_cs1_enc_ok C Cwf m1 blocks tail H1) (ecb_cs1_enc_ok C Cwf m2 blocks tail H2).
      + two (ecb_cs2_enc_ok C Cwf m1 blocks tail H1) (ecb_cs2_enc_ok C Cwf m2 blocks tail H2).
      + two (ecb_cs3_enc_ok C Cwf m1 blocks tail H1) (ecb_cs3_enc_ok C Cwf m2 blocks tail H2).
    - destruct v; cbn [cts_run].
      + destruct tail as [|t0 tail'].
        * destruct (msg_to_seg_whole C Cwf m1 blocks H1) as [S1 Hne]. destruct (msg_to_seg_whole C Cwf m2 blocks H2) as [S2 _].
          two (cbc_cs1_dec_whole C Cwf iv m1 blocks Hiv S1 Hne) (cbc_cs1_dec_whole C Cwf iv m2 blocks Hiv S2 Hne).
        * destruct (msg_to_seg_tail C Cwf m1 blocks _ H1) as [S1 HR]. destruct (msg_to_seg_tail C Cwf m2 blocks _ H2) as [S2 _].
          assert (Hn : 0 < length (t0 :: tail') < bs) by (simpl in *; lia).
          two (cbc_cs1_dec_steal C Cwf iv m1 _ _ _ Hiv S1 HR Hn) (cbc_cs1_dec_steal C Cwf iv m2 _ _ _ Hiv S2 HR Hn).
      + destruct tail as [|t0 tail'].
        * destruct (msg_to_seg_whole C Cwf m1 blocks H1) as [S1 Hne]. destruct (msg_to_seg_whole C Cwf m2 blocks H2) as [S2 _].
          two (cbc_cs2_dec_whole C Cwf iv m1 blocks Hiv S1 Hne) (cbc_cs2_dec_whole C Cwf iv m2 blocks Hiv S2 Hne).
        * destruct (msg_to_seg_tail C Cwf m1 blocks _ H1) as [S1 HR]. destruct (msg_to_seg_tail C Cwf m2 blocks _ H2) as [S2 _].
          assert (Hn : 0 < length (t0 :: tail') < bs) by (simpl in *; lia).
          two (cbc_cs2_dec_steal C Cwf iv m1 _ _ _ Hiv S1 HR Hn) (cbc_cs2_dec_steal C Cwf iv m2 _ _ _ Hiv S2 HR Hn).
      + destruct tail as [|t0 tail'].
        * destruct (Nat.leb_spec (length blocks) 1) as [L1|L2].
          -- pose proof (mm_nb C m1 blocks [] H1) as Hnb.
             destruct blocks as [|c [|c' bl']]; [simpl in Hnb; lia| |simpl in L1; lia].
             destruct (msg_to_seg_whole C Cwf m1 [c] H1) as [S1 _]. destruct (msg_to_seg_whole C Cwf m2 [c] H2) as [S2 _].
             two (cbc_cs3_dec_one C Cwf iv m1 c Hiv S1) (cbc_cs3_dec_one C Cwf iv m2 c Hiv S2).
          -- destruct (split_last_two blocks L2) as (pre & a & b & ->).
             pose proof (mm_blocks C m1 _ _ H1) as Hab. apply all_len_app in Hab. destruct Hab as [Hp Hab].
             pose proof (Forall_inv Hab) as Hla. pose proof (Forall_inv (Forall_inv_tail Hab)) as Hlb. cbv beta in Hla, Hlb.
             assert (S1 : seg_mem C m1 pre (a ++ b)).
             { constructor; [apply H1| |exact Hp]. rewrite (mm_src C m1 _ _ H1), concat_app. cbn [concat]. now rewrite !app_nil_r. }
             assert (S2 : seg_mem C m2 pre (a ++ b)).
             { constructor; [apply H2| |exact Hp]. rewrite (mm_src C m2 _ _ H2), concat_app. cbn [concat]. now rewrite !app_nil_r. }
             assert (HR : length (a ++ b) = bs + bs) by (rewrite app_length; fold bs in Hla, Hlb; lia).
             assert (Hn : 0 < bs <= bs) by (destruct Cwf as (Hp0 & _); fold bs in Hp0; lia).
             two (cbc_cs3_dec_steal C Cwf iv m1 pre (a ++ b) bs Hiv S1 HR Hn) (cbc_cs3_dec_steal C Cwf iv m2 pre (a ++ b) bs Hiv S2 HR Hn).
        * destruct (msg_to_seg_tail C Cwf m1 blocks _ H1) as [S1 HR]. destruct (msg_to_seg_tail C Cwf m2 blocks _ H2) as [S2 _].
          assert (Hn : 0 < length (t0 :: tail') <= bs) by (simpl in *; lia).
          two (cbc_cs3_dec_steal C Cwf iv m1 _ _ _ Hiv S1 HR Hn) (cbc_cs3_dec_steal C Cwf iv m2 _ _ _ Hiv S2 HR Hn).
      + destruct tail as [|t0 tail'].
        * destruct (msg_to_seg_whole C Cwf m1 blocks H1) as [S1 Hne]. destruct (msg_to_seg_whole C Cwf m2 blocks H2) as [S2 _].
          two (ecb_cs1_dec_whole C Cwf m1 blocks S1 Hne) (ecb_cs1_dec_whole C Cwf m2 blocks S2 Hne).
        * destruct (msg_to_seg_tail C Cwf m1 blocks _ H1) as [S1 HR]. destruct (msg_to_seg_tail C Cwf m2 blocks _ H2) as [S2 _].
          assert (Hn : 0 < length (t0 :: tail') < bs) by (simpl in *; lia).
          two (ecb_cs1_dec_steal C Cwf m1 _ _ _ S1 HR Hn) (ecb_cs1_dec_steal C Cwf m2 _ _ _ S2 HR Hn).
      + two (ecb_cs2_dec_ok C Cwf m1 blocks tail H1) (ecb_cs2_dec_ok C Cwf m2 blocks tail H2).
      + two (ecb_cs3_dec_ok C Cwf m1 blocks tail H1) (ecb_cs3_dec_ok C Cwf m2 blocks tail H2).
  Qed.

  (* in particular: the in-place call on data and the buffer-to-buffer call from data into junk *)
  Corollary cts_inplace_b2b v enc iv (data junk : list N) : length iv = bs -> bs <= length data -> length junk = length data ->
    exists o1 o2, cts_run C v enc iv (mkmem true data data) = Ok o1 /\ cts_run C v enc iv (mkmem false data junk) = Ok o2 /\
                  m_out o1 = m_out o2.
  Proof.
    intros Hiv HL Hj.
    assert (W1 : mwf (mkmem true data data)) by (split; auto).
    assert (W2 : mwf (mkmem false data junk)) by (split; [symmetry; exact Hj | discriminate]).
    destruct (mem_decomp C Cwf (mkmem true data data) W1 HL) as (blocks & tail & H1).
    assert (H2 : msg_mem C (mkmem false data junk) blocks tail).
    { destruct H1 as [_ Hs Hb Hn Ht]. constructor; auto. }
    exact (cts_output_determined v enc iv _ _ blocks tail Hiv H1 H2).
  Qed.
End CtsDet.

(* ---- keystream wrappers (CTR all flavours, BelT-CTR, OFB): one buffer-to-buffer call = the in-place
   call, output, position and core state; instances of the chunking theorems with a single piece ---- *)
From BM Require Import Toy Ints Ctr Belt Stream Stream_proofs Wrapper_proofs Wrapper_inst.

Lemma apply_all_single {St} (K : score St) wst (al : bool) (i o : list N) w out :
  apply_all K wst [(al, i, o)] = Ok (w, out) -> try_apply K wst al i o = Ok (w, out).
Proof.
  cbn [apply_all]. destruct (try_apply K wst al i o) as [[w1 o1]| |]; cbn [obind]; try discriminate.
  intros H. injection H as <- <-. now rewrite app_nil_r.
Qed.

Theorem ctr_wrapper_inplace_b2b cs be (C : cipher) (nonce : list N) : cipher_wf C -> c_bs C = cs * length nonce ->
  forall nb wst (inb junk : list N), CtrInv cs be C nonce nb wst -> length inb = length junk ->
  let K := kscore C (SCtr cs be) in
  (N.of_nat (length inb) <= usize_max)%N -> fits K (ctr_limit cs) nb (wr_pos wst) (length inb) ->
  exists w1 w2 out, try_apply K wst false inb junk = Ok (w1, out) /\ try_apply K wst true inb inb = Ok (w2, out) /\
                    wr_pos w1 = wr_pos w2 /\ wr_core w1 = wr_core w2.
Proof.
  intros Cwf Hbs nb wst inb junk HI Hl K Hu Hf.
  destruct (ctr_chunking cs be C nonce Cwf Hbs [(false, inb, junk)] nb wst HI) as (w1 & w2 & out & E1 & E2 & Hp & Hc).
  - constructor; [|constructor]. cbn [piece_ok]. split; [exact Hl|discriminate].
  - cbn [map concat piece_src]. now rewrite app_nil_r.
  - cbn [map concat piece_src]. now rewrite app_nil_r.
  - cbn [map concat piece_src] in E2. rewrite app_nil_r in E2.
    exists w1, w2, out. repeat split; auto. now apply apply_all_single.
Qed.

Theorem belt_wrapper_inplace_b2b (C : cipher) si : cipher_wf C -> c_bs C = 16 -> (si < pow2 128)%N ->
  forall nb wst (inb junk : list N), BeltInv C si nb wst -> length inb = length junk ->
  let K := kscore C SBelt in
  (N.of_nat (length inb) <= usize_max)%N -> fits K belt_limit nb (wr_pos wst) (length inb) ->
  exists w1 w2 out, try_apply K wst false inb junk = Ok (w1, out) /\ try_apply K wst true inb inb = Ok (w2, out) /\
                    wr_pos w1 = wr_pos w2 /\ wr_core w1 = wr_core w2.
Proof.
  intros Cwf Hbs Hsi nb wst inb junk HI Hl K Hu Hf.
  destruct (belt_chunking C si Cwf Hbs Hsi [(false, inb, junk)] nb wst HI) as (w1 & w2 & out & E1 & E2 & Hp & Hc).
  - constructor; [|constructor]. cbn [piece_ok]. split; [exact Hl|discriminate].
  - cbn [map concat piece_src]. now rewrite app_nil_r.
  - cbn [map concat piece_src]. now rewrite app_nil_r.
  - cbn [map concat piece_src] in E2. rewrite app_nil_r in E2.
    exists w1, w2, out. repeat split; auto. now apply apply_all_single.
Qed.

Theorem ofb_wrapper_inplace_b2b (C : cipher) iv : cipher_wf C -> length iv = c_bs C ->
  forall nb wst (inb junk : list N), OfbInv C iv nb wst -> length inb = length junk ->
  let K := kscore C SOfb in
  (N.of_nat (length inb) <= usize_max)%N ->
  exists w1 w2 out, try_apply K wst false inb junk = Ok (w1, out) /\ try_apply K wst true inb inb = Ok (w2, out) /\
                    wr_pos w1 = wr_pos w2 /\ wr_core w1 = wr_core w2.
Proof.
  intros Cwf Hiv nb wst inb junk HI Hl K Hu.
  destruct (ofb_chunking C iv Cwf Hiv [(false, inb, junk)] nb wst HI) as (w1 & w2 & out & E1 & E2 & Hp & Hc).
  - constructor; [|constructor]. cbn [piece_ok]. split; [exact Hl|discriminate].
  - cbn [map concat piece_src]. now rewrite app_nil_r.
  - cbn [map concat piece_src] in E2. rewrite app_nil_r in E2.
    exists w1, w2, out. repeat split; auto. now apply apply_all_single.
Qed.
