(* Involution_proofs.v -- C01 for the keystream ciphers: applying the keystream again from the same
   position (the decryption of a stream cipher) returns the input, for all CTR flavours, BelT-CTR, OFB. *)
From BM Require Import BlockModes Plumbing Toy Ints Ctr Belt Stream Stream_proofs Interp Wrapper_proofs Wrapper_inst.
From Coq Require Import Lia.

Lemma xor_twice (src ks : list N) : length ks = length src -> xorb (xorb src ks) ks = src.
Proof. intros H. apply xorb_cancel_r. lia. Qed.

Theorem ctr_involution cs be (C : cipher) (nonce : list N) : cipher_wf C -> c_bs C = cs * length nonce ->
  forall nb wst (al : bool) (inb outb : list N), CtrInv cs be C nonce nb wst ->
  length inb = length outb -> (al = true -> inb = outb) -> (N.of_nat (length outb) <= usize_max)%N ->
  let K := kscore C (SCtr cs be) in
  fits K (ctr_limit cs) nb (wr_pos wst) (length outb) ->
  exists w1 out, try_apply K wst al inb outb = Ok (w1, out) /\ length out = length inb /\
    exists w2, try_apply K wst true out out = Ok (w2, if al then outb else inb).
Proof.
  intros Cwf Hbs nb wst al inb outb HI Hl Ha Hu K Hf.
  destruct (ctr_apply_spec cs be C nonce Cwf Hbs nb wst al inb outb HI Hl Ha Hu) as [Hs _].
  destruct (Hs Hf) as (w1 & E1 & _). clear Hs.
  set (src := if al then outb else inb) in *.
  assert (Hsrc : length src = length outb) by (subst src; destruct al; auto).
  set (ks := take K (ctr_KB cs be C nonce) (length outb) nb (wr_pos wst)) in *.
  assert (Hks : length ks = length outb) by (subst ks; apply take_length).
  assert (Hout : length (xorb src ks) = length outb) by (rewrite xorb_length, Hsrc, Hks; apply Nat.min_id).
  exists w1, (xorb src ks). split; [exact E1|]. split; [lia|].
  destruct (ctr_apply_spec cs be C nonce Cwf Hbs nb wst true (xorb src ks) (xorb src ks) HI eq_refl ltac:(reflexivity)) as [Hs2 _];
    [rewrite Hout; exact Hu|].
  rewrite Hout in Hs2. destruct (Hs2 Hf) as (w2 & E2 & _). exists w2. etransitivity; [exact E2|]. f_equal. f_equal. apply xor_twice. rewrite take_length. lia.
Qed.

Theorem belt_involution (C : cipher) si : cipher_wf C -> c_bs C = 16 -> (si < pow2 128)%N ->
  forall nb wst (al : bool) (inb outb : list N), BeltInv C si nb wst ->
  length inb = length outb -> (al = true -> inb = outb) -> (N.of_nat (length outb) <= usize_max)%N ->
  let K := kscore C SBelt in
  fits K belt_limit nb (wr_pos wst) (length outb) ->
  exists w1 out, try_apply K wst al inb outb = Ok (w1, out) /\ length out = length inb /\
    exists w2, try_apply K wst true out out = Ok (w2, if al then outb else inb).
Proof.
  intros Cwf Hbs Hsi nb wst al inb outb HI Hl Ha Hu K Hf.
  destruct (belt_apply_spec C si Cwf Hbs Hsi nb wst al inb outb HI Hl Ha Hu) as [Hs _].
  destruct (Hs Hf) as (w1 & E1 & _). clear Hs.
  set (src := if al then outb else inb) in *.
  assert (Hsrc : length src = length outb) by (subst src; destruct al; auto).
  set (ks := take K (belt_KB C si) (length outb) nb (wr_pos wst)) in *.
  assert (Hks : length ks = length outb) by (subst ks; apply take_length).
  assert (Hout : length (xorb src ks) = length outb) by (rewrite xorb_length, Hsrc, Hks; apply Nat.min_id).
  exists w1, (xorb src ks). split; [exact E1|]. split; [lia|].
  destruct (belt_apply_spec C si Cwf Hbs Hsi nb wst true (xorb src ks) (xorb src ks) HI eq_refl ltac:(reflexivity)) as [Hs2 _];
    [rewrite Hout; exact Hu|].
  rewrite Hout in Hs2. destruct (Hs2 Hf) as (w2 & E2 & _). exists w2. etransitivity; [exact E2|]. f_equal. f_equal. apply xor_twice. rewrite take_length. lia.
Qed.

Theorem ofb_apply_ok (C : cipher) iv : cipher_wf C -> length iv = c_bs C ->
  forall nb wst (al : bool) (inb outb : list N), OfbInv C iv nb wst ->
  length inb = length outb -> (al = true -> inb = outb) -> (N.of_nat (length outb) <= usize_max)%N ->
  let K := kscore C SOfb in
  exists wst', try_apply K wst al inb outb =
    Ok (wst', xorb (if al then outb else inb) (take K (ofb_KB C iv) (length outb) nb (wr_pos wst))).
Proof.
  intros Cwf Hiv nb wst al inb outb HI Hl Ha Hu K.
  assert (bpos : 0 < sc_bs K) by (destruct Cwf as (H & _); exact H).
  unfold OfbInv in HI.
  destruct (try_apply_spec K bpos (ofb_at C iv) (ofb_KB C iv) (@None N)) with (nb := nb) (wst := wst) (al := al) (inb := inb) (outb := outb)
    as [Hs _]; auto;
    first [ apply ofb_gen_at | apply ofb_gen_closed | apply ofb_par_at | (intros pp Hpp; reflexivity)
          | (apply ofb_kb_len; assumption) | exact I | idtac ].
  all: try exact Hiv. all: try exact Cwf.
  destruct Hs as (w' & E & _); [exact I|]. exists w'. exact E.
Qed.

Theorem ofb_involution (C : cipher) iv : cipher_wf C -> length iv = c_bs C ->
  forall nb wst (al : bool) (inb outb : list N), OfbInv C iv nb wst ->
  length inb = length outb -> (al = true -> inb = outb) -> (N.of_nat (length outb) <= usize_max)%N ->
  let K := kscore C SOfb in
  exists w1 out, try_apply K wst al inb outb = Ok (w1, out) /\ length out = length inb /\
    exists w2, try_apply K wst true out out = Ok (w2, if al then outb else inb).
Proof.
  intros Cwf Hiv nb wst al inb outb HI Hl Ha Hu K.
  destruct (ofb_apply_ok C iv Cwf Hiv nb wst al inb outb HI Hl Ha Hu) as (w1 & E1).
  set (src := if al then outb else inb) in *.
  assert (Hsrc : length src = length outb) by (subst src; destruct al; auto).
  set (ks := take (kscore C SOfb) (ofb_KB C iv) (length outb) nb (wr_pos wst)) in *.
  assert (Hks : length ks = length outb) by (subst ks; apply take_length).
  assert (Hout : length (xorb src ks) = length outb) by (rewrite xorb_length, Hsrc, Hks; apply Nat.min_id).
  exists w1, (xorb src ks). split; [exact E1|]. split; [lia|].
  destruct (ofb_apply_ok C iv Cwf Hiv nb wst true (xorb src ks) (xorb src ks) HI eq_refl ltac:(reflexivity)) as (w2 & E2);
    [rewrite Hout; exact Hu|].
  rewrite Hout in E2. exists w2. etransitivity; [exact E2|]. f_equal. f_equal. apply xor_twice. rewrite take_length. lia.
Qed.
