(* C10 -- seeking and position reporting are coherent with the keystream (CTR all flavours, BelT-CTR).
   Positions are the pairs (nb, pos) of Wrapper_proofs.v; [byte_pos] is the byte offset a pair stands
   for.  (1) a seek that the counter type can represent and that stays inside the keystream puts the
   wrapper at the pair of byte offset p, from where [try_apply] (C08/C11) reads the keystream of that
   position; (2) an unrepresentable block index is an error and nothing changes; (3) the reported
   position is the byte offset, and an offset above the integer type's maximum is an error.
   Seek targets inside block index 2^w - 1 are excluded by hypothesis ([below]): known finding F2 (C11). *)
From BM Require Import BlockModes Plumbing Toy Ints Ctr Belt Stream Cts Stream_proofs Interp Interp_proofs
  Wrapper_proofs Wrapper_inst.
From Coq Require Import ZArith.

Theorem C10_ctr_seek : forall cs be (C : cipher) (nonce : list N), cipher_wf C -> c_bs C = cs * length nonce ->
  forall t nb wst p blk byte, CtrInv cs be C nonce nb wst ->
  let K := kscore C (SCtr cs be) in
  into_block_byte t (sc_ctr_bits K) p (sc_bs K) = Ok (blk, byte) ->
  (byte = 0 -> upto (ctr_limit cs) blk) -> (byte <> 0 -> below (ctr_limit cs) blk) ->
  exists wst', try_seek K t wst p = Ok wst' /\
               CtrInv cs be C nonce (if Nat.eqb byte 0 then blk else (blk + 1)%N) wst' /\
               wr_pos wst' = (if Nat.eqb byte 0 then sc_bs K else byte).
Proof. intros. eapply ctr_seek_spec; eauto. Qed.
Print Assumptions C10_ctr_seek.

Theorem C10_belt_seek : forall (C : cipher) si, cipher_wf C -> c_bs C = 16 -> (si < pow2 128)%N ->
  forall t nb wst p blk byte, BeltInv C si nb wst ->
  let K := kscore C SBelt in
  into_block_byte t (sc_ctr_bits K) p (sc_bs K) = Ok (blk, byte) ->
  (byte = 0 -> upto belt_limit blk) -> (byte <> 0 -> below belt_limit blk) ->
  exists wst', try_seek K t wst p = Ok wst' /\
               BeltInv C si (if Nat.eqb byte 0 then blk else (blk + 1)%N) wst' /\
               wr_pos wst' = (if Nat.eqb byte 0 then sc_bs K else byte).
Proof. intros. eapply belt_seek_spec; eauto. Qed.
Print Assumptions C10_belt_seek.

(* the pair reached by seek(p), p >= 0, stands for byte offset p (block sizes are at most 255) *)
Theorem C10_seek_lands_on_p : forall (St : Type) (K : score St), 0 < sc_bs K -> sc_bs K < 256 ->
  forall t p blk byte, (0 <= p)%Z ->
  into_block_byte t (sc_ctr_bits K) p (sc_bs K) = Ok (blk, byte) ->
  byte_pos K (if Nat.eqb byte 0 then blk else (blk + 1)%N) (if Nat.eqb byte 0 then sc_bs K else byte) = p.
Proof. intros St K H0 H1 t p blk byte Hp H. eapply seek_byte_pos; eauto. Qed.
Print Assumptions C10_seek_lands_on_p.

Theorem C10_seek_unrepresentable : forall (St : Type) (K : score St) t wst p,
  into_block_byte t (sc_ctr_bits K) p (sc_bs K) = Err -> try_seek K t wst p = Err.
Proof. intros. eapply try_seek_err; eauto. Qed.
Print Assumptions C10_seek_unrepresentable.

Theorem C10_ctr_position : forall cs be (C : cipher) (nonce : list N), cipher_wf C -> c_bs C = cs * length nonce ->
  forall t nb wst, CtrInv cs be C nonce nb wst ->
  let K := kscore C (SCtr cs be) in
  match try_current_pos K t wst with
  | Ok r => r = byte_pos K nb (wr_pos wst)
  | Err => True
  | Panic => False
  end /\
  ((sn_max t < byte_pos K nb (wr_pos wst))%Z -> try_current_pos K t wst = Err).
Proof. intros. eapply ctr_current_pos_spec; eauto. Qed.
Print Assumptions C10_ctr_position.

Theorem C10_belt_position : forall (C : cipher) si, cipher_wf C -> c_bs C = 16 -> (si < pow2 128)%N ->
  forall t nb wst, BeltInv C si nb wst ->
  let K := kscore C SBelt in
  match try_current_pos K t wst with
  | Ok r => r = byte_pos K nb (wr_pos wst)
  | Err => True
  | Panic => False
  end /\
  ((sn_max t < byte_pos K nb (wr_pos wst))%Z -> try_current_pos K t wst = Err).
Proof. intros. eapply belt_current_pos_spec; eauto. Qed.
Print Assumptions C10_belt_position.

(* reading advances the byte offset by the number of bytes read: the k-th byte read from (nb, pos)
   is the keystream byte at byte offset byte_pos + k *)
Theorem C10_bytes_are_positions : forall (St : Type) (K : score St), 0 < sc_bs K ->
  forall n nb pos k c, 1 <= pos <= sc_bs K -> (pos < sc_bs K -> (1 <= nb)%N) ->
  nth_error (cells_at K n nb pos) k = Some c ->
  (Z.of_N (fst c) * Z.of_nat (sc_bs K) + Z.of_nat (snd c) = byte_pos K nb pos + Z.of_nat k)%Z.
Proof. intros St K H n nb pos k c. now apply cells_byte_pos. Qed.
Print Assumptions C10_bytes_are_positions.

(* non-vacuity: a u64 seek to byte 37 of a 16-byte-block, 32-bit-counter cipher is (block 2, byte 5) *)
Example C10_into_block_byte_example : into_block_byte SN_u64 32 37 16 = Ok (2%N, 5).
Proof. reflexivity. Qed.
Print Assumptions C10_into_block_byte_example.
