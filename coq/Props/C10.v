(* C10 -- theorems to be stated here. *)
