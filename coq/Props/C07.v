(* C07 -- theorems to be stated here. *)
