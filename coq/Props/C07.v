(* C07 -- output is independent of block batching and of the cipher's parallel width.
   Generic theorem (any body whose parallel form agrees with its single-block loop), its instances
   for every block mode and direction as dispatched by the extracted interpreter, for the two
   hand-written parallel bodies, for keystream cores (CTR, BelT) and for the private helpers of cts.
   No hypothesis on the cipher, the width, the number of blocks or the schedule. *)
From BM Require Import BlockModes Spec BlockModes_proofs Plumbing Ctr Belt Stream Cts Stream_proofs Cts_proofs Interp Interp_proofs.

Theorem C07_generic : forall (S : Type) (single : S -> cell -> S * cell) (w : nat) (par : S -> list cell -> S * list cell),
  (forall st ch, length ch = w -> par st ch = fold_cells single st ch) ->
  forall sched st cs, sched_total sched = length cs ->
  run_sched single w par st sched cs = fold_cells single st cs.
Proof. intros S single w par H sched st cs. apply run_sched_fold. exact H. Qed.
Print Assumptions C07_generic.

(* all twelve block-mode backends (cbc, pcbc, ige, cfb, cfb8, ofb x enc, dec): any schedule of
   single-block and multi-block calls = one block at a time, same final state *)
Theorem C07_block_modes : forall (C : cipher) (k : bkind) sched st cs, sched_total sched = length cs ->
  run_sched (bm_single C k) (bm_w C k) (bm_par C k) st sched cs = fold_cells (bm_single C k) st cs.
Proof. exact bm_sched_fold. Qed.
Print Assumptions C07_block_modes.

Theorem C07_cbc_dec_par : forall (C : cipher) iv cs, cbc_dec_par C iv cs = fold_cells (cbc_dec_block C) iv cs.
Proof. exact cbc_dec_par_ok. Qed.
Print Assumptions C07_cbc_dec_par.

Theorem C07_cfb_dec_par : forall (C : cipher) s cs, cfb_dec_par C s cs = fold_cells (cfb_dec_block C) s cs.
Proof. exact cfb_dec_par_ok. Qed.
Print Assumptions C07_cfb_dec_par.

(* keystream cores: n blocks through groups of w (gen_par_ks_blocks) and a tail (gen_tail_blocks)
   = n single generations *)
Theorem C07_core_generic : forall (St : Type) (K : score St) (P : St -> Prop),
  (forall st, P st -> P (fst (sc_gen K st))) ->
  (1 < sc_w K -> forall st, P st -> sc_gen_par K st = gen_n K (sc_w K) st) ->
  forall n st, P st -> ks_blocks K n st = gen_n K n st.
Proof. intros St K P H1 H2 n st. apply ks_blocks_gen_n; auto. Qed.
Print Assumptions C07_core_generic.

(* ... instantiated for the cores the interpreter dispatches to *)
Theorem C07_cores : forall (C : cipher),
  (forall cs be n cn, ks_blocks (kscore C (SCtr cs be)) n (CCtr cn) = gen_n (kscore C (SCtr cs be)) n (CCtr cn)) /\
  (forall n st, ks_blocks (kscore C SBelt) n (CBelt st) = gen_n (kscore C SBelt) n (CBelt st)) /\
  (forall n iv, ks_blocks (kscore C SOfb) n (COfb iv) = gen_n (kscore C SOfb) n (COfb iv)).
Proof. exact kscore_ks_blocks. Qed.
Print Assumptions C07_cores.

Theorem C07_ctr_par : forall (F : flavor) (C : cipher) cn, ctr_gen_par F C cn = ctr_gen_n F C (c_w C) cn.
Proof. exact ctr_gen_par_ok. Qed.
Print Assumptions C07_ctr_par.

Theorem C07_belt_par : forall (C : cipher) st, belt_gen_par C st = belt_gen_n C (c_w C) st.
Proof. exact belt_gen_par_ok. Qed.
Print Assumptions C07_belt_par.

(* cts helpers: width-free *)
Theorem C07_cts_cbc_dec : forall (C : cipher) iv cs,
  cts_cbc_dec C iv cs = (cbc_chain iv (map rd_in cs), map2 wr_out cs (cbc_dec_spec (c_D C) iv (map rd_in cs))).
Proof. exact cts_cbc_dec_eq. Qed.
Print Assumptions C07_cts_cbc_dec.

Theorem C07_cts_ecb : forall (C : cipher) st cs,
  cts_ecb_enc C st cs = (tt, map2 wr_out cs (map (c_E C) (map rd_in cs))) /\
  cts_ecb_dec C st cs = (tt, map2 wr_out cs (map (c_D C) (map rd_in cs))).
Proof. intros C st cs. split; [apply cts_ecb_enc_eq | apply cts_ecb_dec_eq]. Qed.
Print Assumptions C07_cts_ecb.

(* non-vacuity: a schedule of three pieces over five cells meets the hypothesis *)
Example C07_sched_example : sched_total [CMulti 2; CSingle; CMulti 2] = 5.
Proof. reflexivity. Qed.
Print Assumptions C07_sched_example.
