(* C01 -- decryption inverts encryption; unpadded operations preserve length.
   Block level (this file, part 1): for every cipher with well-formed sizes, every key (the cipher
   is a parameter), every IV and every block sequence, decrypting under ANY schedule what was
   encrypted under ANY other schedule, in place or buffer-to-buffer, returns the original blocks.
   CBC/PCBC/IGE need D(E x) = x; CFB/CFB-8/OFB need nothing (E arbitrary). *)
From BM Require Import BlockModes Spec BlockModes_proofs Spec_proofs RoundTrip_proofs Outcome Cts Cts_mem Cts_spec Cts_cs_proofs Cts_dec_proofs
  Plumbing Toy Ints Ctr Belt Stream Stream_proofs Interp Wrapper_proofs Wrapper_inst Involution_proofs Padded_proofs Toy_proofs.

Theorem C01_cbc : forall C : cipher, cipher_wf C -> DE_id C -> forall sched1 sched2 iv cs cs2,
  length iv = c_bs C -> all_len (c_bs C) (map rd_in cs) ->
  sched_total sched1 = length cs -> sched_total sched2 = length cs2 ->
  map rd_in cs2 = map cout (snd (run_sched (cbc_enc_block C) cbc_enc_w (cbc_enc_par C) iv sched1 cs)) ->
  map cout (snd (run_sched (cbc_dec_block C) (cbc_dec_w C) (cbc_dec_par C) iv sched2 cs2)) = map rd_in cs.
Proof. exact cbc_model_roundtrip. Qed.
Print Assumptions C01_cbc.

Theorem C01_pcbc : forall C : cipher, cipher_wf C -> DE_id C -> forall sched1 sched2 iv cs cs2,
  length iv = c_bs C -> all_len (c_bs C) (map rd_in cs) ->
  sched_total sched1 = length cs -> sched_total sched2 = length cs2 ->
  map rd_in cs2 = map cout (snd (run_sched (pcbc_enc_block C) pcbc_enc_w (pcbc_enc_par C) iv sched1 cs)) ->
  map cout (snd (run_sched (pcbc_dec_block C) pcbc_dec_w (pcbc_dec_par C) iv sched2 cs2)) = map rd_in cs.
Proof. exact pcbc_model_roundtrip. Qed.
Print Assumptions C01_pcbc.

Theorem C01_ige : forall C : cipher, cipher_wf C -> DE_id C -> forall sched1 sched2 x y cs cs2,
  length x = c_bs C -> length y = c_bs C -> all_len (c_bs C) (map rd_in cs) ->
  sched_total sched1 = length cs -> sched_total sched2 = length cs2 ->
  map rd_in cs2 = map cout (snd (run_sched (ige_enc_block C) ige_enc_w (ige_enc_par C) (x, y) sched1 cs)) ->
  map cout (snd (run_sched (ige_dec_block C) ige_dec_w (ige_dec_par C) (x, y) sched2 cs2)) = map rd_in cs.
Proof. exact ige_model_roundtrip. Qed.
Print Assumptions C01_ige.

Theorem C01_cfb : forall C : cipher, cipher_wf C -> forall sched1 sched2 iv cs cs2,
  length iv = c_bs C -> all_len (c_bs C) (map rd_in cs) ->
  sched_total sched1 = length cs -> sched_total sched2 = length cs2 ->
  map rd_in cs2 = map cout (snd (run_sched (cfb_enc_block C) cfb_enc_w (cfb_enc_par C) (cfb_init C iv) sched1 cs)) ->
  map cout (snd (run_sched (cfb_dec_block C) (cfb_dec_w C) (cfb_dec_par C) (cfb_init C iv) sched2 cs2)) = map rd_in cs.
Proof. exact cfb_model_roundtrip. Qed.
Print Assumptions C01_cfb.

Theorem C01_cfb8 : forall C : cipher, cipher_wf C -> 0 < c_bs C -> forall sched1 sched2 s bytes cs cs2,
  length s = c_bs C -> map rd_in cs = singles bytes ->
  sched_total sched1 = length cs -> sched_total sched2 = length cs2 ->
  map rd_in cs2 = map cout (snd (run_sched (cfb8_enc_block C) cfb8_enc_w (cfb8_enc_par C) s sched1 cs)) ->
  map cout (snd (run_sched (cfb8_dec_block C) cfb8_dec_w (cfb8_dec_par C) s sched2 cs2)) = map rd_in cs.
Proof. exact cfb8_model_roundtrip. Qed.
Print Assumptions C01_cfb8.

Theorem C01_ofb : forall C : cipher, cipher_wf C -> forall sched1 sched2 iv cs cs2,
  length iv = c_bs C -> all_len (c_bs C) (map rd_in cs) ->
  sched_total sched1 = length cs -> sched_total sched2 = length cs2 ->
  map rd_in cs2 = map cout (snd (run_sched (ofb_enc_block C) ofb_w (ofb_enc_par C) iv sched1 cs)) ->
  map cout (snd (run_sched (ofb_dec_block C) ofb_w (ofb_dec_par C) iv sched2 cs2)) = map rd_in cs.
Proof. exact ofb_model_roundtrip. Qed.
Print Assumptions C01_ofb.

Theorem C01_block_lengths : forall (S : Type) (single : S -> cell -> S * cell) w par st sched cs,
  (forall st ch, length ch = w -> par st ch = fold_cells single st ch) -> sched_total sched = length cs ->
  length (snd (run_sched single w par st sched cs)) = length cs.
Proof. exact model_lengths. Qed.
Print Assumptions C01_block_lengths.

(* ciphertext stealing: decrypting what the encryptor produced gives the message back, for all six
   variants, every length >= one block, in place or buffer-to-buffer on either side (the encryptor's
   output is the layout of Cts_spec.v by Props/C05.v; here the two are composed), and the length is kept *)
Theorem C01_cts : forall (C : cipher), cipher_wf C -> DE_id C -> forall v iv m (blocks : list block) (tail : list N) m2,
  length iv = c_bs C -> msg_mem C m blocks tail -> mwf m2 ->
  exists c, cts_run C v true iv m = Ok c /\ mlen c = mlen m /\
            (msrc m2 = m_out c -> exists p, cts_run C v false iv m2 = Ok p /\ m_out p = concat blocks ++ tail).
Proof. exact cts_roundtrip_composed. Qed.
Print Assumptions C01_cts.

(* keystream ciphers (the six CTR flavours, BelT-CTR, OFB): applying the keystream again from the same
   position -- which is what decryption is -- returns the input; |output| = |input|.  From any reachable
   wrapper state (the invariants of Wrapper_inst.v), in place or buffer-to-buffer *)
Theorem C01_ctr : forall cs be (C : cipher) (nonce : list N), cipher_wf C -> c_bs C = cs * length nonce ->
  forall nb wst (al : bool) (inb outb : list N), CtrInv cs be C nonce nb wst ->
  length inb = length outb -> (al = true -> inb = outb) -> (N.of_nat (length outb) <= usize_max)%N ->
  let K := kscore C (SCtr cs be) in
  fits K (ctr_limit cs) nb (wr_pos wst) (length outb) ->
  exists w1 out, try_apply K wst al inb outb = Ok (w1, out) /\ length out = length inb /\
    exists w2, try_apply K wst true out out = Ok (w2, if al then outb else inb).
Proof. exact ctr_involution. Qed.
Print Assumptions C01_ctr.

Theorem C01_belt : forall (C : cipher) si, cipher_wf C -> c_bs C = 16 -> (si < pow2 128)%N ->
  forall nb wst (al : bool) (inb outb : list N), BeltInv C si nb wst ->
  length inb = length outb -> (al = true -> inb = outb) -> (N.of_nat (length outb) <= usize_max)%N ->
  let K := kscore C SBelt in
  fits K belt_limit nb (wr_pos wst) (length outb) ->
  exists w1 out, try_apply K wst al inb outb = Ok (w1, out) /\ length out = length inb /\
    exists w2, try_apply K wst true out out = Ok (w2, if al then outb else inb).
Proof. exact belt_involution. Qed.
Print Assumptions C01_belt.

Theorem C01_ofb_stream : forall (C : cipher) iv, cipher_wf C -> length iv = c_bs C ->
  forall nb wst (al : bool) (inb outb : list N), OfbInv C iv nb wst ->
  length inb = length outb -> (al = true -> inb = outb) -> (N.of_nat (length outb) <= usize_max)%N ->
  let K := kscore C SOfb in
  exists w1 out, try_apply K wst al inb outb = Ok (w1, out) /\ length out = length inb /\
    exists w2, try_apply K wst true out out = Ok (w2, if al then outb else inb).
Proof. exact ofb_involution. Qed.
Print Assumptions C01_ofb_stream.

(* padded path: PKCS#7-padded encryption followed by padded decryption returns the message, every length
   (the padding block is always added: |ct| = |m| + bs - |m| mod bs), each side in place or buffer-to-buffer.
   Generic over a pair of kinds whose block-level bodies invert each other from the given state ... *)
Theorem C01_padded : forall (C : cipher), cipher_wf C -> forall ke kd st (al : bool) (inb outb : list N),
  pair_ok C ke kd st ->
  length inb + (c_bs C - length inb mod c_bs C) <= length outb -> (al = true -> inb = firstn (length inb) outb) ->
  exists ct, enc_padded_inout (c_bs C) (bm_single C ke) (bm_blocks C ke) Pkcs7 st al inb outb = Ok ct /\
             length ct = length inb + (c_bs C - length inb mod c_bs C) /\
             forall (al2 : bool) (out2 : list N), length out2 = length ct -> (al2 = true -> ct = out2) ->
               dec_padded_inout (c_bs C) (bm_blocks C kd) Pkcs7 st al2 ct out2 = Ok inb.
Proof. exact padded_roundtrip. Qed.
Print Assumptions C01_padded.

(* ... which CBC, PCBC and IGE are, from every IV (given D (E x) = x), and CFB and OFB for any E *)
Theorem C01_padded_pairs : forall (C : cipher), cipher_wf C ->
  (DE_id C -> forall iv x, length iv = c_bs C -> pair_ok C KCbcE KCbcD (iv, x)) /\
  (DE_id C -> forall iv x, length iv = c_bs C -> pair_ok C KPcbcE KPcbcD (iv, x)) /\
  (DE_id C -> forall x y, length x = c_bs C -> length y = c_bs C -> pair_ok C KIgeE KIgeD (x, y)) /\
  (forall s x, length s = c_bs C -> pair_ok C KCfbE KCfbD (s, x)) /\
  (forall iv x, length iv = c_bs C -> pair_ok C KOfbE KOfbD (iv, x)).
Proof.
  intros C Hw. repeat split; intros;
    first [now apply cbc_pair_ok | now apply pcbc_pair_ok | now apply ige_pair_ok | now apply cfb_pair_ok | now apply ofb_pair_ok].
Qed.
Print Assumptions C01_padded_pairs.

(* the premises are met: every toy cipher of the correspondence harness (any block size, width, key, D-mode)
   has well-formed sizes; in the `inv` configurations its D is E^-1 on byte strings; and a cipher that is not
   the identity satisfies cipher_wf and D (E x) = x on ALL lists, as the CBC/PCBC/IGE/cts statements require *)
Theorem C01_premises_satisfiable :
  (forall bs w dm key, 0 < bs -> 0 < w -> cipher_wf (toy bs w dm key)) /\
  (forall key x, bytes_ok key -> bytes_ok x -> toyD_inv key (toyE key x) = x) /\
  (forall bs w, 0 < bs -> 0 < w -> cipher_wf (rot_cipher bs w) /\ DE_id (rot_cipher bs w)) /\
  c_E (rot_cipher 3 1) [1; 2; 3]%N = [2; 3; 1]%N.
Proof. split; [exact toy_wf|]. split; [exact toy_DE_bytes|]. split; [exact rot_cipher_ok|reflexivity]. Qed.
Print Assumptions C01_premises_satisfiable.
