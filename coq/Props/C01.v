(* C01 -- decryption inverts encryption; unpadded operations preserve length.
   Block level (this file, part 1): for every cipher with well-formed sizes, every key (the cipher
   is a parameter), every IV and every block sequence, decrypting under ANY schedule what was
   encrypted under ANY other schedule, in place or buffer-to-buffer, returns the original blocks.
   CBC/PCBC/IGE need D(E x) = x; CFB/CFB-8/OFB need nothing (E arbitrary). *)
From BM Require Import BlockModes Spec BlockModes_proofs Spec_proofs RoundTrip_proofs Outcome Cts Cts_mem Cts_spec Cts_cs_proofs Cts_dec_proofs.

Theorem C01_cbc : forall C : cipher, cipher_wf C -> DE_id C -> forall sched1 sched2 iv cs cs2,
  length iv = c_bs C -> all_len (c_bs C) (map rd_in cs) ->
  sched_total sched1 = length cs -> sched_total sched2 = length cs2 ->
  map rd_in cs2 = map cout (snd (run_sched (cbc_enc_block C) cbc_enc_w (cbc_enc_par C) iv sched1 cs)) ->
  map cout (snd (run_sched (cbc_dec_block C) (cbc_dec_w C) (cbc_dec_par C) iv sched2 cs2)) = map rd_in cs.
Proof. exact cbc_model_roundtrip. Qed.
Print Assumptions C01_cbc.

Theorem C01_pcbc : forall C : cipher, cipher_wf C -> DE_id C -> forall sched1 sched2 iv cs cs2,
  length iv = c_bs C -> all_len (c_bs C) (map rd_in cs) ->
  sched_total sched1 = length cs -> sched_total sched2 = length cs2 ->
  map rd_in cs2 = map cout (snd (run_sched (pcbc_enc_block C) pcbc_enc_w (pcbc_enc_par C) iv sched1 cs)) ->
  map cout (snd (run_sched (pcbc_dec_block C) pcbc_dec_w (pcbc_dec_par C) iv sched2 cs2)) = map rd_in cs.
Proof. exact pcbc_model_roundtrip. Qed.
Print Assumptions C01_pcbc.

Theorem C01_ige : forall C : cipher, cipher_wf C -> DE_id C -> forall sched1 sched2 x y cs cs2,
  length x = c_bs C -> length y = c_bs C -> all_len (c_bs C) (map rd_in cs) ->
  sched_total sched1 = length cs -> sched_total sched2 = length cs2 ->
  map rd_in cs2 = map cout (snd (run_sched (ige_enc_block C) ige_enc_w (ige_enc_par C) (x, y) sched1 cs)) ->
  map cout (snd (run_sched (ige_dec_block C) ige_dec_w (ige_dec_par C) (x, y) sched2 cs2)) = map rd_in cs.
Proof. exact ige_model_roundtrip. Qed.
Print Assumptions C01_ige.

Theorem C01_cfb : forall C : cipher, cipher_wf C -> forall sched1 sched2 iv cs cs2,
  length iv = c_bs C -> all_len (c_bs C) (map rd_in cs) ->
  sched_total sched1 = length cs -> sched_total sched2 = length cs2 ->
  map rd_in cs2 = map cout (snd (run_sched (cfb_enc_block C) cfb_enc_w (cfb_enc_par C) (cfb_init C iv) sched1 cs)) ->
  map cout (snd (run_sched (cfb_dec_block C) (cfb_dec_w C) (cfb_dec_par C) (cfb_init C iv) sched2 cs2)) = map rd_in cs.
Proof. exact cfb_model_roundtrip. Qed.
Print Assumptions C01_cfb.

Theorem C01_cfb8 : forall C : cipher, cipher_wf C -> 0 < c_bs C -> forall sched1 sched2 s bytes cs cs2,
  length s = c_bs C -> map rd_in cs = singles bytes ->
  sched_total sched1 = length cs -> sched_total sched2 = length cs2 ->
  map rd_in cs2 = map cout (snd (run_sched (cfb8_enc_block C) cfb8_enc_w (cfb8_enc_par C) s sched1 cs)) ->
  map cout (snd (run_sched (cfb8_dec_block C) cfb8_dec_w (cfb8_dec_par C) s sched2 cs2)) = map rd_in cs.
Proof. exact cfb8_model_roundtrip. Qed.
Print Assumptions C01_cfb8.

Theorem C01_ofb : forall C : cipher, cipher_wf C -> forall sched1 sched2 iv cs cs2,
  length iv = c_bs C -> all_len (c_bs C) (map rd_in cs) ->
  sched_total sched1 = length cs -> sched_total sched2 = length cs2 ->
  map rd_in cs2 = map cout (snd (run_sched (ofb_enc_block C) ofb_w (ofb_enc_par C) iv sched1 cs)) ->
  map cout (snd (run_sched (ofb_dec_block C) ofb_w (ofb_dec_par C) iv sched2 cs2)) = map rd_in cs.
Proof. exact ofb_model_roundtrip. Qed.
Print Assumptions C01_ofb.

Theorem C01_block_lengths : forall (S : Type) (single : S -> cell -> S * cell) w par st sched cs,
  (forall st ch, length ch = w -> par st ch = fold_cells single st ch) -> sched_total sched = length cs ->
  length (snd (run_sched single w par st sched cs)) = length cs.
Proof. exact model_lengths. Qed.
Print Assumptions C01_block_lengths.

(* ciphertext stealing: decrypting what the encryptor produced gives the message back, for all six
   variants, every length >= one block, in place or buffer-to-buffer on either side (the encryptor's
   output is the layout of Cts_spec.v by Props/C05.v; here the two are composed), and the length is kept *)
Theorem C01_cts : forall (C : cipher), cipher_wf C -> DE_id C -> forall v iv m (blocks : list block) (tail : list N) m2,
  length iv = c_bs C -> msg_mem C m blocks tail -> mwf m2 ->
  exists c, cts_run C v true iv m = Ok c /\ mlen c = mlen m /\
            (msrc m2 = m_out c -> exists p, cts_run C v false iv m2 = Ok p /\ m_out p = concat blocks ++ tail).
Proof. exact cts_roundtrip_composed. Qed.
Print Assumptions C01_cts.
