(* C01 -- placeholder until the round-trip theorems are stated here. *)
