(* C12 -- theorems to be stated here. *)
