(* C12 -- in-place and buffer-to-buffer operation give identical results.
   Block level: for every block-mode backend as dispatched by the interpreter, every schedule, the
   in-place run on data ds and the buffer-to-buffer run from ds into ANY output contents produce
   the same output blocks and leave the same chaining state.  The model's bodies are written with
   read/write primitives whose meaning depends on aliasing (Cell.v), so this is not definitional.
   Byte level: the one-shot calls, the padded calls, the twelve ciphertext-stealing bodies and the
   keystream wrappers (CTR all flavours, BelT-CTR, OFB), output AND state/position. *)
From BM Require Import BlockModes Spec BlockModes_proofs Plumbing Outcome Toy Ints Ctr Belt Stream Stream_proofs Cts Cts_mem Cts_cs_proofs
  Interp Interp_proofs Wrapper_proofs Wrapper_inst Inplace_proofs.

Theorem C12_block_modes : forall (C : cipher) (k : bkind) sched st ds junk,
  length junk = length ds -> sched_total sched = length ds ->
  let r_ip := run_sched (bm_single C k) (bm_w C k) (bm_par C k) st sched (cells_ip ds) in
  let r_b2b := run_sched (bm_single C k) (bm_w C k) (bm_par C k) st sched (cells_b2b ds junk) in
  fst r_ip = fst r_b2b /\ map cout (snd r_ip) = map cout (snd r_b2b).
Proof.
  intros C k sched st ds junk Hj Hs. cbn zeta.
  rewrite !bm_sched_fold by (unfold cells_ip; rewrite ?map_length, ?cells_b2b_length; auto).
  apply bm_fold_input. rewrite map_rd_in_ip, map_rd_in_b2b; auto.
Qed.
Print Assumptions C12_block_modes.

(* more generally: any two cell lists presenting the same logical input *)
Theorem C12_same_input : forall (C : cipher) (k : bkind) st cs1 cs2, map rd_in cs1 = map rd_in cs2 ->
  fst (fold_cells (bm_single C k) st cs1) = fst (fold_cells (bm_single C k) st cs2) /\
  map cout (snd (fold_cells (bm_single C k) st cs1)) = map cout (snd (fold_cells (bm_single C k) st cs2)).
Proof. exact bm_fold_input. Qed.
Print Assumptions C12_same_input.

(* the primitives really distinguish the two forms: a body that read its input after writing its
   output would see different data in place and buffer-to-buffer *)
Example C12_primitives_distinguish :
  rd_in (wr_out (cell_ip [1%N]) [2%N]) = [2%N] /\ rd_in (wr_out (cell_b2b [1%N] [9%N]) [2%N]) = [1%N].
Proof. split; reflexivity. Qed.
Print Assumptions C12_primitives_distinguish.

(* ---- byte-level front-ends ---- *)

(* one-shot (AsyncStreamCipher) call of any mode: output and state *)
Theorem C12_oneshot : forall (C : cipher) k st (inb junk : list N), 0 < bm_mbs C k -> length junk = length inb ->
  async_inout (bm_mbs C k) (bm_single C k) (bm_blocks C k) st false inb junk =
  async_inout (bm_mbs C k) (bm_single C k) (bm_blocks C k) st true inb inb.
Proof. exact async_inplace_b2b. Qed.
Print Assumptions C12_oneshot.

(* padded encryption of msg into a separate buffer = in place in a buffer of the same length that starts with msg *)
Theorem C12_padded_enc : forall (C : cipher) k P st (msg rest out : list N), 0 < bm_mbs C k -> length out = length (msg ++ rest) ->
  enc_padded_b2b (bm_mbs C k) (bm_single C k) (bm_blocks C k) P st msg out =
  enc_padded_ip (bm_mbs C k) (bm_single C k) (bm_blocks C k) P st (msg ++ rest) (length msg).
Proof. exact enc_padded_inplace_b2b. Qed.
Print Assumptions C12_padded_enc.

Theorem C12_padded_dec : forall (C : cipher) k P st (inb out : list N), 0 < bm_mbs C k -> length inb <= length out ->
  dec_padded_b2b (bm_mbs C k) (bm_blocks C k) P st inb out = dec_padded_ip (bm_mbs C k) (bm_blocks C k) P st inb.
Proof. exact dec_padded_inplace_b2b. Qed.
Print Assumptions C12_padded_dec.

(* ciphertext stealing, all six variants, both directions, every length >= one block (the objects hold no
   state besides key and IV): both calls succeed and write the same bytes *)
Theorem C12_cts : forall (C : cipher), cipher_wf C -> forall v enc iv (data junk : list N),
  length iv = c_bs C -> c_bs C <= length data -> length junk = length data ->
  exists o1 o2, cts_run C v enc iv (mkmem true data data) = Ok o1 /\ cts_run C v enc iv (mkmem false data junk) = Ok o2 /\
                m_out o1 = m_out o2.
Proof. exact cts_inplace_b2b. Qed.
Print Assumptions C12_cts.

(* keystream wrappers: one buffer-to-buffer call = the in-place call: output, buffer position, core state *)
Theorem C12_ctr_wrapper : forall cs be (C : cipher) (nonce : list N), cipher_wf C -> c_bs C = cs * length nonce ->
  forall nb wst (inb junk : list N), CtrInv cs be C nonce nb wst -> length inb = length junk ->
  let K := kscore C (SCtr cs be) in
  (N.of_nat (length inb) <= usize_max)%N -> fits K (ctr_limit cs) nb (wr_pos wst) (length inb) ->
  exists w1 w2 out, try_apply K wst false inb junk = Ok (w1, out) /\ try_apply K wst true inb inb = Ok (w2, out) /\
                    wr_pos w1 = wr_pos w2 /\ wr_core w1 = wr_core w2.
Proof. exact ctr_wrapper_inplace_b2b. Qed.
Print Assumptions C12_ctr_wrapper.

Theorem C12_belt_wrapper : forall (C : cipher) si, cipher_wf C -> c_bs C = 16 -> (si < pow2 128)%N ->
  forall nb wst (inb junk : list N), BeltInv C si nb wst -> length inb = length junk ->
  let K := kscore C SBelt in
  (N.of_nat (length inb) <= usize_max)%N -> fits K belt_limit nb (wr_pos wst) (length inb) ->
  exists w1 w2 out, try_apply K wst false inb junk = Ok (w1, out) /\ try_apply K wst true inb inb = Ok (w2, out) /\
                    wr_pos w1 = wr_pos w2 /\ wr_core w1 = wr_core w2.
Proof. exact belt_wrapper_inplace_b2b. Qed.
Print Assumptions C12_belt_wrapper.

Theorem C12_ofb_wrapper : forall (C : cipher) iv, cipher_wf C -> length iv = c_bs C ->
  forall nb wst (inb junk : list N), OfbInv C iv nb wst -> length inb = length junk ->
  let K := kscore C SOfb in
  (N.of_nat (length inb) <= usize_max)%N ->
  exists w1 w2 out, try_apply K wst false inb junk = Ok (w1, out) /\ try_apply K wst true inb inb = Ok (w2, out) /\
                    wr_pos w1 = wr_pos w2 /\ wr_core w1 = wr_core w2.
Proof. exact ofb_wrapper_inplace_b2b. Qed.
Print Assumptions C12_ofb_wrapper.
