(* C12 -- in-place and buffer-to-buffer operation give identical results.
   Block level: for every block-mode backend as dispatched by the interpreter, every schedule, the
   in-place run on data ds and the buffer-to-buffer run from ds into ANY output contents produce
   the same output blocks and leave the same chaining state.  The model's bodies are written with
   read/write primitives whose meaning depends on aliasing (Cell.v), so this is not definitional. *)
From BM Require Import BlockModes Spec BlockModes_proofs Plumbing Interp Interp_proofs.

Theorem C12_block_modes : forall (C : cipher) (k : bkind) sched st ds junk,
  length junk = length ds -> sched_total sched = length ds ->
  let r_ip := run_sched (bm_single C k) (bm_w C k) (bm_par C k) st sched (cells_ip ds) in
  let r_b2b := run_sched (bm_single C k) (bm_w C k) (bm_par C k) st sched (cells_b2b ds junk) in
  fst r_ip = fst r_b2b /\ map cout (snd r_ip) = map cout (snd r_b2b).
Proof.
  intros C k sched st ds junk Hj Hs. cbn zeta.
  rewrite !bm_sched_fold by (unfold cells_ip; rewrite ?map_length, ?cells_b2b_length; auto).
  apply bm_fold_input. rewrite map_rd_in_ip, map_rd_in_b2b; auto.
Qed.
Print Assumptions C12_block_modes.

(* more generally: any two cell lists presenting the same logical input *)
Theorem C12_same_input : forall (C : cipher) (k : bkind) st cs1 cs2, map rd_in cs1 = map rd_in cs2 ->
  fst (fold_cells (bm_single C k) st cs1) = fst (fold_cells (bm_single C k) st cs2) /\
  map cout (snd (fold_cells (bm_single C k) st cs1)) = map cout (snd (fold_cells (bm_single C k) st cs2)).
Proof. exact bm_fold_input. Qed.
Print Assumptions C12_same_input.

(* the primitives really distinguish the two forms: a body that read its input after writing its
   output would see different data in place and buffer-to-buffer *)
Example C12_primitives_distinguish :
  rd_in (wr_out (cell_ip [1%N]) [2%N]) = [2%N] /\ rd_in (wr_out (cell_b2b [1%N] [9%N]) [2%N]) = [1%N].
Proof. split; reflexivity. Qed.
Print Assumptions C12_primitives_distinguish.
