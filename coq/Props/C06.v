(* C06 -- theorems to be stated here. *)
