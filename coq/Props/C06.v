(* C06 -- BelT-CTR: s0 = E(IV) read as a little-endian 128-bit integer; keystream block i (i >= 1)
   is E(le128((s0 + i) mod 2^128)); the data is xored; encryption = decryption.
   For every cipher E (any parallel width), every IV, every number of blocks. *)
From BM Require Import Ints Ints_proofs Belt Stream Stream_proofs Belt_proofs Interp Interp_proofs.

Theorem C06_keystream : forall (C : cipher) n iv,
  belt_gen_n C n (belt_init C iv) =
  (mkbelt (if n =? 0 then le_decode (c_E C iv) else wrap 128 (le_decode (c_E C iv) + N.of_nat n)) (le_decode (c_E C iv)),
   map (fun j => c_E C (le_encode 16 (wrap 128 (le_decode (c_E C iv) + N.of_nat (S j))))) (seq 0 n)).
Proof. exact belt_from_iv. Qed.
Print Assumptions C06_keystream.

Theorem C06_from_any_state : forall (C : cipher) n s si,
  belt_gen_n C n (mkbelt s si) =
  (mkbelt (if n =? 0 then s else wrap 128 (s + N.of_nat n)) si,
   map (fun j => c_E C (le_encode 16 (wrap 128 (s + N.of_nat (S j))))) (seq 0 n)).
Proof. exact belt_keystream. Qed.
Print Assumptions C06_from_any_state.

(* single, parallel and tail paths, as the interpreter dispatches them *)
Theorem C06_paths : forall (C : cipher) n st,
  ks_blocks (kscore C SBelt) n (CBelt st) = (let '(st', bl) := belt_gen_n C n st in (CBelt st', bl)).
Proof. intros C n st. destruct (kscore_ks_blocks C) as (_ & H & _). rewrite H. apply kscore_belt_gen_n. Qed.
Print Assumptions C06_paths.

(* block position bookkeeping: get_block_pos after n blocks is n; set then get is the identity *)
Theorem C06_positions : forall n s p, (s < pow2 128)%N -> (N.of_nat n < pow2 128)%N -> (p < pow2 128)%N ->
  belt_get_pos (mkbelt (wrap 128 (s + N.of_nat n)) s) = N.of_nat n /\
  belt_get_pos (belt_set_pos (mkbelt s s) p) = p.
Proof. intros n s p Hs Hn Hp. split; [now apply belt_pos_after | now apply belt_set_get]. Qed.
Print Assumptions C06_positions.

(* encryption and decryption are the same operation: xoring twice with the same keystream *)
Theorem C06_involution : forall data ks : list N, length data <= length ks -> xorb (xorb data ks) ks = data.
Proof. exact xorb_cancel_r. Qed.
Print Assumptions C06_involution.

(* non-vacuity: with s0 = 2^128 - 1 the first block is E(le128(0)) -- the sum wraps *)
Example C06_wrap_example : wrap 128 (340282366920938463463374607431768211455 + 1) = 0%N.
Proof. reflexivity. Qed.
Print Assumptions C06_wrap_example.
