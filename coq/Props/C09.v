(* C09 -- theorems to be stated here. *)
