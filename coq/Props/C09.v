(* C09 -- the exported IV state resumes the stream and equals the public chaining value.
   (1) generic: processing a ++ b is processing a, then b from the state reached (any body);
   (2) per mode: a fresh instance initialised with the exported value IS in the original's state,
       and the exported value is the mode's public chaining value;
   (3) encryptor and decryptor on corresponding data reach the same state (read off C02/C03). *)
From BM Require Import BlockModes Spec BlockModes_proofs Spec_proofs Ints Ints_proofs Ctr Belt Stream Stream_proofs
  Ctr_proofs Belt_proofs Resume_proofs Plumbing Outcome Buf_proofs.

Theorem C09_resume_generic : forall (S : Type) (single : S -> cell -> S * cell) st a b,
  fold_cells single st (a ++ b) =
  let '(st1, a1) := fold_cells single st a in let '(st2, b1) := fold_cells single st1 b in (st2, a1 ++ b1).
Proof. intros. apply fold_cells_app. Qed.
Print Assumptions C09_resume_generic.

Theorem C09_export_import_identity : forall st : block,
  cbc_init (cbc_iv_state st) = st /\ pcbc_init (pcbc_iv_state st) = st /\
  cfb8_init (cfb8_iv_state st) = st /\ ofb_init (ofb_iv_state st) = st.
Proof. intros st. repeat split; reflexivity. Qed.
Print Assumptions C09_export_import_identity.

Theorem C09_ige : forall (C : cipher) x y, length y = c_bs C ->
  ige_iv_state (x, y) = y ++ x /\ ige_init C (ige_iv_state (x, y)) = (x, y).
Proof. intros C x y H. split; [reflexivity | now apply ige_export_import]. Qed.
Print Assumptions C09_ige.

(* CFB: the stored state is E(chain); the exported value is chain = the last ciphertext block *)
Theorem C09_cfb : forall (C : cipher) chain, DE_id C -> length chain = c_bs C ->
  cfb_iv_state C (c_E C chain) = chain /\ cfb_init C (cfb_iv_state C (c_E C chain)) = c_E C chain.
Proof. intros C chain DE H. split; [now apply cfb_export | now apply cfb_export_import]. Qed.
Print Assumptions C09_cfb.

Theorem C09_cfb_states : forall (C : cipher) iv ps cs,
  last (map (c_E C) (cfb_enc_spec (c_E C) iv ps)) (c_E C iv) = c_E C (last (cfb_enc_spec (c_E C) iv ps) iv) /\
  last (map (c_E C) cs) (c_E C iv) = c_E C (last cs iv).
Proof. intros C iv ps cs. split; [apply cfb_enc_state | apply cfb_dec_state]. Qed.
Print Assumptions C09_cfb_states.

(* CBC: the encryptor's state after ps is the last ciphertext block, which is what the decryptor fed
   with that ciphertext holds (cbc_chain of its input) -- equal exported states; same shape for the
   other modes is read off the final states in Props/C02.v and Props/C03.v *)
Theorem C09_cbc_enc_dec_agree : forall (C : cipher) sched1 sched2 iv cs cs2,
  sched_total sched1 = length cs -> sched_total sched2 = length cs2 ->
  map rd_in cs2 = map cout (snd (run_sched (cbc_enc_block C) cbc_enc_w (cbc_enc_par C) iv sched1 cs)) ->
  fst (run_sched (cbc_dec_block C) (cbc_dec_w C) (cbc_dec_par C) iv sched2 cs2) =
  fst (run_sched (cbc_enc_block C) cbc_enc_w (cbc_enc_par C) iv sched1 cs).
Proof.
  intros C sched1 sched2 iv cs cs2 H1 H2 H. rewrite cbc_enc_sched in * by auto. rewrite cbc_dec_sched by auto.
  cbn [fst snd] in *. rewrite H. rewrite map_cout_map2_wr_out; auto.
  rewrite (cbc_enc_spec_length (c_E C)), map_length. reflexivity.
Qed.
Print Assumptions C09_cbc_enc_dec_agree.

(* CTR (all flavours): exported = next counter block = layout(IV, i); a fresh core from it has the
   same future keystream (its own counter restarts at 0) *)
Theorem C09_ctr : forall (F : flavor), 0 < f_cs F -> forall (C : cipher) chs i n,
  chs <> [] -> all_len (f_cs F) chs -> bytes_ok (concat chs) ->
  let exported := ctr_iv_state F (mkcn i (cn_nonce (from_nonce F (concat chs)))) in
  exported = layout F (concat chs) i /\
  snd (ctr_gen_n F C n (ctr_init F exported)) =
  snd (ctr_gen_n F C n (mkcn i (cn_nonce (from_nonce F (concat chs))))).
Proof. exact ctr_resume. Qed.
Print Assumptions C09_ctr.

(* BelT-CTR: exported = D(le128(s)); needs E(D x) = x *)
Theorem C09_belt : forall (C : cipher) s si n, ED_id C -> c_bs C = 16 -> (s < pow2 128)%N ->
  belt_init C (belt_iv_state C (mkbelt s si)) = mkbelt s s /\
  snd (belt_gen_n C n (mkbelt s s)) = snd (belt_gen_n C n (mkbelt s si)).
Proof. exact belt_resume. Qed.
Print Assumptions C09_belt.

(* buffered CFB: the exported (block, position) pair IS the object's state (get_state / from_state copy it),
   so resuming at ANY byte position is: running on a ++ b = running on a, then on b from the state reached;
   exported states always satisfy the invariant pos < bs, |block| = bs that this needs *)
Theorem C09_buffered_cfb_resume : forall (C : cipher), (forall x, length x = c_bs C -> length (c_E C x) = c_bs C) -> 0 < c_bs C ->
  forall set1 (iv : block) pos a b, length iv = c_bs C -> pos < c_bs C ->
  buf_apply C set1 (iv, pos) (a ++ b) =
  (do r <- buf_apply C set1 (iv, pos) a;
   let '(st1, o1) := r in
   do r2 <- buf_apply C set1 st1 b;
   let '(st2, o2) := r2 in Ok (st2, o1 ++ o2)).
Proof. exact buf_apply_app. Qed.
Print Assumptions C09_buffered_cfb_resume.

Theorem C09_buffered_cfb_state_inv : forall (C : cipher), (forall x, length x = c_bs C -> length (c_E C x) = c_bs C) -> 0 < c_bs C ->
  forall set1 data (iv : block) pos, length iv = c_bs C -> pos < c_bs C ->
  length (fst (fst (buf_bytes C set1 (iv, pos) data))) = c_bs C /\ snd (fst (buf_bytes C set1 (iv, pos) data)) < c_bs C /\
  length (snd (buf_bytes C set1 (iv, pos) data)) = length data.
Proof. exact buf_bytes_inv. Qed.
Print Assumptions C09_buffered_cfb_state_inv.
