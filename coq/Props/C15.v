(* C15 -- theorems to be stated here. *)
