(* C15 -- error propagation and data dependence, on the recurrences the models are proved equal to
   (Props/C02.v, C03.v, C04.v, C06.v).  Sizes: every block has the cipher's block size bs; E, D map
   blocks to blocks.  No other hypothesis unless stated (injectivity of D where "garbled" needs it). *)
From BM Require Import Spec Spec_proofs Errprop_proofs.

(* no output block depends on input that comes after it -- all modes, both directions *)
Theorem C15_causality : forall (E D : block -> block) iv c0 p0 a b,
  (exists t, cbc_enc_spec E iv (a ++ b) = cbc_enc_spec E iv a ++ t) /\
  (exists t, cbc_dec_spec D iv (a ++ b) = cbc_dec_spec D iv a ++ t) /\
  (exists t, pcbc_enc_spec E iv (a ++ b) = pcbc_enc_spec E iv a ++ t) /\
  (exists t, pcbc_dec_spec D iv (a ++ b) = pcbc_dec_spec D iv a ++ t) /\
  (exists t, ige_enc_spec E c0 p0 (a ++ b) = ige_enc_spec E c0 p0 a ++ t) /\
  (exists t, ige_dec_spec D c0 p0 (a ++ b) = ige_dec_spec D c0 p0 a ++ t) /\
  (exists t, cfb_enc_spec E iv (a ++ b) = cfb_enc_spec E iv a ++ t) /\
  (exists t, cfb_dec_spec E iv (a ++ b) = cfb_dec_spec E iv a ++ t) /\
  (exists t, ofb_spec E iv (a ++ b) = ofb_spec E iv a ++ t).
Proof. exact causality. Qed.
Print Assumptions C15_causality.

Theorem C15_causality_cfb8 : forall (E : block -> block) s (a b : list N),
  (exists t, cfb8_enc_spec E s (a ++ b) = cfb8_enc_spec E s a ++ t) /\
  (exists t, cfb8_dec_spec E s (a ++ b) = cfb8_dec_spec E s a ++ t).
Proof. exact causality_cfb8. Qed.
Print Assumptions C15_causality_cfb8.

(* CBC: replacing ciphertext block c by c': earlier blocks and blocks after the next one are the
   same expressions; block j is D(c) xor chain vs D(c') xor chain; block j+1 is D(c1) xor c vs xor c' *)
Theorem C15_cbc : forall (D : block -> block) iv a c c' c1 rest,
  cbc_dec_spec D iv (a ++ c :: c1 :: rest) =
    cbc_dec_spec D iv a ++ xorb (D c) (cbc_chain iv a) :: xorb (D c1) c :: cbc_dec_spec D c1 rest /\
  cbc_dec_spec D iv (a ++ c' :: c1 :: rest) =
    cbc_dec_spec D iv a ++ xorb (D c') (cbc_chain iv a) :: xorb (D c1) c' :: cbc_dec_spec D c1 rest.
Proof. exact cbc_dec_error. Qed.
Print Assumptions C15_cbc.

Theorem C15_cbc_bits : forall bs c c' x ch y z, length c = bs -> length c' = bs -> length x = bs ->
  length y = bs -> length z = bs -> length ch = bs ->
  xorb (xorb x c) (xorb x c') = xorb c c' /\ (xorb y ch = xorb z ch <-> y = z).
Proof. intros. split; [eapply cbc_next_block_delta; eauto | eapply block_garbled; eauto]. Qed.
Print Assumptions C15_cbc_bits.

(* CFB: block j flips exactly the bits of c xor c'; block j+1 is c1 xor E(c) vs c1 xor E(c'); then re-sync *)
Theorem C15_cfb : forall (E : block -> block) iv a c c' c1 rest,
  cfb_dec_spec E iv (a ++ c :: c1 :: rest) =
    cfb_dec_spec E iv a ++ xorb c (E (last a iv)) :: xorb c1 (E c) :: cfb_dec_spec E c1 rest /\
  cfb_dec_spec E iv (a ++ c' :: c1 :: rest) =
    cfb_dec_spec E iv a ++ xorb c' (E (last a iv)) :: xorb c1 (E c') :: cfb_dec_spec E c1 rest.
Proof. exact cfb_dec_error. Qed.
Print Assumptions C15_cfb.

Theorem C15_cfb_bits : forall bs c c' k, length c = bs -> length c' = bs -> length k = bs ->
  xorb (xorb c k) (xorb c' k) = xorb c c'.
Proof. exact cfb_same_block_delta. Qed.
Print Assumptions C15_cfb_bits.

(* CFB-8: byte j flips the same bits (same keystream byte k), the damage is confined to the next bs
   bytes (g, g'), everything after decrypts from the same register *)
Theorem C15_cfb8 : forall bs (E : block -> block) s a c c' mid rest,
  length s = bs -> 0 < bs -> length mid = bs ->
  exists g g' k,
    cfb8_dec_spec E s (a ++ c :: mid ++ rest) = cfb8_dec_spec E s a ++ N.lxor c k :: g ++ cfb8_dec_spec E mid rest /\
    cfb8_dec_spec E s (a ++ c' :: mid ++ rest) = cfb8_dec_spec E s a ++ N.lxor c' k :: g' ++ cfb8_dec_spec E mid rest /\
    length g = bs /\ length g' = bs.
Proof. exact cfb8_dec_error. Qed.
Print Assumptions C15_cfb8.

(* PCBC: a difference delta in the chaining value S_j shows up, as the same delta, in every later block *)
Theorem C15_pcbc : forall bs (D : block -> block), (forall x, length x = bs -> length (D x) = bs) ->
  forall s delta cs, length s = bs -> length delta = bs -> all_len bs cs ->
  pcbc_dec_spec D (xorb s delta) cs = map (fun p => xorb p delta) (pcbc_dec_spec D s cs).
Proof. exact pcbc_dec_delta. Qed.
Print Assumptions C15_pcbc.

(* IGE: with D injective, a difference in the previous plaintext block changes every later block *)
Theorem C15_ige : forall bs (D : block -> block), (forall x, length x = bs -> length (D x) = bs) ->
  forall c0 p0 p0' cs,
  (forall x y, length x = bs -> length y = bs -> D x = D y -> x = y) ->
  length c0 = bs -> length p0 = bs -> length p0' = bs -> all_len bs cs -> p0 <> p0' ->
  Forall2 (fun p p' => p <> p') (ige_dec_spec D c0 p0 cs) (ige_dec_spec D c0 p0' cs).
Proof. exact ige_dec_diverges. Qed.
Print Assumptions C15_ige.

(* CTR, OFB, BelT-CTR: output = input xor keystream with a keystream that does not depend on the data
   (Props/C04.v C04_apply_xors: it is a function of the state and the NUMBER of blocks only), hence
   two inputs differ in the output exactly where they differ *)
Theorem C15_keystream : forall a b k : list N, length a = length k -> length b = length k ->
  xorb (xorb a k) (xorb b k) = xorb a b.
Proof. exact keystream_delta. Qed.
Print Assumptions C15_keystream.

(* non-vacuity of the PCBC statement: the propagated difference is visible *)
Example C15_pcbc_example : map (fun p => xorb p [1%N]) [[2%N]; [3%N]] = [[3%N]; [2%N]].
Proof. reflexivity. Qed.
Print Assumptions C15_pcbc_example.
