(* C11 -- theorems to be stated here. *)
