(* C11 -- a keystream never wraps around silently.
   For the CTR flavours (w-bit counter: 2^w - 1 blocks) and BelT-CTR (2^128 - 1 blocks):
   (1) a request succeeds iff it fits, and fitting is exactly "byte offset + length <= (2^w-1)*bs";
       a request that does not fit is Err and nothing changes (the model's Err carries no new state);
   (2) remaining_blocks is exact: the core at block p reports (2^w - 1 - p) (None only above usize);
   (3) every byte of a successful request is xored with the keystream byte of its own byte offset, in a
       block with index < 2^w - 1; distinct counter values give distinct counter blocks (C04), so no
       counter block serves two positions;
   (4) known finding F2 (refuted case): a seek INTO block index 2^w - 1 is accepted by
       cipher::StreamCipherCoreWrapper and wraps; all statements above assume positions reached by
       seeks satisfy [below] / [upto] (C10). *)
From BM Require Import BlockModes Plumbing Toy Ints Ints_proofs Ctr Belt Stream Cts Stream_proofs Ctr_proofs Interp Interp_proofs
  Wrapper_proofs Wrapper_inst F2.
From Coq Require Import ZArith.

Theorem C11_ctr_request : forall cs be (C : cipher) (nonce : list N), cipher_wf C -> c_bs C = cs * length nonce ->
  forall nb wst (al : bool) (inb outb : list N), CtrInv cs be C nonce nb wst ->
  length inb = length outb -> (al = true -> inb = outb) -> (N.of_nat (length outb) <= usize_max)%N ->
  let K := kscore C (SCtr cs be) in
  let n := length outb in
  let src := if al then outb else inb in
  (fits K (ctr_limit cs) nb (wr_pos wst) n ->
     exists wst', try_apply K wst al inb outb = Ok (wst', xorb src (take K (ctr_KB cs be C nonce) n nb (wr_pos wst))) /\
                  CtrInv cs be C nonce (fst (adv K n nb (wr_pos wst))) wst' /\
                  wr_pos wst' = snd (adv K n nb (wr_pos wst))) /\
  (~ fits K (ctr_limit cs) nb (wr_pos wst) n -> try_apply K wst al inb outb = Err).
Proof. intros. eapply ctr_apply_spec; eauto. Qed.
Print Assumptions C11_ctr_request.

Theorem C11_belt_request : forall (C : cipher) si, cipher_wf C -> c_bs C = 16 -> (si < pow2 128)%N ->
  forall nb wst (al : bool) (inb outb : list N), BeltInv C si nb wst ->
  length inb = length outb -> (al = true -> inb = outb) -> (N.of_nat (length outb) <= usize_max)%N ->
  let K := kscore C SBelt in
  let n := length outb in
  let src := if al then outb else inb in
  (fits K belt_limit nb (wr_pos wst) n ->
     exists wst', try_apply K wst al inb outb = Ok (wst', xorb src (take K (belt_KB C si) n nb (wr_pos wst))) /\
                  BeltInv C si (fst (adv K n nb (wr_pos wst))) wst' /\
                  wr_pos wst' = snd (adv K n nb (wr_pos wst))) /\
  (~ fits K belt_limit nb (wr_pos wst) n -> try_apply K wst al inb outb = Err).
Proof. intros. eapply belt_apply_spec; eauto. Qed.
Print Assumptions C11_belt_request.

(* "fits" in bytes: with byte offset q = nb*bs - (bs - pos), the request fits iff q + n <= (2^w - 1)*bs;
   in particular a request ending exactly at the limit fits *)
Theorem C11_fits_in_bytes : forall cs be (C : cipher) (nonce : list N), cipher_wf C -> c_bs C = cs * length nonce ->
  forall nb pos n, let K := kscore C (SCtr cs be) in
  (nb <= pow2 (8 * cs) - 1)%N -> 1 <= pos <= sc_bs K ->
  (fits K (ctr_limit cs) nb pos n <->
   (nb * N.of_nat (sc_bs K) + N.of_nat n <= (pow2 (8 * cs) - 1) * N.of_nat (sc_bs K) + N.of_nat (sc_bs K - pos))%N).
Proof. intros. eapply ctr_fits_bytes; eauto. Qed.
Print Assumptions C11_fits_in_bytes.

(* remaining_blocks is exact *)
Theorem C11_remaining_exact : forall cs be (C : cipher) (nonce : list N) p,
  sc_remaining (kscore C (SCtr cs be)) (ctr_at nonce p) = to_usize (pow2 (8 * cs) - 1 - p) /\
  (forall si, cipher_wf C -> c_bs C = 16 -> (si < pow2 128)%N -> upto belt_limit p ->
     sc_remaining (kscore C SBelt) (belt_at si p) = to_usize (pow2 128 - 1 - p)).
Proof. intros cs be C nonce p. split; [reflexivity|]. intros. eapply belt_rem_at; eauto. Qed.
Print Assumptions C11_remaining_exact.

(* every keystream byte a fitting request uses lies in a block with index below the limit *)
Theorem C11_blocks_below_limit : forall (St : Type) (K : score St), 0 < sc_bs K ->
  forall limit n nb pos L, limit = Some L -> 1 <= pos <= sc_bs K -> (pos < sc_bs K -> (1 <= nb)%N) ->
  fits K limit nb pos n ->
  Forall (fun c => (fst c < L)%N /\ snd c < sc_bs K) (cells_at K n nb pos) /\
  (forall KB, take K KB n nb pos = map (fun c => nth (snd c) (KB (fst c)) 0%N) (cells_at K n nb pos)).
Proof.
  intros St K H limit n nb pos L HL Hp Hnb Hfit. split.
  - eapply cells_below; eauto. unfold fits in Hfit. now rewrite HL in Hfit.
  - intros KB. apply take_cells.
Qed.
Print Assumptions C11_blocks_below_limit.

(* and distinct block indices below 2^w give distinct counter blocks *)
Theorem C11_counter_blocks_distinct : forall (F : flavor) iv i j, f_cs F <= length iv ->
  (i < pow2 (f_bits F))%N -> (j < pow2 (f_bits F))%N -> layout F iv i = layout F iv j -> i = j.
Proof. exact layout_inj. Qed.
Print Assumptions C11_counter_blocks_distinct.

(* known finding F2: in the (faithful) model too, a seek into block index 2^32 - 1 is accepted and the
   first keystream block is handed out a second time *)
Theorem C11_refuted_by_seek_into_last_index : exists first second, f2_run = Some (first, second) /\
  firstn 4 (skipn 3 second) = firstn 4 first.
Proof. exact f2_reuse. Qed.
Print Assumptions C11_refuted_by_seek_into_last_index.
