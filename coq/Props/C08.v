(* C08 -- byte-stream interfaces give the same bytes however the stream is cut into calls.
   In this file: the keystream wrappers (CTR all flavours, BelT-CTR, OFB) are proved in full
   generality (any list of pieces, empty pieces included, each piece in place or buffer-to-buffer
   with any output contents, any block size / parallel width / cipher), and so are the buffered CFB
   encryptor and decryptor (two calls = one call on the concatenation, from any state pos < bs, hence
   any number of calls by induction; proved by refining the three-phase code to a byte-at-a-time
   reading).  One-shot CFB and CFB-8 are prefix-preserving (C08_oneshot_cfb_prefix, C08_oneshot_cfb8_prefix):
   for CFB by identifying the one-shot output with the buffered type's byte-at-a-time reading. *)
From BM Require Import BlockModes Plumbing Toy Ints Ctr Belt Stream Cts Stream_proofs Interp Interp_proofs
  Wrapper_proofs Wrapper_inst Outcome Buf_proofs Async_proofs.

(* the abstract refinement: a successful call xors the input with the keystream read from the current
   position and advances the position by exactly the request; a request that does not fit is an
   error that changes nothing (over any core satisfying the laws of Wrapper_proofs.v) *)
Theorem C08_generic_pieces : forall (St : Type) (K : score St), 0 < sc_bs K ->
  forall (at_block : N -> St) (KB : N -> block) (limit : option N),
  (forall p, below limit p -> sc_gen K (at_block p) = (at_block (p + 1)%N, KB p)) ->
  (forall p, exists p', fst (sc_gen K (at_block p)) = at_block p') ->
  (1 < sc_w K -> forall p, sc_gen_par K (at_block p) = gen_n K (sc_w K) (at_block p)) ->
  (forall p, upto limit p ->
     sc_remaining K (at_block p) = match limit with Some L => to_usize (L - p) | None => None end) ->
  (forall p, length (KB p) = sc_bs K) ->
  forall ps nb wst, WInv K at_block KB limit nb wst -> Forall piece_ok ps ->
  let whole := concat (map piece_src ps) in
  (N.of_nat (length whole) <= usize_max)%N -> fits K limit nb (wr_pos wst) (length whole) ->
  exists w1 w2 out, apply_all K wst ps = Ok (w1, out) /\ try_apply K wst true whole whole = Ok (w2, out) /\
                    wr_pos w1 = wr_pos w2 /\ wr_core w1 = wr_core w2.
Proof. intros. eapply chunking_independent; eauto. Qed.
Print Assumptions C08_generic_pieces.

(* CTR, every flavour (cs = counter bytes, be = big endian), block size = cs * |nonce chunks| *)
Theorem C08_ctr : forall cs be (C : cipher) (nonce : list N), cipher_wf C -> c_bs C = cs * length nonce ->
  forall ps nb wst, CtrInv cs be C nonce nb wst -> Forall piece_ok ps ->
  let K := kscore C (SCtr cs be) in
  let whole := concat (map piece_src ps) in
  (N.of_nat (length whole) <= usize_max)%N -> fits K (ctr_limit cs) nb (wr_pos wst) (length whole) ->
  exists w1 w2 out, apply_all K wst ps = Ok (w1, out) /\ try_apply K wst true whole whole = Ok (w2, out) /\
                    wr_pos w1 = wr_pos w2 /\ wr_core w1 = wr_core w2.
Proof. intros. eapply ctr_chunking; eauto. Qed.
Print Assumptions C08_ctr.

Theorem C08_ctr_fresh : forall cs be (C : cipher) (nonce : list N), cipher_wf C -> c_bs C = cs * length nonce ->
  CtrInv cs be C nonce 0%N (from_core (kscore C (SCtr cs be)) (ctr_at nonce 0)).
Proof. intros. eapply ctr_fresh; eauto. Qed.
Print Assumptions C08_ctr_fresh.

Theorem C08_belt : forall (C : cipher) si, cipher_wf C -> c_bs C = 16 -> (si < pow2 128)%N ->
  forall ps nb wst, BeltInv C si nb wst -> Forall piece_ok ps ->
  let K := kscore C SBelt in
  let whole := concat (map piece_src ps) in
  (N.of_nat (length whole) <= usize_max)%N -> fits K belt_limit nb (wr_pos wst) (length whole) ->
  exists w1 w2 out, apply_all K wst ps = Ok (w1, out) /\ try_apply K wst true whole whole = Ok (w2, out) /\
                    wr_pos w1 = wr_pos w2 /\ wr_core w1 = wr_core w2.
Proof. intros. eapply belt_chunking; eauto. Qed.
Print Assumptions C08_belt.

Theorem C08_ofb : forall (C : cipher) iv, cipher_wf C -> length iv = c_bs C ->
  forall ps nb wst, OfbInv C iv nb wst -> Forall piece_ok ps ->
  let K := kscore C SOfb in
  let whole := concat (map piece_src ps) in
  (N.of_nat (length whole) <= usize_max)%N ->
  exists w1 w2 out, apply_all K wst ps = Ok (w1, out) /\ try_apply K wst true whole whole = Ok (w2, out) /\
                    wr_pos w1 = wr_pos w2 /\ wr_core w1 = wr_core w2.
Proof. intros. eapply ofb_chunking; eauto. Qed.
Print Assumptions C08_ofb.

Theorem C08_fresh_states : forall (C : cipher) si iv, cipher_wf C -> c_bs C = 16 -> (si < pow2 128)%N -> length iv = c_bs C ->
  BeltInv C si 0%N (from_core (kscore C SBelt) (belt_at si 0)) /\
  OfbInv C iv 0%N (from_core (kscore C SOfb) (ofb_at C iv 0)).
Proof. intros. split; [eapply belt_fresh; eauto | eapply ofb_fresh; eauto]. Qed.
Print Assumptions C08_fresh_states.

(* buffered CFB (BufEncryptor: set1 = true, BufDecryptor: set1 = false) *)
Theorem C08_buffered_cfb : forall (C : cipher), (forall x, length x = c_bs C -> length (c_E C x) = c_bs C) -> 0 < c_bs C ->
  forall set1 (iv : block) pos a b, length iv = c_bs C -> pos < c_bs C ->
  buf_apply C set1 (iv, pos) (a ++ b) =
  (do r <- buf_apply C set1 (iv, pos) a;
   let '(st1, o1) := r in
   do r2 <- buf_apply C set1 st1 b;
   let '(st2, o2) := r2 in Ok (st2, o1 ++ o2)).
Proof. intros C HE Hb set1 iv pos a b. now apply buf_apply_app. Qed.
Print Assumptions C08_buffered_cfb.

(* ... and the state stays well formed, so the statement iterates *)
Theorem C08_buffered_cfb_state : forall (C : cipher), (forall x, length x = c_bs C -> length (c_E C x) = c_bs C) -> 0 < c_bs C ->
  forall set1 (iv : block) pos data, length iv = c_bs C -> pos < c_bs C ->
  buf_apply C set1 (iv, pos) data = Ok (buf_bytes C set1 (iv, pos) data) /\
  length (fst (fst (buf_bytes C set1 (iv, pos) data))) = c_bs C /\
  snd (fst (buf_bytes C set1 (iv, pos) data)) < c_bs C /\
  length (snd (buf_bytes C set1 (iv, pos) data)) = length data.
Proof. intros C HE Hb set1 iv pos data Hl Hp. split; [now apply buf_apply_bytes | now apply buf_bytes_inv]. Qed.
Print Assumptions C08_buffered_cfb_state.

(* non-vacuity: pieces with an empty piece, an in-place piece and a buffer-to-buffer piece are well formed *)
Example C08_pieces_example :
  Forall piece_ok [(true, [1;2;3], [1;2;3]); (true, [], []); (false, [4;5], [9;9])]%N.
Proof. repeat constructor; cbn; auto; discriminate. Qed.
Print Assumptions C08_pieces_example.

(* one-shot CFB / CFB-8 are prefix-preserving: the output for msg is the same-length prefix of the
   output for any extension msg ++ ext, whichever of the two calls is in place or buffer-to-buffer *)
Theorem C08_oneshot_cfb_prefix : forall (C : cipher), cipher_wf C -> forall (enc : bool) iv (al1 al2 : bool) (msg ext out1 out2 : list N),
  length iv = c_bs C -> length out1 = length msg -> (al1 = true -> msg = out1) ->
  length out2 = length (msg ++ ext) -> (al2 = true -> msg ++ ext = out2) ->
  let k := if enc then KCfbE else KCfbD in
  snd (async_inout (bm_mbs C k) (bm_single C k) (bm_blocks C k) (bm_init C k iv) al1 msg out1) =
  firstn (length msg)
    (snd (async_inout (bm_mbs C k) (bm_single C k) (bm_blocks C k) (bm_init C k iv) al2 (msg ++ ext) out2)).
Proof. exact async_cfb_prefix. Qed.
Print Assumptions C08_oneshot_cfb_prefix.

Theorem C08_oneshot_cfb8_prefix : forall (C : cipher), cipher_wf C -> forall (enc : bool) s x (al1 al2 : bool) (msg ext out1 out2 : list N),
  length s = c_bs C -> length out1 = length msg -> (al1 = true -> msg = out1) ->
  length out2 = length (msg ++ ext) -> (al2 = true -> msg ++ ext = out2) ->
  let k := if enc then KCfb8E else KCfb8D in
  snd (async_inout (bm_mbs C k) (bm_single C k) (bm_blocks C k) (s, x) al1 msg out1) =
  firstn (length msg) (snd (async_inout (bm_mbs C k) (bm_single C k) (bm_blocks C k) (s, x) al2 (msg ++ ext) out2)).
Proof. exact async_cfb8_prefix. Qed.
Print Assumptions C08_oneshot_cfb8_prefix.
