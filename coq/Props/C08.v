(* C08 -- theorems to be stated here. *)
