(* C05 -- theorems to be stated here. *)
