(* C05 -- ciphertext stealing follows NIST SP 800-38A Addendum CS1/CS2/CS3 (CBC and ECB).
   For every cipher with well-formed sizes (any block size, any parallel width -- the helpers are
   width-free by Props/C07.v), every IV, every message of L >= bs bytes presented as nb >= 1 whole
   blocks followed by a tail shorter than a block, in place or buffer-to-buffer with ANY output
   contents ([msg_mem]): each of the six encryption bodies returns Ok (in particular: no panic) and
   the output equals the layout of Cts_spec.v computed from plain CBC / ECB of the zero-padded
   message; |ciphertext| = |message| (the output buffer keeps its length).
   The CS3 statements hold for the code after the repair of finding F1 (fix: commit in /repo).
   Decryption inverts each (C05_*_dec theorems): for a cipher with D (E x) = x, any memory (in place or
   buffer-to-buffer, any output contents) whose source side holds the standard's ciphertext layout is
   decrypted by the corresponding body to exactly the message; no panic, no error. *)
From BM Require Import Outcome Cipher Plumbing Spec Cts Cts_mem Cts_spec Cts_cs_proofs Cts_dec_proofs.

Theorem C05_cbc_cs1_enc : forall (C : cipher), cipher_wf C -> forall iv m blocks tail,
  length iv = c_bs C -> msg_mem C m blocks tail ->
  exists m', cbc_cs1_enc C iv m = Ok m' /\ m_out m' = cbc_cs1_spec (c_bs C) (c_E C) iv blocks tail.
Proof. exact cbc_cs1_enc_ok. Qed.
Print Assumptions C05_cbc_cs1_enc.

Theorem C05_cbc_cs2_enc : forall (C : cipher), cipher_wf C -> forall iv m blocks tail,
  length iv = c_bs C -> msg_mem C m blocks tail ->
  exists m', cbc_cs2_enc C iv m = Ok m' /\ m_out m' = cbc_cs2_spec (c_bs C) (c_E C) iv blocks tail.
Proof. exact cbc_cs2_enc_ok. Qed.
Print Assumptions C05_cbc_cs2_enc.

Theorem C05_cbc_cs3_enc : forall (C : cipher), cipher_wf C -> forall iv m blocks tail,
  length iv = c_bs C -> msg_mem C m blocks tail ->
  exists m', cbc_cs3_enc C iv m = Ok m' /\ m_out m' = cbc_cs3_spec (c_bs C) (c_E C) iv blocks tail.
Proof. exact cbc_cs3_enc_ok. Qed.
Print Assumptions C05_cbc_cs3_enc.

Theorem C05_ecb_cs1_enc : forall (C : cipher), cipher_wf C -> forall m blocks tail, msg_mem C m blocks tail ->
  exists m', ecb_cs1_enc C m = Ok m' /\ m_out m' = ecb_cs1_spec (c_bs C) (c_E C) blocks tail.
Proof. exact ecb_cs1_enc_ok. Qed.
Print Assumptions C05_ecb_cs1_enc.

Theorem C05_ecb_cs2_enc : forall (C : cipher), cipher_wf C -> forall m blocks tail, msg_mem C m blocks tail ->
  exists m', ecb_cs2_enc C m = Ok m' /\ m_out m' = ecb_cs2_spec (c_bs C) (c_E C) blocks tail.
Proof. exact ecb_cs2_enc_ok. Qed.
Print Assumptions C05_ecb_cs2_enc.

Theorem C05_ecb_cs3_enc : forall (C : cipher), cipher_wf C -> forall m blocks tail, msg_mem C m blocks tail ->
  exists m', ecb_cs3_enc C m = Ok m' /\ m_out m' = ecb_cs3_spec (c_bs C) (c_E C) blocks tail.
Proof. exact ecb_cs3_enc_ok. Qed.
Print Assumptions C05_ecb_cs3_enc.

(* ---- decryption inverts each ---- *)
Theorem C05_cbc_cs1_dec : forall (C : cipher), cipher_wf C -> DE_id C -> forall iv m (blocks : list block) (tail : list N),
  length iv = c_bs C -> all_len (c_bs C) blocks -> 1 <= length blocks -> length tail < c_bs C ->
  mwf m -> msrc m = cbc_cs1_spec (c_bs C) (c_E C) iv blocks tail ->
  exists m', cbc_cs1_dec C iv m = Ok m' /\ m_out m' = concat blocks ++ tail.
Proof. exact cbc_cs1_roundtrip. Qed.
Print Assumptions C05_cbc_cs1_dec.

Theorem C05_cbc_cs2_dec : forall (C : cipher), cipher_wf C -> DE_id C -> forall iv m (blocks : list block) (tail : list N),
  length iv = c_bs C -> all_len (c_bs C) blocks -> 1 <= length blocks -> length tail < c_bs C ->
  mwf m -> msrc m = cbc_cs2_spec (c_bs C) (c_E C) iv blocks tail ->
  exists m', cbc_cs2_dec C iv m = Ok m' /\ m_out m' = concat blocks ++ tail.
Proof. exact cbc_cs2_roundtrip. Qed.
Print Assumptions C05_cbc_cs2_dec.

Theorem C05_cbc_cs3_dec : forall (C : cipher), cipher_wf C -> DE_id C -> forall iv m (blocks : list block) (tail : list N),
  length iv = c_bs C -> all_len (c_bs C) blocks -> 1 <= length blocks -> length tail < c_bs C ->
  mwf m -> msrc m = cbc_cs3_spec (c_bs C) (c_E C) iv blocks tail ->
  exists m', cbc_cs3_dec C iv m = Ok m' /\ m_out m' = concat blocks ++ tail.
Proof. exact cbc_cs3_roundtrip. Qed.
Print Assumptions C05_cbc_cs3_dec.

Theorem C05_ecb_cs1_dec : forall (C : cipher), cipher_wf C -> DE_id C -> forall m (blocks : list block) (tail : list N),
  all_len (c_bs C) blocks -> 1 <= length blocks -> length tail < c_bs C ->
  mwf m -> msrc m = ecb_cs1_spec (c_bs C) (c_E C) blocks tail ->
  exists m', ecb_cs1_dec C m = Ok m' /\ m_out m' = concat blocks ++ tail.
Proof. exact ecb_cs1_roundtrip. Qed.
Print Assumptions C05_ecb_cs1_dec.

Theorem C05_ecb_cs2_dec : forall (C : cipher), cipher_wf C -> DE_id C -> forall m (blocks : list block) (tail : list N),
  all_len (c_bs C) blocks -> 1 <= length blocks -> length tail < c_bs C ->
  mwf m -> msrc m = ecb_cs2_spec (c_bs C) (c_E C) blocks tail ->
  exists m', ecb_cs2_dec C m = Ok m' /\ m_out m' = concat blocks ++ tail.
Proof. exact ecb_cs2_roundtrip. Qed.
Print Assumptions C05_ecb_cs2_dec.

Theorem C05_ecb_cs3_dec : forall (C : cipher), cipher_wf C -> DE_id C -> forall m (blocks : list block) (tail : list N),
  all_len (c_bs C) blocks -> 1 <= length blocks -> length tail < c_bs C ->
  mwf m -> msrc m = ecb_cs3_spec (c_bs C) (c_E C) blocks tail ->
  exists m', ecb_cs3_dec C m = Ok m' /\ m_out m' = concat blocks ++ tail.
Proof. exact ecb_cs3_roundtrip. Qed.
Print Assumptions C05_ecb_cs3_dec.

(* |ciphertext| = |message| and back: whenever any of the twelve bodies returns Ok the buffer keeps its length *)
Theorem C05_length : forall C v enc iv m m', cts_run C v enc iv m = Ok m' -> mlen m' = mlen m.
Proof. exact cts_length_preserved. Qed.
Print Assumptions C05_length.

(* the layouts, spelled out on C_1 .. C_{n-2}, C_{n-1} = a, C_n = b *)
Theorem C05_layouts : forall (pre : list block) a b d,
  cs1_layout (pre ++ [a; b]) d = concat pre ++ firstn d a ++ b /\
  cs3_layout (pre ++ [a; b]) d = concat pre ++ b ++ firstn d a.
Proof. exact cs_layouts_split. Qed.
Print Assumptions C05_layouts.

(* a one-block message is plain CBC / ECB in all three variants; on whole blocks CS1 = CS2 = plain *)
Theorem C05_one_block_and_whole : forall bs (Cs : list block), all_len bs Cs ->
  cs1_layout Cs bs = concat Cs /\ cs2_layout bs Cs bs = concat Cs /\ (length Cs <= 1 -> cs3_layout Cs bs = concat Cs).
Proof.
  intros bs Cs H. split; [now apply cs1_layout_whole|]. split.
  - unfold cs2_layout. rewrite Nat.ltb_irrefl. now apply cs1_layout_whole.
  - intros H1. unfold cs3_layout. apply Nat.leb_le in H1. now rewrite H1.
Qed.
Print Assumptions C05_one_block_and_whole.

(* non-vacuity: a 5-byte in-place message over a 2-byte-block cipher is a [msg_mem] *)
Example C05_msg_mem_example : forall E D,
  msg_mem (mkcipher 2 1 E D) (mkmem true [1;2;3;4;5]%N [1;2;3;4;5]%N) [[1;2];[3;4]]%N [5]%N.
Proof. intros E D. constructor; cbn; auto.
  - split; auto.
  - repeat constructor.
Qed.
Print Assumptions C05_msg_mem_example.
