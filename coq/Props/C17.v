(* C17 -- no leak through Debug output or dropped memory: PARTIAL, level `other` (see MANIFEST).
   The statements below are about the model's transcription of the Debug / Drop impls and are true
   by construction; the assurance for this property comes from the measurements on the real objects
   (Debug text compared with a reference instance; drop probe), see gen/props/c17.py and DESIGN.md.
   Not expressible in the model: the bytes of the object's storage after drop. *)
From BM Require Import BlockModes Plumbing Toy Ctr Belt Stream Cts Interp Leak.

(* every type with its own Debug impl in /repo prints no byte of its state *)
Theorem C17_opaque_debug : forall o, (forall k key wst, o <> OWrap k key wst) -> debug_bytes o = [].
Proof. exact opaque_debug. Qed.
Print Assumptions C17_opaque_debug.

Theorem C17_fresh_wrapper_debug : forall (St : Type) (K : score St) c, debug_payload (from_core K c) = [].
Proof. intros. apply fresh_wrapper_debug. Qed.
Print Assumptions C17_fresh_wrapper_debug.

(* known finding F3, as a refutation of "Debug never shows state" for the wrapper aliases: after 3
   bytes of an 8-byte block the Debug payload is the remaining 5 keystream bytes *)
Theorem C17_wrapper_debug_refuted :
  exists wst out, f3_witness = Ok (wst, out) /\ debug_payload wst <> [] /\
                  out ++ debug_payload wst = c_E f3_cipher [0;0;0;0;0;0;0;0]%N.
Proof. exact wrapper_debug_leaks. Qed.
Print Assumptions C17_wrapper_debug_refuted.

(* the fields the Drop impls overwrite cover all chaining material of the model's objects *)
Theorem C17_dropped_is_zero : forall o, Forall (fun x => x = 0%N) (chaining_bytes (dropped o)).
Proof. exact dropped_is_zero. Qed.
Print Assumptions C17_dropped_is_zero.
