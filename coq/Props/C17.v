(* C17 -- theorems to be stated here. *)
