(* C03 -- CFB, CFB-8 and OFB compute exactly their defining recurrences, for every cipher E (no
   hypothesis: E need not be injective), every schedule, in place or buffer to buffer; the
   decryption direction D of the cipher never enters a data path.
   The one-shot (AsyncStreamCipher) calls, partial tail included, and the buffered types are covered
   as well (C03_oneshot_*, C03_buffered_cfb). *)
From BM Require Import BlockModes Spec BlockModes_proofs Plumbing Outcome Buf_proofs Interp Async_proofs.

(* CFB: the object stores s = E(chaining value); with s = E(IV) the outputs are C_i = P_i xor E(C_{i-1}) *)
Theorem C03_cfb_enc : forall (C : cipher) sched iv cs, sched_total sched = length cs ->
  run_sched (cfb_enc_block C) cfb_enc_w (cfb_enc_par C) (cfb_init C iv) sched cs =
  (last (map (c_E C) (cfb_enc_spec (c_E C) iv (map rd_in cs))) (c_E C iv),
   map2 wr_out cs (cfb_enc_spec (c_E C) iv (map rd_in cs))).
Proof. intros C sched iv cs H. unfold cfb_init. rewrite cfb_enc_sched by auto. now rewrite <- cfb_enc_spec_st. Qed.
Print Assumptions C03_cfb_enc.

Theorem C03_cfb_dec : forall (C : cipher) sched iv cs, sched_total sched = length cs ->
  run_sched (cfb_dec_block C) (cfb_dec_w C) (cfb_dec_par C) (cfb_init C iv) sched cs =
  (last (map (c_E C) (map rd_in cs)) (c_E C iv), map2 wr_out cs (cfb_dec_spec (c_E C) iv (map rd_in cs))).
Proof. intros C sched iv cs H. unfold cfb_init. rewrite cfb_dec_sched by auto. now rewrite <- cfb_dec_spec_st. Qed.
Print Assumptions C03_cfb_dec.

(* CFB-8 over one-byte blocks, and its byte-level reading c_j = p_j xor first_byte(E(S_j)) *)
Theorem C03_cfb8_enc : forall (C : cipher) sched s cs, sched_total sched = length cs ->
  run_sched (cfb8_enc_block C) cfb8_enc_w (cfb8_enc_par C) s sched cs =
  (cfb8_breg s (cfb8_enc_bspec (c_E C) s (map rd_in cs)), map2 wr_out cs (cfb8_enc_bspec (c_E C) s (map rd_in cs))).
Proof. exact cfb8_enc_sched. Qed.
Print Assumptions C03_cfb8_enc.

Theorem C03_cfb8_dec : forall (C : cipher) sched s cs, sched_total sched = length cs ->
  run_sched (cfb8_dec_block C) cfb8_dec_w (cfb8_dec_par C) s sched cs =
  (cfb8_breg s (map rd_in cs), map2 wr_out cs (cfb8_dec_bspec (c_E C) s (map rd_in cs))).
Proof. exact cfb8_dec_sched. Qed.
Print Assumptions C03_cfb8_dec.

Theorem C03_cfb8_bytes : forall (C : cipher),
  (forall x, length x = c_bs C -> length (c_E C x) = c_bs C) -> 0 < c_bs C ->
  forall s bytes, length s = c_bs C ->
  cfb8_enc_bspec (c_E C) s (singles bytes) = singles (cfb8_enc_spec (c_E C) s bytes) /\
  cfb8_dec_bspec (c_E C) s (singles bytes) = singles (cfb8_dec_spec (c_E C) s bytes) /\
  cfb8_breg s (singles bytes) = cfb8_reg s bytes.
Proof. intros C HE Hbs s bytes Hs. repeat split; [apply cfb8_enc_bytes | apply cfb8_dec_bytes | apply cfb8_breg_bytes]; auto. Qed.
Print Assumptions C03_cfb8_bytes.

(* OFB: both block front-ends are the same function, output = input xor O_1 O_2 .., O_i = E^i(IV) *)
Theorem C03_ofb : forall (C : cipher) sched iv cs, sched_total sched = length cs ->
  run_sched (ofb_enc_block C) ofb_w (ofb_enc_par C) iv sched cs =
    (iter_E (c_E C) (length cs) iv, map2 wr_out cs (ofb_spec (c_E C) iv (map rd_in cs))) /\
  run_sched (ofb_dec_block C) ofb_w (ofb_dec_par C) iv sched cs =
    (iter_E (c_E C) (length cs) iv, map2 wr_out cs (ofb_spec (c_E C) iv (map rd_in cs))).
Proof. intros C sched iv cs H. split; [now apply ofb_enc_sched | now apply ofb_dec_sched]. Qed.
Print Assumptions C03_ofb.

Theorem C03_ofb_keystream : forall (C : cipher) iv ps i,
  ofb_spec (c_E C) iv ps = map2 xorb ps (ofb_ks (c_E C) iv (length ps)) /\
  (i < length ps -> nth i (ofb_ks (c_E C) iv (length ps)) [] = iter_E (c_E C) (S i) iv).
Proof. intros C iv ps i. split; [apply ofb_spec_ks | apply ofb_ks_nth]. Qed.
Print Assumptions C03_ofb_keystream.

(* only the encryption direction is used: replacing D changes no data path of CFB, CFB-8, OFB *)
Theorem C03_only_E : forall bs w E D1 D2,
  let C1 := mkcipher bs w E D1 in let C2 := mkcipher bs w E D2 in
  cfb_enc_block C1 = cfb_enc_block C2 /\ cfb_dec_block C1 = cfb_dec_block C2 /\ cfb_dec_par C1 = cfb_dec_par C2 /\
  cfb_init C1 = cfb_init C2 /\
  cfb8_enc_block C1 = cfb8_enc_block C2 /\ cfb8_dec_block C1 = cfb8_dec_block C2 /\
  ofb_enc_block C1 = ofb_enc_block C2 /\ ofb_dec_block C1 = ofb_dec_block C2 /\ ofb_gen C1 = ofb_gen C2 /\
  buf_apply C1 = buf_apply C2 /\ buf_init C1 = buf_init C2.
Proof. intros. repeat split; reflexivity. Qed.
Print Assumptions C03_only_E.

(* buffered CFB from a fresh object: whole blocks follow the recurrence, a trailing partial block is
   xored with the leading bytes of the next keystream block E(C_n) *)
Theorem C03_buffered_cfb : forall (C : cipher), (forall x, length x = c_bs C -> length (c_E C x) = c_bs C) -> 0 < c_bs C ->
  forall iv blocks tail, length iv = c_bs C -> all_len (c_bs C) blocks -> length tail < c_bs C ->
  (exists st', buf_apply C true (buf_init C iv) (concat blocks ++ tail) =
     Ok (st', concat (cfb_enc_spec (c_E C) iv blocks) ++ xorb tail (c_E C (last (cfb_enc_spec (c_E C) iv blocks) iv)))) /\
  (exists st', buf_apply C false (buf_init C iv) (concat blocks ++ tail) =
     Ok (st', concat (cfb_dec_spec (c_E C) iv blocks) ++ xorb tail (c_E C (last blocks iv)))).
Proof. intros C HE Hb iv blocks tail H1 H2 H3. split; [now apply buf_enc_spec | now apply buf_dec_spec]. Qed.
Print Assumptions C03_buffered_cfb.

(* one-shot CFB (AsyncStreamCipher::encrypt/decrypt, in place or buffer-to-buffer with any output
   contents), as the interpreter dispatches it: whole blocks by the recurrence, the final partial
   block xored with the leading bytes of E(last ciphertext block) *)
Theorem C03_oneshot_cfb_enc : forall (C : cipher), cipher_wf C -> forall iv (al : bool) (inb outb : list N) (bl : list block) (tail : list N),
  length iv = c_bs C -> inb = concat bl ++ tail -> all_len (c_bs C) bl -> length tail < c_bs C ->
  length outb = length inb -> (al = true -> inb = outb) ->
  snd (async_inout (bm_mbs C KCfbE) (bm_single C KCfbE) (bm_blocks C KCfbE) (bm_init C KCfbE iv) al inb outb) =
    concat (cfb_enc_spec (c_E C) iv bl) ++ xorb tail (c_E C (last (cfb_enc_spec (c_E C) iv bl) iv)).
Proof. exact async_cfb_enc_spec. Qed.
Print Assumptions C03_oneshot_cfb_enc.

Theorem C03_oneshot_cfb_dec : forall (C : cipher), cipher_wf C -> forall iv (al : bool) (inb outb : list N) (bl : list block) (tail : list N),
  length iv = c_bs C -> inb = concat bl ++ tail -> all_len (c_bs C) bl -> length tail < c_bs C ->
  length outb = length inb -> (al = true -> inb = outb) ->
  snd (async_inout (bm_mbs C KCfbD) (bm_single C KCfbD) (bm_blocks C KCfbD) (bm_init C KCfbD iv) al inb outb) =
    concat (cfb_dec_spec (c_E C) iv bl) ++ xorb tail (c_E C (last bl iv)).
Proof. exact async_cfb_dec_spec. Qed.
Print Assumptions C03_oneshot_cfb_dec.

(* one-shot CFB-8 from any register: the byte-level recurrence of the statement *)
Theorem C03_oneshot_cfb8 : forall (C : cipher), cipher_wf C -> forall (enc : bool) s x (al : bool) (inb outb : list N),
  length s = c_bs C -> length outb = length inb -> (al = true -> inb = outb) ->
  let k := if enc then KCfb8E else KCfb8D in
  snd (async_inout (bm_mbs C k) (bm_single C k) (bm_blocks C k) (s, x) al inb outb) =
    if enc then cfb8_enc_spec (c_E C) s inb else cfb8_dec_spec (c_E C) s inb.
Proof. exact async_cfb8_spec. Qed.
Print Assumptions C03_oneshot_cfb8.
