(* C03 -- theorems to be stated here. *)
