(* C16 -- theorems to be stated here. *)
