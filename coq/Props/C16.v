(* C16 -- clones and separate instances are independent, deterministic values: statements about the
   multi-instance machine that the extracted interpreter runs (Interp.step).
   The model is purely functional, so these are short; that the CODE has no hidden sharing (and that
   CtrCore's hand-written Clone copies everything) is what the correspondence runs establish, with
   multi-instance programs and state observers (gen/props/c16.py). *)
From BM Require Import BlockModes Plumbing Toy Ctr Belt Stream Cts Interp Machine_proofs.

(* an operation leaves every instance it neither names nor defines untouched *)
Theorem C16_frame : forall bs w dm s rs o j, ~ In j (op_reads o) -> op_defines o <> Some j ->
  lookup (fst (step bs w dm s rs o)) j = lookup s j.
Proof. exact step_frame. Qed.
Print Assumptions C16_frame.

(* results and the footprint's new contents depend only on the footprint's old contents *)
Theorem C16_local : forall bs w dm s1 s2 rs o,
  (forall id, In id (op_reads o) \/ op_defines o = Some id -> lookup s1 id = lookup s2 id) ->
  snd (step bs w dm s1 rs o) = snd (step bs w dm s2 rs o) /\
  (forall j, In j (op_reads o) \/ op_defines o = Some j ->
             lookup (fst (step bs w dm s1 rs o)) j = lookup (fst (step bs w dm s2 rs o)) j).
Proof. exact step_local. Qed.
Print Assumptions C16_local.

(* a clone holds the very value of the original (BelT-CTR objects are not Clone in /repo) *)
Theorem C16_clone : forall bs w dm s rs id newid ob, lookup s id = Some ob ->
  (match ob with OCore SBelt _ _ | OWrap SBelt _ _ => False | _ => True end) ->
  lookup (fst (step bs w dm s rs (OpClone id newid))) newid = Some ob.
Proof. exact step_clone. Qed.
Print Assumptions C16_clone.

(* clone_from overwrites the destination with the very value of the source (same type on both sides) *)
Theorem C16_clone_from : forall bs w dm s rs dst src ob,
  lookup (fst (step bs w dm s rs (OpCloneFrom dst src))) dst = Some ob ->
  snd (step bs w dm s rs (OpCloneFrom dst src)) = ROk -> lookup s src = Some ob.
Proof. exact step_clone_from. Qed.
Print Assumptions C16_clone_from.

Example C16_frame_nonvacuous : ~ In 4 (op_reads (OpIvState 3)) /\ op_defines (OpIvState 3) <> Some 4.
Proof. split; [cbn; intuition discriminate | discriminate]. Qed.
Print Assumptions C16_frame_nonvacuous.
