(* C04 -- CTR keystream uses the documented counter-block layout in all six flavours.
   One statement generic in the flavour (counter chunk size cs in bytes -- 4, 8, 16 in the code, any
   cs >= 1 here -- and endianness): for every block size that is a multiple of cs (iv = concat chs,
   chs <> [], every chunk of cs bytes), every IV of real bytes, every cipher E, every width:
   keystream block j from counter value i is E(layout(IV, i + j)); the layout replaces the counter
   field by (field + i) mod 2^bits and passes every other byte through; distinct counter values
   below 2^bits give distinct counter blocks; batching through the parallel path changes nothing. *)
From BM Require Import Ints Ints_proofs Ctr Stream Stream_proofs Ctr_proofs Interp Interp_proofs.

Theorem C04_layout : forall (F : flavor), 0 < f_cs F -> forall chs i,
  chs <> [] -> all_len (f_cs F) chs -> bytes_ok (concat chs) ->
  current_block F (mkcn i (cn_nonce (from_nonce F (concat chs)))) = layout F (concat chs) i.
Proof. exact current_block_layout. Qed.
Print Assumptions C04_layout.

Theorem C04_keystream : forall (F : flavor), 0 < f_cs F -> forall (C : cipher) chs n,
  chs <> [] -> all_len (f_cs F) chs -> bytes_ok (concat chs) -> forall i,
  ctr_gen_n F C n (mkcn i (cn_nonce (from_nonce F (concat chs)))) =
  (mkcn (if n =? 0 then i else wrap (f_bits F) (i + N.of_nat n)) (cn_nonce (from_nonce F (concat chs))),
   map (fun j => c_E C (layout F (concat chs) (i + N.of_nat j))) (seq 0 n)).
Proof. exact ctr_keystream. Qed.
Print Assumptions C04_keystream.

(* a fresh core starts at counter value 0 *)
Theorem C04_init : forall (F : flavor) iv, ctr_init F iv = mkcn 0 (cn_nonce (from_nonce F iv)).
Proof. reflexivity. Qed.
Print Assumptions C04_init.

(* every other IV byte is passed through unchanged; the wrapping counter never carries into the nonce *)
Theorem C04_nonce_untouched : forall (F : flavor) iv i, 0 < f_cs F -> f_cs F <= length iv ->
  length (layout F iv i) = length iv /\
  (if f_be F then firstn (length iv - f_cs F) (layout F iv i) = firstn (length iv - f_cs F) iv
   else skipn (f_cs F) (layout F iv i) = skipn (f_cs F) iv) /\
  layout F iv (wrap (f_bits F) i) = layout F iv i.
Proof. intros F iv i H0 H. split; [|split]; [now apply layout_length | now apply layout_nonce_untouched | apply layout_wrap]. Qed.
Print Assumptions C04_nonce_untouched.

Theorem C04_layout_injective : forall (F : flavor) iv i j, f_cs F <= length iv ->
  (i < pow2 (f_bits F))%N -> (j < pow2 (f_bits F))%N -> layout F iv i = layout F iv j -> i = j.
Proof. exact layout_inj. Qed.
Print Assumptions C04_layout_injective.

(* through the interpreter's dispatch: single, parallel and tail paths produce the same blocks,
   and the data is xored with them *)
Theorem C04_paths : forall (C : cipher) cs be n cn,
  ks_blocks (kscore C (SCtr cs be)) n (CCtr cn) =
  (let '(cn', bl) := ctr_gen_n (mkflavor cs be) C n cn in (CCtr cn', bl)).
Proof. intros C cs be n cn. destruct (kscore_ks_blocks C) as (H & _). rewrite H. apply kscore_ctr_gen_n. Qed.
Print Assumptions C04_paths.

Theorem C04_apply_xors : forall (St : Type) (K : score St) st cs,
  apply_ks_blocks K st cs = (fst (ks_blocks K (length cs) st), map2 xor_in2out cs (snd (ks_blocks K (length cs) st))).
Proof. intros St K st cs. unfold apply_ks_blocks. destruct (ks_blocks K (length cs) st); reflexivity. Qed.
Print Assumptions C04_apply_xors.

(* non-vacuity: a 12-byte IV with a 32-bit big-endian counter at 2^32 - 1: block 1 wraps the field
   to 0 and leaves the 8 nonce bytes alone *)
Example C04_example :
  let F := mkflavor 4 true in
  let chs := [[1;2;3;4]; [5;6;7;8]; [255;255;255;255]]%N in
  chs <> [] /\ all_len 4 chs /\ bytes_ok (concat chs) /\
  layout F (concat chs) 1 = [1;2;3;4;5;6;7;8;0;0;0;0]%N /\
  layout F (concat chs) 0 = concat chs.
Proof. cbn zeta. repeat split; try discriminate.
  - repeat constructor.
  - repeat (constructor; [reflexivity|]). constructor.
Qed.
Print Assumptions C04_example.
