(* C04 -- theorems to be stated here. *)
