(* C13 -- bad lengths are rejected without side effects; no operation panics.
   The model's results are [Ok _ | Err | Panic]; an Err carries no new memory or state, so "rejected
   without side effects" is the statement "= Err"; every usize subtraction, slice, unwrap of the
   transcribed bodies is a partial primitive that yields Panic where Rust would panic.
   The key/IV slice-length gates and the unequal-length gates of the *_b2b helpers live in the
   interpreter (Interp.step): C13_step_gates; and for EVERY operation of the interpreter an `err`
   result leaves the whole store as it was: C13_err_no_effect. *)
From BM Require Import BlockModes Plumbing Toy Ints Ctr Belt Stream Cts Cts_mem Stream_proofs Interp Wrapper_proofs Wrapper_inst Gates_proofs Cts_dec_proofs StepGates_proofs.
From Coq Require Import ZArith.

(* ciphertext stealing: shorter than one block is an error, for all six variants, both directions *)
Theorem C13_cts_short : forall C v enc iv m, mlen m < c_bs C -> cts_run C v enc iv m = Err.
Proof. exact cts_short_is_err. Qed.
Print Assumptions C13_cts_short.

(* ... and every input of at least one block is accepted by all twelve bodies -- arbitrary bytes, in
   place or buffer-to-buffer: no panic, no error, the buffer keeps its length *)
Theorem C13_cts_total : forall C, cipher_wf C -> forall v enc iv m, mwf m -> c_bs C <= mlen m -> length iv = c_bs C ->
  exists m', cts_run C v enc iv m = Ok m' /\ mlen m' = mlen m.
Proof. exact cts_total. Qed.
Print Assumptions C13_cts_total.

(* padded encryption: message longer than the buffer, or no room for the padding block, or NoPadding
   on a partial block; padded decryption: length not a multiple of the block size, or output too short *)
Theorem C13_padded_gates : forall (S : Type) (mbs : nat) (single : S -> cell -> S * cell)
    (blocks : S -> list cell -> S * list cell), 0 < mbs -> forall P st (al : bool) (inb outb buf : list N) msg_len,
  (length buf < msg_len -> enc_padded_ip mbs single blocks P st buf msg_len = Err) /\
  (length outb < length inb -> enc_padded_b2b mbs single blocks P st inb outb = Err) /\
  (length outb < mbs * (length inb / mbs) + mbs -> enc_padded_inout mbs single blocks Pkcs7 st al inb outb = Err) /\
  (length inb mod mbs <> 0 -> enc_padded_inout mbs single blocks NoPadding st al inb outb = Err) /\
  (length inb mod mbs <> 0 -> dec_padded_inout mbs blocks P st al inb outb = Err) /\
  (length outb < length inb -> dec_padded_b2b mbs blocks P st inb outb = Err).
Proof.
  intros S mbs single blocks Hm P st al inb outb buf msg_len. repeat split.
  - apply enc_padded_ip_gate. - apply enc_padded_b2b_gate. - apply enc_padded_pkcs7_room.
  - now apply enc_padded_nopad_partial. - now apply dec_padded_not_multiple. - apply dec_padded_b2b_short.
Qed.
Print Assumptions C13_padded_gates.

(* buffered CFB: from every exported state (pos <= bs, |iv| = bs) any input length is accepted *)
Theorem C13_buffered_cfb_no_panic : forall (C : cipher) set1 iv pos data, pos <= c_bs C -> length iv = c_bs C ->
  exists st' out, buf_apply C set1 (iv, pos) data = Ok (st', out).
Proof. exact buf_apply_no_panic. Qed.
Print Assumptions C13_buffered_cfb_no_panic.

(* keystream ciphers: a request either succeeds or is an error -- never a panic -- at any position *)
Theorem C13_ctr_apply_total : forall cs be (C : cipher) (nonce : list N), cipher_wf C -> c_bs C = cs * length nonce ->
  forall nb wst (al : bool) (inb outb : list N), CtrInv cs be C nonce nb wst ->
  length inb = length outb -> (al = true -> inb = outb) -> (N.of_nat (length outb) <= usize_max)%N ->
  try_apply (kscore C (SCtr cs be)) wst al inb outb <> Panic.
Proof.
  intros cs be C nonce Hw Hb nb wst al inb outb HI Hl Ha Hu.
  destruct (ctr_apply_spec cs be C nonce Hw Hb nb wst al inb outb HI Hl Ha Hu) as [Hs He].
  destruct (fits_dec (kscore C (SCtr cs be)) (ctr_limit cs) nb (wr_pos wst) (length outb)) as [Hf|Hf].
  - destruct (Hs Hf) as (w' & E & _). rewrite E. discriminate.
  - rewrite (He Hf). discriminate.
Qed.
Print Assumptions C13_ctr_apply_total.

(* seeks to non-negative targets and position queries never panic (block sizes are at most 255) *)
Theorem C13_seek_pos_no_panic : forall t bits p bs blk byte, 0 < bs -> bs < 256 -> (0 <= p)%Z ->
  into_block_byte t bits p bs <> Panic /\ from_block_byte t blk byte bs <> Panic.
Proof. intros. split; [now apply into_block_byte_no_panic | apply from_block_byte_no_panic]. Qed.
Print Assumptions C13_seek_pos_no_panic.

(* the interpreter the correspondence check runs: a refused operation changes no object at all *)
Theorem C13_err_no_effect : forall bs w dm s rs o, snd (step bs w dm s rs o) = RErr -> fst (step bs w dm s rs o) = s.
Proof. exact step_err_no_effect. Qed.
Print Assumptions C13_err_no_effect.

(* constructors from slices refuse wrong key / IV lengths; *_b2b helpers refuse unequal buffers *)
Theorem C13_step_gates : forall bs w dm s rs id k key iv,
  let ivlen := match k with KBlock bk => bm_ivlen (cph bs w dm (get_data rs key)) bk
                          | KCts (EcbCs1 | EcbCs2 | EcbCs3) => 0 | _ => bs end in
  (length (get_data rs key) <> 8 \/ length (get_data rs iv) <> ivlen ->
     step bs w dm s rs (OpNew id k HSlices key iv) = (s, RErr)) /\
  (length (get_data rs key) = 8 -> length (get_data rs iv) <> ivlen ->
     step bs w dm s rs (OpNew id k HInnerSlice key iv) = (s, RErr)) /\
  (forall bk bkey st d j, lookup s id = Some (OBlock bk bkey st) ->
     length (get_data rs d) <> length (get_data rs j) ->
     (length (get_data rs d) mod bm_mbs (cph bs w dm bkey) bk = 0 -> length (get_data rs j) mod bm_mbs (cph bs w dm bkey) bk = 0 ->
        step bs w dm s rs (OpBlks id (PB2b d j)) = (s, RErr)) /\
     (bm_is_async bk = true -> step bs w dm s rs (OpAsync id (PB2b d j)) = (s, RErr))).
Proof.
  intros bs w dm s rs id k key iv ivlen. split; [apply new_from_slices_gate|]. split; [apply inner_iv_slice_gate|].
  intros bk bkey st d j Hl Hne. split.
  - intros Hd Hj. now apply (blocks_b2b_gate bs w dm s rs id bk bkey st d j).
  - intros Ha. now apply (async_b2b_gate bs w dm s rs id bk bkey st d j).
Qed.
Print Assumptions C13_step_gates.
