(* C13 -- theorems to be stated here. *)
