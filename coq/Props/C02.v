(* C02 -- CBC, PCBC and IGE compute exactly their defining recurrences, both directions.
   Every theorem: for every cipher (no hypothesis on E, D, their sizes or their relation), every
   IV/state, every list of cells (in place or buffer-to-buffer, any junk in the output side), and
   every schedule of single-block and multi-block calls covering the cells:
   final chaining state and output cells equal the textbook recurrence of Spec.v. *)
From BM Require Import BlockModes Spec BlockModes_proofs.

Theorem C02_cbc_enc : forall (C : cipher) sched iv cs, sched_total sched = length cs ->
  run_sched (cbc_enc_block C) cbc_enc_w (cbc_enc_par C) iv sched cs =
  (cbc_chain iv (cbc_enc_spec (c_E C) iv (map rd_in cs)),
   map2 wr_out cs (cbc_enc_spec (c_E C) iv (map rd_in cs))).
Proof. exact cbc_enc_sched. Qed.
Print Assumptions C02_cbc_enc.

Theorem C02_cbc_dec : forall (C : cipher) sched iv cs, sched_total sched = length cs ->
  run_sched (cbc_dec_block C) (cbc_dec_w C) (cbc_dec_par C) iv sched cs =
  (cbc_chain iv (map rd_in cs), map2 wr_out cs (cbc_dec_spec (c_D C) iv (map rd_in cs))).
Proof. exact cbc_dec_sched. Qed.
Print Assumptions C02_cbc_dec.

Theorem C02_pcbc_enc : forall (C : cipher) sched s cs, sched_total sched = length cs ->
  run_sched (pcbc_enc_block C) pcbc_enc_w (pcbc_enc_par C) s sched cs =
  (pcbc_chain s (map rd_in cs) (pcbc_enc_spec (c_E C) s (map rd_in cs)),
   map2 wr_out cs (pcbc_enc_spec (c_E C) s (map rd_in cs))).
Proof. exact pcbc_enc_sched. Qed.
Print Assumptions C02_pcbc_enc.

Theorem C02_pcbc_dec : forall (C : cipher) sched s cs, sched_total sched = length cs ->
  run_sched (pcbc_dec_block C) pcbc_dec_w (pcbc_dec_par C) s sched cs =
  (pcbc_chain s (pcbc_dec_spec (c_D C) s (map rd_in cs)) (map rd_in cs),
   map2 wr_out cs (pcbc_dec_spec (c_D C) s (map rd_in cs))).
Proof. exact pcbc_dec_sched. Qed.
Print Assumptions C02_pcbc_dec.

(* IGE: state (x, y) = (P_{i-1}, C_{i-1}); the IV is C_0 || P_0 *)
Theorem C02_ige_enc : forall (C : cipher) sched x y cs, sched_total sched = length cs ->
  run_sched (ige_enc_block C) ige_enc_w (ige_enc_par C) (x, y) sched cs =
  ((last (map rd_in cs) x, last (ige_enc_spec (c_E C) y x (map rd_in cs)) y),
   map2 wr_out cs (ige_enc_spec (c_E C) y x (map rd_in cs))).
Proof. exact ige_enc_sched. Qed.
Print Assumptions C02_ige_enc.

Theorem C02_ige_dec : forall (C : cipher) sched x y cs, sched_total sched = length cs ->
  run_sched (ige_dec_block C) ige_dec_w (ige_dec_par C) (x, y) sched cs =
  ((last (ige_dec_spec (c_D C) y x (map rd_in cs)) x, last (map rd_in cs) y),
   map2 wr_out cs (ige_dec_spec (c_D C) y x (map rd_in cs))).
Proof. exact ige_dec_sched. Qed.
Print Assumptions C02_ige_dec.

Theorem C02_ige_iv : forall (C : cipher) c0 p0, length c0 = c_bs C ->
  ige_init C (c0 ++ p0) = (p0, c0) /\ ige_iv_state (p0, c0) = c0 ++ p0.
Proof. intros C c0 p0 H. split; [now apply ige_init_split | reflexivity]. Qed.
Print Assumptions C02_ige_iv.

(* the written-out cells carry the spec as their output side and keep their input side *)
Theorem C02_outputs : forall cs vs, length cs = length vs ->
  map cout (map2 wr_out cs vs) = vs /\ map cin (map2 wr_out cs vs) = map cin cs.
Proof. intros cs vs H. split; [now apply map_cout_map2_wr_out | now apply map_cin_map2_wr_out]. Qed.
Print Assumptions C02_outputs.
