(* C14 -- theorems to be stated here. *)
