(* C14 -- alternative front-ends to the same mode are interchangeable.
   PARTIAL.  Proved here: OFB's block encryptor, block decryptor and keystream core are one function;
   a CTR / BelT core driven block-wise equals the byte-level cipher on whole blocks (any number of
   blocks, any width); the private CBC/ECB helpers of cts equal the cbc crate's recurrences / raw block
   encryption (so CS1/CS2 on whole blocks run exactly plain CBC through them); every construction route
   builds the same model object; buffered CFB = the CFB recurrence = block-level CFB (C14_buffered_vs_block_cfb);
   on whole blocks the six stealing variants, both directions, are plain CBC / raw block encryption
   with the CS3 exchange of the last two blocks (C14_cts_whole_blocks_enc, _dec).  One-shot CFB = buffered CFB
   (C14_oneshot_vs_buffered_cfb), hence = block CFB.  The OFB core block-wise (= the byte-level Ofb wrapper on whole
   blocks, C14_ofb_wrapper_vs_core) writes what the OFB block encryptor / decryptor writes (C14_ofb_core_vs_block_mode). *)
From BM Require Import BlockModes Spec BlockModes_proofs Plumbing Toy Ints Ctr Belt Stream Cts Cts_mem Cts_spec Cts_cs_proofs Cts_dec_proofs Stream_proofs Cts_proofs
  Interp Interp_proofs Wrapper_proofs Wrapper_inst Outcome Buf_proofs Async_proofs OfbFront_proofs.

(* OFB: three of the four front-ends at block level *)
Theorem C14_ofb_frontends : forall (C : cipher) iv c,
  ofb_enc_block C iv c = ofb_dec_block C iv c /\
  apply_ks_block (kscore C SOfb) (COfb iv) c = (COfb (fst (ofb_enc_block C iv c)), snd (ofb_enc_block C iv c)).
Proof. intros C iv c. split; reflexivity. Qed.
Print Assumptions C14_ofb_frontends.

(* ... and the byte-level Ofb wrapper on whole blocks equals the core (fourth front-end) *)
Theorem C14_ofb_wrapper_vs_core : forall (C : cipher) iv, cipher_wf C -> length iv = c_bs C ->
  forall nb wst blocks, OfbInv C iv nb wst -> wr_pos wst = c_bs C -> all_len (c_bs C) blocks ->
  (N.of_nat (length (concat blocks)) <= usize_max)%N ->
  let K := kscore C SOfb in
  exists wst', try_apply K wst true (concat blocks) (concat blocks) =
               Ok (wst', outs_of (snd (apply_ks_blocks K (ofb_at C iv nb) (cells_ip blocks)))).
Proof.
  intros C iv Hw Hiv nb wst blocks HI Hp Hall Hus K.
  assert (Hb : 0 < sc_bs K) by (destruct Hw as (H & _); exact H).
  unfold OfbInv in HI.
  eapply (core_equals_wrapper K Hb (ofb_at C iv) (ofb_KB C iv) None); eauto.
  all: try (intros p; apply ofb_kb_len; assumption).
  all: try apply ofb_gen_at. all: try apply ofb_gen_closed. all: try apply ofb_par_at. all: try exact I.
  all: try (intros pp Hpp; reflexivity).
  all: try assumption.
Qed.
Print Assumptions C14_ofb_wrapper_vs_core.

(* ... and that is the block-mode encryptor's (= decryptor's) output from the corresponding chaining value *)
Theorem C14_ofb_core_vs_block_mode : forall (C : cipher) iv, cipher_wf C -> length iv = c_bs C ->
  forall nb (blocks : list block) sched, sched_total sched = length blocks ->
  outs_of (snd (apply_ks_blocks (kscore C SOfb) (ofb_at C iv nb) (cells_ip blocks))) =
  concat (map cout (snd (run_sched (ofb_enc_block C) ofb_w (ofb_enc_par C) (iter_E (c_E C) (N.to_nat nb) iv) sched (cells_ip blocks)))).
Proof.
  intros C iv Hw Hiv nb blocks sched Hs. rewrite (ofb_core_vs_block_enc C iv Hw Hiv).
  rewrite ofb_enc_sched by (unfold cells_ip; now rewrite map_length). cbn [snd].
  rewrite map_rd_in_ip. f_equal. symmetry. apply Cts_mem.map_cout_wr.
  unfold cells_ip. now rewrite map_length, RoundTrip_proofs.ofb_spec_length.
Qed.
Print Assumptions C14_ofb_core_vs_block_mode.

(* CTR (every flavour): CtrCore driven block-wise = byte-level wrapper on whole blocks *)
Theorem C14_ctr_core_vs_wrapper : forall cs be (C : cipher) (nonce : list N), cipher_wf C -> c_bs C = cs * length nonce ->
  forall nb wst blocks, CtrInv cs be C nonce nb wst -> wr_pos wst = c_bs C -> all_len (c_bs C) blocks ->
  (N.of_nat (length (concat blocks)) <= usize_max)%N ->
  let K := kscore C (SCtr cs be) in
  fits K (ctr_limit cs) nb (c_bs C) (length (concat blocks)) ->
  exists wst', try_apply K wst true (concat blocks) (concat blocks) =
               Ok (wst', outs_of (snd (apply_ks_blocks K (ctr_at nonce nb) (cells_ip blocks)))).
Proof.
  intros cs be C nonce Hw Hbs nb wst blocks HI Hp Hall Hus K Hfit.
  unfold CtrInv in HI.
  eapply (core_equals_wrapper K (ctr_bs_pos cs be C Hw) (ctr_at nonce) (ctr_KB cs be C nonce) (ctr_limit cs)); eauto.
  all: try (intros p; apply ctr_kb_len; assumption).
  all: try apply ctr_gen_at. all: try apply ctr_gen_closed. all: try apply ctr_par_at. all: try apply ctr_rem_at.
  all: try assumption.

Qed.
Print Assumptions C14_ctr_core_vs_wrapper.

(* cts: its private helpers are the cbc crate's CBC and raw block encryption, for every width *)
Theorem C14_cts_helpers : forall (C : cipher) iv st cs,
  cts_cbc_enc C iv cs = fold_cells (cbc_enc_block C) iv cs /\
  cts_cbc_dec C iv cs = fold_cells (cbc_dec_block C) iv cs /\
  cts_ecb_enc C st cs = (tt, map2 wr_out cs (map (c_E C) (map rd_in cs))) /\
  cts_ecb_dec C st cs = (tt, map2 wr_out cs (map (c_D C) (map rd_in cs))).
Proof.
  intros C iv st cs. split; [reflexivity|]. split; [|split].
  - rewrite cts_cbc_dec_eq, cbc_dec_fold. reflexivity.
  - apply cts_ecb_enc_eq.
  - apply cts_ecb_dec_eq.
Qed.
Print Assumptions C14_cts_helpers.

(* on a whole number of blocks CBC-CS1 and CBC-CS2 are plain CBC, ECB-CS1/CS2 raw block encryption;
   CS3 is the same with the last two blocks exchanged (cs3_layout _ bs; identity for one block) *)
Theorem C14_cts_whole_blocks_enc : forall (C : cipher), cipher_wf C -> forall iv m (blocks : list block),
  length iv = c_bs C -> msg_mem C m blocks [] ->
  (exists m', cbc_cs1_enc C iv m = Ok m' /\ m_out m' = concat (cbc_enc_spec (c_E C) iv blocks)) /\
  (exists m', cbc_cs2_enc C iv m = Ok m' /\ m_out m' = concat (cbc_enc_spec (c_E C) iv blocks)) /\
  (exists m', cbc_cs3_enc C iv m = Ok m' /\ m_out m' = cs3_layout (cbc_enc_spec (c_E C) iv blocks) (c_bs C)) /\
  (exists m', ecb_cs1_enc C m = Ok m' /\ m_out m' = concat (map (c_E C) blocks)) /\
  (exists m', ecb_cs2_enc C m = Ok m' /\ m_out m' = concat (map (c_E C) blocks)) /\
  (exists m', ecb_cs3_enc C m = Ok m' /\ m_out m' = cs3_layout (map (c_E C) blocks) (c_bs C)).
Proof. exact cts_whole_enc. Qed.
Print Assumptions C14_cts_whole_blocks_enc.

Theorem C14_cts_whole_blocks_dec : forall (C : cipher), cipher_wf C -> forall iv m (cb : list block),
  length iv = c_bs C -> msg_mem C m cb [] ->
  (exists m', cbc_cs1_dec C iv m = Ok m' /\ m_out m' = concat (cbc_dec_spec (c_D C) iv cb)) /\
  (exists m', cbc_cs2_dec C iv m = Ok m' /\ m_out m' = concat (cbc_dec_spec (c_D C) iv cb)) /\
  (exists m', ecb_cs1_dec C m = Ok m' /\ m_out m' = concat (map (c_D C) cb)) /\
  (exists m', ecb_cs2_dec C m = Ok m' /\ m_out m' = concat (map (c_D C) cb)) /\
  (exists m', ecb_cs3_dec C m = Ok m' /\ m_out m' = cs3_layout (map (c_D C) cb) (c_bs C)).
Proof. exact cts_whole_dec. Qed.
Print Assumptions C14_cts_whole_blocks_dec.

Theorem C14_cbc_cs3_whole_blocks_dec : forall (C : cipher), cipher_wf C -> forall iv m (pre : list block) (a b : block),
  length iv = c_bs C -> all_len (c_bs C) pre -> length a = c_bs C -> length b = c_bs C -> mwf m ->
  msrc m = concat pre ++ b ++ a ->
  exists m', cbc_cs3_dec C iv m = Ok m' /\ m_out m' = concat (cbc_dec_spec (c_D C) iv (pre ++ [a; b])).
Proof. exact cbc_cs3_whole_dec. Qed.
Print Assumptions C14_cbc_cs3_whole_blocks_dec.

(* constructing from key bytes, from an already keyed cipher, or from slices builds the same object:
   the route is not even an input of the model's constructor once the lengths are right *)
Theorem C14_construction_routes : forall bs w dm s rs id k key iv h1 h2,
  length (get_data rs key) = 8 ->
  length (get_data rs iv) = (match k with KBlock bk => bm_ivlen (cph bs w dm (get_data rs key)) bk
                                      | KCts (EcbCs1 | EcbCs2 | EcbCs3) => 0 | _ => bs end) ->
  step bs w dm s rs (OpNew id k h1 key iv) = step bs w dm s rs (OpNew id k h2 key iv).
Proof.
  intros bs w dm s rs id k key iv h1 h2 Hk Hiv. cbn [step]. rewrite Hk, Hiv, !Nat.eqb_refl. reflexivity.
Qed.
Print Assumptions C14_construction_routes.

(* buffered CFB = block-level CFB on whole blocks: both produce concat (cfb_*_spec), the block-level
   statement being Props/C03.v C03_cfb_enc / C03_cfb_dec *)
Theorem C14_buffered_vs_block_cfb : forall (C : cipher), (forall x, length x = c_bs C -> length (c_E C x) = c_bs C) -> 0 < c_bs C ->
  forall sched iv cs, length iv = c_bs C -> all_len (c_bs C) (map rd_in cs) -> sched_total sched = length cs ->
  exists st', buf_apply C true (buf_init C iv) (concat (map rd_in cs)) =
    Ok (st', concat (map cout (snd (run_sched (cfb_enc_block C) cfb_enc_w (cfb_enc_par C) (cfb_init C iv) sched cs)))).
Proof.
  intros C HE Hb sched iv cs Hiv Hall Hs.
  destruct (buf_enc_spec C HE Hb iv (map rd_in cs) [] Hiv Hall Hb) as (st' & E1).
  exists st'. rewrite app_nil_r in E1. rewrite E1. f_equal. f_equal. cbn [xorb]. rewrite app_nil_r.
  unfold cfb_init. rewrite cfb_enc_sched by auto. cbn [snd]. rewrite <- cfb_enc_spec_st.
  rewrite map_cout_map2_wr_out; [reflexivity|]. rewrite cfb_enc_spec_st. clear.
  generalize (c_E C iv). induction cs as [|c cs IH]; intros s; simpl; auto.
Qed.
Print Assumptions C14_buffered_vs_block_cfb.

(* one-shot CFB from a fresh object writes the very bytes of the buffered type (BufEncryptor::encrypt /
   BufDecryptor::decrypt called once on the whole message), for every length, in place or b2b *)
Theorem C14_oneshot_vs_buffered_cfb : forall (C : cipher), cipher_wf C -> forall (enc : bool) iv (al : bool) (inb outb : list N),
  length iv = c_bs C -> length outb = length inb -> (al = true -> inb = outb) ->
  let k := if enc then KCfbE else KCfbD in
  exists st', buf_apply C enc (buf_init C iv) inb =
    Ok (st', snd (async_inout (bm_mbs C k) (bm_single C k) (bm_blocks C k) (bm_init C k iv) al inb outb)).
Proof. exact async_cfb_eq_buf_apply. Qed.
Print Assumptions C14_oneshot_vs_buffered_cfb.
