(* Base.v -- bytes, xor, chunking and the list lemmas the rest of the development uses.
   Stdlib only.  Bytes are [N]; a real byte satisfies [x < 256] (predicate [wfb]). *)
From Coq Require Export List NArith Arith Lia Bool.
Export ListNotations.

Arguments N.add : simpl never.
Arguments N.sub : simpl never.
Arguments N.mul : simpl never.
Arguments N.modulo : simpl never.
Arguments N.div : simpl never.
Arguments N.pow : simpl never.
Arguments N.eqb : simpl never.
Arguments N.ltb : simpl never.
Arguments N.leb : simpl never.

Definition byte := N.
Definition block := list N.

(* ---------------------------------------------------------------------------------------------- *)
(* xor of byte strings: Rust's `a.iter_mut().zip(b)` -- stops at the shorter one.                   *)

Fixpoint xorb (a b : list N) : list N :=
  match a, b with
  | x :: a', y :: b' => N.lxor x y :: xorb a' b'
  | _, _ => []
  end.

Definition zeros (n : nat) : list N := repeat 0%N n.

Lemma xorb_length a b : length (xorb a b) = Nat.min (length a) (length b).
Proof. revert b; induction a as [|x a IH]; intros [|y b]; simpl; auto. Qed.

Lemma xorb_length_eq a b : length a = length b -> length (xorb a b) = length a.
Proof. intros H; rewrite xorb_length, H, Nat.min_id; auto. Qed.

Lemma xorb_comm a b : xorb a b = xorb b a.
Proof. revert b; induction a as [|x a IH]; intros [|y b]; simpl; auto.
  now rewrite N.lxor_comm, IH. Qed.

Lemma xorb_assoc a b c : xorb (xorb a b) c = xorb a (xorb b c).
Proof. revert b c; induction a as [|x a IH]; intros [|y b] [|z c]; simpl; auto.
  now rewrite N.lxor_assoc, IH. Qed.

Lemma xorb_nilpotent a : xorb a a = zeros (length a).
Proof. induction a as [|x a IH]; simpl; auto. now rewrite N.lxor_nilpotent, IH. Qed.

Lemma xorb_zeros_r a n : length a <= n -> xorb a (zeros n) = a.
Proof. revert n; induction a as [|x a IH]; intros [|n] H; simpl in *; auto; try lia.
  rewrite N.lxor_0_r. f_equal. apply IH. lia. Qed.

Lemma xorb_zeros_l a n : length a <= n -> xorb (zeros n) a = a.
Proof. intros; rewrite xorb_comm; now apply xorb_zeros_r. Qed.

Lemma xorb_cancel_r a b : length a <= length b -> xorb (xorb a b) b = a.
Proof. intros H. rewrite xorb_assoc, xorb_nilpotent. now apply xorb_zeros_r. Qed.

Lemma xorb_cancel_l a b : length b <= length a -> xorb a (xorb a b) = b.
Proof. intros H. rewrite <- xorb_assoc, xorb_nilpotent. now apply xorb_zeros_l. Qed.

Lemma xorb_nil_r a : xorb a [] = [].
Proof. destruct a; auto. Qed.

Lemma xorb_app a1 a2 b1 b2 : length a1 = length b1 ->
  xorb (a1 ++ a2) (b1 ++ b2) = xorb a1 b1 ++ xorb a2 b2.
Proof. revert b1; induction a1 as [|x a1 IH]; intros [|y b1] H; simpl in *; try discriminate; auto.
  f_equal. apply IH. lia. Qed.

Lemma firstn_xorb n a b : firstn n (xorb a b) = xorb (firstn n a) (firstn n b).
Proof. revert a b; induction n as [|n IH]; intros [|x a] [|y b]; simpl; auto.
  now rewrite IH. Qed.

Lemma skipn_xorb n a b : skipn n (xorb a b) = xorb (skipn n a) (skipn n b).
Proof. revert a b; induction n as [|n IH]; intros [|x a] [|y b]; simpl; auto.
  now rewrite xorb_nil_r. Qed.

Lemma xorb_inj_l a b c : length a = length c -> length b = length c -> xorb a c = xorb b c -> a = b.
Proof. intros Ha Hb H. rewrite <- (xorb_cancel_r a c), H, xorb_cancel_r; auto; lia. Qed.

(* xor with the shorter right operand only touches a prefix (Rust zip leaves the rest alone):
   [xor_into a b] is `for (x, y) in a.iter_mut().zip(b) { *x ^= *y }`, returning the new a. *)
Definition xor_into (a b : list N) : list N := xorb a b ++ skipn (length b) a.

Lemma xor_into_eq a b : length a = length b -> xor_into a b = xorb a b.
Proof. intros H. unfold xor_into. rewrite <- H, skipn_all, app_nil_r; auto. Qed.

Lemma xor_into_length a b : length (xor_into a b) = length a.
Proof. unfold xor_into. rewrite app_length, xorb_length, skipn_length. lia. Qed.

(* ---------------------------------------------------------------------------------------------- *)
(* well-formed byte strings                                                                         *)

Definition wfb (n : nat) (x : list N) : bool :=
  Nat.eqb (length x) n && forallb (fun b => N.ltb b 256) x.

Definition bytes_ok (x : list N) : Prop := Forall (fun b => (b < 256)%N) x.

Lemma wfb_spec n x : wfb n x = true <-> length x = n /\ bytes_ok x.
Proof. unfold wfb, bytes_ok. rewrite andb_true_iff, Nat.eqb_eq, forallb_forall, Forall_forall.
  split; intros [H1 H2]; split; auto; intros b Hb; specialize (H2 b Hb); now apply N.ltb_lt. Qed.

Lemma lxor_lt_256 a b : (a < 256)%N -> (b < 256)%N -> (N.lxor a b < 256)%N.
Proof.
  intros Ha Hb.
  destruct (N.eq_dec (N.lxor a b) 0) as [E|E]; [rewrite E; reflexivity|].
  apply N.log2_lt_pow2 with (b := 8%N); [lia|].
  eapply N.le_lt_trans; [apply N.log2_lxor|].
  apply N.max_lub_lt.
  - destruct (N.eq_dec a 0) as [->|Na]; [reflexivity|]. apply N.log2_lt_pow2; lia.
  - destruct (N.eq_dec b 0) as [->|Nb]; [reflexivity|]. apply N.log2_lt_pow2; lia.
Qed.

Lemma bytes_ok_xorb a b : bytes_ok a -> bytes_ok b -> bytes_ok (xorb a b).
Proof. unfold bytes_ok. revert b; induction a as [|x a IH]; intros [|y b] Ha Hb; simpl; auto.
  inversion Ha; inversion Hb; subst. constructor; auto using lxor_lt_256. Qed.

Lemma bytes_ok_app a b : bytes_ok (a ++ b) <-> bytes_ok a /\ bytes_ok b.
Proof. apply Forall_app. Qed.

Lemma bytes_ok_firstn n a : bytes_ok a -> bytes_ok (firstn n a).
Proof. intros H. apply Forall_forall. intros x Hx. eapply Forall_forall in H; eauto.
  rewrite <- (firstn_skipn n a). apply in_or_app; auto. Qed.

Lemma bytes_ok_skipn n a : bytes_ok a -> bytes_ok (skipn n a).
Proof. intros H. apply Forall_forall. intros x Hx. eapply Forall_forall in H; eauto.
  rewrite <- (firstn_skipn n a). apply in_or_app; auto. Qed.

Lemma bytes_ok_zeros n : bytes_ok (zeros n).
Proof. apply Forall_forall. intros x Hx. apply repeat_spec in Hx. subst. reflexivity. Qed.

Lemma zeros_length n : length (zeros n) = n.
Proof. apply repeat_length. Qed.

(* ---------------------------------------------------------------------------------------------- *)
(* firstn / skipn lemmas missing from the 8.16 library                                              *)

Lemma skipn_skipn {A} n m (l : list A) : skipn n (skipn m l) = skipn (m + n) l.
Proof. revert l; induction m as [|m IH]; intros l; simpl; auto. destruct l; simpl; auto.
  now destruct n. Qed.

Lemma firstn_app_exact {A} (a b : list A) n : n = length a -> firstn n (a ++ b) = a.
Proof. intros ->. rewrite firstn_app, Nat.sub_diag, firstn_all. simpl. now rewrite app_nil_r. Qed.

Lemma skipn_app_exact {A} (a b : list A) n : n = length a -> skipn n (a ++ b) = b.
Proof. intros ->. rewrite skipn_app, Nat.sub_diag, skipn_all. reflexivity. Qed.

Lemma firstn_length_le' {A} (l : list A) n : length (firstn n l) = Nat.min n (length l).
Proof. apply firstn_length. Qed.

(* ---------------------------------------------------------------------------------------------- *)
(* chunking: `into_chunks` / `chunks_exact` -- whole chunks of size n and the remainder (< n)        *)

Fixpoint chunks_aux {A} (fuel n : nat) (l : list A) : list (list A) * list A :=
  match fuel with
  | O => ([], l)
  | S f => if length l <? n then ([], l)
           else let '(cs, t) := chunks_aux f n (skipn n l) in (firstn n l :: cs, t)
  end.

Definition chunks {A} (n : nat) (l : list A) : list (list A) * list A :=
  chunks_aux (length l) n l.

Definition all_len {A} (n : nat) (bl : list (list A)) : Prop := Forall (fun b => length b = n) bl.

Lemma all_len_concat_length {A} n (bl : list (list A)) :
  all_len n bl -> length (concat bl) = length bl * n.
Proof. induction 1 as [|b bl Hb _ IH]; simpl; auto. rewrite app_length, IH, Hb. lia. Qed.

Lemma chunks_aux_concat {A} n (bl : list (list A)) t fuel :
  0 < n -> all_len n bl -> length t < n -> length (concat bl ++ t) <= fuel ->
  chunks_aux fuel n (concat bl ++ t) = (bl, t).
Proof.
  intros Hn Hbl Ht. revert fuel. induction Hbl as [|b bl Hb Hbl IH]; intros fuel Hf.
  - simpl in *. destruct fuel; simpl; auto.
    destruct (Nat.ltb_spec (length t) n); auto; lia.
  - simpl in *. rewrite <- app_assoc in *. rewrite app_length in Hf.
    destruct fuel as [|fuel]; [lia|]. simpl.
    destruct (Nat.ltb_spec (length (b ++ concat bl ++ t)) n) as [Hl|Hl].
    + rewrite app_length in Hl. lia.
    + rewrite skipn_app_exact, firstn_app_exact by auto. rewrite IH by lia. reflexivity.
Qed.

Lemma chunks_concat {A} n (bl : list (list A)) t :
  0 < n -> all_len n bl -> length t < n -> chunks n (concat bl ++ t) = (bl, t).
Proof. intros. unfold chunks. apply chunks_aux_concat; auto. Qed.

Lemma chunks_aux_inv {A} n fuel (l : list A) :
  0 < n -> length l <= fuel ->
  let '(bl, t) := chunks_aux fuel n l in l = concat bl ++ t /\ all_len n bl /\ length t < n.
Proof.
  intros Hn. revert l. induction fuel as [|fuel IH]; intros l Hl.
  - simpl. destruct l; simpl in *; try lia. repeat split; auto. constructor.
  - simpl. destruct (Nat.ltb_spec (length l) n) as [H|H].
    + repeat split; auto. constructor.
    + specialize (IH (skipn n l)). rewrite skipn_length in IH.
      destruct (chunks_aux fuel n (skipn n l)) as [cs t].
      destruct IH as (E & Hall & Ht); [lia|]. repeat split; auto.
      * simpl. rewrite <- app_assoc, <- E. now rewrite firstn_skipn.
      * constructor; auto. rewrite firstn_length. lia.
Qed.

Lemma chunks_inv {A} n (l : list A) : 0 < n ->
  let '(bl, t) := chunks n l in l = concat bl ++ t /\ all_len n bl /\ length t < n.
Proof. intros. unfold chunks. apply chunks_aux_inv; auto. Qed.

(* every list is, uniquely, whole blocks followed by a short tail *)
Lemma chunks_decompose {A} n (l : list A) : 0 < n ->
  exists bl t, l = concat bl ++ t /\ all_len n bl /\ length t < n /\ chunks n l = (bl, t).
Proof. intros Hn. pose proof (chunks_inv n l Hn) as H. destruct (chunks n l) as [bl t].
  exists bl, t. tauto. Qed.

Lemma all_len_app {A} n (a b : list (list A)) : all_len n (a ++ b) <-> all_len n a /\ all_len n b.
Proof. apply Forall_app. Qed.

(* last element of a list with default *)
Lemma last_app_single {A} (l : list A) x d : last (l ++ [x]) d = x.
Proof. apply last_last. Qed.

Lemma last_cons_default {A} (l : list A) x d : last (x :: l) d = last l x.
Proof. revert x d; induction l as [|y l IH]; intros x d; auto.
  change (last (x :: y :: l) d) with (last (y :: l) d). now rewrite !IH. Qed.
