(* Spec.v -- textbook definitions of the modes, over lists of blocks / bytes, as the property
   statements word them.  No cells, no batching, no state objects. *)
From BM Require Export Cipher.

Section Spec.
  Variables E D : block -> block.

  (* CBC: C_i = E(P_i xor C_{i-1}), C_0 = IV;  P_i = D(C_i) xor C_{i-1} *)
  Fixpoint cbc_enc_spec (iv : block) (ps : list block) : list block :=
    match ps with [] => [] | p :: ps' => let c := E (xorb p iv) in c :: cbc_enc_spec c ps' end.
  Fixpoint cbc_dec_spec (iv : block) (cs : list block) : list block :=
    match cs with [] => [] | c :: cs' => xorb (D c) iv :: cbc_dec_spec c cs' end.
  (* public chaining value after processing: the last ciphertext block (IV if none) *)
  Definition cbc_chain (iv : block) (cs : list block) : block := last cs iv.

  (* PCBC: C_i = E(P_i xor S_{i-1}), S_0 = IV, S_i = P_i xor C_i *)
  Fixpoint pcbc_enc_spec (s : block) (ps : list block) : list block :=
    match ps with [] => [] | p :: ps' => let c := E (xorb p s) in c :: pcbc_enc_spec (xorb p c) ps' end.
  Fixpoint pcbc_dec_spec (s : block) (cs : list block) : list block :=
    match cs with [] => [] | c :: cs' => let p := xorb (D c) s in p :: pcbc_dec_spec (xorb p c) cs' end.
  (* chaining value S_n given the plaintext and ciphertext sequences *)
  Fixpoint pcbc_chain (s : block) (ps cs : list block) : block :=
    match ps, cs with p :: ps', c :: cs' => pcbc_chain (xorb p c) ps' cs' | _, _ => s end.

  (* IGE: C_i = E(P_i xor C_{i-1}) xor P_{i-1}; IV = C_0 || P_0;  P_i = D(C_i xor P_{i-1}) xor C_{i-1} *)
  Fixpoint ige_enc_spec (c0 p0 : block) (ps : list block) : list block :=
    match ps with [] => [] | p :: ps' => let c := xorb (E (xorb p c0)) p0 in c :: ige_enc_spec c p ps' end.
  Fixpoint ige_dec_spec (c0 p0 : block) (cs : list block) : list block :=
    match cs with [] => [] | c :: cs' => let p := xorb (D (xorb c p0)) c0 in p :: ige_dec_spec c p cs' end.

  (* CFB (full block): C_i = P_i xor E(C_{i-1}), C_0 = IV *)
  Fixpoint cfb_enc_spec (iv : block) (ps : list block) : list block :=
    match ps with [] => [] | p :: ps' => let c := xorb p (E iv) in c :: cfb_enc_spec c ps' end.
  Fixpoint cfb_dec_spec (iv : block) (cs : list block) : list block :=
    match cs with [] => [] | c :: cs' => xorb c (E iv) :: cfb_dec_spec c cs' end.

  (* CFB-8: c_j = p_j xor first_byte(E(S_j)); S_{j+1} = (S_j << 8) | c_j *)
  Fixpoint cfb8_enc_spec (s : block) (ps : list N) : list N :=
    match ps with [] => [] | p :: ps' =>
      let c := N.lxor p (hd 0%N (E s)) in c :: cfb8_enc_spec (skipn 1 s ++ [c]) ps' end.
  Fixpoint cfb8_dec_spec (s : block) (cs : list N) : list N :=
    match cs with [] => [] | c :: cs' =>
      N.lxor c (hd 0%N (E s)) :: cfb8_dec_spec (skipn 1 s ++ [c]) cs' end.
  (* register after processing ciphertext bytes cs *)
  Fixpoint cfb8_reg (s : block) (cs : list N) : block :=
    match cs with [] => s | c :: cs' => cfb8_reg (skipn 1 s ++ [c]) cs' end.

  (* OFB: O_i = E(O_{i-1}), O_0 = IV; out_i = in_i xor O_i *)
  Fixpoint ofb_ks (iv : block) (n : nat) : list block :=
    match n with O => [] | S n' => let o := E iv in o :: ofb_ks o n' end.
  Fixpoint iter_E (n : nat) (x : block) : block := match n with O => x | S n' => E (iter_E n' x) end.
  Fixpoint ofb_spec (iv : block) (ps : list block) : list block :=
    match ps with [] => [] | p :: ps' => let o := E iv in xorb p o :: ofb_spec o ps' end.
End Spec.

(* state-passing forms used by the proofs: s is the *encrypted* chaining value E(C_{i-1}) that the
   cfb-mode objects store *)
Section SpecSt.
  Variable E : block -> block.
  Fixpoint cfb_enc_st (s : block) (ps : list block) : list block :=
    match ps with [] => [] | p :: ps' => let c := xorb p s in c :: cfb_enc_st (E c) ps' end.
  Fixpoint cfb_dec_st (s : block) (cs : list block) : list block :=
    match cs with [] => [] | c :: cs' => xorb c s :: cfb_dec_st (E c) cs' end.

  Lemma cfb_enc_spec_st iv ps : cfb_enc_spec E iv ps = cfb_enc_st (E iv) ps.
  Proof. revert iv; induction ps as [|p ps IH]; intros iv; simpl; auto. now rewrite IH. Qed.
  Lemma cfb_dec_spec_st iv cs : cfb_dec_spec E iv cs = cfb_dec_st (E iv) cs.
  Proof. revert iv; induction cs as [|c cs IH]; intros iv; simpl; auto. now rewrite IH. Qed.

  (* CFB-8 at the granularity of the implementation: one-byte blocks *)
  Fixpoint cfb8_enc_bspec (s : block) (ps : list block) : list block :=
    match ps with [] => [] | p :: ps' =>
      let c := xorb p (firstn 1 (E s)) in c :: cfb8_enc_bspec (skipn 1 s ++ firstn 1 c) ps' end.
  Fixpoint cfb8_dec_bspec (s : block) (cs : list block) : list block :=
    match cs with [] => [] | c :: cs' =>
      xorb c (firstn 1 (E s)) :: cfb8_dec_bspec (skipn 1 s ++ firstn 1 c) cs' end.
  Fixpoint cfb8_breg (s : block) (cs : list block) : block :=
    match cs with [] => s | c :: cs' => cfb8_breg (skipn 1 s ++ firstn 1 c) cs' end.
End SpecSt.
