(* Belt_proofs.v -- C06: BelT-CTR keystream: s0 = le128(E(IV)); block i (i >= 1) = E(le128((s0 + i) mod 2^128)). *)
From BM Require Import Ints Ints_proofs Belt Stream_proofs.
From Coq Require Import ZArith Lia.

Section BeltKs.
  Variable C : cipher.

  Theorem belt_keystream : forall n s si,
    belt_gen_n C n (mkbelt s si) =
    (mkbelt (if n =? 0 then s else wrap 128 (s + N.of_nat n)) si,
     map (fun j => c_E C (le_encode 16 (wrap 128 (s + N.of_nat (S j))))) (seq 0 n)).
  Proof.
    intros n; induction n as [|n IH]; intros s si; [reflexivity|].
    cbn [belt_gen_n]. unfold belt_gen at 1. cbn [b_s b_s_init]. rewrite IH.
    cbn [seq map Nat.eqb]. f_equal.
    - f_equal. destruct n as [|m]; [reflexivity|]. cbn [Nat.eqb].
      unfold wrap. rewrite N.add_mod_idemp_l by (apply N.neq_0_lt_0, pow2_pos).
      replace (s + N.of_nat (S (S m)))%N with (s + 1 + N.of_nat (S m))%N by lia. reflexivity.
    - f_equal. rewrite <- seq_shift, map_map. apply map_ext. intros j.
      unfold wrap. rewrite N.add_mod_idemp_l by (apply N.neq_0_lt_0, pow2_pos).
      replace (s + N.of_nat (S (S j)))%N with (s + 1 + N.of_nat (S j))%N by lia. reflexivity.
  Qed.

  Theorem belt_from_iv n iv :
    belt_gen_n C n (belt_init C iv) =
    (mkbelt (if n =? 0 then le_decode (c_E C iv) else wrap 128 (le_decode (c_E C iv) + N.of_nat n)) (le_decode (c_E C iv)),
     map (fun j => c_E C (le_encode 16 (wrap 128 (le_decode (c_E C iv) + N.of_nat (S j))))) (seq 0 n)).
  Proof. unfold belt_init. apply belt_keystream. Qed.

  (* position bookkeeping *)
  Lemma belt_pos_after n s : (s < pow2 128)%N -> (N.of_nat n < pow2 128)%N ->
    belt_get_pos (mkbelt (wrap 128 (s + N.of_nat n)) s) = N.of_nat n.
  Proof.
    intros Hs Hn. unfold belt_get_pos, belt_used, M128, wrap. cbn [b_s b_s_init].
    assert (P := pow2_pos 128). set (M := pow2 128) in *.
    rewrite <- N.add_sub_assoc by lia.
    rewrite N.add_mod_idemp_l by lia.
    replace (s + N.of_nat n + (M - s))%N with (N.of_nat n + 1 * M)%N by lia.
    rewrite N.mod_add by lia. apply N.mod_small. lia.
  Qed.

  Lemma belt_set_get s p : (s < pow2 128)%N -> (p < pow2 128)%N ->
    belt_get_pos (belt_set_pos (mkbelt s s) p) = p.
  Proof.
    intros Hs Hp. unfold belt_set_pos, belt_get_pos, belt_used, M128, wrap. cbn [b_s b_s_init].
    assert (P := pow2_pos 128). set (M := pow2 128) in *.
    rewrite <- N.add_sub_assoc by lia. rewrite N.add_mod_idemp_l by lia.
    replace (s + p + (M - s))%N with (p + 1 * M)%N by lia.
    rewrite N.mod_add by lia. apply N.mod_small. lia.
  Qed.
End BeltKs.
