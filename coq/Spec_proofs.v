(* Spec_proofs.v -- facts about the textbook recurrences themselves: round trips (C01), resumption at
   a cut point (C09), causality and error propagation (C15). *)
From BM Require Import Spec.

Section RoundTrip.
  Variables (bs : nat) (E D : block -> block).
  Hypothesis E_len : forall x, length x = bs -> length (E x) = bs.
  Hypothesis D_len : forall x, length x = bs -> length (D x) = bs.

  Lemma xorb_len a b : length a = bs -> length b = bs -> length (xorb a b) = bs.
  Proof. intros Ha Hb. rewrite xorb_length, Ha, Hb. apply Nat.min_id. Qed.

  Section Inv.
  Hypothesis DE : forall x, length x = bs -> D (E x) = x.

  Lemma cbc_roundtrip iv ps : length iv = bs -> all_len bs ps ->
    cbc_dec_spec D iv (cbc_enc_spec E iv ps) = ps.
  Proof.
    intros Hiv Hps; revert iv Hiv; induction Hps as [|p ps Hp _ IH]; intros iv Hiv; [reflexivity|].
    cbn [cbc_enc_spec cbc_dec_spec]. rewrite DE by (apply xorb_len; auto).
    rewrite xorb_cancel_r by lia. f_equal. apply IH. apply E_len, xorb_len; auto.
  Qed.

  Lemma pcbc_roundtrip s ps : length s = bs -> all_len bs ps ->
    pcbc_dec_spec D s (pcbc_enc_spec E s ps) = ps.
  Proof.
    intros Hs Hps; revert s Hs; induction Hps as [|p ps Hp _ IH]; intros s Hs; [reflexivity|].
    cbn [pcbc_enc_spec pcbc_dec_spec]. rewrite DE by (apply xorb_len; auto).
    rewrite xorb_cancel_r by lia. f_equal. apply IH. apply xorb_len; auto. apply E_len, xorb_len; auto.
  Qed.

  Lemma ige_roundtrip c0 p0 ps : length c0 = bs -> length p0 = bs -> all_len bs ps ->
    ige_dec_spec D c0 p0 (ige_enc_spec E c0 p0 ps) = ps.
  Proof.
    intros Hc Hp Hps; revert c0 p0 Hc Hp; induction Hps as [|p ps Hpl _ IH]; intros c0 p0 Hc Hp; [reflexivity|].
    cbn [ige_enc_spec ige_dec_spec].
    assert (He : length (E (xorb p c0)) = bs) by (apply E_len, xorb_len; auto).
    rewrite xorb_cancel_r by lia. rewrite DE by (apply xorb_len; auto).
    rewrite xorb_cancel_r by lia. f_equal. apply IH; auto. apply xorb_len; auto.
  Qed.
  End Inv.

  (* CFB, CFB-8, OFB: decryption uses E too; no inverse needed, E arbitrary (not even injective) *)
  Lemma cfb_roundtrip iv ps : length iv = bs -> all_len bs ps ->
    cfb_dec_spec E iv (cfb_enc_spec E iv ps) = ps.
  Proof.
    intros Hiv Hps; revert iv Hiv; induction Hps as [|p ps Hp _ IH]; intros iv Hiv; [reflexivity|].
    cbn [cfb_enc_spec cfb_dec_spec]. rewrite xorb_cancel_r by (rewrite E_len; auto; lia).
    f_equal. apply IH. apply xorb_len; auto.
  Qed.

  Lemma cfb8_roundtrip s ps : cfb8_dec_spec E s (cfb8_enc_spec E s ps) = ps.
  Proof.
    revert s; induction ps as [|p ps IH]; intros s; [reflexivity|].
    cbn [cfb8_enc_spec cfb8_dec_spec]. rewrite N.lxor_assoc, N.lxor_nilpotent, N.lxor_0_r. f_equal. apply IH.
  Qed.

  Lemma ofb_involutive iv ps : length iv = bs -> all_len bs ps -> ofb_spec E iv (ofb_spec E iv ps) = ps.
  Proof.
    intros Hiv Hps; revert iv Hiv; induction Hps as [|p ps Hp _ IH]; intros iv Hiv; [reflexivity|].
    cbn [ofb_spec]. rewrite xorb_cancel_r by (rewrite E_len; auto; lia). f_equal. apply IH. auto.
  Qed.

  (* lengths *)
  Lemma cbc_enc_spec_length iv ps : length (cbc_enc_spec E iv ps) = length ps.
  Proof. revert iv; induction ps as [|p ps IH]; intros iv; simpl; auto. Qed.
  Lemma cbc_dec_spec_length iv cs : length (cbc_dec_spec D iv cs) = length cs.
  Proof. revert iv; induction cs as [|c cs IH]; intros iv; simpl; auto. Qed.
  Lemma cbc_enc_spec_all_len iv ps : length iv = bs -> all_len bs ps -> all_len bs (cbc_enc_spec E iv ps).
  Proof. intros Hiv Hps; revert iv Hiv; induction Hps as [|p ps Hp _ IH]; intros iv Hiv; simpl; constructor.
    - apply E_len, xorb_len; auto.
    - apply IH. apply E_len, xorb_len; auto. Qed.
End RoundTrip.

(* ---- resumption: processing a ++ b = processing a, then b from the chaining value reached ---- *)
Section Resume.
  Variables E D : block -> block.

  Lemma cbc_enc_app iv a b :
    cbc_enc_spec E iv (a ++ b) = cbc_enc_spec E iv a ++ cbc_enc_spec E (cbc_chain iv (cbc_enc_spec E iv a)) b.
  Proof. revert iv; induction a as [|p a IH]; intros iv; [reflexivity|].
    cbn [app cbc_enc_spec]. rewrite IH. unfold cbc_chain. now rewrite last_cons_default. Qed.

  Lemma cbc_dec_app iv a b :
    cbc_dec_spec D iv (a ++ b) = cbc_dec_spec D iv a ++ cbc_dec_spec D (cbc_chain iv a) b.
  Proof. revert iv; induction a as [|c a IH]; intros iv; [reflexivity|].
    cbn [app cbc_dec_spec]. rewrite IH. unfold cbc_chain. now rewrite last_cons_default. Qed.

  Lemma cfb_enc_app iv a b :
    cfb_enc_spec E iv (a ++ b) = cfb_enc_spec E iv a ++ cfb_enc_spec E (last (cfb_enc_spec E iv a) iv) b.
  Proof. revert iv; induction a as [|p a IH]; intros iv; [reflexivity|].
    cbn [app cfb_enc_spec]. rewrite IH. now rewrite last_cons_default. Qed.

  Lemma cfb_dec_app iv a b :
    cfb_dec_spec E iv (a ++ b) = cfb_dec_spec E iv a ++ cfb_dec_spec E (last a iv) b.
  Proof. revert iv; induction a as [|c a IH]; intros iv; [reflexivity|].
    cbn [app cfb_dec_spec]. rewrite IH. now rewrite last_cons_default. Qed.

  Lemma pcbc_enc_app s a b :
    pcbc_enc_spec E s (a ++ b) = pcbc_enc_spec E s a ++ pcbc_enc_spec E (pcbc_chain s a (pcbc_enc_spec E s a)) b.
  Proof. revert s; induction a as [|p a IH]; intros s; [reflexivity|]. cbn [app pcbc_enc_spec pcbc_chain]. now rewrite IH. Qed.

  Lemma pcbc_dec_app s a b :
    pcbc_dec_spec D s (a ++ b) = pcbc_dec_spec D s a ++ pcbc_dec_spec D (pcbc_chain s (pcbc_dec_spec D s a) a) b.
  Proof. revert s; induction a as [|c a IH]; intros s; [reflexivity|]. cbn [app pcbc_dec_spec pcbc_chain]. now rewrite IH. Qed.

  Lemma ige_enc_app c0 p0 a b :
    ige_enc_spec E c0 p0 (a ++ b) =
    ige_enc_spec E c0 p0 a ++ ige_enc_spec E (last (ige_enc_spec E c0 p0 a) c0) (last a p0) b.
  Proof. revert c0 p0; induction a as [|p a IH]; intros c0 p0; [reflexivity|].
    cbn [app ige_enc_spec]. rewrite IH. now rewrite !last_cons_default. Qed.

  Lemma ige_dec_app c0 p0 a b :
    ige_dec_spec D c0 p0 (a ++ b) =
    ige_dec_spec D c0 p0 a ++ ige_dec_spec D (last a c0) (last (ige_dec_spec D c0 p0 a) p0) b.
  Proof. revert c0 p0; induction a as [|c a IH]; intros c0 p0; [reflexivity|].
    cbn [app ige_dec_spec]. rewrite IH. now rewrite !last_cons_default. Qed.

  Lemma cfb8_enc_app s a b :
    cfb8_enc_spec E s (a ++ b) = cfb8_enc_spec E s a ++ cfb8_enc_spec E (cfb8_reg s (cfb8_enc_spec E s a)) b.
  Proof. revert s; induction a as [|p a IH]; intros s; [reflexivity|]. cbn [app cfb8_enc_spec cfb8_reg]. now rewrite IH. Qed.

  Lemma cfb8_dec_app s a b :
    cfb8_dec_spec E s (a ++ b) = cfb8_dec_spec E s a ++ cfb8_dec_spec E (cfb8_reg s a) b.
  Proof. revert s; induction a as [|c a IH]; intros s; [reflexivity|]. cbn [app cfb8_dec_spec cfb8_reg]. now rewrite IH. Qed.

  Lemma ofb_app iv a b :
    ofb_spec E iv (a ++ b) = ofb_spec E iv a ++ ofb_spec E (iter_E E (length a) iv) b.
  Proof. revert iv; induction a as [|p a IH]; intros iv; [reflexivity|].
    cbn [app ofb_spec length]. rewrite IH. f_equal. f_equal. f_equal.
    clear. induction (length a) as [|n IHn]; simpl; auto. now rewrite IHn. Qed.
End Resume.
