(* Ints.v -- fixed-width integers as N with explicit wrap, little/big-endian byte encodings. *)
From BM Require Export Base.

Fixpoint le_encode (k : nat) (x : N) : list N :=
  match k with O => [] | S k' => (x mod 256)%N :: le_encode k' (x / 256)%N end.
Definition be_encode (k : nat) (x : N) : list N := rev (le_encode k x).

Fixpoint le_decode (l : list N) : N :=
  match l with [] => 0%N | b :: l' => (b + 256 * le_decode l')%N end.
Definition be_decode (l : list N) : N := le_decode (rev l).

Definition pow2 (bits : nat) : N := (2 ^ N.of_nat bits)%N.
Definition wrap (bits : nat) (x : N) : N := (x mod pow2 bits)%N.
Definition usize_max : N := (2 ^ 64 - 1)%N.

(* `v.try_into::<usize>().ok()` *)
Definition to_usize (x : N) : option N := if (x <=? usize_max)%N then Some x else None.
