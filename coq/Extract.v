(* Extract.v -- extraction of the executable model for the correspondence check.
   Only ExtrOcamlBasic is used (bool, option, unit, list, prod, sumbool, sumor -> OCaml natives);
   nat, N, positive stay inductive; there is no Extract Constant. *)
From BM Require Import Interp.
Require Extraction.
Require ExtrOcamlBasic.
Extraction Language OCaml.

Extraction "driver/model.ml" run_case.
