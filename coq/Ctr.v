(* Ctr.v -- ctr/src/flavors/ctr{32,64,128}.rs and ctr/src/ctr_core.rs.  The three flavour files
   are one text up to the integer width, so the model is one definition generic in
   (chunk size in bytes cs in {4,8,16}, big-endian?) and the correspondence runs all six. *)
From BM Require Export Cipher Ints.

Record flavor := mkflavor { f_cs : nat; f_be : bool }.
Definition f_bits (F : flavor) : nat := 8 * f_cs F.

Record ctrnonce := mkcn { cn_ctr : N; cn_nonce : list N }.

Fixpoint mapi_from {A B} (f : nat -> A -> B) (i : nat) (l : list A) : list B :=
  match l with [] => [] | a :: l' => f i a :: mapi_from f (S i) l' end.

Section Flavor.
  Variable F : flavor.
  Let cs := f_cs F.
  Let bits := f_bits F.

  (* index of the chunk that carries the counter: last for BE, first for LE *)
  Definition ctr_chunk (nchunks : nat) : nat := if f_be F then nchunks - 1 else 0.
  Definition enc_ctr (x : N) : list N := if f_be F then be_encode cs x else le_encode cs x.
  Definition dec_ctr (l : list N) : N := if f_be F then be_decode l else le_decode l.

  (* from_nonce: counter chunk by its endianness, other chunks native-endian (little on this host) *)
  Definition from_nonce (blk : block) : ctrnonce :=
    let chs := fst (chunks cs blk) in
    let n := length chs in
    mkcn 0 (mapi_from (fun i ch => if i =? ctr_chunk n then dec_ctr ch else le_decode ch) 0 chs).

  Definition current_block (cn : ctrnonce) : block :=
    let n := length (cn_nonce cn) in
    concat (mapi_from (fun i v => if i =? ctr_chunk n then enc_ctr (wrap bits (cn_ctr cn + v))   (* wrapping_add *)
                                  else le_encode cs v) 0 (cn_nonce cn)).

  Definition next_block (cn : ctrnonce) : ctrnonce * block :=
    (mkcn (wrap bits (cn_ctr cn + 1)) (cn_nonce cn), current_block cn).

  Definition ctr_remaining (cn : ctrnonce) : option N := to_usize (pow2 bits - 1 - cn_ctr cn).
  Definition as_backend (cn : ctrnonce) : N := cn_ctr cn.
  Definition set_from_backend (cn : ctrnonce) (v : N) : ctrnonce := mkcn v (cn_nonce cn).

  (* ---- CtrCore ---- *)
  Variable C : cipher.
  Definition ctr_init (iv : block) : ctrnonce := from_nonce iv.
  Definition ctr_iv_state (cn : ctrnonce) : block := current_block cn.

  Definition ctr_gen (cn : ctrnonce) : ctrnonce * block :=
    let '(cn', tmp) := next_block cn in (cn', c_E C tmp).

  Fixpoint next_blocks (n : nat) (cn : ctrnonce) : ctrnonce * list block :=
    match n with
    | O => (cn, [])
    | S n' => let '(cn1, b) := next_block cn in let '(cn2, bl) := next_blocks n' cn1 in (cn2, b :: bl)
    end.

  Definition ctr_gen_par (cn : ctrnonce) : ctrnonce * list block :=
    let '(cn', tmp) := next_blocks (c_w C) cn in (cn', map (c_E C) tmp).
End Flavor.
