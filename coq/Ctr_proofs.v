(* Ctr_proofs.v -- C04: the counter-block layout of the six CTR flavours. *)
From BM Require Import Ints Ints_proofs Ctr Stream_proofs.
From Coq Require Import ZArith Lia.

Lemma mapi_from_length {A B} (f : nat -> A -> B) k l : length (mapi_from f k l) = length l.
Proof. revert k; induction l as [|a l IH]; intros k; simpl; auto. Qed.

Lemma mapi_from_comp {A B R} (f : nat -> A -> B) (g : nat -> B -> R) k l :
  mapi_from g k (mapi_from f k l) = mapi_from (fun i x => g i (f i x)) k l.
Proof. revert k; induction l as [|a l IH]; intros k; simpl; auto. now rewrite IH. Qed.

Lemma mapi_from_app {A B} (f : nat -> A -> B) k l1 l2 :
  mapi_from f k (l1 ++ l2) = mapi_from f k l1 ++ mapi_from f (k + length l1) l2.
Proof. revert k; induction l1 as [|a l1 IH]; intros k; simpl.
  - now rewrite Nat.add_0_r.
  - rewrite IH. do 3 f_equal. lia. Qed.

Lemma mapi_from_id {A} (f : nat -> A -> A) k l :
  (forall i x, k <= i < k + length l -> In x l -> f i x = x) -> mapi_from f k l = l.
Proof. revert k; induction l as [|a l IH]; intros k H; simpl; auto.
  rewrite H by (simpl; auto; lia). f_equal. apply IH. intros i x Hi Hx. apply H; [simpl; lia | right; auto]. Qed.

Lemma bytes_ok_concat_in chs ch : bytes_ok (concat chs) -> In ch chs -> bytes_ok ch.
Proof. intros H Hin. apply in_split in Hin. destruct Hin as (a & b & ->).
  rewrite concat_app in H. apply bytes_ok_app in H. destruct H as [_ H]. simpl in H.
  apply bytes_ok_app in H. tauto. Qed.

Section Layout.
  Variable F : flavor.
  Let cs := f_cs F.
  Let bits := f_bits F.
  Hypothesis cs_pos : 0 < cs.

  (* the documented layout: counter field = last cs bytes big-endian / first cs bytes little-endian,
     replaced by (field + i) mod 2^bits; every other byte of the IV is passed through *)
  Definition layout (iv : block) (i : N) : block :=
    if f_be F
    then firstn (length iv - cs) iv ++ be_encode cs (wrap bits (i + be_decode (skipn (length iv - cs) iv)))
    else le_encode cs (wrap bits (i + le_decode (firstn cs iv))) ++ skipn cs iv.

  Lemma layout_length iv i : cs <= length iv -> length (layout iv i) = length iv.
  Proof. intros H. unfold layout. destruct (f_be F); rewrite app_length.
    - rewrite firstn_length, be_encode_length. lia.
    - rewrite le_encode_length, skipn_length. lia. Qed.

  (* "a wrapping counter never carries into the nonce" *)
  Lemma layout_nonce_untouched iv i : cs <= length iv ->
    if f_be F then firstn (length iv - cs) (layout iv i) = firstn (length iv - cs) iv
    else skipn cs (layout iv i) = skipn cs iv.
  Proof. intros H. unfold layout. destruct (f_be F).
    - rewrite firstn_app_exact; auto. rewrite firstn_length. lia.
    - rewrite skipn_app_exact; auto. now rewrite le_encode_length. Qed.

  Lemma layout_wrap iv i : layout iv (wrap bits i) = layout iv i.
  Proof. unfold layout, wrap. destruct (f_be F); do 2 f_equal;
    rewrite N.add_mod_idemp_l by (apply N.neq_0_lt_0, pow2_pos); reflexivity. Qed.

  (* distinct counter values give distinct counter blocks: no block serves two positions *)
  Lemma layout_inj iv i j : cs <= length iv -> (i < pow2 bits)%N -> (j < pow2 bits)%N ->
    layout iv i = layout iv j -> i = j.
  Proof.
    intros Hlen Hi Hj H. unfold layout in H.
    assert (Hb : forall x, (wrap bits x < 256 ^ N.of_nat cs)%N).
    { intros x. unfold wrap, bits, f_bits. fold cs. rewrite <- pow2_bytes. apply N.mod_lt. apply N.neq_0_lt_0, pow2_pos. }
    destruct (f_be F).
    - apply app_inv_head in H. apply be_encode_inj in H; auto.
      unfold wrap in H. eapply mod_add_cancel; eauto. apply pow2_pos.
    - apply (f_equal (firstn cs)) in H. rewrite !firstn_app_exact in H by now rewrite le_encode_length.
      apply le_encode_inj in H; auto. unfold wrap in H. eapply mod_add_cancel; eauto. apply pow2_pos.
  Qed.

  Lemma enc_dec_chunk ch : length ch = cs -> bytes_ok ch -> le_encode cs (le_decode ch) = ch.
  Proof. intros <- H. now apply le_encode_decode. Qed.

  (* the model of CtrNonce / current_block against the layout *)
  Theorem current_block_layout chs i : chs <> [] -> all_len cs chs -> bytes_ok (concat chs) ->
    current_block F (mkcn i (cn_nonce (from_nonce F (concat chs)))) = layout (concat chs) i.
  Proof.
    intros Hne Hall Hok. unfold from_nonce, current_block. fold cs. cbn [cn_nonce cn_ctr].
    replace (chunks cs (concat chs)) with (chs, @nil N).
    2:{ symmetry. rewrite <- (app_nil_r (concat chs)). apply chunks_concat; auto; simpl; lia. }
    cbn [fst]. rewrite mapi_from_length, mapi_from_comp.
    assert (Hid : forall ch, In ch chs -> le_encode cs (le_decode ch) = ch).
    { intros ch Hin. apply enc_dec_chunk. - eapply Forall_forall in Hall; eauto. - eapply bytes_ok_concat_in; eauto. }
    unfold layout, ctr_chunk, enc_ctr, dec_ctr. fold cs bits. destruct (f_be F).
    - (* big endian: the last chunk carries the counter *)
      destruct (exists_last Hne) as (pre & lst & ->).
      apply all_len_app in Hall. destruct Hall as [Hpre Hlst]. inversion Hlst as [|? ? Hl _]; subst.
      rewrite mapi_from_app. cbn [mapi_from]. rewrite app_length. cbn [length]. simpl Nat.add.
      replace (length pre + 1 - 1) with (length pre) by lia. rewrite Nat.eqb_refl.
      rewrite mapi_from_id.
      2:{ intros j x Hj Hx. destruct (Nat.eqb_spec j (length pre)) as [->|_]; [lia|].
          apply Hid. apply in_or_app; auto. }
      rewrite !concat_app. cbn [concat]. rewrite !app_nil_r.
      rewrite app_length, Hl. replace (length (concat pre) + cs - cs) with (length (concat pre)) by lia.
      rewrite firstn_app_exact, skipn_app_exact by auto. reflexivity.
    - (* little endian: the first chunk carries the counter *)
      destruct chs as [|fst rest]; [congruence|].
      inversion Hall as [|? ? Hl Hrest]; subst.
      cbn [mapi_from]. rewrite Nat.eqb_refl.
      rewrite mapi_from_id.
      2:{ intros j x Hj Hx. destruct (Nat.eqb_spec j 0) as [->|_]; [lia|]. apply Hid. right; auto. }
      cbn [concat]. rewrite firstn_app_exact, skipn_app_exact by auto. reflexivity.
  Qed.

  (* ---- the keystream of CtrCore ---- *)
  Variable C : cipher.

  Lemma ctr_gen_layout chs i : chs <> [] -> all_len cs chs -> bytes_ok (concat chs) ->
    let cn := mkcn i (cn_nonce (from_nonce F (concat chs))) in
    ctr_gen F C cn = (mkcn (wrap bits (i + 1)) (cn_nonce cn), c_E C (layout (concat chs) i)).
  Proof. intros Hne Hall Hok cn. unfold ctr_gen, next_block. subst cn.
    rewrite current_block_layout by auto. reflexivity. Qed.

  (* n consecutive keystream blocks from counter value i: E(layout(IV, i)), E(layout(IV, i+1)), ... *)
  Theorem ctr_keystream chs n : chs <> [] -> all_len cs chs -> bytes_ok (concat chs) -> forall i,
    ctr_gen_n F C n (mkcn i (cn_nonce (from_nonce F (concat chs)))) =
    (mkcn (if n =? 0 then i else wrap bits (i + N.of_nat n)) (cn_nonce (from_nonce F (concat chs))),
     map (fun j => c_E C (layout (concat chs) (i + N.of_nat j))) (seq 0 n)).
  Proof.
    intros Hne Hall Hok. induction n as [|n IH]; intros i; [reflexivity|].
    cbn [ctr_gen_n]. rewrite ctr_gen_layout by auto. cbn [cn_nonce]. rewrite IH.
    cbn [seq map]. rewrite N.add_0_r. f_equal.
    - cbn [Nat.eqb]. f_equal. destruct (Nat.eqb_spec n 0) as [->|_]; [reflexivity|].
      unfold wrap. rewrite N.add_mod_idemp_l by (apply N.neq_0_lt_0, pow2_pos).
      replace (i + N.of_nat (S n))%N with (i + 1 + N.of_nat n)%N by lia. reflexivity.
    - f_equal. rewrite <- seq_shift, map_map. apply map_ext. intros j.
      rewrite <- (layout_wrap _ (wrap bits (i + 1) + N.of_nat j)), <- (layout_wrap _ (i + N.of_nat (S j))).
      f_equal. unfold wrap. rewrite N.add_mod_idemp_l by (apply N.neq_0_lt_0, pow2_pos).
      replace (i + N.of_nat (S j))%N with (i + 1 + N.of_nat j)%N by lia. reflexivity.
  Qed.
End Layout.
