(* Cts_mem.v -- segmented-buffer lemmas for the byte memory of Cts.v: all reasoning about offsets is
   done once here, on buffers presented as pre ++ cur ++ post. *)
From BM Require Import Outcome Cipher Plumbing Cts.
From Coq Require Import Lia.

Lemma slice_seg {A} (pre cur post : list A) a b :
  a = length pre -> b = length pre + length cur -> slice (pre ++ cur ++ post) a b = Ok cur.
Proof.
  intros -> ->. unfold slice. rewrite !app_length.
  replace ((length pre <=? length pre + length cur) && (length pre + length cur <=? length pre + (length cur + length post))) with true
    by (symmetry; apply andb_true_iff; split; apply Nat.leb_le; lia).
  rewrite skipn_app_exact by auto. replace (length pre + length cur - length pre) with (length cur) by lia.
  now rewrite firstn_app_exact.
Qed.

(* a well-formed memory: equal lengths, and in place the input IS the output *)
Definition mwf (m : mem) : Prop := length (m_in m) = length (m_out m) /\ (m_al m = true -> m_in m = m_out m).

Lemma mget_in_seg m pre cur post off len : msrc m = pre ++ cur ++ post -> off = length pre -> len = length cur ->
  mget_in m off len = Ok cur.
Proof. intros H -> ->. unfold mget_in. rewrite H. now apply slice_seg. Qed.

Lemma mget_out_seg m pre cur post off len : m_out m = pre ++ cur ++ post -> off = length pre -> len = length cur ->
  mget_out m off len = Ok cur.
Proof. intros H -> ->. unfold mget_out. rewrite H. now apply slice_seg. Qed.

(* writing over a segment of the output; what a later read of the input side sees *)
Lemma mput_out_seg m pre cur post off v : m_out m = pre ++ cur ++ post -> off = length pre -> length v = length cur ->
  exists m', mput_out m off v = Ok m' /\ m_out m' = pre ++ v ++ post /\ m_al m' = m_al m /\ m_in m' = m_in m.
Proof.
  intros H -> Hv. unfold mput_out. rewrite H, !app_length, Hv.
  replace (length pre + length cur <=? length pre + (length cur + length post)) with true by (symmetry; apply Nat.leb_le; lia).
  eexists. split; [reflexivity|]. cbn [m_out m_al m_in]. repeat split.
  apply splice_seg. auto.
Qed.

Lemma msrc_after_put m m' : m_al m' = m_al m -> m_in m' = m_in m ->
  msrc m' = if m_al m then m_out m' else msrc m.
Proof. intros Ha Hi. unfold msrc. rewrite Ha, Hi. destruct (m_al m); reflexivity. Qed.

Lemma map_cout_wr cs vs : length cs = length vs -> map cout (map2 wr_out cs vs) = vs.
Proof. revert vs; induction cs as [|c cs IH]; intros [|v vs] H; simpl in *; try discriminate; auto. rewrite IH; auto. Qed.

Section Run.
  Variable C : cipher.
  Let bs := c_bs C.
  Hypothesis bs_pos : 0 < bs.

  Lemma chunks_blocks_only (bl : list (list N)) : all_len bs bl -> chunks bs (concat bl) = (bl, []).
  Proof. intros H. rewrite <- (app_nil_r (concat bl)). apply chunks_concat; auto; simpl; lia. Qed.

  Lemma map_rd_in_mkcell' al a b : length a = length b -> (al = true -> a = b) -> map rd_in (map2 (mkcell al) a b) = a.
  Proof.
    intros Hl Hal. destruct al.
    - rewrite (Hal eq_refl). clear. induction b as [|x b IH]; simpl; auto. unfold rd_in at 1. cbn. now rewrite IH.
    - clear Hal. revert b Hl; induction a as [|x a IH]; intros [|y b] Hl; simpl in *; try discriminate; auto.
      unfold rd_in at 1. cbn. rewrite IH; auto.
  Qed.

  Lemma map2_mkcell_length al (a b : list (list N)) : length a = length b -> length (map2 (mkcell al) a b) = length a.
  Proof. intros H. rewrite map2_length. unfold block in *. lia. Qed.

  (* the cells of a region presented as whole blocks *)
  Lemma mcells_seg m blocks post oblocks opost nb :
    msrc m = concat blocks ++ post -> m_out m = concat oblocks ++ opost ->
    all_len bs blocks -> all_len bs oblocks -> length blocks = nb -> length oblocks = nb ->
    (m_al m = true -> blocks = oblocks) -> mwf m ->
    map rd_in (mcells C m 0 nb) = blocks /\ length (mcells C m 0 nb) = nb.
  Proof.
    intros Hs Ho Hb Hob Hn Hon Hal [Hlen Hwf]. unfold mcells, cells_of. fold bs. cbn [skipn].
    assert (L1 : nb * bs = length (concat blocks)) by (rewrite (all_len_concat_length bs) by auto; lia).
    assert (L2 : nb * bs = length (concat oblocks)) by (rewrite (all_len_concat_length bs) by auto; lia).
    rewrite Ho, firstn_app_exact, chunks_blocks_only by auto. cbn [fst].
    destruct (m_al m) eqn:Ea.
    - (* in place: cin is never read; the cells present the output side *)
      specialize (Hal eq_refl). subst oblocks.
      assert (Hin : firstn (nb * bs) (m_in m) = concat blocks).
      { rewrite (Hwf eq_refl), Ho. now apply firstn_app_exact. }
      rewrite Hin, chunks_blocks_only by auto. cbn [fst]. split.
      + apply map_rd_in_mkcell'; auto.
      + rewrite map2_mkcell_length; auto.
    - unfold msrc in Hs. rewrite Ea in Hs. rewrite Hs, firstn_app_exact, chunks_blocks_only by auto. cbn [fst]. split.
      + apply map_rd_in_mkcell'; [unfold block in *; lia | discriminate].
      + rewrite map2_mkcell_length; unfold block in *; lia.
  Qed.

  (* running a block-level body that is given by its effect on the logical inputs *)
  Lemma mrun_seg {S} (f : S -> list cell -> S * list cell) (g : list (list N) -> S) (h : list (list N) -> list (list N))
        st m blocks post oblocks opost nb :
    (forall cs, f st cs = (g (map rd_in cs), map2 wr_out cs (h (map rd_in cs)))) ->
    msrc m = concat blocks ++ post -> m_out m = concat oblocks ++ opost ->
    all_len bs blocks -> all_len bs oblocks -> length blocks = nb -> length oblocks = nb ->
    (m_al m = true -> blocks = oblocks) -> mwf m ->
    length (h blocks) = nb -> all_len bs (h blocks) ->
    exists m', mrun C f st m 0 nb = Ok (g blocks, m') /\ m_out m' = concat (h blocks) ++ opost /\
               m_al m' = m_al m /\ m_in m' = m_in m.
  Proof.
    intros Hf Hs Ho Hb Hob Hn Hon Hal Hwf Hhl Hha. unfold mrun. rewrite Hf.
    destruct (mcells_seg m blocks post oblocks opost nb Hs Ho Hb Hob Hn Hon Hal Hwf) as [Hrd Hcl].
    rewrite Hrd.
    assert (Hout : outs_of (map2 wr_out (mcells C m 0 nb) (h blocks)) = concat (h blocks)).
    { unfold outs_of. f_equal. apply map_cout_wr. rewrite Hcl. symmetry. exact Hhl. }
    rewrite Hout.
    destruct (mput_out_seg m [] (concat oblocks) opost 0 (concat (h blocks))) as (m' & E & Ho' & Ha' & Hi'); auto.
    { rewrite !(all_len_concat_length bs) by auto. unfold block in *. lia. }
    rewrite E. cbn [obind]. exists m'. auto.
  Qed.
End Run.
