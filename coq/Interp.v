(* Interp.v -- the executable reading of a correspondence case: the same op vocabulary the Rust
   harness interprets (harness/src/bin/*.rs), run on the model.  Extracted to OCaml (Extract.v). *)
From BM Require Import BlockModes Plumbing Toy Ctr Belt Stream Cts.

(* ---- block-mode objects --------------------------------------------------------------------- *)
Inductive bkind := KCbcE | KCbcD | KPcbcE | KPcbcD | KIgeE | KIgeD | KCfbE | KCfbD | KCfb8E | KCfb8D | KOfbE | KOfbD.
Definition bstate := (block * block)%type.

Definition lift1 (f : block -> cell -> block * cell) : bstate -> cell -> bstate * cell :=
  fun st c => let '(s, c') := f (fst st) c in ((s, snd st), c').
Definition lift1p (f : block -> list cell -> block * list cell) : bstate -> list cell -> bstate * list cell :=
  fun st cs => let '(s, cs') := f (fst st) cs in ((s, snd st), cs').

Section BM.
  Variable C : cipher.

  Definition bm_single (k : bkind) : bstate -> cell -> bstate * cell :=
    match k with
    | KCbcE => lift1 (cbc_enc_block C) | KCbcD => lift1 (cbc_dec_block C)
    | KPcbcE => lift1 (pcbc_enc_block C) | KPcbcD => lift1 (pcbc_dec_block C)
    | KIgeE => ige_enc_block C | KIgeD => ige_dec_block C
    | KCfbE => lift1 (cfb_enc_block C) | KCfbD => lift1 (cfb_dec_block C)
    | KCfb8E => lift1 (cfb8_enc_block C) | KCfb8D => lift1 (cfb8_dec_block C)
    | KOfbE => lift1 (ofb_enc_block C) | KOfbD => lift1 (ofb_dec_block C)
    end.
  Definition bm_par (k : bkind) : bstate -> list cell -> bstate * list cell :=
    match k with
    | KCbcE => lift1p (cbc_enc_par C) | KCbcD => lift1p (cbc_dec_par C)
    | KPcbcE => lift1p (pcbc_enc_par C) | KPcbcD => lift1p (pcbc_dec_par C)
    | KIgeE => ige_enc_par C | KIgeD => ige_dec_par C
    | KCfbE => lift1p (cfb_enc_par C) | KCfbD => lift1p (cfb_dec_par C)
    | KCfb8E => lift1p (cfb8_enc_par C) | KCfb8D => lift1p (cfb8_dec_par C)
    | KOfbE => lift1p (ofb_enc_par C) | KOfbD => lift1p (ofb_dec_par C)
    end.
  Definition bm_w (k : bkind) : nat :=
    match k with
    | KCbcE => cbc_enc_w | KCbcD => cbc_dec_w C | KPcbcE => pcbc_enc_w | KPcbcD => pcbc_dec_w
    | KIgeE => ige_enc_w | KIgeD => ige_dec_w | KCfbE => cfb_enc_w | KCfbD => cfb_dec_w C
    | KCfb8E => cfb8_enc_w | KCfb8D => cfb8_dec_w | KOfbE => ofb_w | KOfbD => ofb_w
    end.
  Definition bm_init (k : bkind) (iv : block) : bstate :=
    match k with
    | KIgeE | KIgeD => ige_init C iv
    | KCfbE | KCfbD => (cfb_init C iv, [])
    | _ => (iv, [])
    end.
  Definition bm_iv_state (k : bkind) (st : bstate) : block :=
    match k with
    | KIgeE | KIgeD => ige_iv_state st
    | KCfbE | KCfbD => cfb_iv_state C (fst st)
    | _ => fst st
    end.
  Definition bm_mbs (k : bkind) : nat := match k with KCfb8E | KCfb8D => 1 | _ => c_bs C end.
  Definition bm_ivlen (k : bkind) : nat := match k with KIgeE | KIgeD => 2 * c_bs C | _ => c_bs C end.
  Definition bm_is_enc (k : bkind) : bool :=
    match k with KCbcE | KPcbcE | KIgeE | KCfbE | KCfb8E | KOfbE => true | _ => false end.
  Definition bm_is_async (k : bkind) : bool :=
    match k with KCfbE | KCfbD | KCfb8E | KCfb8D => true | _ => false end.
  Definition bm_blocks (k : bkind) := blocks_ctx (bm_single k) (bm_w k) (bm_par k).
End BM.

(* ---- protocol --------------------------------------------------------------------------------- *)
Inductive darg := DLit (d : list N) | DRef (k : nat).
Inductive place := PIp (d : darg) | PB2b (d junk : darg).
Inductive newhow := HNew | HInner | HSlices | HInnerSlice.

Inductive res :=
| RBytes (l : list N) | RErr | RPanic | ROk | RNum (n : Z) | RNone | RState (iv : list N) (pos : nat)
| RUnsupported.

(* ---- keystream cores: the six CTR flavours, OFB, BelT-CTR ---- *)
Inductive skind := SCtr (cs : nat) (be : bool) | SOfb | SBelt.
Inductive cstate := CCtr (cn : ctrnonce) | COfb (iv : block) | CBelt (st : beltst).

Definition kscore (C : cipher) (k : skind) : score cstate :=
  match k with
  | SCtr cs be =>
      let F := mkflavor cs be in
      mkscore (c_bs C) (c_w C)
        (fun s => match s with CCtr cn => let '(cn', b) := ctr_gen F C cn in (CCtr cn', b) | _ => (s, []) end)
        (fun s => match s with CCtr cn => let '(cn', b) := ctr_gen_par F C cn in (CCtr cn', b) | _ => (s, []) end)
        (fun s => match s with CCtr cn => ctr_remaining F cn | _ => None end)
        (fun s => match s with CCtr cn => as_backend cn | _ => 0%N end)
        (fun s p => match s with CCtr cn => CCtr (set_from_backend cn p) | _ => s end)
        (8 * cs)
  | SOfb =>
      mkscore (c_bs C) 1
        (fun s => match s with COfb iv => let '(iv', b) := ofb_gen C iv in (COfb iv', b) | _ => (s, []) end)
        (fun s => (s, []))
        (fun _ => None) (fun _ => 0%N) (fun s _ => s) 0
  | SBelt =>
      mkscore (c_bs C) (c_w C)
        (fun s => match s with CBelt st => let '(st', b) := belt_gen C st in (CBelt st', b) | _ => (s, []) end)
        (fun s => match s with CBelt st => let '(st', b) := belt_gen_par C st in (CBelt st', b) | _ => (s, []) end)
        (fun s => match s with CBelt st => belt_remaining st | _ => None end)
        (fun s => match s with CBelt st => belt_get_pos st | _ => 0%N end)
        (fun s p => match s with CBelt st => CBelt (belt_set_pos st p) | _ => s end)
        128
  end.

Definition core_init (C : cipher) (k : skind) (iv : block) : cstate :=
  match k with
  | SCtr cs be => CCtr (ctr_init (mkflavor cs be) iv)
  | SOfb => COfb (ofb_init iv)
  | SBelt => CBelt (belt_init C iv)
  end.

Definition core_iv_state (C : cipher) (k : skind) (s : cstate) : block :=
  match k, s with
  | SCtr cs be, CCtr cn => ctr_iv_state (mkflavor cs be) cn
  | SOfb, COfb iv => ofb_iv_state iv
  | SBelt, CBelt st => belt_iv_state C st
  | _, _ => []
  end.

Inductive obj :=
| OBlock (k : bkind) (key : list N) (st : bstate)
| OBuf (enc : bool) (key : list N) (iv : block) (pos : nat)
| OCore (k : skind) (key : list N) (st : cstate)
| OWrap (k : skind) (key : list N) (wst : wrapper cstate)
| OCts (v : cts_variant) (key : list N) (iv : block).

Inductive okind := KBlock (k : bkind) | KBuf (enc : bool) | KCore (k : skind) | KWrap (k : skind) | KCts (v : cts_variant).

Inductive op :=
| OpNew (id : nat) (k : okind) (how : newhow) (key iv : darg)
| OpFromState (id : nat) (enc : bool) (key iv : darg) (pos : nat + nat)   (* inl literal | inr ref *)
| OpClone (id newid : nat)
| OpCloneFrom (dst src : nat)
| OpDrop (id : nat)
| OpBlk (id : nat) (p : place)
| OpBlks (id : nat) (p : place)
| OpPad (id : nat) (P : padding) (ip : bool) (a : darg) (msg_len : nat) (out : darg)
| OpUnpad (id : nat) (P : padding) (p : place)
| OpAsync (id : nat) (p : place)
| OpIvState (id : nat)
| OpBuf (id : nat) (d : darg)
| OpGetState (id : nat)
| OpApply (id : nat) (p : place)
| OpSeek (id : nat) (t : seeknum) (p : Z)
| OpPos (id : nat) (t : seeknum)
| OpKsBlocks (id : nat) (n : nat)
| OpApplyBlks (id : nat) (p : place)
| OpApplyBlk (id : nat) (p : place)
| OpRemaining (id : nat)
| OpGetPos (id : nat)
| OpSetPos (id : nat) (p : N)
| OpWrap (id newid : nat)
| OpCore (id newid : nat)
| OpCts (id : nat) (enc : bool) (p : place)
| OpCat (ds : list darg)
| OpSub (d : darg) (off len : nat)
| OpOther.                                    (* ops that only the implementation interprets *)

Definition res_bytes (r : res) : list N :=
  match r with RBytes l => l | RState l _ => l | _ => [] end.

Definition get_data (rs : list res) (d : darg) : list N :=
  match d with DLit l => l | DRef k => res_bytes (nth k rs RUnsupported) end.

Definition bkind_eqb (a b : bkind) : bool :=
  match a, b with
  | KCbcE, KCbcE | KCbcD, KCbcD | KPcbcE, KPcbcE | KPcbcD, KPcbcD | KIgeE, KIgeE | KIgeD, KIgeD
  | KCfbE, KCfbE | KCfbD, KCfbD | KCfb8E, KCfb8E | KCfb8D, KCfb8D | KOfbE, KOfbE | KOfbD, KOfbD => true
  | _, _ => false
  end.
Definition skind_eqb (a b : skind) : bool :=
  match a, b with
  | SCtr c1 b1, SCtr c2 b2 => (c1 =? c2) && Bool.eqb b1 b2
  | SOfb, SOfb | SBelt, SBelt => true
  | _, _ => false
  end.
Definition cts_variant_eqb (a b : cts_variant) : bool :=
  match a, b with
  | CbcCs1, CbcCs1 | CbcCs2, CbcCs2 | CbcCs3, CbcCs3 | EcbCs1, EcbCs1 | EcbCs2, EcbCs2 | EcbCs3, EcbCs3 => true
  | _, _ => false
  end.

Definition store := list (nat * obj).
Fixpoint lookup (s : store) (id : nat) : option obj :=
  match s with [] => None | (i, o) :: s' => if i =? id then Some o else lookup s' id end.
Definition update (s : store) (id : nat) (o : obj) : store := (id, o) :: s.
Fixpoint remove_id (s : store) (id : nat) : store :=
  match s with [] => [] | (i, o) :: s' => if i =? id then remove_id s' id else (i, o) :: remove_id s' id end.

Section Run.
  Variables (bs w : nat) (dm : dmode).
  Definition cph (key : list N) : cipher := toy bs w dm key.

  Definition of_outcome {A} (f : A -> res) (x : outcome A) : res :=
    match x with Ok a => f a | Err => RErr | Panic => RPanic end.

  Definition step (s : store) (rs : list res) (o : op) : store * res :=
    match o with
    | OpNew id k how key iv =>
        let key := get_data rs key in let iv := get_data rs iv in
        let ivlen := match k with KBlock bk => bm_ivlen (cph key) bk
                                | KCts (EcbCs1 | EcbCs2 | EcbCs3) => 0 | _ => bs end in
        if negb ((length key =? 8) && (length iv =? ivlen)) then
          (s, match how with HSlices => RErr
                           | HInnerSlice => if length key =? 8 then RErr else RUnsupported
                           | _ => RUnsupported end)
        else
          let ob := match k with
                    | KBlock bk => OBlock bk key (bm_init (cph key) bk iv)
                    | KBuf enc => let '(iv', p) := buf_init (cph key) iv in OBuf enc key iv' p
                    | KCore sk => OCore sk key (core_init (cph key) sk iv)
                    | KWrap sk => OWrap sk key (from_core (kscore (cph key) sk) (core_init (cph key) sk iv))
                    | KCts v => OCts v key iv
                    end in
          (update s id ob, ROk)
    | OpFromState id enc key iv pos =>
        let key := get_data rs key in let iv := get_data rs iv in
        let pos := match pos with inl p => Some p
                                | inr k => match nth k rs RUnsupported with RState _ p => Some p | _ => None end end in
        match pos with
        | Some p => if (length key =? 8) && (length iv =? bs) then (update s id (OBuf enc key iv p), ROk)
                    else (s, RUnsupported)
        | None => (s, RUnsupported)
        end
    | OpClone id newid =>
        match lookup s id with
        | Some (OCore SBelt _ _) | Some (OWrap SBelt _ _) => (s, RUnsupported)    (* not Clone *)
        | Some ob => (update s newid ob, ROk)
        | None => (s, RUnsupported)
        end
    | OpCloneFrom dst src =>
        (* dst.clone_from(&src): both exist and have the same type; dst becomes a copy of src *)
        match lookup s dst, lookup s src with
        | Some (OBlock k1 _ _), Some (OBlock k2 key st) =>
            if bkind_eqb k1 k2 then (update s dst (OBlock k2 key st), ROk) else (s, RUnsupported)
        | Some (OBuf e1 _ _ _), Some (OBuf e2 key iv pos) =>
            if Bool.eqb e1 e2 then (update s dst (OBuf e2 key iv pos), ROk) else (s, RUnsupported)
        | Some (OCore k1 _ _), Some (OCore k2 key st) =>
            if skind_eqb k1 k2 && negb (skind_eqb k2 SBelt) then (update s dst (OCore k2 key st), ROk) else (s, RUnsupported)
        | Some (OWrap k1 _ _), Some (OWrap k2 key wst) =>
            if skind_eqb k1 k2 && negb (skind_eqb k2 SBelt) then (update s dst (OWrap k2 key wst), ROk) else (s, RUnsupported)
        | Some (OCts v1 _ _), Some (OCts v2 key iv) =>
            if cts_variant_eqb v1 v2 then (update s dst (OCts v2 key iv), ROk) else (s, RUnsupported)
        | _, _ => (s, RUnsupported)
        end
    | OpDrop id => (remove_id s id, ROk)
    | OpBlk id p =>
        match lookup s id with
        | Some (OBlock k key st) =>
            let C := cph key in
            let mk := match p with
                      | PIp d => let d := get_data rs d in
                                 if length d =? bm_mbs C k then Some (cell_ip d) else None
                      | PB2b d j => let d := get_data rs d in let j := get_data rs j in
                                    if (length d =? bm_mbs C k) && (length j =? bm_mbs C k)
                                    then Some (cell_b2b d j) else None
                      end in
            match mk with
            | Some c => let '(st', c') := bm_single C k st c in (update s id (OBlock k key st'), RBytes (cout c'))
            | None => (s, RUnsupported)
            end
        | _ => (s, RUnsupported)
        end
    | OpBlks id p =>
        match lookup s id with
        | Some (OBlock k key st) =>
            let C := cph key in
            let mbs := bm_mbs C k in
            match p with
            | PIp d =>
                let d := get_data rs d in
                if negb (length d mod mbs =? 0) then (s, RUnsupported)
                else let '(st', cs') := bm_blocks C k st (cells_of mbs true d d) in
                     (update s id (OBlock k key st'), RBytes (outs_of cs'))
            | PB2b d j =>
                let d := get_data rs d in let j := get_data rs j in
                if negb ((length d mod mbs =? 0) && (length j mod mbs =? 0)) then (s, RUnsupported)
                else if negb (length d =? length j) then (s, RErr)
                else let '(st', cs') := bm_blocks C k st (cells_of mbs false d j) in
                     (update s id (OBlock k key st'), RBytes (outs_of cs'))
            end
        | _ => (s, RUnsupported)
        end
    | OpPad id P ip a msg_len out =>
        match lookup s id with
        | Some (OBlock k key st) =>
            let C := cph key in
            if negb (bm_is_enc k) then (s, RUnsupported) else
            let r := if ip then enc_padded_ip (bm_mbs C k) (bm_single C k) (bm_blocks C k) P st (get_data rs a) msg_len
                     else enc_padded_b2b (bm_mbs C k) (bm_single C k) (bm_blocks C k) P st (get_data rs a) (get_data rs out) in
            (s, of_outcome RBytes r)
        | _ => (s, RUnsupported)
        end
    | OpUnpad id P p =>
        match lookup s id with
        | Some (OBlock k key st) =>
            let C := cph key in
            if bm_is_enc k then (s, RUnsupported) else
            let r := match p with
                     | PIp d => dec_padded_ip (bm_mbs C k) (bm_blocks C k) P st (get_data rs d)
                     | PB2b d j => dec_padded_b2b (bm_mbs C k) (bm_blocks C k) P st (get_data rs d) (get_data rs j)
                     end in
            (s, of_outcome RBytes r)
        | _ => (s, RUnsupported)
        end
    | OpAsync id p =>
        match lookup s id with
        | Some (OBlock k key st) =>
            let C := cph key in
            if negb (bm_is_async k) then (s, RUnsupported) else
            match p with
            | PIp d => let d := get_data rs d in
                       (s, RBytes (snd (async_inout (bm_mbs C k) (bm_single C k) (bm_blocks C k) st true d d)))
            | PB2b d j => let d := get_data rs d in let j := get_data rs j in
                          if negb (length d =? length j) then (s, RErr)
                          else (s, RBytes (snd (async_inout (bm_mbs C k) (bm_single C k) (bm_blocks C k) st false d j)))
            end
        | _ => (s, RUnsupported)
        end
    | OpIvState id =>
        match lookup s id with
        | Some (OBlock k key st) => (s, RBytes (bm_iv_state (cph key) k st))
        | Some (OCore k key st) => (s, RBytes (core_iv_state (cph key) k st))
        | Some (OWrap k key wst) => (s, RBytes (core_iv_state (cph key) k (wr_core wst)))
        | _ => (s, RUnsupported)
        end
    | OpBuf id d =>
        match lookup s id with
        | Some (OBuf enc key iv pos) =>
            match buf_apply (cph key) enc (iv, pos) (get_data rs d) with
            | Ok ((iv', pos'), out) => (update s id (OBuf enc key iv' pos'), RBytes out)
            | Err => (s, RErr)
            | Panic => (s, RPanic)
            end
        | _ => (s, RUnsupported)
        end
    | OpGetState id =>
        match lookup s id with
        | Some (OBuf enc key iv pos) => (s, RState iv pos)
        | _ => (s, RUnsupported)
        end
    | OpApply id p =>
        match lookup s id with
        | Some (OWrap k key wst) =>
            let K := kscore (cph key) k in
            let r := match p with
                     | PIp d => let d := get_data rs d in Some (try_apply K wst true d d)
                     | PB2b d j => let d := get_data rs d in let j := get_data rs j in
                                   if length d =? length j then Some (try_apply K wst false d j) else None
                     end in
            match r with
            | None => (s, RErr)
            | Some (Ok (wst', out)) => (update s id (OWrap k key wst'), RBytes out)
            | Some Err => (s, RErr)
            | Some Panic => (s, RPanic)
            end
        | _ => (s, RUnsupported)
        end
    | OpSeek id t p =>
        match lookup s id with
        | Some (OWrap SOfb _ _) => (s, RUnsupported)            (* OfbCore is not seekable *)
        | Some (OWrap k key wst) =>
            match try_seek (kscore (cph key) k) t wst p with
            | Ok wst' => (update s id (OWrap k key wst'), ROk)
            | Err => (s, RErr)
            | Panic => (s, RPanic)
            end
        | _ => (s, RUnsupported)
        end
    | OpPos id t =>
        match lookup s id with
        | Some (OWrap SOfb _ _) => (s, RUnsupported)
        | Some (OWrap k key wst) => (s, of_outcome RNum (try_current_pos (kscore (cph key) k) t wst))
        | _ => (s, RUnsupported)
        end
    | OpKsBlocks id n =>
        match lookup s id with
        | Some (OCore k key st) =>
            let '(st', bl) := write_ks_blocks (kscore (cph key) k) n st in
            (update s id (OCore k key st'), RBytes (concat bl))
        | _ => (s, RUnsupported)
        end
    | OpApplyBlks id p =>
        match lookup s id with
        | Some (OCore k key st) =>
            let K := kscore (cph key) k in
            match p with
            | PIp d => let d := get_data rs d in
                       if negb (length d mod bs =? 0) then (s, RUnsupported) else
                       let '(st', cs') := apply_ks_blocks K st (cells_of bs true d d) in
                       (update s id (OCore k key st'), RBytes (outs_of cs'))
            | PB2b d j => let d := get_data rs d in let j := get_data rs j in
                       if negb ((length d mod bs =? 0) && (length d =? length j)) then (s, RUnsupported) else
                       let '(st', cs') := apply_ks_blocks K st (cells_of bs false d j) in
                       (update s id (OCore k key st'), RBytes (outs_of cs'))
            end
        | _ => (s, RUnsupported)
        end
    | OpApplyBlk id p =>
        match lookup s id with
        | Some (OCore k key st) =>
            let K := kscore (cph key) k in
            let mk := match p with
                      | PIp d => let d := get_data rs d in if length d =? bs then Some (cell_ip d) else None
                      | PB2b d j => let d := get_data rs d in let j := get_data rs j in
                                    if (length d =? bs) && (length j =? bs) then Some (cell_b2b d j) else None
                      end in
            match mk with
            | Some c => let '(st', c') := apply_ks_block K st c in (update s id (OCore k key st'), RBytes (cout c'))
            | None => (s, RUnsupported)
            end
        | _ => (s, RUnsupported)
        end
    | OpRemaining id =>
        match lookup s id with
        | Some (OCore k key st) =>
            (s, match sc_remaining (kscore (cph key) k) st with Some n => RNum (Z.of_N n) | None => RNone end)
        | _ => (s, RUnsupported)
        end
    | OpGetPos id =>
        match lookup s id with
        | Some (OCore k key st) => (s, match k with SOfb => RUnsupported | _ => RNum (Z.of_N (sc_get_pos (kscore (cph key) k) st)) end)
        | _ => (s, RUnsupported)
        end
    | OpSetPos id p =>
        match lookup s id with
        | Some (OCore k key st) =>
            match k with SOfb => (s, RUnsupported)
                       | _ => (update s id (OCore k key (sc_set_pos (kscore (cph key) k) st p)), ROk) end
        | _ => (s, RUnsupported)
        end
    | OpWrap id newid =>
        match lookup s id with
        | Some (OCore k key st) =>      (* from_core consumes the core *)
            (update (remove_id s id) newid (OWrap k key (from_core (kscore (cph key) k) st)), ROk)
        | _ => (s, RUnsupported)
        end
    | OpCore id newid =>
        match lookup s id with
        | Some (OWrap SBelt _ _) => (s, RUnsupported)          (* BeltCtrCore is not Clone *)
        | Some (OWrap k key wst) => (update s newid (OCore k key (wr_core wst)), ROk)
        | _ => (s, RUnsupported)
        end
    | OpCts id enc p =>
        match lookup s id with
        | Some (OCts v key iv) =>
            let m := match p with
                     | PIp d => let d := get_data rs d in Some (mkmem true d d)
                     | PB2b d j => let d := get_data rs d in let j := get_data rs j in
                                   if length d =? length j then Some (mkmem false d j) else None
                     end in
            match m with
            | None => (s, RErr)
            | Some m => (s, of_outcome (fun m' => RBytes (m_out m')) (cts_run (cph key) v enc iv m))
            end
        | _ => (s, RUnsupported)
        end
    | OpCat ds => (s, RBytes (concat (map (get_data rs) ds)))
    | OpSub d off len =>
        let d := get_data rs d in
        if length d <? off + len then (s, RUnsupported) else (s, RBytes (firstn len (skipn off d)))
    | OpOther => (s, RUnsupported)
    end.

  Fixpoint run_ops (s : store) (rs : list res) (ops : list op) : list res :=
    match ops with
    | [] => rs
    | o :: ops' => let '(s', r) := step s rs o in run_ops s' (rs ++ [r]) ops'
    end.

  Definition run_case (ops : list op) : list res := run_ops [] [] ops.
End Run.
