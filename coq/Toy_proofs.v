(* Toy_proofs.v -- the toy cipher family of the correspondence harness meets the size hypotheses of the
   theorems (cipher_wf) for every block size, width, key and D-mode, so every theorem whose only premise on
   the cipher is cipher_wf speaks about the very ciphers the implementation is run with; and a small cipher
   that is not the identity meets cipher_wf and DE_id on ALL lists (non-vacuity of the D (E x) = x premise). *)
From BM Require Import Cipher Toy.
From Coq Require Import Lia.

Lemma mapi_aux_length {A B} (f : N -> A -> B) l : forall i, length (mapi_aux f i l) = length l.
Proof. induction l as [|a l IH]; intros i; cbn; auto. Qed.

Lemma mapi_length {A B} (f : N -> A -> B) l : length (mapi f l) = length l.
Proof. apply mapi_aux_length. Qed.

Lemma rot_left1_length {A} (x : list A) : length (rot_left1 x) = length x.
Proof. unfold rot_left1. rewrite app_length, skipn_length, firstn_length. lia. Qed.

Lemma rot_right1_length {A} (x : list A) : length (rot_right1 x) = length x.
Proof. unfold rot_right1. rewrite app_length, skipn_length, firstn_length. lia. Qed.

Theorem toy_wf bs w dm key : 0 < bs -> 0 < w -> cipher_wf (toy bs w dm key).
Proof.
  intros Hb Hw. unfold cipher_wf, toy. cbn [c_bs c_w c_E c_D]. repeat split; auto.
  - intros x Hx. unfold toyE. now rewrite mapi_length, rot_left1_length.
  - intros x Hx. destruct dm.
    + unfold toyD_inv. now rewrite rot_right1_length, mapi_length.
    + unfold toyD_unrel. now rewrite mapi_length.
Qed.

(* rotating the byte positions: a cipher with D (E x) = x on every list *)
Lemma rot_right_left {A} (x : list A) : rot_right1 (rot_left1 x) = x.
Proof.
  destruct x as [|a x]; [reflexivity|]. unfold rot_left1. cbn [skipn firstn]. unfold rot_right1.
  rewrite app_length. cbn [length]. replace (length x + 1 - 1) with (length x) by lia.
  rewrite skipn_app_exact, firstn_app_exact by reflexivity. reflexivity.
Qed.

Definition rot_cipher (bs w : nat) : cipher := mkcipher bs w rot_left1 rot_right1.

Theorem rot_cipher_ok bs w : 0 < bs -> 0 < w -> cipher_wf (rot_cipher bs w) /\ DE_id (rot_cipher bs w).
Proof.
  intros Hb Hw. split.
  - unfold cipher_wf, rot_cipher. cbn [c_bs c_w c_E c_D]. repeat split; auto; intros x Hx;
      [now rewrite rot_left1_length | now rewrite rot_right1_length].
  - intros x _. apply rot_right_left.
Qed.

Example rot_cipher_not_identity : c_E (rot_cipher 3 1) [1; 2; 3]%N = [2; 3; 1]%N.
Proof. reflexivity. Qed.

(* ---- in the `inv` configurations D really is E^-1 on byte strings ---- *)
From BM Require Import Base.
From Coq Require Import ZArith ZifyN ZifyNat ZifyBool.
Ltac Zify.zify_post_hook ::= Z.div_mod_to_equations.

Lemma rotr3_rotl3 v : (v < 256)%N -> rotr3 (rotl3 v) = v.
Proof. intros H. unfold rotr3, rotl3. lia. Qed.

Lemma unshift u c : (u < 256)%N -> (((u + c) mod 256 + 256 - c mod 256) mod 256 = u)%N.
Proof. intros H. lia. Qed.

Lemma keyb_lt k i : bytes_ok k -> (keyb k i < 256)%N.
Proof.
  intros H. unfold keyb. destruct (Nat.lt_ge_cases (N.to_nat (i mod 8)) (length k)) as [Hl|Hl].
  - unfold bytes_ok in H. rewrite Forall_forall in H. apply H. now apply nth_In.
  - rewrite nth_overflow by lia. lia.
Qed.

Lemma toy_byte_inv k i b : bytes_ok k -> (b < 256)%N ->
  N.lxor ((rotr3 (rotl3 ((N.lxor b (keyb k i) + (7 * i + 13)) mod 256)) + 256 - (7 * i + 13) mod 256) mod 256)%N (keyb k i) = b.
Proof.
  intros Hk Hb. pose proof (keyb_lt k i Hk) as Hkb.
  rewrite rotr3_rotl3 by (apply N.mod_lt; lia).
  rewrite unshift by (now apply lxor_lt_256).
  now rewrite N.lxor_assoc, N.lxor_nilpotent, N.lxor_0_r.
Qed.

Lemma mapi_aux_compose {A B C} (f : N -> A -> B) (g : N -> B -> C) l : forall i,
  mapi_aux g i (mapi_aux f i l) = mapi_aux (fun j a => g j (f j a)) i l.
Proof. induction l as [|a l IH]; intros i; cbn; auto. now rewrite IH. Qed.

Lemma mapi_aux_id (f : N -> N -> N) l : forall i, Forall (fun b => forall j, f j b = b) l -> mapi_aux f i l = l.
Proof. induction l as [|a l IH]; intros i H; cbn; auto. inversion H as [|? ? Ha Hl]; subst. now rewrite Ha, IH. Qed.

Lemma bytes_ok_rot_left1 x : bytes_ok x -> bytes_ok (rot_left1 x).
Proof. intros H. unfold rot_left1. apply bytes_ok_app. split; [now apply bytes_ok_skipn | now apply bytes_ok_firstn]. Qed.

Theorem toy_DE_bytes k x : bytes_ok k -> bytes_ok x -> toyD_inv k (toyE k x) = x.
Proof.
  intros Hk Hx. unfold toyD_inv, toyE, mapi. rewrite mapi_aux_compose.
  rewrite mapi_aux_id; [apply rot_right_left|].
  pose proof (bytes_ok_rot_left1 x Hx) as Hr. unfold bytes_ok in Hr.
  eapply Forall_impl; [|exact Hr]. intros b Hb j. cbv beta. now apply toy_byte_inv.
Qed.
