(* Padded_proofs.v -- C01 through the padded front-ends: BlockModeEncrypt::encrypt_padded_* with PKCS#7
   followed by BlockModeDecrypt::decrypt_padded_* returns the message, for every length (the padding
   block is always added), in place or buffer-to-buffer on either side.
   Generic over a pair of block-level bodies that invert each other; instantiated for the
   interpreter's CBC, PCBC and IGE kinds. *)
From BM Require Import BlockModes Spec BlockModes_proofs Spec_proofs RoundTrip_proofs Plumbing Cts_mem Interp Interp_proofs
  Async_proofs Inplace_proofs.
From Coq Require Import Lia.

Section Unpad.
  Variable mbs : nat.
  Hypothesis mbs_pos : 0 < mbs.

  Definition pkcs7_pad (tail : list N) : list N := tail ++ repeat (N.of_nat (mbs - length tail)) (mbs - length tail).

  Lemma pkcs7_pad_len tail : length tail < mbs -> length (pkcs7_pad tail) = mbs.
  Proof. intros H. unfold pkcs7_pad. rewrite app_length, repeat_length. lia. Qed.

  Lemma last_repeat {A} (x d : A) n : 0 < n -> last (repeat x n) d = x.
  Proof. induction n as [|n IH]; [lia|]. intros _. destruct n; [reflexivity|]. cbn [repeat last] in *. apply IH. lia. Qed.

  Lemma last_app_ne {A} (a b : list A) d : b <> [] -> last (a ++ b) d = last b d.
  Proof. intros Hb. induction a as [|x a IH]; [reflexivity|]. cbn [app]. destruct (a ++ b) eqn:E.
    - destruct a; [cbn in E; congruence|discriminate].
    - cbn [last]. exact IH. Qed.

  Lemma forallb_repeat (x : N) n : forallb (fun v => N.eqb v x) (repeat x n) = true.
  Proof. induction n; cbn; auto. now rewrite N.eqb_refl. Qed.

  Lemma firstn_repeat {A} (x : A) k n : firstn k (repeat x n) = repeat x (Nat.min k n).
  Proof. revert n; induction k as [|k IH]; intros [|n]; cbn; auto. now rewrite IH. Qed.

  Lemma pkcs7_unpad_pad tail : length tail < mbs -> pkcs7_unpad_len mbs (pkcs7_pad tail) = Ok (length tail).
  Proof.
    intros Ht. unfold pkcs7_unpad_len, pkcs7_pad. set (p := mbs - length tail).
    assert (Hp : 0 < p <= mbs) by (subst p; lia).
    assert (Hlast : last (tail ++ repeat (N.of_nat p) p) 0%N = N.of_nat p).
    { rewrite last_app_ne; [apply last_repeat; lia|]. destruct p; [lia|discriminate]. }
    rewrite Hlast, Nnat.Nat2N.id.
    destruct (Nat.eqb_spec p 0) as [|_]; [lia|]. destruct (Nat.ltb_spec mbs p) as [|_]; [lia|]. cbn [orb].
    replace (mbs - p) with (length tail) by (subst p; lia).
    rewrite skipn_app_exact by reflexivity. rewrite firstn_repeat, forallb_repeat. reflexivity.
  Qed.

  Lemma unpad_blocks_pad (bl : list block) tail : all_len mbs bl -> length tail < mbs ->
    unpad_blocks mbs Pkcs7 (bl ++ [pkcs7_pad tail]) = Ok (concat bl ++ tail).
  Proof.
    intros Hb Ht. unfold unpad_blocks. destruct (bl ++ [pkcs7_pad tail]) eqn:E; [destruct bl; discriminate|]. rewrite <- E. clear E.
    rewrite last_app_single, pkcs7_unpad_pad by auto. cbn [obind]. f_equal.
    rewrite app_length. cbn [length]. replace (length bl + 1 - 1) with (length bl) by lia.
    rewrite concat_app. cbn [concat]. rewrite app_nil_r.
    assert (Hc : length (concat bl) = mbs * length bl) by (rewrite (all_len_concat_length mbs); auto; unfold block in *; lia).
    unfold block in *. rewrite firstn_app. replace (length tail + mbs * length bl - length (concat bl)) with (length tail) by lia.
    rewrite firstn_all2 by lia. unfold pkcs7_pad. now rewrite firstn_app_exact.
  Qed.
End Unpad.

Section Generic.
  Context {S : Type}.
  Variable mbs : nat.
  Variables (es ds : S -> cell -> S * cell) (eb db : S -> list cell -> S * list cell).
  Hypothesis mbs_pos : 0 < mbs.
  Hypothesis eb_fold : forall st cs, eb st cs = fold_cells es st cs.
  Hypothesis db_fold : forall st cs, db st cs = fold_cells ds st cs.
  (* the two bodies invert each other on cells presenting corresponding data, and keep block lengths *)
  Variable st : S.
  Hypothesis rt : forall (cs cs2 : list cell), all_len mbs (map rd_in cs) ->
    map rd_in cs2 = map cout (snd (fold_cells es st cs)) -> map cout (snd (fold_cells ds st cs2)) = map rd_in cs.
  Hypothesis elen : forall (cs : list cell), all_len mbs (map rd_in cs) ->
    all_len mbs (map cout (snd (fold_cells es st cs))) /\ length (snd (fold_cells es st cs)) = length cs.

  (* what the padded encryption writes: the block loop over the message blocks and the padded tail *)
  Theorem enc_padded_spec (al : bool) (inb outb : list N) (bl : list block) (tail : list N) :
    inb = concat bl ++ tail -> all_len mbs bl -> length tail < mbs ->
    length inb + (mbs - length tail) <= length outb -> (al = true -> inb = firstn (length inb) outb) ->
    exists cs, map rd_in cs = bl ++ [pkcs7_pad mbs tail] /\
      enc_padded_inout mbs es eb Pkcs7 st al inb outb = Ok (concat (map cout (snd (fold_cells es st cs)))).
  Proof.
    intros Hin Hbl Ht Hroom Hal. unfold enc_padded_inout.
    assert (Hcl : length (concat bl) = length bl * mbs) by (apply all_len_concat_length; auto).
    assert (Hil : length inb = length bl * mbs + length tail) by (rewrite Hin, app_length; lia).
    assert (Hdiv : length inb / mbs = length bl /\ length inb mod mbs = length tail).
    { rewrite Hil. apply Cts_cs_proofs.div_mod_blocks; auto. }
    destruct Hdiv as [Hdiv _]. rewrite Hdiv. set (blen := mbs * length bl).
    assert (Hblen : blen = length (concat bl)) by (subst blen; lia).
    replace (length inb - blen) with (length tail) by lia.
    destruct (Nat.ltb_spec (length outb) (blen + mbs)) as [|_]; [lia|].
    assert (Hfi : firstn blen inb = concat bl) by (rewrite Hin; now apply firstn_app_exact).
    assert (Hsi : skipn blen inb = tail) by (rewrite Hin; now apply skipn_app_exact).
    rewrite Hfi.
    assert (Hfo : length (firstn blen outb) = length (concat bl)) by (rewrite firstn_length; lia).
    assert (Hal' : al = true -> concat bl = firstn blen outb).
    { intros Ha. specialize (Hal Ha). rewrite <- Hfi, Hal, firstn_firstn. f_equal. lia. }
    destruct (@cells_of_data unit mbs (fun _ b => b) mbs_pos (fun _ _ => eq_refl) al (concat bl) (firstn blen outb) bl []
                ltac:(now rewrite app_nil_r) Hbl ltac:(simpl; lia) Hfo Hal') as (Hrd & Hcn & _).
    set (cs := cells_of mbs al (concat bl) (firstn blen outb)) in *.
    assert (Htin : skipn blen (if al then firstn (length inb) outb else inb) = tail).
    { destruct al; [rewrite <- (Hal eq_refl)|]; exact Hsi. }
    rewrite Htin.
    set (tc := cell_b2b (tail ++ repeat (N.of_nat (mbs - length tail)) (mbs - length tail)) (firstn mbs (skipn blen outb))).
    exists (cs ++ [tc]). split.
    - rewrite map_app, Hrd. reflexivity.
    - rewrite eb_fold, fold_cells_app. destruct (fold_cells es st cs) as [st1 cs'].
      cbn [fold_cells]. destruct (es st1 tc) as [st2 c']. cbn [snd]. unfold outs_of.
      rewrite map_app, concat_app. cbn [map concat]. now rewrite app_nil_r.
  Qed.

  Theorem dec_padded_of_enc (al2 : bool) (ct out2 : list N) (cs : list cell) (bl : list block) (tail : list N) :
    map rd_in cs = bl ++ [pkcs7_pad mbs tail] -> all_len mbs bl -> length tail < mbs ->
    ct = concat (map cout (snd (fold_cells es st cs))) -> length out2 = length ct -> (al2 = true -> ct = out2) ->
    dec_padded_inout mbs db Pkcs7 st al2 ct out2 = Ok (concat bl ++ tail).
  Proof.
    intros Hrd Hbl Ht Hct Hl2 Hal2.
    assert (Hin : all_len mbs (map rd_in cs)).
    { rewrite Hrd. apply all_len_app. split; [exact Hbl|]. constructor; [now apply pkcs7_pad_len|constructor]. }
    destruct (elen cs Hin) as [Hel _].
    set (eo := map cout (snd (fold_cells es st cs))) in *.
    destruct (@cells_of_data unit mbs (fun _ b => b) mbs_pos (fun _ _ => eq_refl) al2 ct out2 eo []
                ltac:(now rewrite app_nil_r) Hel ltac:(simpl; lia) Hl2 Hal2) as (Hrd2 & _ & Htl).
    unfold dec_padded_inout.
    assert (Hc : chunks mbs ct = (eo, [])) by (rewrite Hct, <- (app_nil_r (concat eo)); apply chunks_concat; auto; simpl; lia).
    rewrite Hc. cbn [snd length Nat.eqb negb].
    rewrite db_fold.
    pose proof (rt cs (cells_of mbs al2 ct out2) Hin Hrd2) as Hrt.
    destruct (fold_cells ds st (cells_of mbs al2 ct out2)) as [st' cs']. cbn [snd] in Hrt. rewrite Hrt, Hrd.
    now apply unpad_blocks_pad.
  Qed.
End Generic.

(* ---- instances: the interpreter's CBC, PCBC and IGE kinds ---- *)
Section Instances.
  Variable C : cipher.
  Let bs := c_bs C.
  Let E := c_E C.
  Let D := c_D C.
  Hypothesis Cwf : cipher_wf C.
  Hypothesis DE : DE_id C.
  Let bs_pos : 0 < bs.
  Proof. destruct Cwf as (H & _). exact H. Qed.
  Let E_len : forall x, length x = bs -> length (E x) = bs.
  Proof. destruct Cwf as (_ & _ & H & _). exact H. Qed.
  Let D_len : forall x, length x = bs -> length (D x) = bs.
  Proof. destruct Cwf as (_ & _ & _ & H). exact H. Qed.

  Lemma pcbc_enc_spec_all_len s ps : length s = bs -> all_len bs ps -> all_len bs (pcbc_enc_spec E s ps).
  Proof.
    intros Hs Hp. revert s Hs. induction Hp as [|p ps Hpl _ IH]; intros s Hs; cbn [pcbc_enc_spec]; constructor.
    - apply E_len. rewrite xorb_length, Hpl, Hs. apply Nat.min_id.
    - apply IH. rewrite xorb_length, Hpl, E_len; [apply Nat.min_id|]. rewrite xorb_length, Hpl, Hs. apply Nat.min_id.
  Qed.

  Lemma ige_enc_spec_all_len c0 p0 ps : length c0 = bs -> length p0 = bs -> all_len bs ps -> all_len bs (ige_enc_spec E c0 p0 ps).
  Proof.
    intros Hc Hp0 Hp. revert c0 p0 Hc Hp0. induction Hp as [|p ps Hpl _ IH]; intros c0 p0 Hc Hp0; cbn [ige_enc_spec]; constructor.
    - rewrite xorb_length, E_len, Hp0; [apply Nat.min_id|]. rewrite xorb_length, Hpl, Hc. apply Nat.min_id.
    - apply IH; [|exact Hpl]. rewrite xorb_length, E_len, Hp0; [apply Nat.min_id|]. rewrite xorb_length, Hpl, Hc. apply Nat.min_id.
  Qed.

  (* a pair of kinds and a state on which the decryptor inverts the encryptor at block level *)
  Definition pair_ok (ke kd : bkind) (st : bstate) : Prop :=
    (forall (cs cs2 : list cell), all_len bs (map rd_in cs) ->
       map rd_in cs2 = map cout (snd (fold_cells (bm_single C ke) st cs)) ->
       map cout (snd (fold_cells (bm_single C kd) st cs2)) = map rd_in cs) /\
    (forall (cs : list cell), all_len bs (map rd_in cs) ->
       all_len bs (map cout (snd (fold_cells (bm_single C ke) st cs))) /\ length (snd (fold_cells (bm_single C ke) st cs)) = length cs).

  Lemma map2_wr_len cs (vs : list block) : length vs = length cs -> length (map2 wr_out cs vs) = length cs.
  Proof. intros H. rewrite map2_length. unfold block in *. lia. Qed.

  Lemma cbc_pair_ok iv x : length iv = bs -> pair_ok KCbcE KCbcD (iv, x).
  Proof.
    intros Hiv. split.
    - intros cs cs2 Hin H2. cbn [bm_single] in *. rewrite fold_lift1, cbc_dec_fold. rewrite fold_lift1, cbc_enc_fold in H2.
      cbn [snd] in *. rewrite map_cout_wr in H2 by (now rewrite (cbc_enc_spec_length E), map_length).
      rewrite map_cout_wr by (now rewrite (cbc_dec_spec_length D), map_length).
      rewrite H2. apply (cbc_roundtrip bs E D); auto.
    - intros cs Hin. cbn [bm_single]. rewrite fold_lift1, cbc_enc_fold. cbn [snd].
      rewrite map_cout_wr by (now rewrite (cbc_enc_spec_length E), map_length). split.
      + apply (cbc_enc_spec_all_len bs E); auto.
      + apply map2_wr_len. now rewrite (cbc_enc_spec_length E), map_length.
  Qed.

  Lemma pcbc_pair_ok iv x : length iv = bs -> pair_ok KPcbcE KPcbcD (iv, x).
  Proof.
    intros Hiv. split.
    - intros cs cs2 Hin H2. cbn [bm_single] in *. rewrite fold_lift1, pcbc_dec_fold. rewrite fold_lift1, pcbc_enc_fold in H2.
      cbn [snd] in *. rewrite map_cout_wr in H2 by (now rewrite pcbc_enc_spec_length, map_length).
      rewrite map_cout_wr by (now rewrite pcbc_dec_spec_length, map_length).
      rewrite H2. apply (pcbc_roundtrip bs E D); auto.
    - intros cs Hin. cbn [bm_single]. rewrite fold_lift1, pcbc_enc_fold. cbn [snd].
      rewrite map_cout_wr by (now rewrite pcbc_enc_spec_length, map_length). split.
      + apply pcbc_enc_spec_all_len; auto.
      + apply map2_wr_len. now rewrite pcbc_enc_spec_length, map_length.
  Qed.

  Lemma ige_pair_ok x y : length x = bs -> length y = bs -> pair_ok KIgeE KIgeD (x, y).
  Proof.
    intros Hx Hy. split.
    - intros cs cs2 Hin H2. cbn [bm_single] in *. rewrite ige_dec_fold. rewrite ige_enc_fold in H2.
      cbn [snd] in *. rewrite map_cout_wr in H2 by (now rewrite ige_enc_spec_length, map_length).
      rewrite map_cout_wr by (now rewrite ige_dec_spec_length, map_length).
      rewrite H2. apply (ige_roundtrip bs E D); auto.
    - intros cs Hin. cbn [bm_single]. rewrite ige_enc_fold. cbn [snd].
      rewrite map_cout_wr by (now rewrite ige_enc_spec_length, map_length). split.
      + apply ige_enc_spec_all_len; auto.
      + apply map2_wr_len. now rewrite ige_enc_spec_length, map_length.
  Qed.

  (* CFB and OFB need no relation between E and D *)
  Lemma cfb_st_roundtrip s (ps : list block) : length s = bs -> all_len bs ps -> cfb_dec_st E s (cfb_enc_st E s ps) = ps.
  Proof.
    intros Hs Hp. revert s Hs. induction Hp as [|p ps Hpl _ IH]; intros s Hs; [reflexivity|].
    cbn [cfb_enc_st cfb_dec_st]. rewrite xorb_cancel_r by lia. f_equal. apply IH. apply E_len.
    rewrite xorb_length, Hpl, Hs. apply Nat.min_id.
  Qed.

  Lemma cfb_enc_st_all_len s (ps : list block) : length s = bs -> all_len bs ps -> all_len bs (cfb_enc_st E s ps).
  Proof.
    intros Hs Hp. revert s Hs. induction Hp as [|p ps Hpl _ IH]; intros s Hs; cbn [cfb_enc_st]; constructor.
    - rewrite xorb_length, Hpl, Hs. apply Nat.min_id.
    - apply IH. apply E_len. rewrite xorb_length, Hpl, Hs. apply Nat.min_id.
  Qed.

  Lemma ofb_spec_all_len s (ps : list block) : length s = bs -> all_len bs ps -> all_len bs (ofb_spec E s ps).
  Proof.
    intros Hs Hp. revert s Hs. induction Hp as [|p ps Hpl _ IH]; intros s Hs; cbn [ofb_spec]; constructor.
    - rewrite xorb_length, Hpl, E_len by auto. apply Nat.min_id.
    - apply IH. now apply E_len.
  Qed.

  Lemma cfb_pair_ok s x : length s = bs -> pair_ok KCfbE KCfbD (s, x).
  Proof.
    intros Hs. split.
    - intros cs cs2 Hin H2. cbn [bm_single] in *. rewrite fold_lift1, cfb_dec_fold. rewrite fold_lift1, cfb_enc_fold in H2.
      cbn [snd] in *. rewrite map_cout_wr in H2 by (now rewrite cfb_enc_st_length, map_length).
      rewrite map_cout_wr by (now rewrite cfb_dec_st_length, map_length).
      rewrite H2. now apply cfb_st_roundtrip.
    - intros cs Hin. cbn [bm_single]. rewrite fold_lift1, cfb_enc_fold. cbn [snd].
      rewrite map_cout_wr by (now rewrite cfb_enc_st_length, map_length). split.
      + now apply cfb_enc_st_all_len.
      + apply map2_wr_len. now rewrite cfb_enc_st_length, map_length.
  Qed.

  Lemma ofb_pair_ok iv x : length iv = bs -> pair_ok KOfbE KOfbD (iv, x).
  Proof.
    intros Hiv. split.
    - intros cs cs2 Hin H2. cbn [bm_single] in *. rewrite fold_lift1, ofb_dec_fold. rewrite fold_lift1, ofb_enc_fold in H2.
      cbn [snd] in *. rewrite map_cout_wr in H2 by (now rewrite ofb_spec_length, map_length).
      rewrite map_cout_wr by (now rewrite ofb_spec_length, map_length).
      rewrite H2. apply (ofb_involutive bs E); auto.
    - intros cs Hin. cbn [bm_single]. rewrite fold_lift1, ofb_enc_fold. cbn [snd].
      rewrite map_cout_wr by (now rewrite ofb_spec_length, map_length). split.
      + now apply ofb_spec_all_len.
      + apply map2_wr_len. now rewrite ofb_spec_length, map_length.
  Qed.

  (* PKCS#7-padded encryption then decryption, any message, each side in place or buffer-to-buffer *)
  Theorem padded_roundtrip ke kd st (al : bool) (inb outb : list N) :
    pair_ok ke kd st ->
    length inb + (bs - length inb mod bs) <= length outb -> (al = true -> inb = firstn (length inb) outb) ->
    exists ct, enc_padded_inout bs (bm_single C ke) (bm_blocks C ke) Pkcs7 st al inb outb = Ok ct /\
               length ct = length inb + (bs - length inb mod bs) /\
               forall (al2 : bool) (out2 : list N), length out2 = length ct -> (al2 = true -> ct = out2) ->
                 dec_padded_inout bs (bm_blocks C kd) Pkcs7 st al2 ct out2 = Ok inb.
  Proof.
    intros [Hrt Hlen] Hroom Hal.
    destruct (chunks_decompose bs inb bs_pos) as (bl & tail & Hin & Hbl & Ht & _).
    assert (Hmod : length inb mod bs = length tail).
    { rewrite Hin, app_length, (all_len_concat_length bs bl Hbl). apply Cts_cs_proofs.div_mod_blocks; auto. }
    rewrite Hmod in *.
    destruct (enc_padded_spec bs (bm_single C ke) (bm_single C kd) (bm_blocks C ke) (bm_blocks C kd) bs_pos
                (bm_blocks_fold C ke) (bm_blocks_fold C kd) st al inb outb bl tail Hin Hbl Ht Hroom Hal) as (cs & Hrd & Henc).
    exists (concat (map cout (snd (fold_cells (bm_single C ke) st cs)))). split; [exact Henc|].
    assert (Hcin : all_len bs (map rd_in cs)).
    { rewrite Hrd. apply all_len_app. split; [exact Hbl|]. constructor; [now apply pkcs7_pad_len|constructor]. }
    destruct (Hlen cs Hcin) as [Ha Hn]. split.
    - rewrite (all_len_concat_length bs _ Ha), map_length, Hn, <- (map_length rd_in), Hrd, app_length. cbn [length].
      rewrite Hin, app_length, (all_len_concat_length bs bl Hbl). unfold block in *. nia.
    - intros al2 out2 Hl2 Hal2. rewrite Hin.
      apply (dec_padded_of_enc bs (bm_single C ke) (bm_single C kd) (bm_blocks C ke) (bm_blocks C kd) bs_pos
               (bm_blocks_fold C ke) (bm_blocks_fold C kd) st Hrt Hlen al2 _ out2 cs bl tail Hrd Hbl Ht eq_refl Hl2 Hal2).
  Qed.
End Instances.
