(* StepGates_proofs.v -- C13 at the level of the interpreter the correspondence check runs: an operation
   that is refused (result `err`) leaves EVERY object of the store exactly as it was; and the gates that
   live in the interpreter itself (slice-length checks of the constructors, unequal-length checks of the
   buffer-to-buffer helpers). *)
From BM Require Import BlockModes Plumbing Toy Ints Ctr Belt Stream Cts Interp.

Theorem step_err_no_effect bs w dm s rs o : snd (step bs w dm s rs o) = RErr -> fst (step bs w dm s rs o) = s.
Proof.
  destruct o; cbn [step];
  repeat match goal with
         | |- context [match ?x with _ => _ end] => destruct x eqn:?
         | |- context [if ?x then _ else _] => destruct x eqn:?
         end; cbn [fst snd]; try discriminate; try reflexivity.
Qed.

(* KeyIvInit::new_from_slices / InnerIvInit::inner_iv_slice_init: a key or IV slice of the wrong length is
   InvalidLength, nothing is constructed *)
Theorem new_from_slices_gate bs w dm s rs id k key iv :
  let ivlen := match k with KBlock bk => bm_ivlen (cph bs w dm (get_data rs key)) bk
                          | KCts (EcbCs1 | EcbCs2 | EcbCs3) => 0 | _ => bs end in
  length (get_data rs key) <> 8 \/ length (get_data rs iv) <> ivlen ->
  step bs w dm s rs (OpNew id k HSlices key iv) = (s, RErr).
Proof.
  intros ivlen H. cbn [step]. fold ivlen.
  replace ((length (get_data rs key) =? 8) && (length (get_data rs iv) =? ivlen)) with false; [reflexivity|].
  symmetry. apply andb_false_iff. destruct H as [H|H]; [left|right]; now apply Nat.eqb_neq.
Qed.

Theorem inner_iv_slice_gate bs w dm s rs id k key iv :
  let ivlen := match k with KBlock bk => bm_ivlen (cph bs w dm (get_data rs key)) bk
                          | KCts (EcbCs1 | EcbCs2 | EcbCs3) => 0 | _ => bs end in
  length (get_data rs key) = 8 -> length (get_data rs iv) <> ivlen ->
  step bs w dm s rs (OpNew id k HInnerSlice key iv) = (s, RErr).
Proof.
  intros ivlen Hk H. cbn [step]. fold ivlen. rewrite Hk. cbn [Nat.eqb andb].
  replace (length (get_data rs iv) =? ivlen) with false by (symmetry; now apply Nat.eqb_neq). reflexivity.
Qed.

(* the *_b2b helpers refuse buffers of different lengths (NotEqualError) without touching anything *)
Theorem blocks_b2b_gate bs w dm s rs id k key st d j : lookup s id = Some (OBlock k key st) ->
  let mbs := bm_mbs (cph bs w dm key) k in
  length (get_data rs d) mod mbs = 0 -> length (get_data rs j) mod mbs = 0 ->
  length (get_data rs d) <> length (get_data rs j) ->
  step bs w dm s rs (OpBlks id (PB2b d j)) = (s, RErr).
Proof.
  intros Hl mbs Hd Hj Hne. cbn [step]. rewrite Hl. fold mbs. rewrite Hd, Hj. cbn [Nat.eqb andb negb].
  replace (length (get_data rs d) =? length (get_data rs j)) with false by (symmetry; now apply Nat.eqb_neq). reflexivity.
Qed.

Theorem async_b2b_gate bs w dm s rs id k key st d j : lookup s id = Some (OBlock k key st) -> bm_is_async k = true ->
  length (get_data rs d) <> length (get_data rs j) ->
  step bs w dm s rs (OpAsync id (PB2b d j)) = (s, RErr).
Proof.
  intros Hl Ha Hne. cbn [step]. rewrite Hl, Ha. cbn [negb].
  replace (length (get_data rs d) =? length (get_data rs j)) with false by (symmetry; now apply Nat.eqb_neq). reflexivity.
Qed.
