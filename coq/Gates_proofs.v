(* Gates_proofs.v -- C13: length gates and absence of panics, on the model's partial primitives. *)
From BM Require Import BlockModes Plumbing Toy Ints Ctr Belt Stream Cts Stream_proofs Wrapper_proofs.
From Coq Require Import ZArith Lia.

(* ---- cts: a message shorter than one block is refused before anything is touched ---- *)
Theorem cts_short_is_err C v enc iv m : mlen m < c_bs C -> cts_run C v enc iv m = Err.
Proof.
  intros H. apply Nat.ltb_lt in H.
  destruct v, enc; cbn [cts_run];
    unfold cbc_cs1_enc, cbc_cs1_dec, cbc_cs2_enc, cbc_cs2_dec, cbc_cs3_enc, cbc_cs3_dec,
           ecb_cs1_enc, ecb_cs1_dec, ecb_cs2_enc, ecb_cs2_dec, ecb_cs3_enc, ecb_cs3_dec; now rewrite H.
Qed.

(* ---- padded front-ends: the gates ---- *)
Section Padded.
  Context {S : Type}.
  Variables (mbs : nat) (single : S -> cell -> S * cell) (blocks : S -> list cell -> S * list cell).
  Hypothesis mbs_pos : 0 < mbs.

  Theorem enc_padded_ip_gate P st buf msg_len : length buf < msg_len -> enc_padded_ip mbs single blocks P st buf msg_len = Err.
  Proof. intros H. unfold enc_padded_ip. apply Nat.ltb_lt in H. now rewrite H. Qed.

  Theorem enc_padded_b2b_gate P st msg out : length out < length msg -> enc_padded_b2b mbs single blocks P st msg out = Err.
  Proof. intros H. unfold enc_padded_b2b. apply Nat.ltb_lt in H. now rewrite H. Qed.

  (* PKCS#7 needs room for one more block; NoPadding needs a whole number of blocks *)
  Theorem enc_padded_pkcs7_room st al inb outb :
    length outb < mbs * (length inb / mbs) + mbs -> enc_padded_inout mbs single blocks Pkcs7 st al inb outb = Err.
  Proof. intros H. unfold enc_padded_inout. apply Nat.ltb_lt in H. now rewrite H. Qed.

  Theorem enc_padded_nopad_partial st al inb outb :
    length inb mod mbs <> 0 -> enc_padded_inout mbs single blocks NoPadding st al inb outb = Err.
  Proof.
    intros H. unfold enc_padded_inout.
    assert (E : length inb - mbs * (length inb / mbs) = length inb mod mbs).
    { pose proof (Nat.div_mod (length inb) mbs ltac:(lia)). lia. }
    rewrite E. destruct (Nat.eqb_spec (length inb mod mbs) 0); [contradiction|reflexivity].
  Qed.

  (* padded decryption of a length that is not a multiple of the block size *)
  Theorem dec_padded_not_multiple P st al inb outb :
    length inb mod mbs <> 0 -> dec_padded_inout mbs blocks P st al inb outb = Err.
  Proof.
    intros H. unfold dec_padded_inout.
    pose proof (chunks_inv mbs inb mbs_pos) as Hc. destruct (chunks mbs inb) as [bl t]. cbn [snd].
    destruct Hc as (E & Hall & Ht).
    destruct (Nat.eqb_spec (length t) 0) as [E0|]; [|reflexivity]. exfalso. apply H.
    rewrite E, app_length, (all_len_concat_length mbs bl Hall), E0, Nat.add_0_r. apply Nat.mod_mul. lia.
  Qed.

  Theorem dec_padded_b2b_short P st inb out : length out < length inb -> dec_padded_b2b mbs blocks P st inb out = Err.
  Proof. intros H. unfold dec_padded_b2b. apply Nat.ltb_lt in H. now rewrite H. Qed.
End Padded.

(* ---- buffered CFB: every exported state (pos <= bs, |iv| = bs) is accepted without a panic ---- *)
Section BufNoPanic.
  Variable C : cipher.
  Let bs := c_bs C.

  Theorem buf_apply_no_panic set1 iv pos data : pos <= bs -> length iv = bs ->
    exists st' out, buf_apply C set1 (iv, pos) data = Ok (st', out).
  Proof.
    intros Hp Hl. unfold buf_apply. fold bs. unfold usub. destruct (Nat.leb_spec pos bs) as [_|]; [|lia].
    cbn [obind]. destruct (Nat.ltb_spec (length data) (bs - pos)) as [Hlt|Hge].
    - unfold slice. replace ((pos <=? pos + length data) && (pos + length data <=? length iv)) with true.
      + cbn [obind]. eauto.
      + symmetry. apply andb_true_iff. split; apply Nat.leb_le; lia.
    - unfold slice_from. destruct (Nat.leb_spec pos (length iv)) as [_|]; [|lia]. cbn [obind].
      destruct (chunks bs (skipn (bs - pos) data)) as [chs rem].
      destruct (buf_chunks C set1 _ chs) as [iv2 o]. eauto.
  Qed.
End BufNoPanic.

(* ---- keystream wrapper: apply, seek (non-negative targets), position never panic ---- *)
Theorem into_block_byte_no_panic t bits p bs : 0 < bs -> bs < 256 -> (0 <= p)%Z -> into_block_byte t bits p bs <> Panic.
Proof.
  intros Hb Hb2 Hp. unfold into_block_byte. destruct (_ || _); [discriminate|].
  rewrite Z.rem_mod_nonneg by lia.
  assert (Hm : (0 <= p mod Z.of_nat bs < Z.of_nat bs)%Z) by (apply Z.mod_pos_bound; lia).
  rewrite (Z.mod_small (p mod Z.of_nat bs) 256) by lia.
  destruct (Nat.leb_spec bs (Z.to_nat (p mod Z.of_nat bs))); [lia|discriminate].
Qed.

Theorem from_block_byte_no_panic t blk byte bs : from_block_byte t blk byte bs <> Panic.
Proof. unfold from_block_byte. repeat (destruct (_ <? _)%Z || destruct (_ <? _)); discriminate. Qed.
