(* BlockModes.v -- executable model of the block-level backends of cbc, pcbc, ige, cfb-mode, cfb8
   and ofb in /repo: one definition per Rust function body, written with the cell primitives.

   Naming: <mode>_<dir>_block  = `encrypt_block` / `decrypt_block` of the mode's Backend,
           <mode>_<dir>_par    = its `*_par_blocks` (hand-written or the trait default),
           <mode>_<dir>_w      = the ParBlocksSize the Backend declares (1 or the cipher's),
           <mode>_init / _iv_state = InnerIvInit::inner_iv_init / IvState::iv_state. *)
From BM Require Export Cipher.

Section Modes.
  Variable C : cipher.
  Let bs := c_bs C.
  Let E := c_E C.
  Let D := c_D C.

  (* ---- cbc/src/encrypt.rs, decrypt.rs ------------------------------------------------------- *)
  Definition cbc_init (iv : block) : block := iv.
  Definition cbc_iv_state (st : block) : block := st.

  Definition cbc_enc_block (iv : block) (c : cell) : block * cell :=
    let t := rd_in c in                 (* let mut t = block.clone_in();          *)
    let t := xorb t iv in               (* xor(&mut t, self.iv);                  *)
    let t := E t in                     (* cipher_backend.encrypt_block(&mut t);  *)
    (t, wr_out c t).                    (* *self.iv = t.clone(); *get_out() = t;  *)
  Definition cbc_enc_w : nat := 1.
  Definition cbc_enc_par := default_par cbc_enc_block.

  Definition cbc_dec_block (iv : block) (c : cell) : block * cell :=
    let in_block := rd_in c in
    let t := rd_in c in
    let t := D t in
    let t := xorb t iv in
    let c := wr_out c t in
    (in_block, c).
  Definition cbc_dec_w : nat := c_w C.
  Definition cbc_dec_par (iv : block) (cs : list cell) : block * list cell :=
    let in_blocks := map rd_in cs in            (* blocks.clone_in()                           *)
    let t := map rd_in cs in
    let t := map D t in                         (* decrypt_par_blocks((&mut t).into())         *)
    let t := map2 xorb t (iv :: in_blocks) in   (* t[0]^=iv; for i in 1..n { t[i]^=in[i-1] }   *)
    (last in_blocks iv, map2 wr_out cs t).      (* *get_out() = t; *iv = in_blocks[n-1]         *)

  (* ---- pcbc ------------------------------------------------------------------------------------ *)
  Definition pcbc_init (iv : block) : block := iv.
  Definition pcbc_iv_state (st : block) : block := st.

  Definition pcbc_enc_block (iv : block) (c : cell) : block * cell :=
    let t1 := rd_in c in
    let t2 := rd_in c in
    let t1 := xorb t1 iv in
    let t1 := E t1 in
    let t2 := xorb t2 t1 in
    let c := wr_out c t1 in
    (t2, c).
  Definition pcbc_enc_w : nat := 1.
  Definition pcbc_enc_par := default_par pcbc_enc_block.

  Definition pcbc_dec_block (iv : block) (c : cell) : block * cell :=
    let t1 := rd_in c in
    let t2 := rd_in c in
    let t1 := D t1 in
    let t1 := xorb t1 iv in
    let t2 := xorb t2 t1 in
    (t2, wr_out c t1).
  Definition pcbc_dec_w : nat := 1.
  Definition pcbc_dec_par := default_par pcbc_dec_block.

  (* ---- ige: state (x, y); the IV is y || x ------------------------------------------------------- *)
  Definition ige_init (iv : block) : block * block := (skipn bs iv, firstn bs iv).   (* (x, y) *)
  Definition ige_iv_state (st : block * block) : block := snd st ++ fst st.           (* y.concat(x) *)

  Definition ige_enc_block (st : block * block) (c : cell) : (block * block) * cell :=
    let '(x, y) := st in
    let new_x := rd_in c in
    let t := new_x in
    let t := xorb t y in
    let t := E t in
    let t := xorb t x in
    let c := wr_out c t in
    ((new_x, t), c).
  Definition ige_enc_w : nat := 1.
  Definition ige_enc_par := default_par ige_enc_block.

  Definition ige_dec_block (st : block * block) (c : cell) : (block * block) * cell :=
    let '(x, y) := st in
    let new_y := rd_in c in
    let t := new_y in
    let t := xorb t x in
    let t := D t in
    let t := xorb t y in
    let c := wr_out c t in
    ((t, new_y), c).
  Definition ige_dec_w : nat := 1.
  Definition ige_dec_par := default_par ige_dec_block.

  (* ---- cfb-mode: the stored state is E(chaining value) ----------------------------------------- *)
  Definition cfb_init (iv : block) : block := E iv.
  Definition cfb_iv_state (st : block) : block := D st.

  Definition cfb_enc_block (iv : block) (c : cell) : block * cell :=
    let c := xor_in2out c iv in         (* block.xor_in2out(self.iv);            *)
    let t := rd_out c in                (* let mut t = block.get_out().clone();  *)
    let t := E t in
    (t, c).
  Definition cfb_enc_w : nat := 1.
  Definition cfb_enc_par := default_par cfb_enc_block.

  Definition cfb_dec_block (iv : block) (c : cell) : block * cell :=
    let t := rd_in c in
    let c := xor_in2out c iv in
    let t := E t in
    (t, c).
  Definition cfb_dec_w : nat := c_w C.
  Definition cfb_dec_par (iv : block) (cs : list cell) : block * list cell :=
    let t := map E (map rd_in cs) in            (* encrypt_par_blocks((get_in(), &mut t))      *)
    let cs := map2 xor_in2out cs (iv :: t) in   (* get(0)^=iv; for i in 1..n { get(i)^=t[i-1] } *)
    (last t iv, cs).                            (* *self.iv = t[n-1]                            *)

  (* ---- cfb8: mode block size 1, register of bs bytes ---------------------------------------------- *)
  Definition cfb8_init (iv : block) : block := iv.
  Definition cfb8_iv_state (st : block) : block := st.

  Definition cfb8_enc_block (iv : block) (c : cell) : block * cell :=
    let t := E iv in
    let k := firstn 1 t in
    let c := xor_in2out c k in
    let r := firstn 1 (rd_out c) in
    (skipn 1 iv ++ r, c).               (* iv[i] = iv[i+1]; iv[n-1] = r *)
  Definition cfb8_enc_w : nat := 1.
  Definition cfb8_enc_par := default_par cfb8_enc_block.

  Definition cfb8_dec_block (iv : block) (c : cell) : block * cell :=
    let t := E iv in
    let r := firstn 1 (rd_in c) in
    let k := firstn 1 t in
    let c := xor_in2out c k in
    (skipn 1 iv ++ r, c).
  Definition cfb8_dec_w : nat := 1.
  Definition cfb8_dec_par := default_par cfb8_dec_block.

  (* ---- ofb: one backend behind BlockModeEncrypt, BlockModeDecrypt and StreamCipherCore ------------ *)
  Definition ofb_init (iv : block) : block := iv.
  Definition ofb_iv_state (st : block) : block := st.

  Definition ofb_gen (iv : block) : block * block :=      (* gen_ks_block: (new state, ks block) *)
    let iv := E iv in (iv, iv).
  Definition ofb_enc_block (iv : block) (c : cell) : block * cell :=
    let iv := E iv in
    (iv, xor_in2out c iv).
  Definition ofb_dec_block (iv : block) (c : cell) : block * cell :=
    let iv := E iv in
    (iv, xor_in2out c iv).
  Definition ofb_w : nat := 1.
  Definition ofb_enc_par := default_par ofb_enc_block.
  Definition ofb_dec_par := default_par ofb_dec_block.
End Modes.
