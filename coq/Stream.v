(* Stream.v -- `cipher::stream::{core_api, wrapper}`: the drivers of StreamCipherCore
   (WriteBlockCtx, WriteBlocksCtx, ApplyBlockCtx, ApplyBlocksCtx), StreamCipherCoreWrapper
   (check_remaining, try_apply_keystream_inout, try_seek, try_current_pos) and SeekNum for
   i32/u32/u64/u128/usize, over an abstract keystream core. *)
From BM Require Export Outcome Cipher Ints.
From Coq Require Export ZArith.

(* what a StreamCipherCore + StreamCipherSeekCore + its Backend provide *)
Record score (St : Type) := mkscore {
  sc_bs : nat;                              (* BlockSize                                   *)
  sc_w : nat;                               (* the Backend's ParBlocksSize                 *)
  sc_gen : St -> St * block;                  (* gen_ks_block                                *)
  sc_gen_par : St -> St * list block;         (* gen_par_ks_blocks (sc_w blocks)             *)
  sc_remaining : St -> option N;             (* remaining_blocks                            *)
  sc_get_pos : St -> N;                      (* get_block_pos                               *)
  sc_set_pos : St -> N -> St;                 (* set_block_pos                               *)
  sc_ctr_bits : nat;                        (* width of StreamCipherSeekCore::Counter      *)
}.
Arguments mkscore {St}. Arguments sc_bs {St}. Arguments sc_w {St}. Arguments sc_gen {St}. Arguments sc_gen_par {St}.
Arguments sc_remaining {St}. Arguments sc_get_pos {St}. Arguments sc_set_pos {St}. Arguments sc_ctr_bits {St}.

Section Core.
  Context {St : Type}.
  Variable K : score St.
  Let bs := sc_bs K.
  Let w := sc_w K.

  (* n single-block generations *)
  Fixpoint gen_n (n : nat) (st : St) : St * list block :=
    match n with
    | O => (st, [])
    | S n' => let '(st1, b) := sc_gen K st in let '(st2, bl) := gen_n n' st1 in (st2, b :: bl)
    end.

  (* keystream blocks for `n` blocks the way WriteBlocksCtx / ApplyBlocksCtx produce them:
     whole groups of w through gen_par_ks_blocks, the rest (< w) through gen_tail_blocks *)
  Fixpoint gen_groups (g : nat) (st : St) : St * list block :=
    match g with
    | O => (st, [])
    | S g' => let '(st1, b) := sc_gen_par K st in let '(st2, bl) := gen_groups g' st1 in (st2, b ++ bl)
    end.

  Definition ks_blocks (n : nat) (st : St) : St * list block :=
    if 1 <? w then
      let '(st1, a) := gen_groups (n / w) st in
      let '(st2, b) := gen_n (n mod w) st1 in
      (st2, a ++ b)
    else gen_n n st.

  (* write_keystream_block / write_keystream_blocks *)
  Definition write_ks_block (st : St) : St * block := sc_gen K st.
  Definition write_ks_blocks (n : nat) (st : St) : St * list block := ks_blocks n st.

  (* apply_keystream_block_inout / apply_keystream_blocks_inout *)
  Definition apply_ks_block (st : St) (c : cell) : St * cell :=
    let '(st1, t) := sc_gen K st in (st1, xor_in2out c t).
  Definition apply_ks_blocks (st : St) (cs : list cell) : St * list cell :=
    let '(st1, ks) := ks_blocks (length cs) st in (st1, map2 xor_in2out cs ks).
End Core.

(* ---------------------------------------------------------------------------------------------- *)
(* SeekNum                                                                                          *)
Inductive seeknum := SN_i32 | SN_u32 | SN_u64 | SN_u128 | SN_usize.
Definition sn_max (t : seeknum) : Z :=
  match t with SN_i32 => 2 ^ 31 - 1 | SN_u32 => 2 ^ 32 - 1 | SN_u64 => 2 ^ 64 - 1
          | SN_u128 => 2 ^ 128 - 1 | SN_usize => 2 ^ 64 - 1 end%Z.
Definition sn_min (t : seeknum) : Z := match t with SN_i32 => (- 2 ^ 31)%Z | _ => 0%Z end.

(* SeekNum::from_block_byte(block, byte, bs) *)
Definition from_block_byte (t : seeknum) (blk : N) (byte bs : nat) : outcome Z :=
  if bs <? byte then Err                                       (* block_size.checked_sub(byte) *)
  else
    let rem := Z.of_nat (bs - byte) in
    let b := Z.of_N blk in
    if (sn_max t <? b)%Z then Err                              (* block.try_into()             *)
    else
      let m := (b * Z.of_nat bs)%Z in
      if (sn_max t <? m)%Z then Err                            (* checked_mul                  *)
      else
        let r := (m - rem)%Z in
        if (r <? sn_min t)%Z then Err else Ok r.               (* checked_sub                  *)

(* SeekNum::into_block_byte(self, bs) -> (block: Counter, byte: u8); then the wrapper's
   `assert!(byte_pos < bs)` *)
Definition into_block_byte (t : seeknum) (ctr_bits : nat) (p : Z) (bs : nat) : outcome (N * nat) :=
  let byte := Z.to_nat ((Z.rem p (Z.of_nat bs)) mod 256)%Z in  (* (self % bs) as u8            *)
  let blk := Z.quot p (Z.of_nat bs) in
  if (blk <? 0)%Z || (Z.of_N (pow2 ctr_bits) <=? blk)%Z then Err     (* T::try_from(self / bs)  *)
  else if bs <=? byte then Panic                                 (* assert!(byte_pos < bs)       *)
  else Ok (Z.to_N blk, byte).

(* ---------------------------------------------------------------------------------------------- *)
(* StreamCipherCoreWrapper.  The real type keeps `pos` in buffer[0]; that byte is never part of   *)
(* `buffer[pos..]` (pos >= 1), so the model keeps pos apart.                                       *)

Record wrapper (St : Type) := mkwrap { wr_core : St; wr_buf : block; wr_pos : nat }.
Arguments mkwrap {St}. Arguments wr_core {St}. Arguments wr_buf {St}. Arguments wr_pos {St}.

Section Wrapper.
  Context {St : Type}.
  Variable K : score St.
  Let bs := sc_bs K.

  Definition from_core (c : St) : wrapper St := mkwrap c (zeros bs) bs.

  (* check_remaining(data_len): true = Ok *)
  Definition check_remaining (wst : wrapper St) (data_len : nat) : bool :=
    match sc_remaining K (wr_core wst) with
    | None => true
    | Some rem_blocks =>
        let buf_rem := bs - wr_pos wst in
        if data_len <=? buf_rem then true                      (* checked_sub: Some(0) | None *)
        else
          let dl := data_len - buf_rem in
          let blocks := (dl + bs - 1) / bs in                  (* div_ceil *)
          negb (rem_blocks <? N.of_nat blocks)%N              (* blocks > rem_blocks => Err *)
    end.

  (* try_apply_keystream_inout on (al, inb, outb); returns the new wrapper and the output bytes *)
  Definition try_apply (wst : wrapper St) (al : bool) (inb outb : list N) : outcome (wrapper St * list N) :=
    let data_len := length outb in
    if negb (check_remaining wst data_len) then Err
    else
      let src := if al then outb else inb in
      let pos := wr_pos wst in
      let rem := bs - pos in
      if (negb (rem =? 0)) && (data_len <=? rem) then
        let o := xorb src (firstn data_len (skipn pos (wr_buf wst))) in
        Ok (mkwrap (wr_core wst) (wr_buf wst) (pos + data_len), o)
      else
        let r := rem in                                                   (* split_at(rem); nothing when rem = 0 *)
        let left := xorb (firstn r src) (skipn pos (wr_buf wst)) in       (* left.xor_in2out(&buffer[pos..]) *)
        let src' := skipn r src in
        let out' := skipn r outb in
        let '(chs_in, tail_in) := chunks bs src' in
        let '(chs_out, _) := chunks bs out' in
        let cs := map2 (mkcell al) chs_in chs_out in
        let '(core1, cs') := apply_ks_blocks K (wr_core wst) cs in
        let mid := concat (map cout cs') in
        if length tail_in =? 0 then
          Ok (mkwrap core1 (wr_buf wst) bs, left ++ mid)
        else
          let '(core2, kb) := write_ks_block K core1 in
          let t := xorb tail_in (firstn (length tail_in) kb) in
          Ok (mkwrap core2 kb (length tail_in), left ++ mid ++ t).

  Definition try_current_pos (t : seeknum) (wst : wrapper St) : outcome Z :=
    from_block_byte t (sc_get_pos K (wr_core wst)) (wr_pos wst) bs.

  Definition try_seek (t : seeknum) (wst : wrapper St) (p : Z) : outcome (wrapper St) :=
    do bb <- into_block_byte t (sc_ctr_bits K) p bs;
    let '(blk, byte) := bb in
    let core1 := sc_set_pos K (wr_core wst) blk in
    if negb (byte =? 0) then
      let '(core2, kb) := write_ks_block K core1 in
      Ok (mkwrap core2 kb byte)
    else Ok (mkwrap core1 (wr_buf wst) bs).

  (* Debug prints `buffer[pos..]` *)
  Definition debug_payload (wst : wrapper St) : list N := skipn (wr_pos wst) (wr_buf wst).
End Wrapper.
