(* Cts_cs_proofs.v -- C05: the ciphertext-stealing bodies of Cts.v against the layouts of Cts_spec.v,
   for every block size, width, cipher, message length L >= bs (given as nb >= 1 whole blocks and a
   tail shorter than a block), in place or buffer-to-buffer with any output contents. *)
From BM Require Import Outcome Cipher Plumbing Spec BlockModes BlockModes_proofs Spec_proofs Cts Cts_proofs Cts_mem Cts_spec.
From Coq Require Import Lia.

Lemma div_mod_blocks nb bs tl : 0 < bs -> tl < bs -> (nb * bs + tl) / bs = nb /\ (nb * bs + tl) mod bs = tl.
Proof.
  intros Hb Ht. assert (H : bs * nb + tl = bs * ((nb * bs + tl) / bs) + (nb * bs + tl) mod bs).
  { rewrite <- Nat.div_mod by lia. lia. }
  apply Nat.div_mod_unique in H; auto.
  - destruct H; auto.
  - apply Nat.mod_upper_bound. lia.
Qed.

Lemma last_removelast {A} (l : list A) d : l <> [] -> l = removelast l ++ [last l d].
Proof. intros H. now apply app_removelast_last. Qed.

Lemma removelast_length {A} (l : list A) : length (removelast l) = length l - 1.
Proof. induction l as [|a l IH]; [reflexivity|]. destruct l; [reflexivity|]. cbn [removelast length] in *. rewrite IH. lia. Qed.

Lemma all_len_removelast {A} n (l : list (list A)) : all_len n l -> all_len n (removelast l).
Proof. induction 1 as [|a l Ha Hl IH]; [constructor|]. destruct l; [constructor|]. cbn [removelast]. constructor; auto. Qed.

Lemma all_len_last {A} n (l : list (list A)) d : all_len n l -> l <> [] -> length (last l d) = n.
Proof. intros H Hne. rewrite (last_removelast l d Hne) in H. apply Forall_app in H. destruct H as [_ H].
  inversion H; auto. Qed.

Lemma last_indep {A} (l : list A) d d' : l <> [] -> last l d = last l d'.
Proof. induction l as [|a l IH]; intros H; [congruence|]. destruct l; [reflexivity|]. cbn [last]. apply IH. discriminate. Qed.

Lemma split_last_two {A} (l : list A) : 2 <= length l -> exists pre a b, l = pre ++ [a; b].
Proof.
  intros H. destruct (exists_last (l := l)) as (l1 & b & ->); [intros ->; simpl in H; lia|].
  rewrite app_length in H. simpl in H.
  destruct (exists_last (l := l1)) as (l2 & a & ->); [intros ->; simpl in H; lia|].
  exists l2, a, b. now rewrite <- app_assoc.
Qed.

Lemma cs_layouts_split (pre : list block) a b d :
  cs1_layout (pre ++ [a; b]) d = concat pre ++ firstn d a ++ b /\
  cs3_layout (pre ++ [a; b]) d = concat pre ++ b ++ firstn d a.
Proof.
  unfold cs1_layout, cs3_layout. rewrite app_length. cbn [length].
  destruct (Nat.leb_spec (length pre + 2) 1) as [|_]; [lia|].
  replace (length pre + 2 - 2) with (length pre) by lia. replace (length pre + 2 - 1) with (S (length pre)) by lia.
  rewrite firstn_app_exact by auto.
  rewrite !app_nth2 by lia. rewrite Nat.sub_diag. replace (S (length pre) - length pre) with 1 by lia. cbn [nth].
  split; reflexivity.
Qed.

Lemma cs_layouts_snoc (Cs : list block) x d : Cs <> [] ->
  cs1_layout (Cs ++ [x]) d = concat (removelast Cs) ++ firstn d (last Cs []) ++ x /\
  cs3_layout (Cs ++ [x]) d = concat (removelast Cs) ++ x ++ firstn d (last Cs []).
Proof.
  intros Hne. rewrite (last_removelast Cs [] Hne) at 1 4.
  replace ((removelast Cs ++ [last Cs []]) ++ [x]) with (removelast Cs ++ [last Cs []; x]) by (now rewrite <- app_assoc).
  apply cs_layouts_split.
Qed.

Lemma cs1_layout_whole bs (Cs : list block) : all_len bs Cs -> cs1_layout Cs bs = concat Cs.
Proof.
  intros H. destruct (Nat.leb_spec (length Cs) 1) as [H1|H2].
  - unfold cs1_layout. apply Nat.leb_le in H1. now rewrite H1.
  - destruct (split_last_two Cs) as (pre & a & b & ->); [lia|].
    destruct (cs_layouts_split pre a b bs) as [-> _].
    apply Forall_app in H. destruct H as [_ H]. inversion H as [|? ? Ha _]; subst.
    rewrite concat_app. cbn [concat]. rewrite app_nil_r, firstn_all2 by lia. reflexivity.
Qed.

Section Cs.
  Variable C : cipher.
  Let bs := c_bs C.
  Let E := c_E C.
  Let D := c_D C.
  Hypothesis Cwf : cipher_wf C.

  Let bs_pos : 0 < bs.
  Proof. destruct Cwf as (H & _). exact H. Qed.
  Let E_len : forall x, length x = bs -> length (E x) = bs.
  Proof. destruct Cwf as (_ & _ & H & _). exact H. Qed.
  Let D_len : forall x, length x = bs -> length (D x) = bs.
  Proof. destruct Cwf as (_ & _ & _ & H). exact H. Qed.

  (* the shape of a well-formed memory holding the message blocks ++ tail *)
  Record msg_mem (m : mem) (blocks : list (list N)) (tail : list N) : Prop := {
    mm_wf : mwf m;
    mm_src : msrc m = concat blocks ++ tail;
    mm_blocks : all_len bs blocks;
    mm_nb : 1 <= length blocks;
    mm_tail : length tail < bs;
  }.

  Lemma mm_len m blocks tail : msg_mem m blocks tail -> mlen m = length blocks * bs + length tail.
  Proof.
    intros [[Hl Hw] Hs Hb _ _]. unfold mlen. unfold msrc in Hs. destruct (m_al m) eqn:Ea.
    - rewrite Hs, app_length, (all_len_concat_length bs); auto.
    - rewrite <- Hl, Hs, app_length, (all_len_concat_length bs); auto.
  Qed.

  (* the output side has the same block structure (and in place it is the message itself) *)
  Lemma out_decomp m blocks tail : msg_mem m blocks tail ->
    exists ob ot, m_out m = concat ob ++ ot /\ all_len bs ob /\ length ob = length blocks /\ length ot = length tail /\
                  (m_al m = true -> ob = blocks /\ ot = tail).
  Proof.
    intros Hm. pose proof (mm_len m blocks tail Hm) as HL. destruct Hm as [[Hl Hw] Hs Hb Hn Ht].
    destruct (m_al m) eqn:Ea.
    - exists blocks, tail. unfold msrc in Hs. rewrite Ea in Hs. repeat split; auto.
    - destruct (chunks_decompose bs (m_out m) bs_pos) as (ob & ot & E1 & Hob & Hot & _).
      exists ob, ot. unfold mlen in HL. rewrite E1, app_length, (all_len_concat_length bs ob Hob) in HL.
      assert (length ob = length blocks /\ length ot = length tail).
      { rewrite (Nat.mul_comm (length ob)), (Nat.mul_comm (length blocks)) in HL.
        apply Nat.div_mod_unique in HL; auto. }
      repeat split; try tauto; try discriminate.

  Qed.

  (* ======================= CBC-CS1, encryption ======================= *)
  Theorem cbc_cs1_enc_ok iv m blocks tail : length iv = bs -> msg_mem m blocks tail ->
    exists m', cbc_cs1_enc C iv m = Ok m' /\ m_out m' = cbc_cs1_spec bs E iv blocks tail.
  Proof.
    intros Hiv Hm. pose proof (mm_len m blocks tail Hm) as HL.
    destruct (out_decomp m blocks tail Hm) as (ob & ot & Ho & Hob & Hobn & Hotn & Hal).
    destruct Hm as [Hwf Hs Hb Hn Ht].
    set (nb := length blocks) in *. set (tl := length tail) in *.
    destruct (div_mod_blocks nb bs tl bs_pos Ht) as [Hdiv Hmod].
    unfold cbc_cs1_enc. fold bs. rewrite HL, Hdiv, Hmod.
    destruct (Nat.ltb_spec (nb * bs + tl) bs) as [Hlt|_]; [nia|].
    set (Cs := cbc_enc_spec E iv blocks).
    assert (HCl : length Cs = nb) by (subst Cs; now rewrite (cbc_enc_spec_length E)).
    assert (HCa : all_len bs Cs) by (subst Cs; apply (cbc_enc_spec_all_len bs E); auto).
    destruct (mrun_seg C bs_pos (cts_cbc_enc C) (fun bl => cbc_chain iv (cbc_enc_spec E iv bl)) (cbc_enc_spec E iv)
                iv m blocks tail ob ot nb) as (m1 & E1 & Ho1 & Ha1 & Hi1); auto.
    { intros cs. apply cts_cbc_enc_eq. }
    { intros Ha. destruct (Hal Ha) as [-> _]. reflexivity. }
    rewrite E1. cbn [obind]. fold Cs in Ho1 |- *.
    unfold cbc_cs1_spec, cbc_padded, final_len. fold tl.
    destruct (Nat.eqb_spec tl 0) as [Ht0|Ht0].
    - (* whole blocks: plain CBC *)
      exists m1. split; [reflexivity|]. rewrite Ho1.
      assert (ot = []) by (destruct ot; [reflexivity|simpl in Hotn; lia]). subst ot.
      rewrite !app_nil_r. fold Cs. now rewrite (cs1_layout_whole bs).
    - (* partial final block *)
      assert (Hsrc1 : msrc m1 = (if m_al m then concat Cs else concat blocks) ++ tail ++ []).
      { rewrite (msrc_after_put m m1 Ha1 Hi1). destruct (m_al m) eqn:Ea.
        - destruct (Hal eq_refl) as [_ ->]. rewrite Ho1, app_nil_r. reflexivity.
        - rewrite Hs, app_nil_r. reflexivity. }
      rewrite (mget_in_seg m1 _ tail [] (nb * bs) tl Hsrc1); auto.
      2:{ destruct (m_al m); rewrite (all_len_concat_length bs); auto; lia. }
      cbn [obind]. unfold usub. destruct (Nat.leb_spec bs (nb * bs + tl)) as [_|]; [|nia]. cbn [obind].
      assert (Hne : Cs <> []) by (intros HH; rewrite HH in HCl; simpl in HCl; lia).
      set (Cp := removelast Cs) in *. set (Cl := last Cs []) in *.
      assert (HCpl : length Cp = nb - 1) by (subst Cp; rewrite removelast_length; lia).
      assert (HCll : length Cl = bs) by (subst Cl; apply all_len_last; auto).
      assert (HCpa : all_len bs Cp) by (subst Cp; now apply all_len_removelast).
      assert (Ho1' : m_out m1 = (concat Cp ++ firstn tl Cl) ++ (skipn tl Cl ++ ot) ++ []).
      { rewrite Ho1, (last_removelast Cs [] Hne). fold Cp Cl. rewrite concat_app. cbn [concat].
        rewrite !app_nil_r, <- !app_assoc. f_equal. rewrite (app_assoc (firstn tl Cl)), firstn_skipn. reflexivity. }
      set (blk := E (xorb (tail ++ zeros (bs - tl)) (cbc_chain iv Cs))).
      destruct (mput_out_seg m1 _ _ [] (nb * bs + tl - bs) blk Ho1') as (m2 & E2 & Ho2 & _).
      { rewrite app_length, (all_len_concat_length bs Cp HCpa), firstn_length. unfold block in *. rewrite HCpl, HCll. nia. }
      { subst blk. rewrite E_len.
        - rewrite app_length, skipn_length, HCll. lia.
        - rewrite xorb_length, app_length, zeros_length. unfold cbc_chain. fold Cl.
          rewrite (last_indep Cs iv []) by auto. fold Cl. rewrite HCll. lia. }
      exists m2. split; [exact E2|]. rewrite Ho2, app_nil_r.
      (* the specification side *)
      rewrite (cbc_enc_app E). fold Cs. cbn [cbc_enc_spec]. unfold pad0. fold tl. fold blk.
      rewrite (last_removelast Cs [] Hne) at 1. fold Cp Cl.
      replace ((Cp ++ [Cl]) ++ [blk]) with (Cp ++ [Cl; blk]) by (now rewrite <- app_assoc).
      destruct (cs_layouts_split Cp Cl blk tl) as [-> _]. rewrite <- !app_assoc. reflexivity.
  Qed.

  (* ---------------------------------------------------------------------------------------------- *)
  (* shared prelude: run a helper over the nb whole blocks of the message                              *)
  Lemma enc_prelude {S} (f : S -> list cell -> S * list cell) (g : list (list N) -> S) (h : list (list N) -> list (list N))
        st m blocks tail :
    (forall cs, f st cs = (g (map rd_in cs), map2 wr_out cs (h (map rd_in cs)))) ->
    (forall bl, all_len bs bl -> length (h bl) = length bl /\ all_len bs (h bl)) ->
    msg_mem m blocks tail ->
    let nb := length blocks in let tl := length tail in
    exists m1 ot, mrun C f st m 0 nb = Ok (g blocks, m1) /\ m_out m1 = concat (h blocks) ++ ot /\ length ot = tl /\
                  mget_in m1 (nb * bs) tl = Ok tail /\
                  mlen m = nb * bs + tl /\ (nb * bs + tl) / bs = nb /\ (nb * bs + tl) mod bs = tl /\ (nb * bs + tl <? bs) = false.
  Proof.
    intros Hf Hh Hm nb tl. pose proof (mm_len m blocks tail Hm) as HL.
    destruct (out_decomp m blocks tail Hm) as (ob & ot & Ho & Hob & Hobn & Hotn & Hal).
    destruct Hm as [Hwf Hs Hb Hn Ht]. fold nb tl in HL, Hn, Ht, Hobn, Hotn.
    destruct (div_mod_blocks nb bs tl bs_pos Ht) as [Hdiv Hmod].
    destruct (Hh blocks Hb) as [Hhl Hha].
    destruct (mrun_seg C bs_pos f g h st m blocks tail ob ot nb) as (m1 & E1 & Ho1 & Ha1 & Hi1); auto.
    { intros Ha. destruct (Hal Ha) as [-> _]. reflexivity. }
    exists m1, ot. repeat split; auto.
    - assert (Hsrc1 : msrc m1 = (if m_al m then concat (h blocks) else concat blocks) ++ tail ++ []).
      { rewrite (msrc_after_put m m1 Ha1 Hi1). destruct (m_al m) eqn:Ea.
        - destruct (Hal eq_refl) as [_ ->]. rewrite Ho1, app_nil_r. reflexivity.
        - rewrite Hs, app_nil_r. reflexivity. }
      apply (mget_in_seg m1 _ tail [] (nb * bs) tl Hsrc1); auto.
      destruct (m_al m); rewrite (all_len_concat_length bs); auto; unfold block in *; lia.
    - apply Nat.ltb_ge. nia.
  Qed.

  Lemma cbc_h_ok iv : length iv = bs ->
    forall bl, all_len bs bl -> length (cbc_enc_spec E iv bl) = length bl /\ all_len bs (cbc_enc_spec E iv bl).
  Proof. intros Hiv bl Hb. split; [apply (cbc_enc_spec_length E) | apply (cbc_enc_spec_all_len bs E); auto]. Qed.

  Lemma ecb_h_ok (F : block -> block) : (forall x, length x = bs -> length (F x) = bs) ->
    forall bl, all_len bs bl -> length (map F bl) = length bl /\ all_len bs (map F bl).
  Proof. intros HF bl Hb. split; [apply map_length|]. induction Hb; simpl; constructor; auto. Qed.

  (* the stolen-tail step of CBC-CS2/CS3: result C_1..C_{n-2} || C_n || C*_{n-1} *)
  Lemma cbc_steal_ok iv1 m1 ot Cs tail : Cs <> [] -> all_len bs Cs -> length iv1 = bs ->
    m_out m1 = concat Cs ++ ot -> length ot = length tail -> 0 < length tail < bs ->
    mget_in m1 (length Cs * bs) (length tail) = Ok tail ->
    exists m2, cbc_steal_enc C iv1 m1 (length Cs) (length tail) = Ok m2 /\
               m_out m2 = concat (removelast Cs) ++ E (xorb (pad0 bs tail) iv1) ++ firstn (length tail) (last Cs []).
  Proof.
    intros Hne Ha Hiv Ho Hot Ht Hget. unfold cbc_steal_enc. fold bs E. rewrite Hget. cbn [obind].
    set (nb := length Cs) in *. set (tl := length tail) in *.
    assert (Hnb : 1 <= nb) by (destruct Cs; [congruence|simpl in *; subst nb; simpl; lia]).
    unfold usub. destruct (Nat.leb_spec 1 nb) as [_|]; [|lia]. cbn [obind].
    set (Cp := removelast Cs) in *. set (Cl := last Cs []) in *.
    assert (HCpl : length Cp = nb - 1) by (subst Cp; rewrite removelast_length; unfold block in *; lia).
    assert (HCll : length Cl = bs) by (subst Cl; apply all_len_last; auto).
    assert (HCpa : all_len bs Cp) by (subst Cp; now apply all_len_removelast).
    assert (Ho' : m_out m1 = concat Cp ++ Cl ++ ot).
    { rewrite Ho, (last_removelast Cs [] Hne). fold Cp Cl. rewrite concat_app. cbn [concat]. now rewrite app_nil_r, <- app_assoc. }
    assert (Hoff : (nb - 1) * bs = length (concat Cp)) by (rewrite (all_len_concat_length bs Cp HCpa); unfold block in *; lia).
    rewrite (mget_out_seg m1 (concat Cp) Cl ot ((nb - 1) * bs) bs Ho'); auto. cbn [obind].
    set (blk := E (xorb (tail ++ zeros (bs - tl)) iv1)).
    assert (Hblk : length blk = bs).
    { subst blk. apply E_len. rewrite xorb_length, app_length, zeros_length. fold tl. lia. }
    destruct (mput_out_seg m1 (concat Cp) Cl ot ((nb - 1) * bs) blk Ho') as (m2 & E2 & Ho2 & _ & _); auto; try lia.
    rewrite E2. cbn [obind].
    assert (Ho2' : m_out m2 = (concat Cp ++ blk) ++ ot ++ []) by (now rewrite Ho2, app_nil_r, <- app_assoc).
    destruct (mput_out_seg m2 (concat Cp ++ blk) ot [] (nb * bs) (firstn tl Cl) Ho2') as (m3 & E3 & Ho3 & _ & _).
    { rewrite app_length, <- Hoff, Hblk. nia. }
    { rewrite firstn_length, HCll. lia. }
    exists m3. split; [exact E3|]. rewrite Ho3, app_nil_r, <- app_assoc. reflexivity.
  Qed.

  (* ======================= CBC-CS2 / CBC-CS3, encryption ======================= *)
  Theorem cbc_cs2_enc_ok iv m blocks tail : length iv = bs -> msg_mem m blocks tail ->
    exists m', cbc_cs2_enc C iv m = Ok m' /\ m_out m' = cbc_cs2_spec bs E iv blocks tail.
  Proof.
    intros Hiv Hm.
    destruct (enc_prelude (cts_cbc_enc C) (fun bl => cbc_chain iv (cbc_enc_spec E iv bl)) (cbc_enc_spec E iv) iv m blocks tail)
      as (m1 & ot & E1 & Ho1 & Hot & Hget & HL & Hdiv & Hmod & Hlt); auto.
    { intros cs. apply cts_cbc_enc_eq. } { now apply cbc_h_ok. }
    destruct Hm as [Hwf Hs Hb Hn Ht].
    set (nb := length blocks) in *. set (tl := length tail) in *. set (Cs := cbc_enc_spec E iv blocks) in *.
    assert (HCl : length Cs = nb) by (subst Cs; now rewrite (cbc_enc_spec_length E)).
    assert (HCa : all_len bs Cs) by (subst Cs; apply (cbc_enc_spec_all_len bs E); auto).
    unfold cbc_cs2_enc. fold bs. rewrite HL, Hdiv, Hmod, Hlt, E1. cbn [obind].
    unfold cbc_cs2_spec, cbc_padded, final_len, cs2_layout. fold tl.
    destruct (Nat.eqb_spec tl 0) as [Ht0|Ht0].
    - exists m1. split; [reflexivity|]. rewrite Ho1.
      assert (ot = []) by (destruct ot; [reflexivity|simpl in Hot; lia]). subst ot.
      rewrite Nat.ltb_irrefl, !app_nil_r. fold Cs. now rewrite (cs1_layout_whole bs).
    - assert (Hne : Cs <> []) by (intros HH; rewrite HH in HCl; simpl in HCl; lia).
      destruct (cbc_steal_ok (cbc_chain iv Cs) m1 ot Cs tail) as (m2 & E2 & Ho2); auto.
      { unfold cbc_chain. rewrite (last_indep Cs iv []) by auto. apply all_len_last; auto. }
      { fold tl. lia. } { unfold block in *. rewrite HCl. exact Hget. }
      unfold block in *. rewrite HCl in E2. fold tl in E2. exists m2. split; [exact E2|]. rewrite Ho2.
      destruct (Nat.ltb_spec tl bs) as [_|]; [|lia].
      rewrite (cbc_enc_app E). fold Cs. cbn [cbc_enc_spec].
      destruct (cs_layouts_snoc Cs (E (xorb (pad0 bs tail) (cbc_chain iv Cs))) tl Hne) as [_ HH]. symmetry. etransitivity; [exact HH|]. reflexivity.
  Qed.


  (* exchanging the last two whole blocks *)
  Lemma swap_last_two_ok m (pre : list (list N)) a b ot : all_len bs pre -> length a = bs -> length b = bs ->
    m_out m = concat pre ++ a ++ b ++ ot ->
    exists m', swap_last_two C m (length pre + 2) = Ok m' /\ m_out m' = concat pre ++ b ++ a ++ ot.
  Proof.
    intros Hp Ha Hb Ho. unfold swap_last_two. fold bs.
    assert (Hoff : length (concat pre) = length pre * bs) by (apply all_len_concat_length; auto).
    replace (length pre + 2 - 2) with (length pre) by lia. replace (length pre + 2 - 1) with (length pre + 1) by lia.
    rewrite (mget_out_seg m (concat pre) a (b ++ ot) (length pre * bs) bs Ho) by lia. cbn [obind].
    assert (Ho' : m_out m = (concat pre ++ a) ++ b ++ ot) by (now rewrite Ho, <- app_assoc).
    rewrite (mget_out_seg m (concat pre ++ a) b ot ((length pre + 1) * bs) bs Ho') by (try rewrite app_length; nia). cbn [obind].
    destruct (mput_out_seg m (concat pre) a (b ++ ot) (length pre * bs) b Ho) as (m1 & E1 & Ho1 & _ & _); try lia.
    rewrite E1. cbn [obind].
    assert (Ho1' : m_out m1 = (concat pre ++ b) ++ b ++ ot) by (now rewrite Ho1, <- app_assoc).
    destruct (mput_out_seg m1 (concat pre ++ b) b ot ((length pre + 1) * bs) a Ho1') as (m2 & E2 & Ho2 & _ & _);
      try (rewrite app_length; nia); try lia.
    exists m2. split; [exact E2|]. now rewrite Ho2, <- app_assoc.
  Qed.

  Lemma cs3_layout_whole (pre : list block) a b : length a = bs ->
    cs3_layout (pre ++ [a; b]) bs = concat pre ++ b ++ a.
  Proof. intros Ha. destruct (cs_layouts_split pre a b bs) as [_ H]. rewrite firstn_all2 in H by lia. exact H. Qed.

  Theorem cbc_cs3_enc_ok iv m blocks tail : length iv = bs -> msg_mem m blocks tail ->
    exists m', cbc_cs3_enc C iv m = Ok m' /\ m_out m' = cbc_cs3_spec bs E iv blocks tail.
  Proof.
    intros Hiv Hm.
    destruct (enc_prelude (cts_cbc_enc C) (fun bl => cbc_chain iv (cbc_enc_spec E iv bl)) (cbc_enc_spec E iv) iv m blocks tail)
      as (m1 & ot & E1 & Ho1 & Hot & Hget & HL & Hdiv & Hmod & Hlt); auto.
    { intros cs. apply cts_cbc_enc_eq. } { now apply cbc_h_ok. }
    destruct Hm as [Hwf Hs Hb Hn Ht].
    set (nb := length blocks) in *. set (tl := length tail) in *. set (Cs := cbc_enc_spec E iv blocks) in *.
    assert (HCl : length Cs = nb) by (subst Cs; now rewrite (cbc_enc_spec_length E)).
    assert (HCa : all_len bs Cs) by (subst Cs; apply (cbc_enc_spec_all_len bs E); auto).
    unfold cbc_cs3_enc. fold bs. rewrite HL, Hdiv, Hmod, Hlt, E1. cbn [obind].
    unfold cbc_cs3_spec, cbc_padded, final_len. fold tl.
    destruct (Nat.eqb_spec tl 0) as [Ht0|Ht0].
    - assert (ot = []) by (destruct ot; [reflexivity|simpl in Hot; lia]). subst ot.
      rewrite app_nil_r in *. fold Cs.
      destruct (Nat.ltb_spec 1 nb) as [H2|H1].
      + destruct (split_last_two Cs) as (pre & a & b & HCs); [unfold block in *; lia|].
        rewrite HCs in HCa. apply Forall_app in HCa. destruct HCa as [Hpa Hab].
        inversion Hab as [|? ? Hla Hab']; subst. inversion Hab' as [|? ? Hlb _]; subst.
        assert (Hnb : nb = length pre + 2) by (unfold block in *; rewrite <- HCl, HCs, app_length; simpl; lia).
        destruct (swap_last_two_ok m1 pre a b []) as (m2 & E2 & Ho2); auto.
        { rewrite Ho1, HCs, concat_app. cbn [concat]. now rewrite !app_nil_r. }
        rewrite Hnb. exists m2. split; [exact E2|]. rewrite Ho2, HCs, app_nil_r. symmetry. now apply cs3_layout_whole.
      + exists m1. split; [reflexivity|]. rewrite Ho1. unfold cs3_layout.
        replace (length Cs <=? 1) with true by (symmetry; apply Nat.leb_le; unfold block in *; lia). reflexivity.
    - assert (Hne : Cs <> []) by (intros HH; rewrite HH in HCl; simpl in HCl; lia).
      destruct (cbc_steal_ok (cbc_chain iv Cs) m1 ot Cs tail) as (m2 & E2 & Ho2); auto.
      { unfold cbc_chain. rewrite (last_indep Cs iv []) by auto. apply all_len_last; auto. }
      { fold tl. lia. } { unfold block in *. rewrite HCl. exact Hget. }
      unfold block in *. rewrite HCl in E2. fold tl in E2. exists m2. split; [exact E2|]. rewrite Ho2.
      rewrite (cbc_enc_app E). fold Cs. cbn [cbc_enc_spec].
      destruct (cs_layouts_snoc Cs (E (xorb (pad0 bs tail) (cbc_chain iv Cs))) tl Hne) as [_ HH]. symmetry. etransitivity; [exact HH|]. reflexivity.
  Qed.


  (* ======================= ECB variants, encryption (and, with F = D, the stealing step of decryption) == *)
  Lemma ecb_steal_ok (F : block -> block) m1 ot Cs tail : (forall x, length x = bs -> length (F x) = bs) ->
    Cs <> [] -> all_len bs Cs -> m_out m1 = concat Cs ++ ot -> length ot = length tail -> 0 < length tail < bs ->
    mget_in m1 (length Cs * bs) (length tail) = Ok tail ->
    exists m2, ecb_steal C F m1 (length Cs) (length tail) = Ok m2 /\
               m_out m2 = concat (removelast Cs) ++ F (tail ++ skipn (length tail) (last Cs [])) ++ firstn (length tail) (last Cs []).
  Proof.
    intros HF Hne Ha Ho Hot Ht Hget. unfold ecb_steal. fold bs.
    set (nb := length Cs) in *. set (tl := length tail) in *.
    assert (Hnb : 1 <= nb) by (destruct Cs; [congruence|simpl in *; subst nb; simpl; lia]).
    unfold usub. destruct (Nat.leb_spec 1 nb) as [_|]; [|lia]. cbn [obind].
    set (Cp := removelast Cs) in *. set (Cl := last Cs []) in *.
    assert (HCpl : length Cp = nb - 1) by (subst Cp; rewrite removelast_length; unfold block in *; lia).
    assert (HCll : length Cl = bs) by (subst Cl; apply all_len_last; auto).
    assert (HCpa : all_len bs Cp) by (subst Cp; now apply all_len_removelast).
    assert (Ho' : m_out m1 = concat Cp ++ Cl ++ ot).
    { rewrite Ho, (last_removelast Cs [] Hne). fold Cp Cl. rewrite concat_app. cbn [concat]. now rewrite app_nil_r, <- app_assoc. }
    assert (Hoff : (nb - 1) * bs = length (concat Cp)) by (rewrite (all_len_concat_length bs Cp HCpa); unfold block in *; lia).
    rewrite (mget_out_seg m1 (concat Cp) Cl ot ((nb - 1) * bs) bs Ho'); auto. cbn [obind].
    rewrite Hget. cbn [obind]. unfold mix. fold tl.
    set (blk := F (tail ++ skipn tl Cl)).
    assert (Hblk : length blk = bs).
    { subst blk. apply HF. rewrite app_length, skipn_length, HCll. fold tl. lia. }
    assert (Ho1' : m_out m1 = (concat Cp ++ Cl) ++ ot ++ []) by (now rewrite Ho', app_nil_r, <- app_assoc).
    destruct (mput_out_seg m1 (concat Cp ++ Cl) ot [] (nb * bs) (firstn tl Cl) Ho1') as (m2 & E2 & Ho2 & _ & _).
    { rewrite app_length, <- Hoff, HCll. nia. }
    { rewrite firstn_length, HCll. lia. }
    rewrite E2. cbn [obind].
    assert (Ho2' : m_out m2 = concat Cp ++ Cl ++ firstn tl Cl) by (now rewrite Ho2, app_nil_r, <- app_assoc).
    destruct (mput_out_seg m2 (concat Cp) Cl (firstn tl Cl) ((nb - 1) * bs) blk Ho2') as (m3 & E3 & Ho3 & _ & _); auto; try lia.
    exists m3. split; [exact E3|]. exact Ho3.
  Qed.

  Lemma ecb_last_map (bl : list (list N)) : bl <> [] -> last (map E bl) [] = E (last bl []).
  Proof. induction bl as [|a l IH]; intros H; [congruence|]. destruct l; [reflexivity|]. cbn [map last] in *. apply IH. discriminate. Qed.

  Theorem ecb_cs2_enc_ok m blocks tail : msg_mem m blocks tail ->
    exists m', ecb_cs2_enc C m = Ok m' /\ m_out m' = ecb_cs2_spec bs E blocks tail.
  Proof.
    intros Hm.
    destruct (enc_prelude (cts_ecb_enc C) (fun _ => tt) (map E) tt m blocks tail)
      as (m1 & ot & E1 & Ho1 & Hot & Hget & HL & Hdiv & Hmod & Hlt); auto.
    { intros cs. apply cts_ecb_enc_eq. } { now apply ecb_h_ok. }
    destruct Hm as [Hwf Hs Hb Hn Ht].
    set (nb := length blocks) in *. set (tl := length tail) in *. set (Cs := map E blocks) in *.
    assert (HCl : length Cs = nb) by (subst Cs; apply map_length).
    assert (HCa : all_len bs Cs) by (subst Cs; apply ecb_h_ok; auto).
    unfold ecb_cs2_enc. fold bs. rewrite HL, Hdiv, Hmod, Hlt, E1. cbn [obind].
    unfold ecb_cs2_spec, ecb_padded, final_len, cs2_layout. fold tl Cs.
    destruct (Nat.eqb_spec tl 0) as [Ht0|Ht0].
    - exists m1. split; [reflexivity|]. rewrite Ho1.
      assert (ot = []) by (destruct ot; [reflexivity|simpl in Hot; lia]). subst ot.
      rewrite Nat.ltb_irrefl, !app_nil_r. now rewrite (cs1_layout_whole bs).
    - assert (Hne : Cs <> []) by (intros HH; rewrite HH in HCl; simpl in HCl; lia).
      destruct (ecb_steal_ok E m1 ot Cs tail) as (m2 & E2 & Ho2); auto.
      { fold tl. lia. } { unfold block in *. rewrite HCl. exact Hget. }
      unfold block in *. rewrite HCl in E2. fold tl in E2. exists m2. split; [exact E2|]. rewrite Ho2.
      destruct (Nat.ltb_spec tl bs) as [_|]; [|lia].
      destruct (cs_layouts_snoc Cs (E (tail ++ skipn tl (last Cs []))) tl Hne) as [_ HH]. symmetry. etransitivity; [exact HH|]. reflexivity.
  Qed.

  Theorem ecb_cs3_enc_ok m blocks tail : msg_mem m blocks tail ->
    exists m', ecb_cs3_enc C m = Ok m' /\ m_out m' = ecb_cs3_spec bs E blocks tail.
  Proof.
    intros Hm.
    destruct (enc_prelude (cts_ecb_enc C) (fun _ => tt) (map E) tt m blocks tail)
      as (m1 & ot & E1 & Ho1 & Hot & Hget & HL & Hdiv & Hmod & Hlt); auto.
    { intros cs. apply cts_ecb_enc_eq. } { now apply ecb_h_ok. }
    destruct Hm as [Hwf Hs Hb Hn Ht].
    set (nb := length blocks) in *. set (tl := length tail) in *. set (Cs := map E blocks) in *.
    assert (HCl : length Cs = nb) by (subst Cs; apply map_length).
    assert (HCa : all_len bs Cs) by (subst Cs; apply ecb_h_ok; auto).
    unfold ecb_cs3_enc. fold bs. rewrite HL, Hdiv, Hmod, Hlt, E1. cbn [obind].
    unfold ecb_cs3_spec, ecb_padded, final_len. fold tl Cs.
    destruct (Nat.eqb_spec tl 0) as [Ht0|Ht0].
    - assert (ot = []) by (destruct ot; [reflexivity|simpl in Hot; lia]). subst ot.
      rewrite app_nil_r in *.
      destruct (Nat.ltb_spec 1 nb) as [H2|H1].
      + destruct (split_last_two Cs) as (pre & a & b & HCs); [unfold block in *; lia|].
        rewrite HCs in HCa. apply Forall_app in HCa. destruct HCa as [Hpa Hab].
        inversion Hab as [|? ? Hla Hab']; subst. inversion Hab' as [|? ? Hlb _]; subst.
        assert (Hnb : nb = length pre + 2) by (unfold block in *; rewrite <- HCl, HCs, app_length; simpl; lia).
        destruct (swap_last_two_ok m1 pre a b []) as (m2 & E2 & Ho2); auto.
        { rewrite Ho1, HCs, concat_app. cbn [concat]. now rewrite !app_nil_r. }
        rewrite Hnb. exists m2. split; [exact E2|]. rewrite Ho2, HCs, app_nil_r. symmetry. now apply cs3_layout_whole.
      + exists m1. split; [reflexivity|]. rewrite Ho1. unfold cs3_layout.
        replace (length Cs <=? 1) with true by (symmetry; apply Nat.leb_le; unfold block in *; lia). reflexivity.
    - assert (Hne : Cs <> []) by (intros HH; rewrite HH in HCl; simpl in HCl; lia).
      destruct (ecb_steal_ok E m1 ot Cs tail) as (m2 & E2 & Ho2); auto.
      { fold tl. lia. } { unfold block in *. rewrite HCl. exact Hget. }
      unfold block in *. rewrite HCl in E2. fold tl in E2. exists m2. split; [exact E2|]. rewrite Ho2.
      destruct (cs_layouts_snoc Cs (E (tail ++ skipn tl (last Cs []))) tl Hne) as [_ HH]. symmetry. etransitivity; [exact HH|]. reflexivity.
  Qed.

  (* ECB-CS1: the final block overwrites the last bs bytes *)
  Theorem ecb_cs1_enc_ok m blocks tail : msg_mem m blocks tail ->
    exists m', ecb_cs1_enc C m = Ok m' /\ m_out m' = ecb_cs1_spec bs E blocks tail.
  Proof.
    intros Hm.
    destruct (enc_prelude (cts_ecb_enc C) (fun _ => tt) (map E) tt m blocks tail)
      as (m1 & ot & E1 & Ho1 & Hot & Hget & HL & Hdiv & Hmod & Hlt); auto.
    { intros cs. apply cts_ecb_enc_eq. } { now apply ecb_h_ok. }
    destruct Hm as [Hwf Hs Hb Hn Ht].
    set (nb := length blocks) in *. set (tl := length tail) in *. set (Cs := map E blocks) in *.
    assert (HCl : length Cs = nb) by (subst Cs; apply map_length).
    assert (HCa : all_len bs Cs) by (subst Cs; apply ecb_h_ok; auto).
    unfold ecb_cs1_enc. fold bs. rewrite HL, Hdiv, Hmod, Hlt, E1. cbn [obind].
    unfold ecb_cs1_spec, ecb_padded, final_len. fold tl Cs.
    destruct (Nat.eqb_spec tl 0) as [Ht0|Ht0].
    - exists m1. split; [reflexivity|]. rewrite Ho1.
      assert (ot = []) by (destruct ot; [reflexivity|simpl in Hot; lia]). subst ot.
      rewrite !app_nil_r. now rewrite (cs1_layout_whole bs).
    - assert (Hne : Cs <> []) by (intros HH; rewrite HH in HCl; simpl in HCl; lia).
      unfold usub. destruct (Nat.leb_spec 1 nb) as [_|]; [|lia]. cbn [obind].
      set (Cp := removelast Cs) in *. set (Cl := last Cs []) in *.
      assert (HCpl : length Cp = nb - 1) by (subst Cp; rewrite removelast_length; unfold block in *; lia).
      assert (HCll : length Cl = bs) by (subst Cl; apply all_len_last; auto).
      assert (HCpa : all_len bs Cp) by (subst Cp; now apply all_len_removelast).
      assert (Ho' : m_out m1 = concat Cp ++ Cl ++ ot).
      { rewrite Ho1, (last_removelast Cs [] Hne). fold Cp Cl. rewrite concat_app. cbn [concat]. now rewrite app_nil_r, <- app_assoc. }
      assert (Hoff : (nb - 1) * bs = length (concat Cp)) by (rewrite (all_len_concat_length bs Cp HCpa); unfold block in *; lia).
      rewrite (mget_out_seg m1 (concat Cp) Cl ot ((nb - 1) * bs) bs Ho'); auto. cbn [obind].
      rewrite Hget. cbn [obind]. unfold mix. fold tl.
      destruct (Nat.leb_spec bs (nb * bs + tl)) as [_|]; [|nia]. cbn [obind].
      set (blk := E (tail ++ skipn tl Cl)).
      assert (Hblk : length blk = bs).
      { subst blk. apply E_len. rewrite app_length, skipn_length, HCll. fold tl. lia. }
      assert (Ho1' : m_out m1 = (concat Cp ++ firstn tl Cl) ++ (skipn tl Cl ++ ot) ++ []).
      { rewrite Ho', !app_nil_r, <- !app_assoc. f_equal. rewrite (app_assoc (firstn tl Cl)), firstn_skipn. reflexivity. }
      destruct (mput_out_seg m1 _ _ [] (nb * bs + tl - bs) blk Ho1') as (m2 & E2 & Ho2 & _).
      { rewrite app_length, <- Hoff, firstn_length, HCll. nia. }
      { rewrite Hblk, app_length, skipn_length, HCll. lia. }
      exists m2. split; [exact E2|]. rewrite Ho2, app_nil_r.
      destruct (cs_layouts_snoc Cs blk tl Hne) as [HH _]. symmetry. etransitivity; [exact HH|]. fold Cp Cl. now rewrite <- app_assoc.
  Qed.

End Cs.
