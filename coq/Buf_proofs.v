(* Buf_proofs.v -- cfb-mode's buffered types (Plumbing.buf_apply: three-phase code of
   BufEncryptor::encrypt / BufDecryptor::decrypt) refine a byte-at-a-time reading, hence are
   independent of how the data is cut into calls (C08) and equal the CFB recurrence (C03, C14). *)
From BM Require Import Outcome Cipher Plumbing Spec BlockModes_proofs.
From Coq Require Import Lia.

Section Buf.
  Variable C : cipher.
  Let bs := c_bs C.
  Let E := c_E C.
  Hypothesis E_len : forall x, length x = bs -> length (E x) = bs.
  Hypothesis bs_pos : 0 < bs.

  (* one byte through the buffered object: the keystream byte is iv[pos]; the ciphertext byte takes
     its place; at the end of the block the register is encrypted *)
  Definition buf_byte (set1 : bool) (st : block * nat) (b : N) : (block * nat) * N :=
    let '(iv, pos) := st in
    let o := N.lxor b (nth pos iv 0%N) in
    let iv' := splice iv pos [if set1 then o else b] in
    if S pos =? bs then ((E iv', 0), o) else ((iv', S pos), o).

  Fixpoint buf_bytes (set1 : bool) (st : block * nat) (l : list N) : (block * nat) * list N :=
    match l with
    | [] => (st, [])
    | b :: l' => let '(st1, o) := buf_byte set1 st b in
                 let '(st2, os) := buf_bytes set1 st1 l' in (st2, o :: os)
    end.

  Lemma buf_bytes_app set1 st a b :
    buf_bytes set1 st (a ++ b) =
    let '(st1, o1) := buf_bytes set1 st a in let '(st2, o2) := buf_bytes set1 st1 b in (st2, o1 ++ o2).
  Proof.
    revert st; induction a as [|x a IH]; intros st; cbn [app buf_bytes].
    - destruct (buf_bytes set1 st b); reflexivity.
    - destruct (buf_byte set1 st x) as [st1 o]. rewrite IH.
      destruct (buf_bytes set1 st1 a) as [st2 o1]. destruct (buf_bytes set1 st2 b); reflexivity.
  Qed.

  Lemma xorb_cons x a y b : xorb (x :: a) (y :: b) = N.lxor x y :: xorb a b.
  Proof. reflexivity. Qed.

  Lemma xorb_firstn_len : forall a b, xorb a (firstn (length a) b) = xorb a b.
  Proof. induction a as [|x a IH]; intros [|y b]; simpl; auto. now rewrite IH. Qed.

  Definition ctsel (set1 : bool) (data ks : list N) : list N := if set1 then xorb data ks else data.

  Lemma splice_cons (iv : list N) pos x xs : pos + S (length xs) <= length iv ->
    splice (splice iv pos [x]) (S pos) xs = splice iv pos (x :: xs).
  Proof.
    intros H. unfold splice at 2. cbn [length].
    set (A := firstn pos iv). set (B := skipn (pos + 1) iv).
    assert (HA : length A = pos) by (subst A; rewrite firstn_length; lia).
    unfold splice. cbn [length].
    replace (A ++ [x] ++ B) with ((A ++ [x]) ++ B) by (now rewrite <- app_assoc).
    assert (HAx : length (A ++ [x]) = S pos) by (rewrite app_length; cbn [length]; lia).
    rewrite firstn_app_exact by auto.
    rewrite skipn_app, (skipn_all2 (A ++ [x])) by lia.
    rewrite HAx. cbn [app]. replace (S pos + length xs - S pos) with (length xs) by lia.
    subst B. rewrite skipn_skipn. fold A. rewrite <- app_assoc. cbn [app].
    replace (pos + 1 + length xs) with (pos + S (length xs)) by lia. reflexivity.
  Qed.

  Lemma nth_skipn_hd (iv : list N) pos : pos < length iv -> skipn pos iv = nth pos iv 0%N :: skipn (S pos) iv.
  Proof. revert pos; induction iv as [|a iv IH]; intros pos H; [simpl in H; lia|].
    destruct pos; [reflexivity|]. cbn [skipn nth]. apply IH. simpl in H. lia. Qed.

  (* a piece that stays strictly inside the current block *)
  Lemma bytes_inside set1 : forall data (iv : block) pos, length iv = bs -> pos + length data < bs ->
    buf_bytes set1 (iv, pos) data =
    ((splice iv pos (ctsel set1 data (skipn pos iv)), pos + length data), xorb data (skipn pos iv)).
  Proof.
    induction data as [|b data IH]; intros iv pos Hl Hp.
    - destruct set1; cbn [ctsel xorb buf_bytes length]; unfold splice; cbn [length app];
        rewrite !Nat.add_0_r, firstn_skipn; reflexivity.
    - cbn [buf_bytes buf_byte length] in *.
      destruct (Nat.eqb_spec (S pos) bs); [lia|].
      rewrite IH by (rewrite ?splice_length; cbn; lia).
      rewrite (nth_skipn_hd iv pos) by lia. cbn [xorb].
      assert (Hsk : skipn (S pos) (splice iv pos [if set1 then N.lxor b (nth pos iv 0%N) else b]) = skipn (S pos) iv).
      { unfold splice. cbn [length]. rewrite app_assoc. rewrite skipn_app_exact.
        - f_equal. lia.
        - rewrite app_length, firstn_length. cbn [length]. lia. }
      rewrite Hsk. f_equal. f_equal; [|lia].
      destruct set1; cbn [ctsel]; rewrite ?xorb_cons; (rewrite splice_cons; [reflexivity|]); rewrite ?xorb_length, ?skipn_length; cbn [length]; lia.
  Qed.

  Lemma skipn_splice1 (iv : list N) pos x : pos < length iv -> skipn (S pos) (splice iv pos [x]) = skipn (S pos) iv.
  Proof.
    intros H. unfold splice. cbn [length]. rewrite app_assoc. rewrite skipn_app_exact.
    - f_equal. lia.
    - rewrite app_length, firstn_length. cbn [length]. lia.
  Qed.

  (* a piece that ends exactly at the end of the current block *)
  Lemma bytes_to_end set1 : forall data (iv : block) pos, length iv = bs -> 0 < length data -> pos + length data = bs ->
    buf_bytes set1 (iv, pos) data =
    ((E (splice iv pos (ctsel set1 data (skipn pos iv))), 0), xorb data (skipn pos iv)).
  Proof.
    induction data as [|b data IH]; intros iv pos Hl Hn Hp; [simpl in Hn; lia|].
    cbn [buf_bytes buf_byte length] in *.
    rewrite (nth_skipn_hd iv pos) by lia. cbn [xorb].
    destruct data as [|b2 data].
    - cbn [length] in Hp. replace (S pos =? bs) with true by (symmetry; apply Nat.eqb_eq; lia).
      cbn [buf_bytes xorb]. destruct set1; reflexivity.
    - cbn [length] in Hp. destruct (Nat.eqb_spec (S pos) bs); [lia|].
      rewrite IH by (rewrite ?splice_length; cbn [length]; lia).
      rewrite skipn_splice1 by lia. f_equal. f_equal. f_equal.
      destruct set1; cbn [ctsel]; rewrite ?xorb_cons; (rewrite splice_cons; [reflexivity|]); rewrite ?xorb_length, ?skipn_length; cbn [length]; lia.
  Qed.

  Lemma splice_full (iv v : list N) : length v = length iv -> splice iv 0 v = v.
  Proof. intros H. unfold splice. cbn. rewrite skipn_all2 by lia. apply app_nil_r. Qed.

  (* whole blocks from a block boundary: the loop over chunks_exact_mut *)
  Lemma buf_chunks_cons set1 iv ch chs :
    buf_chunks C set1 iv (ch :: chs) =
    (fst (buf_chunks C set1 (E (ctsel set1 ch iv)) chs), xorb ch iv ++ snd (buf_chunks C set1 (E (ctsel set1 ch iv)) chs)).
  Proof. cbn [buf_chunks]. unfold ctsel, E. destruct (buf_chunks C set1 _ chs). reflexivity. Qed.

  Lemma bytes_chunks set1 : forall chs (iv : block), length iv = bs -> all_len bs chs ->
    buf_bytes set1 (iv, 0) (concat chs) = ((fst (buf_chunks C set1 iv chs), 0), snd (buf_chunks C set1 iv chs)).
  Proof.
    induction chs as [|ch chs IH]; intros iv Hl Hall; [reflexivity|].
    inversion Hall as [|? ? Hch Hall']; subst. cbn [concat]. rewrite buf_chunks_cons. cbn [fst snd].
    rewrite buf_bytes_app, bytes_to_end by lia. cbn [skipn].
    rewrite splice_full by (destruct set1; cbn [ctsel]; rewrite ?xorb_length; lia).
    assert (Hiv1 : length (E (ctsel set1 ch iv)) = bs).
    { apply E_len. destruct set1; cbn [ctsel]; rewrite ?xorb_length; lia. }
    rewrite IH by auto. reflexivity.
  Qed.

  Lemma buf_chunks_len set1 : forall chs iv, length iv = bs -> all_len bs chs -> length (fst (buf_chunks C set1 iv chs)) = bs.
  Proof.
    induction chs as [|ch chs IH]; intros iv Hl Hall; [exact Hl|].
    inversion Hall as [|? ? Hch Hall']; subst. rewrite buf_chunks_cons. cbn [fst]. apply IH; auto.
    apply E_len. destruct set1; cbn [ctsel]; rewrite ?xorb_length; lia.
  Qed.

  (* refinement: the three-phase code is the byte-at-a-time reading *)
  Theorem buf_apply_bytes set1 (iv : block) pos data : length iv = bs -> pos < bs ->
    buf_apply C set1 (iv, pos) data = Ok (buf_bytes set1 (iv, pos) data).
  Proof.
    intros Hl Hp. unfold buf_apply. fold bs E. unfold usub. destruct (Nat.leb_spec pos bs) as [_|]; [|lia].
    cbn [obind]. destruct (Nat.ltb_spec (length data) (bs - pos)) as [Hlt|Hge].
    - unfold slice. replace ((pos <=? pos + length data) && (pos + length data <=? length iv)) with true
        by (symmetry; apply andb_true_iff; split; apply Nat.leb_le; lia).
      cbn [obind]. replace (pos + length data - pos) with (length data) by lia.
      rewrite bytes_inside by lia. f_equal.
      pose proof (xorb_firstn_len data (skipn pos iv)) as Hx.
      destruct set1; cbn [ctsel]; rewrite ?Hx; reflexivity.
    - unfold slice_from. destruct (Nat.leb_spec pos (length iv)) as [_|]; [|lia]. cbn [obind].
      set (room := bs - pos) in *.
      transitivity (Ok (buf_bytes set1 (iv, pos) (firstn room data ++ skipn room data))); [|now rewrite firstn_skipn].
      rewrite buf_bytes_app.
      rewrite bytes_to_end by (rewrite ?firstn_length; lia).
      pose proof (chunks_inv bs (skipn room data) bs_pos) as Hc.
      destruct (chunks bs (skipn room data)) as [chs rem]. destruct Hc as (Er & Hall & Hrem).
      rewrite Er, buf_bytes_app.
      unfold ctsel. fold E.
      set (iv1 := E (splice iv pos (if set1 then xorb (firstn room data) (skipn pos iv) else firstn room data))).
      assert (Hiv1 : length iv1 = bs).
      { subst iv1. apply E_len. rewrite splice_length; auto.
        destruct set1; rewrite ?xorb_length, ?firstn_length, ?skipn_length; lia. }
      rewrite bytes_chunks by auto.
      pose proof (buf_chunks_len set1 chs iv1 Hiv1 Hall) as Hiv2.
      destruct (buf_chunks C set1 iv1 chs) as [iv2 o]. cbn [fst snd] in *.
      rewrite bytes_inside by lia. cbn [skipn]. unfold splice. cbn [firstn app Nat.add].
      assert (Hcl : length (ctsel set1 rem iv2) = length rem) by (destruct set1; cbn [ctsel]; rewrite ?xorb_length; lia).
      rewrite Hcl. unfold ctsel. reflexivity.
  Qed.

  (* ---- consequences ---- *)
  Lemma buf_byte_inv set1 (iv : block) pos b : length iv = bs -> pos < bs ->
    length (fst (fst (buf_byte set1 (iv, pos) b))) = bs /\ snd (fst (buf_byte set1 (iv, pos) b)) < bs.
  Proof.
    intros Hl Hp. cbn [buf_byte]. destruct (Nat.eqb_spec (S pos) bs); cbn [fst snd].
    - split; [|lia]. apply E_len. rewrite splice_length; cbn [length]; lia.
    - split; [|lia]. rewrite splice_length; cbn [length]; lia.
  Qed.

  Lemma buf_bytes_inv set1 : forall data (iv : block) pos, length iv = bs -> pos < bs ->
    length (fst (fst (buf_bytes set1 (iv, pos) data))) = bs /\ snd (fst (buf_bytes set1 (iv, pos) data)) < bs /\
    length (snd (buf_bytes set1 (iv, pos) data)) = length data.
  Proof.
    induction data as [|b data IH]; intros iv pos Hl Hp; [cbn; auto|].
    cbn [buf_bytes]. pose proof (buf_byte_inv set1 iv pos b Hl Hp) as H1.
    destruct (buf_byte set1 (iv, pos) b) as [[iv1 pos1] o1]. cbn [fst snd] in H1. destruct H1 as [Hl1 Hp1].
    specialize (IH iv1 pos1 Hl1 Hp1). destruct (buf_bytes set1 (iv1, pos1) data) as [[iv2 pos2] os].
    simpl in *. destruct IH as (A1 & A2 & A3). split; [exact A1|]. split; [exact A2|]. now rewrite A3.
  Qed.

  (* C08 for the buffered CFB types: two calls = one call on the concatenation *)
  Theorem buf_apply_app set1 (iv : block) pos a b : length iv = bs -> pos < bs ->
    buf_apply C set1 (iv, pos) (a ++ b) =
    (do r <- buf_apply C set1 (iv, pos) a;
     let '(st1, o1) := r in
     do r2 <- buf_apply C set1 st1 b;
     let '(st2, o2) := r2 in Ok (st2, o1 ++ o2)).
  Proof.
    intros Hl Hp. rewrite !buf_apply_bytes by auto. cbn [obind]. rewrite buf_bytes_app.
    pose proof (buf_bytes_inv set1 a iv pos Hl Hp) as Hi.
    destruct (buf_bytes set1 (iv, pos) a) as [[iv1 pos1] o1]. simpl in Hi. destruct Hi as (Hl1 & Hp1 & _).
    rewrite (buf_apply_bytes set1 iv1 pos1 b Hl1 Hp1). cbn [obind]. destruct (buf_bytes set1 (iv1, pos1) b). reflexivity.
  Qed.

  (* C03 / C14: from a fresh object (state E(IV), position 0) the output on whole blocks followed by a
     partial block is the CFB recurrence, the partial block xored with the leading keystream bytes *)
  Lemma buf_chunks_enc : forall chs s, buf_chunks C true s chs =
    (last (map E (cfb_enc_st E s chs)) s, concat (cfb_enc_st E s chs)).
  Proof. induction chs as [|ch chs IH]; intros s; [reflexivity|]. cbn [buf_chunks cfb_enc_st map concat].
    rewrite IH. now rewrite last_cons_default. Qed.

  Lemma buf_chunks_dec : forall chs s, buf_chunks C false s chs =
    (last (map E chs) s, concat (cfb_dec_st E s chs)).
  Proof. induction chs as [|ch chs IH]; intros s; [reflexivity|]. cbn [buf_chunks cfb_dec_st map concat].
    rewrite IH. now rewrite last_cons_default. Qed.

  Theorem buf_enc_spec iv blocks tail : length iv = bs -> all_len bs blocks -> length tail < bs ->
    exists st', buf_apply C true (buf_init C iv) (concat blocks ++ tail) =
      Ok (st', concat (cfb_enc_spec E iv blocks) ++ xorb tail (E (last (cfb_enc_spec E iv blocks) iv))).
  Proof.
    intros Hiv Hall Ht. unfold buf_init. fold E.
    rewrite buf_apply_bytes by (auto; apply E_len; auto).
    rewrite buf_bytes_app, bytes_chunks by (auto; apply E_len; auto).
    rewrite buf_chunks_enc. rewrite <- cfb_enc_spec_st.
    set (s' := last (map E (cfb_enc_spec E iv blocks)) (E iv)).
    assert (Hs' : s' = E (last (cfb_enc_spec E iv blocks) iv)).
    { subst s'. clear. generalize (cfb_enc_spec E iv blocks). intros l. revert iv.
      induction l as [|a l IH]; intros iv; [reflexivity|]. cbn [map]. rewrite !last_cons_default. apply IH. }
    assert (Hl' : length s' = bs).
    { rewrite Hs'. apply E_len. clear Hs' s'. revert iv Hiv. induction Hall as [|b bl Hb _ IH]; intros iv Hiv; [exact Hiv|].
      cbn [cfb_enc_spec]. rewrite last_cons_default. apply IH. rewrite xorb_length, Hb, E_len; auto. apply Nat.min_id. }
    rewrite bytes_inside by (first [exact Hl' | simpl; lia]). cbn [skipn]. eexists. rewrite Hs'. reflexivity.
  Qed.

  Theorem buf_dec_spec iv blocks tail : length iv = bs -> all_len bs blocks -> length tail < bs ->
    exists st', buf_apply C false (buf_init C iv) (concat blocks ++ tail) =
      Ok (st', concat (cfb_dec_spec E iv blocks) ++ xorb tail (E (last blocks iv))).
  Proof.
    intros Hiv Hall Ht. unfold buf_init. fold E.
    rewrite buf_apply_bytes by (auto; apply E_len; auto).
    rewrite buf_bytes_app, bytes_chunks by (auto; apply E_len; auto).
    rewrite buf_chunks_dec. rewrite <- cfb_dec_spec_st.
    set (s' := last (map E blocks) (E iv)).
    assert (Hs' : s' = E (last blocks iv)).
    { subst s'. clear. revert iv. induction blocks as [|a l IH]; intros iv; [reflexivity|]. cbn [map]. rewrite !last_cons_default. apply IH. }
    assert (Hl' : length s' = bs).
    { rewrite Hs'. apply E_len. clear Hs' s'. revert iv Hiv. induction Hall as [|b bl Hb _ IH]; intros iv Hiv; [exact Hiv|].
      rewrite last_cons_default. apply IH. exact Hb. }
    rewrite bytes_inside by (first [exact Hl' | simpl; lia]). cbn [skipn]. eexists. rewrite Hs'. reflexivity.
  Qed.
End Buf.
