(* Cts_proofs.v -- the private helpers of cts/src/lib.rs are batching-independent (C07) and equal
   the CBC / ECB recurrences; the twelve stealing bodies against SP 800-38A Addendum (C05). *)
From BM Require Import Cts Spec BlockModes BlockModes_proofs.

Section Helpers.
  Variable C : cipher.
  Let E := c_E C.
  Let D := c_D C.

  Lemma ecb_e_fold cs : fold_cells (ecb_e_block C) tt cs = (tt, map2 wr_out cs (map E (map rd_in cs))).
  Proof. induction cs as [|c cs IH]; [reflexivity|]. cbn [fold_cells map]. unfold ecb_e_block at 1. rewrite IH. reflexivity. Qed.
  Lemma ecb_d_fold cs : fold_cells (ecb_d_block C) tt cs = (tt, map2 wr_out cs (map D (map rd_in cs))).
  Proof. induction cs as [|c cs IH]; [reflexivity|]. cbn [fold_cells map]. unfold ecb_d_block at 1. rewrite IH. reflexivity. Qed.

  Theorem cts_ecb_enc_eq st cs : cts_ecb_enc C st cs = (tt, map2 wr_out cs (map E (map rd_in cs))).
  Proof. destruct st. unfold cts_ecb_enc. rewrite blocks_ctx_fold; [apply ecb_e_fold|].
    intros [] ch _. now rewrite ecb_e_fold. Qed.
  Theorem cts_ecb_dec_eq st cs : cts_ecb_dec C st cs = (tt, map2 wr_out cs (map D (map rd_in cs))).
  Proof. destruct st. unfold cts_ecb_dec. rewrite blocks_ctx_fold; [apply ecb_d_fold|].
    intros [] ch _. now rewrite ecb_d_fold. Qed.

  (* the cts copies of the CBC bodies are the cbc crate's bodies *)
  Lemma cts_cbc_enc_block_eq : cts_cbc_enc_block C = cbc_enc_block C.   Proof. reflexivity. Qed.
  Lemma cts_cbc_dec_block_eq : cts_cbc_dec_block C = cbc_dec_block C.   Proof. reflexivity. Qed.
  Lemma cts_cbc_dec_par_eq : cts_cbc_dec_par C = cbc_dec_par C.         Proof. reflexivity. Qed.

  Theorem cts_cbc_enc_eq iv cs :
    cts_cbc_enc C iv cs = (cbc_chain iv (cbc_enc_spec E iv (map rd_in cs)), map2 wr_out cs (cbc_enc_spec E iv (map rd_in cs))).
  Proof. unfold cts_cbc_enc. rewrite cts_cbc_enc_block_eq. apply cbc_enc_fold. Qed.

  Theorem cts_cbc_dec_eq iv cs :
    cts_cbc_dec C iv cs = (cbc_chain iv (map rd_in cs), map2 wr_out cs (cbc_dec_spec D iv (map rd_in cs))).
  Proof. unfold cts_cbc_dec. rewrite cts_cbc_dec_block_eq, cts_cbc_dec_par_eq.
    rewrite blocks_ctx_fold; [apply cbc_dec_fold|]. intros; apply cbc_dec_par_ok. Qed.
End Helpers.
