(* Leak.v -- what the model can say about C17: which part of an object its Debug impl shows, and
   which fields its Drop impl (feature `zeroize`) overwrites.  These definitions transcribe the
   Debug / Drop impls of /repo and of cipher::StreamCipherCoreWrapper; the statements about them are
   true by construction and are kept honest only by the measurements of gen/props/c17.py. *)
From BM Require Import BlockModes Plumbing Toy Ctr Belt Stream Cts Interp.

(* bytes of the object that appear in its Debug text (type names aside) *)
Definition debug_bytes (o : obj) : list N :=
  match o with
  | OBlock _ _ _ => []                  (* "<crate>::<Type><Cipher> { ... }" *)
  | OBuf _ _ _ _ => []
  | OCore _ _ _ => []                   (* "Ctr32BE<..> { ... }", "OfbCore<..> { ... }", "BeltCtr<..> { ... }" *)
  | OCts _ _ _ => []                    (* no Debug impl *)
  | OWrap _ _ wst => debug_payload wst  (* StreamCipherCoreWrapper { core: .., buffer_data: buffer[pos..] } *)
  end.

(* the object after Drop::drop with the zeroize feature: chaining fields overwritten with zeros *)
Definition zero_like (b : block) : block := zeros (length b).
Definition dropped (o : obj) : obj :=
  match o with
  | OBlock k key (a, b) => OBlock k key (zero_like a, zero_like b)
  | OBuf e key iv pos => OBuf e key (zero_like iv) pos
  | OCore k key (CCtr cn) => OCore k key (CCtr (mkcn 0 (map (fun _ => 0%N) (cn_nonce cn))))
  | OCore k key (COfb iv) => OCore k key (COfb (zero_like iv))
  | OCore k key (CBelt st) => OCore k key (CBelt (mkbelt 0 0))
  | OWrap k key wst =>
      let core' := match wr_core wst with
                   | CCtr cn => CCtr (mkcn 0 (map (fun _ => 0%N) (cn_nonce cn)))
                   | COfb iv => COfb (zero_like iv)
                   | CBelt st => CBelt (mkbelt 0 0)
                   end in
      OWrap k key (mkwrap core' (zero_like (wr_buf wst)) (wr_pos wst))
  | OCts v key iv => OCts v key iv      (* cts has no zeroize feature; its objects are consumed by value *)
  end.

(* the chaining material an object holds *)
Definition chaining_bytes (o : obj) : list N :=
  match o with
  | OBlock _ _ (a, b) => a ++ b
  | OBuf _ _ iv _ => iv
  | OCore _ _ (CCtr cn) => cn_ctr cn :: cn_nonce cn
  | OCore _ _ (COfb iv) => iv
  | OCore _ _ (CBelt st) => [b_s st; b_s_init st]
  | OWrap _ _ wst =>
      (match wr_core wst with CCtr cn => cn_ctr cn :: cn_nonce cn | COfb iv => iv | CBelt st => [b_s st; b_s_init st] end)
      ++ wr_buf wst
  | OCts _ _ iv => []
  end.

Lemma zeros_all_zero n : Forall (fun x => x = 0%N) (zeros n).
Proof. apply Forall_forall. intros x H. now apply repeat_spec in H. Qed.

Lemma map_const_zero {A} (l : list A) : Forall (fun x => x = 0%N) (map (fun _ => 0%N) l).
Proof. induction l; simpl; constructor; auto. Qed.

Theorem dropped_is_zero o : Forall (fun x => x = 0%N) (chaining_bytes (dropped o)).
Proof.
  destruct o as [k key [a b]|e key iv pos|k key [cn|iv|st]|k key [[cn|iv|st] buf pos]|v key iv];
    cbn [dropped chaining_bytes wr_core wr_buf wr_pos cn_ctr cn_nonce b_s b_s_init zero_like];
    repeat match goal with
           | |- Forall _ (_ ++ _) => apply Forall_app; split
           | |- Forall _ (zeros _) => apply zeros_all_zero
           | |- Forall _ (map _ _) => apply map_const_zero
           | |- Forall _ (_ :: _) => constructor; [reflexivity|]
           | |- Forall _ [] => constructor
           end.
  all: apply zeros_all_zero.
Qed.

Theorem opaque_debug o : (forall k key wst, o <> OWrap k key wst) -> debug_bytes o = [].
Proof. intros H. destruct o; try reflexivity. exfalso. eapply H. reflexivity. Qed.

(* a freshly built byte-level cipher shows nothing either *)
Theorem fresh_wrapper_debug {St} (K : score St) c : debug_payload (from_core K c) = [].
Proof. unfold debug_payload, from_core. cbn [wr_pos wr_buf]. apply skipn_all2. now rewrite zeros_length. Qed.

(* F3: a wrapper that stopped inside a block shows the rest of that keystream block *)
Definition f3_cipher : cipher := toy 8 1 DInv [1;2;3;4;5;6;7;8]%N.
Definition f3_witness : outcome (wrapper cstate * list N) :=
  try_apply (kscore f3_cipher (SCtr 4 true))
            (from_core (kscore f3_cipher (SCtr 4 true)) (core_init f3_cipher (SCtr 4 true) [0;0;0;0;0;0;0;0]%N))
            true [0;0;0]%N [0;0;0]%N.

Theorem wrapper_debug_leaks :
  exists wst out, f3_witness = Ok (wst, out) /\ debug_payload wst <> [] /\
                  out ++ debug_payload wst = c_E f3_cipher [0;0;0;0;0;0;0;0]%N.
Proof. vm_compute. eexists. eexists. split; [reflexivity|]. split; [discriminate|reflexivity]. Qed.
