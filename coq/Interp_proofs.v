(* Interp_proofs.v -- statements about the very dispatch functions the extracted interpreter runs
   (Interp.bm_single / bm_par / bm_w / kscore), so that the theorems and the correspondence check
   talk about the same executable text. *)
From BM Require Import BlockModes Spec BlockModes_proofs Plumbing Toy Ctr Belt Stream Cts Stream_proofs Interp.

Lemma fold_lift1 (f : block -> cell -> block * cell) s x cs :
  fold_cells (lift1 f) (s, x) cs = let '(s', cs') := fold_cells f s cs in ((s', x), cs').
Proof.
  revert s; induction cs as [|c cs IH]; intros s; [reflexivity|].
  cbn [fold_cells]. unfold lift1 at 1. cbn [fst snd]. destruct (f s c) as [s1 c1]. rewrite IH.
  destruct (fold_cells f s1 cs); reflexivity.
Qed.

Lemma lift1p_fold (f : block -> cell -> block * cell) st cs :
  lift1p (fold_cells f) st cs = fold_cells (lift1 f) st cs.
Proof. destruct st as [s x]. rewrite fold_lift1. unfold lift1p. cbn [fst snd]. destruct (fold_cells f s cs); reflexivity. Qed.

Section BM.
  Variable C : cipher.

  (* every parallel body (hand-written or default) is the single-block loop *)
  Lemma bm_par_ok k st ch : bm_par C k st ch = fold_cells (bm_single C k) st ch.
  Proof.
    destruct k; cbn [bm_par bm_single];
      try (apply lift1p_fold); try reflexivity.
    - (* cbc dec *) destruct st as [s x]. rewrite fold_lift1. unfold lift1p. cbn [fst snd].
      rewrite cbc_dec_par_ok. destruct (fold_cells (cbc_dec_block C) s ch); reflexivity.
    - (* cfb dec *) destruct st as [s x]. rewrite fold_lift1. unfold lift1p. cbn [fst snd].
      rewrite cfb_dec_par_ok. destruct (fold_cells (cfb_dec_block C) s ch); reflexivity.
  Qed.

  Theorem bm_blocks_fold k st cs : bm_blocks C k st cs = fold_cells (bm_single C k) st cs.
  Proof. unfold bm_blocks. apply blocks_ctx_fold. intros; apply bm_par_ok. Qed.

  Theorem bm_sched_fold k sched st cs : sched_total sched = length cs ->
    run_sched (bm_single C k) (bm_w C k) (bm_par C k) st sched cs = fold_cells (bm_single C k) st cs.
  Proof. intros H. apply run_sched_fold; auto. intros; apply bm_par_ok. Qed.

  (* C12, block level: the result depends on the cells only through their logical input *)
  Lemma bm_single_input k st c1 c2 : rd_in c1 = rd_in c2 ->
    fst (bm_single C k st c1) = fst (bm_single C k st c2) /\
    cout (snd (bm_single C k st c1)) = cout (snd (bm_single C k st c2)).
  Proof.
    intros H. destruct k; destruct st as [s x]; cbn [bm_single]; unfold lift1;
      cbn [fst snd cbc_enc_block cbc_dec_block pcbc_enc_block pcbc_dec_block ige_enc_block ige_dec_block
           cfb_enc_block cfb_dec_block cfb8_enc_block cfb8_dec_block ofb_enc_block ofb_dec_block
           xor_in2out rd_out wr_out cout]; rewrite ?H; split; reflexivity.
  Qed.

  Theorem bm_fold_input k : forall st cs1 cs2, map rd_in cs1 = map rd_in cs2 ->
    fst (fold_cells (bm_single C k) st cs1) = fst (fold_cells (bm_single C k) st cs2) /\
    map cout (snd (fold_cells (bm_single C k) st cs1)) = map cout (snd (fold_cells (bm_single C k) st cs2)).
  Proof.
    intros st cs1; revert st; induction cs1 as [|c1 cs1 IH]; intros st [|c2 cs2] H; try discriminate; [split; reflexivity|].
    cbn [map] in H. injection H as H1 H2. cbn [fold_cells].
    destruct (bm_single_input k st c1 c2 H1) as [Hs Ho].
    destruct (bm_single C k st c1) as [s1 o1]. destruct (bm_single C k st c2) as [s2 o2]. cbn [fst snd] in *. subst s2.
    specialize (IH s1 cs2 H2).
    destruct (fold_cells (bm_single C k) s1 cs1) as [t1 r1]. destruct (fold_cells (bm_single C k) s1 cs2) as [t2 r2].
    cbn [fst snd map] in *. destruct IH as [-> ->]. rewrite Ho. split; reflexivity.
  Qed.
End BM.

(* ---- keystream cores as dispatched by the interpreter ---- *)
From BM Require Import Ctr_proofs Belt_proofs Ints Ints_proofs.

Section Cores.
  Variable C : cipher.

  Lemma kscore_ctr_gen_n cs be n cn :
    gen_n (kscore C (SCtr cs be)) n (CCtr cn) =
    let '(cn', bl) := ctr_gen_n (mkflavor cs be) C n cn in (CCtr cn', bl).
  Proof.
    revert cn; induction n as [|n IH]; intros cn; [reflexivity|].
    cbn [gen_n ctr_gen_n]. cbn [kscore sc_gen]. destruct (ctr_gen (mkflavor cs be) C cn) as [cn1 b].
    rewrite IH. destruct (ctr_gen_n (mkflavor cs be) C n cn1); reflexivity.
  Qed.

  Lemma kscore_belt_gen_n n st :
    gen_n (kscore C SBelt) n (CBelt st) = let '(st', bl) := belt_gen_n C n st in (CBelt st', bl).
  Proof.
    revert st; induction n as [|n IH]; intros st; [reflexivity|].
    cbn [gen_n belt_gen_n]. cbn [kscore sc_gen]. destruct (belt_gen C st) as [st1 b].
    rewrite IH. destruct (belt_gen_n C n st1); reflexivity.
  Qed.

  Lemma kscore_ofb_gen_n n iv :
    gen_n (kscore C SOfb) n (COfb iv) = (COfb (iter_E (c_E C) n iv), ofb_ks (c_E C) iv n).
  Proof.
    revert iv; induction n as [|n IH]; intros iv; [reflexivity|].
    cbn [gen_n ofb_ks]. cbn [kscore sc_gen]. unfold ofb_gen. rewrite IH. cbn [iter_E]. now rewrite iter_E_shift.
  Qed.

  (* the parallel generation of every core is w single generations (on the state shape it owns) *)
  Lemma kscore_par_ctr cs be cn :
    sc_gen_par (kscore C (SCtr cs be)) (CCtr cn) = gen_n (kscore C (SCtr cs be)) (sc_w (kscore C (SCtr cs be))) (CCtr cn).
  Proof. rewrite kscore_ctr_gen_n. cbn [kscore sc_gen_par sc_w]. now rewrite ctr_gen_par_ok. Qed.

  Lemma kscore_par_belt st :
    sc_gen_par (kscore C SBelt) (CBelt st) = gen_n (kscore C SBelt) (sc_w (kscore C SBelt)) (CBelt st).
  Proof. rewrite kscore_belt_gen_n. cbn [kscore sc_gen_par sc_w]. now rewrite belt_gen_par_ok. Qed.

  Definition is_ctr (s : cstate) := match s with CCtr _ => True | _ => False end.
  Definition is_belt (s : cstate) := match s with CBelt _ => True | _ => False end.
  Definition is_ofb (s : cstate) := match s with COfb _ => True | _ => False end.

  Theorem kscore_ks_blocks :
    (forall cs be n cn, ks_blocks (kscore C (SCtr cs be)) n (CCtr cn) = gen_n (kscore C (SCtr cs be)) n (CCtr cn)) /\
    (forall n st, ks_blocks (kscore C SBelt) n (CBelt st) = gen_n (kscore C SBelt) n (CBelt st)) /\
    (forall n iv, ks_blocks (kscore C SOfb) n (COfb iv) = gen_n (kscore C SOfb) n (COfb iv)).
  Proof.
    split; [|split]; intros.
    - apply ks_blocks_gen_n with (P := is_ctr); [| |exact I].
      + intros [cn0| |] H; try contradiction. cbn [kscore sc_gen]. destruct (ctr_gen _ C cn0); exact I.
      + intros _ [cn0| |] H; try contradiction. apply kscore_par_ctr.
    - apply ks_blocks_gen_n with (P := is_belt); [| |exact I].
      + intros [|?|st0] H; try contradiction. cbn [kscore sc_gen]. destruct (belt_gen C st0); exact I.
      + intros _ [|?|st0] H; try contradiction. apply kscore_par_belt.
    - (* OfbCore's backend declares ParBlocksSize = 1: only the single-block loop exists *)
      reflexivity.
  Qed.
End Cores.
