(* Tie_ige.v -- the translated bodies of ige/src compute what the model (BlockModes.v) computes.
   Re-checked on every run against the freshly generated Src_ige.v. *)
From BM Require Import Tie.TieLib.
From BMGen Require Import Src_ige.
Local Open Scope string_scope.
Local Open Scope list_scope.

Lemma tie_ige_xor C a b :
  call_fn (bctx C [] []) ige__lib__xor [VBlk a; VBlk b] = xor_sem [VBlk a; VBlk b].
Proof.
  unfold call_fn, call_src. ev.
  match goal with |- context [for_each (seq ?a0 ?n) ?body ?e0] =>
    destruct (for_each_seq_inv
      (fun k e => e = [("buf", VRef (PVar "$a1")); ("$a1", VBlk b); ("out", VRef (PVar "$a0"));
                       ("$a0", VBlk (xor_upto k a b))])
      body a0 n e0) as (e' & He & HP)
  end.
  - reflexivity.
  - intros i e Hi ->. unfold LOOP_DEPTH. cbn [loopN]. ev_checks.
    do 2 eexists; split; [reflexivity|]. rewrite xor_upto_step by lia. reflexivity.
  - rewrite He, HP. evf. rewrite Nat.add_0_l, xor_upto_end. reflexivity.
Qed.


Section Ige.
  Variable C : cipher.
  Let X := bctx C [("xor", FSem xor_sem)] [("C::BlockSize::USIZE", VNat (c_bs C))].
  Definition be_self (x y : block) (enc : bool) : val :=
    VStruct "Backend" [("x", VBlk x); ("y", VBlk y); ("cipher_backend", VCipher enc (negb enc))].

  Lemma tie_ige_encrypt_block x y c :
    length y = length (rd_in c) -> length x = length (rd_in c) -> length (c_E C (xorb (rd_in c) y)) = length (rd_in c) ->
    call_fn X ige__encrypt__BlockModeEncBackend__Backend__encrypt_block [be_self x y true; VCell c]
    = let '((x', y'), c') := ige_enc_block C (x, y) c in Some (VUnit, [be_self x' y' true; VCell c']).
  Proof. intros H1 H2 H3. run_fn.
    rewrite !xor_into_eq by (rewrite ?xor_into_eq by lia; lia). reflexivity. Qed.

  Lemma tie_ige_decrypt_block x y c :
    length y = length (rd_in c) -> length x = length (rd_in c) -> length (c_D C (xorb (rd_in c) x)) = length (rd_in c) ->
    call_fn X ige__decrypt__BlockModeDecBackend__Backend__decrypt_block [be_self x y false; VCell c]
    = let '((x', y'), c') := ige_dec_block C (x, y) c in Some (VUnit, [be_self x' y' false; VCell c']).
  Proof. intros H1 H2 H3. run_fn.
    rewrite !xor_into_eq by (rewrite ?xor_into_eq by lia; lia). reflexivity. Qed.

  (* the IV is y || x *)
  Lemma tie_ige_enc_init iv : c_bs C <= length iv ->
    call_fn X ige__encrypt__InnerIvInit__Encryptor__inner_iv_init [VCipher true false; VBlk iv]
    = let '(x, y) := ige_init C iv in
      Some (VStruct "Self" [("cipher", VCipher true false); ("x", VBlk x); ("y", VBlk y)], [VCipher true false; VBlk iv]).
  Proof. intros H. run_fn. rewrite (firstn_all2 (n := length iv - c_bs C)) by (rewrite skipn_length; lia). rewrite Nat.sub_0_r. reflexivity. Qed.
  Lemma tie_ige_dec_init iv : c_bs C <= length iv ->
    call_fn X ige__decrypt__InnerIvInit__Decryptor__inner_iv_init [VCipher false true; VBlk iv]
    = let '(x, y) := ige_init C iv in
      Some (VStruct "Self" [("cipher", VCipher false true); ("x", VBlk x); ("y", VBlk y)], [VCipher false true; VBlk iv]).
  Proof. intros H. run_fn. rewrite (firstn_all2 (n := length iv - c_bs C)) by (rewrite skipn_length; lia). rewrite Nat.sub_0_r. reflexivity. Qed.

  Lemma tie_ige_enc_iv_state x y :
    let self := VStruct "Encryptor" [("cipher", VCipher true false); ("x", VBlk x); ("y", VBlk y)] in
    call_fn X ige__encrypt__IvState__Encryptor__iv_state [self] = Some (VBlk (ige_iv_state (x, y)), [self]).
  Proof. unfold call_fn, call_src. evf. reflexivity. Qed.
  Lemma tie_ige_dec_iv_state x y :
    let self := VStruct "Decryptor" [("cipher", VCipher false true); ("x", VBlk x); ("y", VBlk y)] in
    call_fn X ige__decrypt__IvState__Decryptor__iv_state [self] = Some (VBlk (ige_iv_state (x, y)), [self]).
  Proof. unfold call_fn, call_src. evf. reflexivity. Qed.
End Ige.
