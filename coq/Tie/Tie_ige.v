(* Tie_ige.v -- the translated bodies of ige/src compute what the model (BlockModes.v) computes.
   Re-checked on every run against the freshly generated Src_ige.v. *)
From BM Require Import Tie.TieLib.
From BMGen Require Import Src_ige.
Local Open Scope string_scope.
Local Open Scope list_scope.

Lemma tie_ige_xor C a b :
  call_fn (bctx C [] []) ige__lib__xor [VBlk a; VBlk b] = xor_sem [VBlk a; VBlk b].
Proof.
  unfold call_fn, call_src. ev.
  match goal with |- context [for_each (seq ?a0 ?n) ?body ?e0] =>
    destruct (for_each_seq_inv
      (fun k e => e = [("buf", VRef (PVar "$a1")); ("$a1", VBlk b); ("out", VRef (PVar "$a0"));
                       ("$a0", VBlk (xor_upto k a b))])
      body a0 n e0) as (e' & He & HP)
  end.
  - reflexivity.
  - intros i e Hi ->. unfold LOOP_DEPTH. cbn [loopN]. ev_checks.
    do 2 eexists; split; [reflexivity|]. rewrite xor_upto_step by lia. reflexivity.
  - rewrite He, HP. evf. rewrite Nat.add_0_l, xor_upto_end. reflexivity.
Qed.


Section Ige.
  Variable C : cipher.
  Let X := bctx C [("xor", FSem xor_sem)] [("C::BlockSize::USIZE", VNat (c_bs C))].
  Definition be_self (x y : block) (enc : bool) : val :=
    VStruct "Backend" [("x", VBlk x); ("y", VBlk y); ("cipher_backend", VCipher enc (negb enc))].

  Lemma tie_ige_encrypt_block x y c :
    length y = length (rd_in c) -> length x = length (rd_in c) -> length (c_E C (xorb (rd_in c) y)) = length (rd_in c) ->
    call_fn X ige__encrypt__BlockModeEncBackend__Backend__encrypt_block [be_self x y true; VCell c]
    = let '((x', y'), c') := ige_enc_block C (x, y) c in Some (VUnit, [be_self x' y' true; VCell c']).
  Proof. intros H1 H2 H3. run_fn.
    rewrite !xor_into_eq by (rewrite ?xor_into_eq by lia; lia). reflexivity. Qed.

  Lemma tie_ige_decrypt_block x y c :
    length y = length (rd_in c) -> length x = length (rd_in c) -> length (c_D C (xorb (rd_in c) x)) = length (rd_in c) ->
    call_fn X ige__decrypt__BlockModeDecBackend__Backend__decrypt_block [be_self x y false; VCell c]
    = let '((x', y'), c') := ige_dec_block C (x, y) c in Some (VUnit, [be_self x' y' false; VCell c']).
  Proof. intros H1 H2 H3. run_fn.
    rewrite !xor_into_eq by (rewrite ?xor_into_eq by lia; lia). reflexivity. Qed.

  (* the IV is y || x *)
  Lemma tie_ige_enc_init iv : c_bs C <= length iv ->
    call_fn X ige__encrypt__InnerIvInit__Encryptor__inner_iv_init [VCipher true false; VBlk iv]
    = let '(x, y) := ige_init C iv in
      Some (VStruct "Self" [("cipher", VCipher true false); ("x", VBlk x); ("y", VBlk y)], [VCipher true false; VBlk iv]).
  Proof. intros H. run_fn. rewrite (firstn_all2 (n := length iv - c_bs C)) by (rewrite skipn_length; lia). rewrite Nat.sub_0_r. reflexivity. Qed.
  Lemma tie_ige_dec_init iv : c_bs C <= length iv ->
    call_fn X ige__decrypt__InnerIvInit__Decryptor__inner_iv_init [VCipher false true; VBlk iv]
    = let '(x, y) := ige_init C iv in
      Some (VStruct "Self" [("cipher", VCipher false true); ("x", VBlk x); ("y", VBlk y)], [VCipher false true; VBlk iv]).
  Proof. intros H. run_fn. rewrite (firstn_all2 (n := length iv - c_bs C)) by (rewrite skipn_length; lia). rewrite Nat.sub_0_r. reflexivity. Qed.

  Lemma tie_ige_enc_iv_state x y :
    let self := VStruct "Encryptor" [("cipher", VCipher true false); ("x", VBlk x); ("y", VBlk y)] in
    call_fn X ige__encrypt__IvState__Encryptor__iv_state [self] = Some (VBlk (ige_iv_state (x, y)), [self]).
  Proof. unfold call_fn, call_src. evf. reflexivity. Qed.
  Lemma tie_ige_dec_iv_state x y :
    let self := VStruct "Decryptor" [("cipher", VCipher false true); ("x", VBlk x); ("y", VBlk y)] in
    call_fn X ige__decrypt__IvState__Decryptor__iv_state [self] = Some (VBlk (ige_iv_state (x, y)), [self]).
  Proof. unfold call_fn, call_src. evf. reflexivity. Qed.
End Ige.

(* ---- C02 over the translated source: the whole block sequence ---------------------------------------- *)
From BM Require Import BlockModes_proofs Spec.
Section IgeSource.
  Variable C : cipher.
  Variable n : nat.
  Hypothesis E_len : forall x, length x = n -> length (c_E C x) = n.
  Hypothesis D_len : forall x, length x = n -> length (c_D C x) = n.
  Let X := bctx C [("xor", FSem xor_sem)] [("C::BlockSize::USIZE", VNat (c_bs C))].
  Definition src_ige_enc_step (st : block * block) (c : cell) : option ((block * block) * cell) :=
    match call_fn X ige__encrypt__BlockModeEncBackend__Backend__encrypt_block [be_self (fst st) (snd st) true; VCell c] with
    | Some (VUnit, [VStruct _ [("x", VBlk x'); ("y", VBlk y'); _]; VCell c']) => Some ((x', y'), c') | _ => None end.
  Definition src_ige_dec_step (st : block * block) (c : cell) : option ((block * block) * cell) :=
    match call_fn X ige__decrypt__BlockModeDecBackend__Backend__decrypt_block [be_self (fst st) (snd st) false; VCell c] with
    | Some (VUnit, [VStruct _ [("x", VBlk x'); ("y", VBlk y'); _]; VCell c']) => Some ((x', y'), c') | _ => None end.

  Theorem C02_ige_enc_source x y cs : length x = n -> length y = n -> Forall (fun c => length (rd_in c) = n) cs ->
    fold_src src_ige_enc_step (x, y) cs
    = Some ((last (map rd_in cs) x, last (ige_enc_spec (c_E C) y x (map rd_in cs)) y), map2 wr_out cs (ige_enc_spec (c_E C) y x (map rd_in cs))).
  Proof.
    intros Hx Hy Hcs.
    rewrite (fold_src_ok src_ige_enc_step (ige_enc_block C) (fun st => length (fst st) = n /\ length (snd st) = n) (fun c => length (rd_in c) = n)); auto.
    - now rewrite ige_enc_fold.
    - intros [sx sy] c [Hsx Hsy] Hc. cbn [fst snd] in *. unfold src_ige_enc_step, X. cbn [fst snd].
      assert (HEl : length (c_E C (xorb (rd_in c) sy)) = n) by (apply E_len; rewrite xorb_length_eq; lia).
      rewrite (tie_ige_encrypt_block C sx sy c) by lia.
      unfold ige_enc_block. cbn [fst snd]. split; [reflexivity|]. split; [lia|]. rewrite xorb_length_eq; lia.
  Qed.

  Theorem C02_ige_dec_source x y cs : length x = n -> length y = n -> Forall (fun c => length (rd_in c) = n) cs ->
    fold_src src_ige_dec_step (x, y) cs
    = Some ((last (ige_dec_spec (c_D C) y x (map rd_in cs)) x, last (map rd_in cs) y), map2 wr_out cs (ige_dec_spec (c_D C) y x (map rd_in cs))).
  Proof.
    intros Hx Hy Hcs.
    rewrite (fold_src_ok src_ige_dec_step (ige_dec_block C) (fun st => length (fst st) = n /\ length (snd st) = n) (fun c => length (rd_in c) = n)); auto.
    - now rewrite ige_dec_fold.
    - intros [sx sy] c [Hsx Hsy] Hc. cbn [fst snd] in *. unfold src_ige_dec_step, X. cbn [fst snd].
      assert (HDl : length (c_D C (xorb (rd_in c) sx)) = n) by (apply D_len; rewrite xorb_length_eq; lia).
      rewrite (tie_ige_decrypt_block C sx sy c) by lia.
      unfold ige_dec_block. cbn [fst snd]. split; [reflexivity|]. split; [rewrite xorb_length_eq; lia | lia].
  Qed.
End IgeSource.
