(* Tie_cts_closures_cbc3dec.v -- semantic tie of the CbcCs3 decryption closure body (cts/src/cbc_cs3.rs) to Cts.cbc_cs3_dec.
   A message longer than one block is presented as mb whole blocks, the block ix and 1..bs further bytes; proved in
   stages: cbc_cs3_dec_head (the statements up to the bulk decryption: div_ceil / saturating_sub bookkeeping, split_at on
   bytes, into_chunks of the sub-buffer, debug_assert_eq!), cbc_cs3_dec_tail (un-stealing, written through split_at_mut),
   composed with MirLemmas.run_stmts_app.  A one-block message is plain CBC (second lemma). *)
From BM Require Import Tie.TieLib Tie.ClosureLib Cts Cts_mem Cts_proofs Cts_dec_proofs Cts_spec Cts_cs_proofs Spec Spec_proofs BlockModes_proofs.
From BMGen Require Import Src_cts.
Local Open Scope string_scope.
Local Open Scope list_scope.

Ltac slen' := rewrite ?app_length, ?firstn_length, ?skipn_length, ?zeros_length, ?xor_into_length; first [lia | nia].
Ltac ok_check' := match goal with
 | |- context [in_range ?a ?b] => replace (in_range a b) with true by (symmetry; apply in_range_true; slen')
 | |- context [fits ?a ?b ?c] => replace (fits a b c) with true by (symmetry; apply fits_true; slen')
 | |- context [len_eq ?a ?b] => replace (len_eq a b) with true by (symmetry; apply len_eq_true; slen')
 | |- context [le_ok ?a ?b] => replace (le_ok a b) with true by (symmetry; apply le_ok_true; slen')
 end; cbv beta iota.

Ltac pick_branch :=
  match goal with |- context [as_data ?e (RV (VBoolV ?b))] => change (as_data e (RV (VBoolV b))) with (Some (VBoolV b)) end; cbv beta iota.

Definition cd_iv (C : cipher) iv cs := fst (cts_cbc_dec C iv cs).
Definition cd_cs (C : cipher) iv cs := snd (cts_cbc_dec C iv cs).
Definition cbc_dec_sem (C : cipher) (args : list val) : option (val * list val) :=
  match args with
  | [c; VBlk iv; VCells cs] => Some (VUnit, [c; VBlk (cd_iv C iv cs); VCells (cd_cs C iv cs)])
  | _ => None
  end.

Lemma run_if_mid C e c t el sm rest : rest <> [] ->
  run_stmts (evalC C) e (SExpr (EIf c t el) sm :: rest) =
  match evalC C e c with
  | Some (Norm e1 r) =>
      match as_data e1 r with
      | Some (VBoolV b) =>
          match run_block (evalC C) e1 (if b then t else el) with
          | Some (Norm e2 _) => run_stmts (evalC C) e2 rest
          | Some (Ret e2 v) => Some (Ret e2 v)
          | None => None
          end
      | _ => None
      end
  | Some (Ret e1 v) => Some (Ret e1 v)
  | None => None
  end.
Proof.
  intros Hr. destruct rest as [|s0 rest]; [congruence|]. cbn [run_stmts]. rewrite eval_if.
  destruct (evalC C e c) as [[e1 r|e1 v]|]; cbn [bindF]; try reflexivity.
  destruct (as_data e1 r) as [v|]; try reflexivity. destruct v; try reflexivity.
  destruct b; destruct (run_block (evalC C) e1 _) as [[e2 r2|e2 v2]|]; reflexivity.
Qed.

Definition assert_eq_sem (args : list val) : option (val * list val) :=
  match args with
  | [x; y] => match to_nat x, to_nat y with Some a, Some b => if len_eq a b then Some (VUnit, args) else None | _, _ => None end
  | _ => None
  end.

Section CbcCs3DecB.
  Variable C : cipher.
  Let bs := c_bs C.
  Hypothesis Cwf : cipher_wf C.
  Let bs_pos : 0 < bs.
  Proof. destruct Cwf as (H & _). exact H. Qed.
  Let D_len : forall x, length x = bs -> length (c_D C x) = bs.
  Proof. destruct Cwf as (_ & _ & _ & H). exact H. Qed.
  Let X := bctx C [("cbc_dec", FSem (cbc_dec_sem C)); ("xor", FSem xor_sem); ("debug_assert_eq!", FSem assert_eq_sem)]
                  [("into_chunks::BS", VNat bs); ("Block::<B>::default()", VBlk (zeros bs)); ("B::BlockSize::USIZE", VNat bs); ("try_into::LEN", VNat bs)].

  Definition envA3 (iv0 iv1 : block) (al : bool) (i o0 o : list N) (mb n : nat) : env :=
    [("rem", VRef (PBytes (PBytes (PVar "buf") 0 (bs * mb)) (mb * bs) 0));
     ("blocks", VRef (PBlocks (PBytes (PVar "buf") 0 (bs * mb)) 0 mb bs));
     ("tail", VRef (PBytes (PVar "buf") (bs * mb) (bs + n)));
     ("blocks", VRef (PBytes (PVar "buf") 0 (bs * mb)));
     ("main_blocks", VNat mb); ("blocks_len", VNat (mb + 2));
     ("bs", VNat bs); ("buf", VBuf al i o);
     ("iv", VBlk iv1); ("cipher", VCipher false true);
     ("self", VStruct "Closure" [("iv", VBlk iv0); ("buf", VBuf al i o0)])].

  Lemma cbc_cs3_dec_tail (iv0 iv1 : list N) (al : bool) (ibm : list (list N)) (ix it : list N) (Csm : list (list N)) (ox ot o0 : list N) mb n :
    length iv1 = bs -> all_len bs ibm -> all_len bs Csm -> length ix = bs -> length ox = bs ->
    length ibm = mb -> length Csm = mb -> length it = n -> length ot = n -> 1 <= n <= bs ->
    let i := concat ibm ++ ix ++ it in let o := concat Csm ++ ox ++ ot in
    let src1 := if al then ox else ix in let srct := if al then ot else it in
    let Db1 := c_D C src1 in
    let b2 := srct ++ skipn n Db1 in
    let B2 := xor_into Db1 b2 in
    let B1 := xor_into (c_D C b2) iv1 in
    exists e', run_stmts (evalC X) (envA3 iv0 iv1 al i o0 o mb n) (skipn 9 (fn_body cts__cbc_cs3__BlockCipherDecClosure__Closure__call))
                 = Some (Norm e' (RV VUnit))
      /\ lookup "buf" e' = Some (VBuf al i (concat Csm ++ B1 ++ firstn n B2)).
  Proof.
    intros Hiv1 Hibm HCsm Hix Hox Hk1 Hk2 Hit Hot Htl i o src1 srct Db1 b2 B2 B1. unfold block in *.
    assert (Hci : length (concat ibm) = bs * mb) by (rewrite (all_len_concat_length bs) by auto; lia).
    assert (Hco : length (concat Csm) = bs * mb) by (rewrite (all_len_concat_length bs) by auto; lia).
    assert (HLi : length i = (mb * bs + bs) + n) by (unfold i; rewrite !app_length; nia).
    assert (HLo : length o = (mb * bs + bs) + n) by (unfold o; rewrite !app_length; nia).
    assert (Hs1 : length src1 = bs) by (unfold src1; destruct al; lia).
    assert (Hst : length srct = n) by (unfold srct; destruct al; lia).
    assert (ETo : firstn n (skipn ((mb * bs + bs)) o) = ot).
    { unfold o. rewrite app_assoc. replace ((mb * bs + bs)) with (length (concat Csm ++ ox)) by (rewrite app_length; nia).
      rewrite skipn_app_exact by reflexivity. apply firstn_all2. lia. }
    assert (ETi : firstn n (skipn ((mb * bs + bs)) i) = it).
    { unfold i. rewrite app_assoc. replace ((mb * bs + bs)) with (length (concat ibm ++ ix)) by (rewrite app_length; nia).
      rewrite skipn_app_exact by reflexivity. apply firstn_all2. lia. }
    assert (ERo : firstn (bs + n) (skipn (bs * mb) o) = ox ++ ot).
    { unfold o. rewrite <- Hco, skipn_app_exact by reflexivity. apply firstn_all2. rewrite app_length. lia. }
    assert (ERi : firstn (bs + n) (skipn (bs * mb) i) = ix ++ it).
    { unfold i. rewrite <- Hci, skipn_app_exact by reflexivity. apply firstn_all2. rewrite app_length. lia. }
    assert (Esrc : (if al then ox ++ ot else ix ++ it) = src1 ++ srct) by (unfold src1, srct; destruct al; reflexivity).
    assert (Eo : o = concat Csm ++ (ox ++ ot)) by reflexivity.
    assert (ERx : forall x : list N, length x = bs + n -> firstn (bs + n) (skipn (bs * mb) (concat Csm ++ x)) = x).
    { intros x Hx. rewrite <- Hco, skipn_app_exact by reflexivity. apply firstn_all2. lia. }
    assert (EWx : forall x y : list N, length x = bs + n -> MirSem.splice (bs * mb) (bs + n) y (concat Csm ++ x) = concat Csm ++ y).
    { intros x y Hx. unfold MirSem.splice. rewrite <- Hco at 1. rewrite firstn_app_exact by reflexivity.
      rewrite skipn_all2 by (rewrite app_length; lia). rewrite app_nil_r. reflexivity. }
    assert (EDb1 : Db1 = c_D C src1) by reflexivity.
    assert (Eb2 : b2 = srct ++ skipn n Db1) by reflexivity.
    assert (EB2 : B2 = xor_into Db1 b2) by reflexivity.
    assert (EB1 : B1 = xor_into (c_D C b2) iv1) by reflexivity.
    clearbody i o B1. clearbody B2. clearbody b2. clearbody Db1. clearbody src1 srct. unfold envA3. cbn [skipn fn_body cts__cbc_cs3__BlockCipherDecClosure__Closure__call].
    run_prefix 1. fold bs. unfold block in *.
    repeat first [ok_check' | progress (rewrite ?HLo, ?HLi, ?ERo, ?ERi, ?app_length, ?Hox, ?Hot)].
    replace (bs + n - bs) with n by lia.
    run_prefix 1. fold bs. unfold block in *.
    assert (Eb1 : firstn (bs - 0) (skipn 0 (src1 ++ srct)) = src1).
    { cbn [skipn]. rewrite Nat.sub_0_r, <- Hs1, firstn_app_exact by reflexivity. reflexivity. }
    repeat first [ok_check' | progress (rewrite ?HLo, ?HLi, ?ERo, ?ERi, ?Esrc, ?Eb1, ?app_length, ?Hs1, ?Hst)].
    unfold bs. run_prefix 1. fold bs. rewrite <- EDb1.
    assert (HDb1 : length Db1 = bs) by (rewrite EDb1; apply D_len; exact Hs1).
    run_prefix 1. fold bs.
    run_prefix 1. fold bs. unfold block in *.
    repeat first [ok_check' | progress (rewrite ?HLo, ?HLi, ?ERo, ?ERi, ?Esrc, ?app_length, ?Hs1, ?Hst, ?zeros_length)].
    replace (bs + n - bs) with n by lia.
    assert (Est : firstn n (skipn bs (src1 ++ srct)) = srct).
    { rewrite <- Hs1, skipn_app_exact by reflexivity. apply firstn_all2. lia. }
    rewrite ?Est.
    repeat first [ok_check' | progress (rewrite ?Est, ?app_length, ?Hs1, ?Hst, ?zeros_length)].
    assert (Eblk : MirSem.splice 0 (n - 0) srct (zeros bs) = srct ++ zeros (bs - n)).
    { unfold MirSem.splice. cbn [firstn app Nat.add]. f_equal. unfold zeros. rewrite skipn_repeat_l. f_equal. lia. }
    rewrite ?Eblk.
    run_prefix 1. fold bs. unfold block in *.
    repeat first [ok_check' | progress (rewrite ?app_length, ?Hst, ?zeros_length, ?HDb1, ?firstn_length, ?skipn_length)].
    replace (n + (bs - n) - n) with (bs - n) by lia.
    assert (Emx2 : MirSem.splice n (bs - n) (firstn (bs - n) (skipn n Db1)) (srct ++ zeros (bs - n)) = srct ++ skipn n Db1).
    { unfold MirSem.splice. rewrite <- Hst at 1. rewrite firstn_app_exact by reflexivity. f_equal.
      rewrite (skipn_all2 (srct ++ zeros (bs - n))) by (rewrite app_length, zeros_length; lia). rewrite app_nil_r.
      apply firstn_all2. rewrite skipn_length. lia. }
    rewrite Emx2, <- Eb2.
    assert (Hb2 : length b2 = bs) by (rewrite Eb2, app_length, skipn_length; lia).
    unfold bs. run_prefix 1. fold bs. rewrite <- EB2.
    assert (HB2 : length B2 = bs) by (rewrite EB2, xor_into_length; exact HDb1).
    unfold bs. run_prefix 2. fold bs. rewrite <- EB1.
    assert (HB1 : length B1 = bs) by (rewrite EB1, xor_into_length; apply D_len; exact Hb2).
    run_prefix 1. fold bs. unfold block in *.
    repeat first [ok_check' | progress (rewrite ?HLo, ?HLi, ?ERo, ?app_length, ?Hox, ?Hot, ?HB1)].
    replace (bs + n - bs) with n by lia.
    run_prefix 1. fold bs. unfold block in *.
    repeat first [ok_check' | progress (rewrite ?HLo, ?HLi, ?ERo, ?app_length, ?Hox, ?Hot, ?HB1)].
    assert (Ew1 : MirSem.splice 0 bs B1 (ox ++ ot) = B1 ++ ot).
    { apply seg_write_head. lia. }
    rewrite Ew1, Eo, (EWx (ox ++ ot) (B1 ++ ot)) by (rewrite app_length; lia).
    repeat first [ok_check' | progress (rewrite ?app_length, ?Hox, ?Hot, ?HB1, ?Hco)].
    run_rest. fold bs. unfold block in *.
    repeat first [ok_check' | progress (rewrite ?HLi, ?(ERx (B1 ++ ot)), ?app_length, ?Hox, ?Hot, ?HB1, ?HB2, ?Hco, ?firstn_length, ?skipn_length by (rewrite app_length; lia))].
    assert (Ew3 : MirSem.splice bs n (firstn (n - 0) (skipn 0 B2)) (B1 ++ ot) = B1 ++ firstn n B2).
    { cbn [skipn]. rewrite Nat.sub_0_r. unfold MirSem.splice. rewrite <- HB1 at 1. rewrite firstn_app_exact by reflexivity.
      rewrite skipn_all2 by (rewrite app_length; lia). rewrite app_nil_r. reflexivity. }
    rewrite Ew3, (EWx (B1 ++ ot) (B1 ++ firstn n B2)) by (rewrite app_length; lia).
    repeat first [ok_check' | progress (rewrite ?app_length, ?firstn_length, ?HB1, ?HB2, ?Hco)].
    eexists. split; [reflexivity|]. reflexivity.
  Qed.
  (* the statements up to and including the bulk decryption: all blocks but the last two (the last one may be partial) *)
  Lemma cbc_cs3_dec_head (iv : list N) (al : bool) (ibm : list (list N)) (ix it : list N) (obm : list (list N)) (ox ot : list N) mb n :
    length iv = bs -> all_len bs ibm -> all_len bs obm -> length ix = bs -> length ox = bs ->
    length ibm = mb -> length obm = mb -> length it = n -> length ot = n -> 1 <= n <= bs ->
    let i := concat ibm ++ ix ++ it in let o := concat obm ++ ox ++ ot in
    let Csm := cbc_dec_spec (c_D C) iv (map rd_in (map2 (mkcell al) ibm obm)) in
    let iv1 := cbc_chain iv (map rd_in (map2 (mkcell al) ibm obm)) in
    run_stmts (evalC X) (cenv false iv al i o) (firstn 9 (fn_body cts__cbc_cs3__BlockCipherDecClosure__Closure__call) ++ [SItem ""])
      = Some (Norm (envA3 iv iv1 al i o (concat Csm ++ ox ++ ot) mb n) (RV VUnit)).
  Proof.
    intros Hiv Hibm Hobm Hix Hox Hk1 Hk2 Hit Hot Hn i o Csm iv1. unfold block in *.
    assert (Hci : length (concat ibm) = mb * bs) by (rewrite (all_len_concat_length bs) by auto; lia).
    assert (Hco : length (concat obm) = mb * bs) by (rewrite (all_len_concat_length bs) by auto; lia).
    assert (HLi : length i = mb * bs + bs + n) by (unfold i; rewrite !app_length; lia).
    assert (HLo : length o = mb * bs + bs + n) by (unfold o; rewrite !app_length; lia).
    assert (Hdc : ndiv (mb * bs + bs + n + bs - 1) bs = mb + 2).
    { unfold ndiv. symmetry. apply (Nat.div_unique _ _ _ (n - 1)); nia. }
    assert (F0 : in_range 0 (c_bs C) = true) by (apply in_range_true; fold bs; lia).
    assert (EFo : firstn (bs * mb) (skipn 0 o) = concat obm).
    { cbn [skipn]. replace (bs * mb) with (length (concat obm)) by nia. unfold o. apply firstn_app_exact. reflexivity. }
    assert (EFi : firstn (bs * mb) (skipn 0 i) = concat ibm).
    { cbn [skipn]. replace (bs * mb) with (length (concat ibm)) by nia. unfold i. apply firstn_app_exact. reflexivity. }
    assert (ESo : forall y : list N, length y = bs * mb -> MirSem.splice 0 (bs * mb) y o = y ++ ox ++ ot).
    { intros y Hy. unfold o. apply seg_write_head. nia. }
    set (cellsM := map2 (mkcell al) ibm obm) in *.
    assert (Hcm : length cellsM = mb) by (unfold cellsM; rewrite map2_length; unfold block in *; lia).
    assert (Ecl3 : cells_of bs al (firstn (mb * bs) (skipn 0 (concat ibm))) (firstn (mb * bs) (skipn 0 (concat obm))) = cellsM).
    { cbn [skipn]. unfold cells_of. rewrite <- Hci at 1. rewrite <- Hco. rewrite !firstn_all. rewrite !(chunks_blocks_only C) by auto. reflexivity. }
    destruct (cbc_dec_h_ok C Cwf iv Hiv (map rd_in cellsM)) as [HCl0 HCa]. { apply all_len_rd_in_mkcell; auto; lia. }
    fold bs in HCa. fold Csm in HCl0, HCa.
    assert (HCl : length Csm = mb) by (transitivity (length (map rd_in cellsM)); [exact HCl0 | rewrite map_length; exact Hcm]).
    assert (Eed : cd_cs C iv cellsM = map2 wr_out cellsM Csm) by (unfold cd_cs; rewrite cts_cbc_dec_eq; reflexivity).
    assert (Eiv : cd_iv C iv cellsM = iv1) by (unfold cd_iv; rewrite cts_cbc_dec_eq; reflexivity).
    assert (Eou : outs_of (map2 wr_out cellsM Csm) = concat Csm).
    { unfold outs_of. rewrite map_cout_wr by (transitivity mb; [exact Hcm | symmetry; exact HCl]). reflexivity. }
    assert (Hcsl : length (concat Csm) = mb * bs) by (rewrite (all_len_concat_length bs) by auto; unfold block in *; lia).
    assert (Esp1 : MirSem.splice 0 (mb * bs) (concat Csm) (concat obm) = concat Csm).
    { unfold MirSem.splice. cbn [firstn app Nat.add]. rewrite skipn_all2 by lia. apply app_nil_r. }
    clearbody i o Csm iv1 cellsM. unfold cenv.
    Opaque cd_iv cd_cs cells_of outs_of.
    cbn [firstn fn_body cts__cbc_cs3__BlockCipherDecClosure__Closure__call app].
    run_prefix 2. fold bs.
    rewrite run_if_mid by discriminate.
    match goal with |- context [evalC ?X0 ?e0 ?c0] => eval_sub (evalC X0 e0 c0) end. fold bs. unfold block in *.
    repeat first [ok_check' | progress (rewrite ?HLo, ?HLi)].
    replace (len_eq (mb * bs + bs + n) bs) with false by (symmetry; apply len_eq_false; nia).
    pick_branch. unfold run_block.
    match goal with |- context [run_stmts ?ev0 ?e0 []] => change (run_stmts ev0 e0 []) with (Some (Norm e0 (RV VUnit))) end.
    cbv beta iota delta [pop_to elen edrop psub].
    run_prefix 2. fold bs. unfold block in *.
    repeat first [ok_check' | progress (rewrite ?HLo, ?HLi, ?Hdc)].
    run_prefix 1. fold bs. unfold block in *.
    repeat first [ok_check' | progress (rewrite ?HLo, ?HLi)].
    replace (mb + 2 - (1 + 1)) with mb by lia. replace (mb * bs + bs + n - bs * mb) with (bs + n) by nia.
    run_prefix 1. fold bs. unfold block in *.
    repeat first [ok_check' | progress (rewrite ?HLo, ?HLi, ?EFo, ?EFi, ?Hco, ?Hci)].
    assert (Hnd : ndiv (mb * bs) bs = mb) by (unfold ndiv; apply Nat.div_mul; lia).
    rewrite !Hnd. replace (mb * bs - mb * bs) with 0 by lia.
    run_prefix 1. fold bs. unfold block in *.
    repeat first [ok_check' | progress (rewrite ?HLo, ?HLi, ?EFo, ?EFi, ?Hco, ?Hci) | progress (cbn [firstn length])].
    run_prefix 1. fold bs. unfold block in *.
    repeat first [ok_check' | progress (rewrite ?HLo, ?HLi, ?EFo, ?EFi, ?Hco, ?Hci)].
    repeat match goal with |- context [cells_of bs al ?a ?b] => replace (cells_of bs al a b) with cellsM by (symmetry; exact Ecl3) end.
    repeat match goal with |- context [cd_cs C iv ?x] => replace (cd_cs C iv x) with (map2 wr_out cellsM Csm) by (symmetry; exact Eed) end.
    repeat match goal with |- context [cd_iv C iv ?x] => replace (cd_iv C iv x) with iv1 by (symmetry; exact Eiv) end.
    repeat match goal with |- context [outs_of ?a] => replace (outs_of a) with (concat Csm) by (symmetry; exact Eou) end.
    repeat first [ok_check' | progress (rewrite ?HLo, ?HLi, ?EFo, ?EFi, ?Hco, ?Hci, ?Hcsl, ?Esp1, ?ESo by nia)].
    unfold envA3. reflexivity.
  Qed.
End CbcCs3DecB.

Section CbcCs3Dec.
  Variable C : cipher.
  Let bs := c_bs C.
  Hypothesis Cwf : cipher_wf C.
  Let bs_pos : 0 < bs.
  Proof. destruct Cwf as (H & _). exact H. Qed.
  Let D_len : forall x, length x = bs -> length (c_D C x) = bs.
  Proof. destruct Cwf as (_ & _ & _ & H). exact H. Qed.
  Let X := bctx C [("cbc_dec", FSem (cbc_dec_sem C)); ("xor", FSem xor_sem); ("debug_assert_eq!", FSem assert_eq_sem)]
                  [("into_chunks::BS", VNat bs); ("Block::<B>::default()", VBlk (zeros bs)); ("B::BlockSize::USIZE", VNat bs); ("try_into::LEN", VNat bs)].

  (* a message longer than one block: mb whole blocks, then the block ix and 1..bs further bytes it *)
  Lemma tie_cts__cbc_cs3__BlockCipherDecClosure__Closure__call iv al (ibm : list (list N)) (ix it : list N) (obm : list (list N)) (ox ot : list N) :
    length iv = bs -> all_len bs ibm -> all_len bs obm -> length ix = bs -> length ox = bs ->
    length ibm = length obm -> length it = length ot -> 1 <= length ot <= bs ->
    let i := concat ibm ++ ix ++ it in let o := concat obm ++ ox ++ ot in
    exists e' o', run_body X (cenv false iv al i o) cts__cbc_cs3__BlockCipherDecClosure__Closure__call = Some (e', VUnit)
      /\ lookup "buf" e' = Some (VBuf al i o')
      /\ cbc_cs3_dec C iv (mkmem al i o) = Ok (mkmem al i o').
  Proof.
    intros Hiv Hibm Hobm Hix Hox Hmb Htl Hn i o. unfold run_body. unfold block in *.
    remember (length ibm) as mb eqn:Emb. remember (length ot) as n eqn:En.
    set (cellsPin := map rd_in (map2 (mkcell al) ibm obm)) in *.
    assert (Hcin : all_len bs cellsPin) by (apply all_len_rd_in_mkcell; auto; lia).
    pose proof (cbc_cs3_dec_head C Cwf iv al ibm ix it obm ox ot mb n Hiv Hibm Hobm Hix Hox (eq_sym Emb) (eq_sym Hmb) Htl (eq_sym En) Hn) as HA.
    cbv zeta in HA. fold cellsPin in HA. fold i o in HA.
    set (Csm := cbc_dec_spec (c_D C) iv cellsPin) in *. set (iv1 := cbc_chain iv cellsPin) in *.
    destruct (cbc_dec_h_ok C Cwf iv Hiv cellsPin Hcin) as [HCl0 HCa]. fold bs in HCa. fold Csm in HCl0, HCa.
    assert (HCl : length Csm = mb) by (rewrite HCl0; unfold cellsPin; rewrite map_length, map2_length; unfold block in *; lia).
    assert (Hiv1 : length iv1 = bs) by (apply (cbc_chain_len C); auto).
    destruct (cbc_cs3_dec_tail C Cwf iv iv1 al ibm ix it Csm ox ot o mb n Hiv1 Hibm HCa Hix Hox (eq_sym Emb) HCl Htl (eq_sym En) Hn)
      as (e' & HB & Hbuf). cbv zeta in HB, Hbuf. fold i in HB, Hbuf.
    change (fn_body cts__cbc_cs3__BlockCipherDecClosure__Closure__call)
      with (firstn 9 (fn_body cts__cbc_cs3__BlockCipherDecClosure__Closure__call) ++ skipn 9 (fn_body cts__cbc_cs3__BlockCipherDecClosure__Closure__call)).
    rewrite run_stmts_app by discriminate. unfold X. fold bs in HA, HB. rewrite HA, HB.
    eexists e', _. split; [reflexivity|]. split; [exact Hbuf|].
    destruct (bulkS C bs_pos (cts_cbc_dec C) (fun iv bl => cbc_chain iv bl) (fun iv bl => cbc_dec_spec (c_D C) iv bl) (cts_cbc_dec_eq C)
               iv al ibm (ix ++ it) obm (ox ++ ot) mb (cbc_dec_h_ok C Cwf iv Hiv)
               Hibm Hobm (eq_sym Emb) (eq_sym Hmb) ltac:(rewrite !app_length; lia))
      as (_ & _ & _ & Ecbc & _ & Emain).
    fold bs in Emain, Ecbc. fold cellsPin in Emain, Ecbc. fold Csm in Emain, Ecbc. fold iv1 in Ecbc. fold i o in Emain, Ecbc.
    assert (Hci : length (concat ibm) = mb * bs) by (rewrite (all_len_concat_length bs) by auto; lia).
    assert (Hco : length (concat obm) = mb * bs) by (rewrite (all_len_concat_length bs) by auto; lia).
    assert (HLi : length i = mb * bs + bs + n) by (unfold i; rewrite !app_length; lia).
    assert (HLo : length o = mb * bs + bs + n) by (unfold o; rewrite !app_length; lia).
    unfold cbc_cs3_dec. fold bs. unfold mlen. cbn [m_out]. rewrite HLo.
    replace (Nat.ltb (mb * bs + bs + n) bs) with false by (symmetry; apply Nat.ltb_ge; nia).
    replace (Nat.eqb (mb * bs + bs + n) bs) with false by (symmetry; apply Nat.eqb_neq; nia).
    assert (Hdc : (mb * bs + bs + n + bs - 1) / bs = mb + 2) by (symmetry; apply (Nat.div_unique _ _ _ (n - 1)); nia).
    rewrite Hdc. replace (mb + 2 - 2) with mb by lia.
    unfold block in *. rewrite Emain. cbn [obind]. rewrite Ecbc. cbn [fst].
    unfold usub. replace (Nat.leb bs (mb * bs + bs + n - bs * mb)) with true by (symmetry; apply Nat.leb_le; nia). cbn [obind].
    replace (mb * bs + bs + n - bs * mb - bs) with n by nia.
    unfold cbc_unsteal_dec. fold bs.
    assert (Hsl : forall (P x t : list N), length P = bs * mb -> length x = bs -> length t = n ->
              slice (P ++ x ++ t) (bs * mb) (bs * mb + bs) = Ok x /\
              slice (P ++ x ++ t) (bs * mb + bs) (bs * mb + bs + n) = Ok t).
    { intros P x t HP Hx Ht. unfold slice. rewrite !app_length, HP, Hx, Ht.
      replace (Nat.leb (bs * mb) (bs * mb + bs)) with true by (symmetry; apply Nat.leb_le; lia).
      replace (Nat.leb (bs * mb + bs) (bs * mb + (bs + n))) with true by (symmetry; apply Nat.leb_le; lia).
      replace (Nat.leb (bs * mb + bs) (bs * mb + bs + n)) with true by (symmetry; apply Nat.leb_le; lia).
      replace (Nat.leb (bs * mb + bs + n) (bs * mb + (bs + n))) with true by (symmetry; apply Nat.leb_le; lia).
      cbn [andb]. replace (bs * mb + bs - bs * mb) with bs by lia. replace (bs * mb + bs + n - (bs * mb + bs)) with n by lia.
      split.
      - rewrite <- HP, skipn_app_exact by reflexivity. rewrite <- Hx, firstn_app_exact by reflexivity. reflexivity.
      - replace (bs * mb + bs) with (length (P ++ x)) by (rewrite app_length; lia). rewrite app_assoc, skipn_app_exact by reflexivity.
        apply f_equal. apply firstn_all2. lia. }
    assert (Hcsl : length (concat Csm) = bs * mb) by (rewrite (all_len_concat_length bs) by auto; unfold block in *; nia).
    assert (Hcil : length (concat ibm) = bs * mb) by (rewrite (all_len_concat_length bs) by auto; unfold block in *; nia).
    assert (Hput : forall a inn (P x t b1 b2 : list N), length P = bs * mb -> length x = bs -> length t = n -> length b1 = bs -> length b2 = bs ->
              (do m2 <- mput_out (mkmem a inn (P ++ x ++ t)) (bs * mb) b1; mput_out m2 (bs * mb + bs) (firstn n b2))
              = Ok (mkmem a inn (P ++ b1 ++ firstn n b2))).
    { intros a inn P x t b1 b2 HP Hx Ht Hb1 Hb2. unfold mput_out at 1. cbn [m_al m_in m_out]. rewrite !app_length, HP, Hx, Ht, Hb1.
      replace (Nat.leb (bs * mb + bs) (bs * mb + (bs + n))) with true by (symmetry; apply Nat.leb_le; lia). cbn [obind].
      assert (S1 : splice (P ++ x ++ t) (bs * mb) b1 = P ++ b1 ++ t).
      { unfold splice. rewrite <- HP, firstn_app_exact by reflexivity. rewrite skipn_app, skipn_all2 by lia.
        replace (length P + length b1 - length P) with (length x) by lia. cbn [app]. rewrite skipn_app_exact by reflexivity. reflexivity. }
      rewrite S1. unfold mput_out. cbn [m_al m_in m_out]. rewrite !app_length, HP, Hb1, Ht, firstn_length, Hb2.
      replace (Nat.leb (bs * mb + bs + Nat.min n bs) (bs * mb + (bs + n))) with true by (symmetry; apply Nat.leb_le; lia).
      do 2 f_equal. unfold splice. replace (bs * mb + bs) with (length (P ++ b1)) by (rewrite app_length; lia).
      rewrite (app_assoc P b1 t), firstn_app_exact by reflexivity. rewrite <- app_assoc. do 2 f_equal.
      rewrite skipn_all2 by (rewrite !app_length, firstn_length; lia). rewrite app_nil_r. reflexivity. }
    assert (HDl : forall x : list N, length x = bs -> length (c_D C x) = bs) by exact D_len.
    unfold mget_in, msrc. cbn [m_al m_in m_out]. unfold i.
    assert (Hx : forall x t : list N, length x = bs -> length t = n ->
              let db1 := c_D C x in let b2 := t ++ skipn n db1 in
              length db1 = bs /\ length b2 = bs /\ xor_into (c_D C b2) iv1 = xorb (c_D C b2) iv1 /\ xor_into db1 b2 = xorb db1 b2).
    { intros x t Hxl Htl' db1 b2. assert (H1 : length db1 = bs) by (apply HDl; exact Hxl).
      assert (H2 : length b2 = bs) by (unfold b2; rewrite app_length, skipn_length; lia).
      repeat split; auto; apply xor_into_eq; rewrite ?HDl; auto; lia. }
    destruct al.
    + destruct (Hsl (concat Csm) ox ot Hcsl Hox (eq_sym En)) as [S1 S2]. rewrite S1. cbn [obind]. rewrite S2. cbn [obind].
      destruct (Hx ox ot Hox (eq_sym En)) as (X1 & X2 & X3 & X4). cbv zeta in X1, X2, X3, X4. rewrite X3, X4.
      apply Hput; auto.
      * rewrite xorb_length, HDl by auto. lia.
      * rewrite xorb_length, X1, X2. lia.
    + destruct (Hsl (concat ibm) ix it Hcil Hix Htl) as [S1 S2]. rewrite S1. cbn [obind]. rewrite S2. cbn [obind].
      destruct (Hx ix it Hix Htl) as (X1 & X2 & X3 & X4). cbv zeta in X1, X2, X3, X4. rewrite X3, X4.
      apply Hput; auto.
      * rewrite xorb_length, HDl by auto. lia.
      * rewrite xorb_length, X1, X2. lia.
  Qed.
  (* a one-block message: plain CBC *)
  Lemma tie_cts__cbc_cs3__BlockCipherDecClosure__Closure__call_one_block iv al (ix ox : list N) :
    length iv = bs -> length ix = bs -> length ox = bs ->
    exists e' o', run_body X (cenv false iv al ix ox) cts__cbc_cs3__BlockCipherDecClosure__Closure__call = Some (e', VUnit)
      /\ lookup "buf" e' = Some (VBuf al ix o')
      /\ cbc_cs3_dec C iv (mkmem al ix ox) = Ok (mkmem al ix o').
  Proof.
    intros Hiv Hix Hox. unfold run_body. unfold block in *.
    destruct (bulkS C bs_pos (cts_cbc_dec C) (fun iv bl => cbc_chain iv bl) (fun iv bl => cbc_dec_spec (c_D C) iv bl) (cts_cbc_dec_eq C)
               iv al [ix] [] [ox] [] 1 (cbc_dec_h_ok C Cwf iv Hiv)
               ltac:(repeat constructor; auto) ltac:(repeat constructor; auto) eq_refl eq_refl eq_refl)
      as (Ecells & HCl & HCa & Ecbc & Eouts & Emain).
    cbn [concat app] in Ecells, HCl, HCa, Ecbc, Eouts, Emain. rewrite !app_nil_r in Ecells, Ecbc, Eouts, Emain. fold bs in Ecells, HCl, HCa, Ecbc, Eouts, Emain.
    remember (cbc_dec_spec (c_D C) iv (map rd_in (map2 (mkcell al) [ix] [ox]))) as Cs eqn:ECs.
    assert (Hol : length (concat Cs) = bs) by (rewrite (all_len_concat_length bs) by auto; unfold block in *; lia).
    assert (Hnd : ndiv bs bs = 1) by (unfold ndiv; apply Nat.div_same; lia).
    assert (F0 : in_range 0 (c_bs C) = true) by (apply in_range_true; fold bs; lia).
    unfold cenv. Opaque cd_iv cd_cs cells_of outs_of.
    run_prefix 2. fold bs.
    rewrite run_if_mid by discriminate.
    match goal with |- context [evalC ?X0 ?e0 ?c0] => eval_sub (evalC X0 e0 c0) end. fold bs. unfold block in *.
    repeat first [ok_check' | progress (rewrite ?Hox, ?Hix)].
    try replace (len_eq bs bs) with true by (symmetry; apply len_eq_true; reflexivity).
    pick_branch. unfold run_block.
    run_prefix 1. fold bs. unfold block in *. rewrite ?Hox, ?Hnd.
    repeat first [ok_check' | progress (rewrite ?Hox, ?Hix, ?Hnd)].
    run_prefix 1. fold bs. unfold block in *.
    repeat first [ok_check' | progress (rewrite ?Hox, ?Hix, ?Hnd)].
    assert (Esp : MirSem.splice 0 (1 * bs) (concat Cs) ox = concat Cs).
    { unfold MirSem.splice. cbn [firstn app Nat.add]. rewrite skipn_all2 by lia. apply app_nil_r. }
    repeat match goal with |- context [outs_of (cd_cs C iv ?a)] => replace (outs_of (cd_cs C iv a)) with (concat Cs) by (symmetry; exact Eouts) end.
    repeat first [ok_check' | progress (rewrite ?Hol, ?Esp)].
    run_rest.
    eexists _, _. split; [reflexivity|]. split; [reflexivity|].
    unfold cbc_cs3_dec. fold bs. unfold mlen. cbn [m_out]. rewrite Hox.
    replace (Nat.ltb bs bs) with false by (symmetry; apply Nat.ltb_irrefl). rewrite Nat.eqb_refl, Nat.div_same by lia.
    unfold block in *. rewrite Emain. cbn [obind snd]. rewrite app_nil_r. reflexivity.
  Qed.
End CbcCs3Dec.
