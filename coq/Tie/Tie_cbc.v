(* Tie_cbc.v -- the translated bodies of cbc/src/{lib,encrypt,decrypt}.rs compute what the model
   (the cbc_ definitions of BlockModes.v) computes.  Re-checked on every run against the freshly generated Src_cbc.v. *)
From BM Require Import Tie.TieLib.
From BMGen Require Import Src_cbc.
Local Open Scope string_scope.
Local Open Scope list_scope.

(* ---- fn xor ----------------------------------------------------------------------------------- *)
Lemma tie_cbc_xor C a b :
  call_fn (bctx C [] []) cbc__lib__xor [VBlk a; VBlk b] = xor_sem [VBlk a; VBlk b].
Proof.
  unfold call_fn, call_src. ev.
  match goal with |- context [for_each (seq ?a0 ?n) ?body ?e0] =>
    destruct (for_each_seq_inv
      (fun k e => e = [("buf", VRef (PVar "$a1")); ("$a1", VBlk b); ("out", VRef (PVar "$a0"));
                       ("$a0", VBlk (xor_upto k a b))])
      body a0 n e0) as (e' & He & HP)
  end.
  - reflexivity.
  - intros i e Hi ->. unfold LOOP_DEPTH. cbn [loopN]. Time ev_checks.
    Time (do 2 eexists; split; [reflexivity|]). Time rewrite xor_upto_step by lia. reflexivity.
  - Time rewrite He. Time rewrite HP. Time evf. rewrite Nat.add_0_l, xor_upto_end. reflexivity.
Qed.

Section Cbc.
  Variable C : cipher.
  Let X := bctx C [("xor", FSem xor_sem)] [].
  Definition enc_self (iv : block) : val := VStruct "Backend" [("iv", VBlk iv); ("cipher_backend", VCipher true false)].
  Definition dec_self (iv : block) : val := VStruct "Backend" [("iv", VBlk iv); ("cipher_backend", VCipher false true)].

  Lemma tie_cbc_encrypt_block iv c : length iv = length (rd_in c) ->
    call_fn X cbc__encrypt__BlockModeEncBackend__Backend__encrypt_block [enc_self iv; VCell c]
    = let '(iv', c') := cbc_enc_block C iv c in Some (VUnit, [enc_self iv'; VCell c']).
  Proof. intros H. unfold call_fn, call_src. evf. rewrite xor_into_eq by lia. reflexivity. Qed.

  Lemma tie_cbc_decrypt_block iv c : length iv = length (c_D C (rd_in c)) ->
    call_fn X cbc__decrypt__BlockModeDecBackend__Backend__decrypt_block [dec_self iv; VCell c]
    = let '(iv', c') := cbc_dec_block C iv c in Some (VUnit, [dec_self iv'; VCell c']).
  Proof. intros H. unfold call_fn, call_src. evf. rewrite xor_into_eq by lia. reflexivity. Qed.
End Cbc.
