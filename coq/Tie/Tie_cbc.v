(* Tie_cbc.v -- the translated bodies of cbc/src/{lib,encrypt,decrypt}.rs compute what the model
   (the cbc_ definitions of BlockModes.v) computes.  Re-checked on every run against the freshly generated Src_cbc.v. *)
From BM Require Import Tie.TieLib.
From BMGen Require Import Src_cbc.
Local Open Scope string_scope.
Local Open Scope list_scope.

(* ---- fn xor ----------------------------------------------------------------------------------- *)
Lemma tie_cbc_xor C a b :
  call_fn (bctx C [] []) cbc__lib__xor [VBlk a; VBlk b] = xor_sem [VBlk a; VBlk b].
Proof.
  unfold call_fn, call_src. ev.
  match goal with |- context [for_each (seq ?a0 ?n) ?body ?e0] =>
    destruct (for_each_seq_inv
      (fun k e => e = [("buf", VRef (PVar "$a1")); ("$a1", VBlk b); ("out", VRef (PVar "$a0"));
                       ("$a0", VBlk (xor_upto k a b))])
      body a0 n e0) as (e' & He & HP)
  end.
  - reflexivity.
  - intros i e Hi ->. unfold LOOP_DEPTH. cbn [loopN]. ev_checks.
    (do 2 eexists; split; [reflexivity|]). rewrite xor_upto_step by lia. reflexivity.
  - rewrite He, HP. evf. rewrite Nat.add_0_l, xor_upto_end. reflexivity.
Qed.

Section Cbc.
  Variable C : cipher.
  Let X := bctx C [("xor", FSem xor_sem)] [].
  Definition enc_self (iv : block) : val := VStruct "Backend" [("iv", VBlk iv); ("cipher_backend", VCipher true false)].
  Definition dec_self (iv : block) : val := VStruct "Backend" [("iv", VBlk iv); ("cipher_backend", VCipher false true)].

  Lemma tie_cbc_encrypt_block iv c : length iv = length (rd_in c) ->
    call_fn X cbc__encrypt__BlockModeEncBackend__Backend__encrypt_block [enc_self iv; VCell c]
    = let '(iv', c') := cbc_enc_block C iv c in Some (VUnit, [enc_self iv'; VCell c']).
  Proof. intros H. unfold call_fn, call_src. evf. rewrite xor_into_eq by lia. reflexivity. Qed.

  Lemma tie_cbc_decrypt_block iv c : length iv = length (c_D C (rd_in c)) ->
    call_fn X cbc__decrypt__BlockModeDecBackend__Backend__decrypt_block [dec_self iv; VCell c]
    = let '(iv', c') := cbc_dec_block C iv c in Some (VUnit, [dec_self iv'; VCell c']).
  Proof. intros H. unfold call_fn, call_src. evf. rewrite xor_into_eq by lia. reflexivity. Qed.
  Lemma tie_cbc_decrypt_par_blocks iv cs : cs <> [] ->
    call_fn X cbc__decrypt__BlockModeDecBackend__Backend__decrypt_par_blocks [dec_self iv; VCells cs]
    = Some (VUnit, [dec_self (last (map rd_in cs) iv);
                    VCells (map2 wr_out cs (map2 xor_into (map (c_D C) (map rd_in cs)) (iv :: map rd_in cs)))]).
  Proof.
    intros Hne. unfold call_fn, call_src.
    assert (Hlen : 0 < length cs) by (destruct cs; simpl; [congruence|lia]).
    remember (map rd_in cs) as inb eqn:Einb. remember (map (c_D C) inb) as T eqn:ET.
    assert (HT : length T = length cs) by (subst; now rewrite !map_length).
    assert (Hin : length inb = length cs) by (subst; now rewrite !map_length).
    unfold block in *.
    eval_frame.
    run_prefix 5. rewrite <- ?Einb, <- ?ET.
    run_prefix 1.
    match goal with |- context [for_each (seq ?a0 ?n) ?body ?e0] =>
      destruct (for_each_seq_inv
        (fun k e => e = [("n", VNat (length T)); ("t", VBlks (upto xor_into k T (iv :: inb)));
                         ("in_blocks", VBlks inb); ("blocks", VRef (PVar "$a1"));
                         ("$a1", VCells cs); ("self", VRef (PVar "$a0")); ("$a0", dec_self iv)])
        body a0 n e0) as (e' & He & HP)
    end.
    - unfold upto. rewrite (upd_nth_split _ _ []) by lia. destruct T; [simpl in *; lia|]. reflexivity.
    - intros i e Hi ->. cbn [loopN]. ev_checks.
      do 2 eexists; split; [reflexivity|]. rewrite upd_nth_id.
      replace (nth (i - 1) inb []) with (nth i (iv :: inb) []) by (destruct i; [lia|]; simpl; now rewrite Nat.sub_0_r).
      rewrite upto_step by (simpl length; lia). reflexivity.
    - rewrite He, HP. clear He HP. cbv beta iota.
      replace (1 + (length T - 1)) with (length T) by lia.
      rewrite upto_all by (simpl length; lia).
      run_prefix 1. run_rest. evf.
      rewrite (last_nth inb iv []) by (destruct inb; simpl in *; [lia|discriminate]).
      rewrite HT, Hin. reflexivity.
  Qed.

  (* the model's parallel body is this with xorb for xor_into (equal on blocks of one size) *)
  Lemma cbc_dec_par_model iv cs :
    Forall (fun c => length (c_D C (rd_in c)) = length iv /\ length (rd_in c) = length iv) cs ->
    cbc_dec_par C iv cs =
    (last (map rd_in cs) iv, map2 wr_out cs (map2 xor_into (map (c_D C) (map rd_in cs)) (iv :: map rd_in cs))).
  Proof.
    intros H. unfold cbc_dec_par. f_equal. f_equal.
    revert iv H. induction cs as [|c cs IH]; intros iv H; [reflexivity|].
    inversion H as [|? ? [H1 H2] H3]; subst. cbn [map map2]. rewrite xor_into_eq by lia. f_equal.
    apply IH. eapply Forall_impl; [|exact H3]. intros c' [? ?]. lia.
  Qed.

  (* inner_iv_init / iv_state *)
  Lemma tie_cbc_enc_init iv :
    call_fn X cbc__encrypt__InnerIvInit__Encryptor__inner_iv_init [VCipher true false; VBlk iv]
    = Some (VStruct "Self" [("cipher", VCipher true false); ("iv", VBlk (cbc_init iv))], [VCipher true false; VBlk iv]).
  Proof. unfold call_fn, call_src. evf. reflexivity. Qed.

  Lemma tie_cbc_dec_init iv :
    call_fn X cbc__decrypt__InnerIvInit__Decryptor__inner_iv_init [VCipher false true; VBlk iv]
    = Some (VStruct "Self" [("cipher", VCipher false true); ("iv", VBlk (cbc_init iv))], [VCipher false true; VBlk iv]).
  Proof. unfold call_fn, call_src. evf. reflexivity. Qed.

  Lemma tie_cbc_enc_iv_state st :
    let self := VStruct "Encryptor" [("cipher", VCipher true false); ("iv", VBlk st)] in
    call_fn X cbc__encrypt__IvState__Encryptor__iv_state [self] = Some (VBlk (cbc_iv_state st), [self]).
  Proof. unfold call_fn, call_src. evf. reflexivity. Qed.

  Lemma tie_cbc_dec_iv_state st :
    let self := VStruct "Decryptor" [("cipher", VCipher false true); ("iv", VBlk st)] in
    call_fn X cbc__decrypt__IvState__Decryptor__iv_state [self] = Some (VBlk (cbc_iv_state st), [self]).
  Proof. unfold call_fn, call_src. evf. reflexivity. Qed.
End Cbc.


(* ---- C02 over the translated source: the whole block sequence ---------------------------------------- *)
(* Running the TRANSLATED single-block bodies of cbc (through the interpreter) over any list of blocks computes the
   CBC recurrences and leaves the final chaining value: the tie theorems above composed with the model-level
   theorems of BlockModes_proofs.v.  No hypothesis relates D to E. *)
From BM Require Import BlockModes_proofs Spec.
Section CbcSource.
  Variable C : cipher.
  Variable n : nat.                                   (* the block size: all blocks and the IV have this length *)
  Hypothesis E_len : forall x, length x = n -> length (c_E C x) = n.
  Hypothesis D_len : forall x, length x = n -> length (c_D C x) = n.
  Let X := bctx C [("xor", FSem xor_sem)] [].

  Definition src_cbc_enc_step (iv : block) (c : cell) : option (block * cell) :=
    match call_fn X cbc__encrypt__BlockModeEncBackend__Backend__encrypt_block [enc_self iv; VCell c] with
    | Some (VUnit, [VStruct _ [("iv", VBlk iv'); _]; VCell c']) => Some (iv', c')
    | _ => None
    end.
  Definition src_cbc_dec_step (iv : block) (c : cell) : option (block * cell) :=
    match call_fn X cbc__decrypt__BlockModeDecBackend__Backend__decrypt_block [dec_self iv; VCell c] with
    | Some (VUnit, [VStruct _ [("iv", VBlk iv'); _]; VCell c']) => Some (iv', c')
    | _ => None
    end.

  Theorem C02_cbc_enc_source iv cs : length iv = n -> Forall (fun c => length (rd_in c) = n) cs ->
    fold_src src_cbc_enc_step iv cs
    = Some (cbc_chain iv (cbc_enc_spec (c_E C) iv (map rd_in cs)), map2 wr_out cs (cbc_enc_spec (c_E C) iv (map rd_in cs))).
  Proof.
    intros Hiv Hcs.
    rewrite (fold_src_ok src_cbc_enc_step (cbc_enc_block C) (fun st => length st = n) (fun c => length (rd_in c) = n)); auto.
    - now rewrite cbc_enc_fold.
    - intros st c Hs Hc. unfold src_cbc_enc_step, X. rewrite (tie_cbc_encrypt_block C st c) by lia.
      unfold cbc_enc_block. cbn [fst]. split; [reflexivity|]. apply E_len. rewrite xorb_length_eq; lia.
  Qed.

  Theorem C02_cbc_dec_source iv cs : length iv = n -> Forall (fun c => length (rd_in c) = n) cs ->
    fold_src src_cbc_dec_step iv cs
    = Some (cbc_chain iv (map rd_in cs), map2 wr_out cs (cbc_dec_spec (c_D C) iv (map rd_in cs))).
  Proof.
    intros Hiv Hcs.
    rewrite (fold_src_ok src_cbc_dec_step (cbc_dec_block C) (fun st => length st = n) (fun c => length (rd_in c) = n)); auto.
    - now rewrite cbc_dec_fold.
    - intros st c Hs Hc. unfold src_cbc_dec_step, X. rewrite (tie_cbc_decrypt_block C st c) by (rewrite D_len; lia).
      unfold cbc_dec_block. cbn [fst]. split; [reflexivity|]. exact Hc.
  Qed.

  (* C07 over the translated source: the hand-written parallel body on a batch of any width is the translated
     single-block body run block by block -- same output cells, same chaining value *)
  Theorem C07_cbc_dec_par_source iv cs : cs <> [] -> length iv = n -> Forall (fun c => length (rd_in c) = n) cs ->
    call_fn X cbc__decrypt__BlockModeDecBackend__Backend__decrypt_par_blocks [dec_self iv; VCells cs]
    = match fold_src src_cbc_dec_step iv cs with
      | Some (iv', cs') => Some (VUnit, [dec_self iv'; VCells cs'])
      | None => None
      end.
  Proof.
    intros Hne Hiv Hcs. unfold X. rewrite (tie_cbc_decrypt_par_blocks C iv cs Hne).
    rewrite (fold_src_ok src_cbc_dec_step (cbc_dec_block C) (fun st => length st = n) (fun c => length (rd_in c) = n)); auto.
    - rewrite <- cbc_dec_par_ok. rewrite (cbc_dec_par_model C iv cs); [reflexivity|].
      eapply Forall_impl; [|exact Hcs]. intros c Hc. cbv beta in Hc |- *. split; [rewrite D_len by lia; lia | lia].
    - intros st c Hs Hc. unfold src_cbc_dec_step, X. rewrite (tie_cbc_decrypt_block C st c) by (rewrite D_len; lia).
      unfold cbc_dec_block. cbn [fst]. split; [reflexivity|]. exact Hc.
  Qed.
End CbcSource.
