(* Tie_ctr_core.v -- the translated bodies of ctr/src/ctr_core.rs compute what Ctr.v computes, for any counter
   flavour F given by the contracts of its six functions (those contracts are what Tie_ctr_<w><e>.v prove of
   the flavour files): keystream block = E(next counter block), the parallel variant for every batch width,
   position get/set, remaining blocks, IV state, construction, and the hand-written Clone (a field-wise copy). *)
From BM Require Import Tie.CtrLib.
From BMGen Require Import Src_ctr.
Local Open Scope string_scope.
Local Open Scope list_scope.

(* the flavour's functions stay folded while the core's bodies are evaluated *)
Opaque next_block current_block from_nonce ctr_remaining.

Section Core.
  Variable C : cipher.
  Variable F : flavor.
  Let bits := f_bits F.
  Definition cnv (cn : ctrnonce) : val := VStruct "CtrNonce" [("ctr", VInt bits (cn_ctr cn)); ("nonce", VWords bits (cn_nonce cn))].
  Definition of_cnv (v : val) : option ctrnonce :=
    match v with
    | VStruct _ [("ctr", VInt _ c); ("nonce", VWords _ l)] => Some (mkcn c l)
    | _ => None
    end.
  (* contracts of the flavour (proved of the translated flavour files in Tie_ctr_<w><e>.v) *)
  Definition flavor_fns : list (string * fnimpl) :=
    [("F::next_block", FSem (fun a => match a with [v] => match of_cnv v with
        | Some cn => let '(cn', b) := next_block F cn in Some (VBlk b, [cnv cn']) | None => None end | _ => None end));
     ("F::current_block", FSem (fun a => match a with [v] => match of_cnv v with
        | Some cn => Some (VBlk (current_block F cn), [v]) | None => None end | _ => None end));
     ("F::as_backend", FSem (fun a => match a with [v] => match of_cnv v with
        | Some cn => Some (VInt bits (as_backend cn), [v]) | None => None end | _ => None end));
     ("F::set_from_backend", FSem (fun a => match a with [v; VInt w p] => match of_cnv v with
        | Some cn => Some (VUnit, [cnv (set_from_backend cn p); VInt w p]) | None => None end | _ => None end));
     ("F::remaining", FSem (fun a => match a with [v] => match of_cnv v with
        | Some cn => Some (VOpt (match ctr_remaining F cn with Some r => Some (VInt 64 r) | None => None end), [v]) | None => None end | _ => None end));
     ("F::from_nonce", FSem (fun a => match a with [VBlk iv] => Some (cnv (from_nonce F iv), [VBlk iv]) | _ => None end))].

  Definition be_self (cn : ctrnonce) : val := VStruct "Backend" [("ctr_nonce", cnv cn); ("backend", VCipher true false)].
  Definition core_self (cn : ctrnonce) : val := VStruct "CtrCore" [("cipher", VCipher true false); ("ctr_nonce", cnv cn)].

  Section Single.
  Let X := bctx C flavor_fns [].

  Lemma tie_ctr_gen_ks_block cn junk :
    call_fn X ctr__ctr_core__StreamCipherBackend__Backend__gen_ks_block [be_self cn; VBlk junk]
    = let '(cn', ks) := ctr_gen F C cn in Some (VUnit, [be_self cn'; VBlk ks]).
  Proof. destruct cn as [c l]. unfold ctr_gen. unfold call_fn, call_src. ev_checks.
    destruct (next_block F (mkcn c l)) as [[c' l'] b] eqn:E. evf. reflexivity. Qed.

  Lemma tie_ctr_get_block_pos cn :
    call_fn X ctr__ctr_core__StreamCipherSeekCore__CtrCore__get_block_pos [core_self cn]
    = Some (VInt bits (as_backend cn), [core_self cn]).
  Proof. destruct cn as [c l]. run_fn. reflexivity. Qed.

  Lemma tie_ctr_set_block_pos cn p :
    call_fn X ctr__ctr_core__StreamCipherSeekCore__CtrCore__set_block_pos [core_self cn; VInt bits p]
    = Some (VUnit, [core_self (set_from_backend cn p); VInt bits p]).
  Proof. destruct cn as [c l]. run_fn. reflexivity. Qed.

  Lemma tie_ctr_remaining_blocks cn :
    call_fn X ctr__ctr_core__StreamCipherCore__CtrCore__remaining_blocks [core_self cn]
    = Some (VOpt (match ctr_remaining F cn with Some r => Some (VInt 64 r) | None => None end), [core_self cn]).
  Proof. destruct cn as [c l]. run_fn. reflexivity. Qed.

  Lemma tie_ctr_iv_state cn :
    call_fn X ctr__ctr_core__IvState__CtrCore__iv_state [core_self cn]
    = Some (VBlk (ctr_iv_state F cn), [core_self cn]).
  Proof. destruct cn as [c l]. run_fn. reflexivity. Qed.

  Lemma tie_ctr_inner_iv_init iv :
    call_fn X ctr__ctr_core__InnerIvInit__CtrCore__inner_iv_init [VCipher true false; VBlk iv]
    = Some (VStruct "Self" [("cipher", VCipher true false); ("ctr_nonce", cnv (ctr_init F iv))], [VCipher true false; VBlk iv]).
  Proof. run_fn. reflexivity. Qed.

  (* the hand-written Clone copies both fields: the clone is the same value *)
  Lemma tie_ctr_clone cn :
    call_fn X ctr__ctr_core__Clone__CtrCore__clone [core_self cn]
    = Some (VStruct "Self" [("cipher", VCipher true false); ("ctr_nonce", cnv cn)], [core_self cn]).
  Proof. destruct cn as [c l]. run_fn. reflexivity. Qed.
  End Single.

  (* k counter blocks, accumulated at the back as the loop does *)
  Fixpoint nb_upto (k : nat) (cn : ctrnonce) : ctrnonce * list block :=
    match k with
    | O => (cn, [])
    | S k' => let '(cn1, bl) := nb_upto k' cn in let '(cn2, b) := next_block F cn1 in (cn2, bl ++ [b])
    end.

  Lemma next_blocks_snoc k cn : next_blocks F k cn = nb_upto k cn.
  Proof.
    assert (G : forall k cn, next_blocks F (S k) cn =
                let '(cn1, bl) := next_blocks F k cn in let '(cn2, b) := next_block F cn1 in (cn2, bl ++ [b])).
    { clear. induction k as [|k IH]; intros cn.
      - cbn [next_blocks]. destruct (next_block F cn). reflexivity.
      - change (next_blocks F (S (S k)) cn) with
          (let '(cn1, b) := next_block F cn in let '(cn2, bl) := next_blocks F (S k) cn1 in (cn2, b :: bl)).
        change (next_blocks F (S k) cn) with
          (let '(cn1, b) := next_block F cn in let '(cn2, bl) := next_blocks F k cn1 in (cn2, b :: bl)).
        destruct (next_block F cn) as [cn1 b]. rewrite IH.
        destruct (next_blocks F k cn1) as [cn2 bl]. destruct (next_block F cn2). reflexivity. }
    revert cn. induction k as [|k IH]; intros cn; [reflexivity|].
    rewrite G, IH. reflexivity.
  Qed.

  Lemma nb_upto_length k cn : length (snd (nb_upto k cn)) = k.
  Proof. induction k as [|k IH]; [reflexivity|]. cbn [nb_upto]. destruct (nb_upto k cn) as [cn1 bl].
    destruct (next_block F cn1). cbn [snd] in *. rewrite app_length, IH. simpl. lia. Qed.

  Lemma upd_nth_app_repeat {A} (l : list A) z x m : 0 < m ->
    upd_nth (length l) x (l ++ repeat z m) = (l ++ [x]) ++ repeat z (m - 1).
  Proof.
    intros Hm. induction l as [|y l IH]; cbn [length app upd_nth].
    - destruct m; [lia|]. cbn [repeat upd_nth Nat.sub]. now rewrite ?Nat.sub_0_r.
    - now rewrite IH.
  Qed.

  Lemma tie_ctr_gen_par_ks_blocks cn w zb junk : 1 <= w -> length junk = w ->
    let X := bctx C flavor_fns [("ParBlocks::<Self>::default()", VBlks (repeat zb w))] in
    call_fn X ctr__ctr_core__StreamCipherBackend__Backend__gen_par_ks_blocks [be_self cn; VBlks junk]
    = let '(cn', tmp) := next_blocks F w cn in Some (VUnit, [be_self cn'; VBlks (map (c_E C) tmp)]).
  Proof.
    intros Hw Hj. cbv zeta. unfold call_fn, call_src.
    eval_frame. run_prefix 1. run_prefix 1.
    match goal with |- context [for_each (seq ?a0 ?m) ?body ?e0] =>
      destruct (for_each_seq_inv
        (fun k e => e = [("tmp", VBlks (snd (nb_upto k cn) ++ repeat zb (w - k)));
                         ("blocks", VRef (PVar "$a1")); ("$a1", VBlks junk);
                         ("self", VRef (PVar "$a0")); ("$a0", be_self (fst (nb_upto k cn)))])
        body a0 m e0) as (e' & He & HP)
    end.
    - cbn [nb_upto fst snd app]. rewrite ?Nat.sub_0_r. reflexivity.
    - intros i e Hi ->. cbn [loopN].
      rewrite repeat_length in Hi.
      assert (Hl := nb_upto_length i cn).
      cbn [nb_upto].
      destruct (nb_upto i cn) as [[ci li] bl] eqn:Ek. cbn [fst snd] in *.
      destruct (next_block F (mkcn ci li)) as [[c2 l2] b] eqn:En.
      ev_checks. rewrite En. ev_checks.
      do 2 eexists; split; [reflexivity|]. cbn [fst snd].
      rewrite <- Hl at 1. rewrite upd_nth_app_repeat by lia.
      replace (w - i - 1) with (w - S i) by lia. reflexivity.
    - rewrite He, HP. clear He HP. cbv beta iota. rewrite repeat_length.
      replace (0 + w) with w by lia. rewrite Nat.sub_diag. cbn [repeat]. rewrite app_nil_r.
      rewrite next_blocks_snoc. destruct (nb_upto w cn) as [[cw lw] bl] eqn:Ek. cbn [fst snd] in *.
      run_rest. evf_l. reflexivity.
  Qed.
End Core.
