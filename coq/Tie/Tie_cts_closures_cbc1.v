(* Tie_cts_closures_cbc1.v -- semantic tie of the closure bodies of cts/src/*_cs*.rs (the code that runs inside
   encrypt_with_backend / decrypt_with_backend) to the byte-granular model of coq/Cts.v.

   The buffer is an InOutBuf<u8> (MirSem.VBuf al in out); `into_chunks` splits it into the whole blocks
   (a view PBlocks, read as cells exactly like Cts.mcells) and the tail (a view PBytes).  The helpers called
   (cbc_enc, xor) are contracts here; they are tied to the source in Tie_cts_helpers.v / Tie_cts_cbcdec.v.
   Every bound check, `usize` subtraction and copy_from_slice length check of the body is discharged, so the
   theorem also says the body does not panic on any message of at least one block. *)

(* Tie_cts_closures_cbc1dec.v -- semantic tie of the CbcCs1 decryption closure body (cts/src/cbc_cs1.rs) to Cts.cbc_cs1_dec.
   Proved in stages: cbc_cs1_dec_head (statements up to the bulk decryption over all whole blocks but the last, through
   `blocks.split_at(mid).0`), cbc_cs1_dec_tail (the un-stealing step on the last bs + tail bytes), composed with
   MirLemmas.run_stmts_app; the whole-block case is plain CBC. *)
From BM Require Import Tie.TieLib Tie.ClosureLib Cts Cts_mem Cts_proofs Cts_dec_proofs Cts_spec Cts_cs_proofs Spec Spec_proofs BlockModes_proofs.
From BMGen Require Import Src_cts.
Local Open Scope string_scope.
Local Open Scope list_scope.

Ltac slen' := rewrite ?app_length, ?firstn_length, ?skipn_length, ?zeros_length, ?xor_into_length; first [lia | nia].
Ltac ok_check' := match goal with
 | |- context [in_range ?a ?b] => replace (in_range a b) with true by (symmetry; apply in_range_true; slen')
 | |- context [fits ?a ?b ?c] => replace (fits a b c) with true by (symmetry; apply fits_true; slen')
 | |- context [len_eq ?a ?b] => replace (len_eq a b) with true by (symmetry; apply len_eq_true; slen')
 | |- context [le_ok ?a ?b] => replace (le_ok a b) with true by (symmetry; apply le_ok_true; slen')
 end; cbv beta iota.

Ltac pick_branch :=
  match goal with |- context [as_data ?e (RV (VBoolV ?b))] => change (as_data e (RV (VBoolV b))) with (Some (VBoolV b)) end; cbv beta iota.

Definition cd_iv (C : cipher) iv cs := fst (cts_cbc_dec C iv cs).
Definition cd_cs (C : cipher) iv cs := snd (cts_cbc_dec C iv cs).
Definition cbc_dec_sem (C : cipher) (args : list val) : option (val * list val) :=
  match args with
  | [c; VBlk iv; VCells cs] => Some (VUnit, [c; VBlk (cd_iv C iv cs); VCells (cd_cs C iv cs)])
  | _ => None
  end.

Lemma run_if_mid C e c t el rest : rest <> [] ->
  run_stmts (evalC C) e (SExpr (EIf c t el) true :: rest) =
  match evalC C e c with
  | Some (Norm e1 r) =>
      match as_data e1 r with
      | Some (VBoolV b) =>
          match run_block (evalC C) e1 (if b then t else el) with
          | Some (Norm e2 _) => run_stmts (evalC C) e2 rest
          | Some (Ret e2 v) => Some (Ret e2 v)
          | None => None
          end
      | _ => None
      end
  | Some (Ret e1 v) => Some (Ret e1 v)
  | None => None
  end.
Proof.
  intros Hr. destruct rest as [|s0 rest]; [congruence|]. cbn [run_stmts]. rewrite eval_if.
  destruct (evalC C e c) as [[e1 r|e1 v]|]; cbn [bindF]; try reflexivity.
  destruct (as_data e1 r) as [v|]; try reflexivity. destruct v; try reflexivity.
  destruct b; destruct (run_block (evalC C) e1 _) as [[e2 r2|e2 v2]|]; reflexivity.
Qed.

Section CbcCs1DecB.
  Variable C : cipher.
  Let bs := c_bs C.
  Hypothesis Cwf : cipher_wf C.
  Let bs_pos : 0 < bs.
  Proof. destruct Cwf as (H & _). exact H. Qed.
  Let D_len : forall x, length x = bs -> length (c_D C x) = bs.
  Proof. destruct Cwf as (_ & _ & _ & H). exact H. Qed.
  Let X := bctx C [("cbc_dec", FSem (cbc_dec_sem C)); ("xor", FSem xor_sem)]
                  [("into_chunks::BS", VNat bs); ("Block::<B>::default()", VBlk (zeros bs)); ("B::BlockSize::USIZE", VNat bs); ("try_into::LEN", VNat bs)].

  Definition envA (iv0 iv1 : block) (al : bool) (i o0 o : list N) (nb tl : nat) : env :=
    [("tail", VRef (PBytes (PVar "buf") (nb * bs) tl));
     ("blocks", VRef (PCells (PBlocks (PVar "buf") 0 nb bs) 0 (nb - 1)));
     ("buf", VBuf al i o); ("iv", VBlk iv1); ("cipher", VCipher false true);
     ("self", VStruct "Closure" [("iv", VBlk iv0); ("buf", VBuf al i o0)])].

  (* the un-stealing step, on a buffer whose first nb - 1 blocks are done *)
  Lemma cbc_cs1_dec_tail (iv0 iv1 : list N) (al : bool) (ibp : list (list N)) (il it : list N) (Csp : list (list N)) (ol ot o0 : list N) nb tl :
    length iv1 = bs -> all_len bs ibp -> all_len bs Csp -> length il = bs -> length ol = bs ->
    length ibp = nb - 1 -> length Csp = nb - 1 -> 1 <= nb -> length it = tl -> length ot = tl -> 0 < tl < bs ->
    let i := concat ibp ++ il ++ it in let o := concat Csp ++ ol ++ ot in
    let src1 := if al then ol else il in let srct := if al then ot else it in
    let B2d := c_D C (skipn tl (src1 ++ srct)) in
    let b1' := firstn tl src1 ++ skipn tl B2d in
    let B2 := xor_into B2d b1' in
    let B1 := xor_into (c_D C b1') iv1 in
    exists e', run_stmts (evalC X) (envA iv0 iv1 al i o0 o nb tl) (skipn 4 (fn_body cts__cbc_cs1__BlockCipherDecClosure__Closure__call))
                 = Some (Norm e' (RV VUnit))
      /\ lookup "buf" e' = Some (VBuf al i (concat Csp ++ B1 ++ firstn tl B2)).
  Proof.
    intros Hiv1 Hibp HCsp Hil Hol Hk1 Hk2 Hnb1 Hit Hot Htl i o src1 srct B2d b1' B2 B1. unfold block in *.
    assert (Hci : length (concat ibp) = (nb - 1) * bs) by (rewrite (all_len_concat_length bs) by auto; lia).
    assert (Hco : length (concat Csp) = (nb - 1) * bs) by (rewrite (all_len_concat_length bs) by auto; lia).
    assert (HLi : length i = nb * bs + tl) by (unfold i; rewrite !app_length; nia).
    assert (HLo : length o = nb * bs + tl) by (unfold o; rewrite !app_length; nia).
    assert (Hs1 : length src1 = bs) by (unfold src1; destruct al; lia).
    assert (Hst : length srct = tl) by (unfold srct; destruct al; lia).
    assert (ETo : firstn tl (skipn (nb * bs) o) = ot).
    { unfold o. rewrite app_assoc. replace (nb * bs) with (length (concat Csp ++ ol)) by (rewrite app_length; nia).
      rewrite skipn_app_exact by reflexivity. apply firstn_all2. lia. }
    assert (ETi : firstn tl (skipn (nb * bs) i) = it).
    { unfold i. rewrite app_assoc. replace (nb * bs) with (length (concat ibp ++ il)) by (rewrite app_length; nia).
      rewrite skipn_app_exact by reflexivity. apply firstn_all2. lia. }
    assert (ERo : firstn (bs + tl) (skipn ((nb - 1) * bs) o) = ol ++ ot).
    { unfold o. rewrite <- Hco, skipn_app_exact by reflexivity. apply firstn_all2. rewrite app_length. lia. }
    assert (ERi : firstn (bs + tl) (skipn ((nb - 1) * bs) i) = il ++ it).
    { unfold i. rewrite <- Hci, skipn_app_exact by reflexivity. apply firstn_all2. rewrite app_length. lia. }
    assert (Esrc : (if al then ol ++ ot else il ++ it) = src1 ++ srct) by (unfold src1, srct; destruct al; reflexivity).
    assert (Eo : o = concat Csp ++ (ol ++ ot)) by reflexivity.
    assert (ERx : forall x : list N, length x = bs + tl -> firstn (bs + tl) (skipn ((nb - 1) * bs) (concat Csp ++ x)) = x).
    { intros x Hx. rewrite <- Hco, skipn_app_exact by reflexivity. apply firstn_all2. lia. }
    assert (EWx : forall x y : list N, length x = bs + tl -> MirSem.splice ((nb - 1) * bs) (bs + tl) y (concat Csp ++ x) = concat Csp ++ y).
    { intros x y Hx. unfold MirSem.splice. rewrite <- Hco at 1. rewrite firstn_app_exact by reflexivity.
      rewrite skipn_all2 by (rewrite app_length; lia). rewrite app_nil_r. reflexivity. }
    assert (EB2d : B2d = c_D C (skipn tl (src1 ++ srct))) by reflexivity.
    assert (Eb1' : b1' = firstn tl src1 ++ skipn tl B2d) by reflexivity.
    assert (EB2 : B2 = xor_into B2d b1') by reflexivity.
    assert (EB1 : B1 = xor_into (c_D C b1') iv1) by reflexivity.
    clearbody i o B1. clearbody B2. clearbody b1'. clearbody B2d. clearbody src1 srct. unfold envA. cbn [skipn fn_body cts__cbc_cs1__BlockCipherDecClosure__Closure__call].
    run_prefix 1. fold bs. unfold block in *.
    repeat first [ok_check' | progress (rewrite ?HLo, ?HLi, ?ETo, ?ETi, ?Hot, ?Hit)].
    run_prefix 3. fold bs. unfold block in *.
    repeat first [ok_check' | progress (rewrite ?HLo, ?HLi, ?ETo, ?ETi, ?Hot, ?Hit)].
    replace (nb * bs + tl - (bs + tl)) with ((nb - 1) * bs) by nia.
    run_prefix 1. fold bs. unfold block in *.
    repeat first [ok_check' | progress (rewrite ?HLo, ?HLi)].
    replace (nb * bs + tl - (nb - 1) * bs) with (bs + tl) by nia.
    run_prefix 1. fold bs. unfold block in *.
    repeat first [ok_check' | progress (rewrite ?HLo, ?HLi, ?ERo, ?ERi, ?app_length, ?Hol, ?Hot)].
    replace (bs + tl - bs) with tl by lia.
    run_prefix 1. fold bs. unfold block in *.
    assert (Eb1 : firstn (bs - 0) (skipn 0 (src1 ++ srct)) = src1).
    { cbn [skipn]. rewrite Nat.sub_0_r, <- Hs1, firstn_app_exact by reflexivity. reflexivity. }
    repeat first [ok_check' | progress (rewrite ?HLo, ?HLi, ?ERo, ?ERi, ?Esrc, ?Eb1, ?app_length, ?Hs1, ?Hst)].
    run_prefix 1. fold bs. unfold block in *.
    repeat first [ok_check' | progress (rewrite ?HLo, ?HLi, ?ERo, ?ERi, ?Esrc, ?app_length, ?Hs1, ?Hst)].
    replace (bs + tl - tl) with bs by lia.
    assert (Eb2 : firstn bs (skipn tl (src1 ++ srct)) = skipn tl (src1 ++ srct)) by (apply firstn_all2; rewrite skipn_length, app_length; lia).
    rewrite ?Eb2.
    repeat first [ok_check' | progress (rewrite ?skipn_length, ?app_length, ?Hs1, ?Hst)].
    assert (Hb20 : length (skipn tl (src1 ++ srct)) = bs) by (rewrite skipn_length, app_length; lia).
    unfold bs. run_prefix 1. fold bs. rewrite <- EB2d.
    assert (HB2d : length B2d = bs) by (rewrite EB2d; apply D_len; exact Hb20).
    run_prefix 1. fold bs. unfold block in *.
    repeat first [ok_check' | progress (rewrite ?HB2d, ?Hs1, ?firstn_length, ?skipn_length)].
    assert (Emx : MirSem.splice tl (bs - tl) (firstn (bs - tl) (skipn tl B2d)) src1 = firstn tl src1 ++ skipn tl B2d).
    { unfold MirSem.splice. f_equal. rewrite (skipn_all2 src1) by lia. rewrite app_nil_r. apply firstn_all2. rewrite skipn_length. lia. }
    rewrite ?Emx. rewrite <- Eb1'.
    assert (Hb1' : length b1' = bs) by (rewrite Eb1', app_length, firstn_length, skipn_length; lia).
    unfold bs. run_prefix 1. fold bs. rewrite <- EB2.
    assert (HB2 : length B2 = bs) by (rewrite EB2, xor_into_length; exact HB2d).
    unfold bs. run_prefix 2. fold bs. rewrite <- EB1.
    assert (HB1 : length B1 = bs) by (rewrite EB1, xor_into_length; apply D_len; exact Hb1').
    run_prefix 1. fold bs. unfold block in *.
    repeat first [ok_check' | progress (rewrite ?HLo, ?HLi, ?ERo, ?app_length, ?Hol, ?Hot, ?HB1)].
    assert (Ew1 : MirSem.splice 0 (bs - 0) B1 (ol ++ ot) = B1 ++ ot).
    { rewrite Nat.sub_0_r. apply seg_write_head. lia. }
    rewrite Ew1, Eo, (EWx (ol ++ ot) (B1 ++ ot)) by (rewrite app_length; lia).
    repeat first [ok_check' | progress (rewrite ?app_length, ?Hol, ?Hot, ?HB1, ?Hco)].
    run_rest. fold bs. unfold block in *.
    repeat first [ok_check' | progress (rewrite ?HLi, ?(ERx (B1 ++ ot)), ?app_length, ?Hol, ?Hot, ?HB1, ?HB2, ?Hco, ?firstn_length, ?skipn_length by (rewrite app_length; lia))].
    assert (Ew3 : MirSem.splice bs (bs + tl - bs) (firstn (tl - 0) (skipn 0 B2)) (B1 ++ ot) = B1 ++ firstn tl B2).
    { cbn [skipn]. rewrite Nat.sub_0_r. unfold MirSem.splice. rewrite <- HB1 at 1. rewrite firstn_app_exact by reflexivity.
      rewrite skipn_all2 by (rewrite app_length; lia). rewrite app_nil_r. reflexivity. }
    rewrite Ew3, (EWx (B1 ++ ot) (B1 ++ firstn tl B2)) by (rewrite app_length; lia).
    repeat first [ok_check' | progress (rewrite ?app_length, ?firstn_length, ?HB1, ?HB2, ?Hco)].
    eexists. split; [reflexivity|]. reflexivity.
  Qed.

  Lemma map2_app_l {A B Cc} (f : A -> B -> Cc) a1 a2 b1 b2 : length a1 = length b1 -> map2 f (a1 ++ a2) (b1 ++ b2) = map2 f a1 b1 ++ map2 f a2 b2.
  Proof. revert b1; induction a1 as [|x a1 IH]; intros [|y b1] H; cbn in *; try discriminate; auto. f_equal. apply IH. lia. Qed.

  (* the statements up to and including the bulk decryption, when a tail exists: all whole blocks but the last *)
  Lemma cbc_cs1_dec_head (iv : list N) (al : bool) (ibp : list (list N)) (il it : list N) (obp : list (list N)) (ol ot : list N) nb tl :
    length iv = bs -> all_len bs ibp -> all_len bs obp -> length il = bs -> length ol = bs ->
    length ibp = nb - 1 -> length obp = nb - 1 -> 1 <= nb -> length it = tl -> length ot = tl -> 0 < tl < bs ->
    let i := concat (ibp ++ [il]) ++ it in let o := concat (obp ++ [ol]) ++ ot in
    let Csp := cbc_dec_spec (c_D C) iv (map rd_in (map2 (mkcell al) ibp obp)) in
    let iv1 := cbc_chain iv (map rd_in (map2 (mkcell al) ibp obp)) in
    run_stmts (evalC X) (cenv false iv al i o) (firstn 4 (fn_body cts__cbc_cs1__BlockCipherDecClosure__Closure__call) ++ [SItem ""])
      = Some (Norm (envA iv iv1 al i o (concat Csp ++ ol ++ ot) nb tl) (RV VUnit)).
  Proof.
    intros Hiv Hibp Hobp Hil Hol Hk1 Hk2 Hnb1 Hit Hot Htl i o Csp iv1. unfold block in *.
    assert (Hib : all_len bs (ibp ++ [il])) by (apply Forall_app; split; auto).
    assert (Hob : all_len bs (obp ++ [ol])) by (apply Forall_app; split; auto).
    assert (Hibl : length (ibp ++ [il]) = nb) by (rewrite app_length; cbn [length]; lia).
    assert (Hobl : length (obp ++ [ol]) = nb) by (rewrite app_length; cbn [length]; lia).
    assert (Hci : length (concat (ibp ++ [il])) = nb * bs) by (rewrite (all_len_concat_length bs) by auto; lia).
    assert (Hco : length (concat (obp ++ [ol])) = nb * bs) by (rewrite (all_len_concat_length bs) by auto; lia).
    assert (HLi : length i = nb * bs + tl) by (unfold i; rewrite app_length; lia).
    assert (HLo : length o = nb * bs + tl) by (unfold o; rewrite app_length; lia).
    assert (Hdiv : ndiv (length o) bs = nb).
    { unfold ndiv. rewrite HLo. symmetry. apply (Nat.div_unique _ _ _ tl); lia. }
    assert (F0 : in_range 0 (c_bs C) = true) by (apply in_range_true; fold bs; lia).
    assert (Ecl : cells_of bs al (firstn (nb * bs) (skipn 0 i)) (firstn (nb * bs) (skipn 0 o)) = map2 (mkcell al) ibp obp ++ [mkcell al il ol]).
    { unfold i, o. cbn [skipn]. unfold cells_of. rewrite <- Hci at 1. rewrite <- Hco. rewrite !firstn_app_exact by reflexivity.
      rewrite !(chunks_blocks_only C) by auto. cbn [fst]. change [mkcell al il ol] with (map2 (mkcell al) [il] [ol]). apply map2_app_l. unfold block in *. lia. }
    assert (ETo : firstn tl (skipn (nb * bs) o) = ot).
    { unfold o. rewrite <- Hco, skipn_app_exact by reflexivity. apply firstn_all2. lia. }
    assert (ETi : firstn tl (skipn (nb * bs) i) = it).
    { unfold i. rewrite <- Hci, skipn_app_exact by reflexivity. apply firstn_all2. lia. }
    assert (Hcp : length (map2 (mkcell al) ibp obp) = nb - 1) by (rewrite map2_length; unfold block in *; lia).
    assert (HCsp : length Csp = nb - 1 /\ all_len bs Csp).
    { unfold Csp. destruct (cbc_dec_h_ok C Cwf iv Hiv (map rd_in (map2 (mkcell al) ibp obp))) as [H1 H2].
      - apply all_len_rd_in_mkcell; auto; lia.
      - split; [transitivity (length (map rd_in (map2 (mkcell al) ibp obp))); [exact H1 | rewrite map_length; exact Hcp] | exact H2]. }
    destruct HCsp as [HCl HCa].
    assert (Eed : cd_cs C iv (map2 (mkcell al) ibp obp) = map2 wr_out (map2 (mkcell al) ibp obp) Csp).
    { unfold cd_cs. rewrite cts_cbc_dec_eq. reflexivity. }
    assert (Eiv : cd_iv C iv (map2 (mkcell al) ibp obp) = iv1).
    { unfold cd_iv. rewrite cts_cbc_dec_eq. reflexivity. }
    assert (Eo : o = concat obp ++ ol ++ ot).
    { unfold o. rewrite concat_app. cbn [concat]. rewrite app_nil_r, <- app_assoc. reflexivity. }
    clearbody i o Csp iv1. unfold cenv.
    Opaque cd_iv cd_cs cells_of outs_of.
    cbn [firstn fn_body cts__cbc_cs1__BlockCipherDecClosure__Closure__call app].
    run_prefix 2. fold bs. rewrite Hdiv. replace (length o - nb * bs) with tl by lia.
    rewrite run_if_mid by discriminate.
    match goal with |- context [evalC ?X0 ?e0 ?c0] => eval_sub (evalC X0 e0 c0) end. fold bs. unfold block in *.
    repeat first [ok_check' | progress (rewrite ?HLo, ?HLi, ?ETo, ?Hot)].
    try replace (len_eq tl 0) with false by (symmetry; apply len_eq_false; lia). cbn [negb].
    pick_branch. unfold run_block.
    run_prefix 1. fold bs. unfold block in *.
    repeat first [ok_check' | progress (rewrite ?HLo, ?HLi, ?Ecl, ?app_length, ?Hcp) | progress (cbn [length])].
    replace (nb - 1 + 1 - 1) with (nb - 1) by lia.
    run_rest. fold bs. unfold block in *.
    repeat first [ok_check' | progress (rewrite ?HLo, ?HLi, ?Ecl, ?app_length, ?Hcp) | progress (cbn [length])].
    cbv beta iota delta [pop_to elen edrop psub].
    run_prefix 1. fold bs. unfold block in *.
    repeat first [ok_check' | progress (rewrite ?HLo, ?HLi, ?Ecl, ?app_length, ?Hcp) | progress (cbn [length])].
    unfold block in *. set (cellsP := map2 (mkcell al) ibp obp) in *. set (cL := mkcell al il ol) in *.
    assert (Efn : firstn (nb - 1) (skipn 0 (cellsP ++ [cL])) = cellsP).
    { cbn [skipn]. rewrite <- Hcp, firstn_app_exact by reflexivity. reflexivity. }
    assert (Ecs : forall Xc, csplice 0 (nb - 1) Xc (cellsP ++ [cL]) = Xc ++ [cL]).
    { intros Xc. unfold csplice. cbn [firstn app Nat.add]. rewrite <- Hcp, skipn_app_exact by reflexivity. reflexivity. }
    assert (Eou : outs_of (map2 wr_out cellsP Csp ++ [cL]) = concat Csp ++ ol).
    { Transparent outs_of. unfold outs_of. Opaque outs_of. rewrite map_app, concat_app. rewrite map_cout_wr by (transitivity (nb - 1); [exact Hcp | symmetry; exact HCl]).
      cbn [map concat cL cout]. rewrite app_nil_r. reflexivity. }
    assert (Hcsl : length (concat Csp) = (nb - 1) * bs) by (rewrite (all_len_concat_length bs) by auto; unfold block in *; lia).
    assert (Esp : MirSem.splice 0 (nb * bs) (concat Csp ++ ol) o = concat Csp ++ ol ++ ot).
    { rewrite Eo. replace (concat obp ++ ol ++ ot) with ((concat obp ++ ol) ++ ot) by (rewrite <- app_assoc; reflexivity).
      rewrite seg_write_head, <- app_assoc; [reflexivity|]. rewrite app_length, (all_len_concat_length bs) by auto. unfold block in *. nia. }
    repeat match goal with |- context [firstn (nb - 1) (skipn 0 ?x)] => replace (firstn (nb - 1) (skipn 0 x)) with cellsP by (symmetry; exact Efn) end.
    repeat match goal with |- context [cd_cs C iv ?x] => replace (cd_cs C iv x) with (map2 wr_out cellsP Csp) by (symmetry; exact Eed) end.
    repeat match goal with |- context [cd_iv C iv ?x] => replace (cd_iv C iv x) with iv1 by (symmetry; exact Eiv) end.
    repeat match goal with |- context [csplice 0 (nb - 1) ?a ?b] => replace (csplice 0 (nb - 1) a b) with (a ++ [cL]) by (symmetry; exact (Ecs a)) end.
    repeat match goal with |- context [outs_of ?a] => replace (outs_of a) with (concat Csp ++ ol) by (symmetry; exact Eou) end.
    repeat match goal with |- context [MirSem.splice 0 (nb * bs) ?a o] => replace (MirSem.splice 0 (nb * bs) a o) with (concat Csp ++ ol ++ ot) by (symmetry; exact Esp) end.
    repeat first [ok_check' | progress (rewrite ?map2_length, ?app_length, ?Hcp, ?HCl, ?Nat.min_id, ?Hcsl, ?Hol)].
    match goal with |- context [len_eq ?a (nb - 1)] => replace (len_eq a (nb - 1)) with true
      by (symmetry; apply len_eq_true; transitivity (Nat.min (nb - 1) (nb - 1)); [f_equal; [exact Hcp | exact HCl] | apply Nat.min_id]) end.
    cbv beta iota. unfold envA. reflexivity.
  Qed.
End CbcCs1DecB.

Section CbcCs1Dec.
  Variable C : cipher.
  Let bs := c_bs C.
  Hypothesis Cwf : cipher_wf C.
  Let bs_pos : 0 < bs.
  Proof. destruct Cwf as (H & _). exact H. Qed.
  Let D_len : forall x, length x = bs -> length (c_D C x) = bs.
  Proof. destruct Cwf as (_ & _ & _ & H). exact H. Qed.
  Let X := bctx C [("cbc_dec", FSem (cbc_dec_sem C)); ("xor", FSem xor_sem)]
                  [("into_chunks::BS", VNat bs); ("Block::<B>::default()", VBlk (zeros bs)); ("B::BlockSize::USIZE", VNat bs); ("try_into::LEN", VNat bs)].

  Lemma tie_cts__cbc_cs1__BlockCipherDecClosure__Closure__call iv al ib it ob ot :
    length iv = bs -> all_len bs ib -> all_len bs ob -> length ib = length ob -> 1 <= length ib ->
    length it = length ot -> length ot < bs ->
    exists e' o', run_body X (cenv false iv al (concat ib ++ it) (concat ob ++ ot)) cts__cbc_cs1__BlockCipherDecClosure__Closure__call = Some (e', VUnit)
      /\ lookup "buf" e' = Some (VBuf al (concat ib ++ it) o')
      /\ cbc_cs1_dec C iv (mkmem al (concat ib ++ it) (concat ob ++ ot)) = Ok (mkmem al (concat ib ++ it) o').
  Proof.
    intros Hiv Hib Hob Hnb Hnb1 Htl Htl2. unfold run_body. unfold block in *.
    remember (length ib) as nb eqn:Enb.
    remember (length ot) as tl eqn:Etl.
    assert (Hci : length (concat ib) = nb * bs) by (rewrite (all_len_concat_length bs) by auto; lia).
    assert (Hco : length (concat ob) = nb * bs) by (rewrite (all_len_concat_length bs) by auto; lia).
    assert (HLi : length (concat ib ++ it) = nb * bs + tl) by (rewrite app_length; lia).
    assert (HLo : length (concat ob ++ ot) = nb * bs + tl) by (rewrite app_length; lia).
    assert (Hdiv : ndiv (length (concat ob ++ ot)) bs = nb).
    { unfold ndiv. rewrite HLo. symmetry. apply (Nat.div_unique _ _ _ tl); lia. }
    assert (Hd : length (concat ob ++ ot) / bs = nb) by (rewrite HLo; symmetry; apply (Nat.div_unique _ _ _ tl); lia).
    assert (Hm : length (concat ob ++ ot) mod bs = tl) by (rewrite HLo; symmetry; apply (Nat.mod_unique _ _ nb); lia).
    assert (F0 : in_range 0 (c_bs C) = true) by (apply in_range_true; fold bs; lia).
    assert (EclZ : forall Z ot', all_len bs Z -> length Z = nb ->
              cells_of bs al (firstn (nb * bs) (skipn 0 (concat ib ++ it))) (firstn (nb * bs) (skipn 0 (concat Z ++ ot'))) = map2 (mkcell al) ib Z).
    { intros Z ot' HZ HZl. cbn [skipn]. unfold cells_of.
      assert (HZc : length (concat Z) = nb * bs) by (rewrite (all_len_concat_length bs) by auto; unfold block in *; nia).
      rewrite <- Hci at 1. rewrite <- HZc. rewrite !firstn_app_exact by reflexivity. rewrite !(chunks_blocks_only C) by auto. reflexivity. }
    assert (ET : forall (Z : list (list N)) (ot' : list N), all_len bs Z -> length Z = nb -> firstn tl (skipn (nb * bs) (concat Z ++ ot')) = firstn tl ot').
    { intros Z ot' HZ HZl. assert (HZc : length (concat Z) = nb * bs) by (rewrite (all_len_concat_length bs) by auto; unfold block in *; nia).
      rewrite <- HZc, skipn_app_exact by reflexivity. reflexivity. }
    assert (EI : firstn tl (skipn (nb * bs) (concat ib ++ it)) = it).
    { rewrite <- Hci, skipn_app_exact by reflexivity. apply firstn_all2. lia. }
    Opaque cd_iv cd_cs cells_of outs_of.
    destruct (Nat.eq_dec tl 0) as [Htl0|Htl0].
    - (* whole blocks only: plain CBC *)
      run_prefix 2. fold bs. rewrite Hdiv. replace (length (concat ob ++ ot) - nb * bs) with tl by lia.
      run_prefix 1. fold bs. unfold block in *.
      repeat first [ok_check | progress (rewrite ?HLo, ?HLi, ?(ET ob ot Hob (eq_sym Hnb)), ?EI, ?(firstn_all2 ot), ?firstn_length, ?skipn_length by lia) | progress (rewrite <- ?Etl)].
      destruct (bulkS C bs_pos (cts_cbc_dec C) (fun iv bl => cbc_chain iv bl) (fun iv bl => cbc_dec_spec (c_D C) iv bl) (cts_cbc_dec_eq C)
                 iv al ib it ob ot nb (cbc_dec_h_ok C Cwf iv Hiv) Hib Hob (eq_sym Enb) (eq_sym Hnb) (eq_trans Htl Etl))
        as (Ecells & HCl & HCa & Ecbc & Eouts & Emain).
      fold bs in Ecells, HCl, HCa, Ecbc, Eouts, Emain.
      remember (cbc_dec_spec (c_D C) iv (map rd_in (map2 (mkcell al) ib ob))) as Cs eqn:ECs.
      assert (Hol : length (concat Cs) = nb * bs).
      { rewrite (all_len_concat_length bs) by auto. unfold block in *. nia. }
      assert (Eo1 : MirSem.splice 0 (nb * bs) (concat Cs) (concat ob ++ ot) = concat Cs ++ ot).
      { apply seg_write_head. lia. }
      run_prefix 1. fold bs. unfold block in *.
      repeat first [ok_check | progress (rewrite ?HLo, ?HLi)].
      match goal with |- context [outs_of (cd_cs C iv ?a)] => replace (outs_of (cd_cs C iv a)) with (concat Cs) by (symmetry; exact Eouts) end.
      repeat first [ok_check | progress (rewrite ?HLo, ?HLi, ?Hol, ?Eo1)].
      assert (HL1 : length (concat Cs ++ ot) = nb * bs + tl) by (rewrite app_length; lia).
      run_prefix 1. fold bs. unfold block in *.
      repeat first [ok_check | progress (rewrite ?HL1, ?HLi, ?(ET Cs ot HCa HCl), ?(firstn_all2 ot), ?firstn_length, ?skipn_length by lia) | progress (rewrite <- ?Etl)].
      replace (len_eq tl 0) with true by (symmetry; apply len_eq_true; exact Htl0). cbv beta iota.
      eexists _, _. split; [reflexivity|]. split; [reflexivity|].
      unfold cbc_cs1_dec, cs12_dec_main. fold bs. unfold mlen. cbn [m_out]. rewrite Hd, Hm.
      replace (Nat.ltb (length (concat ob ++ ot)) bs) with false by (symmetry; apply Nat.ltb_ge; nia).
      replace (Nat.eqb tl 0) with true by (symmetry; apply Nat.eqb_eq; exact Htl0).
      unfold block in *. rewrite Emain. cbn [obind]. destruct (cts_cbc_dec C iv _). reflexivity.
    - (* a partial last block: un-stealing *)
      destruct (exists_last (l := ib)) as (ibp & il & Eib). { intros E0; rewrite E0 in Enb; cbn in Enb; lia. }
      destruct (exists_last (l := ob)) as (obp & ol & Eob). { intros E0; rewrite E0 in Hnb; cbn in Hnb; lia. }
      subst ib ob. apply Forall_app in Hib. destruct Hib as [Hibp Hil]. apply Forall_app in Hob. destruct Hob as [Hobp Hol].
      assert (Hil' : length il = bs) by (inversion Hil; auto). assert (Hol' : length ol = bs) by (inversion Hol; auto). clear Hil Hol.
      rewrite app_length in Enb, Hnb. cbn [length] in Enb, Hnb.
      set (cellsPin := map rd_in (map2 (mkcell al) ibp obp)) in *.
      assert (Hcin : all_len bs cellsPin) by (apply all_len_rd_in_mkcell; auto; lia).
      pose proof (cbc_cs1_dec_head C Cwf iv al ibp il it obp ol ot nb tl Hiv Hibp Hobp Hil' Hol' ltac:(lia) ltac:(lia) ltac:(lia) Htl (eq_sym Etl) ltac:(lia)) as HA.
      cbv zeta in HA. fold cellsPin in HA.
      set (Csp := cbc_dec_spec (c_D C) iv cellsPin) in *. set (iv1 := cbc_chain iv cellsPin) in *.
      destruct (cbc_dec_h_ok C Cwf iv Hiv cellsPin Hcin) as [HCl0 HCa]. fold bs in HCa. fold Csp in HCl0, HCa.
      assert (HCl : length Csp = nb - 1) by (rewrite HCl0; unfold cellsPin; rewrite map_length, map2_length; unfold block in *; lia).
      assert (Hiv1 : length iv1 = bs) by (apply (cbc_chain_len C); auto).
      assert (Ei : concat (ibp ++ [il]) ++ it = concat ibp ++ il ++ it) by (rewrite concat_app; cbn [concat]; rewrite app_nil_r, <- app_assoc; reflexivity).
      destruct (cbc_cs1_dec_tail C Cwf iv iv1 al ibp il it Csp ol ot (concat (obp ++ [ol]) ++ ot) nb tl Hiv1 Hibp HCa Hil' Hol' ltac:(lia) HCl ltac:(lia) Htl (eq_sym Etl) ltac:(lia))
        as (e' & HB & Hbuf). cbv zeta in HB, Hbuf. rewrite <- Ei in HB, Hbuf.
      set (i := concat (ibp ++ [il]) ++ it) in *. set (o := concat (obp ++ [ol]) ++ ot) in *.
      change (fn_body cts__cbc_cs1__BlockCipherDecClosure__Closure__call)
        with (firstn 4 (fn_body cts__cbc_cs1__BlockCipherDecClosure__Closure__call) ++ skipn 4 (fn_body cts__cbc_cs1__BlockCipherDecClosure__Closure__call)).
      rewrite run_stmts_app by discriminate. unfold X. fold bs in HA, HB. rewrite HA, HB.
      eexists e', _. split; [reflexivity|]. split; [exact Hbuf|].
      destruct (bulkS C bs_pos (cts_cbc_dec C) (fun iv bl => cbc_chain iv bl) (fun iv bl => cbc_dec_spec (c_D C) iv bl) (cts_cbc_dec_eq C)
                 iv al ibp (il ++ it) obp (ol ++ ot) (nb - 1) (cbc_dec_h_ok C Cwf iv Hiv)
                 Hibp Hobp ltac:(lia) ltac:(lia) ltac:(rewrite !app_length; lia))
        as (_ & _ & _ & Ecbc & _ & Emain).
      fold bs in Emain, Ecbc. fold cellsPin in Emain, Ecbc. fold Csp in Emain, Ecbc. fold iv1 in Ecbc.
      assert (Eo : o = concat obp ++ ol ++ ot) by (unfold o; rewrite concat_app; cbn [concat]; rewrite app_nil_r, <- app_assoc; reflexivity).
      assert (Ei' : i = concat ibp ++ il ++ it) by exact Ei.
      rewrite <- Eo, <- Ei' in Emain, Ecbc.
      assert (HLi' : length i = nb * bs + tl) by exact HLi.
      assert (HLo' : length o = nb * bs + tl) by exact HLo.
      unfold cbc_cs1_dec, cs12_dec_main. fold bs. unfold mlen. cbn [m_out]. fold o. rewrite Hd, Hm.
      replace (Nat.ltb (length o) bs) with false by (symmetry; apply Nat.ltb_ge; nia).
      replace (Nat.eqb tl 0) with false by (symmetry; apply Nat.eqb_neq; lia).
      unfold usub at 1. replace (Nat.leb 1 nb) with true by (symmetry; apply Nat.leb_le; lia). cbn [obind].
      rewrite Emain. cbn [obind]. rewrite Ecbc. cbn [fst].
      unfold usub. rewrite HLo'. replace (Nat.leb (bs + tl) (nb * bs + tl)) with true by (symmetry; apply Nat.leb_le; nia). cbn [obind].
      replace (nb * bs + tl - (bs + tl)) with ((nb - 1) * bs) by nia.
      assert (Hsl : forall (P x t : list N), length P = (nb - 1) * bs -> length x = bs -> length t = tl ->
                slice (P ++ x ++ t) ((nb - 1) * bs) ((nb - 1) * bs + bs) = Ok x /\
                slice (P ++ x ++ t) ((nb - 1) * bs + tl) ((nb - 1) * bs + tl + bs) = Ok (skipn tl (x ++ t))).
      { intros P x t HP Hx Ht. unfold slice. rewrite !app_length, HP, Hx, Ht.
        replace (Nat.leb ((nb - 1) * bs) ((nb - 1) * bs + bs)) with true by (symmetry; apply Nat.leb_le; lia).
        replace (Nat.leb ((nb - 1) * bs + bs) ((nb - 1) * bs + (bs + tl))) with true by (symmetry; apply Nat.leb_le; lia).
        replace (Nat.leb ((nb - 1) * bs + tl) ((nb - 1) * bs + tl + bs)) with true by (symmetry; apply Nat.leb_le; lia).
        replace (Nat.leb ((nb - 1) * bs + tl + bs) ((nb - 1) * bs + (bs + tl))) with true by (symmetry; apply Nat.leb_le; lia).
        cbn [andb]. replace ((nb - 1) * bs + bs - (nb - 1) * bs) with bs by lia. replace ((nb - 1) * bs + tl + bs - ((nb - 1) * bs + tl)) with bs by lia.
        split.
        - rewrite <- HP, skipn_app_exact by reflexivity. rewrite <- Hx, firstn_app_exact by reflexivity. reflexivity.
        - rewrite <- HP. rewrite skipn_app, skipn_all2 by lia. replace (length P + tl - length P) with tl by lia. cbn [app].
          rewrite firstn_all2 by (rewrite skipn_length, app_length; lia). reflexivity. }
      assert (Hcsl : length (concat Csp) = (nb - 1) * bs) by (rewrite (all_len_concat_length bs) by auto; unfold block in *; lia).
      assert (Hcil : length (concat ibp) = (nb - 1) * bs) by (rewrite (all_len_concat_length bs) by auto; unfold block in *; lia).
      assert (Hput : forall a inn (P x t b1 b2 : list N), length P = (nb - 1) * bs -> length x = bs -> length t = tl -> length b1 = bs -> length b2 = bs ->
                (do m2 <- mput_out (mkmem a inn (P ++ x ++ t)) ((nb - 1) * bs) b1; mput_out m2 ((nb - 1) * bs + bs) (firstn tl b2))
                = Ok (mkmem a inn (P ++ b1 ++ firstn tl b2))).
      { intros a inn P x t b1 b2 HP Hx Ht Hb1 Hb2. unfold mput_out at 1. cbn [m_al m_in m_out]. rewrite !app_length, HP, Hx, Ht, Hb1.
        replace (Nat.leb ((nb - 1) * bs + bs) ((nb - 1) * bs + (bs + tl))) with true by (symmetry; apply Nat.leb_le; lia). cbn [obind].
        assert (S1 : splice (P ++ x ++ t) ((nb - 1) * bs) b1 = P ++ b1 ++ t).
        { unfold splice. rewrite <- HP, firstn_app_exact by reflexivity. rewrite skipn_app, skipn_all2 by lia.
          replace (length P + length b1 - length P) with (length x) by lia. cbn [app]. rewrite skipn_app_exact by reflexivity. reflexivity. }
        rewrite S1. unfold mput_out. cbn [m_al m_in m_out]. rewrite !app_length, HP, Hb1, Ht, firstn_length, Hb2.
        replace (Nat.leb ((nb - 1) * bs + bs + Nat.min tl bs) ((nb - 1) * bs + (bs + tl))) with true by (symmetry; apply Nat.leb_le; lia).
        do 2 f_equal. unfold splice. replace ((nb - 1) * bs + bs) with (length (P ++ b1)) by (rewrite app_length; lia).
        rewrite (app_assoc P b1 t), firstn_app_exact by reflexivity. rewrite <- app_assoc. do 2 f_equal.
        rewrite skipn_all2 by (rewrite !app_length, firstn_length; lia). rewrite app_nil_r. reflexivity. }
      assert (HDl : forall x : list N, length x = bs -> length (c_D C x) = bs) by exact D_len.
      unfold mget_in, msrc. cbn [m_al m_in m_out]. rewrite Ei'.
      assert (Hx : forall x t : list N, length x = bs -> length t = tl ->
                let b2d := c_D C (skipn tl (x ++ t)) in let b1' := firstn tl x ++ skipn tl b2d in
                length b2d = bs /\ length b1' = bs /\ xor_into (c_D C b1') iv1 = xorb (c_D C b1') iv1 /\ xor_into b2d b1' = xorb b2d b1').
      { intros x t Hxl Htl' b2d b1'. assert (H1 : length b2d = bs) by (apply HDl; rewrite skipn_length, app_length; lia).
        assert (H2 : length b1' = bs) by (unfold b1'; rewrite app_length, firstn_length, skipn_length; lia).
        repeat split; auto; apply xor_into_eq; rewrite ?HDl; auto; lia. }
      destruct al.
      + destruct (Hsl (concat Csp) ol ot Hcsl Hol' (eq_sym Etl)) as [S1 S2]. rewrite S1. cbn [obind]. rewrite S2. cbn [obind].
        destruct (Hx ol ot Hol' (eq_sym Etl)) as (X1 & X2 & X3 & X4). cbv zeta in X1, X2, X3, X4. rewrite X3, X4.
        apply Hput; auto.
        * rewrite xorb_length, HDl by auto. lia.
        * rewrite xorb_length, X1, X2. lia.
      + destruct (Hsl (concat ibp) il it Hcil Hil' Htl) as [S1 S2]. rewrite S1. cbn [obind]. rewrite S2. cbn [obind].
        destruct (Hx il it Hil' Htl) as (X1 & X2 & X3 & X4). cbv zeta in X1, X2, X3, X4. rewrite X3, X4.
        apply Hput; auto.
        * rewrite xorb_length, HDl by auto. lia.
        * rewrite xorb_length, X1, X2. lia.
  Qed.
End CbcCs1Dec.

(* ==== the encryption closure (the first closure tie written; its own small library: local contracts, env) ==== *)
Lemma skipn_repeat_l {A} (x : A) k n : skipn k (repeat x n) = repeat x (n - k).
Proof. revert n; induction k as [|k IH]; intros [|n]; cbn [skipn repeat Nat.sub]; auto. Qed.

Lemma msplice_length lo len (s b : list N) : lo + len <= length b -> length s = len -> length (MirSem.splice lo len s b) = length b.
Proof. intros H1 H2. unfold MirSem.splice. rewrite !app_length, firstn_length, skipn_length. lia. Qed.

Section Cs1.
  Variable C : cipher.
  Let bs := c_bs C.
  Hypothesis bs_pos : 0 < bs.
  Hypothesis E_len : forall x, length x = bs -> length (c_E C x) = bs.
  Definition ce_iv iv cs := fst (cts_cbc_enc C iv cs).
  Definition ce_out iv cs := outs_of (snd (cts_cbc_enc C iv cs)).
  Definition ce_cs iv cs := snd (cts_cbc_enc C iv cs).
  Definition cbc_enc_sem (args : list val) : option (val * list val) :=
    match args with
    | [c; VBlk iv; VCells cs] => Some (VUnit, [c; VBlk (ce_iv iv cs); VCells (ce_cs iv cs)])
    | _ => None
    end.
  Let X := bctx C [("cbc_enc", FSem cbc_enc_sem); ("xor", FSem xor_sem)]
                  [("into_chunks::BS", VNat bs); ("Block::<B>::default()", VBlk (zeros bs)); ("B::BlockSize::USIZE", VNat bs)].
  Definition cenv (iv : block) (al : bool) (i o : list N) : env :=
    [("cipher", VCipher true false); ("self", VStruct "Closure" [("iv", VBlk iv); ("buf", VBuf al i o)])].

  Lemma all_len_rd_in_mkcell al (a b : list (list N)) : all_len bs a -> all_len bs b -> length a = length b ->
    all_len bs (map rd_in (map2 (mkcell al) a b)).
  Proof.
    intros Ha. revert b. induction Ha as [|x a Hx _ IH]; intros [|y b] Hb Hl; cbn [map2 map]; try constructor; try discriminate.
    - inversion Hb; subst. unfold rd_in; cbn. destruct al; auto.
    - inversion Hb; subst. apply IH; auto.
  Qed.

  (* the buffer as whole blocks plus a tail, on both sides *)
  Lemma tie_cts__cbc_cs1__BlockCipherEncClosure__Closure__call iv al ib it ob ot :
    length iv = bs -> all_len bs ib -> all_len bs ob -> length ib = length ob -> 1 <= length ib ->
    length it = length ot -> length ot < bs ->
    exists e' o', run_body X (cenv iv al (concat ib ++ it) (concat ob ++ ot)) cts__cbc_cs1__BlockCipherEncClosure__Closure__call = Some (e', VUnit)
      /\ lookup "buf" e' = Some (VBuf al (concat ib ++ it) o')
      /\ cbc_cs1_enc C iv (mkmem al (concat ib ++ it) (concat ob ++ ot)) = Ok (mkmem al (concat ib ++ it) o').
  Proof.
    intros Hiv Hib Hob Hnb Hnb1 Htl Htl2. unfold run_body. unfold block in *.
    remember (length ib) as nb eqn:Enb. remember (length ot) as tl eqn:Etl.
    assert (Hci : length (concat ib) = nb * bs) by (rewrite (all_len_concat_length bs) by auto; lia).
    assert (Hco : length (concat ob) = nb * bs) by (rewrite (all_len_concat_length bs) by auto; lia).
    remember (concat ib ++ it) as i eqn:Ei. remember (concat ob ++ ot) as o eqn:Eo.
    assert (HLi : length i = nb * bs + tl) by (subst i; rewrite app_length; lia).
    assert (HLo : length o = nb * bs + tl) by (subst o; rewrite app_length; lia).
    assert (Hdiv : ndiv (length o) bs = nb).
    { unfold ndiv. rewrite HLo. symmetry. apply (Nat.div_unique _ _ _ tl); lia. }
    assert (F0 : in_range 0 (c_bs C) = true) by (apply in_range_true; fold bs; lia).
    run_prefix 2. fold bs. rewrite Hdiv. replace (length o - nb * bs) with tl by lia.
    (* the bulk CBC part *)
    assert (Ecells : cells_of bs al (firstn (nb * bs) (skipn 0 i)) (firstn (nb * bs) (skipn 0 o)) = map2 (mkcell al) ib ob).
    { cbn [skipn]. subst i o. unfold cells_of. rewrite !firstn_app_exact by lia. rewrite !(chunks_blocks_only C) by auto. reflexivity. }
    pose (cells0 := cells_of bs al (firstn (nb * bs) (skipn 0 i)) (firstn (nb * bs) (skipn 0 o))).
    pose (Cs := cbc_enc_spec (c_E C) iv (map rd_in (map2 (mkcell al) ib ob))).
    assert (Hcl : length (map2 (mkcell al) ib ob) = nb) by (rewrite map2_length; unfold block in *; lia).
    assert (HCl : length Cs = nb) by (unfold Cs; rewrite (cbc_enc_spec_length (c_E C)), map_length; exact Hcl).
    assert (HCa : all_len bs Cs).
    { unfold Cs. apply (cbc_enc_spec_all_len bs (c_E C)); auto. apply all_len_rd_in_mkcell; auto; congruence. }
    assert (Ecbc : cts_cbc_enc C iv cells0 = (cbc_chain iv Cs, map2 wr_out (map2 (mkcell al) ib ob) Cs)).
    { unfold cells0. rewrite Ecells. apply cts_cbc_enc_eq. }
    assert (Eouts0 : outs_of (map2 wr_out (map2 (mkcell al) ib ob) Cs) = concat Cs).
    { unfold outs_of. rewrite map_cout_wr by (rewrite Hcl, HCl; reflexivity). reflexivity. }
    assert (Eouts : outs_of (ce_cs iv cells0) = concat Cs).
    { unfold ce_cs. rewrite Ecbc. cbn [snd]. exact Eouts0. }
    assert (Eiv1 : ce_iv iv cells0 = last Cs iv).
    { unfold ce_iv. rewrite Ecbc. reflexivity. }
    assert (Hol : length (concat Cs) = nb * bs).
    { rewrite (all_len_concat_length bs) by auto. unfold block in *. nia. }
    assert (Hiv1 : length (last Cs iv) = bs).
    { apply all_len_last; [auto | intros E0; rewrite E0 in HCl; cbn in HCl; lia]. }
    assert (Eo1 : MirSem.splice 0 (nb * bs) (concat Cs) o = concat Cs ++ ot).
    { subst o. apply seg_write_head. lia. }
    assert (F1 : fits 0 (nb * bs) (length o) = true) by (apply fits_true; lia).
    assert (F2 : fits 0 (nb * bs) (length i) = true) by (apply fits_true; lia).
    assert (F3 : len_eq (length (concat Cs)) (nb * bs) = true) by (apply len_eq_true; exact Hol).
    unfold bs in F1, F2, F3.
    assert (Emain : mrun C (cts_cbc_enc C) iv (mkmem al i o) 0 nb = Ok (last Cs iv, mkmem al i (concat Cs ++ ot))).
    { unfold mrun. change (mcells C (mkmem al i o) 0 nb) with cells0. rewrite Ecbc. unfold mput_out. cbn [m_out m_al m_in].
      rewrite Eouts0, Hol, HLo. replace (Nat.leb (0 + nb * bs) (nb * bs + tl)) with true by (symmetry; apply Nat.leb_le; lia).
      cbn [obind]. unfold cbc_chain. do 3 f_equal. subst o. unfold splice. cbn [firstn app Nat.add]. rewrite Hol, <- Hco, skipn_app_exact by reflexivity. reflexivity. }
    assert (Emodel : cbc_cs1_enc C iv (mkmem al i o) =
       if Nat.eqb tl 0 then Ok (mkmem al i (concat Cs ++ ot)) else
       do tin <- mget_in (mkmem al i (concat Cs ++ ot)) (nb * bs) tl;
       do pos <- usub (length o) bs;
       mput_out (mkmem al i (concat Cs ++ ot)) pos (c_E C (xorb (tin ++ zeros (bs - tl)) (last Cs iv)))).
    { unfold cbc_cs1_enc. fold bs. unfold mlen. cbn [m_out].
      assert (Hd : length o / bs = nb) by (rewrite HLo; symmetry; apply (Nat.div_unique _ _ _ tl); lia).
      assert (Hm : length o mod bs = tl) by (rewrite HLo; symmetry; apply (Nat.mod_unique _ _ nb); lia).
      rewrite Hd, Hm. replace (Nat.ltb (length o) bs) with false by (symmetry; apply Nat.ltb_ge; nia).
      rewrite Emain. cbn [obind]. reflexivity. }
    clearbody Cs.
    Opaque ce_iv ce_cs cells_of outs_of.
    run_prefix 1.
    match goal with |- context [outs_of (ce_cs ?a ?b)] => replace (outs_of (ce_cs a b)) with (concat Cs) by (symmetry; exact Eouts) end.
    match goal with |- context [ce_iv ?a ?b] => replace (ce_iv a b) with (last Cs iv) by (symmetry; exact Eiv1) end.
    match goal with |- context [len_eq ?a ?b] => replace (len_eq a b) with true by (symmetry; exact F3) end. cbv beta iota.
    match goal with |- context [MirSem.splice ?a ?b ?c ?d] => replace (MirSem.splice a b c d) with (concat Cs ++ ot) by (symmetry; exact Eo1) end.
    destruct (Nat.eq_dec tl 0) as [Htl0|Htl0].
    - (* whole blocks only *)
      assert (G1 : fits (nb * bs) tl (length (concat Cs ++ ot)) = true) by (apply fits_true; rewrite app_length; lia).
      assert (G2 : fits (nb * bs) tl (length i) = true) by (apply fits_true; lia).
      unfold bs in G1, G2.
      run_prefix 1.
      eexists _, _. split; [reflexivity|]. split; [reflexivity|]. rewrite Emodel.
      replace (Nat.eqb tl 0) with true by (symmetry; apply Nat.eqb_eq; exact Htl0). reflexivity.
    - assert (G1 : fits (nb * bs) tl (length (concat Cs ++ ot)) = true) by (apply fits_true; rewrite app_length; lia).
      assert (G2 : fits (nb * bs) tl (length i) = true) by (apply fits_true; lia).
      assert (G3 : len_eq (length (firstn tl (skipn (nb * bs) (concat Cs ++ ot)))) 0 = false).
      { apply len_eq_false. rewrite <- Hol, skipn_app_exact by reflexivity. rewrite firstn_all2 by (lia). lia. }
      unfold bs in G1, G2, G3.
      run_prefix 1.
      assert (G4 : fits 0 tl bs = true) by (apply fits_true; lia).
      assert (G5 : fits 0 tl (length (zeros bs)) = true) by (apply fits_true; rewrite zeros_length; lia).
      assert (ET : firstn tl (skipn (nb * bs) (concat Cs ++ ot)) = ot).
      { rewrite <- Hol, skipn_app_exact by reflexivity. apply firstn_all2. lia. }
      assert (EI : firstn tl (skipn (nb * bs) i) = it).
      { subst i. rewrite <- Hci, skipn_app_exact by reflexivity. apply firstn_all2. lia. }
      assert (G6 : le_ok (length (firstn tl (skipn (nb * bs) (concat Cs ++ ot)))) (length (zeros bs)) = true).
      { apply le_ok_true. rewrite ET, zeros_length. lia. }
      assert (G7 : fits 0 (length (firstn tl (skipn (nb * bs) (concat Cs ++ ot))) - 0) (length (zeros bs)) = true).
      { apply fits_true. rewrite ET, zeros_length. lia. }
      assert (G8 : len_eq (length (if al then firstn tl (skipn (nb * bs) (concat Cs ++ ot)) else firstn tl (skipn (nb * bs) i)))
                          (length (firstn tl (skipn (nb * bs) (concat Cs ++ ot))) - 0) = true).
      { apply len_eq_true. rewrite ET, EI. destruct al; lia. }
      unfold bs in G4, G5, G6, G7, G8.
      run_prefix 2. unfold bs in ET, EI. rewrite ET, EI. fold bs.
      assert (Eblk : MirSem.splice 0 (length ot - 0) (if al then ot else it) (zeros bs) = (if al then ot else it) ++ zeros (bs - tl)).
      { unfold MirSem.splice. cbn [firstn app Nat.add]. f_equal. unfold zeros. rewrite skipn_repeat_l. f_equal. lia. }
      rewrite Eblk.
      remember ((if al then ot else it) ++ zeros (bs - tl)) as blk eqn:Eb.
      assert (Hblk : length blk = bs) by (subst blk; rewrite app_length, zeros_length; destruct al; lia).
      unfold bs. run_prefix 2.
      match goal with |- context [VBlk (c_E C ?x)] => remember (c_E C x) as cb eqn:Ecb end.
      assert (Hcb : length cb = bs) by (subst cb; apply E_len; rewrite xor_into_length; exact Hblk).
      assert (J1 : le_ok bs (length (concat Cs ++ ot)) = true) by (apply le_ok_true; rewrite app_length; nia).
      unfold bs in J1.
      run_prefix 1.
      assert (HL1 : length (concat Cs ++ ot) = nb * bs + tl) by (rewrite app_length; lia).
      assert (J2 : fits (length (concat Cs ++ ot) - bs) (length (concat Cs ++ ot) - (length (concat Cs ++ ot) - bs)) (length (concat Cs ++ ot)) = true)
        by (apply fits_true; nia).
      assert (J3 : len_eq (length cb) (length (concat Cs ++ ot) - (length (concat Cs ++ ot) - bs)) = true)
        by (apply len_eq_true; nia).
      assert (J4 : len_eq (length (MirSem.splice (length (concat Cs ++ ot) - bs) (length (concat Cs ++ ot) - (length (concat Cs ++ ot) - bs))
                     cb (concat Cs ++ ot))) (length (concat Cs ++ ot)) = true).
      { apply len_eq_true. apply msplice_length; nia. }
      unfold bs in J2, J3, J4.
      run_rest.
      eexists _, _. split; [reflexivity|]. split; [reflexivity|]. rewrite Emodel.
      replace (Nat.eqb tl 0) with false by (symmetry; apply Nat.eqb_neq; lia).
      assert (Eg : mget_in (mkmem al i (concat Cs ++ ot)) (nb * bs) tl = Ok (if al then ot else it)).
      { unfold mget_in, msrc, slice. cbn [m_al m_in m_out].
        replace (nb * bs + tl - nb * bs) with tl by lia.
        destruct al.
        - rewrite HL1. replace (Nat.leb (nb * bs) (nb * bs + tl)) with true by (symmetry; apply Nat.leb_le; lia).
          rewrite Nat.leb_refl. cbn [andb]. fold bs in ET. rewrite ET. reflexivity.
        - rewrite HLi. replace (Nat.leb (nb * bs) (nb * bs + tl)) with true by (symmetry; apply Nat.leb_le; lia).
          rewrite Nat.leb_refl. cbn [andb]. fold bs in EI. rewrite EI. reflexivity. }
      rewrite Eg. cbn [obind]. unfold usub. replace (Nat.leb bs (length o)) with true by (symmetry; apply Nat.leb_le; nia).
      cbn [obind]. unfold mput_out. cbn [m_al m_in m_out].
      rewrite <- Eb, <- (xor_into_eq blk (last Cs iv)) by lia. unfold block in *. rewrite <- Ecb, Hcb.
      replace (Nat.leb (length o - bs + bs) (length (concat Cs ++ ot))) with true by (symmetry; apply Nat.leb_le; nia).
      do 2 f_equal. unfold splice, MirSem.splice. fold bs. rewrite Hcb, HL1, HLo.
      replace (nb * bs + tl - (nb * bs + tl - bs)) with bs by nia. reflexivity.
  Qed.

  (* ---- C05 over the translated source: the bytes the CbcCs1 encryption closure of cts/src/cbc_cs1.rs leaves in the
     buffer are the NIST SP 800-38A Addendum CBC-CS1 ciphertext of the message, buffer-to-buffer (any prior contents of
     the output buffer) and in place -- the tie theorem above composed with Cts_cs_proofs.cbc_cs1_enc_ok (= Props/C05). *)
  Theorem C05_cbc_cs1_enc_source_b2b iv (blocks : list (list N)) (tail : list N) (ob : list (list N)) (ot : list N) :
    cipher_wf C -> length iv = bs -> all_len bs blocks -> 1 <= length blocks -> length tail < bs ->
    all_len bs ob -> length ob = length blocks -> length ot = length tail ->
    exists e', run_body X (cenv iv false (concat blocks ++ tail) (concat ob ++ ot)) cts__cbc_cs1__BlockCipherEncClosure__Closure__call = Some (e', VUnit)
      /\ lookup "buf" e' = Some (VBuf false (concat blocks ++ tail) (cbc_cs1_spec bs (c_E C) iv blocks tail)).
  Proof.
    intros Cwf Hiv Hb Hn Ht Hob Hobl Hotl.
    destruct (tie_cts__cbc_cs1__BlockCipherEncClosure__Closure__call iv false blocks tail ob ot) as (e' & o' & Hrun & Hbuf & Hmod); auto; try lia.
    assert (Hm : msg_mem C (mkmem false (concat blocks ++ tail) (concat ob ++ ot)) blocks tail).
    { constructor; auto.
      - split; [|discriminate]. cbn [m_in m_out]. rewrite !app_length, !(all_len_concat_length bs) by auto. lia. }
    destruct (cbc_cs1_enc_ok C Cwf iv _ blocks tail Hiv Hm) as (m' & E1 & E2).
    fold bs in E2. rewrite Hmod in E1. injection E1 as <-. cbn [m_out] in E2. subst o'.
    exists e'. split; [exact Hrun | exact Hbuf].
  Qed.

  Theorem C05_cbc_cs1_enc_source_inplace iv (blocks : list (list N)) (tail : list N) :
    cipher_wf C -> length iv = bs -> all_len bs blocks -> 1 <= length blocks -> length tail < bs ->
    exists e', run_body X (cenv iv true (concat blocks ++ tail) (concat blocks ++ tail)) cts__cbc_cs1__BlockCipherEncClosure__Closure__call = Some (e', VUnit)
      /\ lookup "buf" e' = Some (VBuf true (concat blocks ++ tail) (cbc_cs1_spec bs (c_E C) iv blocks tail)).
  Proof.
    intros Cwf Hiv Hb Hn Ht.
    destruct (tie_cts__cbc_cs1__BlockCipherEncClosure__Closure__call iv true blocks tail blocks tail) as (e' & o' & Hrun & Hbuf & Hmod); auto; try lia.
    assert (Hm : msg_mem C (mkmem true (concat blocks ++ tail) (concat blocks ++ tail)) blocks tail).
    { constructor; auto. split; auto. }
    destruct (cbc_cs1_enc_ok C Cwf iv _ blocks tail Hiv Hm) as (m' & E1 & E2).
    fold bs in E2. rewrite Hmod in E1. injection E1 as <-. cbn [m_out] in E2. subst o'.
    exists e'. split; [exact Hrun | exact Hbuf].
  Qed.
End Cs1.

(* ---- C01 over the translated source: the translated CbcCs1 encryption closure run in place on a message, then the
   translated decryption closure run in place (same IV) on what it left, returns the message (D inverse to E on blocks).
   Composition of the two closure ties with Cts_dec_proofs.cts_roundtrip_composed (= Props/C01, C01_cts). *)
Section CbcCs1RoundTrip.
  Variable C : cipher.
  Let bs := c_bs C.
  Hypothesis Cwf : cipher_wf C.
  Hypothesis DE : DE_id C.
  Let Xe := bctx C [("cbc_enc", FSem (cbc_enc_sem C)); ("xor", FSem xor_sem)]
                   [("into_chunks::BS", VNat bs); ("Block::<B>::default()", VBlk (zeros bs)); ("B::BlockSize::USIZE", VNat bs)].
  Let Xd := bctx C [("cbc_dec", FSem (cbc_dec_sem C)); ("xor", FSem xor_sem)]
                   [("into_chunks::BS", VNat bs); ("Block::<B>::default()", VBlk (zeros bs)); ("B::BlockSize::USIZE", VNat bs); ("try_into::LEN", VNat bs)].

  Theorem C01_cbc_cs1_source_inplace (iv : list N) (blocks : list (list N)) (tail : list N) :
    length iv = bs -> all_len bs blocks -> 1 <= length blocks -> length tail < bs ->
    let M := concat blocks ++ tail in
    exists e1 c e2,
      run_body Xe (cenv iv true M M) cts__cbc_cs1__BlockCipherEncClosure__Closure__call = Some (e1, VUnit)
      /\ lookup "buf" e1 = Some (VBuf true M c) /\ length c = length M
      /\ run_body Xd (ClosureLib.cenv false iv true c c) cts__cbc_cs1__BlockCipherDecClosure__Closure__call = Some (e2, VUnit)
      /\ lookup "buf" e2 = Some (VBuf true c M).
  Proof.
    intros Hiv Hb Hn Ht M.
    destruct Cwf as (bs_pos & Hw & E_len & D_len).
    destruct (tie_cts__cbc_cs1__BlockCipherEncClosure__Closure__call C bs_pos E_len iv true blocks tail blocks tail) as (e1 & c & Hrun1 & Hbuf1 & Hmod1); auto.
    fold M in Hrun1, Hbuf1, Hmod1.
    assert (Hm : msg_mem C (mkmem true M M) blocks tail) by (constructor; auto; split; auto).
    assert (Hwf2 : mwf (mkmem true c c)) by (split; auto).
    destruct (cts_roundtrip_composed C (conj bs_pos (conj Hw (conj E_len D_len))) DE CbcCs1 iv (mkmem true M M) blocks tail (mkmem true c c)
                Hiv Hm Hwf2) as (c0 & Ec0 & Hlen & Hdec).
    cbn [cts_run] in Ec0, Hdec. rewrite Hmod1 in Ec0. injection Ec0 as <-. unfold mlen in Hlen. cbn [m_out] in Hlen.
    destruct (Hdec eq_refl) as (p & Ep & Hp).
    destruct (chunks_decompose bs c bs_pos) as (bl & t & Ec & Hbl & Htl & _).
    assert (Hbn : 1 <= length bl).
    { assert (HL : length c = length bl * bs + length t) by (rewrite Ec at 1; rewrite app_length, (all_len_concat_length bs) by auto; reflexivity).
      assert (HM : length M = length blocks * bs + length tail) by (unfold M; rewrite app_length, (all_len_concat_length bs) by auto; reflexivity).
      destruct bl; [cbn [length] in HL; fold bs in Htl; nia | cbn [length]; lia]. }
    destruct (tie_cts__cbc_cs1__BlockCipherDecClosure__Closure__call C (conj bs_pos (conj Hw (conj E_len D_len))) iv true bl t bl t) as (e2 & o2 & Hrun2 & Hbuf2 & Hmod2); auto.
    rewrite <- Ec in Hrun2, Hbuf2, Hmod2. rewrite Hmod2 in Ep. injection Ep as <-. cbn [m_out] in Hp. subst o2.
    exists e1, c, e2. repeat split; auto.
  Qed.
End CbcCs1RoundTrip.
