(* TieLib.v -- what the tie theorems share: the contexts in which translated bodies are run, the
   contracts of the helpers, loop reasoning. *)
From BM Require Export MirLemmas BlockModes Ints_proofs.
Local Open Scope string_scope.
Local Open Scope list_scope.



(* contract of `fn xor(out: &mut Array<u8, N>, buf: &Array<u8, N>)` (cbc, pcbc, ige, cts):
   out := out ^ buf over the common prefix, the rest of out and all of buf unchanged *)
Definition xor_sem (args : list val) : option (val * list val) :=
  match args with
  | [VBlk a; VBlk b] => Some (VUnit, [VBlk (xor_into a b); VBlk b])
  | _ => None
  end.

(* contracts of the two slice helpers of cfb-mode: over the common prefix (zip),
   xor_set1: a := a^b, b := a^b;   xor_set2: a := a^b, b := old a *)
Definition m_of (a b : list N) : nat := Nat.min (length a) (length b).
Definition set1_sem (args : list val) : option (val * list val) :=
  match args with
  | [VBlk a; VBlk b] => Some (VUnit, [VBlk (xor_into a b); VBlk (xor_into b a)])
  | _ => None
  end.
Definition set2_sem (args : list val) : option (val * list val) :=
  match args with
  | [VBlk a; VBlk b] => Some (VUnit, [VBlk (xor_into a b); VBlk (firstn (m_of a b) a ++ skipn (m_of a b) b)])
  | _ => None
  end.


(* context of a block-mode backend body: the cipher C, the crate's helper contracts *)
Definition bctx (C : cipher) (fns : list (string * fnimpl)) (consts : list (string * val)) : ctx :=
  mkctx (c_E C) (c_D C) consts fns true.

(* a `for` loop over [seq a n] establishes an invariant indexed by the next index *)
Lemma for_each_seq_inv (P : nat -> env -> Prop) body a n e0 :
  P a e0 ->
  (forall i e, a <= i < a + n -> P i e -> exists e' r, body i e = Some (Norm e' r) /\ P (S i) e') ->
  exists e', for_each (seq a n) body e0 = Some (Norm e' (RV VUnit)) /\ P (a + n) e'.
Proof.
  revert a e0. induction n as [|n IH]; intros a e0 H0 Hstep; simpl.
  - exists e0. rewrite Nat.add_0_r. auto.
  - destruct (Hstep a e0) as (e1 & r & Hb & H1); [lia | auto |].
    rewrite Hb. destruct (IH (S a) e1 H1) as (e' & He & HP).
    + intros i e Hi HPi. apply Hstep; auto. lia.
    + exists e'. split; auto. replace (a + S n) with (S a + n) by lia. auto.
Qed.

(* the sensitive rows of an impl table: everything but marker traits nobody can override behaviour with *)
Definition row := (string * string * string * list string)%type.
Definition is_aux_trait (tr : string) : bool :=
  String.eqb tr "Debug" || String.eqb tr "AlgorithmName" || String.eqb tr "Drop" || String.eqb tr "ZeroizeOnDrop".
Definition aux_rows (t : list row) : list row := filter (fun r => match r with (_, tr, _, _) => is_aux_trait tr end) t.
Definition core_rows (t : list row) : list row := filter (fun r => match r with (_, tr, _, _) => negb (is_aux_trait tr) end) t.
Definition find_impl (tr ty : string) (t : list row) : list (string * list string) :=
  map (fun r => match r with (cfg, _, _, ms) => (cfg, ms) end)
      (filter (fun r => match r with (_, tr', ty', _) => String.eqb tr tr' && String.eqb ty ty' end) t).

Lemma upd_nth_length {A} i (x : A) l : length (upd_nth i x l) = length l.
Proof. revert i; induction l as [|y l IH]; intros [|i]; simpl; auto. Qed.

Lemma nth_upd_nth_same {A} i (x d : A) l : i < length l -> nth i (upd_nth i x l) d = x.
Proof. revert i; induction l as [|y l IH]; intros [|i] H; simpl in *; auto; try lia. apply IH; lia. Qed.

Lemma nth_upd_nth_other {A} i j (x d : A) l : i <> j -> nth j (upd_nth i x l) d = nth j l d.
Proof. revert i j; induction l as [|y l IH]; intros [|i] [|j] H; simpl in *; auto; try lia. Qed.

Lemma upd_nth_id {A} i (d : A) l : upd_nth i (nth i l d) l = l.
Proof. revert i; induction l as [|y l IH]; intros [|i]; simpl; auto. now rewrite IH. Qed.

Lemma firstn_upd_nth {A} i (x : A) l k : k <= i -> firstn k (upd_nth i x l) = firstn k l.
Proof. revert i k; induction l as [|y l IH]; intros [|i] [|k] H; simpl in *; auto; try lia. f_equal. apply IH. lia. Qed.

Lemma skipn_upd_nth {A} i (x : A) l k : i < k -> skipn k (upd_nth i x l) = skipn k l.
Proof. revert i k; induction l as [|y l IH]; intros [|i] [|k] H; simpl in *; auto; try lia. apply IH. lia. Qed.

Lemma upd_nth_split {A} i (x d : A) l : i < length l ->
  upd_nth i x l = firstn i l ++ x :: skipn (S i) l.
Proof. revert i; induction l as [|y l IH]; intros [|i] H; simpl in *; auto; try lia. f_equal. apply IH. lia. Qed.

Lemma firstn_S_nth {A} i (d : A) l : i < length l -> firstn (S i) l = firstn i l ++ [nth i l d].
Proof. revert i; induction l as [|y l IH]; intros [|i] H; simpl in *; auto; try lia. f_equal. apply IH. lia. Qed.

Lemma skipn_nth_cons {A} i (d : A) l : i < length l -> skipn i l = nth i l d :: skipn (S i) l.
Proof. revert i; induction l as [|y l IH]; intros [|i] H; simpl in *; auto; try lia. apply IH. lia. Qed.

Lemma in_range_true i n : i < n -> in_range i n = true.
Proof. intros; apply Nat.ltb_lt; auto. Qed.
Lemma in_range_false i n : n <= i -> in_range i n = false.
Proof. intros; apply Nat.ltb_ge; auto. Qed.
Lemma fits_true lo len n : lo + len <= n -> fits lo len n = true.
Proof. intros; apply Nat.leb_le; auto. Qed.
Lemma len_eq_true a b : a = b -> len_eq a b = true.
Proof. intros; apply Nat.eqb_eq; auto. Qed.
Lemma len_eq_false a b : a <> b -> len_eq a b = false.
Proof. intros; apply Nat.eqb_neq; auto. Qed.
Lemma le_ok_true a b : a <= b -> le_ok a b = true.
Proof. intros; apply Nat.leb_le; auto. Qed.

(* the zip-xor loop: state after k iterations, one step, and the end *)
Definition xor_upto (k : nat) (a b : list N) : list N := xorb (firstn k a) (firstn k b) ++ skipn k a.

Lemma xor_upto_length k a b : k <= Nat.min (length a) (length b) -> length (xor_upto k a b) = length a.
Proof. intros H. unfold xor_upto. rewrite app_length, xorb_length, !firstn_length, skipn_length. lia. Qed.

Lemma xor_upto_step i a b : i < Nat.min (length a) (length b) ->
  upd_nth i (N.lxor (nth i (xor_upto i a b) 0%N) (nth i b 0%N)) (xor_upto i a b) = xor_upto (S i) a b.
Proof.
  intros H. unfold xor_upto.
  set (X := xorb (firstn i a) (firstn i b)).
  assert (Hl : length X = i) by (unfold X; rewrite xorb_length, !firstn_length; lia).
  assert (Hs : skipn i a = nth i a 0%N :: skipn (S i) a) by (apply skipn_nth_cons; lia).
  rewrite Hs.
  rewrite (upd_nth_split _ _ 0%N) by (rewrite app_length; simpl length; lia).
  rewrite app_nth2 by lia. rewrite Hl, Nat.sub_diag.
  rewrite firstn_app, Hl, Nat.sub_diag, firstn_O, app_nil_r, firstn_all2 by lia.
  assert (Hk : skipn (S i) (X ++ nth i a 0%N :: skipn (S i) a) = skipn (S i) a).
  { replace (S i) with (length X + 1) at 1 by lia. rewrite skipn_app.
    rewrite (skipn_all2 (n := length X + 1)) by lia.
    replace (length X + 1 - length X) with 1 by lia. reflexivity. }
  rewrite Hk. change (nth 0 (nth i a 0%N :: skipn (S i) a) 0%N) with (nth i a 0%N).
  rewrite (firstn_S_nth i 0%N a), (firstn_S_nth i 0%N b) by lia.
  rewrite xorb_app by (rewrite !firstn_length; lia).
  change (xorb [nth i a 0%N] [nth i b 0%N]) with [N.lxor (nth i a 0%N) (nth i b 0%N)].
  rewrite <- app_assoc. reflexivity.
Qed.

Lemma xor_upto_nth_at i a b : i < Nat.min (length a) (length b) -> nth i (xor_upto i a b) 0%N = nth i a 0%N.
Proof.
  intros H. unfold xor_upto.
  assert (Hl : length (xorb (firstn i a) (firstn i b)) = i) by (rewrite xorb_length, !firstn_length; lia).
  rewrite app_nth2 by lia. rewrite Hl, Nat.sub_diag. rewrite (skipn_nth_cons i 0%N a) by lia. reflexivity.
Qed.

Lemma xor_upto_step' i a b : i < Nat.min (length a) (length b) ->
  upd_nth i (N.lxor (nth i a 0%N) (nth i b 0%N)) (xor_upto i a b) = xor_upto (S i) a b.
Proof. intros H. rewrite <- (xor_upto_nth_at i a b H). apply xor_upto_step; auto. Qed.

Lemma xor_upto_end a b : xor_upto (Nat.min (length a) (length b)) a b = xor_into a b.
Proof.
  unfold xor_upto, xor_into.
  rewrite <- (firstn_xorb _ a b), firstn_all2 by (rewrite xorb_length; lia).
  destruct (Nat.le_ge_cases (length a) (length b)) as [H|H].
  - rewrite Nat.min_l by lia. rewrite !skipn_all2 by lia. reflexivity.
  - rewrite Nat.min_r by lia. reflexivity.
Qed.

(* ---- generic "first k positions already updated" state of an index loop a[i] := f a[i] b[i] -------- *)
Definition upto {A B} (f : A -> B -> A) (k : nat) (a : list A) (b : list B) : list A :=
  map2 f (firstn k a) (firstn k b) ++ skipn k a.

Lemma map2_app {A B R} (f : A -> B -> R) a1 a2 b1 b2 : length a1 = length b1 ->
  map2 f (a1 ++ a2) (b1 ++ b2) = map2 f a1 b1 ++ map2 f a2 b2.
Proof. revert b1; induction a1 as [|x a1 IH]; intros [|y b1] H; simpl in *; try discriminate; auto.
  f_equal. apply IH. lia. Qed.

Lemma firstn_map2 {A B R} (f : A -> B -> R) n a b : firstn n (map2 f a b) = map2 f (firstn n a) (firstn n b).
Proof. revert a b; induction n as [|n IH]; intros [|x a] [|y b]; simpl; auto. now rewrite IH. Qed.

Lemma upto_length {A B} (f : A -> B -> A) k a b : k <= length b -> length (upto f k a b) = length a.
Proof. intros H. unfold upto. rewrite app_length, map2_length, !firstn_length, skipn_length. lia. Qed.

Lemma upto_0 {A B} (f : A -> B -> A) a b : upto f 0 a b = a.
Proof. reflexivity. Qed.

Lemma upto_step {A B} (f : A -> B -> A) i a b da db : i < length a -> i < length b ->
  upd_nth i (f (nth i (upto f i a b) da) (nth i b db)) (upto f i a b) = upto f (S i) a b.
Proof.
  intros Ha Hb. unfold upto.
  set (X := map2 f (firstn i a) (firstn i b)).
  assert (Hl : length X = i) by (unfold X; rewrite map2_length, !firstn_length; lia).
  assert (Hs : skipn i a = nth i a da :: skipn (S i) a) by (apply skipn_nth_cons; lia).
  rewrite Hs.
  rewrite (upd_nth_split _ _ da) by (rewrite app_length; simpl length; lia).
  rewrite app_nth2 by lia. rewrite Hl, Nat.sub_diag.
  rewrite firstn_app, Hl, Nat.sub_diag, firstn_O, app_nil_r, firstn_all2 by lia.
  assert (Hk : skipn (S i) (X ++ nth i a da :: skipn (S i) a) = skipn (S i) a).
  { replace (S i) with (length X + 1) at 1 by lia. rewrite skipn_app.
    rewrite (skipn_all2 (n := length X + 1)) by lia.
    replace (length X + 1 - length X) with 1 by lia. reflexivity. }
  rewrite Hk. change (nth 0 (nth i a da :: skipn (S i) a) da) with (nth i a da).
  rewrite (firstn_S_nth i da a), (firstn_S_nth i db b) by lia.
  rewrite map2_app by (rewrite !firstn_length; lia).
  change (map2 f [nth i a da] [nth i b db]) with [f (nth i a da) (nth i b db)].
  rewrite <- app_assoc. reflexivity.
Qed.

Lemma upto_all {A B} (f : A -> B -> A) a b : length a <= length b -> upto f (length a) a b = map2 f a b.
Proof.
  intros H. unfold upto. rewrite firstn_all, skipn_all, app_nil_r.
  rewrite <- (firstn_all a) at 1. rewrite <- firstn_map2, firstn_all2; auto.
  rewrite map2_length. lia.
Qed.

Lemma last_nth {A} (l : list A) d d' : l <> [] -> last l d = nth (length l - 1) l d'.
Proof. induction l as [|x l IH]; intros H; [congruence|]. destruct l as [|y l]; [reflexivity|].
  change (last (x :: y :: l) d) with (last (y :: l) d). rewrite IH by discriminate. simpl length.
  replace (S (S (length l)) - 1) with (S (length l - 0)) by lia. simpl. rewrite Nat.sub_0_r. reflexivity. Qed.

(* symbolic evaluation of a translated body: everything on syntax computes, functions on symbolic data
   (blocks, lengths, indices) stay folded; [deref_deep] stays folded too (it is only reached once
   the body has been evaluated, and unfolding it on a symbolic value is exponential) *)
Ltac ev :=
  cbv -[deref_deep for_each loopN xor_upto upto in_range fits len_eq le_ok Nat.add Nat.sub Nat.mul Nat.min ndiv Nat.modulo length seq xorb xor_into nth upd_nth
        firstn skipn app splice csplice N.lxor map map2 repeat zeros rd_in rd_out wr_out xor_in2out c_E c_D c_bs c_w last
        le_encode be_encode le_decode be_decode wrap pow2 to_usize N.add N.sub N.mul N.modulo N.leb N.ltb N.eqb concat rev].

(* the same, also through [deref_deep] (once no loop is pending) *)
Ltac evf :=
  cbv -[for_each loopN xor_upto upto in_range fits len_eq le_ok Nat.add Nat.sub Nat.mul Nat.min ndiv Nat.modulo length seq xorb xor_into nth upd_nth
        firstn skipn app splice csplice N.lxor map map2 repeat zeros rd_in rd_out wr_out xor_in2out c_E c_D c_bs c_w last
        le_encode be_encode le_decode be_decode wrap pow2 to_usize N.add N.sub N.mul N.modulo N.leb N.ltb N.eqb concat rev].

Ltac solve_len :=
  try unfold splice; unfold block in *;
  repeat rewrite ?be_encode_length, ?le_encode_length, ?xor_into_length;
  repeat rewrite ?app_length, ?xorb_length, ?firstn_length, ?skipn_length, ?upd_nth_length, ?map_length,
                 ?map2_length, ?repeat_length;
  cbn [length];
  repeat rewrite ?xor_upto_length, ?upto_length by (cbn [length]; lia);
  cbn [length]; try unfold rd_out; try unfold xor_in2out; try unfold wr_out; cbn [cout];
  repeat rewrite ?app_length, ?xorb_length, ?firstn_length, ?skipn_length, ?be_encode_length, ?le_encode_length;
  lia.

(* facts about checks stated up front by a proof (cheap: exact matches, no arithmetic) *)
Ltac fact1 :=
  match goal with
  | H : in_range ?a ?b = _ |- context [in_range ?a ?b] => rewrite H
  | H : le_ok ?a ?b = _ |- context [le_ok ?a ?b] => rewrite H
  | H : len_eq ?a ?b = _ |- context [len_eq ?a ?b] => rewrite H
  | H : fits ?a ?b ?c = _ |- context [fits ?a ?b ?c] => rewrite H
  end.
Ltac fact1_in H0 :=
  match goal with
  | H : in_range ?a ?b = _ |- _ => match type of H0 with context [in_range a b] => rewrite H in H0 end
  | H : le_ok ?a ?b = _ |- _ => match type of H0 with context [le_ok a b] => rewrite H in H0 end
  | H : len_eq ?a ?b = _ |- _ => match type of H0 with context [len_eq a b] => rewrite H in H0 end
  | H : fits ?a ?b ?c = _ |- _ => match type of H0 with context [fits a b c] => rewrite H in H0 end
  end.

(* discharge one visible bound check (a closed instance; instances under binders are skipped) *)
Ltac check1 :=
  match goal with
  | |- context [in_range ?a ?b] => first [rewrite (in_range_true a b) by solve_len | rewrite (in_range_false a b) by solve_len]
  | |- context [fits ?a ?b ?c] => rewrite (fits_true a b c) by solve_len
  | |- context [len_eq ?a ?b] => first [rewrite (len_eq_true a b) by solve_len | rewrite (len_eq_false a b) by solve_len]
  | |- context [le_ok ?a ?b] => rewrite (le_ok_true a b) by solve_len
  end.
Ltac check1_in H :=
  match type of H with
  | context [in_range ?a ?b] => first [rewrite (in_range_true a b) in H by solve_len | rewrite (in_range_false a b) in H by solve_len]
  | context [fits ?a ?b ?c] => rewrite (fits_true a b c) in H by solve_len
  | context [len_eq ?a ?b] => first [rewrite (len_eq_true a b) in H by solve_len | rewrite (len_eq_false a b) in H by solve_len]
  | context [le_ok ?a ?b] => rewrite (le_ok_true a b) in H by solve_len
  end.

(* evaluate, discharging the bound checks that become visible *)
Ltac ev_checks := ev; repeat (progress (first [progress (repeat fact1) | repeat check1]); ev).
Ltac evf_checks := evf; repeat (progress (repeat check1); evf).

Ltac ev_in H :=
  cbv -[deref_deep for_each loopN xor_upto upto in_range fits len_eq le_ok Nat.add Nat.sub Nat.mul Nat.min ndiv Nat.modulo length seq xorb xor_into nth upd_nth
        firstn skipn app splice csplice N.lxor map map2 repeat zeros rd_in rd_out wr_out xor_in2out c_E c_D c_bs c_w last
        le_encode be_encode le_decode be_decode wrap pow2 to_usize N.add N.sub N.mul N.modulo N.leb N.ltb N.eqb concat rev] in H.

(* evaluate one subterm of the goal in place *)
Ltac eval_sub t :=
  let r := fresh "r" in let H := fresh "Hr" in
  remember t as r eqn:H; ev_in H;
  repeat (progress (first [progress (repeat (fact1_in H)) | repeat check1_in H]); ev_in H);
  rewrite H; clear r H; cbv beta iota.

(* the callee frame of [call_src] *)
Ltac eval_frame :=
  match goal with |- context [make_frame ?k ?ps ?ds ?fr] => eval_sub (make_frame k ps ds fr) end.

(* split the statement list being run after its first k statements and evaluate those *)
Ltac run_prefix k :=
  match goal with |- context [run_stmts ?ev ?e ?ss] =>
    let b := eval cbv in ss in
    let pre := eval cbv in (firstn k b) in
    let post := eval cbv in (skipn k b) in
    change (run_stmts ev e ss) with (run_stmts ev e (pre ++ post));
    rewrite (run_stmts_app ev e pre post) by discriminate;
    let pre1 := eval cbv in (pre ++ [SItem ""%string]) in
    change (run_stmts ev e (pre ++ [SItem ""%string])) with (run_stmts ev e pre1);
    eval_sub (run_stmts ev e pre1)
  end.

(* evaluate the whole remaining statement list *)
Ltac run_rest :=
  match goal with |- context [run_stmts ?ev ?e ?ss] => eval_sub (run_stmts ev e ss) end.

(* a whole straight-line function: evaluate (discharging bound checks), then the result conversion *)
Ltac run_fn := unfold call_fn, call_src; ev_checks; evf.

(* [evf] on the left-hand side only (the right-hand side is the model and must stay folded) *)
Ltac evf_l :=
  match goal with |- _ = ?R =>
    let r := fresh "rhs" in let H := fresh "Hrhs" in
    remember R as r eqn:H; evf; rewrite H; clear H r
  end.

(* ---- segmented buffers: reads and writes of a[lo..lo+len] when a = pre ++ cur ++ post ------------- *)
Lemma seg_read {A} (pre cur post : list A) lo len : lo = length pre -> len = length cur ->
  firstn len (skipn lo (pre ++ cur ++ post)) = cur.
Proof. intros -> ->. rewrite skipn_app_exact by reflexivity. apply firstn_app_exact. reflexivity. Qed.

Lemma seg_write (pre cur post s : list N) lo len : lo = length pre -> len = length cur ->
  splice lo len s (pre ++ cur ++ post) = pre ++ s ++ post.
Proof. intros -> ->. unfold splice. rewrite firstn_app_exact by reflexivity.
  rewrite (app_assoc pre cur post), skipn_app_exact by (now rewrite app_length). reflexivity. Qed.

Lemma seg_read_tail {A} (pre post : list A) lo len : lo = length pre -> len = length post ->
  firstn len (skipn lo (pre ++ post)) = post.
Proof. intros -> ->. rewrite skipn_app_exact by reflexivity. apply firstn_all. Qed.

Lemma seg_write_tail (pre post s : list N) lo len : lo = length pre -> len = length post ->
  splice lo len s (pre ++ post) = pre ++ s.
Proof. intros -> ->. unfold splice. rewrite firstn_app_exact by reflexivity.
  rewrite <- app_length, skipn_all. now rewrite app_nil_r. Qed.

Lemma seg_write_head (cur post s : list N) len : len = length cur -> splice 0 len s (cur ++ post) = s ++ post.
Proof. intros ->. unfold splice. cbn [firstn app Nat.add]. now rewrite skipn_app_exact by reflexivity. Qed.
Lemma seg_read_head {A} (cur post : list A) len : len = length cur -> firstn len (skipn 0 (cur ++ post)) = cur.
Proof. intros ->. cbn [skipn]. now apply firstn_app_exact. Qed.

Lemma firstn_add {A} a b (l : list A) : firstn (a + b) l = firstn a l ++ firstn b (skipn a l).
Proof. revert l; induction a as [|a IH]; intros l; [reflexivity|]. destruct l as [|x l]; cbn [Nat.add firstn skipn app].
  - now rewrite firstn_nil.
  - now rewrite IH. Qed.

Lemma skipn_add {A} a b (l : list A) : skipn (a + b) l = skipn b (skipn a l).
Proof. revert l; induction a as [|a IH]; intros l; [reflexivity|]. destruct l as [|x l]; cbn [Nat.add skipn].
  - now rewrite skipn_nil.
  - apply IH. Qed.

(* ---- from one translated block body to the whole block sequence ------------------------------------ *)
(* [fold_src step]: run a (partial) single-block step, as obtained from a translated backend body through the
   interpreter, over a list of cells, left to right -- what BlockCtx / the single-block loop of the drivers does.
   If each step is the model's step (under an invariant on the state and a condition on the cells), the whole run
   is the model's [fold_cells], to which the model-level theorems (recurrences, round trips, ...) apply. *)
Section FoldSrc.
  Context {S : Type}.
  Variable step : S -> cell -> option (S * cell).
  Fixpoint fold_src (st : S) (cs : list cell) : option (S * list cell) :=
    match cs with
    | [] => Some (st, [])
    | c :: cs' =>
        match step st c with
        | Some (st1, c1) => match fold_src st1 cs' with Some (st2, o) => Some (st2, c1 :: o) | None => None end
        | None => None
        end
    end.
  Variable f : S -> cell -> S * cell.
  Variable Inv : S -> Prop.
  Variable Pc : cell -> Prop.
  Hypothesis step_ok : forall st c, Inv st -> Pc c -> step st c = Some (f st c) /\ Inv (fst (f st c)).
  Lemma fold_src_ok st cs : Inv st -> Forall Pc cs -> fold_src st cs = Some (fold_cells f st cs).
  Proof.
    intros Hi Hc. revert st Hi. induction Hc as [|c cs Hc _ IH]; intros st Hi; [reflexivity|].
    cbn [fold_src fold_cells]. destruct (step_ok st c Hi Hc) as [-> Hi']. destruct (f st c) as [st1 c1]. cbn [fst] in Hi'.
    rewrite (IH st1 Hi'). destruct (fold_cells f st1 cs). reflexivity.
  Qed.
End FoldSrc.
