(* CtrLib.v -- list facts behind the tie theorems of the CTR flavours: the chunk-by-chunk loops of
   `current_block` and `from_nonce`. *)
From BM Require Export Tie.TieLib Ctr Ctr_proofs Ints_proofs.
Local Open Scope list_scope.

Lemma skipn_skipn' {A} a c (l : list A) : skipn c (skipn a l) = skipn (a + c) l.
Proof. revert l; induction a as [|a IH]; intros l; [reflexivity|]. destruct l as [|x l]; [now rewrite !skipn_nil|]. apply IH. Qed.

(* writing through `block[a..][..c]` is writing `block[a..a+c]` *)
Lemma splice_nested a c t blk : a + c <= length blk ->
  splice a (length blk - a) (splice 0 c t (firstn (length blk - a) (skipn a blk))) blk = splice a c t blk.
Proof.
  intros H. unfold splice.
  rewrite (firstn_all2 (n := length blk - a)) by (rewrite skipn_length; lia).
  replace (a + (length blk - a)) with (length blk) by lia.
  rewrite skipn_all, app_nil_r. change (firstn 0 (skipn a blk)) with (@nil N). cbn [app Nat.add].
  rewrite skipn_skipn'. reflexivity.
Qed.

Lemma mapi_from_snoc {A B} (f : nat -> A -> B) k l x :
  mapi_from f k (l ++ [x]) = mapi_from f k l ++ [f (k + length l) x].
Proof. revert k; induction l as [|y l IH]; intros k; simpl.
  - now rewrite Nat.add_0_r.
  - rewrite IH. replace (S k + length l) with (k + S (length l)) by lia. reflexivity. Qed.

(* the block after k chunks have been written: k encoded chunks, the rest still zero *)
Definition blk_upto (cs : nat) (f : nat -> N -> list N) (k : nat) (nonce : list N) : list N :=
  concat (mapi_from f 0 (firstn k nonce)) ++ zeros (cs * (length nonce - k)).

Lemma concat_mapi_length cs (f : nat -> N -> list N) k l :
  (forall i v, length (f i v) = cs) -> length (concat (mapi_from f k l)) = cs * length l.
Proof. intros Hf. revert k. induction l as [|x l IH]; intros k; simpl; [lia|].
  rewrite app_length, Hf, IH. lia. Qed.

Lemma blk_upto_length cs f k nonce : (forall i v, length (f i v) = cs) -> k <= length nonce ->
  length (blk_upto cs f k nonce) = cs * length nonce.
Proof. intros Hf Hk. unfold blk_upto, zeros. rewrite app_length, (concat_mapi_length cs), firstn_length, repeat_length by auto.
  replace (Nat.min k (length nonce)) with k by lia. nia. Qed.

Lemma blk_upto_step cs f k nonce : (forall i v, length (f i v) = cs) -> k < length nonce ->
  splice (cs * k) cs (f k (nth k nonce 0%N)) (blk_upto cs f k nonce) = blk_upto cs f (S k) nonce.
Proof.
  intros Hf Hk. unfold blk_upto, splice.
  assert (Hl : length (concat (mapi_from f 0 (firstn k nonce))) = cs * k).
  { rewrite (concat_mapi_length cs), firstn_length by auto. replace (Nat.min k (length nonce)) with k by lia. reflexivity. }
  rewrite firstn_app, Hl, Nat.sub_diag, firstn_O, app_nil_r, firstn_all2 by lia.
  rewrite (firstn_S_nth k 0%N nonce) by lia. rewrite mapi_from_snoc, concat_app. cbn [concat]. rewrite app_nil_r.
  rewrite firstn_length. replace (Nat.min k (length nonce)) with k by lia. cbn [Nat.add].
  rewrite <- !app_assoc. f_equal. f_equal.
  replace (cs * k + cs) with (length (concat (mapi_from f 0 (firstn k nonce))) + cs) by lia.
  rewrite skipn_app. rewrite (skipn_all2 (n := length _ + cs)) by lia.
  replace (length (concat (mapi_from f 0 (firstn k nonce))) + cs - length (concat (mapi_from f 0 (firstn k nonce)))) with cs by lia.
  unfold zeros. replace (cs * (length nonce - k)) with (cs + cs * (length nonce - S k)) by nia.
  rewrite repeat_app, skipn_app, repeat_length, Nat.sub_diag.
  rewrite (skipn_all2 (n := cs)) by (rewrite repeat_length; lia). reflexivity.
Qed.

Lemma blk_upto_0 cs f nonce : blk_upto cs f 0 nonce = zeros (cs * length nonce).
Proof. unfold blk_upto. cbn [firstn mapi_from concat app]. now rewrite Nat.sub_0_r. Qed.

Lemma blk_upto_all cs f nonce : blk_upto cs f (length nonce) nonce = concat (mapi_from f 0 nonce).
Proof. unfold blk_upto. rewrite firstn_all, Nat.sub_diag, Nat.mul_0_r. cbn [zeros repeat]. now rewrite app_nil_r. Qed.

(* ---- from_nonce: chunk i of the block ---------------------------------------------------------- *)
Lemma chunk_at {A} cs (chs : list (list A)) t i d : all_len cs chs -> i < length chs ->
  firstn cs (skipn (cs * i) (concat chs ++ t)) = nth i chs d.
Proof.
  intros Hall. revert i. induction Hall as [|ch chs Hc _ IH]; intros i Hi; [simpl in Hi; lia|].
  destruct i as [|i].
  - rewrite Nat.mul_0_r. cbn [skipn concat nth]. rewrite <- app_assoc, firstn_app, Hc, Nat.sub_diag, firstn_O, app_nil_r.
    apply firstn_all2. lia.
  - cbn [concat nth]. rewrite <- app_assoc.
    replace (cs * S i) with (length ch + cs * i) by (rewrite Hc; nia).
    rewrite skipn_app, (skipn_all2 (n := length ch + cs * i)) by lia. cbn [app].
    replace (length ch + cs * i - length ch) with (cs * i) by lia. apply IH. simpl in Hi. lia.
Qed.

(* the words after k chunks have been decoded *)
Definition words_upto (g : nat -> list N -> N) (k : nat) (chs : list (list N)) : list N :=
  mapi_from g 0 (firstn k chs) ++ repeat 0%N (length chs - k).

Lemma words_upto_length g k chs : k <= length chs -> length (words_upto g k chs) = length chs.
Proof. intros H. unfold words_upto. rewrite app_length, mapi_from_length, firstn_length, repeat_length. lia. Qed.

Lemma words_upto_step g k chs : k < length chs ->
  upd_nth k (g k (nth k chs [])) (words_upto g k chs) = words_upto g (S k) chs.
Proof.
  intros Hk. unfold words_upto.
  assert (Hl : length (mapi_from g 0 (firstn k chs)) = k) by (rewrite mapi_from_length, firstn_length; lia).
  rewrite (upd_nth_split _ _ 0%N) by (rewrite app_length, repeat_length; lia).
  rewrite firstn_app, Hl, Nat.sub_diag, firstn_O, app_nil_r, firstn_all2 by lia.
  rewrite (firstn_S_nth k [] chs) by lia. rewrite mapi_from_snoc, firstn_length.
  replace (Nat.min k (length chs)) with k by lia. cbn [Nat.add]. rewrite <- app_assoc. f_equal. cbn [app]. f_equal.
  replace (S k) with (length (mapi_from g 0 (firstn k chs)) + 1) at 1 by lia. rewrite skipn_app.
  rewrite (skipn_all2 (n := length _ + 1)) by lia. cbn [app].
  replace (length (mapi_from g 0 (firstn k chs)) + 1 - length (mapi_from g 0 (firstn k chs))) with 1 by lia.
  replace (length chs - k) with (S (length chs - S k)) by lia. reflexivity.
Qed.

Lemma words_upto_0 g chs : words_upto g 0 chs = repeat 0%N (length chs).
Proof. unfold words_upto. cbn [firstn mapi_from app]. now rewrite Nat.sub_0_r. Qed.

Lemma words_upto_all g chs : words_upto g (length chs) chs = mapi_from g 0 chs.
Proof. unfold words_upto. rewrite firstn_all, Nat.sub_diag. cbn [repeat]. now rewrite app_nil_r. Qed.

(* kept folded during symbolic evaluation *)
Global Opaque blk_upto words_upto.
